(* C08, counter independence, part 7: the WRITER.
   NativeFormatter.to_string / FoamFormatter.to_string on an SDict commute with the renaming of placeholder ids
   (CounterBase.rename_str, CounterParse.Rsd):

       to_string_sd (rename_sd d s) = rename_str d (to_string_sd s)            (writer_equivariant)

   so a written text that contains no placeholder name is the same text whatever the counter was
   (writer_invariant), and the text written after a read / by DictParser.parse does not depend on the counter (sections 9, 11).

   Side condition write_safe (a boolean on s, class based, so invariant under the renaming):
     - ids of the line comment and include tables are six digit numbers;
     - table texts begin with a character that is neither an upper case letter nor a digit (comments begin with a
       slash, directives with a hash); block comments also end with one;
     - semi_ok: in keys, string leaves and table texts a semicolon is never directly followed by an upper case letter or
       a digit.  The re-insertion pattern  PLACEHOLDER ws+ PLACEHOLDER;  ends with a semicolon: what follows it could
       otherwise spell a new placeholder together with the end of the text put in its place
       (C08_writer_safe_finding in Properties/C08_add.v). *)
From Coq Require Import String.
From Coq Require Import NArith ZArith Bool Lia ZifyBool ZifyN ZifyNat.
From DictIO Require Import Chars Str Value Scalar KeyPath SDict Layout Lexer TokParser Reader MiscSpec CliProofs.
From DictIO Require ScalarProofs LayoutProofs FoamProofs OrderProofs TypeTable EvalProofs.
From DictIO Require Import Expr Eval Cli Parse.
From DictIO Require Import CounterBase CounterLex CounterParse CounterInsert CounterProofs CounterRead.
From Coq Require Import List.
Import ListNotations.
Open Scope N_scope.

(* ================================================================================================ *)
(* 1. the side condition                                                                            *)
(* ================================================================================================ *)
Definition head_ok (s : str) : bool := match s with [] => true | c :: _ => negb (isAN c) end.
Fixpoint semi_ok (s : str) : bool :=
  match s with [] => true | c :: s' => (negb (c =? c_semi) || head_ok s') && semi_ok s' end.
Fixpoint last_ok (s : str) : bool := match s with [] => false | [c] => negb (isAN c) | _ :: s' => last_ok s' end.
Definition bc_ok (t : str) : bool := head_ok t && last_ok t && semi_ok t.
Definition lc_ok (t : str) : bool := head_ok t && semi_ok t.
Definition sc_ok (v : scalar) : bool := match v with SStr s => semi_ok s | SFloat l => semi_ok l | _ => true end.
Definition key_ok (k : key) : bool := match k with KS s => semi_ok s | KI _ => true end.
Fixpoint tree_ok (t : tree) : bool :=
  match t with
  | Leaf v => sc_ok v
  | Dict kvs => (fix go (l : list (key * tree)) : bool :=
                   match l with [] => true | (k, c) :: l' => key_ok k && tree_ok c && go l' end) kvs
  | Lst ts => (fix go (l : list tree) : bool := match l with [] => true | c :: l' => tree_ok c && go l' end) ts
  end.
Definition idb {V} (e : N * V) : bool := fst e <? 1000000.
Definition inc_name (e : N * include_entry) : str := snd (fst (snd e)).
Definition write_safe (s : sdict) : bool :=
  tree_ok (Dict (sd_data s)) && forallb (fun e => bc_ok (snd e)) (sd_bc s) &&
  forallb (fun e => idb e && semi_ok (inc_name e)) (sd_inc s) && forallb (fun e => idb e && lc_ok (snd e)) (sd_lc s).

Lemma tree_ok_dict kvs : tree_ok (Dict kvs) = forallb (fun kc => key_ok (fst kc) && tree_ok (snd kc)) kvs.
Proof. cbn [tree_ok]. induction kvs as [|[k c] l IH]; [reflexivity|]. cbn [forallb fst snd]. rewrite IH. reflexivity. Qed.
Lemma tree_ok_lst ts : tree_ok (Lst ts) = forallb tree_ok ts.
Proof. cbn [tree_ok]. induction ts as [|c l IH]; [reflexivity|]. cbn [forallb]. rewrite IH. reflexivity. Qed.

(* ---- ends ------------------------------------------------------------------------------------------ *)
(* the string is empty or ends with a character that is neither upper case / digit nor a semicolon *)
Definition endc (a : str) : Prop := a = [] \/ exists a' c, a = a' ++ [c] /\ isAN c = false /\ c <> c_semi.

Lemma endc_lf a : endc (a ++ [c_lf]).
Proof. right. exists a, c_lf. split; [reflexivity|]. split; [reflexivity|discriminate]. Qed.
Lemma endc_app a b : endc b -> b <> [] -> endc (a ++ b).
Proof.
  intros [->|(b' & c & -> & H1 & H2)] Hne; [congruence|]. right. exists (a ++ b'), c. rewrite app_assoc. repeat split; assumption.
Qed.
Lemma endc_app' a b : endc a -> endc b -> endc (a ++ b).
Proof. intros Ha Hb. destruct b as [|x b]; [rewrite app_nil_r; exact Ha|]. apply endc_app; [exact Hb|discriminate]. Qed.

Lemma head_ok_app a b : a <> [] -> head_ok (a ++ b) = head_ok a.
Proof. destruct a; [congruence|reflexivity]. Qed.
Lemma head_ok_app' a b : head_ok a = true -> head_ok b = true -> head_ok (a ++ b) = true.
Proof. destruct a; intros H1 H2; [exact H2|exact H1]. Qed.

Lemma semi_ok_app_B a b : semi_ok a = true -> semi_ok b = true -> head_ok b = true -> semi_ok (a ++ b) = true.
Proof.
  intros Ha Hb Hh. induction a as [|c a IH]; [exact Hb|]. cbn [semi_ok app] in *. apply andb_true_iff in Ha. destruct Ha as [H1 H2].
  rewrite (IH H2), andb_true_r. destruct a as [|x a]; [cbn [app]; rewrite Hh; apply orb_true_r|exact H1].
Qed.

Lemma semi_ok_app_E a b : semi_ok a = true -> semi_ok b = true -> endc a -> semi_ok (a ++ b) = true.
Proof.
  intros Ha Hb [->|(a' & c & -> & H1 & H2)]; [exact Hb|]. rewrite <- app_assoc. cbn [app].
  induction a' as [|x a' IH].
  - cbn [app semi_ok]. rewrite Hb. apply N.eqb_neq in H2. rewrite H2. reflexivity.
  - cbn [app semi_ok] in *. apply andb_true_iff in Ha. destruct Ha as [H3 H4]. rewrite (IH H4), andb_true_r.
    destruct a' as [|y a']; exact H3.
Qed.

Lemma semi_ok_suffix a b : semi_ok (a ++ b) = true -> semi_ok b = true.
Proof. induction a as [|c a IH]; intros H; [exact H|]. cbn [app semi_ok] in H. apply andb_true_iff in H. exact (IH (proj2 H)). Qed.

Lemma semi_ok_nosemi s : forallb (fun c => negb (c =? c_semi)) s = true -> semi_ok s = true.
Proof.
  induction s as [|c s IH]; intros H; [reflexivity|]. cbn [forallb] in H. apply andb_true_iff in H. destruct H as [H1 H2].
  cbn [semi_ok]. rewrite H1, (IH H2). reflexivity.
Qed.

Lemma last_ok_endn s : last_ok s = true -> endn s.
Proof.
  induction s as [|c s IH]; intros H; [discriminate H|]. intros a x E.
  destruct s as [|y s].
  - destruct a as [|z a]; [injection E as ->; cbn in H; apply negb_true_iff; exact H|]. destruct a; discriminate E.
  - destruct a as [|z a]; [discriminate E|]. injection E as _ E. exact (IH H a x E).
Qed.

Lemma last_ok_snoc s : last_ok s = true -> exists a c, s = a ++ [c] /\ isAN c = false.
Proof.
  intros H. destruct s as [|x s] using rev_ind; [discriminate H|]. exists s, x. split; [reflexivity|].
  exact (last_ok_endn _ H s x eq_refl).
Qed.

(* ================================================================================================ *)
(* 2. renaming and concatenation                                                                    *)
(* ================================================================================================ *)
Section Writer.
Variable d : Z.
Local Notation R := (rename_str d).

Lemma R_app_B (a b : list N) : head_ok b = true -> R (a ++ b) = R a ++ R b.
Proof.
  destruct b as [|c b]; intros H; [rewrite !app_nil_r; reflexivity|].
  apply R_app_r. apply negb_true_iff. exact H.
Qed.

Lemma R_app_E (a b : list N) : endc a -> R (a ++ b) = R a ++ R b.
Proof.
  intros [->|(a' & c & -> & H1 & _)]; [reflexivity|]. rewrite <- app_assoc. cbn [app].
  rewrite (R_app_r' d a' c b H1), (R_snoc d a' c H1), <- app_assoc. reflexivity.
Qed.

Lemma head_ok_R (s : list N) : head_ok (R s) = head_ok s.
Proof.
  pose proof (dsim_rename d s) as H. destruct H as [|a b s t Hab _]; [reflexivity|]. cbn [head_ok]. rewrite (ds_AN a b Hab). reflexivity.
Qed.

(* x' is the renamed x and x is free of dangerous semicolons *)
Definition good (x x' : str) : Prop := x' = R x /\ semi_ok x = true.

Lemma good_nil : good [] [].
Proof. split; reflexivity. Qed.
Lemma good_app_B a a' b b' : good a a' -> good b b' -> head_ok b = true -> good (a ++ b) (a' ++ b').
Proof. intros [-> Ha] [-> Hb] H. split; [symmetry; apply R_app_B; exact H|apply semi_ok_app_B; assumption]. Qed.
Lemma good_app_E a a' b b' : good a a' -> good b b' -> endc a -> good (a ++ b) (a' ++ b').
Proof. intros [-> Ha] [-> Hb] H. split; [symmetry; apply R_app_E; exact H|apply semi_ok_app_E; assumption]. Qed.
Lemma good_plain x : forallb (fun c => negb (is_upper c) && negb (c =? c_semi)) x = true -> good x x.
Proof.
  intros H. split.
  - symmetry. apply rename_clean. apply cleanb_noupper. rewrite forallb_forall in *. intros c Hc. specialize (H c Hc).
    apply andb_true_iff in H. exact (proj1 H).
  - apply semi_ok_nosemi. rewrite forallb_forall in *. intros c Hc. specialize (H c Hc). apply andb_true_iff in H. exact (proj2 H).
Qed.
Lemma good_clean x : cleanb x = true -> semi_ok x = true -> good x x.
Proof. intros H1 H2. split; [symmetry; apply rename_clean; exact H1|exact H2]. Qed.
Lemma good_length x x' : good x x' -> length x' = length x.
Proof. intros [-> _]. apply rename_length. Qed.
Lemma good_head x x' : good x x' -> head_ok x' = head_ok x.
Proof. intros [-> _]. apply head_ok_R. Qed.

(* ================================================================================================ *)
(* 3. leaves and keys                                                                               *)
(* ================================================================================================ *)
Lemma existsb_dsim (p : cp -> bool) (s t : str) : (forall a b, dsim1 a b -> p a = p b) -> dsim s t -> existsb p s = existsb p t.
Proof. intros Hp H. induction H as [|a b s t Hab _ IH]; [reflexivity|]. cbn [existsb]. rewrite (Hp a b Hab), IH. reflexivity. Qed.

Lemma span_snd_dsim (p : cp -> bool) (s t : str) : (forall a b, dsim1 a b -> p a = p b) -> dsim s t ->
  dsim (snd (span p s)) (snd (span p t)).
Proof.
  intros Hp H. induction H as [|a b s t Hab H IH]; [constructor|]. cbn [span]. rewrite <- (Hp a b Hab).
  destruct (p a); [|constructor; assumption]. destruct (span p s), (span p t). exact IH.
Qed.

Lemma at_end_dsim (s t : str) : dsim s t -> at_end s = at_end t.
Proof.
  intros H. destruct H as [|a b s t Hab H]; [reflexivity|]. destruct H as [|a2 b2 s t _ _]; [|reflexivity].
  cbn [at_end]. apply ds_eqb; [reflexivity|exact Hab].
Qed.

Lemma struct_char_dsim a b : dsim1 a b -> is_struct_char a = is_struct_char b.
Proof.
  intros H. unfold is_struct_char. rewrite (ds_space a b H).
  rewrite !(fun k Hk => ds_eqb k Hk a b H) by reflexivity. reflexivity.
Qed.

Lemma re_reference_dsim (s t : str) : dsim s t -> re_reference s = re_reference t.
Proof.
  intros H. destruct H as [|a b s t Hab H]; [reflexivity|]. destruct H as [|a2 b2 s t Hab2 H]; [reflexivity|].
  cbn [re_reference]. rewrite (ds_eqb c_dollar eq_refl a b Hab), (ds_word a2 b2 Hab2).
  rewrite (at_end_dsim _ _ (span_snd_dsim is_ref_char s t ds_ref H)). reflexivity.
Qed.

Lemma classify_string_R (s : list N) : classify_string (R s) = classify_string s.
Proof.
  pose proof (dsim_rename d s) as H. unfold classify_string.
  rewrite <- !(fun k Hk => has_char_dsim k s (R s) Hk H) by reflexivity.
  rewrite <- (re_reference_dsim s (R s) H), nonempty_R, <- (existsb_dsim is_struct_char s (R s) struct_char_dsim H). reflexivity.
Qed.

Lemma quote_good (q : N) x x' : isAN q = false -> q <> c_semi -> good x x' -> good (q :: x ++ [q]) (q :: x' ++ [q]).
Proof.
  intros Hq Hs H. change (q :: x ++ [q]) with ([q] ++ (x ++ [q])). change (q :: x' ++ [q]) with ([q] ++ (x' ++ [q])).
  assert (Hg : good [q] [q]).
  { split; [symmetry; apply rename_clean; cbn [cleanb]; rewrite ph_word_not_upper by (apply nAN_nupper; exact Hq); reflexivity|].
    cbn. rewrite orb_true_r. reflexivity. }
  apply good_app_E; [exact Hg| |right; exists [], q; repeat split; assumption].
  apply good_app_B; [exact H|exact Hg|cbn; rewrite Hq; reflexivity].
Qed.

Lemma format_string_good (s : list N) : semi_ok s = true -> good (format_string s) (format_string (R s)).
Proof.
  intros H. assert (G : good s (R s)) by (split; [reflexivity|exact H]).
  unfold format_string. rewrite classify_string_R. unfold sq, dq.
  destruct (classify_string s); try exact G; apply quote_good; try exact G; try reflexivity; discriminate.
Qed.

Lemma Z_to_dec_plain z : forallb (fun c => negb (is_upper c) && negb (c =? c_semi)) (Z_to_dec z) = true.
Proof.
  assert (HN : forall n, forallb (fun c => negb (is_upper c) && negb (c =? c_semi)) (N_to_dec n) = true).
  { intros n. destruct (ScalarProofs.N_to_dec_spec n) as [[H _] _]. apply forallb_forall. intros c Hc.
    unfold TypeTable.digits in H. rewrite Forall_forall in H. specialize (H c Hc). unfold is_digit, is_upper, c_semi in *. lia. }
  destruct z as [|p|p]; cbn [Z_to_dec]; [reflexivity|apply HN|]. cbn [forallb]. rewrite HN. reflexivity.
Qed.

Lemma format_scalar_good v : sc_ok v = true -> good (format_scalar v) (format_scalar (Rsc d v)).
Proof.
  destruct v as [z|l|b| |s]; intros H; cbn [format_scalar Rsc sc_ok] in *.
  - apply good_plain. apply Z_to_dec_plain.
  - split; [reflexivity|exact H].
  - destruct b; apply good_plain; reflexivity.
  - apply good_clean; reflexivity.
  - apply format_string_good. exact H.
Qed.

Lemma format_key_good k : key_ok k = true -> good (format_key k) (format_key (Rk d k)).
Proof.
  destruct k as [z|s]; intros H; cbn [format_key Rk key_ok] in *; [apply good_plain; apply Z_to_dec_plain|apply format_string_good; exact H].
Qed.

Lemma key_text_good k : key_ok k = true -> good (key_text k) (key_text (Rk d k)).
Proof.
  destruct k as [z|s]; intros H; cbn [key_text Rk key_ok] in *; [apply good_plain; apply Z_to_dec_plain|split; [reflexivity|exact H]].
Qed.

(* ================================================================================================ *)
(* 4. format_dict                                                                                   *)
(* ================================================================================================ *)
Lemma endc_cons c a : isAN c = false -> c <> c_semi -> endc a -> endc (c :: a).
Proof.
  intros H1 H2 [->|(a' & x & -> & H3 & H4)]; right; [exists [], c|exists (c :: a'), x]; repeat split; assumption.
Qed.
Lemma endc_spaces n : endc (spaces n).
Proof. induction n as [|n IH]; [left; reflexivity|]. apply endc_cons; [reflexivity|discriminate|exact IH]. Qed.
Lemma spaces_good n : good (spaces n) (spaces n).
Proof. apply good_plain. apply forallb_forall. intros c Hc. apply repeat_spec in Hc. subst c. reflexivity. Qed.
Lemma lf_good : good [c_lf] [c_lf].
Proof. apply good_plain. reflexivity. Qed.

Lemma line_good level txt txt' nl : good txt txt' -> good (line level txt nl) (line level txt' nl).
Proof.
  intros H. unfold line, indent_of. apply good_app_E; [apply spaces_good| |apply endc_spaces].
  destruct nl; [apply good_app_B; [exact H|apply lf_good|reflexivity]|rewrite !app_nil_r; exact H].
Qed.
Lemma line_endc level txt : endc (line level txt true).
Proof. unfold line. rewrite app_assoc. apply endc_lf. Qed.
Lemma line_head_S level txt nl : head_ok (line (S level) txt nl) = true.
Proof. unfold line, indent_of, spaces. replace (4 * S level)%nat with (S (3 + 4 * level)) by lia. reflexivity. Qed.
Lemma line_head_S' level txt nl y : head_ok (line (S level) txt nl ++ y) = true.
Proof. unfold line, indent_of, spaces. replace (4 * S level)%nat with (S (3 + 4 * level)) by lia. reflexivity. Qed.
Lemma line_head_c level c txt nl : isAN c = false -> head_ok (line level (c :: txt) nl) = true.
Proof. intros H. destruct level as [|level]; [cbn; rewrite H; reflexivity|apply line_head_S]. Qed.
Lemma line_head_c' level c txt nl y : isAN c = false -> head_ok (line level (c :: txt) nl ++ y) = true.
Proof. intros H. destruct level as [|level]; [cbn; rewrite H; reflexivity|apply line_head_S']. Qed.
Lemma line_ne level txt : line level txt true <> [].
Proof. unfold line. destruct (indent_of level); [destruct txt|]; discriminate. Qed.
Lemma char_good c : isAN c = false -> c <> c_semi -> good [c] [c].
Proof.
  intros H1 H2. split; [symmetry; apply rename_clean; cbn [cleanb]; rewrite ph_word_not_upper by (apply nAN_nupper; exact H1); reflexivity|].
  cbn. rewrite orb_true_r. reflexivity.
Qed.

Section Fmt.
  Variable fmt : scalar -> str.
  Variable fmtk : key -> str.
  Hypothesis Hfmt : forall v, sc_ok v = true -> good (fmt v) (fmt (Rsc d v)).
  Hypothesis Hfmtk : forall k, key_ok k = true -> good (fmtk k) (fmtk (Rk d k)).
  Local Notation FT := (fmt_tree fmt fmtk).
  Local Notation AE := (FoamProofs.aentries fmt fmtk).
  Local Notation AI := (FoamProofs.aitems fmt fmtk).

  Definition Pfmt (t : tree) : Prop := tree_ok t = true -> forall level anc,
    good (FT level anc t) (FT level anc (Rt d t)) /\
    match t with Leaf _ => True | _ => endc (FT level anc t) end /\
    match t with Lst _ => head_ok (FT level anc t) = true | _ => True end.

  Lemma leaf_line_good level k v : key_ok k = true -> sc_ok v = true ->
    good (line level (fmtk k ++ spaces (Nat.max 8 (30 - length (fmtk k) - 4 * level)) ++ fmt v ++ [c_semi]) true)
         (line level (fmtk (Rk d k) ++ spaces (Nat.max 8 (30 - length (fmtk (Rk d k)) - 4 * level)) ++ fmt (Rsc d v) ++ [c_semi]) true).
  Proof.
    intros Hk Hv. apply line_good. rewrite (good_length _ _ (Hfmtk k Hk)).
    assert (Hs : good [c_semi] [c_semi]) by (split; reflexivity).
    apply good_app_B; [exact (Hfmtk k Hk)| |].
    - apply good_app_E; [apply spaces_good| |apply endc_spaces]. apply good_app_B; [exact (Hfmt v Hv)|exact Hs|reflexivity].
    - destruct (Nat.max 8 (30 - length (fmtk k) - 4 * level)) eqn:E; [lia|reflexivity].
  Qed.

  Lemma aentries_good level : forall kvs, Forall (fun kt => Pfmt (snd kt)) kvs -> tree_ok (Dict kvs) = true ->
    good (AE level kvs) (AE level (Rkv d (Rt d) kvs)) /\ endc (AE level kvs).
  Proof.
    induction 1 as [|[k c] kvs Hc _ IH]; intros Hok; [split; [apply good_nil|left; reflexivity]|].
    rewrite tree_ok_dict in Hok. cbn [forallb fst snd] in Hok. apply andb_true_iff in Hok. destruct Hok as [Hok Hok2].
    apply andb_true_iff in Hok. destruct Hok as [Hk Hcok]. rewrite <- tree_ok_dict in Hok2. destruct (IH Hok2) as [G E].
    rewrite Rkv_cons. cbn [snd] in Hc.
    assert (Hl : forall x x' , good x x' -> good (line level x true) (line level x' true)) by (intros; apply line_good; assumption).
    destruct c as [v|sub|ts].
    - cbn [FoamProofs.aentries Rt]. cbv zeta. split.
      + apply good_app_E; [apply leaf_line_good; assumption|exact G|apply line_endc].
      + apply endc_app'; [apply line_endc|exact E].
    - destruct (Hc Hcok (S level) false) as (G1 & E1 & _). rewrite Rt_dict in *. cbn [FoamProofs.aentries].
      assert (E2 : endc (line level (key_text k) true ++ line level [c_lbrace] true ++
                         FT (S level) false (Dict sub) ++ line level [c_rbrace] true)).
      { rewrite !app_assoc. apply endc_app; [apply line_endc|apply line_ne]. }
      split; [|apply endc_app'; assumption].
      apply good_app_E; [|exact G|exact E2].
      apply good_app_E; [apply Hl; apply key_text_good; exact Hk| |apply line_endc].
      apply good_app_E; [apply Hl; apply char_good; [reflexivity|discriminate]| |apply line_endc].
      apply good_app_E; [exact G1|apply Hl; apply char_good; [reflexivity|discriminate]|exact E1].
    - destruct (Hc Hcok level false) as (G1 & E1 & _). rewrite Rt_lst in *. cbn [FoamProofs.aentries].
      assert (E2 : endc (line level (key_text k) true ++ FT level false (Lst ts))) by (apply endc_app'; [apply line_endc|exact E1]).
      split; [|apply endc_app'; assumption].
      apply good_app_E; [|exact G|exact E2].
      apply good_app_E; [apply Hl; apply key_text_good; exact Hk|exact G1|apply line_endc].
  Qed.

  Lemma list_item_good level first idx len v : sc_ok v = true ->
    good (fst (list_item fmt level first idx len v)) (fst (list_item fmt level first idx len (Rsc d v))) /\
    snd (list_item fmt level first idx len (Rsc d v)) = snd (list_item fmt level first idx len v) /\
    head_ok (fst (list_item fmt level first idx len v)) = true.
  Proof.
    intros Hv. unfold list_item. cbv zeta. rewrite (good_length _ _ (Hfmt v Hv)).
    destruct (Nat.eqb (Nat.modulo (S idx) 10) 0 || Nat.eqb (S idx) len); cbn [fst snd].
    - split; [apply line_good; exact (Hfmt v Hv)|]. split; [reflexivity|]. destruct first; apply line_head_S.
    - split; [|split; [reflexivity|destruct first; apply line_head_S]].
      apply line_good. destruct (14 - length (fmt v))%nat as [|n] eqn:E; [cbn [spaces repeat]; rewrite !app_nil_r; exact (Hfmt v Hv)|].
      apply good_app_B; [exact (Hfmt v Hv)|apply spaces_good|reflexivity].
  Qed.

  Lemma aitems_good level len : forall ts, Forall Pfmt ts -> tree_ok (Lst ts) = true -> forall idx first,
    good (AI level len ts idx first) (AI level len (map (Rt d) ts) idx first) /\ head_ok (AI level len ts idx first) = true.
  Proof.
    induction 1 as [|c ts Hc _ IH]; intros Hok idx first; [split; [apply good_nil|reflexivity]|].
    rewrite tree_ok_lst in Hok. cbn [forallb] in Hok. apply andb_true_iff in Hok. destruct Hok as [Hcok Hok2].
    rewrite <- tree_ok_lst in Hok2. specialize (IH Hok2). cbn [map].
    assert (Hl : forall x x' , good x x' -> good (line (S level) x true) (line (S level) x' true)) by (intros; apply line_good; assumption).
    destruct c as [v|sub|ts'].
    - cbn [FoamProofs.aitems Rt]. destruct (list_item_good level first idx len v Hcok) as (G1 & E1 & H1).
      destruct (list_item fmt level first idx len v) as [s1 f1]. destruct (list_item fmt level first idx len (Rsc d v)) as [s2 f2].
      cbn [fst snd] in *. subst f2. destruct (IH (S idx) f1) as [G2 H2]. split.
      + apply good_app_B; assumption.
      + apply head_ok_app'; assumption.
    - destruct (Hc Hcok (S (S level)) false) as (G1 & E1 & _). rewrite Rt_dict in *. cbn [FoamProofs.aitems].
      destruct (IH (S idx) true) as [G2 H2]. split; [|apply line_head_S'].
      apply good_app_E; [apply Hl; apply good_nil| |apply line_endc].
      apply good_app_E; [apply Hl; apply char_good; [reflexivity|discriminate]| |apply line_endc].
      apply good_app_E; [exact G1| |exact E1].
      apply good_app_E; [apply Hl; apply char_good; [reflexivity|discriminate]|exact G2|apply line_endc].
    - destruct (Hc Hcok (S level) true) as (G1 & E1 & H1). rewrite Rt_lst in *. cbn [FoamProofs.aitems].
      destruct (IH (S idx) first) as [G2 H2]. split.
      + apply good_app_B; assumption.
      + apply head_ok_app'; assumption.
  Qed.

  Lemma fmt_tree_good : forall t, Pfmt t.
  Proof.
    induction t as [v|kvs IH|ts IH] using tree_ind'; intros Hok level anc.
    - split; [exact (Hfmt v Hok)|split; exact I].
    - rewrite Rt_dict, !FoamProofs.afmt_dict. destruct (aentries_good level kvs IH Hok) as [G E]. split; [exact G|split; [exact E|exact I]].
    - rewrite Rt_lst, !FoamProofs.afmt_lst, map_length. destruct (aitems_good level (length ts) ts IH Hok 0%nat true) as [G H].
      assert (Gc : good (if anc then [c_rpar] else [c_rpar; c_semi]) (if anc then [c_rpar] else [c_rpar; c_semi])).
      { destruct anc; apply good_clean; reflexivity. }
      split; [|split].
      + apply good_app_E; [apply line_good; apply char_good; [reflexivity|discriminate]| |apply line_endc].
        apply good_app_B; [exact G|apply line_good; exact Gc|]. destruct anc; apply line_head_c; reflexivity.
      + rewrite !app_assoc. apply endc_app; [apply line_endc|apply line_ne].
      + apply line_head_c'. reflexivity.
  Qed.
End Fmt.

(* ================================================================================================ *)
(* 5. key sorting of to_string and the body                                                         *)
(* ================================================================================================ *)
Lemma is_block_key_R k : is_block_key (Rk d k) = is_block_key k.
Proof. destruct k as [z|s]; [reflexivity|]. cbn [Rk is_block_key]. symmetry. apply has_placeholder_dsim; [reflexivity|apply dsim_rename]. Qed.
Lemma is_include_key_R k : is_include_key (Rk d k) = is_include_key k.
Proof. destruct k as [z|s]; [reflexivity|]. cbn [Rk is_include_key]. symmetry. apply has_placeholder_dsim; [reflexivity|apply dsim_rename]. Qed.

Lemma sort_top_R kvs : sort_top (Rkv d (Rt d) kvs) = Rkv d (Rt d) (sort_top kvs).
Proof.
  unfold sort_top. cbv zeta.
  assert (Hb : filter (fun kv : key * tree => is_block_key (fst kv)) (Rkv d (Rt d) kvs) =
               Rkv d (Rt d) (filter (fun kv : key * tree => is_block_key (fst kv)) kvs)).
  { unfold Rkv. apply filter_map_comm. intros [k c]. apply is_block_key_R. }
  assert (Hi : filter (fun kv : key * tree => is_include_key (fst kv)) (Rkv d (Rt d) kvs) =
               Rkv d (Rt d) (filter (fun kv : key * tree => is_include_key (fst kv)) kvs)).
  { unfold Rkv. apply filter_map_comm. intros [k c]. apply is_include_key_R. }
  rewrite Hb, Hi, aupdate_R.
  set (first := aupdate (filter (fun kv : key * tree => is_block_key (fst kv)) kvs) (filter (fun kv : key * tree => is_include_key (fst kv)) kvs)).
  assert (Hr : filter (fun kv : key * tree => negb (amem (fst kv) (Rkv d (Rt d) first))) (Rkv d (Rt d) kvs) =
               Rkv d (Rt d) (filter (fun kv : key * tree => negb (amem (fst kv) first)) kvs)).
  { unfold Rkv at 2 3. apply filter_map_comm. intros [k c]. cbn [fst]. rewrite amem_R. reflexivity. }
  rewrite Hr. unfold Rkv. rewrite map_app. reflexivity.
Qed.

Lemma forallb_filter {A} (p q : A -> bool) l : forallb p l = true -> forallb p (filter q l) = true.
Proof.
  induction l as [|x l IH]; intros H; [reflexivity|]. cbn [forallb filter] in *. apply andb_true_iff in H. destruct H as [H1 H2].
  destruct (q x); [cbn [forallb]; rewrite H1|]; exact (IH H2).
Qed.
Lemma forallb_aset' {V} (p : key * V -> bool) k v (l : list (key * V)) : forallb p l = true -> p (k, v) = true -> forallb p (aset k v l) = true.
Proof.
  intros Hl Hp. induction l as [|[k' v'] l IH]; [cbn; rewrite Hp; reflexivity|]. cbn [forallb aset] in *. apply andb_true_iff in Hl.
  destruct Hl as [H1 H2]. destruct (key_eqb k k') eqn:E.
  - apply OrderProofs.key_eqb_eq in E. subst k'. cbn [forallb]. rewrite Hp, H2. reflexivity.
  - cbn [forallb]. rewrite H1, (IH H2). reflexivity.
Qed.
Lemma forallb_aupdate {V} (p : key * V -> bool) (l m : list (key * V)) : forallb p l = true -> forallb p m = true -> forallb p (aupdate l m) = true.
Proof.
  unfold aupdate. revert l. induction m as [|[k v] m IH]; intros l Hl Hm; [exact Hl|]. cbn [forallb fold_left fst snd] in *.
  apply andb_true_iff in Hm. destruct Hm as [H1 H2]. apply IH; [apply forallb_aset'; assumption|exact H2].
Qed.
Lemma tree_ok_sort_top kvs : tree_ok (Dict kvs) = true -> tree_ok (Dict (sort_top kvs)) = true.
Proof.
  rewrite !tree_ok_dict. intros H. unfold sort_top. cbv zeta. rewrite forallb_app. apply andb_true_iff. split.
  - apply forallb_aupdate; apply forallb_filter; exact H.
  - apply forallb_filter. exact H.
Qed.

Section Body.
  Variable fmt : scalar -> str.
  Variable fmtk : key -> str.
  Hypothesis Hfmt : forall v, sc_ok v = true -> good (fmt v) (fmt (Rsc d v)).
  Hypothesis Hfmtk : forall k, key_ok k = true -> good (fmtk k) (fmtk (Rk d k)).
  Lemma body_good kvs : tree_ok (Dict kvs) = true ->
    good (fmt_tree fmt fmtk 0 false (Dict (sort_top kvs))) (fmt_tree fmt fmtk 0 false (Dict (sort_top (Rkv d (Rt d) kvs)))).
  Proof.
    intros H. rewrite sort_top_R, <- Rt_dict. exact (proj1 (fmt_tree_good fmt fmtk Hfmt Hfmtk _ (tree_ok_sort_top kvs H) 0%nat false)).
  Qed.
End Body.

End Writer.

(* ================================================================================================ *)
(* 6. re-insertion: the substitution of  PLACEHOLDER ws+ PLACEHOLDER;                               *)
(* ================================================================================================ *)

(* ================================================================================================ *)
(* 6. re-insertion: the substitution of  PLACEHOLDER ws+ PLACEHOLDER;                               *)
(* ================================================================================================ *)
Lemma lstrip_suffix (s : str) : exists w, s = w ++ lstrip s.
Proof.
  induction s as [|x s [w IH]]; [exists []; reflexivity|]. cbn [lstrip]. destruct (is_space x); [|exists []; reflexivity].
  exists (x :: w). cbn [app]. rewrite <- IH. reflexivity.
Qed.

Lemma match_form ph s rest : match_ph_pair ph s = Some rest ->
  exists c s1, s = ph ++ c :: s1 /\ is_space c = true /\ lstrip s1 = ph ++ c_semi :: rest.
Proof.
  unfold match_ph_pair. destruct (starts_with ph s) eqn:E1; [|discriminate]. apply starts_with_eq in E1.
  destruct (drop_n (length ph) s) as [|c s1] eqn:E2; [discriminate|]. cbn [skip_ws1]. destruct (is_space c) eqn:Ec; [|discriminate].
  destruct (starts_with (ph ++ [c_semi]) (lstrip s1)) eqn:E3; [|discriminate]. intros H. injection H as <-.
  apply starts_with_eq in E3. replace (length (ph ++ [c_semi])) with (S (length ph)) in E3 by (rewrite app_length; cbn [length]; lia).
  exists c, s1. split; [exact E1|]. split; [exact Ec|]. rewrite <- app_assoc in E3. exact E3.
Qed.

Lemma match_intro ph c s1 rest : is_space c = true -> lstrip s1 = ph ++ c_semi :: rest -> match_ph_pair ph (ph ++ c :: s1) = Some rest.
Proof.
  intros Hc E. unfold match_ph_pair. rewrite starts_with_app, drop_n_app. cbn [skip_ws1]. rewrite Hc, E.
  change (ph ++ c_semi :: rest) with (ph ++ [c_semi] ++ rest). rewrite app_assoc, starts_with_app.
  replace (S (length ph)) with (length (ph ++ [c_semi])) by (rewrite app_length; cbn [length]; lia). rewrite drop_n_app. reflexivity.
Qed.

Lemma match_starts ph s rest : match_ph_pair ph s = Some rest -> starts_with ph s = true.
Proof. unfold match_ph_pair. destruct (starts_with ph s); [reflexivity|discriminate]. Qed.

Lemma semi_ok_after a rest : semi_ok (a ++ c_semi :: rest) = true -> head_ok rest = true /\ semi_ok rest = true.
Proof.
  intros H. apply semi_ok_suffix in H. cbn [semi_ok] in H. apply andb_true_iff in H. destruct H as [H1 H2].
  rewrite N.eqb_refl in H1. split; [exact H1|exact H2].
Qed.

Lemma match_rest ph s rest : match_ph_pair ph s = Some rest -> semi_ok s = true ->
  head_ok rest = true /\ semi_ok rest = true /\ (length rest < length s)%nat.
Proof.
  intros M H. destruct (match_form _ _ _ M) as (c & s1 & E & Hc & El). destruct (lstrip_suffix s1) as [w Ew]. rewrite El in Ew.
  assert (Es : s = (ph ++ c :: w ++ ph) ++ c_semi :: rest).
  { rewrite E, Ew. rewrite <- !app_assoc. cbn [app]. rewrite <- !app_assoc. reflexivity. }
  rewrite Es in H. destruct (semi_ok_after _ _ H) as [H1 H2]. split; [exact H1|]. split; [exact H2|].
  rewrite Es, app_length. cbn [length]. lia.
Qed.

Lemma match_fwd d ph ph' :
  (forall x y, rename_str d (x ++ ph ++ y) = rename_str d x ++ ph' ++ rename_str d y) ->
  forall s rest, match_ph_pair ph s = Some rest -> match_ph_pair ph' (rename_str d s) = Some (rename_str d rest).
Proof.
  intros Hph s rest M. destruct (match_form _ _ _ M) as (c & s1 & E & Hc & El). subst s.
  pose proof (Hph [] (c :: s1)) as E1. cbn [app] in E1. rewrite rename_nil in E1. cbn [app] in E1. rewrite E1.
  pose proof (space_nAN c Hc) as HA. rewrite (R_cons d c s1 (nAN_nupper c HA)).
  apply match_intro; [exact Hc|]. rewrite lstrip_R, El.
  pose proof (Hph [] (c_semi :: rest)) as E2. cbn [app] in E2. rewrite rename_nil in E2. cbn [app] in E2. rewrite E2.
  rewrite (R_cons d c_semi rest eq_refl). reflexivity.
Qed.

Lemma sub_unfold f ph repl c s : sub_ph_pair (S f) ph repl (c :: s) =
  match match_ph_pair ph (c :: s) with
  | Some rest => (repl ++ fst (sub_ph_pair f ph repl rest), true)
  | None => (c :: fst (sub_ph_pair f ph repl s), snd (sub_ph_pair f ph repl s))
  end.
Proof.
  cbn [sub_ph_pair]. destruct (match_ph_pair ph (c :: s)) as [rest|].
  - destruct (sub_ph_pair f ph repl rest). reflexivity.
  - destruct (sub_ph_pair f ph repl s). reflexivity.
Qed.
Lemma once_unfold f ph repl c s : sub_ph_pair_once (S f) ph repl (c :: s) =
  match match_ph_pair ph (c :: s) with
  | Some rest => (repl ++ rest, true)
  | None => (c :: fst (sub_ph_pair_once f ph repl s), snd (sub_ph_pair_once f ph repl s))
  end.
Proof.
  cbn [sub_ph_pair_once]. destruct (match_ph_pair ph (c :: s)) as [rest|]; [reflexivity|].
  destruct (sub_ph_pair_once f ph repl s). reflexivity.
Qed.

Section Sub.
Variable d : Z.
Local Notation R := (rename_str d).
Local Notation Ri := (rename_str (- d)).
Variables ph ph' : str.
Variable x0 : N.
Variable r0 : str.
Hypothesis Eph : ph = x0 :: r0.
Hypothesis Hx0 : isAN x0 = true.
Hypothesis Hph : forall x y, R (x ++ ph ++ y) = R x ++ ph' ++ R y.
Hypothesis Hphi : forall x y, Ri (x ++ ph' ++ y) = Ri x ++ ph ++ Ri y.

Lemma match_R s : match_ph_pair ph' (R s) = option_map R (match_ph_pair ph s).
Proof.
  destruct (match_ph_pair ph s) as [rest|] eqn:M; cbn [option_map]; [exact (match_fwd d ph ph' Hph s rest M)|].
  destruct (match_ph_pair ph' (R s)) as [x|] eqn:M2; [|reflexivity].
  pose proof (match_fwd (- d) ph' ph Hphi _ _ M2) as M3. rewrite rename_inv in M3. congruence.
Qed.

Lemma match_nAN (c : N) (s : list N) : isAN c = false -> match_ph_pair ph (c :: s) = None.
Proof.
  intros H. unfold match_ph_pair. rewrite Eph. cbn [starts_with]. destruct (x0 =? c) eqn:E; [|reflexivity].
  apply N.eqb_eq in E. subst c. congruence.
Qed.

Definition pre (p p' s s' : str) : Prop := length p = length p' /\ R (p ++ s) = p' ++ s'.

Lemma pre_start p p' s s' : pre p p' s s' -> starts_with ph s = true -> p' = R p /\ s' = R s.
Proof.
  intros [Hl E] H. apply starts_with_eq in H. set (y := drop_n (length ph) s) in *.
  assert (E1 : R (p ++ s) = R p ++ R s).
  { rewrite H, Hph. f_equal. pose proof (Hph [] y) as E2. cbn [app] in E2. rewrite rename_nil in E2. symmetry. exact E2. }
  rewrite E1 in E. apply app_eq_len in E; [|rewrite rename_length; exact Hl]. destruct E as [<- <-]. split; reflexivity.
Qed.

Lemma pre_start' p p' s s' : pre p p' s s' -> starts_with ph' s' = true -> p' = R p /\ s' = R s.
Proof.
  intros [Hl E] H. apply starts_with_eq in H. set (y := drop_n (length ph') s') in *.
  assert (E1 : Ri (p' ++ s') = Ri p' ++ Ri s').
  { rewrite H, Hphi. f_equal. pose proof (Hphi [] y) as E2. cbn [app] in E2. rewrite rename_nil in E2. symmetry. exact E2. }
  rewrite <- E, rename_inv in E1. apply app_eq_len in E1; [|rewrite rename_length; exact Hl]. destruct E1 as [-> ->].
  rewrite !rename_inv'. split; reflexivity.
Qed.

Lemma pre_nil p p' s' : pre p p' [] s' -> s' = [].
Proof.
  intros [Hl E]. apply (f_equal (@length N)) in E. rewrite rename_length, !app_length in E. cbn [length] in E.
  destruct s'; [reflexivity|cbn [length] in E; lia].
Qed.

Lemma pre_cons p p' c s s' : pre p p' (c :: s) s' -> exists c' t', s' = c' :: t' /\ pre (p ++ [c]) (p' ++ [c']) s t'.
Proof.
  intros [Hl E]. pose proof (f_equal (@length N) E) as E2. rewrite rename_length, !app_length in E2. cbn [length] in E2.
  destruct s' as [|c' t']; [cbn [length] in E2; lia|]. exists c', t'. split; [reflexivity|]. split.
  - rewrite !app_length. cbn [length]. lia.
  - rewrite <- !app_assoc. exact E.
Qed.

Section Repl.
Variables repl repl' : str.
Hypothesis Hrepl : good d repl repl'.
Hypothesis Hhead : head_ok repl = true.

Lemma sub_head : forall f s, head_ok s = true -> head_ok (fst (sub_ph_pair f ph repl s)) = true.
Proof.
  intros [|f] s H; [exact H|]. destruct s as [|c s]; [reflexivity|]. rewrite sub_unfold.
  cbn [head_ok] in H. apply negb_true_iff in H. rewrite (match_nAN c s H). cbn [fst head_ok]. rewrite H. reflexivity.
Qed.

Lemma sub_semi : forall f s, semi_ok s = true -> semi_ok (fst (sub_ph_pair f ph repl s)) = true.
Proof.
  induction f as [f IH] using lt_wf_ind. intros s H. destruct f as [|f]; [exact H|]. destruct s as [|c s]; [reflexivity|].
  rewrite sub_unfold. destruct (match_ph_pair ph (c :: s)) as [rest|] eqn:M; cbn [fst].
  - destruct (match_rest _ _ _ M H) as (H1 & H2 & _).
    apply semi_ok_app_B; [exact (proj2 Hrepl)|apply IH; [lia|exact H2]|apply sub_head; exact H1].
  - cbn [semi_ok] in *. apply andb_true_iff in H. destruct H as [H1 H2]. rewrite (IH f ltac:(lia) s H2), andb_true_r.
    destruct (c =? c_semi); [|reflexivity]. cbn [negb orb] in *. apply sub_head. exact H1.
Qed.

Lemma sub_R : forall f s s' p p', (length s < f)%nat -> semi_ok s = true -> pre p p' s s' ->
  R (p ++ fst (sub_ph_pair f ph repl s)) = p' ++ fst (sub_ph_pair f ph' repl' s') /\
  snd (sub_ph_pair f ph' repl' s') = snd (sub_ph_pair f ph repl s).
Proof.
  induction f as [f IH] using lt_wf_ind. intros s s' p p' Hf Hs Hp. destruct f as [|f]; [lia|].
  destruct s as [|c s].
  - pose proof (pre_nil _ _ _ Hp) as E0. subst s'. cbn [sub_ph_pair fst snd]. split; [exact (proj2 Hp)|reflexivity].
  - destruct (pre_cons _ _ _ _ _ Hp) as (c' & t' & -> & Hp2). rewrite !sub_unfold. cbn [length] in Hf.
    destruct (match_ph_pair ph (c :: s)) as [rest|] eqn:M.
    + destruct (pre_start _ _ _ _ Hp (match_starts _ _ _ M)) as [-> E]. rewrite E, match_R, M. cbn [option_map fst snd].
      split; [|reflexivity]. destruct (match_rest _ _ _ M Hs) as (H1 & H2 & H3). cbn [length] in H3.
      destruct (IH f ltac:(lia) rest (R rest) [] [] ltac:(lia) H2) as [E1 _]; [split; reflexivity|]. cbn [app] in E1.
      rewrite <- E1. destruct Hrepl as [-> _].
      pose proof (sub_head f rest H1) as H4.
      rewrite (R_app_B d p), (R_app_B d repl) by (try apply head_ok_app'; assumption). reflexivity.
    + destruct (match_ph_pair ph' (c' :: t')) as [x|] eqn:M2.
      * exfalso. destruct (pre_start' _ _ _ _ Hp (match_starts _ _ _ M2)) as [_ E]. rewrite E, match_R, M in M2. discriminate M2.
      * cbn [fst snd]. destruct (IH f ltac:(lia) s t' (p ++ [c]) (p' ++ [c']) ltac:(lia)) as [E1 E2]; [|exact Hp2|].
        { cbn [semi_ok] in Hs. apply andb_true_iff in Hs. exact (proj2 Hs). }
        rewrite <- !app_assoc in E1. split; [exact E1|exact E2].
Qed.

Lemma sub_good f s s' : (length s < f)%nat -> good d s s' ->
  good d (fst (sub_ph_pair f ph repl s)) (fst (sub_ph_pair f ph' repl' s')) /\
  snd (sub_ph_pair f ph' repl' s') = snd (sub_ph_pair f ph repl s).
Proof.
  intros Hf [-> Hs]. destruct (sub_R f s (R s) [] [] Hf Hs) as [E1 E2]; [split; reflexivity|]. cbn [app] in E1.
  split; [split; [symmetry; exact E1|apply sub_semi; exact Hs]|exact E2].
Qed.

(* count = 1 *)
Lemma once_semi : forall f s, semi_ok s = true -> semi_ok (fst (sub_ph_pair_once f ph repl s)) = true.
Proof.
  induction f as [|f IH]; intros s H; [exact H|]. destruct s as [|c s]; [reflexivity|].
  rewrite once_unfold. destruct (match_ph_pair ph (c :: s)) as [rest|] eqn:M; cbn [fst].
  - destruct (match_rest _ _ _ M H) as (H1 & H2 & _). apply semi_ok_app_B; [exact (proj2 Hrepl)|exact H2|exact H1].
  - cbn [semi_ok] in *. apply andb_true_iff in H. destruct H as [H1 H2]. rewrite (IH s H2), andb_true_r.
    destruct (c =? c_semi); [|reflexivity]. cbn [negb orb] in *.
    destruct f as [|f]; [exact H1|]. destruct s as [|c2 s]; [reflexivity|]. rewrite once_unfold.
    cbn [head_ok] in H1. apply negb_true_iff in H1. rewrite (match_nAN c2 s H1). cbn [fst head_ok]. rewrite H1. reflexivity.
Qed.

Lemma once_R : forall f s s' p p', (length s < f)%nat -> semi_ok s = true -> pre p p' s s' ->
  R (p ++ fst (sub_ph_pair_once f ph repl s)) = p' ++ fst (sub_ph_pair_once f ph' repl' s') /\
  snd (sub_ph_pair_once f ph' repl' s') = snd (sub_ph_pair_once f ph repl s).
Proof.
  induction f as [|f IH]; intros s s' p p' Hf Hs Hp; [lia|].
  destruct s as [|c s].
  - pose proof (pre_nil _ _ _ Hp) as E0. subst s'. cbn [sub_ph_pair_once fst snd]. split; [exact (proj2 Hp)|reflexivity].
  - destruct (pre_cons _ _ _ _ _ Hp) as (c' & t' & -> & Hp2). rewrite !once_unfold. cbn [length] in Hf.
    destruct (match_ph_pair ph (c :: s)) as [rest|] eqn:M.
    + destruct (pre_start _ _ _ _ Hp (match_starts _ _ _ M)) as [-> E]. rewrite E, match_R, M. cbn [option_map fst snd].
      split; [|reflexivity]. destruct (match_rest _ _ _ M Hs) as (H1 & H2 & H3). destruct Hrepl as [-> _].
      rewrite (R_app_B d p), (R_app_B d repl) by (try apply head_ok_app'; assumption). reflexivity.
    + destruct (match_ph_pair ph' (c' :: t')) as [x|] eqn:M2.
      * exfalso. destruct (pre_start' _ _ _ _ Hp (match_starts _ _ _ M2)) as [_ E]. rewrite E, match_R, M in M2. discriminate M2.
      * cbn [fst snd]. destruct (IH s t' (p ++ [c]) (p' ++ [c']) ltac:(lia)) as [E1 E2]; [|exact Hp2|].
        { cbn [semi_ok] in Hs. apply andb_true_iff in Hs. exact (proj2 Hs). }
        rewrite <- !app_assoc in E1. split; [exact E1|exact E2].
Qed.

Lemma once_good f s s' : (length s < f)%nat -> good d s s' ->
  good d (fst (sub_ph_pair_once f ph repl s)) (fst (sub_ph_pair_once f ph' repl' s')) /\
  snd (sub_ph_pair_once f ph' repl' s') = snd (sub_ph_pair_once f ph repl s).
Proof.
  intros Hf [-> Hs]. destruct (once_R f s (R s) [] [] Hf Hs) as [E1 E2]; [split; reflexivity|]. cbn [app] in E1.
  split; [split; [symmetry; exact E1|apply once_semi; exact Hs]|exact E2].
Qed.
End Repl.
End Sub.

(* ================================================================================================ *)
(* 7. the three re-insertion stages                                                                 *)
(* ================================================================================================ *)
Lemma last_ok_dsim (s t : str) : dsim s t -> last_ok s = last_ok t.
Proof.
  intros H. induction H as [|a b s t Hab H IH]; [reflexivity|]. destruct H as [|a2 b2 s t Hab2 H].
  - cbn [last_ok]. rewrite (ds_AN a b Hab). reflexivity.
  - exact IH.
Qed.

Lemma contains_fwd d (a b : list N) : head_ok a = true -> last_ok a = true -> contains a b = true ->
  contains (rename_str d a) (rename_str d b) = true.
Proof.
  intros H1 H2 H. apply EvalProofs.contains_split in H. destruct H as (pre0 & post & ->).
  assert (Hne : a <> []) by (intros ->; discriminate H2).
  rewrite (R_app_B d pre0) by (rewrite head_ok_app by exact Hne; exact H1).
  rewrite (endn_rsafe d a (last_ok_endn a H2) post). apply EvalProofs.contains_mid.
Qed.

Section Stages.
Variable d : Z.
Local Notation R := (rename_str d).

Lemma last_ok_R (s : list N) : last_ok (R s) = last_ok s.
Proof. symmetry. apply last_ok_dsim. apply dsim_rename. Qed.

Lemma contains_R_bc (a b : list N) : head_ok a = true -> last_ok a = true -> contains (R a) (R b) = contains a b.
Proof.
  intros H1 H2. destruct (contains a b) eqn:E; [apply contains_fwd; assumption|].
  destruct (contains (R a) (R b)) eqn:E2; [|reflexivity].
  apply (contains_fwd (- d)) in E2; [|rewrite head_ok_R; exact H1|rewrite last_ok_R; exact H2]. rewrite !rename_inv in E2. congruence.
Qed.

(* ---- the substitution lemmas for the placeholder families ------------------------------------------ *)
Lemma word_head W : In W all_words -> exists x w, W = x :: w /\ isAN x = true.
Proof.
  intros H. destruct (all_words_upper W H) as [U Hne]. destruct W as [|x w]; [congruence|]. exists x, w. split; [reflexivity|].
  cbn [forallb] in U. apply andb_true_iff in U. unfold isAN. rewrite (proj1 U). reflexivity.
Qed.

Lemma sub_good_shifted W i repl repl' f s s' : In W shifted_words -> i < 1000000 ->
  good d repl repl' -> head_ok repl = true -> (length s < f)%nat -> good d s s' ->
  good d (fst (sub_ph_pair f (placeholder W i) repl s)) (fst (sub_ph_pair f (placeholder W (shift d i)) repl' s')) /\
  snd (sub_ph_pair f (placeholder W (shift d i)) repl' s') = snd (sub_ph_pair f (placeholder W i) repl s).
Proof.
  intros Hin Hi Hr Hh Hf Hs. destruct (word_head W (shifted_all W Hin)) as (x & w & EW & Hx).
  apply (sub_good d (placeholder W i) (placeholder W (shift d i)) x (w ++ pad6 i)); try assumption.
  - unfold placeholder. rewrite EW. reflexivity.
  - intros a y. apply rename_insert_shifted; assumption.
  - intros a y. rewrite (rename_insert_shifted (- d) a W (shift d i) y Hin (shift_lt d i Hi)), shift_inv. reflexivity.
Qed.

Lemma sub_good_block i repl repl' f s s' :
  good d repl repl' -> head_ok repl = true -> (length s < f)%nat -> good d s s' ->
  good d (fst (sub_ph_pair f (placeholder w_BLOCKCOMMENT i) repl s)) (fst (sub_ph_pair f (placeholder w_BLOCKCOMMENT i) repl' s')) /\
  snd (sub_ph_pair f (placeholder w_BLOCKCOMMENT i) repl' s') = snd (sub_ph_pair f (placeholder w_BLOCKCOMMENT i) repl s).
Proof.
  intros Hr Hh Hf Hs.
  apply (sub_good d (placeholder w_BLOCKCOMMENT i) (placeholder w_BLOCKCOMMENT i) 66 (tl w_BLOCKCOMMENT ++ pad6 i));
    try assumption; try reflexivity; intros a y; apply rename_insert_block.
Qed.

Lemma once_good_block i repl repl' f s s' :
  good d repl repl' -> head_ok repl = true -> (length s < f)%nat -> good d s s' ->
  good d (fst (sub_ph_pair_once f (placeholder w_BLOCKCOMMENT i) repl s)) (fst (sub_ph_pair_once f (placeholder w_BLOCKCOMMENT i) repl' s')) /\
  snd (sub_ph_pair_once f (placeholder w_BLOCKCOMMENT i) repl' s') = snd (sub_ph_pair_once f (placeholder w_BLOCKCOMMENT i) repl s).
Proof.
  intros Hr Hh Hf Hs.
  apply (once_good d (placeholder w_BLOCKCOMMENT i) (placeholder w_BLOCKCOMMENT i) 66 (tl w_BLOCKCOMMENT ++ pad6 i));
    try assumption; try reflexivity; intros a y; apply rename_insert_block.
Qed.

Lemma match_R_block i (s : list N) :
  match_ph_pair (placeholder w_BLOCKCOMMENT i) (R s) = option_map R (match_ph_pair (placeholder w_BLOCKCOMMENT i) s).
Proof. apply match_R; intros a y; apply rename_insert_block. Qed.

(* ---- line comments ------------------------------------------------------------------------------------ *)
Lemma insert_line_comments_good : forall lcs s s', good d s s' ->
  forallb (fun e : N * str => idb e && lc_ok (snd e)) lcs = true ->
  good d (insert_line_comments lcs s) (insert_line_comments (rtab R (shift d) lcs) s').
Proof.
  unfold insert_line_comments. induction lcs as [|[i t] lcs IH]; intros s s' G H; [exact G|].
  cbn [forallb fst snd] in H. apply andb_true_iff in H. destruct H as [H H2]. apply andb_true_iff in H. destruct H as [Hi Ht].
  unfold idb in Hi. cbn [fst] in Hi. apply N.ltb_lt in Hi. unfold lc_ok in Ht. apply andb_true_iff in Ht. destruct Ht as [Hh Hs].
  rewrite rtab_cons. cbn [fold_left fst snd]. apply IH; [|exact H2]. rewrite (good_length d _ _ G).
  apply sub_good_shifted; try assumption; [left; reflexivity|split; [reflexivity|exact Hs]|lia].
Qed.

(* ---- include directives --------------------------------------------------------------------------------- *)
Section Inc.
  Variable fmt_name : str -> str.
  Hypothesis Hname : forall name, semi_ok name = true -> good d (fmt_name name) (fmt_name (R name)).

  Lemma insert_includes_good : forall incs s s', good d s s' ->
    forallb (fun e : N * include_entry => idb e && semi_ok (inc_name e)) incs = true ->
    good d (insert_includes fmt_name incs s) (insert_includes fmt_name (rtab (Rinc d) (shift d) incs) s').
  Proof.
    unfold insert_includes. induction incs as [|[i [[dr name] path]] incs IH]; intros s s' G H; [exact G|].
    cbn [forallb fst snd] in H. apply andb_true_iff in H. destruct H as [H H2]. apply andb_true_iff in H. destruct H as [Hi Ht].
    unfold idb in Hi. cbn [fst] in Hi. apply N.ltb_lt in Hi. unfold inc_name in Ht. cbn [fst snd] in Ht.
    rewrite rtab_cons. cbn [fold_left fst snd Rinc]. apply IH; [|exact H2]. rewrite (good_length d _ _ G).
    apply sub_good_shifted; try assumption; [right; left; reflexivity| |reflexivity|lia].
    apply good_app_E; [apply good_clean; reflexivity|exact (Hname name Ht)|].
    right. exists (of_string "#include"), c_sp. repeat split. discriminate.
  Qed.
End Inc.

(* ---- block comments ------------------------------------------------------------------------------------- *)
Lemma bc_ok_parts t : bc_ok t = true -> head_ok t = true /\ last_ok t = true /\ semi_ok t = true.
Proof. unfold bc_ok. intros H. apply andb_true_iff in H. destruct H as [H H3]. apply andb_true_iff in H. destruct H as [H1 H2]. repeat split; assumption. Qed.

Lemma header_key_R bcs (s : list N) : header_key (rtab R (fun j => j) bcs) (R s) = header_key bcs s.
Proof.
  unfold header_key. pose proof (dsim_rename d s) as Hd.
  rewrite <- (starts_with_dsim w_BLOCKCOMMENT s (R s) eq_refl Hd).
  rewrite <- (all_digits_n_dsim 6 _ _ (dsim_drop (length w_BLOCKCOMMENT) s (R s) Hd)).
  destruct (starts_with w_BLOCKCOMMENT s && all_digits_n 6 (drop_n (length w_BLOCKCOMMENT) s)) eqn:E; [|reflexivity].
  destruct (ph_test_form s w_BLOCKCOMMENT E) as (ds & r & Es & L & D).
  assert (Ep : placeholder w_BLOCKCOMMENT (dec_to_N ds) = w_BLOCKCOMMENT ++ ds) by (unfold placeholder; rewrite pad6_dec by assumption; reflexivity).
  assert (ER : R s = w_BLOCKCOMMENT ++ ds ++ R r).
  { rewrite Es. pose proof (rename_insert_block d [] (dec_to_N ds) r) as E1. rewrite Ep in E1. cbn [app] in E1.
    rewrite rename_nil in E1. cbn [app] in E1. rewrite <- app_assoc in E1. cbn [app]. exact E1. }
  assert (T1 : take_n 6 (drop_n (length w_BLOCKCOMMENT) s) = ds).
  { rewrite Es, drop_n_app. rewrite <- L. apply take_n_app. }
  assert (T2 : take_n 6 (drop_n (length w_BLOCKCOMMENT) (R s)) = ds).
  { rewrite ER, drop_n_app. rewrite <- L. apply take_n_app. }
  rewrite T1, T2, match_R_block.
  rewrite (rtab_tlookup R (fun j => j) (fun i j => eq_refl) (dec_to_N ds) bcs).
  destruct (match_ph_pair (placeholder w_BLOCKCOMMENT (dec_to_N ds)) s); cbn [option_map]; [|reflexivity].
  destruct (tlookup (dec_to_N ds) bcs); reflexivity.
Qed.

Section Blocks.
  Variable mk : str -> str.
  Hypothesis Hmk : forall bc, bc_ok bc = true -> mk (R bc) = R (mk bc) /\ bc_ok (mk bc) = true.
  Hypothesis Hmk0 : good d (mk []) (mk []) /\ endc (mk []).

  Lemma insert_blocks_good hk : forall bcs inserted s s', good d s s' ->
    forallb (fun e : N * str => bc_ok (snd e)) bcs = true ->
    good d (insert_blocks mk hk bcs inserted s) (insert_blocks mk hk (rtab R (fun j => j) bcs) (R inserted) s').
  Proof.
    induction bcs as [|[i bc] bcs IH]; intros inserted s s' G H; [exact G|].
    cbn [forallb snd] in H. apply andb_true_iff in H. destruct H as [Hbc H2].
    rewrite rtab_cons. cbn [insert_blocks fst snd]. cbv zeta. rewrite (good_length d _ _ G).
    destruct (bc_ok_parts _ Hbc) as (B1 & B2 & B3).
    assert (Gbc : good d bc (R bc)) by (split; [reflexivity|exact B3]).
    destruct (match hk with Some h => h =? i | None => false end).
    - destruct (Hmk bc Hbc) as [Em Hm]. destruct (bc_ok_parts _ Hm) as (M1 & M2 & M3). rewrite Em, (contains_R_bc _ _ M1 M2).
      set (bc2 := if contains (mk bc) inserted then [] else mk bc).
      match goal with |- context [sub_ph_pair_once _ _ ?r s'] => set (bc2' := r) end.
      assert (G2 : good d bc2 bc2' /\ head_ok bc2 = true).
      { unfold bc2, bc2'. destruct (contains (mk bc) inserted); [split; [apply good_nil|reflexivity]|split; [split; [reflexivity|exact M3]|exact M1]]. }
      destruct G2 as [G2 Hh2].
      destruct (once_good_block i bc2 bc2' (S (length s)) s s' G2 Hh2 ltac:(lia) G) as [G3 F3].
      destruct (sub_ph_pair_once (S (length s)) (placeholder w_BLOCKCOMMENT i) bc2 s) as [s1 f1].
      destruct (sub_ph_pair_once (S (length s)) (placeholder w_BLOCKCOMMENT i) bc2' s') as [s1' f1'].
      cbn [fst snd] in G3, F3. subst f1'. destruct f1; [|apply IH; assumption].
      rewrite (good_length d _ _ G3).
      destruct (sub_good_block i bc (R bc) (S (length s1)) s1 s1' Gbc B1 ltac:(lia) G3) as [G4 _].
      destruct (sub_ph_pair (S (length s1)) (placeholder w_BLOCKCOMMENT i) bc s1) as [s2 f2].
      destruct (sub_ph_pair (S (length s1)) (placeholder w_BLOCKCOMMENT i) (R bc) s1') as [s2' f2'].
      cbn [fst] in G4.
      replace (R inserted ++ bc2' ++ R bc) with (R (inserted ++ bc2 ++ bc)); [apply IH; assumption|].
      rewrite (R_app_B d inserted) by (apply head_ok_app'; assumption). rewrite (R_app_B d bc2) by exact B1.
      rewrite (proj1 G2). reflexivity.
    - rewrite (contains_R_bc _ _ B1 B2).
      set (bc2 := if contains bc inserted then [] else bc).
      match goal with |- context [sub_ph_pair _ _ ?r s'] => set (bc2' := r) end.
      assert (G2 : good d bc2 bc2' /\ head_ok bc2 = true).
      { unfold bc2, bc2'. destruct (contains bc inserted); [split; [apply good_nil|reflexivity]|split; [exact Gbc|exact B1]]. }
      destruct G2 as [G2 Hh2].
      destruct (sub_good_block i bc2 bc2' (S (length s)) s s' G2 Hh2 ltac:(lia) G) as [G3 F3].
      destruct (sub_ph_pair (S (length s)) (placeholder w_BLOCKCOMMENT i) bc2 s) as [s1 f1].
      destruct (sub_ph_pair (S (length s)) (placeholder w_BLOCKCOMMENT i) bc2' s') as [s1' f1'].
      cbn [fst snd] in G3, F3. subst f1'. destruct f1; [|apply IH; assumption].
      replace (R inserted ++ bc2') with (R (inserted ++ bc2)); [apply IH; assumption|].
      rewrite (R_app_B d inserted) by exact Hh2. rewrite (proj1 G2). reflexivity.
  Qed.

  Lemma insert_block_comments_good bcs s s' : good d s s' -> forallb (fun e : N * str => bc_ok (snd e)) bcs = true ->
    good d (insert_block_comments mk bcs s) (insert_block_comments mk (rtab R (fun j => j) bcs) s').
  Proof.
    intros G H. unfold insert_block_comments. cbv zeta. rewrite (proj1 G), header_key_R. rewrite <- (proj1 G).
    pose proof (insert_blocks_good (header_key bcs s) bcs [] s s' G H) as G1. rewrite rename_nil in G1.
    destruct (header_key bcs s); [exact G1|]. apply good_app_E; [exact (proj1 Hmk0)|exact G1|exact (proj2 Hmk0)].
  Qed.
End Blocks.
End Stages.

(* ================================================================================================ *)
(* 8. the default header, remove_trailing_spaces                                                    *)
(* ================================================================================================ *)
Lemma has_cpp_mark_dsim (s t : str) : dsim s t -> has_cpp_mark s = has_cpp_mark t.
Proof.
  intros H. induction H as [|a a' s t Ha H IH]; [reflexivity|].
  destruct H as [|b b' s t Hb H]; [reflexivity|]. destruct H as [|c c' s t Hc H]; [reflexivity|].
  destruct H as [|x x' s t Hx H]; [reflexivity|]. destruct H as [|e e' s t He H]; [reflexivity|].
  cbn [has_cpp_mark] in *. rewrite IH. rewrite (ds_space a a' Ha), (ds_space e e' He).
  rewrite (ds_eqb 67 eq_refl b b' Hb), (ds_eqb 99 eq_refl b b' Hb), (ds_eqb c_plus eq_refl c c' Hc), (ds_eqb c_plus eq_refl x x' Hx).
  reflexivity.
Qed.

Lemma last_ok_app (a b : str) : b <> [] -> last_ok (a ++ b) = last_ok b.
Proof.
  intros Hne. induction a as [|x a IH]; [reflexivity|]. cbn [app last_ok]. destruct (a ++ b) eqn:E; [|exact IH].
  destruct a; [cbn in E; congruence|discriminate E].
Qed.

Lemma endc_native_header : endc native_header.
Proof. right. exists (removelast native_header), c_lf. split; [vm_compute; reflexivity|]. split; [reflexivity|discriminate]. Qed.
Lemma endc_foam_header : endc foam_header.
Proof. right. exists (removelast foam_header), c_lf. split; [vm_compute; reflexivity|]. split; [reflexivity|discriminate]. Qed.

Section Final.
Variable d : Z.
Local Notation R := (rename_str d).

Lemma header_bc_ok (h bc : str) : bc_ok h = true -> endc h -> bc_ok bc = true -> bc_ok (h ++ bc) = true.
Proof.
  intros Hh He Hb. destruct (bc_ok_parts _ Hh) as (H1 & H2 & H3). destruct (bc_ok_parts _ Hb) as (B1 & B2 & B3).
  assert (Hne : bc <> []) by (intros ->; discriminate B2). assert (Hne2 : h <> []) by (intros ->; discriminate H2).
  unfold bc_ok. rewrite (head_ok_app h bc Hne2), H1, (last_ok_app h bc Hne), B2, (semi_ok_app_E h bc H3 B3 He). reflexivity.
Qed.

Lemma native_mk bc : bc_ok bc = true ->
  make_default_block_comment (R bc) = R (make_default_block_comment bc) /\ bc_ok (make_default_block_comment bc) = true.
Proof.
  intros H. unfold make_default_block_comment. rewrite <- (has_cpp_mark_dsim bc (R bc) (dsim_rename d bc)).
  destruct (has_cpp_mark bc); [split; [reflexivity|exact H]|]. split.
  - rewrite (R_app_E d _ _ endc_native_header), (rename_clean d native_header) by (vm_compute; reflexivity). reflexivity.
  - apply header_bc_ok; [vm_compute; reflexivity|exact endc_native_header|exact H].
Qed.
Lemma native_mk0 : good d (make_default_block_comment []) (make_default_block_comment []) /\ endc (make_default_block_comment []).
Proof.
  change (make_default_block_comment []) with (native_header ++ []). rewrite app_nil_r.
  split; [apply good_clean; vm_compute; reflexivity|exact endc_native_header].
Qed.

Lemma foam_mk bc : bc_ok bc = true ->
  foam_make_default_block_comment (R bc) = R (foam_make_default_block_comment bc) /\ bc_ok (foam_make_default_block_comment bc) = true.
Proof.
  intros H. unfold foam_make_default_block_comment. rewrite <- (has_cpp_mark_dsim bc (R bc) (dsim_rename d bc)).
  assert (Hf : R foam_header = foam_header) by (apply rename_clean; vm_compute; reflexivity).
  assert (Hb : bc_ok foam_header = true) by (vm_compute; reflexivity).
  set (X := if has_cpp_mark bc then bc else foam_header ++ bc).
  assert (HX : (if has_cpp_mark bc then R bc else foam_header ++ R bc) = R X /\ bc_ok X = true).
  { unfold X. destruct (has_cpp_mark bc); [split; [reflexivity|exact H]|]. split.
    - rewrite (R_app_E d _ _ endc_foam_header), Hf. reflexivity.
    - apply header_bc_ok; [exact Hb|exact endc_foam_header|exact H]. }
  destruct HX as [E1 E2]. rewrite E1. rewrite (contains_R d (of_string "OpenFOAM") X eq_refl).
  destruct (contains (of_string "OpenFOAM") X); [split; [reflexivity|exact E2]|split; [symmetry; exact Hf|exact Hb]].
Qed.
Lemma foam_mk0 : good d (foam_make_default_block_comment []) (foam_make_default_block_comment []) /\ endc (foam_make_default_block_comment []).
Proof.
  assert (E : foam_make_default_block_comment [] = foam_header) by (vm_compute; reflexivity). rewrite E.
  split; [apply good_clean; vm_compute; reflexivity|exact endc_foam_header].
Qed.

Lemma rts_R (s : str) : remove_trailing_spaces (R s) = R (remove_trailing_spaces s).
Proof.
  pattern s. apply LayoutProofs.lines_ind; clear s.
  - intros b Hb. rewrite (LayoutProofs.rts_last b Hb).
    rewrite LayoutProofs.rts_last by (rewrite <- (has_char_dsim c_lf b (R b) eq_refl (dsim_rename d b)); exact Hb).
    apply rstrip_R.
  - intros b t Hb IH. rewrite (LayoutProofs.rts_line b t Hb). rewrite (R_app_r' d b c_lf t eq_refl).
    rewrite LayoutProofs.rts_line by (rewrite <- (has_char_dsim c_lf b (R b) eq_refl (dsim_rename d b)); exact Hb).
    rewrite IH, rstrip_R. rewrite (R_app_r' d (rstrip b) c_lf _ eq_refl). reflexivity.
Qed.

Lemma write_safe_parts s : write_safe s = true ->
  tree_ok (Dict (sd_data s)) = true /\ forallb (fun e : N * str => bc_ok (snd e)) (sd_bc s) = true /\
  forallb (fun e : N * include_entry => idb e && semi_ok (inc_name e)) (sd_inc s) = true /\
  forallb (fun e : N * str => idb e && lc_ok (snd e)) (sd_lc s) = true.
Proof.
  unfold write_safe. intros H. apply andb_true_iff in H. destruct H as [H H4]. apply andb_true_iff in H. destruct H as [H H3].
  apply andb_true_iff in H. destruct H as [H1 H2]. repeat split; assumption.
Qed.

(* NativeFormatter.to_string commutes with the renaming *)
Theorem writer_equivariant s : write_safe s = true -> to_string_sd (rename_sd d s) = R (to_string_sd s).
Proof.
  intros H. destruct (write_safe_parts s H) as (H1 & H2 & H3 & H4).
  unfold to_string_sd, native_body, rename_sd, Rsd. cbn [sd_data sd_lc sd_bc sd_inc sd_expr]. cbv zeta. rewrite <- rts_R. f_equal.
  pose proof (body_good d format_scalar format_key (format_scalar_good d) (format_key_good d) (sd_data s) H1) as G0.
  pose proof (insert_block_comments_good d make_default_block_comment native_mk native_mk0 (sd_bc s) _ _ G0 H2) as G1.
  pose proof (insert_includes_good d format_string (format_string_good d) (sd_inc s) _ _ G1 H3) as G2.
  pose proof (insert_line_comments_good d (sd_lc s) _ _ G2 H4) as G3. exact (proj1 G3).
Qed.

(* a written text without placeholder names is the same text under every counter *)
Theorem writer_invariant s : write_safe s = true -> cleanb (to_string_sd s) = true ->
  to_string_sd (rename_sd d s) = to_string_sd s.
Proof. intros H Hc. rewrite (writer_equivariant s H). apply rename_clean. exact Hc. Qed.

End Final.

(* ================================================================================================ *)
(* 9. the text written after a read does not depend on the counter                                  *)
(* ================================================================================================ *)
(* the writer applied to the outcome of a read: the text, or the error of the read *)
Definition written_after (wr : sdict -> str) (r : res (sdict * Z)) : res str := map_res (fun sc => wr (fst sc)) r.

(* side condition on the FIRST read: the result is write_safe and the text written from it contains no placeholder name *)
Definition write_side (wr : sdict -> str) (r : res (sdict * Z)) : bool :=
  match r with Ok (s, _) => write_safe s && cleanb (wr s) | Raise _ => true end.

Lemma written_after_renamed d k r : write_side to_string_sd r = true ->
  written_after to_string_sd (map_res (rename_read d k) r) = written_after to_string_sd r.
Proof.
  destruct r as [[s c]|e]; [|reflexivity]. cbn [write_side map_res written_after rename_read fst]. intros H.
  apply andb_true_iff in H. destruct H as [H1 H2]. rewrite (writer_invariant d s H1 H2). reflexivity.
Qed.

Theorem write_after_read_noinc : forall fs root text c1 c2,
  counter_ok c1 -> counter_ok c2 ->
  fs_lookup (norm_path root) fs = Some (FNative text) ->
  cleanb text = true -> cleanb (dir_of root) = true ->
  parse_side (lex true (dir_of root) c1 text) = true ->
  write_side to_string_sd (read_plain fs root false true c1) = true ->
  written_after to_string_sd (read_plain fs root false true c2) = written_after to_string_sd (read_plain fs root false true c1).
Proof.
  intros fs root text c1 c2 H1 H2 Hf Ht Hd Hs Hw.
  destruct (read_counter_independent_noinc fs root text c1 c2 H1 H2 Hf Ht Hd Hs) as (n & _ & E). rewrite E.
  apply written_after_renamed. exact Hw.
Qed.

Theorem write_after_read_inc : forall fs root c1 c2,
  counter_ok c1 -> counter_ok c2 -> fs_ok fs = true -> cleanb root = true ->
  write_side to_string_sd (read_plain fs root true true c1) = true ->
  written_after to_string_sd (read_plain fs root true true c2) = written_after to_string_sd (read_plain fs root true true c1).
Proof.
  intros fs root c1 c2 H1 H2 Hf Hr Hw.
  destruct (read_counter_independent_inc fs root c1 c2 H1 H2 Hf Hr) as (n & E & _). rewrite E.
  apply written_after_renamed. exact Hw.
Qed.

(* the same for two successful reads, as equality of the written texts *)
Corollary write_after_read_text : forall fs root inc c1 c2 s1 k1 s2 k2,
  written_after to_string_sd (read_plain fs root inc true c2) = written_after to_string_sd (read_plain fs root inc true c1) ->
  read_plain fs root inc true c1 = Ok (s1, k1) -> read_plain fs root inc true c2 = Ok (s2, k2) ->
  to_string_sd s1 = to_string_sd s2.
Proof. intros fs root inc c1 c2 s1 k1 s2 k2 E E1 E2. rewrite E1, E2 in E. cbn in E. injection E as E. symmetry. exact E. Qed.

(* ================================================================================================ *)
(* 10. FoamFormatter.to_string                                                                      *)
(* ================================================================================================ *)
Lemma escape_dq_cons c s : escape_dq (c :: s) = (if c =? c_dq then [c_bsl; c_dq] else [c]) ++ escape_dq s.
Proof. reflexivity. Qed.

Lemma escape_dq_AN (u r : list N) : forallb isAN u = true -> escape_dq (u ++ r) = u ++ escape_dq r.
Proof.
  induction u as [|c u IH]; intros H; [reflexivity|]. cbn [forallb] in H. apply andb_true_iff in H. destruct H as [H1 H2].
  cbn [app]. rewrite escape_dq_cons, (IH H2). destruct (c =? c_dq) eqn:E; [apply N.eqb_eq in E; subst c; discriminate H1|reflexivity].
Qed.

Lemma anp_escape_dq (s : list N) : anp (escape_dq s) = anp s.
Proof.
  induction s as [|c s IH]; [reflexivity|]. rewrite escape_dq_cons. destruct (c =? c_dq) eqn:E.
  - apply N.eqb_eq in E. subst c. reflexivity.
  - cbn [app]. destruct (isAN c) eqn:EA; [rewrite !anp_cons_AN by exact EA; rewrite IH; reflexivity|rewrite !anp_cons_nAN by exact EA; reflexivity].
Qed.

Lemma head_ok_escape_dq (s : list N) : head_ok (escape_dq s) = head_ok s.
Proof.
  destruct s as [|c s]; [reflexivity|]. rewrite escape_dq_cons. destruct (c =? c_dq) eqn:E; [apply N.eqb_eq in E; subst c|]; reflexivity.
Qed.

Lemma semi_ok_escape_dq (s : list N) : semi_ok s = true -> semi_ok (escape_dq s) = true.
Proof.
  induction s as [|c s IH]; intros H; [reflexivity|]. cbn [semi_ok] in H. apply andb_true_iff in H. destruct H as [H1 H2].
  rewrite escape_dq_cons. destruct (c =? c_dq) eqn:E.
  - cbn [app semi_ok]. rewrite (IH H2). reflexivity.
  - cbn [app semi_ok]. rewrite (IH H2), head_ok_escape_dq, H1. reflexivity.
Qed.

Section Foam.
Variable d : Z.
Local Notation R := (rename_str d).

Lemma escape_dq_R (s : list N) : escape_dq (R s) = R (escape_dq s).
Proof.
  induction s as [|c s Hn IH|w ds r Hin L D IH] using str_ph_ind.
  - reflexivity.
  - rewrite (rename_char d c s Hn), !escape_dq_cons, IH. destruct (c =? c_dq) eqn:E.
    + cbn [app]. rewrite !(R_cons d) by reflexivity. reflexivity.
    + cbn [app]. rewrite rename_char; [reflexivity|]. rewrite <- Hn. apply ph_word_anp.
      destruct (isAN c) eqn:EA; [rewrite !anp_cons_AN by exact EA; rewrite anp_escape_dq; reflexivity|rewrite !anp_cons_nAN by exact EA; reflexivity].
  - assert (Hb : shift d (dec_to_N ds) < 1000000) by (apply shift_lt; exact (dec6_bound ds L D)).
    rewrite (rename_ph d w ds r Hin L D). rewrite !app_assoc.
    rewrite (escape_dq_AN (w ++ ds) r) by (apply word_digits_AN; assumption).
    rewrite (escape_dq_AN (w ++ pad6 (shift d (dec_to_N ds))) (R r)) by (apply word_digits_AN; [exact Hin|apply pad6_dig; exact Hb]).
    rewrite IH, <- !app_assoc. rewrite (rename_ph d w ds _ Hin L D). reflexivity.
Qed.

Lemma foam_format_string_good (s : list N) : semi_ok s = true -> good d (foam_format_string s) (foam_format_string (R s)).
Proof.
  intros H. assert (G : good d s (R s)) by (split; [reflexivity|exact H]).
  assert (G2 : good d (escape_dq s) (escape_dq (R s))) by (split; [apply escape_dq_R|apply semi_ok_escape_dq; exact H]).
  unfold foam_format_string. rewrite classify_string_R. unfold dq.
  destruct (classify_string s); try exact G; apply quote_good; try exact G; try exact G2; try reflexivity; discriminate.
Qed.

Lemma foam_format_scalar_good v : sc_ok v = true -> good d (foam_format_scalar v) (foam_format_scalar (Rsc d v)).
Proof.
  destruct v as [z|l|b| |s]; intros H; try exact (format_scalar_good d _ H). cbn [foam_format_scalar Rsc sc_ok] in *.
  apply foam_format_string_good. exact H.
Qed.

Definition foam_key (k : key) : str := match k with KI z => Z_to_dec z | KS s => foam_format_string s end.
Lemma foam_key_good k : key_ok k = true -> good d (foam_key k) (foam_key (Rk d k)).
Proof.
  destruct k as [z|s]; intros H; cbn [foam_key Rk key_ok] in *; [apply good_plain; apply Z_to_dec_plain|apply foam_format_string_good; exact H].
Qed.

Lemma us_R k : key_ok k = true -> starts_with [c_us] (foam_key (Rk d k)) = starts_with [c_us] (foam_key k).
Proof.
  intros H. rewrite (proj1 (foam_key_good k H)). symmetry. apply starts_with_dsim; [reflexivity|apply dsim_rename].
Qed.

Lemma strip_us_dict kvs : strip_us (Dict kvs) =
  Dict (map (fun kc => (fst kc, strip_us (snd kc))) (filter (fun kc => negb (starts_with [c_us] (foam_key (fst kc)))) kvs)).
Proof.
  cbn [strip_us]. f_equal. induction kvs as [|[k c] l IH]; [reflexivity|]. cbn [filter map fst snd]. fold (foam_key k).
  destruct (starts_with [c_us] (foam_key k)); cbn [negb]; [exact IH|]. cbn [map fst snd]. rewrite IH. reflexivity.
Qed.
Lemma strip_us_lst ts : strip_us (Lst ts) = Lst (map strip_us ts).
Proof. reflexivity. Qed.

Lemma strip_us_R : forall t, tree_ok t = true -> strip_us (Rt d t) = Rt d (strip_us t) /\ tree_ok (strip_us t) = true.
Proof.
  induction t as [v|kvs IH|ts IH] using tree_ind'; intros H.
  - split; [reflexivity|exact H].
  - rewrite Rt_dict, !strip_us_dict, Rt_dict, tree_ok_dict. rewrite tree_ok_dict in H.
    induction IH as [|[k c] l Hc _ IHl]; [split; reflexivity|].
    cbn [forallb fst snd] in H. apply andb_true_iff in H. destruct H as [H H2]. apply andb_true_iff in H. destruct H as [Hk Hcok].
    destruct (IHl H2) as [E1 E2]. injection E1 as E1. cbn [snd] in Hc. destruct (Hc Hcok) as [E3 E4].
    rewrite Rkv_cons. cbn [filter fst snd]. rewrite (us_R k Hk).
    destruct (starts_with [c_us] (foam_key k)); cbn [negb].
    + split; [f_equal; exact E1|exact E2].
    + cbn [map fst snd forallb]. rewrite Rkv_cons, E3, Hk, E4, E2. cbn [fst snd]. split; [f_equal; f_equal; exact E1|reflexivity].
  - rewrite Rt_lst, !strip_us_lst, Rt_lst, tree_ok_lst. rewrite tree_ok_lst in H.
    induction IH as [|c l Hc _ IHl]; [split; reflexivity|].
    cbn [forallb] in H. apply andb_true_iff in H. destruct H as [Hcok H2].
    destruct (IHl H2) as [E1 E2]. injection E1 as E1. destruct (Hc Hcok) as [E3 E4].
    cbn [map forallb]. rewrite E3, E4, E2, E1. split; reflexivity.
Qed.

Theorem foam_writer_equivariant s : write_safe s = true -> foam_to_string_sd (rename_sd d s) = R (foam_to_string_sd s).
Proof.
  intros H. destruct (write_safe_parts s H) as (H1 & H2 & H3 & H4).
  unfold foam_to_string_sd, foam_body, rename_sd, Rsd. cbn [sd_data sd_lc sd_bc sd_inc sd_expr]. cbv zeta. rewrite <- rts_R. f_equal.
  destruct (strip_us_R (Dict (sd_data s)) H1) as [E1 E2]. rewrite Rt_dict in E1. rewrite E1.
  rewrite strip_us_dict in *. rewrite Rt_dict.
  pose proof (body_good d foam_format_scalar foam_key foam_format_scalar_good foam_key_good _ E2) as G0.
  pose proof (insert_block_comments_good d foam_make_default_block_comment (foam_mk d) (foam_mk0 d) (sd_bc s) _ _ G0 H2) as G1.
  pose proof (insert_includes_good d foam_format_string foam_format_string_good (sd_inc s) _ _ G1 H3) as G2.
  pose proof (insert_line_comments_good d (sd_lc s) _ _ G2 H4) as G3. exact (proj1 G3).
Qed.

Theorem foam_writer_invariant s : write_safe s = true -> cleanb (foam_to_string_sd s) = true ->
  foam_to_string_sd (rename_sd d s) = foam_to_string_sd s.
Proof. intros H Hc. rewrite (foam_writer_equivariant s H). apply rename_clean. exact Hc. Qed.
End Foam.

Lemma foam_written_after_renamed d k r : write_side foam_to_string_sd r = true ->
  written_after foam_to_string_sd (map_res (rename_read d k) r) = written_after foam_to_string_sd r.
Proof.
  destruct r as [[s c]|e]; [|reflexivity]. cbn [write_side map_res written_after rename_read fst]. intros H.
  apply andb_true_iff in H. destruct H as [H1 H2]. rewrite (foam_writer_invariant d s H1 H2). reflexivity.
Qed.

Theorem foam_write_after_read_inc : forall fs root c1 c2,
  counter_ok c1 -> counter_ok c2 -> fs_ok fs = true -> cleanb root = true ->
  write_side foam_to_string_sd (read_plain fs root true true c1) = true ->
  written_after foam_to_string_sd (read_plain fs root true true c2) = written_after foam_to_string_sd (read_plain fs root true true c1).
Proof.
  intros fs root c1 c2 H1 H2 Hf Hr Hw.
  destruct (read_counter_independent_inc fs root c1 c2 H1 H2 Hf Hr) as (n & E & _). rewrite E.
  apply foam_written_after_renamed. exact Hw.
Qed.

(* ================================================================================================ *)
(* 11. DictWriter.write and DictParser.parse (mode w, order off)                                    *)
(* ================================================================================================ *)
Lemma parse_values_tree_R d : forall t, parse_values_tree (Rt d t) = map_res (Rt d) (parse_values_tree t).
Proof.
  induction t as [v|kvs IH|ts IH] using tree_ind'.
  - cbn [Rt parse_values_tree]. destruct v as [z|l|b| |s]; try reflexivity. cbn [Rsc parse_scalar]. rewrite parse_value_R.
    destruct (parse_value s); reflexivity.
  - rewrite Rt_dict. cbn [parse_values_tree].
    set (go := fix go (l : list (key * tree)) : res (list (key * tree)) :=
                 match l with
                 | [] => Ok []
                 | (k, c) :: l' => bind (parse_values_tree c) (fun c' => bind (go l') (fun r => Ok ((k, c') :: r)))
                 end).
    assert (Hgo : go (Rkv d (Rt d) kvs) = map_res (Rkv d (Rt d)) (go kvs)).
    { induction IH as [|[k c] l Hc _ IHl]; [reflexivity|]. rewrite Rkv_cons. cbn [go]. cbn [snd] in Hc. rewrite Hc, IHl.
      destruct (parse_values_tree c); [|reflexivity]. cbn [map_res bind]. destruct (go l); reflexivity. }
    rewrite Hgo. destruct (go kvs); cbn [map_res bind]; [rewrite Rt_dict|]; reflexivity.
  - rewrite Rt_lst. cbn [parse_values_tree].
    set (go := fix go (l : list tree) : res (list tree) :=
                 match l with
                 | [] => Ok []
                 | c :: l' => bind (parse_values_tree c) (fun c' => bind (go l') (fun r => Ok (c' :: r)))
                 end).
    assert (Hgo : go (map (Rt d) ts) = map_res (map (Rt d)) (go ts)).
    { induction IH as [|c l Hc _ IHl]; [reflexivity|]. cbn [map go]. rewrite Hc, IHl.
      destruct (parse_values_tree c); [|reflexivity]. cbn [map_res bind]. destruct (go l); reflexivity. }
    rewrite Hgo. destruct (go ts); cbn [map_res bind]; [rewrite Rt_lst|]; reflexivity.
Qed.

(* what DictWriter.write serialises: the source after parse_values *)
Definition write_src (s : sdict) : res sdict :=
  map_res (fun t => mkSD (kvs_of_tree t) (sd_lc s) (sd_bc s) (sd_inc s) (sd_expr s)) (parse_values_tree (Dict (sd_data s))).
Definition fmt_sd (foam : bool) : sdict -> str := if foam then foam_to_string_sd else to_string_sd.
(* side condition: the source as serialised is write_safe and its text contains no placeholder name *)
Definition write_sd_side (foam : bool) (s : sdict) : bool :=
  match write_src s with Ok src => write_safe src && cleanb (fmt_sd foam src) | Raise _ => true end.

Lemma write_sd_eq fs foam target s c :
  write_sd fs foam target false false s c = Some (map_res (fun src => (fmt_sd foam src, c)) (write_src s)).
Proof.
  unfold write_sd, write_src, fmt_sd. destruct (parse_values_tree (Dict (sd_data s))); cbn [map_res]; [|reflexivity].
  destruct foam; reflexivity.
Qed.

Lemma write_src_R d s : write_src (rename_sd d s) = map_res (rename_sd d) (write_src s).
Proof.
  unfold write_src, rename_sd, Rsd. cbn [sd_data sd_lc sd_bc sd_inc sd_expr]. rewrite <- Rt_dict, parse_values_tree_R.
  destruct (parse_values_tree (Dict (sd_data s))) as [t|e]; cbn [map_res]; [|reflexivity].
  f_equal. destruct t as [v|kvs|ts]; cbn [kvs_of_tree]; try reflexivity. rewrite Rt_dict. reflexivity.
Qed.

Lemma fmt_sd_invariant d foam s : write_safe s = true -> cleanb (fmt_sd foam s) = true -> fmt_sd foam (rename_sd d s) = fmt_sd foam s.
Proof. destruct foam; [apply foam_writer_invariant|apply writer_invariant]. Qed.

(* the text (not the counter) returned by a write *)
Definition text_of {A} (r : option (res (str * A))) : option (res str) := option_map (map_res fst) r.

Theorem write_sd_counter_independent : forall fs foam target d s c c',
  write_sd_side foam s = true ->
  text_of (write_sd fs foam target false false (rename_sd d s) c') = text_of (write_sd fs foam target false false s c).
Proof.
  intros fs foam target d s c c' H. rewrite !write_sd_eq, write_src_R. unfold write_sd_side in H.
  destruct (write_src s) as [src|e]; cbn [map_res text_of option_map fst]; [|reflexivity].
  apply andb_true_iff in H. destruct H as [H1 H2]. rewrite (fmt_sd_invariant d foam src H1 H2). reflexivity.
Qed.

(* ---- DictReader.read with all options = read_plain when no file has expressions ------------------------------ *)
Lemma eval_noexpr s : sd_expr s = [] -> eval_expressions s = Some (Ok (mkSD (sd_data s) (sd_lc s) (sd_bc s) (sd_inc s) [])).
Proof. destruct s as [dt lc bc inc ex]. cbn [sd_expr sd_data sd_lc sd_bc sd_inc]. intros ->. reflexivity. Qed.

Lemma read_opts_plain fs root c : counter_ok c -> fs_ok fs = true ->
  read_opts fs root true false true [] c = Some (read_plain fs root true true c).
Proof.
  intros Hc Hfs. unfold read_opts, read_plain. cbn [scope_keys].
  destruct (fs_lookup (norm_path root) fs) as [u|] eqn:El; [|reflexivity].
  assert (Hfiles : forallb file_okb fs = true) by (unfold fs_ok in Hfs; apply andb_true_iff in Hfs; exact (proj2 Hfs)).
  destruct (fs_lookup_ok fs _ _ Hfiles El) as (text & -> & Hf).
  pose proof (parse_unit_R 0 c c Hc Hc ltac:(lia) root c c text (crel_start c c) Hf) as Hp.
  destruct (parse_unit true root c (FNative text)) as [pr|e]; [|reflexivity].
  destruct (parse_unit true (rename_str 0 root) c (FNative text)) as [pr'|e']; [|contradiction]. destruct Hp as (_ & Hcp & Hgp).
  cbn [bind]. pose proof (merge_includes_R 0 c c Hc Hc ltac:(lia) fs Hfs (pr_sd pr) (pr_count pr) (pr_count pr) ) as Hm.
  assert (Hcc : crel c c (pr_count pr) (pr_count pr)) by (destruct Hcp as (n & E1 & _); exists n; split; exact E1).
  specialize (Hm Hcc Hgp).
  destruct (merge_includes fs true (pr_sd pr) (pr_count pr)) as [[s k]|e]; [|reflexivity].
  destruct (merge_includes fs true (Rsd 0 (pr_sd pr)) (pr_count pr)) as [[s' k']|e']; [|contradiction].
  destruct Hm as (_ & _ & Hg). rewrite (eval_noexpr s (proj1 Hg)). cbn [bind]. reflexivity.
Qed.

(* ---- DictParser.parse -------------------------------------------------------------------------------------- *)
(* target path and text (the counter dropped) *)
Definition pm_out (r : option (res (str * str * Z))) : option (res (str * str)) := option_map (map_res fst) r.
(* the formatter DictParser.parse selects *)
Definition pm_foam (src : str) (output : option str) : bool :=
  match output_kind output with
  | Some foam0 => foam0 || ends_with (of_string ".foam") (target_file_name (base_name src) (Some (of_string "parsed")) [] output)
  | None => false
  end.
(* side condition on the first run *)
Definition pm_side (fs : fsys) (src : str) (output : option str) (c : Z) : bool :=
  match read_plain fs src true true c with Ok (s, _) => write_sd_side (pm_foam src output) s | Raise _ => true end.

Theorem parse_model_counter_independent : forall fs src output c1 c2,
  counter_ok c1 -> counter_ok c2 -> fs_ok fs = true -> cleanb src = true ->
  pm_side fs src output c1 = true ->
  pm_out (parse_model fs src true false false true [] output c2) = pm_out (parse_model fs src true false false true [] output c1).
Proof.
  intros fs src output c1 c2 H1 H2 Hfs Hsrc Hside. unfold parse_model, pm_side, pm_foam in *.
  destruct (output_kind output) as [foam0|]; [|reflexivity].
  rewrite !read_opts_plain by assumption.
  destruct (read_counter_independent_inc fs src c1 c2 H1 H2 Hfs Hsrc) as (n & E & _). rewrite E.
  destruct (read_plain fs src true true c1) as [[s k]|e]; cbn [map_res rename_read fst]; [|reflexivity].
  set (name := target_file_name (base_name src) (Some (of_string "parsed")) [] output) in *.
  destruct (ends_with (of_string ".json") name || ends_with (of_string ".xml") name); [reflexivity|].
  pose proof (write_sd_counter_independent fs (foam0 || ends_with (of_string ".foam") name) (dir_of src ++ [c_slash] ++ name)
                (c2 - c1) s k (counter_iter n c2) Hside) as Hw.
  rewrite !write_sd_eq in *. rewrite write_src_R in *.
  destruct (write_src s) as [x|e]; cbn [map_res text_of option_map fst pm_out] in Hw |- *; [|reflexivity].
  injection Hw as Hw. apply f_equal, f_equal, f_equal. exact Hw.
Qed.

(* ================================================================================================ *)
(* 12. the side conditions can be checked under either counter                                      *)
(* ================================================================================================ *)
Lemma head_ok_dsim (s t : str) : dsim s t -> head_ok s = head_ok t.
Proof. intros H. destruct H as [|a b s t Hab _]; [reflexivity|]. cbn [head_ok]. rewrite (ds_AN a b Hab). reflexivity. Qed.
Lemma semi_ok_dsim (s t : str) : dsim s t -> semi_ok s = semi_ok t.
Proof.
  intros H. induction H as [|a b s t Hab H IH]; [reflexivity|]. cbn [semi_ok].
  rewrite (ds_eqb c_semi eq_refl a b Hab), (head_ok_dsim s t H), IH. reflexivity.
Qed.

Section SideR.
Variable d : Z.
Local Notation R := (rename_str d).
Lemma semi_ok_R (s : list N) : semi_ok (R s) = semi_ok s.
Proof. symmetry. apply semi_ok_dsim. apply dsim_rename. Qed.

Lemma tree_ok_R : forall t, tree_ok (Rt d t) = tree_ok t.
Proof.
  induction t as [v|kvs IH|ts IH] using tree_ind'.
  - destruct v; cbn [Rt Rsc tree_ok sc_ok]; try reflexivity; apply semi_ok_R.
  - rewrite Rt_dict, !tree_ok_dict. induction IH as [|[k c] l Hc _ IHl]; [reflexivity|]. rewrite Rkv_cons. cbn [forallb fst snd] in *.
    rewrite Hc, IHl. f_equal. f_equal. destruct k; [reflexivity|apply semi_ok_R].
  - rewrite Rt_lst, !tree_ok_lst. induction IH as [|c l Hc _ IHl]; [reflexivity|]. cbn [map forallb]. rewrite Hc, IHl. reflexivity.
Qed.

Lemma idb_shift {V} (i : N) (v w : V) : idb (shift d i, v) = idb (i, w).
Proof.
  unfold idb. cbn [fst]. destruct (i <? 1000000) eqn:E.
  - apply N.ltb_lt. apply shift_lt. apply N.ltb_lt. exact E.
  - unfold shift. rewrite E. exact E.
Qed.

Lemma write_safe_R s : write_safe (rename_sd d s) = write_safe s.
Proof.
  unfold write_safe, rename_sd, Rsd. cbn [sd_data sd_lc sd_bc sd_inc]. rewrite <- Rt_dict, tree_ok_R. f_equal; [f_equal; [f_equal|]|].
  - induction (sd_bc s) as [|[i t] l IH]; [reflexivity|]. rewrite rtab_cons. cbn [forallb snd]. rewrite IH. f_equal.
    unfold bc_ok. rewrite head_ok_R, last_ok_R, semi_ok_R. reflexivity.
  - induction (sd_inc s) as [|[i [[a b] c]] l IH]; [reflexivity|]. rewrite rtab_cons. cbn [forallb]. rewrite IH. f_equal.
    unfold inc_name. cbn [fst snd Rinc]. rewrite semi_ok_R. f_equal. apply idb_shift.
  - induction (sd_lc s) as [|[i t] l IH]; [reflexivity|]. rewrite rtab_cons. cbn [forallb snd]. rewrite IH. f_equal.
    unfold lc_ok. rewrite head_ok_R, semi_ok_R. f_equal. apply idb_shift.
Qed.

Lemma write_side_R k r : write_side to_string_sd (map_res (rename_read d k) r) = write_side to_string_sd r.
Proof.
  destruct r as [[s c]|e]; [|reflexivity]. cbn [map_res rename_read write_side fst]. rewrite write_safe_R.
  destruct (write_safe s) eqn:E; [|reflexivity]. cbn [andb]. rewrite (writer_equivariant d s E). apply cleanb_R.
Qed.
End SideR.

Theorem write_side_counter_independent : forall fs root c1 c2,
  counter_ok c1 -> counter_ok c2 -> fs_ok fs = true -> cleanb root = true ->
  write_side to_string_sd (read_plain fs root true true c2) = write_side to_string_sd (read_plain fs root true true c1).
Proof.
  intros fs root c1 c2 H1 H2 Hf Hr. destruct (read_counter_independent_inc fs root c1 c2 H1 H2 Hf Hr) as (n & E & _). rewrite E.
  apply write_side_R.
Qed.
