(* C08, counter independence, part 3b: _insert_string_literals in general.
   insert_literal replaces every leaf that contains the placeholder by the literal's value -- or raises RecursionError
   when one of these leaves lies more than ten keys deep, whatever the order in which find_global_key visits them.
   The only requirement is the parser's termination condition: the literal's value does not contain its OWN placeholder. *)
From Coq Require Import String.
From Coq Require Import NArith ZArith Bool Lia ZifyBool ZifyN ZifyNat Permutation.
From DictIO Require Import Chars Str Value Scalar KeyPath SDict Lexer TokParser TypeTable MiscSpec CliProofs.
From DictIO Require ScalarProofs TokProofs SDictProofs KeyPathProofs OrderProofs ParserFuelProofs E2EProofs E2EHoles E2EInsert.
From DictIO Require Import CounterBase CounterLex CounterParse.
From Coq Require Import List.
Import ListNotations.
Open Scope N_scope.
Import E2EInsert.

(* ================================================================================================ *)
(* 1. paths to a leaf                                                                               *)
(* ================================================================================================ *)
Lemma forallb_aset_back {V} (P : V -> bool) k c c' (l : list (key * V)) : alookup k l = Some c ->
  forallb (fun kc => P (snd kc)) (aset k c' l) = true -> (P c' = true -> P c = true) ->
  forallb (fun kc => P (snd kc)) l = true.
Proof.
  intros Hl H Hp. induction l as [|[k' v] l IH]; [reflexivity|]. cbn [alookup aset] in *. destruct (key_eqb k k').
  - injection Hl as ->. cbn [forallb snd] in *. apply andb_true_iff in H. destruct H as [H1 H2]. rewrite (Hp H1), H2. reflexivity.
  - cbn [forallb snd] in *. apply andb_true_iff in H. destruct H as [H1 H2]. rewrite H1, (IH Hl H2). reflexivity.
Qed.

Lemma forallb_set_nth_back {A} (P : A -> bool) c c' : forall i (l : list A), nth_error l i = Some c ->
  forallb P (set_nth i c' l) = true -> (P c' = true -> P c = true) -> forallb P l = true.
Proof.
  induction i as [|i IH]; intros [|x l] Hn H Hp; try discriminate Hn; cbn [nth_error set_nth forallb] in *.
  - injection Hn as ->. apply andb_true_iff in H. destruct H as [H1 H2]. rewrite (Hp H1), H2. reflexivity.
  - apply andb_true_iff in H. destruct H as [H1 H2]. rewrite H1, (IH l Hn H2 Hp). reflexivity.
Qed.

Lemma set_child_lw_back (PW : scalar -> bool) t k c c' t' b : child t k = Ok c -> set_child t k c' = Ok t' ->
  (lw PW (Nat.pred b) c' = true -> lw PW (Nat.pred b) c = true) -> lw PW b t' = true -> lw PW b t = true.
Proof.
  intros Hc Hs Hp H. destruct t as [x|kvs|ts]; [discriminate Hc| |].
  - cbn [child set_child] in *. destruct (alookup k kvs) as [c0|] eqn:El; [|discriminate Hc]. injection Hc as ->. injection Hs as <-.
    rewrite lw_dict in *. exact (forallb_aset_back (lw PW (Nat.pred b)) k c c' kvs El H Hp).
  - cbn [child set_child] in *. destruct k as [z|s]; [|discriminate Hc].
    destruct (norm_index z (length ts)) as [i|]; [|discriminate Hc]. destruct (nth_error ts i) as [c0|] eqn:En; [|discriminate Hc].
    injection Hc as ->. injection Hs as <-. rewrite lw_lst in *. exact (forallb_set_nth_back (lw PW (Nat.pred b)) c c' i ts En H Hp).
Qed.

Lemma get_path_cons t k p : get_path t (k :: p) = match child t k with Ok c => get_path c p | Raise _ => None end.
Proof. reflexivity. Qed.

Lemma set_lw_back (PW : scalar -> bool) (v : tree) : forall p t ii t' x b, get_path t p = Some (Leaf x) ->
  set_at t p v ii = Ok t' -> (length p < b)%nat -> lw PW b t' = true -> lw PW b t = true.
Proof.
  induction p as [|k p IH]; intros t ii t' x b Hg Hs Hb H.
  - cbn [set_at] in Hs. injection Hs as <-. exact H.
  - rewrite get_path_cons in Hg. destruct (child t k) as [c|e] eqn:Ec; [|discriminate Hg].
    destruct p as [|k2 p].
    + cbn [get_path] in Hg. injection Hg as ->. cbn [set_at] in Hs.
      apply (set_child_lw_back PW t k (Leaf x) v t' b Ec Hs); [|exact H].
      intros _. cbn [lw]. cbn [length] in Hb. destruct (Nat.pred b) eqn:E; [lia|]. apply orb_true_r.
    + rewrite ParserFuelProofs.set_at_step in Hs. rewrite Ec in Hs. cbn [bind] in Hs.
      destruct (negb (is_container c)); [discriminate Hs|]. destruct (Nat.eqb (S ii) 10); [discriminate Hs|].
      destruct (set_at c (k2 :: p) v (S ii)) as [c'|e] eqn:Es; [|discriminate Hs]. cbn [bind] in Hs.
      apply (set_child_lw_back PW t k c c' t' b Ec Hs); [|exact H].
      intros Hc'. apply (IH c (S ii) c' x (Nat.pred b) Hg Es); [cbn [length] in *; lia|exact Hc'].
Qed.

Lemma set_at_recursion (v : tree) : forall p t ii x, get_path t p = Some (Leaf x) -> (ii <= 9)%nat -> (11 <= ii + length p)%nat ->
  set_at t p v ii = Raise E_Recursion.
Proof.
  induction p as [|k p IH]; intros t ii x Hg H9 H11; [cbn [length] in H11; lia|].
  destruct p as [|k2 p]; [cbn [length] in H11; lia|].
  rewrite get_path_cons in Hg. destruct (child t k) as [c|e] eqn:Ec; [|discriminate Hg].
  rewrite ParserFuelProofs.set_at_step, Ec. cbn [bind].
  assert (Hc : is_container c = true).
  { rewrite get_path_cons in Hg. destruct c; [discriminate Hg|reflexivity|reflexivity]. }
  rewrite Hc. cbn [negb]. destruct (Nat.eqb (S ii) 10) eqn:E10; [reflexivity|]. apply Nat.eqb_neq in E10.
  rewrite (IH c (S ii) x Hg); [reflexivity|lia|cbn [length] in *; lia].
Qed.

(* ================================================================================================ *)
(* 2. insert_literal                                                                                *)
(* ================================================================================================ *)
Lemma find_none_lw q : forall t b, find_key q t = None -> lw (Pq q) b t = true.
Proof.
  induction t as [v|kvs IH|ts IH] using tree_ind'; intros b H.
  - cbn [find_key] in H. cbn [lw]. unfold Pq. destruct (contains q (py_str v)); [discriminate H|reflexivity].
  - rewrite lw_dict. rewrite KeyPathProofs.find_key_dict in H.
    destruct (first_some (sort_kvs (OrderProofs.map_snd (find_key q) kvs))) as [[k0 p0]|] eqn:Ef; [discriminate H|].
    apply forallb_forall. intros [k c] Hin. cbn [snd]. rewrite Forall_forall in IH. apply (IH (k, c) Hin).
    apply (KeyPathProofs.first_some_none _ k _ Ef).
    apply (Permutation_in _ (Permutation_sym (OrderProofs.sort_kvs_perm _))).
    unfold OrderProofs.map_snd. apply in_map_iff. exists (k, c). split; [reflexivity|exact Hin].
  - rewrite lw_lst. rewrite KeyPathProofs.find_key_lst in H. apply forallb_forall. intros c Hin.
    rewrite Forall_forall in IH. apply (IH c Hin). exact (KeyPathProofs.find_lst_none _ _ _ _ H Hin).
Qed.

Lemma insert_literal_full q v' : Pq q v' = false ->
  forall fuel t, (cntq q t < fuel)%nat -> is_container t = true -> wf t = true ->
  insert_literal fuel q (Leaf v') t = if lw (Pq q) 11 t then Ok (NativeSpec.map_leaves (Fsub q v') t) else Raise E_Recursion.
Proof.
  intros Hv fuel t Hc Hcont Hwf. destruct (lw (Pq q) 11 t) eqn:El.
  - exact (insert_literal_spec q v' (Pq q) (fun x H => H) Hv fuel t Hc Hcont Hwf El).
  - revert t Hc Hcont Hwf El. induction fuel as [|f IH]; intros t Hc Hcont Hwf El; [lia|].
    cbn [insert_literal]. destruct (find_key q t) as [p|] eqn:Ef.
    + destruct (KeyPathProofs.find_key_sound q t p Hwf Ef) as (x & Hg & _).
      destruct (find_some_set q v' (Pq q) (fun x0 H => H) Hv t p Hwf Ef) as [_ [(x0 & -> & _)|(Hne & _ & Hset)]]; [discriminate Hcont|].
      assert (Eg : find_global_key q t = Some p).
      { unfold find_global_key. destruct t as [x0|kvs|ts]; [discriminate Hcont| |]; rewrite Ef;
          destruct p; [congruence|reflexivity|congruence|reflexivity]. }
      rewrite Eg. unfold set_global_key. destruct (le_lt_dec (length p) 10) as [Hle|Hgt].
      * destruct (Hset 0%nat ltac:(lia)) as (t' & Et' & Rt). rewrite Et'. cbn [bind].
        destruct (R1_facts q v' (Pq q) (fun x0 H => H) Hv t t' Rt) as (_ & I2 & I3 & I4 & _).
        apply IH; [lia|exact (I4 Hcont)|exact (I3 Hwf)|].
        destruct (lw (Pq q) 11 t') eqn:El'; [|reflexivity].
        rewrite (set_lw_back (Pq q) (Leaf v') p t 0%nat t' x 11%nat Hg Et' ltac:(lia) El') in El. discriminate El.
      * rewrite (set_at_recursion (Leaf v') p t 0%nat x Hg ltac:(lia) ltac:(lia)). reflexivity.
    + rewrite (find_none_lw q t 11%nat Ef) in El. discriminate El.
Qed.

(* ================================================================================================ *)
(* 3. _insert_string_literals                                                                       *)
(* ================================================================================================ *)
Definition own_ok (e : N * str) : bool := negb (Pq (E2EHoles.PH (fst e)) (pv (snd e))).
Definition lits_own_ok (tab : list (N * str)) : bool := forallb own_ok tab.

Fixpoint isl_spec (tab : list (N * str)) (d : list (key * tree)) : res (list (key * tree)) :=
  match tab with
  | [] => Ok d
  | e :: tab' =>
      if lw (Pq (E2EHoles.PH (fst e))) 11 (Dict d)
      then isl_spec tab' (TreeSpec.kvs_of (NativeSpec.map_leaves (Fsub (E2EHoles.PH (fst e)) (pv (snd e))) (Dict d)))
      else Raise E_Recursion
  end.

Definition isl_step (acc : res (list (key * tree))) (e : N * str) : res (list (key * tree)) :=
  bind acc (fun d =>
  bind (parse_value (snd e)) (fun v =>
  bind (insert_literal (S (count_leaves (Dict d))) (placeholder w_STRINGLITERAL (fst e)) (Leaf v) (Dict d))
       (fun t => match t with Dict d' => Ok d' | _ => Ok d end))).

Lemma isl_fold_raise tab e : fold_left isl_step tab (Raise e) = Raise e.
Proof. induction tab as [|x tab IH]; [reflexivity|]. cbn [fold_left isl_step bind]. exact IH. Qed.

Lemma isl_eq : forall tab d, wf (Dict d) = true -> lits_own_ok tab = true -> insert_string_literals tab d = isl_spec tab d.
Proof.
  unfold insert_string_literals. change (fun (acc : res (list (key * tree))) (e : N * str) =>
     bind acc (fun d => bind (parse_value (snd e)) (fun v =>
     bind (insert_literal (S (count_leaves (Dict d))) (placeholder w_STRINGLITERAL (fst e)) (Leaf v) (Dict d))
          (fun t => match t with Dict d' => Ok d' | _ => Ok d end)))) with isl_step.
  induction tab as [|[k s] tab IH]; intros d Hwf Hl; [reflexivity|].
  unfold lits_own_ok in Hl. cbn [forallb] in Hl. apply andb_true_iff in Hl. destruct Hl as [Hk Hl].
  unfold own_ok in Hk. cbn [fst snd] in Hk. apply negb_true_iff in Hk.
  cbn [fold_left isl_spec fst snd]. unfold isl_step at 2. cbn [bind fst snd]. rewrite (parse_pv s). cbn [bind].
  change (placeholder w_STRINGLITERAL k) with (E2EHoles.PH k).
  rewrite (insert_literal_full (E2EHoles.PH k) (pv s) Hk).
  2:{ pose proof (cntq_le (E2EHoles.PH k) SNone (fun _ => true) (Dict d)). lia. }
  2:{ reflexivity. }
  2:{ exact Hwf. }
  destruct (lw (Pq (E2EHoles.PH k)) 11 (Dict d)); cbn [bind]; [|apply isl_fold_raise].
  rewrite TokProofs.map_leaves_dict. cbn [TreeSpec.kvs_of]. apply IH; [|exact Hl].
  rewrite <- TokProofs.map_leaves_dict, E2EProofs.wf_map_leaves. exact Hwf.
Qed.

Lemma isl_keys_okt : forall tab d d', isl_spec tab d = Ok d' -> keys_okt (Dict d') = keys_okt (Dict d).
Proof.
  induction tab as [|e tab IH]; intros d d' H; [injection H as <-; reflexivity|]. cbn [isl_spec] in H.
  destruct (lw (Pq (E2EHoles.PH (fst e))) 11 (Dict d)); [|discriminate H].
  rewrite (IH _ _ H). rewrite TokProofs.map_leaves_dict. cbn [TreeSpec.kvs_of]. rewrite <- TokProofs.map_leaves_dict. apply keys_okt_map_leaves.
Qed.

Section InsertR.
Variable d : Z.
Notation R := (rename_str d).

Lemma lw_R2 (PW PW' : scalar -> bool) : (forall x, PW' (Rsc d x) = PW x) -> forall t b, lw PW' b (Rt d t) = lw PW b t.
Proof.
  intros HP. induction t as [v|kvs IH|ts IH] using tree_ind'; intros b.
  - cbn [Rt lw]. rewrite HP. reflexivity.
  - rewrite Rt_dict, !lw_dict. induction IH as [|[k c] kvs Hc _ IHk]; [reflexivity|].
    rewrite Rkv_cons. cbn [forallb snd] in *. rewrite Hc, IHk. reflexivity.
  - rewrite Rt_lst, !lw_lst. induction IH as [|c l Hc _ IHl]; [reflexivity|]. cbn [map forallb]. rewrite Hc, IHl. reflexivity.
Qed.

Lemma own_ok_R k s : k < 1000000 -> own_ok (shift d k, R s) = own_ok (k, s).
Proof. intros Hk. unfold own_ok. cbn [fst snd]. rewrite pv_R, (Pq_R d k _ Hk). reflexivity. Qed.

Lemma lits_own_ok_R tab : Forall idok tab -> lits_own_ok (rtab R (shift d) tab) = lits_own_ok tab.
Proof.
  unfold lits_own_ok. induction tab as [|[k s] tab IH]; intros H; [reflexivity|]. inversion H as [|? ? Hk Ht]; subst.
  rewrite rtab_cons. cbn [forallb]. rewrite (own_ok_R k s Hk), (IH Ht). reflexivity.
Qed.

Lemma isl_spec_R : forall tab data, Forall idok tab ->
  isl_spec (rtab R (shift d) tab) (Rkv d (Rt d) data) = map_res (Rkv d (Rt d)) (isl_spec tab data).
Proof.
  induction tab as [|[k s] tab IH]; intros data H; [reflexivity|]. inversion H as [|? ? Hk Ht]; subst. cbn [idok fst] in Hk.
  rewrite rtab_cons. cbn [isl_spec fst snd]. rewrite <- Rt_dict.
  rewrite (lw_R2 (Pq (E2EHoles.PH k)) (Pq (E2EHoles.PH (shift d k))) (fun x => Pq_R d k x Hk)).
  destruct (lw (Pq (E2EHoles.PH k)) 11 (Dict data)); [|reflexivity].
  rewrite <- (map_leaves_R d (Fsub (E2EHoles.PH k) (pv s)) (Fsub (E2EHoles.PH (shift d k)) (pv (R s)))).
  - rewrite TokProofs.map_leaves_dict, Rt_dict. cbn [TreeSpec.kvs_of]. apply IH. exact Ht.
  - intros x. unfold Fsub. rewrite (Pq_R d k x Hk), pv_R. destruct (Pq (E2EHoles.PH k) x); reflexivity.
Qed.

Lemma insert_string_literals_R' tab data : wf (Dict data) = true -> lits_own_ok tab = true -> Forall idok tab ->
  insert_string_literals (rtab R (shift d) tab) (Rkv d (Rt d) data) = map_res (Rkv d (Rt d)) (insert_string_literals tab data).
Proof.
  intros Hwf Hl Hid. rewrite (isl_eq tab data Hwf Hl). rewrite isl_eq.
  - apply isl_spec_R. exact Hid.
  - rewrite <- Rt_dict, wf_R. exact Hwf.
  - rewrite lits_own_ok_R; assumption.
Qed.

End InsertR.
