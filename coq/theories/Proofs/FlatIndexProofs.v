(* Proofs for C05 (expressions): documents with nested dicts of integers, lists of integers, indexed and bare
   references.  The loop of FlatEngine.v is instantiated with the data of such a document. *)
From Coq Require Import String.
From Coq Require Import NArith ZArith List Bool Lia Permutation.
From DictIO Require Import Chars Str Value Scalar KeyPath SDict Layout Lexer TokParser Reader Expr Eval
     MiscSpec EvalSpec FlatSpec IndexSpec ScalarProofs OrderProofs KeyPathProofs SDictProofs SemProofs ArithProofs TextProofs FlatDataProofs
     EvalProofs RefTextProofs FlatEngine.
Import ListNotations.

(* ================================================================================================ *)
(* 1. Static values: integers, lists of integers, dicts (string keys) of static values              *)
(* ================================================================================================ *)
Lemma stat_dict : forall kvs, stat (Dict kvs) = forallb (fun kv => str_key (fst kv) && stat (snd kv)) kvs.
Proof. induction kvs as [|[k c] l IH]; [reflexivity|]. cbn [forallb fst snd]. rewrite <- IH. reflexivity. Qed.

(* ---- no placeholder in a static value ---------------------------------------------------------------- *)
Lemma find_lst_none : forall q ts z, Forall (fun c => find_key q c = None) ts -> find_lst q ts z = None.
Proof.
  intros q ts. induction ts as [|c l IH]; intros z H; [reflexivity|]. inversion H as [|? ? Hc Hl]; subst.
  cbn [find_lst]. rewrite Hc. apply IH. exact Hl.
Qed.

Lemma find_key_dict_none : forall ph (l : list (key * tree)),
  Forall (fun kv => find_key ph (snd kv) = None) l -> find_key ph (Dict l) = None.
Proof.
  intros ph l Hf. rewrite find_key_dict.
  destruct (first_some (sort_kvs (OrderProofs.map_snd (find_key ph) l))) as [[k p]|] eqn:E; [|reflexivity].
  exfalso. apply first_some_in in E. apply in_sorted_find in E. destruct E as [c [Hin Ho]].
  rewrite Forall_forall in Hf. pose proof (Hf _ Hin) as Hn. cbn [snd] in Hn. rewrite Hn in Ho. discriminate.
Qed.

Lemma inert_int : forall z, inert (SInt z) = true.
Proof. intro z. unfold inert. cbn [py_str]. rewrite int_no_dollar, expression_not_in_int. reflexivity. Qed.

Lemma inert_free : forall i v, inert v = true -> contains (ph_of i) (py_str v) = false.
Proof.
  intros i v H. unfold inert in H. apply andb_true_iff in H. destruct H as [_ H]. apply negb_true_iff in H.
  unfold ph_of, placeholder. apply TextProofs.contains_app_l. exact H.
Qed.

Lemma stat_free : forall i t, stat t = true -> find_key (ph_of i) t = None.
Proof.
  intros i. induction t as [s|kvs IH|ts IH] using tree_ind'; intro H.
  - cbn [stat] in H. cbn [find_key]. rewrite (inert_free i s H). reflexivity.
  - apply find_key_dict_none. rewrite stat_dict in H. rewrite forallb_forall in H.
    rewrite Forall_forall in IH. apply Forall_forall. intros kv Hin. apply (IH kv Hin).
    specialize (H kv Hin). apply andb_true_iff in H. apply H.
  - rewrite find_key_lst. apply find_lst_none. cbn [stat] in H. rewrite forallb_forall in H.
    apply Forall_forall. intros c Hc. specialize (H c Hc). destruct c as [v|kvs|ts']; try discriminate H.
    cbn [inert_leaf] in H. cbn [find_key]. rewrite (inert_free i v H). reflexivity.
Qed.

(* ---- the placeholder leaf among entries that do not contain it is found and overwritten ----------------- *)
Lemma find_key_dict_one' : forall ph (l1 l2 : list (key * tree)) k,
  Forall (fun kv => find_key ph (snd kv) = None) (l1 ++ l2) ->
  find_key ph (Dict (l1 ++ (k, Leaf (SStr ph)) :: l2)) = Some [k].
Proof.
  intros ph l1 l2 k Hf. rewrite find_key_dict.
  assert (Hself : find_key ph (Leaf (SStr ph)) = Some []).
  { cbn [find_key py_str]. rewrite contains_refl. reflexivity. }
  rewrite (first_some_unique _ k []); [reflexivity | |].
  - apply in_sorted_find. exists (Leaf (SStr ph)). split; [|symmetry; exact Hself].
    apply in_or_app. right. left. reflexivity.
  - intros k' p' Hin. apply in_sorted_find in Hin. destruct Hin as [c [Hin Ho]].
    rewrite Forall_forall in Hf.
    assert (Hfree : In (k', c) (l1 ++ l2) -> False).
    { intros Hin'. pose proof (Hf _ Hin') as Hn. cbn [snd] in Hn. rewrite Hn in Ho. discriminate. }
    apply in_app_or in Hin. destruct Hin as [Hin|[Heq|Hin]].
    + exfalso. apply Hfree. apply in_or_app. left. exact Hin.
    + inversion Heq; subst. rewrite Hself in Ho. inversion Ho. split; reflexivity.
    + exfalso. apply Hfree. apply in_or_app. right. exact Hin.
Qed.

Lemma insert_result_one : forall (l1 l2 : list (key * tree)) (k : key) (ph : str) (z : Z),
  NoDup (map fst (l1 ++ (k, Leaf (SStr ph)) :: l2)) ->
  Forall (fun kv => find_key ph (snd kv) = None) (l1 ++ l2) ->
  contains ph (Z_to_dec z) = false ->
  insert_result (S (count_leaves (Dict (l1 ++ (k, Leaf (SStr ph)) :: l2)))) ph (Leaf (SInt z))
                (Dict (l1 ++ (k, Leaf (SStr ph)) :: l2))
  = Ok (Dict (l1 ++ (k, Leaf (SInt z)) :: l2)).
Proof.
  intros l1 l2 k ph z Hnd Hf Hz.
  rewrite insert_result_S.
  assert (Hfind : find_global_key ph (Dict (l1 ++ (k, Leaf (SStr ph)) :: l2)) = Some [k]).
  { unfold find_global_key. rewrite (find_key_dict_one' ph l1 l2 k Hf). reflexivity. }
  rewrite Hfind. unfold set_global_key. cbn [set_at set_child bind py_str_tree py_str]. rewrite Hz.
  rewrite aset_mid.
  2:{ rewrite map_app in Hnd. cbn [map fst] in Hnd. pose proof (NoDup_remove_2 _ _ _ Hnd) as Hn.
      intro Hin. apply Hn. apply in_or_app. left. exact Hin. }
  pose proof (count_leaves_mid l1 l2 k (SStr ph)) as Hc.
  destruct (count_leaves (Dict (l1 ++ (k, Leaf (SStr ph)) :: l2))) as [|n]; [lia|].
  rewrite insert_result_S.
  assert (Hnone : find_global_key ph (Dict (l1 ++ (k, Leaf (SInt z)) :: l2)) = None).
  { unfold find_global_key. rewrite find_key_dict_none; [reflexivity|].
    apply Forall_app in Hf. destruct Hf as [Hf1 Hf2]. apply Forall_app. split; [exact Hf1|].
    constructor; [|exact Hf2]. cbn [snd find_key py_str]. rewrite Hz. reflexivity. }
  rewrite Hnone. reflexivity.
Qed.

(* ================================================================================================ *)
(* 2. The variables table as a sequence of assignments                                              *)
(* ================================================================================================ *)
Lemma tbinds_dict : forall kvs, tbinds (Dict kvs) = flat_map ebinds kvs.
Proof. induction kvs as [|[k c] l IH]; [reflexivity|]. cbn [flat_map]. rewrite <- IH. reflexivity. Qed.

Definition assign (tab : list (N * expr_entry)) (acc : vtab) (b : str * tree) : vtab :=
  let (x, v) := b in
  match v with
  | Lst _ => aset (KS x) v acc
  | _ => let v' := insert_expression v tab in if circular (KS x) v' then acc else aset (KS x) v' acc
  end.

Lemma lcd_ints : forall ts, forallb inert_leaf ts = true -> list_contains_dict (Lst ts) = false.
Proof.
  induction ts as [|c l IH]; intro H; [reflexivity|]. cbn [forallb] in H. apply andb_true_iff in H. destruct H as [Hc Hl].
  cbn [list_contains_dict]. destruct c as [s|kvs|ts']; try discriminate Hc. cbn [orb]. apply (IH Hl).
Qed.

(* an entry whose value is a leaf or static *)
Definition simple_val (t : tree) : bool := match t with Leaf _ => true | _ => stat t end.

Lemma stat_vars : forall tab t, stat t = true -> forall acc,
  match t with
  | Dict _ => vars_tree tab false t acc = fold_left (assign tab) (tbinds t) acc
  | _ => True
  end.
Proof.
  intros tab. induction t as [s|kvs IH|ts IH] using tree_ind'; intros H acc; [exact I| |exact I].
  rewrite vars_tree_dict, tbinds_dict. rewrite stat_dict in H.
  revert acc. induction IH as [|[k c] l Hc Hl IHl]; intro acc; [reflexivity|].
  cbn [forallb fst snd] in H. apply andb_true_iff in H. destruct H as [Hkc Hl'].
  apply andb_true_iff in Hkc. destruct Hkc as [Hk Hsc]. cbn [snd] in Hc.
  cbn [fold_left flat_map]. rewrite fold_left_app. rewrite <- (IHl Hl'). f_equal.
  destruct k as [z|x]; [discriminate Hk|]. unfold ebinds. cbn [fst snd]. rewrite fold_left_app. cbn [fold_left].
  unfold vt_dict_step. destruct c as [s|kvs'|ts'].
  - cbn [tbinds fold_left assign]. reflexivity.
  - rewrite (Hc Hsc acc). cbn [assign]. reflexivity.
  - cbn [stat] in Hsc. rewrite (lcd_ints ts' Hsc). cbn [tbinds fold_left assign]. reflexivity.
Qed.

Lemma vars_binds : forall tab kvs acc,
  Forall (fun kv => str_key (fst kv) = true /\ simple_val (snd kv) = true) kvs ->
  vars_tree tab false (Dict kvs) acc = fold_left (assign tab) (flat_map ebinds kvs) acc.
Proof.
  intros tab kvs acc H. rewrite vars_tree_dict. revert acc.
  induction H as [|[k c] l [Hk Hc] Hl IHl]; intro acc; [reflexivity|].
  cbn [fst snd] in Hk, Hc. cbn [fold_left flat_map]. rewrite fold_left_app. rewrite <- IHl. f_equal.
  destruct k as [z|x]; [discriminate Hk|]. unfold ebinds. cbn [fst snd]. rewrite fold_left_app. cbn [fold_left].
  unfold vt_dict_step. destruct c as [s|kvs'|ts'].
  - cbn [tbinds fold_left assign]. reflexivity.
  - cbn [simple_val] in Hc. pose proof (stat_vars tab (Dict kvs') Hc acc) as Hv. cbv beta iota in Hv. rewrite Hv.
    cbn [assign]. reflexivity.
  - cbn [simple_val stat] in Hc. rewrite (lcd_ints ts' Hc). cbn [tbinds fold_left assign]. reflexivity.
Qed.

(* ---- look-up after a sequence of assignments to distinct names --------------------------------------------- *)
Fixpoint blookup (y : str) (bs : list (str * tree)) : option tree :=
  match bs with
  | [] => None
  | (x, v) :: bs' => if str_eqb y x then Some v else blookup y bs'
  end.

Lemma blookup_in : forall bs y v, NoDup (map fst bs) -> In (y, v) bs -> blookup y bs = Some v.
Proof.
  induction bs as [|[x w] bs IH]; intros y v Hnd Hin; [contradiction|].
  cbn [map fst] in Hnd. inversion Hnd as [|? ? Hx Hnd']; subst. cbn [blookup].
  destruct Hin as [Hin|Hin].
  - inversion Hin; subst. rewrite str_eqb_refl. reflexivity.
  - destruct (str_eqb y x) eqn:E; [|apply IH; assumption].
    apply str_eqb_eq in E. subst y. exfalso. apply Hx. apply in_map_iff. exists (x, v). split; [reflexivity | exact Hin].
Qed.

Lemma blookup_notin : forall bs y, ~ In y (map fst bs) -> blookup y bs = None.
Proof.
  induction bs as [|[x w] bs IH]; intros y H; [reflexivity|]. cbn [blookup map fst In] in *.
  destruct (str_eqb y x) eqn:E; [apply str_eqb_eq in E; subst y; exfalso; apply H; left; reflexivity|].
  apply IH. intro Hc. apply H. right. exact Hc.
Qed.

Definition assigned (tab : list (N * expr_entry)) (y : str) (v : tree) : option tree :=
  match v with
  | Lst _ => Some v
  | _ => let v' := insert_expression v tab in if circular (KS y) v' then None else Some v'
  end.

Lemma assign_other : forall tab bs acc x, ~ In x (map fst bs) ->
  alookup (KS x) (fold_left (assign tab) bs acc) = alookup (KS x) acc.
Proof.
  intros tab. induction bs as [|[x' v'] bs IHb]; intros acc x Hx; [reflexivity|].
  cbn [map fst In] in Hx. cbn [fold_left].
  rewrite IHb by (intro Hc; apply Hx; right; exact Hc).
  assert (Hne : KS x' <> KS x) by (intro Ec; inversion Ec; subst x'; apply Hx; left; reflexivity).
  unfold assign. destruct v' as [s|kvs|ts].
  - cbv zeta. destruct (circular (KS x') (insert_expression (Leaf s) tab)); [reflexivity|]. apply alookup_aset_other. exact Hne.
  - cbv zeta. destruct (circular (KS x') (insert_expression (Dict kvs) tab)); [reflexivity|]. apply alookup_aset_other. exact Hne.
  - apply alookup_aset_other. exact Hne.
Qed.

Lemma assign_lookup : forall tab bs acc y, NoDup (map fst bs) -> alookup (KS y) acc = None ->
  alookup (KS y) (fold_left (assign tab) bs acc) =
  match blookup y bs with Some v => assigned tab y v | None => None end.
Proof.
  intros tab. induction bs as [|[x v] bs IH]; intros acc y Hnd Hacc; [exact Hacc|].
  cbn [map fst] in Hnd. inversion Hnd as [|? ? Hx Hnd']; subst. cbn [fold_left blookup].
  destruct (str_eqb y x) eqn:E.
  - apply str_eqb_eq in E. subst y.
    rewrite (assign_other tab bs _ x Hx). unfold assign, assigned. destruct v as [s|kvs|ts].
    + cbv zeta. destruct (circular (KS x) (insert_expression (Leaf s) tab)); [exact Hacc | apply alookup_aset_same].
    + cbv zeta. destruct (circular (KS x) (insert_expression (Dict kvs) tab)); [exact Hacc | apply alookup_aset_same].
    + apply alookup_aset_same.
  - apply IH; [exact Hnd'|].
    assert (Hne : KS x <> KS y) by (intro Ec; inversion Ec; subst x; rewrite str_eqb_refl in E; discriminate).
    unfold assign. destruct v as [s|kvs|ts].
    + cbv zeta. destruct (circular (KS x) (insert_expression (Leaf s) tab)); [exact Hacc|]. rewrite alookup_aset_other; assumption.
    + cbv zeta. destruct (circular (KS x) (insert_expression (Dict kvs) tab)); [exact Hacc|]. rewrite alookup_aset_other; assumption.
    + rewrite alookup_aset_other; assumption.
Qed.

(* ================================================================================================ *)
(* 3. Resolving a reference to a static value                                                       *)
(* ================================================================================================ *)
Lemma ffb_app : forall l rest, Forall (fun c => (c =? c_lbrk)%N = false) l -> rest <> [] ->
  from_first_bracket (l ++ c_lbrk :: rest) = Some (l, c_lbrk :: rest).
Proof.
  induction l as [|c l IH]; intros rest Hl Hr.
  - cbn [app from_first_bracket]. rewrite N.eqb_refl. destruct rest; [contradiction|]. reflexivity.
  - inversion Hl as [|? ? Hc Hl']; subst. cbn [app from_first_bracket]. rewrite Hc. cbn [andb].
    rewrite (IH rest Hl' Hr). reflexivity.
Qed.

Lemma word_not_lbrk : forall l, Forall (fun c => is_word c = true) l -> Forall (fun c => (c =? c_lbrk)%N = false) l.
Proof. intros l H. eapply Forall_impl; [|exact H]. intros c Hc. apply (word_not_brackets c Hc). Qed.

Lemma idx_digits : forall n, exists d ds, N_to_dec n = d :: ds /\ Forall (fun c => is_digit c = true) (d :: ds).
Proof.
  intro n. destruct (N_to_dec_spec n) as [[Hd Hne] _]. destruct (N_to_dec n) as [|d ds]; [contradiction Hne; reflexivity|].
  exists d, ds. split; [reflexivity | exact Hd].
Qed.

Lemma ref_parts_idx : forall l n, word_name l ->
  ref_name (ref_of (l ++ idx n)) = l /\ ref_indexing (ref_of (l ++ idx n)) = idx n.
Proof.
  intros l n [Hne Hw]. destruct (idx_digits n) as [d0 [ds [Ed Hds]]].
  assert (Hrest : N_to_dec n ++ [c_rbrk] <> []) by (rewrite Ed; discriminate).
  split.
  - unfold ref_name, ref_of. rewrite N.eqb_refl. unfold idx.
    rewrite (ffb_app l _ (word_not_lbrk l Hw) Hrest). reflexivity.
  - unfold ref_indexing, ref_of, idx.
    assert (E : c_dollar :: l ++ c_lbrk :: N_to_dec n ++ [c_rbrk] = (c_dollar :: l ++ c_lbrk :: N_to_dec n) ++ [c_rbrk]).
    { cbn [app]. f_equal. rewrite <- app_assoc. reflexivity. }
    rewrite E at 1. rewrite rev_unit. rewrite N.eqb_refl.
    change (c_dollar :: l ++ c_lbrk :: N_to_dec n ++ [c_rbrk]) with ((c_dollar :: l) ++ c_lbrk :: N_to_dec n ++ [c_rbrk]).
    rewrite ffb_app; [| constructor; [reflexivity | apply word_not_lbrk; exact Hw] | exact Hrest].
    rewrite Ed. cbn [length app Nat.leb]. rewrite app_length. cbn [length]. rewrite Nat.add_1_r. reflexivity.
Qed.

Lemma parse_indices_S : forall f c s',
  parse_indices (S f) (c :: s') =
  if (c =? c_lbrk)%N then
    let neg := match s' with d :: _ => (d =? c_minus)%N | [] => false end in
    let s'' := if neg then tl s' else s' in
    let (ds, rest) := span is_digit s'' in
    match ds, rest with
    | _ :: _, r :: rest' =>
        if (r =? c_rbrk)%N then
          match parse_indices f rest' with
          | Some l => Some ((if neg then - Z.of_N (dec_to_N ds) else Z.of_N (dec_to_N ds))%Z :: l)
          | None => None
          end
        else None
    | _, _ => None
    end
  else None.
Proof. reflexivity. Qed.

Lemma parse_indices_idx : forall n, parse_indices (S (length (idx n))) (idx n) = Some [Z.of_N n].
Proof.
  intro n. destruct (idx_digits n) as [d0 [ds [Ed Hds]]]. destruct (N_to_dec_spec n) as [_ Hv].
  unfold idx. rewrite parse_indices_S. rewrite N.eqb_refl. rewrite Ed in *. cbn [app].
  inversion Hds as [|? ? Hd0 Hds']; subst.
  assert (Em : (d0 =? c_minus)%N = false) by (unfold is_digit in Hd0; chars).
  rewrite Em. cbv zeta. cbv iota.
  change (d0 :: ds ++ [c_rbrk]) with ((d0 :: ds) ++ [c_rbrk]).
  rewrite (span_app is_digit (d0 :: ds) [c_rbrk] Hds); [|reflexivity].
  rewrite N.eqb_refl. cbn [length]. cbn [parse_indices]. reflexivity.
Qed.

Lemma index_tree_nth : forall ts j c, nth_error ts j = Some c -> index_tree (Lst ts) [Z.of_N (N.of_nat j)] = Some c.
Proof.
  intros ts j c H. cbn [index_tree].
  assert (Hj : (j < length ts)%nat) by (apply nth_error_Some; rewrite H; discriminate).
  assert (E : norm_index (Z.of_N (N.of_nat j)) (length ts) = Some j).
  { unfold norm_index. rewrite nat_N_Z.
    assert (E1 : (0 <=? Z.of_nat j)%Z = true) by (apply Z.leb_le; lia). rewrite E1.
    assert (E2 : (Z.of_nat j <? Z.of_nat (length ts))%Z = true) by (apply Z.ltb_lt; lia). rewrite E2.
    rewrite Nat2Z.id. reflexivity. }
  rewrite E, H. reflexivity.
Qed.

(* a reference whose base name holds a value without references: that value, or the element the index selects *)
Lemma resolve_static : forall f vars seen r t0 t,
  existsb (str_eqb (ref_name r)) seen = false ->
  alookup (KS (ref_name r)) vars = Some t0 -> tree_has_dollar t0 = false ->
  match ref_indexing r with
  | [] => t = t0
  | ix => exists il, parse_indices (S (length ix)) ix = Some il /\ index_tree t0 il = Some t
  end ->
  resolve_ref (S f) vars seen r = RVal t.
Proof.
  intros f vars seen r t0 t Hs Ha Hd Hi. rewrite resolve_ref_S. cbv zeta. rewrite Hs, Ha.
  cbn [chase_f]. rewrite Hd. unfold resolve_tail.
  destruct (ref_indexing r) as [|c ix] eqn:Ei.
  - subst t. reflexivity.
  - destruct Hi as [il [Hp Hx]]. rewrite Hp, Hx. reflexivity.
Qed.

Lemma vars_size_pos : forall (vars : vtab) k v, alookup k vars = Some v -> (1 <= vars_size vars)%nat.
Proof.
  intros vars k v H. destruct vars as [|[k0 v0] vars]; [discriminate H|].
  unfold vars_size. cbn [fold_right snd]. pose proof (tree_size_pos v0). lia.
Qed.

(* a pending bare reference is followed *)
Lemma resolve_chase : forall vars x y' t, word_name x -> rname y' ->
  alookup (KS x) vars = Some (Leaf (SStr (ref_of y'))) ->
  resolve_ref (S (length vars)) vars [x] (ref_of y') = RVal t -> tree_has_dollar t = false ->
  resolve_reference vars (ref_of x) = RVal t.
Proof.
  intros vars x y' t Hx Hy Ha Hr Hd. destruct (ref_of_parts x Hx) as [Hn Hi].
  unfold resolve_reference. rewrite resolve_ref_S. cbv zeta. rewrite Hn. cbn [existsb]. rewrite Ha.
  pose proof (vars_size_pos vars _ _ Ha) as Hsz. destruct (vars_size vars) as [|g]; [lia|].
  cbn [chase_f tree_has_dollar py_str_tree py_str existsb app].
  assert (Hdol : has_char c_dollar (ref_of y') = true) by (unfold has_char, ref_of; cbn [existsb]; rewrite N.eqb_refl; reflexivity).
  rewrite Hdol. cbv zeta. rewrite (plain_ref_of y' Hy). cbn [negb]. rewrite Hr. rewrite Hd.
  unfold resolve_tail. rewrite Hi. reflexivity.
Qed.

Lemma render_not_plain_raw : forall rho g a, blank_fn g -> (forall x, a <> AVar x) ->
  is_plain_reference (render_in rho g a) = false.
Proof.
  intros rho g a Hg Hv. destruct (dtoks_shape a) as [[n ->]|[[x ->]|(t & Hin & Ht)]].
  - apply not_plain_nodollar. apply plain_no_dollar. unfold render_in. cbn [dtoks layout dtext].
    apply Forall_app. split; [apply plain_blank; exact Hg|].
    apply Forall_app. split; [apply plain_N|apply plain_blank; exact Hg].
  - exfalso. apply (Hv x). reflexivity.
  - destruct (layout_in_op g rho t Ht (dtoks a) 0%nat Hin) as (c & Hc & Ho).
    fold (render_in rho g a) in Hc. apply (not_plain_op _ c); assumption.
Qed.

(* ================================================================================================ *)
(* 4. The document                                                                                  *)
(* ================================================================================================ *)
(* ---- the bindings of the data ------------------------------------------------------------------------- *)
Definition pbinds (p : pdoc) (k : str -> option Z) : list (str * tree) := flat_map ebinds (pdata p k).

Lemma ebinds_pentry : forall k it,
  ebinds (pentry k it) = match it with PDyn x v => [(x, fleaf k x v)] | PStat _ _ => sbinds_item it end.
Proof.
  intros k [x v|x t]; [|reflexivity]. unfold ebinds, pentry. cbn [fst snd].
  destruct v as [z|i g a]; cbn [fleaf]; [reflexivity|]. destruct (k x); reflexivity.
Qed.

Lemma pbinds_names : forall p k, map fst (pbinds p k) = pall p.
Proof.
  induction p as [|it p IH]; intro k; [reflexivity|].
  unfold pbinds, pdata, pall in *. cbn [map flat_map]. rewrite map_app, IH. f_equal.
  rewrite ebinds_pentry. destruct it as [x v|x t]; reflexivity.
Qed.

Lemma pbinds_dyn : forall p k x v, In (PDyn x v) p -> In (x, fleaf k x v) (pbinds p k).
Proof.
  intros p k x v H. unfold pbinds. apply in_flat_map. exists (pentry k (PDyn x v)). split.
  - unfold pdata. apply in_map. exact H.
  - rewrite ebinds_pentry. left. reflexivity.
Qed.

Lemma pbinds_stat : forall p k it b, In it p -> In b (sbinds_item it) -> In b (pbinds p k).
Proof.
  intros p k it b H Hb. unfold pbinds. apply in_flat_map. exists (pentry k it). split.
  - unfold pdata. apply in_map. exact H.
  - rewrite ebinds_pentry. destruct it as [x v|x t]; [contradiction Hb | exact Hb].
Qed.

Lemma pdata_simple : forall p k, Forall stat_item p ->
  Forall (fun kv => str_key (fst kv) = true /\ simple_val (snd kv) = true) (pdata p k).
Proof.
  intros p k H. unfold pdata. apply Forall_forall. intros kv Hin. apply in_map_iff in Hin.
  destruct Hin as [it [E Hit]]. subst kv. rewrite Forall_forall in H. specialize (H it Hit).
  destruct it as [x v|x t]; cbn [pentry fst snd]; split; try reflexivity.
  - unfold fleaf. destruct v as [z|i g a]; [reflexivity|]. destruct (k x); reflexivity.
  - cbn [stat_item] in H. unfold simple_val. destruct t; [reflexivity | exact H | exact H].
Qed.

(* the variables table of the document *)
Lemma pvars_lookup : forall p k tab y, Forall stat_item p -> NoDup (pall p) ->
  alookup (KS y) (vars_tree tab false (Dict (pdata p k)) []) =
  match blookup y (pbinds p k) with Some v => assigned tab y v | None => None end.
Proof.
  intros p k tab y Hs Hnd. rewrite (vars_binds tab (pdata p k) [] (pdata_simple p k Hs)).
  fold (pbinds p k). apply assign_lookup; [rewrite pbinds_names; exact Hnd | reflexivity].
Qed.

(* ---- where the entries of the semantic document come from --------------------------------------------- *)
Lemma elems_in : forall l ts pos nm v, In (nm, v) (elems l pos ts) ->
  exists j z, nth_error ts j = Some (Leaf (SInt z)) /\ nm = l ++ idx (N.of_nat (pos + j)) /\ v = FInt z.
Proof.
  intros l. induction ts as [|c ts IH]; intros pos nm v H; [contradiction|].
  cbn [elems] in H. apply in_app_or in H. destruct H as [H|H].
  - destruct c as [[z|lit|b| |s]|kvs|ts']; try contradiction. destruct H as [H|[]]. inversion H; subst.
    exists 0%nat, z. rewrite Nat.add_0_r. repeat split; reflexivity.
  - destruct (IH (S pos) nm v H) as [j [z [Hn [En Ev]]]]. exists (S j), z.
    rewrite Nat.add_succ_r. repeat split; assumption.
Qed.

Lemma psem_origin : forall p y v, In (y, v) (psem p) ->
  In (PDyn y v) p \/
  exists it nm c, In it p /\ In (nm, c) (sbinds_item it) /\
    ((c = Leaf (SInt (match v with FInt z => z | _ => 0%Z end)) /\ y = nm /\ (exists z, v = FInt z)) \/
     (exists ts j z, c = Lst ts /\ nth_error ts j = Some (Leaf (SInt z)) /\ y = nm ++ idx (N.of_nat j) /\ v = FInt z)).
Proof.
  intros p y v H. unfold psem in H. apply in_flat_map in H. destruct H as [it [Hit H]].
  destruct it as [x w|x t].
  - cbn [psem_item] in H. destruct H as [H|[]]. inversion H; subst. left. exact Hit.
  - right. cbn [psem_item] in H. apply in_flat_map in H. destruct H as [[nm c] [Hb Hd]].
    exists (PStat x t), nm, c. split; [exact Hit|]. split; [exact Hb|].
    unfold decl in Hd. cbn [fst snd] in Hd. destruct c as [[z|lit|b| |s]|kvs|ts]; try contradiction.
    + destruct Hd as [Hd|[]]. inversion Hd; subst. left. repeat split. exists z. reflexivity.
    + right. destruct (elems_in nm ts 0 y v Hd) as [j [z [Hn [En Ev]]]]. exists ts, j, z. cbn [Nat.add] in En. tauto.
Qed.

Lemma psem_fexp_dyn : forall p x i g a, In (x, FExp i g a) (psem p) -> In (PDyn x (FExp i g a)) p.
Proof.
  intros p x i g a H. destruct (psem_origin p x _ H) as [H1|[it [nm [c [_ [_ [[_ [_ [z Hz]]]|[ts [j [z [_ [_ [_ Hz]]]]]]]]]]]]].
  - exact H1.
  - discriminate Hz.
  - discriminate Hz.
Qed.

Lemma psem_dyn : forall p x v, In (PDyn x v) p -> In (x, v) (psem p).
Proof.
  intros p x v H. unfold psem. apply in_flat_map. exists (PDyn x v). split; [exact H | left; reflexivity].
Qed.

(* the bindings of a static value are static *)
Lemma stat_tbinds : forall t, stat t = true -> Forall (fun b => stat (snd b) = true) (tbinds t).
Proof.
  induction t as [s|kvs IH|ts IH] using tree_ind'; intro H; [constructor| |constructor].
  rewrite tbinds_dict. rewrite stat_dict in H. rewrite forallb_forall in H. rewrite Forall_forall in IH.
  apply Forall_forall. intros b Hb. apply in_flat_map in Hb. destruct Hb as [[k c] [Hin Hb]].
  specialize (H _ Hin). cbn [fst snd] in H. apply andb_true_iff in H. destruct H as [Hk Hc].
  unfold ebinds in Hb. cbn [fst snd] in Hb. apply in_app_or in Hb. destruct Hb as [Hb|Hb].
  - pose proof (IH _ Hin Hc) as Hf. cbn [snd] in Hf. rewrite Forall_forall in Hf. apply Hf. exact Hb.
  - destruct k as [z|x]; [contradiction|]. destruct Hb as [Hb|[]]. subst b. exact Hc.
Qed.

Lemma sbinds_stat : forall it b, stat_item it -> In b (sbinds_item it) -> stat (snd b) = true.
Proof.
  intros [x v|x t] b Hs Hb; [contradiction|]. cbn [stat_item] in Hs. cbn [sbinds_item] in Hb.
  unfold ebinds in Hb. cbn [fst snd] in Hb. apply in_app_or in Hb. destruct Hb as [Hb|[Hb|[]]].
  - pose proof (stat_tbinds t Hs) as Hf. rewrite Forall_forall in Hf. apply Hf. exact Hb.
  - subst b. exact Hs.
Qed.

Lemma ints_no_dollar : forall ts, forallb inert_leaf ts = true -> tree_has_dollar (Lst ts) = false.
Proof.
  intros ts H. rewrite tree_has_dollar_lst. induction ts as [|c ts IH]; [reflexivity|].
  cbn [forallb] in H. apply andb_true_iff in H. destruct H as [Hc Hl]. cbn [existsb]. rewrite (IH Hl), orb_false_r.
  destruct c as [v|kvs|ts']; try discriminate Hc. cbn [inert_leaf] in Hc. unfold inert in Hc.
  apply andb_true_iff in Hc. destruct Hc as [Hc _]. apply negb_true_iff in Hc.
  destruct v as [z|lit|b| |s0]; try reflexivity. exact Hc.
Qed.

(* ---- list helpers ------------------------------------------------------------------------------------ *)
Lemma NoDup_app_inv : forall {A} (a b : list A), NoDup (a ++ b) ->
  NoDup a /\ NoDup b /\ (forall x, In x a -> In x b -> False).
Proof.
  intros A a b. induction a as [|x a IH]; intro H; cbn [app] in H.
  - split; [constructor|]. split; [exact H|]. intros x [].
  - inversion H as [|? ? Hx Hab]; subst. destruct (IH Hab) as [Ha [Hb Hd]]. split.
    + constructor; [|exact Ha]. intro Hc. apply Hx. apply in_or_app. left. exact Hc.
    + split; [exact Hb|]. intros y [Hy|Hy] Hyb; [subst y; apply Hx; apply in_or_app; right; exact Hyb | exact (Hd y Hy Hyb)].
Qed.

Lemma NoDup_flat_map_pick : forall {A B} (f : A -> list B) (g : A -> B) (l : list A),
  (forall a, In (g a) (f a)) -> NoDup (flat_map f l) -> NoDup (map g l).
Proof.
  intros A B f g l Hg. induction l as [|a l IH]; intro H; [constructor|].
  cbn [flat_map] in H. destruct (NoDup_app_inv _ _ H) as [_ [Hl Hd]]. cbn [map]. constructor; [|apply IH; exact Hl].
  intro Hin. apply in_map_iff in Hin. destruct Hin as [a' [E Ha']].
  apply (Hd (g a) (Hg a)). apply in_flat_map. exists a'. split; [exact Ha' | rewrite <- E; apply Hg].
Qed.

Lemma pname_in_pall_item : forall it, In (pname it) (pall_item it).
Proof.
  intros [x v|x t]; [left; reflexivity|]. cbn [pall_item sbinds_item pname]. unfold ebinds. cbn [fst snd].
  rewrite map_app. apply in_or_app. right. left. reflexivity.
Qed.

Lemma pnames_nodup : forall p, NoDup (pall p) -> NoDup (map pname p).
Proof. intros p H. apply (NoDup_flat_map_pick pall_item pname p pname_in_pall_item H). Qed.

Lemma pdata_keys : forall p k, map fst (pdata p k) = map KS (map pname p).
Proof.
  intros p k. unfold pdata. rewrite !map_map. apply map_ext. intros [x v|x t]; reflexivity.
Qed.

Lemma psem_app : forall p1 p2, psem (p1 ++ p2) = psem p1 ++ psem p2.
Proof. intros p1 p2. unfold psem. apply flat_map_app. Qed.

Lemma pdata_ext : forall p k k2, (forall x i g a, In (PDyn x (FExp i g a)) p -> k x = k2 x) -> pdata p k = pdata p k2.
Proof.
  intros p k k2 H. unfold pdata. apply map_ext_in. intros [x v|x t] Hin; [|reflexivity].
  cbn [pentry]. f_equal. unfold fleaf. destruct v as [z|i g a]; [reflexivity|]. rewrite (H x i g a Hin). reflexivity.
Qed.

(* ================================================================================================ *)
(* 5. The three assumptions of the engine hold for such a document                                  *)
(* ================================================================================================ *)
(* a pending bare reference "$y" is followed by the resolver at once, unless the library's own-name test
   (_value_contains_circular_reference) drops the entry from the variables table *)
Definition bare_next (D : fdoc) (x : str) : option str :=
  match flookup x D with
  | Some (FExp _ g (AVar y)) =>
      match g 0%nat, g 1%nat with
      | [], [] => if circular (KS x) (Leaf (SStr (ref_of y))) then None else Some y
      | _, _ => None              (* written with blanks: the text is no plain reference *)
      end
  | _ => None
  end.
(* the name a chain of bare references ends in *)
Fixpoint term_n (D : fdoc) (n : nat) (x : str) : str :=
  match n with
  | O => x
  | S n' => match bare_next D x with Some y => term_n D n' y | None => x end
  end.
Definition pterm (p : pdoc) : str -> str := term_n (psem p) (S (length (psem p))).

Lemma eval_in_avar : forall r y, eval_in r (AVar y) = r y.
Proof.
  intros r y. unfold eval_in, known_all. cbn [avars forallb]. destruct (r y) as [w|] eqn:E; [|reflexivity].
  cbn [is_some andb]. unfold env_of. cbn [aeval]. rewrite E. reflexivity.
Qed.

Lemma bare_next_some : forall D x y, bare_next D x = Some y ->
  exists i g, flookup x D = Some (FExp i g (AVar y)) /\ circular (KS x) (Leaf (SStr (ref_of y))) = false.
Proof.
  intros D x y H. unfold bare_next in H. destruct (flookup x D) as [[z|i g a]|]; try discriminate H.
  destruct a as [n|y'|a|a|a b|a b|a b|a]; try discriminate H.
  destruct (g 0%nat); [|discriminate H]. destruct (g 1%nat); [|discriminate H].
  destruct (circular (KS x) (Leaf (SStr (ref_of y')))) eqn:Ec; [discriminate H|]. inversion H; subst. exists i, g. split; [reflexivity | exact Ec].
Qed.

Lemma know_bare : forall D m x i g y, flookup x D = Some (FExp i g (AVar y)) -> know D (S m) x = know D m y.
Proof. intros D m x i g y H. cbn [know]. unfold kstep. rewrite H. apply eval_in_avar. Qed.

(* every step of a chain lowers the round in which the name gets its value: the chain ends *)
Lemma term_stable : forall D m y, know D m y <> None -> forall n, (m <= n)%nat -> term_n D n y = term_n D m y.
Proof.
  intros D. induction m as [|m IH]; intros y Hk n Hle; [contradiction Hk; reflexivity|].
  destruct n as [|n]; [lia|]. cbn [term_n]. destruct (bare_next D y) as [y'|] eqn:Eb; [|reflexivity].
  destruct (bare_next_some D y y' Eb) as [i [g [Ef _]]]. rewrite (know_bare D m y i g y' Ef) in Hk.
  apply IH; [exact Hk | lia].
Qed.

Lemma exact_rank : forall D M y, know D M y <> None -> exists m, (S m <= M)%nat /\ know D (S m) y <> None /\ know D m y = None.
Proof.
  intros D. induction M as [|M IH]; intros y H; [contradiction H; reflexivity|].
  destruct (know D M y) as [v|] eqn:E.
  - destruct (IH y) as [m [Hle [H1 H2]]]; [rewrite E; discriminate|]. exists m. split; [lia|]. split; assumption.
  - exists M. split; [lia|]. split; [exact H | exact E].
Qed.

Lemma total_closed : forall d, NoDup (map fst d) -> (forall x, In x (map fst d) -> denote d x <> None) ->
  forall x i g a y, In (x, FExp i g a) d -> In y (avars a) -> flookup y d <> None.
Proof.
  intros d Hnd Htot x i g a y Hin Hy Hn.
  assert (Hx : In x (map fst d)) by (apply in_map_iff; exists (x, FExp i g a); split; [reflexivity | exact Hin]).
  specialize (Htot x Hx). destruct (denote d x) as [v|] eqn:E; [|contradiction].
  unfold denote in E. cbn [know] in E. unfold kstep in E. rewrite (flookup_in d x _ Hnd Hin) in E.
  unfold eval_in in E. destruct (known_all (know d (length d)) a) eqn:Ek; [|discriminate E].
  apply known_all_iff with (y := y) in Ek; [|exact Hy]. destruct Ek as [w Ew].
  rewrite (know_undeclared d (length d) y Hn) in Ew. discriminate Ew.
Qed.


(* ---- the resolver, for any fuel and any list of names seen ---------------------------------------------------- *)
Lemma resolve_none_gen : forall f vars seen r,
  existsb (str_eqb (ref_name r)) seen = true \/ alookup (KS (ref_name r)) vars = None ->
  resolve_ref (S f) vars seen r = RNone.
Proof.
  intros f vars seen r H. rewrite resolve_ref_S. cbv zeta. destruct (existsb (str_eqb (ref_name r)) seen); [reflexivity|].
  destruct H as [H|H]; [discriminate H|]. rewrite H. reflexivity.
Qed.

Lemma resolve_text_gen : forall f vars seen y e, word_name y -> existsb (str_eqb y) seen = false ->
  alookup (KS y) vars = Some (Leaf (SStr e)) -> has_char c_dollar e = true -> is_plain_reference e = false ->
  resolve_ref (S f) vars seen (ref_of y) = RNone.
Proof.
  intros f vars seen y e Hy Hs Ha Hd Hp. destruct (ref_of_parts y Hy) as [Hn Hi].
  rewrite resolve_ref_S. cbv zeta. rewrite Hn, Hs, Ha.
  cbn [chase_f tree_has_dollar]. rewrite Hd. cbv zeta. cbn [py_str_tree py_str existsb]. rewrite Hp. cbn [negb].
  unfold resolve_tail. rewrite Hi. reflexivity.
Qed.

Lemma resolve_chase_gen : forall f vars seen x y' res, word_name x -> rname y' -> existsb (str_eqb x) seen = false ->
  alookup (KS x) vars = Some (Leaf (SStr (ref_of y'))) ->
  resolve_ref f vars (seen ++ [x]) (ref_of y') = res ->
  (res = RNone \/ exists t, res = RVal t /\ tree_has_dollar t = false) ->
  resolve_ref (S f) vars seen (ref_of x) = res.
Proof.
  intros f vars seen x y' res Hx Hy Hs Ha Hr Hres. destruct (ref_of_parts x Hx) as [Hn Hi].
  rewrite resolve_ref_S. cbv zeta. rewrite Hn, Hs, Ha.
  pose proof (vars_size_pos vars _ _ Ha) as Hsz. destruct (vars_size vars) as [|g]; [lia|].
  cbn [chase_f tree_has_dollar py_str_tree py_str existsb].
  assert (Hdol : has_char c_dollar (ref_of y') = true) by (unfold has_char, ref_of; cbn [existsb]; rewrite N.eqb_refl; reflexivity).
  rewrite Hdol. cbv zeta. rewrite (plain_ref_of y' Hy). cbn [negb].
  destruct Hres as [E|[t [E Hd]]]; rewrite E in Hr |- *; rewrite Hr.
  - unfold resolve_tail. rewrite Hi. reflexivity.
  - rewrite Hd. unfold resolve_tail. rewrite Hi. reflexivity.
Qed.

Section PDoc.
  Variable p : pdoc.
  Variables (lc bc : list (N * str)) (inc : list (N * include_entry)).
  Hypothesis Hok : pdoc_ok p.
  (* the direct evaluation gives every name a value *)
  Hypothesis Htot : forall x, In x (map fst (psem p)) -> denote (psem p) x <> None.
  (* the entries of the flattened document in the order of the table of expressions *)
  Variable d : fdoc.
  Hypothesis Hperm : Permutation (psem p) d.

  Let Hall : NoDup (pall p) := proj1 Hok.
  Let Hwords : Forall word_name (pall p) := proj1 (proj2 Hok).
  Let Hstat : Forall stat_item p := proj1 (proj2 (proj2 Hok)).
  Let Hnames : NoDup (map fst (psem p)) := proj1 (proj2 (proj2 (proj2 Hok))).
  Let Hids : NoDup (fexp_ids (psem p)) := proj1 (proj2 (proj2 (proj2 (proj2 Hok)))).
  Let Hexps : Forall gexp_ok (map snd (psem p)) := proj2 (proj2 (proj2 (proj2 (proj2 Hok)))).
  (* every reference of an expression is declared *)
  Let Hclosed : forall x i g a y, In (x, FExp i g a) (psem p) -> In y (avars a) -> flookup y (psem p) <> None
    := total_closed (psem p) Hnames Htot.

  Lemma d_in : forall xv, In xv d -> In xv (psem p).
  Proof. intros xv H. apply (Permutation_in _ (Permutation_sym Hperm)). exact H. Qed.
  Lemma in_d : forall xv, In xv (psem p) -> In xv d.
  Proof. intros xv H. apply (Permutation_in _ Hperm). exact H. Qed.
  Lemma d_flookup : forall y, flookup y d = flookup y (psem p).
  Proof. intro y. symmetry. apply (flookup_perm (psem p) d y Hnames Hperm). Qed.
  Lemma d_names : NoDup (map fst d).
  Proof. apply (Permutation_NoDup (Permutation_map fst Hperm) Hnames). Qed.
  Lemma d_ids : NoDup (fexp_ids d).
  Proof.
    unfold fexp_ids. eapply Permutation_NoDup; [|exact Hids]. unfold fexp_ids. apply Permutation_flat_map. exact Hperm.
  Qed.
  Lemma d_exps : Forall gexp_ok (map snd d).
  Proof. apply (Permutation_Forall (Permutation_map snd Hperm) Hexps). Qed.

  Lemma pHX : forall k k2, (forall x i g a, In (x, FExp i g a) d -> k x = k2 x) -> pdata p k = pdata p k2.
  Proof. intros k k2 H. apply pdata_ext. intros x i g a Hin. apply (H x i g a). apply in_d. apply psem_dyn. exact Hin. Qed.

  Lemma pHTn : forall x, (forall i g y, ~ In (x, FExp i g (AVar y)) d) -> pterm p x = x.
  Proof.
    intros x H. unfold pterm. cbn [term_n]. destruct (bare_next (psem p) x) as [y|] eqn:Eb; [|reflexivity].
    destruct (bare_next_some _ _ _ Eb) as [i [g [Ef _]]]. exfalso. apply (H i g y). apply in_d. apply flookup_some_in. exact Ef.
  Qed.

  Lemma pHTb : forall x i g y, In (x, FExp i g (AVar y)) d -> pterm p x = x \/ pterm p x = pterm p y.
  Proof.
    intros x i g y Hin. apply d_in in Hin. pose proof (flookup_in _ x _ Hnames Hin) as Ef.
    assert (Ex : pterm p x = match bare_next (psem p) x with Some y0 => term_n (psem p) (length (psem p)) y0 | None => x end)
      by reflexivity.
    rewrite Ex. destruct (bare_next (psem p) x) as [y0|] eqn:Eb; [|left; reflexivity]. right.
    destruct (bare_next_some _ _ _ Eb) as [i0 [g0 [Ef0 _]]]. rewrite Ef in Ef0. inversion Ef0; subst y0.
    assert (Hx : In x (map fst (psem p))) by (apply in_map_iff; exists (x, FExp i g (AVar y)); split; [reflexivity | exact Hin]).
    pose proof (Htot x Hx) as Hd. unfold denote in Hd. rewrite (know_bare _ _ x i g y Ef) in Hd.
    symmetry. unfold pterm. apply (term_stable (psem p) (length (psem p)) y Hd). lia.
  Qed.

  (* ---- the placeholder of a pending expression is found and overwritten ---------------------------------- *)
  Lemma pHI : forall kk x i g a z, In (x, FExp i g a) d -> kk x = None ->
    insert_result (S (count_leaves (Dict (pdata p kk)))) (ph_of i) (Leaf (SInt z)) (Dict (pdata p kk)) =
    Ok (Dict (pdata p (upd kk x z))).
  Proof.
    intros kk x i g a z Hin Hk. apply d_in in Hin. apply psem_fexp_dyn in Hin.
    destruct (in_split _ _ Hin) as [p1 [p2 Ep]].
    assert (Hi : (i < 1000000)%N).
    { assert (H : gexp_ok (FExp i g a)).
      { rewrite Forall_forall in Hexps. apply Hexps. apply in_map_iff. exists (x, FExp i g a). split; [reflexivity|].
        apply psem_dyn. exact Hin. }
      apply H. }
    assert (Hpn : NoDup (map pname p)) by (apply pnames_nodup; exact Hall).
    assert (Hx1 : ~ In x (map pname p1) /\ ~ In x (map pname p2)).
    { rewrite Ep, map_app in Hpn. cbn [map pname] in Hpn. pose proof (NoDup_remove_2 _ _ _ Hpn) as H.
      split; intro Hc; apply H; apply in_or_app; [left|right]; exact Hc. }
    assert (Hids' : NoDup (fexp_ids (psem p1) ++ i :: fexp_ids (psem p2))).
    { pose proof Hids as H. rewrite Ep, psem_app, fexp_ids_app in H. cbn [psem flat_map psem_item] in H.
      rewrite fexp_ids_app in H. exact H. }
    assert (Hfree : forall q, (forall it, In it q -> In it p) -> ~ In i (fexp_ids (psem q)) ->
                    Forall (fun kv => find_key (ph_of i) (snd kv) = None) (pdata q kk)).
    { intros q Hsub Hni. unfold pdata. apply Forall_forall. intros kv Hkv. apply in_map_iff in Hkv.
      destruct Hkv as [it [E Hit]]. subst kv. destruct it as [y v|y t]; cbn [pentry snd].
      - unfold fleaf. destruct v as [w|j g' a'].
        + cbn [find_key py_str]. rewrite ph_not_in_int. reflexivity.
        + destruct (kk y) as [w|].
          * cbn [find_key py_str]. rewrite ph_not_in_int. reflexivity.
          * cbn [find_key py_str].
            assert (Hj : (j < 1000000)%N).
            { assert (H : gexp_ok (FExp j g' a')).
              { rewrite Forall_forall in Hexps. apply Hexps. apply in_map_iff. exists (y, FExp j g' a'). split; [reflexivity|].
                apply psem_dyn. apply Hsub. exact Hit. }
              apply H. }
            rewrite (ph_contains_ph i j Hi Hj).
            assert (Hne : (i =? j)%N = false).
            { apply N.eqb_neq. intro E. subst j. apply Hni. apply (fexp_ids_in (psem q) y i g' a'). apply psem_dyn. exact Hit. }
            rewrite Hne. reflexivity.
      - apply stat_free. rewrite Forall_forall in Hstat. apply (Hstat (PStat y t)). apply Hsub. exact Hit. }
    assert (Hd : forall k0, pdata p k0 = pdata p1 k0 ++ (KS x, fleaf k0 x (FExp i g a)) :: pdata p2 k0).
    { intro k0. rewrite Ep. unfold pdata. rewrite map_app. reflexivity. }
    rewrite (Hd kk), (Hd (upd kk x z)). cbn [fleaf]. rewrite Hk. unfold upd at 2. rewrite str_eqb_refl.
    assert (E1 : pdata p1 (upd kk x z) = pdata p1 kk).
    { apply pdata_ext. intros y j g' a' Hy. unfold upd. destruct (str_eqb y x) eqn:E; [|reflexivity].
      apply str_eqb_eq in E. subst y. exfalso. apply (proj1 Hx1). apply in_map_iff. exists (PDyn x (FExp j g' a')). split; [reflexivity | exact Hy]. }
    assert (E2 : pdata p2 (upd kk x z) = pdata p2 kk).
    { apply pdata_ext. intros y j g' a' Hy. unfold upd. destruct (str_eqb y x) eqn:E; [|reflexivity].
      apply str_eqb_eq in E. subst y. exfalso. apply (proj2 Hx1). apply in_map_iff. exists (PDyn x (FExp j g' a')). split; [reflexivity | exact Hy]. }
    rewrite E1, E2. apply insert_result_one.
    - assert (E : map fst (pdata p1 kk ++ (KS x, Leaf (SStr (ph_of i))) :: pdata p2 kk) = map KS (map pname p)).
      { rewrite Ep. rewrite !map_app. cbn [map fst pname]. rewrite !pdata_keys. reflexivity. }
      rewrite E. apply NoDup_map_KS. exact Hpn.
    - apply Forall_app. split; apply Hfree.
      + intros it Hit. rewrite Ep. apply in_or_app. left. exact Hit.
      + intro H. apply NoDup_remove_2 in Hids'. apply Hids'. apply in_or_app. left. exact H.
      + intros it Hit. rewrite Ep. apply in_or_app. right. right. exact Hit.
      + intro H. apply NoDup_remove_2 in Hids'. apply Hids'. apply in_or_app. right. exact H.
    - apply ph_not_in_int.
  Qed.

  (* ---- what a reference resolves to ------------------------------------------------------------------- *)
  Definition pvt (rho k : str -> option Z) : vtab :=
    vars_tree (ftable d rho k) false (Dict (pdata p k)) [].

  Lemma pbinds_nodup : forall k, NoDup (map fst (pbinds p k)).
  Proof. intro k. rewrite pbinds_names. exact Hall. Qed.

  Lemma pbinds_word : forall k nm c, In (nm, c) (pbinds p k) -> word_name nm.
  Proof.
    intros k nm c H. rewrite Forall_forall in Hwords. apply Hwords. rewrite <- (pbinds_names p k).
    apply in_map_iff. exists (nm, c). split; [reflexivity | exact H].
  Qed.

  Lemma pvt_lookup : forall rho k nm c, In (nm, c) (pbinds p k) ->
    alookup (KS nm) (pvt rho k) = assigned (ftable d rho k) nm c.
  Proof.
    intros rho k nm c H. unfold pvt. rewrite (pvars_lookup p k _ nm Hstat Hall).
    rewrite (blookup_in _ nm c (pbinds_nodup k) H). reflexivity.
  Qed.

  (* a name that holds an integer: an integer entry (any nesting level) or a list element *)
  Lemma int_kind : forall k y z, flookup y (psem p) = Some (FInt z) ->
    exists base t0, In (base, t0) (pbinds p k) /\ tree_has_dollar t0 = false /\
      ((y = base /\ t0 = Leaf (SInt z)) \/
       (exists ts j, t0 = Lst ts /\ nth_error ts j = Some (Leaf (SInt z)) /\ y = base ++ idx (N.of_nat j))).
  Proof.
    intros k y z H. apply flookup_some_in in H.
    destruct (psem_origin p y _ H) as [H1|[it [nm [c [Hit [Hb [[Ec [Ey _]]|[ts [j [z' [Ec [Hn [Ey Ev]]]]]]]]]]]]].
    - exists y, (Leaf (SInt z)). split; [apply (pbinds_dyn p k y (FInt z) H1)|]. split; [reflexivity|]. left. split; reflexivity.
    - exists nm, c. split; [apply (pbinds_stat p k it (nm, c) Hit Hb)|]. subst c. split; [reflexivity|]. left. split; [exact Ey | reflexivity].
    - exists nm, c. split; [apply (pbinds_stat p k it (nm, c) Hit Hb)|]. inversion Ev; subst z'. split.
      + rewrite Forall_forall in Hstat. pose proof (sbinds_stat it (nm, c) (Hstat it Hit) Hb) as Hs. cbn [snd] in Hs.
        subst c. apply ints_no_dollar. exact Hs.
      + right. exists ts, j. tauto.
  Qed.

  Lemma resolve_int_kind : forall rho k y z f seen, flookup y (psem p) = Some (FInt z) ->
    (forall base t0, In (base, t0) (pbinds p k) -> (t0 = Leaf (SInt z) \/ exists ts, t0 = Lst ts) ->
                     existsb (str_eqb base) seen = false) ->
    resolve_ref (S f) (pvt rho k) seen (ref_of y) = RVal (Leaf (SInt z)).
  Proof.
    intros rho k y z f seen Hy Hseen.
    destruct (int_kind k y z Hy) as [base [t0 [Hb [Hd [[Ey Et]|[ts [j [Et [Hn Ey]]]]]]]]].
    - subst base t0. destruct (ref_of_parts y (pbinds_word k y _ Hb)) as [Hn Hi].
      apply (resolve_static f (pvt rho k) seen (ref_of y) (Leaf (SInt z)) (Leaf (SInt z))).
      + rewrite Hn. apply (Hseen y _ Hb). left. reflexivity.
      + rewrite Hn. rewrite (pvt_lookup rho k y _ Hb). reflexivity.
      + reflexivity.
      + rewrite Hi. reflexivity.
    - subst t0 y. destruct (ref_parts_idx base (N.of_nat j) (pbinds_word k base _ Hb)) as [Hnm Hi].
      apply (resolve_static f (pvt rho k) seen _ (Lst ts) (Leaf (SInt z))).
      + rewrite Hnm. apply (Hseen base _ Hb). right. exists ts. reflexivity.
      + rewrite Hnm. rewrite (pvt_lookup rho k base _ Hb). reflexivity.
      + exact Hd.
      + rewrite Hi. unfold idx at 1. exists [Z.of_N (N.of_nat j)]. split.
        * apply (parse_indices_idx (N.of_nat j)).
        * apply index_tree_nth. exact Hn.
  Qed.

  Lemma pexp_in : forall x i g a, In (x, FExp i g a) (psem p) -> gexp_ok (FExp i g a).
  Proof.
    intros x i g a Hin. rewrite Forall_forall in Hexps. apply Hexps. apply in_map_iff.
    exists (x, FExp i g a). split; [reflexivity | exact Hin].
  Qed.

  Definition pending_exp (k : str -> option Z) (s : str) : Prop :=
    exists j g a, In (PDyn s (FExp j g a)) p /\ k s = None.

  (* a name that gets its value in round r: the resolver follows the chain of pending bare references to its end *)
  Lemma resolve_chain : forall rho k, ginv d (pterm p) rho k ->
    forall r y, know (psem p) r y <> None -> know (psem p) (pred r) y = None -> (r <= S (length (psem p)))%nat ->
    forall fuel seen, NoDup seen -> (forall n, In n seen -> In (KS n) (map fst (pvt rho k))) ->
      (length (pvt rho k) + 1 <= fuel + length seen)%nat ->
      (forall s, In s seen -> know (psem p) r s = None /\ pending_exp k s) ->
      resolve_ref fuel (pvt rho k) seen (ref_of y) =
      match R0 d k (term_n (psem p) r y) with Some v => RVal (Leaf (SInt v)) | None => RNone end.
  Proof.
    intros rho k Hinv. induction r as [|m IH]; intros y Hk1 Hk0 Hr fuel seen Hnd Hsub Hlen Hseen; [contradiction Hk1; reflexivity|].
    cbn [pred] in Hk0.
    pose proof (seen_bound (pvt rho k) seen Hnd Hsub) as Hsb. destruct fuel as [|f]; [lia|].
    assert (Hynot : existsb (str_eqb y) seen = false).
    { destruct (existsb (str_eqb y) seen) eqn:E; [|reflexivity]. apply existsb_exists in E.
      destruct E as [s [Hs E]]. apply str_eqb_eq in E. subst s. destruct (Hseen y Hs) as [Hc _]. contradiction. }
    assert (Hseenint : forall z base t0, In (base, t0) (pbinds p k) -> (t0 = Leaf (SInt z) \/ exists ts, t0 = Lst ts) ->
                       existsb (str_eqb base) seen = false).
    { intros z base t0 Hb0 Ht0. destruct (existsb (str_eqb base) seen) eqn:E; [|reflexivity]. exfalso.
      apply existsb_exists in E. destruct E as [s [Hs E]]. apply str_eqb_eq in E. subst s.
      destruct (Hseen base Hs) as [_ [j [g [a [Hdyn Hkb]]]]].
      pose proof (blookup_in _ base _ (pbinds_nodup k) Hb0) as B1.
      pose proof (blookup_in _ base _ (pbinds_nodup k) (pbinds_dyn p k base _ Hdyn)) as B2.
      rewrite B1 in B2. inversion B2 as [E2]. cbn [fleaf] in E2. rewrite Hkb in E2.
      destruct Ht0 as [Ht0|[ts Ht0]]; rewrite Ht0 in E2; discriminate E2. }
    assert (Hstab : term_n (psem p) (S m) y = pterm p y).
    { unfold pterm. symmetry. apply (term_stable (psem p) (S m) y Hk1). exact Hr. }
    destruct (flookup y (psem p)) as [[z|j g' a']|] eqn:Ey;
      [ | | exfalso; apply Hk1; apply know_undeclared; exact Ey ].
    - (* an integer *)
      assert (Et : term_n (psem p) (S m) y = y) by (cbn [term_n]; unfold bare_next; rewrite Ey; reflexivity).
      rewrite Et. unfold R0. rewrite d_flookup, Ey.
      apply (resolve_int_kind rho k y z f seen Ey (Hseenint z)).
    - (* an expression *)
      pose proof (flookup_some_in _ _ _ Ey) as Hyin. pose proof (psem_fexp_dyn p y j g' a' Hyin) as Hdyn.
      pose proof (pbinds_dyn p k y _ Hdyn) as Hb. pose proof (pbinds_word k y _ Hb) as Hwy.
      pose proof (pvt_lookup rho k y _ Hb) as Hl. destruct (pexp_in y j g' a' Hyin) as [Hj [Hg [Hw _]]].
      destruct (ref_of_parts y Hwy) as [Hrn Hri].
      cbn [fleaf] in Hl. destruct (k y) as [w|] eqn:Ek.
      + (* evaluated: by the invariant its value is the value at the end of the chain *)
        rewrite Hstab. pose proof (ginv_chain _ _ _ _ Hinv y w Ek) as Hval. unfold R in Hval. rewrite Hval.
        apply (resolve_static f (pvt rho k) seen (ref_of y) (Leaf (SInt w)) (Leaf (SInt w))).
        * rewrite Hrn. exact Hynot.
        * rewrite Hrn. exact Hl.
        * reflexivity.
        * rewrite Hri. reflexivity.
      + (* pending: the table holds the text of the expression *)
        unfold assigned in Hl. cbv zeta in Hl. rewrite (insert_expression_ph j _ Hj) in Hl.
        rewrite (ftable_lookup d rho k y j g' a' d_ids (in_d _ Hyin) Ek) in Hl.
        pose proof (ginv_dollar _ _ _ _ Hinv y j g' a' (in_d _ Hyin) Ek) as Hka.
        assert (Hcase : (exists y', a' = AVar y' /\ g' 0%nat = [] /\ g' 1%nat = []) \/
                        (bare_next (psem p) y = None /\ is_plain_reference (render_in rho g' a') = false)).
        { destruct a' as [n|y'|a1|a1|a1 b1|a1 b1|a1 b1|a1];
            try (right; split; [unfold bare_next; rewrite Ey; reflexivity | apply (render_not_plain_raw rho g' _ Hg); intros y' E; discriminate E]).
          destruct (g' 0%nat) as [|c0 r0] eqn:E0; [destruct (g' 1%nat) as [|c1 r1] eqn:E1|].
          - left. exists y'. repeat split; assumption.
          - right. split; [unfold bare_next; rewrite Ey, E0, E1; reflexivity|].
            unfold known_all in Hka. cbn [avars forallb] in Hka. rewrite andb_true_r in Hka.
            rewrite render_var. destruct (rho y'); [discriminate Hka|].
            apply (bare_blank_not_plain g' y' Hg). right. rewrite E1. discriminate.
          - right. split; [unfold bare_next; rewrite Ey, E0; reflexivity|].
            unfold known_all in Hka. cbn [avars forallb] in Hka. rewrite andb_true_r in Hka.
            rewrite render_var. destruct (rho y'); [discriminate Hka|].
            apply (bare_blank_not_plain g' y' Hg). left. rewrite E0. discriminate. }
        destruct Hcase as [[y' [Ea [E0 E1]]]|[Hbn Hnp]].
        * (* a bare reference, written without blanks *)
          subst a'. rewrite render_var, E0, E1, app_nil_r in Hl. cbn [app] in Hl.
          unfold known_all in Hka. cbn [avars forallb] in Hka. rewrite andb_true_r in Hka.
          destruct (rho y') as [v|] eqn:Er; [discriminate Hka|].
          assert (Hry : rname y') by (cbn [avars] in Hw; inversion Hw; assumption).
          cbn [term_n]. unfold bare_next. rewrite Ey, E0, E1.
          destruct (circular (KS y) (Leaf (SStr (ref_of y')))) eqn:Ec.
          -- unfold R0. rewrite d_flookup, Ey, Ek. apply resolve_none_gen. right. rewrite Hrn. exact Hl.
          -- (* followed *)
             rewrite (know_bare _ m y j g' y' Ey) in Hk1.
             assert (Hk0' : know (psem p) (pred m) y' = None).
             { destruct m as [|m']; [reflexivity|]. cbn [pred]. rewrite (know_bare _ m' y j g' y' Ey) in Hk0. exact Hk0. }
             assert (Hin_keys : In (KS y) (map fst (pvt rho k))).
             { apply SDictProofs.alookup_Some_In in Hl. apply in_map_iff. exists (KS y, Leaf (SStr (ref_of y'))). split; [reflexivity | exact Hl]. }
             apply (resolve_chase_gen f (pvt rho k) seen y y' _ Hwy Hry Hynot Hl).
             ++ apply (IH y' Hk1 Hk0'); [lia | | | |].
                ** apply NoDup_snoc; [exact Hnd|]. intro Hc.
                   assert (E : existsb (str_eqb y) seen = true) by (apply existsb_exists; exists y; split; [exact Hc | apply str_eqb_refl]).
                   congruence.
                ** intros n Hn. apply in_app_or in Hn. destruct Hn as [Hn|[Hn|[]]]; [apply Hsub; exact Hn | subst n; exact Hin_keys].
                ** rewrite app_length. cbn [length]. lia.
                ** intros s Hs. apply in_app_or in Hs. destruct Hs as [Hs|[Hs|[]]].
                   --- destruct (Hseen s Hs) as [H1 H2]. split; [|exact H2].
                       destruct (know (psem p) m s) as [v|] eqn:E; [|reflexivity].
                       rewrite (know_mono1 (psem p) m s v E) in H1. discriminate H1.
                   --- subst s. split; [exact Hk0|]. exists j, g', (AVar y'). split; [exact Hdyn | exact Ek].
             ++ destruct (R0 d k (term_n (psem p) m y')) as [v|]; [right; exists (Leaf (SInt v)); split; reflexivity | left; reflexivity].
        * (* a compound expression, or a bare reference written with blanks: not followed *)
          assert (Et : term_n (psem p) (S m) y = y) by (cbn [term_n]; rewrite Hbn; reflexivity).
          rewrite Et. unfold R0. rewrite d_flookup, Ey, Ek.
          destruct (circular (KS y) (Leaf (SStr (render_in rho g' a')))) eqn:Ec.
          -- apply resolve_none_gen. right. rewrite Hrn. exact Hl.
          -- apply (resolve_text_gen f (pvt rho k) seen y (render_in rho g' a') Hwy Hynot Hl).
             ++ rewrite (dollar_render' rho g' a' Hg), Hka. reflexivity.
             ++ exact Hnp.
  Qed.

  Lemma pHR : forall rho k x i g a y, ginv d (pterm p) rho k -> In (x, FExp i g a) d -> In y (avars a) ->
    resolve_reference (variables_of (gstate d (pdata p) lc bc inc rho k)) (ref_of y) =
    match R d (pterm p) k y with Some v => RVal (Leaf (SInt v)) | None => RNone end.
  Proof.
    intros rho k x i g a y Hinv Hin Hya.
    change (variables_of (gstate d (pdata p) lc bc inc rho k)) with (pvt rho k).
    pose proof (Hclosed x i g a y (d_in _ Hin) Hya) as Hdecl.
    assert (Hy : In y (map fst (psem p))).
    { destruct (flookup y (psem p)) as [v|] eqn:E; [|contradiction Hdecl; reflexivity].
      apply in_map_iff. exists (y, v). split; [reflexivity | apply flookup_some_in; exact E]. }
    pose proof (Htot y Hy) as Hd. unfold denote in Hd.
    destruct (exact_rank (psem p) _ y Hd) as [m [Hle [H1 H0]]].
    unfold resolve_reference, R.
    rewrite (resolve_chain rho k Hinv (S m) y H1 H0 Hle _ []); [ | constructor | intros n [] | cbn [length]; lia | intros s []].
    unfold pterm. rewrite (term_stable (psem p) (S m) y H1 (S (length (psem p))) Hle). reflexivity.
  Qed.
End PDoc.



(* ================================================================================================ *)
(* 6. The result                                                                                    *)
(* ================================================================================================ *)
(* every name holds the integer the direct recursive evaluation of the flattened document gives; [d]: the entries of
   the flattened document in the order of the table of expressions *)
Theorem pdoc_direct_value_ord : forall p d lc bc inc, pdoc_ok p -> Permutation (psem p) d ->
  (forall x, In x (map fst (psem p)) -> denote (psem p) x <> None) ->
  eval_expressions (psdict_ord p d lc bc inc) = Some (Ok (mkSD (pdata p (denote (psem p))) lc bc inc [])).
Proof.
  intros p d lc bc inc Hok Hperm Htot.
  pose proof (proj1 (proj2 (proj2 (proj2 Hok)))) as Hnd.
  change (psdict_ord p d lc bc inc) with (gstate d (pdata p) lc bc inc (fun _ => None) (fun _ => None)).
  assert (E : pdata p (denote (psem p)) = pdata p (denote d)).
  { apply pdata_ext. intros x i g a _. apply (denote_perm (psem p) d x Hnd Hperm). }
  rewrite E.
  apply (engine_total d (pdata p) (pterm p) lc bc inc).
  - apply (d_names p Hok d Hperm).
  - apply (d_ids p Hok d Hperm).
  - apply (d_exps p Hok d Hperm).
  - apply (pHX p d Hperm).
  - apply (pHI p Hok d Hperm).
  - apply (pHR p lc bc inc Hok Htot d Hperm).
  - apply (pHTb p Hok Htot d Hperm).
  - apply (pHTn p d Hperm).
  - intros x Hx. rewrite <- (denote_perm (psem p) d x Hnd Hperm). apply Htot.
    apply (Permutation_in x (Permutation_sym (Permutation_map fst Hperm))). exact Hx.
Qed.

Theorem pdoc_direct_value : forall p lc bc inc, pdoc_ok p ->
  (forall x, In x (map fst (psem p)) -> denote (psem p) x <> None) ->
  eval_expressions (psdict p lc bc inc) = Some (Ok (mkSD (pdata p (denote (psem p))) lc bc inc [])).
Proof. intros p lc bc inc Hok Htot. apply (pdoc_direct_value_ord p (psem p) lc bc inc Hok (Permutation_refl _) Htot). Qed.

(* ---- look-ups in the result ------------------------------------------------------------------------------- *)
Lemma denote_fint : forall d y z, NoDup (map fst d) -> In (y, FInt z) d -> denote d y = Some z.
Proof.
  intros d y z Hnd Hin. unfold denote. cbn [know]. unfold kstep. rewrite (flookup_in d y _ Hnd Hin). reflexivity.
Qed.

Lemma pdata_dyn_lookup : forall p k x v, NoDup (pall p) -> In (PDyn x v) p ->
  alookup (KS x) (pdata p k) = Some (fleaf k x v).
Proof.
  intros p k x v Hnd Hin. apply alookup_In_nodup.
  - rewrite pdata_keys. apply NoDup_map_KS. apply pnames_nodup. exact Hnd.
  - unfold pdata. apply in_map_iff. exists (PDyn x v). split; [reflexivity | exact Hin].
Qed.

Lemma pdata_stat_lookup : forall p k x t, NoDup (pall p) -> In (PStat x t) p -> alookup (KS x) (pdata p k) = Some t.
Proof.
  intros p k x t Hnd Hin. apply alookup_In_nodup.
  - rewrite pdata_keys. apply NoDup_map_KS. apply pnames_nodup. exact Hnd.
  - unfold pdata. apply in_map_iff. exists (PStat x t). split; [reflexivity | exact Hin].
Qed.

Theorem pdoc_value_ord : forall p d lc bc inc, pdoc_ok p -> Permutation (psem p) d -> total_doc (psem p) = true ->
  exists s', eval_expressions (psdict_ord p d lc bc inc) = Some (Ok s') /\
             sd_expr s' = [] /\ map fst (sd_data s') = map KS (map pname p) /\
             (forall x v z, In (PDyn x v) p -> denote (psem p) x = Some z -> alookup (KS x) (sd_data s') = Some (Leaf (SInt z))) /\
             (forall x t, In (PStat x t) p -> alookup (KS x) (sd_data s') = Some t).
Proof.
  intros p d lc bc inc Hok Hperm Htot. eexists. split; [apply (pdoc_direct_value_ord p d lc bc inc Hok Hperm (total_doc_spec _ Htot))|].
  cbn [sd_expr sd_data]. split; [reflexivity|]. split; [apply pdata_keys|]. split.
  - intros x v z Hin Hz. rewrite (pdata_dyn_lookup p _ x v (proj1 Hok) Hin). f_equal.
    unfold fleaf. destruct v as [z'|i g a]; [|rewrite Hz; reflexivity].
    rewrite (denote_fint (psem p) x z' (proj1 (proj2 (proj2 (proj2 Hok)))) (psem_dyn p x _ Hin)) in Hz. inversion Hz. reflexivity.
  - intros x t Hin. apply (pdata_stat_lookup p _ x t (proj1 Hok) Hin).
Qed.

Theorem pdoc_value : forall p lc bc inc, pdoc_ok p -> total_doc (psem p) = true ->
  exists s', eval_expressions (psdict p lc bc inc) = Some (Ok s') /\
             sd_expr s' = [] /\ map fst (sd_data s') = map KS (map pname p) /\
             (forall x v z, In (PDyn x v) p -> denote (psem p) x = Some z -> alookup (KS x) (sd_data s') = Some (Leaf (SInt z))) /\
             (forall x t, In (PStat x t) p -> alookup (KS x) (sd_data s') = Some t).
Proof. intros p lc bc inc Hok Htot. apply (pdoc_value_ord p (psem p) lc bc inc Hok (Permutation_refl _) Htot). Qed.

(* ---- (2) indexed references: the addressed list element ----------------------------------------------------- *)
Lemma elems_nth : forall l ts pos j z, nth_error ts j = Some (Leaf (SInt z)) ->
  In (l ++ idx (N.of_nat (pos + j)), FInt z) (elems l pos ts).
Proof.
  intros l. induction ts as [|c ts IH]; intros pos j z H; [destruct j; discriminate H|].
  cbn [elems]. apply in_or_app. destruct j as [|j].
  - cbn [nth_error] in H. inversion H; subst c. left. rewrite Nat.add_0_r. left. reflexivity.
  - right. cbn [nth_error] in H. rewrite Nat.add_succ_r. apply (IH (S pos) j z H).
Qed.

(* a list declared at any nesting level: l[j] denotes the j-th element *)
Lemma denote_index : forall p it l ts j z, pdoc_ok p -> In it p -> In (l, Lst ts) (sbinds_item it) ->
  nth_error ts j = Some (Leaf (SInt z)) ->
  denote (psem p) (l ++ idx (N.of_nat j)) = Some z.
Proof.
  intros p it l ts j z Hok Hit Hb Hn. apply denote_fint; [apply Hok|].
  unfold psem. apply in_flat_map. exists it. split; [exact Hit|].
  destruct it as [x v|x t]; [contradiction Hb|]. cbn [psem_item]. apply in_flat_map. exists (l, Lst ts). split; [exact Hb|].
  unfold decl. cbn [fst snd]. apply (elems_nth l ts 0 j z Hn).
Qed.

Lemma sbinds_top : forall x t, In (x, t) (sbinds_item (PStat x t)).
Proof. intros x t. cbn [sbinds_item]. unfold ebinds. cbn [fst snd]. apply in_or_app. right. left. reflexivity. Qed.

(* ---- (1) bare references ------------------------------------------------------------------------------------ *)
(* the direct evaluation gives a bare reference the value of the name it refers to *)
Lemma denote_bare : forall d x i g y z, NoDup (map fst d) -> In (x, FExp i g (AVar y)) d ->
  denote d x = Some z -> denote d y = Some z.
Proof.
  intros d x i g y z Hnd Hin Hx. unfold denote in *. cbn [know] in Hx. unfold kstep in Hx.
  rewrite (flookup_in d x _ Hnd Hin) in Hx. unfold eval_in, known_all in Hx. cbn [avars forallb] in Hx.
  destruct (know d (length d) y) as [w|] eqn:Ey; [|discriminate Hx]. cbn [is_some andb] in Hx.
  unfold env_of in Hx. cbn [aeval] in Hx. rewrite Ey in Hx. inversion Hx; subst w.
  apply (know_mono1 d (length d)). exact Ey.
Qed.

(* a bare reference holds the value of the name it refers to *)
Theorem bare_reference_value : forall p lc bc inc, pdoc_ok p -> total_doc (psem p) = true ->
  exists s', eval_expressions (psdict p lc bc inc) = Some (Ok s') /\
    forall x i g y, In (PDyn x (FExp i g (AVar y))) p ->
      exists z, denote (psem p) y = Some z /\ alookup (KS x) (sd_data s') = Some (Leaf (SInt z)).
Proof.
  intros p lc bc inc Hok Htot. destruct (pdoc_value p lc bc inc Hok Htot) as [s' [He [_ [_ [Hv _]]]]].
  exists s'. split; [exact He|]. intros x i g y Hin.
  pose proof (psem_dyn p x _ Hin) as Hs.
  assert (Hx : In x (map fst (psem p))) by (apply in_map_iff; exists (x, FExp i g (AVar y)); split; [reflexivity | exact Hs]).
  pose proof (total_doc_spec _ Htot x Hx) as Hd. destruct (denote (psem p) x) as [z|] eqn:Ez; [|contradiction].
  exists z. split; [apply (denote_bare (psem p) x i g y z (proj1 (proj2 (proj2 (proj2 Hok)))) Hs Ez)|].
  apply (Hv x _ z Hin Ez).
Qed.

(* an indexed reference, bare: the addressed element of a list declared at any nesting level *)
Theorem indexed_reference_value : forall p lc bc inc, pdoc_ok p -> total_doc (psem p) = true ->
  exists s', eval_expressions (psdict p lc bc inc) = Some (Ok s') /\
    forall x i g it l ts j z, In (PDyn x (FExp i g (AVar (l ++ idx (N.of_nat j))))) p ->
      In it p -> In (l, Lst ts) (sbinds_item it) -> nth_error ts j = Some (Leaf (SInt z)) ->
      alookup (KS x) (sd_data s') = Some (Leaf (SInt z)).
Proof.
  intros p lc bc inc Hok Htot. destruct (bare_reference_value p lc bc inc Hok Htot) as [s' [He Hb]].
  exists s'. split; [exact He|]. intros x i g it l ts j z Hin Hit Hl Hn.
  destruct (Hb x i g _ Hin) as [z' [Hz Ha]]. rewrite (denote_index p it l ts j z Hok Hit Hl Hn) in Hz.
  inversion Hz; subst z'. exact Ha.
Qed.

(* ---- (3) the place of a declaration does not matter ------------------------------------------------------------ *)
Lemma total_perm : forall d d', NoDup (map fst d) -> Permutation d d' -> total_doc d = true ->
  forall x, In x (map fst d') -> denote d' x <> None.
Proof.
  intros d d' Hnd Hp Ht x Hx. rewrite <- (denote_perm d d' x Hnd Hp). apply (total_doc_spec d Ht).
  apply (Permutation_in x (Permutation_sym (Permutation_map fst Hp))). exact Hx.
Qed.

(* two documents that declare the same names with the same integers / expressions -- at whatever nesting level, as a
   list element or on its own, in whatever order -- give every expression the same value *)
Theorem place_independent : forall p p' lc bc inc, pdoc_ok p -> pdoc_ok p' -> Permutation (psem p) (psem p') ->
  total_doc (psem p) = true ->
  exists s s', eval_expressions (psdict p lc bc inc) = Some (Ok s) /\
               eval_expressions (psdict p' lc bc inc) = Some (Ok s') /\
               forall x v v', In (PDyn x v) p -> In (PDyn x v') p' ->
                 alookup (KS x) (sd_data s) = alookup (KS x) (sd_data s').
Proof.
  intros p p' lc bc inc Hok Hok' Hp Ht.
  pose proof (proj1 (proj2 (proj2 (proj2 Hok)))) as Hnd.
  exists (mkSD (pdata p (denote (psem p))) lc bc inc []), (mkSD (pdata p' (denote (psem p'))) lc bc inc []).
  split; [apply (pdoc_direct_value p lc bc inc Hok (total_doc_spec _ Ht))|].
  split; [apply (pdoc_direct_value p' lc bc inc Hok' (total_perm _ _ Hnd Hp Ht))|].
  intros x v v' Hin Hin'. cbn [sd_data].
  rewrite (pdata_dyn_lookup p _ x v (proj1 Hok) Hin), (pdata_dyn_lookup p' _ x v' (proj1 Hok') Hin'). f_equal.
  assert (Ev : v' = v).
  { pose proof (psem_dyn p x v Hin) as H1. pose proof (psem_dyn p' x v' Hin') as H2.
    apply (Permutation_in _ (Permutation_sym Hp)) in H2.
    pose proof (flookup_in _ x _ Hnd H1) as E1. pose proof (flookup_in _ x _ Hnd H2) as E2. congruence. }
  subst v'. unfold fleaf. destruct v as [z|i g a]; [reflexivity|].
  rewrite (denote_perm (psem p) (psem p') x Hnd Hp). reflexivity.
Qed.

Lemma psem_dyns : forall d : fdoc, psem (map (fun xv => PDyn (fst xv) (snd xv)) d) = d.
Proof. induction d as [|[x v] d IH]; [reflexivity|]. cbn [map psem flat_map psem_item fst snd app]. f_equal. exact IH. Qed.

Lemma pall_dyns : forall d : fdoc, pall (map (fun xv => PDyn (fst xv) (snd xv)) d) = map fst d.
Proof. induction d as [|[x v] d IH]; [reflexivity|]. cbn [map pall flat_map pall_item fst snd app]. f_equal. exact IH. Qed.

Lemma pdata_dyns : forall (d : fdoc) k, pdata (map (fun xv => PDyn (fst xv) (snd xv)) d) k = fdata d k.
Proof. intros d k. unfold pdata, fdata. rewrite map_map. reflexivity. Qed.

Lemma psdict_pflat : forall p lc bc inc, psdict (pflat p) lc bc inc = flat_sdict (psem p) lc bc inc.
Proof.
  intros p lc bc inc. unfold psdict, psdict_ord, pflat, flat_sdict, fstate. rewrite psem_dyns, pdata_dyns. reflexivity.
Qed.

Lemma pflat_ok : forall p, pdoc_ok p -> Forall word_name (map fst (psem p)) -> pdoc_ok (pflat p).
Proof.
  intros p [H1 [H2 [H3 [H4 [H5 H6]]]]] Hw. unfold pdoc_ok, pflat. rewrite psem_dyns, pall_dyns.
  split; [exact H4|]. split; [exact Hw|]. split.
  { apply Forall_forall. intros it Hit. apply in_map_iff in Hit. destruct Hit as [xv [E _]]. subst it. exact I. }
  split; [exact H4|]. split; [exact H5 | exact H6].
Qed.

(* C05_nested_declaration_independent: integer declarations spread over nested dicts (no list elements: every
   declared name is a word) -- the expressions get the values they get in the flattened document *)
Theorem nested_declaration_independent : forall p lc bc inc, pdoc_ok p -> Forall word_name (map fst (psem p)) ->
  total_doc (psem p) = true ->
  exists s s', eval_expressions (psdict p lc bc inc) = Some (Ok s) /\
               eval_expressions (flat_sdict (psem p) lc bc inc) = Some (Ok s') /\
               forall x v, In (PDyn x v) p -> alookup (KS x) (sd_data s) = alookup (KS x) (sd_data s').
Proof.
  intros p lc bc inc Hok Hw Ht.
  assert (Hp : Permutation (psem p) (psem (pflat p))) by (unfold pflat; rewrite psem_dyns; apply Permutation_refl).
  destruct (place_independent p (pflat p) lc bc inc Hok (pflat_ok p Hok Hw) Hp Ht) as [s [s' [He [He' Hv]]]].
  exists s, s'. split; [exact He|]. split; [rewrite <- psdict_pflat; exact He'|].
  intros x v Hin. apply (Hv x v v Hin). unfold pflat. apply in_map_iff. exists (x, v). split; [reflexivity|].
  apply psem_dyn. exact Hin.
Qed.

Print Assumptions pdoc_direct_value.
Print Assumptions nested_declaration_independent.
Print Assumptions indexed_reference_value.

(* ================================================================================================ *)
(* 7. Deciding well-formedness of a concrete document                                               *)
(* ================================================================================================ *)
Fixpoint nodupb (l : list str) : bool :=
  match l with [] => true | x :: l' => negb (existsb (str_eqb x) l') && nodupb l' end.
Lemma nodupb_sound : forall l, nodupb l = true -> NoDup l.
Proof.
  induction l as [|x l IH]; intro H; [constructor|]. cbn [nodupb] in H. apply andb_true_iff in H. destruct H as [H1 H2].
  constructor; [|apply IH; exact H2]. intro Hin. apply negb_true_iff in H1.
  assert (E : existsb (str_eqb x) l = true) by (apply existsb_exists; exists x; split; [exact Hin | apply str_eqb_refl]).
  congruence.
Qed.
Fixpoint nodupNb (l : list N) : bool :=
  match l with [] => true | x :: l' => negb (existsb (N.eqb x) l') && nodupNb l' end.
Lemma nodupNb_sound : forall l, nodupNb l = true -> NoDup l.
Proof.
  induction l as [|x l IH]; intro H; [constructor|]. cbn [nodupNb] in H. apply andb_true_iff in H. destruct H as [H1 H2].
  constructor; [|apply IH; exact H2]. intro Hin. apply negb_true_iff in H1.
  assert (E : existsb (N.eqb x) l = true) by (apply existsb_exists; exists x; split; [exact Hin | apply N.eqb_refl]).
  congruence.
Qed.

Definition word_nameb (s : str) : bool := nonempty s && forallb is_word s.
Lemma word_nameb_sound : forall s, word_nameb s = true -> word_name s.
Proof.
  intros s H. unfold word_nameb in H. apply andb_true_iff in H. destruct H as [H1 H2]. split.
  - intro E. subst s. discriminate H1.
  - apply Forall_forall. apply forallb_forall. exact H2.
Qed.

Definition rnameb (y : str) : bool :=
  match y with w :: _ => is_word w | [] => false end && forallb is_ref_char y && brk false y.
Lemma rnameb_sound : forall y, rnameb y = true -> rname y.
Proof.
  intros y H. unfold rnameb in H. apply andb_true_iff in H. destruct H as [H H3]. apply andb_true_iff in H. destruct H as [H1 H2].
  split; [|split].
  - destruct y as [|w t]; [discriminate H1|]. exists w, t. split; [reflexivity | exact H1].
  - apply Forall_forall. apply forallb_forall. exact H2.
  - exact H3.
Qed.

Definition stat_itemb (it : pitem) : bool := match it with PDyn _ _ => true | PStat _ t => stat t end.
Definition gexp_okb (v : fval) : bool :=
  match v with
  | FInt _ => true
  | FExp i _ a => (i <? 1000000)%N && forallb rnameb (avars a) && nonempty (avars a)
  end.
Definition pdoc_checkb (p : pdoc) : bool :=
  nodupb (pall p) && forallb word_nameb (pall p) && forallb stat_itemb p &&
  nodupb (map fst (psem p)) && nodupNb (fexp_ids (psem p)) && forallb gexp_okb (map snd (psem p)).
(* the layouts: blanks only *)
Definition layout_ok (v : fval) : Prop :=
  match v with
  | FInt _ => True
  | FExp _ g a => blank_fn g
  end.

Lemma pdoc_check_ok : forall p, pdoc_checkb p = true -> Forall layout_ok (map snd (psem p)) -> pdoc_ok p.
Proof.
  intros p H Hl. unfold pdoc_checkb in H.
  apply andb_true_iff in H. destruct H as [H C6]. apply andb_true_iff in H. destruct H as [H C5].
  apply andb_true_iff in H. destruct H as [H C4]. apply andb_true_iff in H. destruct H as [H C3].
  apply andb_true_iff in H. destruct H as [C1 C2].
  split; [apply nodupb_sound; exact C1|]. split.
  { apply Forall_forall. intros x Hx. apply word_nameb_sound. rewrite forallb_forall in C2. apply C2. exact Hx. }
  split.
  { apply Forall_forall. intros it Hit. rewrite forallb_forall in C3. specialize (C3 it Hit). destruct it; [exact I | exact C3]. }
  split; [apply nodupb_sound; exact C4|]. split; [apply nodupNb_sound; exact C5|].
  apply Forall_forall. intros v Hv. rewrite forallb_forall in C6. specialize (C6 v Hv). rewrite Forall_forall in Hl. specialize (Hl v Hv).
  destruct v as [z|i g a]; [exact I|]. cbn [gexp_okb] in C6. cbn [layout_ok] in Hl.
  apply andb_true_iff in C6. destruct C6 as [C0 N0]. apply andb_true_iff in C0. destruct C0 as [I0 R0].
  split; [apply N.ltb_lt; exact I0|]. split; [exact Hl|]. split.
  - apply Forall_forall. intros y Hy. apply rnameb_sound. rewrite forallb_forall in R0. apply R0. exact Hy.
  - intro E. rewrite E in N0. discriminate N0.
Qed.

Definition item_layout_ok (it : pitem) : Prop := match it with PDyn _ v => layout_ok v | PStat _ _ => True end.

Lemma layouts_from_items : forall p, Forall item_layout_ok p -> Forall layout_ok (map snd (psem p)).
Proof.
  intros p H. apply Forall_forall. intros v Hv. apply in_map_iff in Hv. destruct Hv as [[y v'] [E Hin]]. cbn [snd] in E. subst v'.
  destruct (psem_origin p y v Hin) as [H1|[it [nm [c [_ [_ [[_ [_ [z Hz]]]|[ts [j [z [_ [_ [_ Hz]]]]]]]]]]]]].
  - rewrite Forall_forall in H. apply (H (PDyn y v) H1).
  - subst v. exact I.
  - subst v. exact I.
Qed.

Lemma pdoc_check_items : forall p, pdoc_checkb p = true -> Forall item_layout_ok p -> pdoc_ok p.
Proof. intros p H Hl. apply (pdoc_check_ok p H). apply layouts_from_items. exact Hl. Qed.
