(* C12 / C03 on include directives, part 6: write, then read.
   NativeParser.parse_string on the text NativeFormatter.to_string writes for an SDict with comments and top-level include
   directives (class rereadable_inc): every directive is written again and read back with the same name, in text order,
   its path re-anchored at the folder of the file that is read; everything RereadProofs says about data and comments
   holds for the rest. *)
From Coq Require Import String.
From Coq Require Import NArith ZArith List Bool Lia ZifyBool ZifyN ZifyNat.
From DictIO Require Import Chars Str Value Scalar KeyPath SDict Layout Lexer TokParser TreeSpec NativeSpec LayoutSpec E2ESpec.
From DictIO Require ScalarProofs SDictProofs TokProofs LayoutProofs SemProofs QuoteProofs KeyPathProofs.
From DictIO Require Import E2EProofs E2EHoles E2EInsert E2EKeyTok E2EFullProofs RereadStr RereadTree RereadWrite RereadLex RereadParse RereadNum RereadProofs RereadFix RereadOff.
From DictIO Require Import RereadIncStage RereadIncLex RereadIncParse RereadIncRead RereadIncWrite.
Import ListNotations.
Import LayoutProofs.
Open Scope N_scope.

(* the canonical document the written text spells: that of the SDict without its include entries *)
Definition written_doc_inc (s : sdict) : list (key * tree) := written_doc (strip_inc s).

Lemma name_cond_ok nm : name_cond nm = true -> inc_name_ok nm = true.
Proof. unfold name_cond. intros H. apply andb_true_iff in H. destruct H as [H _]. apply andb_true_iff in H. exact (proj1 H). Qed.

Theorem reread_inc s dir count : rereadable_inc s = true -> (Z.of_nat (length (sd_lc s)) < 1000000)%Z -> (-1 <= count)%Z ->
  (Z.of_nat (length (lc_list (written_doc_inc s))) <= 1000000)%Z -> (Z.of_nat (length (bc_list (written_doc_inc s))) <= 1000000)%Z ->
  (Z.of_nat (length (lit_list (written_doc_inc s))) <= 1000000)%Z -> (Z.of_nat (length (inc_names s)) <= 1000000)%Z ->
  parse_string true dir count (to_string_sd s) =
  Ok (mkParsed (number_inc dir count (written_doc_inc s) (inc_names s)) (count_after_inc count (written_doc_inc s) (inc_names s))).
Proof.
  intros Hr Hl Hc H1 H2 H3 H4. pose proof (rereadable_inc_facts s Hr) as HI.
  rewrite (writer_canon_inc_all s Hr Hl). apply reader_text_inc; try assumption.
  - exact (rereadable_doc (strip_inc s) (if_strip s HI)).
  - unfold written_doc_inc, written_doc. exact (proj1 (hdr_sorted _)).
  - apply forallb_forall. intros nm Hin. exact (name_cond_ok nm (if_names s HI nm Hin)).
  - exact (if_names_nd s HI).
Qed.

(* ---- what the result is ------------------------------------------------------------------------------ *)
Lemma firstn_In {A} (l : list A) n x : In x (firstn n l) -> In x l.
Proof. intros H. rewrite <- (firstn_skipn n l). apply in_or_app. left. exact H. Qed.
Lemma skipn_In {A} (l : list A) n x : In x (skipn n l) -> In x l.
Proof. intros H. rewrite <- (firstn_skipn n l). apply in_or_app. right. exact H. Qed.

Lemma strip_number_inc dir count c names : cdoc_ok c = true ->
  (forall k, In k (ids (cafter count (length (lc_list c))) (length names)) -> k < 1000000) ->
  strip_inc (number_inc dir count c names) = number count c.
Proof.
  intros Hc Hsm. destruct (cdoc_ok_inv c Hc) as (Hs & _). unfold strip_inc, number_inc. cbn [sd_data sd_lc sd_bc].
  set (ks := ids (cafter count (length (lc_list c))) (length names)) in *. set (d := sd_data (number count c)). set (nb := length (bpart c)).
  assert (Hd : forall kc, In kc d -> is_inc_entry kc = false).
  { intros kc Hin. unfold d, number in Hin. cbn [sd_data] in Hin.
    pose proof (numT_noinc (lc_tab count c) (bc_tab c) written_value (Dict c) Hs) as Hn.
    destruct (numT_dict (lc_tab count c) (bc_tab c) written_value c) as [d' Ed]. rewrite Ed in Hn, Hin. cbn [kvs_of] in Hin.
    apply noinc_dict in Hn. rewrite Forall_forall in Hn. exact (proj1 (Hn kc Hin)). }
  rewrite !filter_app.
  rewrite (filter_all (fun kc => negb (is_inc_entry kc)) (firstn nb d)) by (intros kc Hin; rewrite (Hd kc (firstn_In _ _ _ Hin)); reflexivity).
  rewrite (filter_all (fun kc => negb (is_inc_entry kc)) (skipn nb d)) by (intros kc Hin; rewrite (Hd kc (skipn_In _ _ _ Hin)); reflexivity).
  rewrite (filter_none (fun kc => negb (is_inc_entry kc)) (map inc_ph_entry ks)).
  - cbn [app]. rewrite firstn_skipn. reflexivity.
  - intros kc Hin. apply in_map_iff in Hin. destruct Hin as (k & <- & Hk). unfold is_inc_entry, inc_ph_entry. cbn [fst]. rewrite (ikey_is_include k (Hsm k Hk)). reflexivity.
Qed.

Lemma inc_tab_names dir : forall names (ks : list N), length ks = length names ->
  map (fun e : N * include_entry => snd (fst (snd e))) (combine ks (map (fun nm => (inc_directive nm, nm, path_join dir nm)) names)) = names.
Proof.
  induction names as [|nm names IH]; intros ks Hlen; destruct ks as [|k ks]; try discriminate Hlen; [reflexivity|].
  cbn [map combine fst snd]. f_equal. apply IH. cbn [length] in Hlen. lia.
Qed.

(* The reader returns an SDict s' such that: without its include entries s' is the renumbered canonical document of
   RereadProofs (so everything C12_comments_survive_partial says about data and comments holds for it); the include
   entries of s' sit behind the top-level block comments, one per directive, in text order; their ids are the counter
   values that follow those of the line comments; the include table gives, for each id, the directive as written, the SAME
   NAME as the entry of s it was written for, and the path of that name relative to the folder dir of the file read. *)
Theorem includes_survive s dir count : rereadable_inc s = true -> (Z.of_nat (length (sd_lc s)) < 1000000)%Z -> (-1 <= count)%Z ->
  (Z.of_nat (length (lc_list (written_doc_inc s))) <= 1000000)%Z -> (Z.of_nat (length (bc_list (written_doc_inc s))) <= 1000000)%Z ->
  (Z.of_nat (length (lit_list (written_doc_inc s))) <= 1000000)%Z -> (Z.of_nat (length (inc_names s)) <= 1000000)%Z ->
  let c := written_doc_inc s in let names := inc_names s in
  let ks := ids (cafter count (length (lc_list c))) (length names) in
  exists s' count',
    parse_string true dir count (to_string_sd s) = Ok (mkParsed s' count') /\
    strip_inc s' = number count c /\
    canon (strip_inc s') = cwv c /\
    cstrip (Dict (sd_data (strip_inc s'))) = map_leaves written_value (cstrip (Dict (sd_data (strip_inc s)))) /\
    filter is_inc_entry (sd_data s') = map inc_ph_entry ks /\
    sd_data s' = firstn (length (bpart c)) (sd_data (strip_inc s')) ++ map inc_ph_entry ks ++ skipn (length (bpart c)) (sd_data (strip_inc s')) /\
    sd_inc s' = combine ks (map (fun nm => (inc_directive nm, nm, path_join dir nm)) names) /\
    map (fun e => snd (fst (snd e))) (sd_inc s') = names /\
    sd_lc s' = sd_lc (number count c) /\ sd_bc s' = sd_bc (number count c) /\ sd_expr s' = [].
Proof.
  intros Hr Hl Hc H1 H2 H3 H4 c names ks. pose proof (rereadable_inc_facts s Hr) as HI.
  pose proof (rereadable_doc (strip_inc s) (if_strip s HI)) as Hdoc. fold (written_doc_inc s) in Hdoc. fold c in Hdoc.
  assert (Hsm : forall k, In k ks -> k < 1000000).
  { intros k Hk. pose proof (ids_small (cafter count (length (lc_list c))) (length names)) as H. unfold small in H. rewrite Forall_forall in H. exact (H k Hk). }
  pose proof (strip_number_inc dir count c names Hdoc Hsm) as Hstrip.
  exists (number_inc dir count c names), (count_after_inc count c names).
  split; [exact (reread_inc s dir count Hr Hl Hc H1 H2 H3 H4)|]. split; [exact Hstrip|]. rewrite Hstrip.
  split; [exact (canon_number c count Hdoc Hc H1 H2)|].
  split.
  { rewrite (data_number c count Hdoc). unfold c, written_doc_inc.
    rewrite (cstrip_written_doc (strip_inc s) (wf_shape _ (rereadable_facts _ (if_strip s HI)))). reflexivity. }
  split.
  { unfold number_inc. cbn [sd_data]. fold ks. rewrite !filter_app.
    assert (Hd : forall kc, In kc (sd_data (number count c)) -> is_inc_entry kc = false).
    { intros kc Hin. rewrite <- Hstrip in Hin. cbn [strip_inc sd_data] in Hin. apply filter_In in Hin. destruct Hin as [_ Hf].
      apply negb_true_iff in Hf. exact Hf. }
    rewrite (filter_none is_inc_entry (firstn _ _)) by (intros kc Hin; exact (Hd kc (firstn_In _ _ _ Hin))).
    rewrite (filter_none is_inc_entry (skipn _ _)) by (intros kc Hin; exact (Hd kc (skipn_In _ _ _ Hin))).
    rewrite app_nil_r. cbn [app]. apply filter_all. intros kc Hin. apply in_map_iff in Hin. destruct Hin as (k & <- & Hk).
    exact (ikey_is_include k (Hsm k Hk)). }
  split; [reflexivity|]. split; [reflexivity|]. split.
  { unfold number_inc, inc_tab. cbn [sd_inc]. apply inc_tab_names. apply ids_length. }
  repeat split; reflexivity.
Qed.

Print Assumptions reread_inc.
Print Assumptions includes_survive.
