(* Proofs for C07: SDict behaves as a dict; merge algebra; side tables. *)
From Coq Require Import NArith ZArith List Bool Lia.
From DictIO Require Import Chars Str Value Scalar KeyPath SDict TreeSpec.
Import ListNotations.

(* ================================================================================================ *)
(* 1. decidable equalities                                                                          *)
(* ================================================================================================ *)
Lemma str_eqb_eq : forall a b : str, str_eqb a b = true <-> a = b.
Proof.
  induction a as [|x a IH]; intros [|y b]; simpl; split; intro H; try reflexivity; try discriminate.
  - apply andb_true_iff in H. destruct H as [H1 H2]. apply N.eqb_eq in H1. apply IH in H2. subst. reflexivity.
  - inversion H; subst. apply andb_true_iff. split; [apply N.eqb_refl | apply IH; reflexivity].
Qed.

Lemma key_eqb_eq : forall a b, key_eqb a b = true <-> a = b.
Proof.
  intros [x|x] [y|y]; simpl; split; intro H; try discriminate.
  - apply Z.eqb_eq in H. subst. reflexivity.
  - inversion H. apply Z.eqb_refl.
  - apply str_eqb_eq in H. subst. reflexivity.
  - inversion H. apply str_eqb_eq. reflexivity.
Qed.

Lemma key_eqb_refl : forall k, key_eqb k k = true.
Proof. intro k. apply key_eqb_eq. reflexivity. Qed.

Lemma key_eqb_neq : forall a b, key_eqb a b = false <-> a <> b.
Proof.
  intros a b. split.
  - intros H E. apply key_eqb_eq in E. congruence.
  - intro H. destruct (key_eqb a b) eqn:E; [|reflexivity]. apply key_eqb_eq in E. contradiction.
Qed.

(* turn every key_eqb fact into an (in)equation *)
Ltac keq :=
  repeat match goal with
         | H : key_eqb _ _ = true |- _ => apply key_eqb_eq in H
         | H : key_eqb _ _ = false |- _ => apply key_eqb_neq in H
         end;
  subst; try congruence.

Lemma existsb_key_In : forall k ks, existsb (key_eqb k) ks = true <-> In k ks.
Proof.
  intros k ks. rewrite existsb_exists. split.
  - intros [x [Hin He]]. keq.
  - intro Hin. exists k. split; [assumption | apply key_eqb_refl].
Qed.

Lemma keys_nodup_iff : forall ks, keys_nodup ks = true <-> NoDup ks.
Proof.
  induction ks as [|k ks IH]; simpl.
  - split; [constructor | reflexivity].
  - rewrite andb_true_iff, negb_true_iff, IH. split.
    + intros [H1 H2]. constructor; [|assumption]. intro Hin. apply existsb_key_In in Hin. congruence.
    + intro H. inversion H as [|? ? Hn Hd]; subst. split; [|assumption].
      destruct (existsb (key_eqb k) ks) eqn:E; [|reflexivity]. apply existsb_key_In in E. contradiction.
Qed.

(* ================================================================================================ *)
(* 2. side tables                                                                                   *)
(* ================================================================================================ *)
Section Tables.
  Context {V : Type}.

  Lemma tlookup_tset : forall i j (v : V) l,
    tlookup i (tset j v l) = if N.eqb i j then Some v else tlookup i l.
  Proof.
    intros i j v l. induction l as [|[j0 v0] l IH]; simpl.
    - destruct (N.eqb i j); reflexivity.
    - destruct (N.eqb j j0) eqn:E1; simpl.
      + apply N.eqb_eq in E1. subst j0. destruct (N.eqb i j); reflexivity.
      + rewrite IH. destruct (N.eqb i j0) eqn:E2; [|reflexivity].
        apply N.eqb_eq in E2. subst j0. destruct (N.eqb i j) eqn:E3; [|reflexivity].
        apply N.eqb_eq in E3. subst j. rewrite N.eqb_refl in E1. discriminate.
  Qed.

  Lemma tlookup_notin : forall i (l : list (N * V)), ~ In i (map fst l) -> tlookup i l = None.
  Proof.
    intros i l. induction l as [|[j v] l IH]; simpl; intro H; [reflexivity|].
    destruct (N.eqb i j) eqn:E.
    - apply N.eqb_eq in E. subst. exfalso. apply H. left. reflexivity.
    - apply IH. intro Hin. apply H. right. assumption.
  Qed.

  Lemma tlookup_app : forall i (a b : list (N * V)),
    tlookup i (a ++ b) = match tlookup i a with Some v => Some v | None => tlookup i b end.
  Proof.
    intros i a b. induction a as [|[j v] a IH]; simpl; [reflexivity|].
    destruct (N.eqb i j); [reflexivity | apply IH].
  Qed.

  Lemma tlookup_tupdate : forall i (b a : list (N * V)), NoDup (map fst b) ->
    tlookup i (tupdate a b) = match tlookup i b with Some v => Some v | None => tlookup i a end.
  Proof.
    intros i b. unfold tupdate. induction b as [|[j v] b IH]; intros a Hnd; simpl; [reflexivity|].
    simpl in Hnd. inversion Hnd as [|? ? Hn Hd]; subst.
    rewrite (IH _ Hd). rewrite tlookup_tset. destruct (N.eqb i j) eqn:E.
    - apply N.eqb_eq in E. subst j. rewrite (tlookup_notin _ _ Hn). reflexivity.
    - reflexivity.
  Qed.

  Lemma tlookup_tmerge : forall i (b a : list (N * V)),
    tlookup i (tmerge a b) = match tlookup i a with Some v => Some v | None => tlookup i b end.
  Proof.
    intros i b. unfold tmerge. induction b as [|[j v] b IH]; intros a; simpl.
    - destruct (tlookup i a); reflexivity.
    - rewrite IH. destruct (tlookup j a) eqn:Ej.
      + destruct (tlookup i a) eqn:Ei; [reflexivity|].
        destruct (N.eqb i j) eqn:E; [|reflexivity].
        apply N.eqb_eq in E. subst j. congruence.
      + rewrite tlookup_app. simpl. destruct (tlookup i a) eqn:Ei; [reflexivity|].
        destruct (N.eqb i j); [reflexivity|]. destruct (tlookup i b); reflexivity.
  Qed.
End Tables.

Lemma tables_update_vs_merge : forall (a b : list (N * str)) i, ids_nodup b ->
  tlookup i (tupdate a b) = (match tlookup i b with Some v => Some v | None => tlookup i a end) /\
  tlookup i (tmerge a b) = (match tlookup i a with Some v => Some v | None => tlookup i b end).
Proof.
  intros a b i Hnd. split; [apply tlookup_tupdate; exact Hnd | apply tlookup_tmerge].
Qed.

(* ================================================================================================ *)
(* 3. association lists                                                                             *)
(* ================================================================================================ *)
Section AssocLemmas.
  Context {V : Type}.
  Implicit Types (l : list (key * V)) (k : key) (v : V).

  Lemma alookup_aset : forall k k' v l,
    alookup k (aset k' v l) = if key_eqb k k' then Some v else alookup k l.
  Proof.
    intros k k' v l. induction l as [|[k0 v0] l IH]; simpl.
    - destruct (key_eqb k k'); reflexivity.
    - destruct (key_eqb k' k0) eqn:E1; simpl.
      + destruct (key_eqb k k0) eqn:E2; destruct (key_eqb k k') eqn:E3; try reflexivity; keq.
      + rewrite IH. destruct (key_eqb k k0) eqn:E2; destruct (key_eqb k k') eqn:E3; try reflexivity; keq.
  Qed.

  Lemma aset_same : forall k v l, alookup k l = Some v -> aset k v l = l.
  Proof.
    intros k v l. induction l as [|[k0 v0] l IH]; simpl; intro H; [discriminate|].
    destruct (key_eqb k k0).
    - inversion H; subst. reflexivity.
    - rewrite (IH H). reflexivity.
  Qed.

  Lemma alookup_None_notin : forall k l, alookup k l = None <-> ~ In k (map fst l).
  Proof.
    intros k l. induction l as [|[k0 v0] l IH]; simpl.
    - split; [intros _ [] | reflexivity].
    - destruct (key_eqb k k0) eqn:E.
      + split; [discriminate|]. intro H. exfalso. apply H. left. keq.
      + rewrite IH. split.
        * intros H [H1|H1]; [keq | contradiction].
        * intros H H1. apply H. right. assumption.
  Qed.

  Lemma alookup_Some_In : forall k v l, alookup k l = Some v -> In (k, v) l.
  Proof.
    intros k v l. induction l as [|[k0 v0] l IH]; simpl; intro H; [discriminate|].
    destruct (key_eqb k k0) eqn:E.
    - inversion H; subst. left. keq.
    - right. apply IH. assumption.
  Qed.

  Lemma alookup_In_nodup : forall k v l, NoDup (map fst l) -> In (k, v) l -> alookup k l = Some v.
  Proof.
    intros k v l. induction l as [|[k0 v0] l IH]; simpl; intros Hnd Hin; [contradiction|].
    inversion Hnd as [|? ? Hn Hd]; subst. destruct Hin as [Hin|Hin].
    - inversion Hin; subst. rewrite key_eqb_refl. reflexivity.
    - destruct (key_eqb k k0) eqn:E.
      + keq. exfalso. apply Hn. apply in_map_iff. exists (k0, v). split; [reflexivity | assumption].
      + apply IH; assumption.
  Qed.

  Lemma aset_notin : forall k v l, alookup k l = None -> aset k v l = l ++ [(k, v)].
  Proof.
    intros k v l. induction l as [|[k0 v0] l IH]; simpl; intro H; [reflexivity|].
    destruct (key_eqb k k0); [discriminate|]. rewrite (IH H). reflexivity.
  Qed.

  Lemma map_fst_aset : forall k v l,
    map fst (aset k v l) = match alookup k l with Some _ => map fst l | None => map fst l ++ [k] end.
  Proof.
    intros k v l. induction l as [|[k0 v0] l IH]; simpl; [reflexivity|].
    destruct (key_eqb k k0); simpl; [reflexivity|].
    rewrite IH. destruct (alookup k l); reflexivity.
  Qed.

  Lemma aset_nodup : forall k v l, NoDup (map fst l) -> NoDup (map fst (aset k v l)).
  Proof.
    intros k v l Hnd. rewrite map_fst_aset. destruct (alookup k l) eqn:E; [assumption|].
    apply alookup_None_notin in E.
    apply NoDup_rev in Hnd. rewrite <- (rev_involutive (map fst l ++ [k])).
    apply NoDup_rev. rewrite rev_app_distr. simpl. constructor; [|assumption].
    intro Hin. apply E. apply in_rev. assumption.
  Qed.

  Lemma aset_Forall : forall (P : key * V -> Prop) k v l,
    P (k, v) -> Forall P l -> Forall P (aset k v l).
  Proof.
    intros P k v l Hp. induction l as [|[k0 v0] l IH]; simpl; intro H.
    - constructor; [assumption | constructor].
    - inversion H as [|? ? H1 H2]; subst. destruct (key_eqb k k0) eqn:E.
      + keq. constructor; assumption.
      + constructor; [assumption | apply IH; assumption].
  Qed.

  Lemma alookup_adel_neq : forall k k' l, k <> k' -> alookup k (adel k' l) = alookup k l.
  Proof.
    intros k k' l Hne. induction l as [|[k0 v0] l IH]; simpl; [reflexivity|].
    destruct (key_eqb k' k0) eqn:E1; simpl.
    - destruct (key_eqb k k0) eqn:E2; [keq | reflexivity].
    - rewrite IH. reflexivity.
  Qed.

  Lemma adel_incl : forall k l x, In x (adel k l) -> In x l.
  Proof.
    intros k l x. induction l as [|[k0 v0] l IH]; simpl; [tauto|].
    destruct (key_eqb k k0); simpl; [tauto|]. intros [H|H]; [left; assumption | right; apply IH; assumption].
  Qed.

  Lemma adel_keys_incl : forall k l x, In x (map fst (adel k l)) -> In x (map fst l).
  Proof.
    intros k l x. induction l as [|[k0 v0] l IH]; simpl; [tauto|].
    destruct (key_eqb k k0); simpl; [tauto|]. intros [H|H]; [left; assumption | right; apply IH; assumption].
  Qed.

  Lemma adel_nodup : forall k l, NoDup (map fst l) -> NoDup (map fst (adel k l)).
  Proof.
    intros k l. induction l as [|[k0 v0] l IH]; simpl; intro H; [constructor|].
    inversion H as [|? ? Hn Hd]; subst. destruct (key_eqb k k0); [assumption|].
    simpl. constructor; [|apply IH; assumption]. intro Hin. apply Hn. apply (adel_keys_incl _ _ _ Hin).
  Qed.

  Lemma adel_Forall : forall (P : key * V -> Prop) k l, Forall P l -> Forall P (adel k l).
  Proof.
    intros P k l H. apply Forall_forall. intros x Hx. rewrite Forall_forall in H. apply H.
    apply (adel_incl _ _ _ Hx).
  Qed.

  Lemma aupdate_nodup : forall m l, NoDup (map fst l) -> NoDup (map fst (aupdate l m)).
  Proof.
    unfold aupdate. induction m as [|[k v] m IH]; simpl; intros l H; [assumption|].
    apply IH. apply aset_nodup. assumption.
  Qed.

  Lemma aupdate_Forall : forall (P : key * V -> Prop) m l, Forall P m -> Forall P l -> Forall P (aupdate l m).
  Proof.
    unfold aupdate. intros P. induction m as [|[k v] m IH]; simpl; intros l Hm Hl; [assumption|].
    inversion Hm as [|? ? H1 H2]; subst. apply IH; [assumption|]. apply aset_Forall; assumption.
  Qed.
End AssocLemmas.

(* ================================================================================================ *)
(* 4. ordinary / wf on dict nodes                                                                   *)
(* ================================================================================================ *)
Definition wf_kvs (d : list (key * tree)) : bool := wf (Dict d).
Definition wf_op (op : sdop) : bool :=
  match op with
  | OSet _ v | OSetdefault _ v => wf v
  | OUpdate m _ | OOr m _ | OMerge m _ | ORor m => wf (Dict m)
  | _ => true
  end.

Definition ordkv (kv : key * tree) : Prop := ordinary_key (fst kv) = true /\ ordinary (snd kv) = true.
Definition wfkv (kv : key * tree) : Prop := wf (snd kv) = true.

Lemma ordinary_Dict_iff : forall l, ordinary (Dict l) = true <-> Forall ordkv l.
Proof.
  induction l as [|[k c] l IH].
  - split; [constructor | reflexivity].
  - change (ordinary (Dict ((k, c) :: l))) with (ordinary_key k && ordinary c && ordinary (Dict l)).
    rewrite !andb_true_iff, IH. split.
    + intros [[H1 H2] H3]. constructor; [split; assumption | assumption].
    + intro H. inversion H as [|? ? [H1 H2] H3]; subst. auto.
Qed.

Lemma wf_go_forallb : forall l : list (key * tree),
  (fix go (l : list (key * tree)) : bool :=
     match l with [] => true | (_, t') :: l' => wf t' && go l' end) l = forallb (fun kv => wf (snd kv)) l.
Proof.
  induction l as [|[k c] l IH]; [reflexivity|]. simpl. rewrite IH. reflexivity.
Qed.

Lemma wf_Dict_iff : forall l, wf (Dict l) = true <-> NoDup (map fst l) /\ Forall wfkv l.
Proof.
  intro l.
  change (wf (Dict l)) with
    (keys_nodup (map fst l) &&
     (fix go (l : list (key * tree)) : bool :=
        match l with [] => true | (_, t') :: l' => wf t' && go l' end) l).
  rewrite wf_go_forallb, andb_true_iff, keys_nodup_iff, forallb_forall, Forall_forall. reflexivity.
Qed.

(* ================================================================================================ *)
(* 5. merge_spec as a fold                                                                          *)
(* ================================================================================================ *)
Definition mval (tv : option tree) (ov : tree) : tree :=
  match tv with Some t => merge_spec_tree t ov | None => ov end.
Definition mstep (tgt : list (key * tree)) (kv : key * tree) : list (key * tree) :=
  aset (fst kv) (mval (alookup (fst kv) tgt) (snd kv)) tgt.

Definition mgo : list (key * tree) -> list (key * tree) -> list (key * tree) :=
  fix go (o : list (key * tree)) (tgt : list (key * tree)) : list (key * tree) :=
    match o with
    | [] => tgt
    | (k, ov') :: o' =>
        go o' (match alookup k tgt with
               | Some tv' => match tv', ov' with
                             | Dict _, Dict _ => aset k (merge_spec_tree tv' ov') tgt
                             | _, _ => tgt
                             end
               | None => aset k ov' tgt
               end)
    end.

Lemma merge_spec_tree_nondict_l : forall tv ov, (forall a, tv <> Dict a) -> merge_spec_tree tv ov = tv.
Proof. intros [v|a|ts] ov H; try (destruct ov; reflexivity). exfalso. apply (H a). reflexivity. Qed.

Lemma merge_spec_tree_nondict_r : forall tv ov, (forall a, ov <> Dict a) -> merge_spec_tree tv ov = tv.
Proof. intros tv [v|a|ts] H; try (destruct tv; reflexivity). exfalso. apply (H a). reflexivity. Qed.

Lemma mgo_fold : forall o t, mgo o t = fold_left mstep o t.
Proof.
  induction o as [|[k ov] o IH]; intro t; [reflexivity|].
  simpl. rewrite IH. f_equal. unfold mstep. simpl.
  destruct (alookup k t) as [tv|] eqn:E; simpl; [|reflexivity].
  destruct tv as [v|a|ts]; try (symmetry; apply aset_same; destruct ov; exact E).
  destruct ov as [v|b|ts]; try (symmetry; apply aset_same; exact E).
  reflexivity.
Qed.

Lemma merge_spec_tree_dict : forall t o, merge_spec_tree (Dict t) (Dict o) = Dict (fold_left mstep o t).
Proof. intros t o. rewrite <- mgo_fold. reflexivity. Qed.

Lemma merge_spec_fold : forall t o, merge_spec t o = fold_left mstep o t.
Proof. intros t o. unfold merge_spec. rewrite merge_spec_tree_dict. reflexivity. Qed.

Lemma alookup_mstep_same : forall t k c, alookup k (mstep t (k, c)) = Some (mval (alookup k t) c).
Proof. intros t k c. unfold mstep. simpl. rewrite alookup_aset, key_eqb_refl. reflexivity. Qed.

Lemma alookup_mstep_other : forall t k k0 c, k <> k0 -> alookup k (mstep t (k0, c)) = alookup k t.
Proof.
  intros t k k0 c Hne. unfold mstep. simpl. rewrite alookup_aset.
  destruct (key_eqb k k0) eqn:E; [keq | reflexivity].
Qed.

Lemma fold_mstep_lookup_notin : forall o t k, ~ In k (map fst o) ->
  alookup k (fold_left mstep o t) = alookup k t.
Proof.
  induction o as [|[k0 c0] o IH]; intros t k Hn; simpl; [reflexivity|].
  simpl in Hn. rewrite IH by tauto. apply alookup_mstep_other. intro E. apply Hn. left. congruence.
Qed.

Lemma fold_mstep_lookup_in : forall o t k c, NoDup (map fst o) -> In (k, c) o ->
  alookup k (fold_left mstep o t) = Some (mval (alookup k t) c).
Proof.
  induction o as [|[k0 c0] o IH]; intros t k c Hnd Hin; simpl; [contradiction|].
  simpl in Hnd. inversion Hnd as [|? ? Hn Hd]; subst. destruct Hin as [Hin|Hin].
  - inversion Hin; subst. rewrite fold_mstep_lookup_notin by assumption. apply alookup_mstep_same.
  - rewrite (IH _ _ _ Hd Hin). rewrite alookup_mstep_other; [reflexivity|].
    intro E. subst. apply Hn. apply in_map_iff. exists (k0, c). split; [reflexivity | assumption].
Qed.

(* ---- order -------------------------------------------------------------------------------------- *)
Lemma fold_mstep_keys : forall o t, exists added, map fst (fold_left mstep o t) = map fst t ++ added.
Proof.
  induction o as [|[k c] o IH]; intro t; simpl.
  - exists []. rewrite app_nil_r. reflexivity.
  - destruct (IH (mstep t (k, c))) as [added Ha]. rewrite Ha. unfold mstep. simpl. rewrite map_fst_aset.
    destruct (alookup k t).
    + exists added. reflexivity.
    + exists (k :: added). rewrite <- app_assoc. reflexivity.
Qed.

Lemma merge_keeps_order : forall target other,
  exists added, map fst (merge_spec target other) = map fst target ++ added.
Proof. intros target other. rewrite merge_spec_fold. apply fold_mstep_keys. Qed.

(* ---- leaves are kept ---------------------------------------------------------------------------- *)
Lemma merge_tree_keeps_leaves : forall ov tv p v,
  get_dpath tv p = Some (Leaf v) -> get_dpath (merge_spec_tree tv ov) p = Some (Leaf v).
Proof.
  induction ov as [v0|osub IH|ts _] using tree_ind'; intros tv p v H.
  - rewrite merge_spec_tree_nondict_r; [assumption | intros a; discriminate].
  - destruct tv as [v1|tsub|ts1]; try (rewrite merge_spec_tree_nondict_l; [assumption | intros a; discriminate]).
    rewrite merge_spec_tree_dict. destruct p as [|k p']; [simpl in H; discriminate|].
    revert tsub H. induction IH as [|[k0 c0] o Hc Ho IHo]; intros tsub H; simpl; [assumption|].
    apply IHo. simpl in *. destruct (key_eqb k k0) eqn:E.
    + keq. rewrite alookup_mstep_same. destruct (alookup k0 tsub) as [c|]; [|discriminate].
      simpl. apply Hc. assumption.
    + apply key_eqb_neq in E. rewrite alookup_mstep_other by assumption. assumption.
  - rewrite merge_spec_tree_nondict_r; [assumption | intros a; discriminate].
Qed.

Lemma merge_keeps_leaves : forall target other p v,
  get_dpath (Dict target) p = Some (Leaf v) -> get_dpath (Dict (merge_spec target other)) p = Some (Leaf v).
Proof.
  intros target other p v H. unfold merge_spec.
  pose proof (merge_tree_keeps_leaves (Dict other) (Dict target) p v H) as H1.
  rewrite merge_spec_tree_dict in *. exact H1.
Qed.

(* ---- paths of other are added, unless an existing non-dict entry of target blocks them ---------- *)
Lemma merge_tree_adds_paths : forall ov, wf ov = true -> forall tv p x,
  get_dpath ov p = Some x ->
  (exists y, get_dpath (merge_spec_tree tv ov) p = Some y) \/
  (exists r t, strict_prefix r p /\ get_dpath tv r = Some t /\ (forall kvs, t <> Dict kvs)).
Proof.
  induction ov as [v0|osub IH|ts _] using tree_ind'; intros Hwf tv p x H.
  - destruct p; [|discriminate]. left. simpl. eauto.
  - destruct p as [|k p']; [left; simpl; eauto|].
    simpl in H. destruct (alookup k osub) as [c|] eqn:Ek; [|discriminate].
    apply wf_Dict_iff in Hwf. destruct Hwf as [Hnd Hwfs].
    pose proof (alookup_Some_In _ _ _ Ek) as Hin.
    destruct tv as [v1|tsub|ts1].
    + right. exists [], (Leaf v1). split; [exists k, p'; reflexivity|]. split; [reflexivity | intros; discriminate].
    + rewrite merge_spec_tree_dict. simpl.
      rewrite (fold_mstep_lookup_in _ _ _ _ Hnd Hin).
      destruct (alookup k tsub) as [tv'|] eqn:Et; simpl.
      * rewrite Forall_forall in IH, Hwfs.
        destruct (IH _ Hin (Hwfs _ Hin) tv' p' x H) as [Hl|[r [t [[k1 [p1 Hp]] [Hg Hnd']]]]].
        -- left. exact Hl.
        -- right. exists (k :: r), t. split; [exists k1, p1; simpl; rewrite Hp; reflexivity|].
           split; [simpl; rewrite Et; exact Hg | exact Hnd'].
      * left. eauto.
    + right. exists [], (Lst ts1). split; [exists k, p'; reflexivity|]. split; [reflexivity | intros; discriminate].
  - destruct p; [|discriminate]. left. simpl. eauto.
Qed.

Lemma merge_adds_paths : forall target other p x, wf (Dict other) = true ->
  get_dpath (Dict other) p = Some x ->
  (exists y, get_dpath (Dict (merge_spec target other)) p = Some y) \/
  (exists r t, strict_prefix r p /\ r <> [] /\ get_dpath (Dict target) r = Some t /\ (forall kvs, t <> Dict kvs)).
Proof.
  intros target other p x Hwf H.
  destruct (merge_tree_adds_paths (Dict other) Hwf (Dict target) p x H) as [Hl|[r [t [Hp [Hg Hnd]]]]].
  - left. unfold merge_spec. rewrite merge_spec_tree_dict in *. exact Hl.
  - right. exists r, t. split; [exact Hp|]. split; [|split; assumption].
    intro E. subst r. simpl in Hg. inversion Hg; subst. apply (Hnd target). reflexivity.
Qed.

(* the unconditional key-level form *)
Lemma merge_adds_keys : forall target other k x,
  alookup k other = Some x -> exists y, alookup k (merge_spec target other) = Some y.
Proof.
  intros target other k x H. rewrite merge_spec_fold. revert target x H.
  induction other as [|[k0 c0] o IH]; intros t x H; simpl in *; [discriminate|].
  destruct (key_eqb k k0) eqn:E.
  - keq. destruct (alookup k0 o) as [x'|] eqn:Eo.
    + apply (IH _ x' eq_refl).
    + apply alookup_None_notin in Eo. rewrite fold_mstep_lookup_notin by assumption.
      rewrite alookup_mstep_same. eauto.
  - apply (IH _ x). assumption.
Qed.

(* ---- idempotence -------------------------------------------------------------------------------- *)
Lemma fold_mstep_fresh : forall o t, NoDup (map fst o) -> (forall k, In k (map fst o) -> alookup k t = None) ->
  fold_left mstep o t = t ++ o.
Proof.
  induction o as [|[k c] o IH]; intros t Hnd Hf; simpl; [rewrite app_nil_r; reflexivity|].
  simpl in Hnd. inversion Hnd as [|? ? Hn Hd]; subst.
  assert (Hk : alookup k t = None) by (apply Hf; left; reflexivity).
  assert (Hs : mstep t (k, c) = t ++ [(k, c)]).
  { unfold mstep. simpl. rewrite Hk. simpl. apply aset_notin. assumption. }
  rewrite Hs, IH; [rewrite <- app_assoc; reflexivity | assumption |].
  intros k1 Hk1. rewrite <- Hs. rewrite alookup_mstep_other; [apply Hf; right; assumption|].
  intro E. subst. contradiction.
Qed.

Lemma merge_nil_l : forall o, NoDup (map fst o) -> merge_spec_tree (Dict []) (Dict o) = Dict o.
Proof.
  intros o Hnd. rewrite merge_spec_tree_dict. rewrite fold_mstep_fresh; [reflexivity | assumption | reflexivity].
Qed.

Lemma merge_tree_idempotent : forall ov, wf ov = true -> forall tv,
  merge_spec_tree (merge_spec_tree tv ov) ov = merge_spec_tree tv ov.
Proof.
  induction ov as [v0|osub IH|ts _] using tree_ind'; intros Hwf tv.
  - rewrite !merge_spec_tree_nondict_r; try reflexivity; intros a; discriminate.
  - destruct tv as [v1|tsub|ts1]; try reflexivity.
    rewrite !merge_spec_tree_dict. f_equal.
    apply wf_Dict_iff in Hwf. destruct Hwf as [Hnd Hwfs].
    set (R := fold_left mstep osub tsub).
    assert (HR : forall k c, In (k, c) osub -> alookup k R = Some (mval (alookup k tsub) c)).
    { intros k c Hin. apply fold_mstep_lookup_in; assumption. }
    (* every step of the second pass is the identity on R *)
    assert (Hstep : forall kv, In kv osub -> mstep R kv = R).
    { intros [k c] Hin. unfold mstep. simpl. rewrite (HR _ _ Hin). simpl.
      rewrite Forall_forall in IH, Hwfs. pose proof (IH _ Hin (Hwfs _ Hin)) as IHc. simpl in IHc.
      assert (Hm : merge_spec_tree (mval (alookup k tsub) c) c = mval (alookup k tsub) c).
      { destruct (alookup k tsub) as [tv'|]; simpl; [apply IHc|].
        destruct c as [v|sub|ts]; try reflexivity.
        assert (Hs : NoDup (map fst sub)).
        { pose proof (Hwfs _ Hin) as Hw. unfold wfkv in Hw. simpl in Hw. apply wf_Dict_iff in Hw. tauto. }
        pose proof (IHc (Dict [])) as Hi. rewrite (merge_nil_l sub Hs) in Hi. exact Hi. }
      rewrite Hm. apply aset_same. apply HR. assumption. }
    clearbody R. clear HR.
    assert (Hgen : forall o, (forall kv, In kv o -> In kv osub) -> fold_left mstep o R = R).
    { induction o as [|kv o IHo]; intros Hsub; simpl; [reflexivity|].
      rewrite Hstep by (apply Hsub; left; reflexivity). apply IHo. intros kv' H'. apply Hsub. right. assumption. }
    apply Hgen. auto.
  - rewrite !merge_spec_tree_nondict_r; try reflexivity; intros a; discriminate.
Qed.

Lemma merge_idempotent : forall target other, wf (Dict other) = true ->
  merge_spec (merge_spec target other) other = merge_spec target other.
Proof.
  intros target other Hwf. rewrite !merge_spec_fold.
  pose proof (merge_tree_idempotent (Dict other) Hwf (Dict target)) as H.
  rewrite !merge_spec_tree_dict in H. injection H as H1. exact H1.
Qed.

(* ================================================================================================ *)
(* 6. ordinary and wf are preserved by the dict operations and by merge                             *)
(* ================================================================================================ *)
Lemma Forall_alookup : forall (P : key * tree -> Prop) l k v, Forall P l -> alookup k l = Some v -> P (k, v).
Proof.
  intros P l k v H E. rewrite Forall_forall in H. apply H. apply alookup_Some_In. assumption.
Qed.

Lemma merge_tree_ordinary : forall ov tv, ordinary tv = true -> ordinary ov = true ->
  ordinary (merge_spec_tree tv ov) = true.
Proof.
  induction ov as [v0|osub IH|ts _] using tree_ind'; intros tv Ht Ho.
  - rewrite merge_spec_tree_nondict_r; [assumption | intros a; discriminate].
  - destruct tv as [v1|tsub|ts1]; try (rewrite merge_spec_tree_nondict_l; [assumption | intros a; discriminate]).
    rewrite merge_spec_tree_dict. apply ordinary_Dict_iff. apply ordinary_Dict_iff in Ht, Ho.
    revert tsub Ht. induction IH as [|[k c] o Hc _ IHo]; intros tsub Ht; simpl; [assumption|].
    inversion Ho as [|? ? [Hk Hoc] Ho']; subst. simpl in *.
    apply IHo; [assumption|]. unfold mstep. simpl. apply aset_Forall; [|assumption].
    split; simpl; [assumption|].
    destruct (alookup k tsub) as [tv'|] eqn:E; simpl; [|assumption].
    apply Hc; [|assumption]. apply (Forall_alookup _ _ _ _ Ht E).
  - rewrite merge_spec_tree_nondict_r; [assumption | intros a; discriminate].
Qed.

Lemma merge_tree_wf : forall ov tv, wf tv = true -> wf ov = true -> wf (merge_spec_tree tv ov) = true.
Proof.
  induction ov as [v0|osub IH|ts _] using tree_ind'; intros tv Ht Ho.
  - rewrite merge_spec_tree_nondict_r; [assumption | intros a; discriminate].
  - destruct tv as [v1|tsub|ts1]; try (rewrite merge_spec_tree_nondict_l; [assumption | intros a; discriminate]).
    rewrite merge_spec_tree_dict. apply wf_Dict_iff. apply wf_Dict_iff in Ht, Ho.
    destruct Ho as [_ Ho]. revert tsub Ht.
    induction IH as [|[k c] o Hc _ IHo]; intros tsub Ht; simpl; [assumption|].
    inversion Ho as [|? ? Hoc Ho']; subst. unfold wfkv in Hoc. simpl in *.
    apply IHo; [assumption|]. destruct Ht as [Hnd Hf]. unfold mstep. simpl. split.
    + apply aset_nodup. assumption.
    + apply aset_Forall; [|assumption]. unfold wfkv. simpl.
      destruct (alookup k tsub) as [tv'|] eqn:E; simpl; [|assumption].
      apply Hc; [|assumption]. apply (Forall_alookup _ _ _ _ Hf E).
  - rewrite merge_spec_tree_nondict_r; [assumption | intros a; discriminate].
Qed.

Lemma merge_spec_ordinary : forall t o, ordinary (Dict t) = true -> ordinary (Dict o) = true ->
  ordinary (Dict (merge_spec t o)) = true.
Proof.
  intros t o Ht Ho. pose proof (merge_tree_ordinary (Dict o) (Dict t) Ht Ho) as H.
  unfold merge_spec. destruct (merge_spec_tree (Dict t) (Dict o)) eqn:E; rewrite merge_spec_tree_dict in E;
    try discriminate. simpl. exact H.
Qed.

Lemma merge_spec_wf : forall t o, wf (Dict t) = true -> wf (Dict o) = true -> wf (Dict (merge_spec t o)) = true.
Proof.
  intros t o Ht Ho. pose proof (merge_tree_wf (Dict o) (Dict t) Ht Ho) as H.
  unfold merge_spec. destruct (merge_spec_tree (Dict t) (Dict o)) eqn:E; rewrite merge_spec_tree_dict in E;
    try discriminate. simpl. exact H.
Qed.

Lemma aset_ordinary : forall k v d, ordinary_key k = true -> ordinary v = true -> ordinary (Dict d) = true ->
  ordinary (Dict (aset k v d)) = true.
Proof.
  intros k v d Hk Hv Hd. apply ordinary_Dict_iff. apply ordinary_Dict_iff in Hd.
  apply aset_Forall; [split; assumption | assumption].
Qed.

Lemma aset_wf : forall k v d, wf v = true -> wf (Dict d) = true -> wf (Dict (aset k v d)) = true.
Proof.
  intros k v d Hv Hd. apply wf_Dict_iff. apply wf_Dict_iff in Hd. destruct Hd as [H1 H2].
  split; [apply aset_nodup; assumption | apply aset_Forall; assumption].
Qed.

Lemma adel_ordinary : forall k d, ordinary (Dict d) = true -> ordinary (Dict (adel k d)) = true.
Proof.
  intros k d Hd. apply ordinary_Dict_iff. apply ordinary_Dict_iff in Hd. apply adel_Forall. assumption.
Qed.

Lemma adel_wf : forall k d, wf (Dict d) = true -> wf (Dict (adel k d)) = true.
Proof.
  intros k d Hd. apply wf_Dict_iff. apply wf_Dict_iff in Hd. destruct Hd as [H1 H2].
  split; [apply adel_nodup; assumption | apply adel_Forall; assumption].
Qed.

Lemma aupdate_ordinary : forall d m, ordinary (Dict d) = true -> ordinary (Dict m) = true ->
  ordinary (Dict (aupdate d m)) = true.
Proof.
  intros d m Hd Hm. apply ordinary_Dict_iff. apply ordinary_Dict_iff in Hd, Hm. apply aupdate_Forall; assumption.
Qed.

Lemma aupdate_wf : forall d m, wf (Dict d) = true -> wf (Dict m) = true -> wf (Dict (aupdate d m)) = true.
Proof.
  intros d m Hd Hm. apply wf_Dict_iff. apply wf_Dict_iff in Hd, Hm. destruct Hd as [H1 H2]. destruct Hm as [_ H3].
  split; [apply aupdate_nodup; assumption | apply aupdate_Forall; assumption].
Qed.

(* ================================================================================================ *)
(* 7. the fuelled model merge is the specification merge                                            *)
(* ================================================================================================ *)
Lemma depth_child : forall (o : list (key * tree)) kv, In kv o ->
  (depth (snd kv) <= fold_right (fun kv m => Nat.max (depth (snd kv)) m) 0%nat o)%nat.
Proof.
  induction o as [|kv0 o IH]; intros kv Hin; simpl in *; [contradiction|].
  destruct Hin as [Hin|Hin]; [subst; lia|]. specialize (IH _ Hin). lia.
Qed.

Lemma fold_left_ext_in : forall (A B : Type) (f g : A -> B -> A) l a,
  (forall a x, In x l -> f a x = g a x) -> fold_left f l a = fold_left g l a.
Proof.
  intros A B f g. induction l as [|x l IH]; intros a H; simpl; [reflexivity|].
  rewrite H by (left; reflexivity). apply IH. intros a' x' Hin. apply H. right. assumption.
Qed.

Lemma merge_kvs_none : forall f other target, (depth (Dict other) <= f)%nat ->
  merge_kvs f None target other = fold_left mstep other target.
Proof.
  induction f as [|f IH]; intros other target Hd; [simpl in Hd; lia|].
  simpl merge_kvs. apply fold_left_ext_in. intros tgt [k ov] Hin.
  pose proof (depth_child _ _ Hin) as Hc. simpl in Hc, Hd.
  unfold mstep. simpl fst. simpl snd.
  destruct (alookup k tgt) as [tv|] eqn:E; [|reflexivity]. simpl mval.
  destruct tv as [v|tsub|ts]; try (symmetry; apply aset_same; destruct ov; exact E).
  destruct ov as [v|osub|ts]; try (symmetry; apply aset_same; exact E).
  rewrite IH by lia. rewrite merge_spec_tree_dict. reflexivity.
Qed.

(* ---- nothing is circular on ordinary data ------------------------------------------------------- *)
Lemma refers_to_dollar : forall name s, has_char c_dollar s = false -> refers_to name s = false.
Proof.
  intros name s. induction s as [|c s IH]; intro H; [reflexivity|].
  change (has_char c_dollar (c :: s)) with (N.eqb c_dollar c || has_char c_dollar s) in H.
  apply orb_false_iff in H. destruct H as [H1 H2].
  change (refers_to name (c :: s)) with
    ((N.eqb c c_dollar && starts_with name s &&
      match drop_n (length name) s with d :: _ => negb (is_word d) | [] => true end) || refers_to name s).
  rewrite (IH H2), N.eqb_sym, H1. reflexivity.
Qed.

Lemma circular_ordinary : forall k tv exprs, ordinary_key k = true -> ordinary tv = true ->
  circular k (insert_expression tv exprs) = false.
Proof.
  intros k tv exprs Hk Ht. destruct tv as [v|d|ts]; try (destruct k; reflexivity).
  destruct v as [z|l|b| |t]; try (destruct k; reflexivity).
  simpl in Ht. apply andb_true_iff in Ht. destruct Ht as [H1 H2].
  apply negb_true_iff in H1, H2.
  unfold insert_expression. rewrite H2.
  destruct k as [z|name]; [reflexivity|].
  unfold ordinary_key in Hk. apply andb_true_iff in Hk. destruct Hk as [_ Hk]. apply negb_true_iff in Hk.
  unfold circular. rewrite Hk, (refers_to_dollar _ _ H1), !andb_false_r. reflexivity.
Qed.

Lemma merge_kvs_top : forall f exprs other target,
  ordinary (Dict target) = true -> ordinary (Dict other) = true ->
  Forall (fun kv => (depth (snd kv) <= f)%nat) other ->
  merge_kvs (S f) (Some exprs) target other = fold_left mstep other target.
Proof.
  intros f exprs other. simpl merge_kvs.
  induction other as [|[k ov] o IH]; intros target Ht Ho Hd; [reflexivity|].
  inversion Hd as [|? ? Hd1 Hd2]; subst. simpl in Hd1.
  pose proof Ho as Ho'. apply ordinary_Dict_iff in Ho'. inversion Ho' as [|? ? [Hk Hov] Ho2]; subst. simpl in Hk, Hov.
  apply ordinary_Dict_iff in Ho2.
  simpl fold_left.
  assert (Hs : match alookup k target, ov with
               | Some (Dict tsub), Dict osub => aset k (Dict (merge_kvs f None tsub osub)) target
               | Some tv, _ => if circular k (insert_expression tv exprs) then aset k ov target else target
               | None, _ => aset k ov target
               end = mstep target (k, ov)).
  { unfold mstep. simpl fst. simpl snd.
    destruct (alookup k target) as [tv|] eqn:E; [|reflexivity]. simpl mval.
    assert (Htv : ordinary tv = true).
    { apply ordinary_Dict_iff in Ht. apply (Forall_alookup _ _ _ _ Ht E). }
    pose proof (circular_ordinary k tv exprs Hk Htv) as Hc.
    destruct tv as [v|tsub|ts]; try (rewrite Hc; symmetry; apply aset_same; destruct ov; exact E).
    destruct ov as [v|osub|ts]; try (rewrite Hc; symmetry; apply aset_same; exact E).
    rewrite merge_kvs_none by exact Hd1. rewrite merge_spec_tree_dict. reflexivity. }
  rewrite Hs. apply IH; try assumption.
  unfold mstep. simpl fst. simpl snd. apply aset_ordinary; try assumption.
  destruct (alookup k target) as [tv|] eqn:E; simpl; [|assumption].
  apply merge_tree_ordinary; [|assumption].
  apply ordinary_Dict_iff in Ht. apply (Forall_alookup _ _ _ _ Ht E).
Qed.

Lemma merge_kvs_is_spec : forall exprs target other,
  ordinary (Dict target) = true -> ordinary (Dict other) = true ->
  merge_kvs (S (depth (Dict other))) (Some exprs) target other = merge_spec target other.
Proof.
  intros exprs target other Ht Ho. rewrite merge_spec_fold. apply merge_kvs_top; try assumption.
  apply Forall_forall. intros kv Hin. pose proof (depth_child _ _ Hin) as H. simpl. lia.
Qed.

(* ================================================================================================ *)
(* 8. clean-up                                                                                      *)
(* ================================================================================================ *)
Section CleanKindLemmas.
  Context {V : Type} (veqb : V -> V -> bool).

  Lemma clean_kind_lookup : forall keys data (tab : list (N * V)) seen k, ~ In k keys ->
    alookup k (fst (clean_kind veqb keys data tab seen)) = alookup k data.
  Proof.
    induction keys as [|k0 keys IH]; intros data tab seen k Hn; simpl; [reflexivity|].
    assert (Hne : k <> k0) by (intro E; apply Hn; left; congruence).
    assert (Hn' : ~ In k keys) by (intro E; apply Hn; right; assumption).
    destruct (key_id k0) as [i|]; [|apply IH; assumption].
    destruct (tlookup i tab) as [v|]; [|apply IH; assumption].
    destruct (existsb (veqb v) seen); rewrite IH by assumption; [|reflexivity].
    apply alookup_adel_neq. assumption.
  Qed.

  Lemma clean_kind_nodup : forall keys data (tab : list (N * V)) seen, NoDup (map fst data) ->
    NoDup (map fst (fst (clean_kind veqb keys data tab seen))).
  Proof.
    induction keys as [|k0 keys IH]; intros data tab seen Hnd; simpl; [assumption|].
    destruct (key_id k0) as [i|]; [|apply IH; assumption].
    destruct (tlookup i tab) as [v|]; [|apply IH; assumption].
    destruct (existsb (veqb v) seen); apply IH; [apply adel_nodup|]; assumption.
  Qed.
End CleanKindLemmas.

Lemma keys_of_kind_not_ordinary : forall kd data k, In k (keys_of_kind kd data) -> ordinary_key k = false.
Proof.
  intros kd data k H. unfold keys_of_kind in H. apply filter_In in H. destruct H as [_ H].
  unfold ordinary_key. destruct (ph_kind_of k); [reflexivity | discriminate].
Qed.

Lemma keys_of_kind_In : forall kd data k, In k (keys_of_kind kd data) -> In k (map fst data).
Proof. intros kd data k H. unfold keys_of_kind in H. apply filter_In in H. tauto. Qed.

Lemma clean_level_fst : forall data s,
  fst (clean_level data s) =
  let d1 := fst (clean_kind str_eqb (keys_of_kind PhBlock data) data (sd_bc s) []) in
  let d2 := fst (clean_kind inc_eqb (keys_of_kind PhInclude data) d1 (sd_inc s) []) in
  fst (clean_kind str_eqb (keys_of_kind PhLine data) d2 (sd_lc s) []).
Proof.
  intros data s. unfold clean_level.
  destruct (clean_kind str_eqb (keys_of_kind PhBlock data) data (sd_bc s) []) as [d1 bc].
  cbn [fst]. destruct (clean_kind inc_eqb (keys_of_kind PhInclude data) d1 (sd_inc s) []) as [d2 inc].
  cbn [fst]. destruct (clean_kind str_eqb (keys_of_kind PhLine data) d2 (sd_lc s) []) as [d3 lc].
  reflexivity.
Qed.

Lemma clean_level_lookup : forall data s k, ordinary_key k = true ->
  alookup k (fst (clean_level data s)) = alookup k data.
Proof.
  intros data s k Hk. rewrite clean_level_fst. cbv zeta.
  assert (Hn : forall kd, ~ In k (keys_of_kind kd data)).
  { intros kd Hin. apply keys_of_kind_not_ordinary in Hin. congruence. }
  rewrite !clean_kind_lookup by apply Hn. reflexivity.
Qed.

Lemma clean_level_nodup : forall data s, NoDup (map fst data) -> NoDup (map fst (fst (clean_level data s))).
Proof.
  intros data s H. rewrite clean_level_fst. cbv zeta. repeat apply clean_kind_nodup. assumption.
Qed.

Lemma keys_of_kind_ordinary : forall kd data, Forall ordkv data -> keys_of_kind kd data = [].
Proof.
  intros kd data H. destruct (keys_of_kind kd data) as [|k l] eqn:E; [reflexivity|]. exfalso.
  assert (Hin : In k (keys_of_kind kd data)) by (rewrite E; left; reflexivity).
  pose proof (keys_of_kind_not_ordinary _ _ _ Hin) as H1.
  apply keys_of_kind_In in Hin. apply in_map_iff in Hin. destruct Hin as [[k' v] [Hf Hin]]. simpl in Hf. subst k'.
  rewrite Forall_forall in H. destruct (H _ Hin) as [H2 _]. simpl in H2. congruence.
Qed.

Lemma clean_level_ordinary : forall data s, Forall ordkv data -> fst (clean_level data s) = data.
Proof.
  intros data s H. rewrite clean_level_fst. rewrite !keys_of_kind_ordinary by assumption. reflexivity.
Qed.

(* one step of the fold of clean_tree *)
Definition cstep (f : nat) (acc : list (key * tree) * sdict) (kv : key * tree) : list (key * tree) * sdict :=
  let '(dacc, sacc) := acc in
  match snd kv with
  | Dict sub => let '(sub', s') := clean_tree f sub sacc in (aset (fst kv) (Dict sub') dacc, s')
  | _ => acc
  end.

Lemma clean_tree_S : forall f data s,
  clean_tree (S f) data s = fold_left (cstep f) (fst (clean_level data s)) (clean_level data s).
Proof.
  intros f data s. simpl. destruct (clean_level data s) as [d s1]. reflexivity.
Qed.

Lemma cstep_fst : forall f dacc sacc k v,
  fst (cstep f (dacc, sacc) (k, v)) =
  match v with Dict sub => aset k (Dict (fst (clean_tree f sub sacc))) dacc | _ => dacc end.
Proof.
  intros f dacc sacc k v. unfold cstep. cbn [fst snd]. destruct v as [x|sub|ts]; try reflexivity.
  destruct (clean_tree f sub sacc) as [sub' s']. reflexivity.
Qed.

(* clean-up is the identity on ordinary, well formed data *)
Lemma clean_tree_id : forall fuel data s, ordinary (Dict data) = true -> wf (Dict data) = true ->
  fst (clean_tree fuel data s) = data.
Proof.
  induction fuel as [|f IH]; intros data s Ho Hw; [reflexivity|].
  rewrite clean_tree_S. apply ordinary_Dict_iff in Ho. apply wf_Dict_iff in Hw. destruct Hw as [Hnd Hw].
  pose proof (clean_level_ordinary data s Ho) as Hl.
  destruct (clean_level data s) as [d s1]. cbn [fst] in *. subst d.
  assert (Hgen : forall l sacc, (forall kv, In kv l -> In kv data) ->
                                fst (fold_left (cstep f) l (data, sacc)) = data).
  { induction l as [|[k v] l IHl]; intros sacc Hsub; [reflexivity|].
    change (fold_left (cstep f) ((k, v) :: l) (data, sacc))
      with (fold_left (cstep f) l (cstep f (data, sacc) (k, v))).
    pose proof (cstep_fst f data sacc k v) as Hc.
    destruct (cstep f (data, sacc) (k, v)) as [d' s']. cbn [fst] in Hc.
    assert (Hin : In (k, v) data) by (apply Hsub; left; reflexivity).
    assert (Hd : d' = data).
    { rewrite Hc. destruct v as [x|sub|ts]; try reflexivity.
      rewrite Forall_forall in Ho, Hw. destruct (Ho _ Hin) as [_ Hos]. pose proof (Hw _ Hin) as Hws.
      unfold wfkv in Hws. simpl in Hos, Hws. rewrite (IH sub sacc Hos Hws).
      apply aset_same. apply alookup_In_nodup; assumption. }
    rewrite Hd. apply IHl. intros kv H'. apply Hsub. right. assumption. }
  apply Hgen. auto.
Qed.

Lemma sd_clean_data_fst : forall s,
  sd_data (sd_clean s) = fst (clean_tree (S (depth (Dict (sd_data s)))) (sd_data s) s).
Proof.
  intro s. unfold sd_clean. destruct (clean_tree (S (depth (Dict (sd_data s)))) (sd_data s) s) as [d s'].
  reflexivity.
Qed.

Lemma sd_clean_data : forall s, ordinary (Dict (sd_data s)) = true -> wf (Dict (sd_data s)) = true ->
  sd_data (sd_clean s) = sd_data s.
Proof. intros s Ho Hw. rewrite sd_clean_data_fst. apply clean_tree_id; assumption. Qed.

(* general data: what the nested pass does to the top level bindings *)
Lemma fold_cstep_lookup : forall f l dacc sacc k, NoDup (map fst l) ->
  match alookup k l with
  | Some (Dict _) => exists sub', alookup k (fst (fold_left (cstep f) l (dacc, sacc))) = Some (Dict sub')
  | _ => alookup k (fst (fold_left (cstep f) l (dacc, sacc))) = alookup k dacc
  end.
Proof.
  intros f. induction l as [|[k0 v0] l IH]; intros dacc sacc k Hnd; [reflexivity|].
  simpl in Hnd. inversion Hnd as [|? ? Hn Hd]; subst.
  change (fold_left (cstep f) ((k0, v0) :: l) (dacc, sacc))
    with (fold_left (cstep f) l (cstep f (dacc, sacc) (k0, v0))).
  pose proof (cstep_fst f dacc sacc k0 v0) as Hc.
  destruct (cstep f (dacc, sacc) (k0, v0)) as [d' s']. cbn [fst] in Hc.
  specialize (IH d' s' k Hd). simpl alookup. destruct (key_eqb k k0) eqn:E.
  - apply key_eqb_eq in E. subst k.
    assert (Hl : alookup k0 l = None) by (apply alookup_None_notin; assumption).
    rewrite Hl in IH. rewrite IH, Hc.
    destruct v0 as [x|sub|ts]; try reflexivity.
    eexists. rewrite alookup_aset, key_eqb_refl. reflexivity.
  - apply key_eqb_neq in E.
    assert (Hd' : alookup k d' = alookup k dacc).
    { rewrite Hc. destruct v0 as [x|sub|ts]; try reflexivity.
      rewrite alookup_aset. destruct (key_eqb k k0) eqn:E'; [|reflexivity].
      apply key_eqb_eq in E'. contradiction. }
    rewrite <- Hd'. exact IH.
Qed.

Lemma clean_keeps_ordinary_keys : forall s k, ordinary_key k = true -> wf (Dict (sd_data s)) = true ->
  alookup k (sd_data (sd_clean s)) = alookup k (sd_data s) \/
  exists sub sub', alookup k (sd_data s) = Some (Dict sub) /\ alookup k (sd_data (sd_clean s)) = Some (Dict sub').
Proof.
  intros s k Hk Hw. apply wf_Dict_iff in Hw. destruct Hw as [Hnd _].
  rewrite sd_clean_data_fst, clean_tree_S.
  pose proof (clean_level_lookup (sd_data s) s k Hk) as Hl.
  pose proof (clean_level_nodup (sd_data s) s Hnd) as Hn.
  destruct (clean_level (sd_data s) s) as [d s1]. cbn [fst] in *.
  pose proof (fold_cstep_lookup (depth (Dict (sd_data s))) d d s1 k Hn) as H.
  rewrite Hl in H. destruct (alookup k (sd_data s)) as [[x|sub|ts]|] eqn:E.
  - left. exact H.
  - right. destruct H as [sub' H]. exists sub, sub'. split; [reflexivity | exact H].
  - left. exact H.
  - left. exact H.
Qed.

(* ================================================================================================ *)
(* 9. the API refines the builtin dict specification                                                *)
(* ================================================================================================ *)
Lemma sd_data_post_update : forall s o, sd_data (post_update s o) = sd_data s.
Proof. intros s [o|]; reflexivity. Qed.

Lemma sd_merge_is_spec : forall s m o, ordinary_kvs (sd_data s) = true -> ordinary_kvs m = true ->
  wf (Dict (sd_data s)) = true -> wf (Dict m) = true ->
  sd_data (sd_merge s m o) = merge_spec (sd_data s) m.
Proof.
  intros s m o Hs Hm Hws Hwm. unfold ordinary_kvs in *. unfold sd_merge.
  rewrite (merge_kvs_is_spec (sd_expr s) (sd_data s) m Hs Hm).
  pose proof (merge_spec_ordinary _ _ Hs Hm) as Ho. pose proof (merge_spec_wf _ _ Hws Hwm) as Hw.
  destruct o as [o|]; rewrite sd_clean_data; simpl; try assumption; reflexivity.
Qed.

Lemma sd_update_data : forall s m o, ordinary (Dict (sd_data s)) = true -> ordinary (Dict m) = true ->
  wf (Dict (sd_data s)) = true -> wf (Dict m) = true ->
  sd_data (sd_update s m o) = aupdate (sd_data s) m.
Proof.
  intros s m o Hs Hm Hws Hwm. unfold sd_update.
  rewrite sd_clean_data; rewrite sd_data_post_update; simpl;
    [reflexivity | apply aupdate_ordinary; assumption | apply aupdate_wf; assumption].
Qed.

Lemma sd_or_data : forall s m o, ordinary (Dict (sd_data s)) = true -> ordinary (Dict m) = true ->
  wf (Dict (sd_data s)) = true -> wf (Dict m) = true ->
  sd_data (sd_or s m o) = aupdate (sd_data s) m.
Proof.
  intros s m o Hs Hm Hws Hwm. unfold sd_or.
  rewrite sd_clean_data; rewrite sd_data_post_update; simpl;
    [reflexivity | apply aupdate_ordinary; assumption | apply aupdate_wf; assumption].
Qed.

Lemma sd_ror_data : forall s m, ordinary (Dict (sd_data s)) = true -> ordinary (Dict m) = true ->
  wf (Dict (sd_data s)) = true -> wf (Dict m) = true ->
  sd_data (sd_ror m s) = aupdate m (sd_data s).
Proof.
  intros s m Hs Hm Hws Hwm. unfold sd_ror.
  rewrite sd_clean_data; rewrite sd_data_post_update; simpl;
    [reflexivity | apply aupdate_ordinary; assumption | apply aupdate_wf; assumption].
Qed.

Lemma sd_step_refines : forall s op, ordinary_kvs (sd_data s) = true -> ordinary_op op = true ->
  wf (Dict (sd_data s)) = true -> wf_op op = true ->
  match sd_step s op, py_step (sd_data s) op with
  | Ok s', Ok d' => sd_data s' = d'
  | Raise e, Raise e' => e = e'
  | _, _ => False
  end.
Proof.
  intros s op Hs Hop Hws Hwop. unfold ordinary_kvs in Hs.
  destruct op as [k v|k|m o|m o|m|k|k v| | | |m o]; simpl in Hop, Hwop; unfold ordinary_kvs in Hop;
    cbn [sd_step py_step].
  - reflexivity.
  - unfold sd_delitem. destruct (amem k (sd_data s)); reflexivity.
  - apply sd_update_data; assumption.
  - apply sd_or_data; assumption.
  - apply sd_ror_data; assumption.
  - unfold sd_delitem. destruct (amem k (sd_data s)); reflexivity.
  - unfold sd_setdefault. destruct (amem k (sd_data s)); reflexivity.
  - reflexivity.
  - apply sd_clean_data; assumption.
  - reflexivity.
  - apply sd_merge_is_spec; assumption.
Qed.

(* the specification step keeps data ordinary and well formed *)
Lemma py_step'_invariant : forall d op, ordinary (Dict d) = true -> ordinary_op op = true ->
  wf (Dict d) = true -> wf_op op = true ->
  ordinary (Dict (py_step' d op)) = true /\ wf (Dict (py_step' d op)) = true.
Proof.
  intros d op Hd Hop Hwd Hwop. unfold py_step'.
  destruct op as [k v|k|m o|m o|m|k|k v| | | |m o]; simpl in Hop, Hwop; unfold ordinary_kvs in Hop;
    cbn [py_step].
  - apply andb_true_iff in Hop. destruct Hop as [Hk Hv]. split; [apply aset_ordinary | apply aset_wf]; assumption.
  - destruct (amem k d); split; try assumption; [apply adel_ordinary | apply adel_wf]; assumption.
  - split; [apply aupdate_ordinary | apply aupdate_wf]; assumption.
  - split; [apply aupdate_ordinary | apply aupdate_wf]; assumption.
  - split; [apply aupdate_ordinary | apply aupdate_wf]; assumption.
  - destruct (amem k d); split; try assumption; [apply adel_ordinary | apply adel_wf]; assumption.
  - apply andb_true_iff in Hop. destruct Hop as [Hk Hv].
    destruct (amem k d); split; try assumption; [apply aset_ordinary | apply aset_wf]; assumption.
  - split; reflexivity.
  - split; assumption.
  - split; assumption.
  - split; [apply merge_spec_ordinary | apply merge_spec_wf]; assumption.
Qed.

Lemma sd_step'_data : forall s op, ordinary_kvs (sd_data s) = true -> ordinary_op op = true ->
  wf (Dict (sd_data s)) = true -> wf_op op = true ->
  sd_data (sd_step' s op) = py_step' (sd_data s) op.
Proof.
  intros s op Hs Hop Hws Hwop. pose proof (sd_step_refines s op Hs Hop Hws Hwop) as H.
  unfold sd_step', py_step'. destruct (sd_step s op) as [s'|e]; destruct (py_step (sd_data s) op) as [d'|e'];
    try contradiction; [exact H | reflexivity].
Qed.

Lemma sd_run_refines : forall ops s, ordinary_kvs (sd_data s) = true -> forallb ordinary_op ops = true ->
  wf (Dict (sd_data s)) = true -> forallb wf_op ops = true ->
  sd_data (sd_run s ops) = py_run (sd_data s) ops /\
  ordinary_kvs (sd_data (sd_run s ops)) = true /\
  wf (Dict (sd_data (sd_run s ops))) = true.
Proof.
  unfold sd_run, py_run. induction ops as [|op ops IH]; intros s Hs Hops Hws Hwops; simpl.
  - auto.
  - simpl in Hops, Hwops. apply andb_true_iff in Hops, Hwops.
    destruct Hops as [Hop Hops]. destruct Hwops as [Hwop Hwops].
    pose proof (sd_step'_data s op Hs Hop Hws Hwop) as Hd.
    destruct (py_step'_invariant (sd_data s) op Hs Hop Hws Hwop) as [Ho Hw].
    rewrite <- Hd in Ho, Hw. rewrite <- Hd. apply IH; assumption.
Qed.

(* ================================================================================================ *)
(* 10. why the well-formedness hypotheses are there (unique keys are a Python dict invariant that   *)
(*     `ordinary` alone does not give): concrete failures of the hypothesis-free statements         *)
(* ================================================================================================ *)
Module NeedWf.
  Definition ka := KS [97%N].
  Definition kb := KS [98%N].
  Definition one := Leaf (SInt 1).
  (* ordinary but with a duplicated key *)
  Definition dup := [(ka, Dict []); (ka, Dict [(kb, one)])].

  (* a leaf of target blocks a path of other *)
  Example merge_adds_needs_blocking_case :
    wf (Dict [(ka, Dict [(kb, one)])]) = true /\
    get_dpath (Dict [(ka, Dict [(kb, one)])]) [ka; kb] = Some one /\
    get_dpath (Dict (merge_spec [(ka, one)] [(ka, Dict [(kb, one)])])) [ka; kb] = None.
  Proof. vm_compute. auto. Qed.

  (* copy() of ordinary data with a duplicated key rewrites the second binding *)
  Example step_needs_wf_state :
    ordinary_kvs dup = true /\ ordinary_op OCopy = true /\
    sd_step (mkSD dup [] [] [] []) OCopy = Ok (mkSD [(ka, Dict [(kb, one)]); (ka, Dict [(kb, one)])] [] [] [] []) /\
    py_step dup OCopy = Ok dup.
  Proof. vm_compute. auto. Qed.

  Example merge_model_needs_wf_arg :
    ordinary_kvs [(ka, Dict dup)] = true /\
    sd_data (sd_merge sd_empty [(ka, Dict dup)] None) <> merge_spec [] [(ka, Dict dup)].
  Proof. vm_compute. split; [reflexivity | discriminate]. Qed.

  Example history_needs_wf_ops :
    forallb ordinary_op [OSet ka (Dict dup); OCopy] = true /\
    sd_data (sd_run sd_empty [OSet ka (Dict dup); OCopy]) <> py_run [] [OSet ka (Dict dup); OCopy].
  Proof. vm_compute. split; [reflexivity | discriminate]. Qed.

  Example clean_needs_unique_keys :
    ordinary_key ka = true /\
    alookup ka [(ka, one); (ka, Dict [])] = Some one /\
    alookup ka (sd_data (sd_clean (mkSD [(ka, one); (ka, Dict [])] [] [] [] []))) = Some (Dict []).
  Proof. vm_compute. auto. Qed.
End NeedWf.
