(* C12 on include directives, part 2: the lexer on a written text with include directive lines.
   RereadLex.lex_events replayed for event lists that also carry include directives (ECm lvl INCLUDE directive): the
   line comment pass leaves the directive lines alone, the include pass replaces each by one placeholder of the next
   counter value and fills the include table, and the rest of the pipeline sees word tokens. *)
From Coq Require Import String.
From Coq Require Import NArith ZArith List Bool Lia ZifyBool ZifyN ZifyNat.
From DictIO Require Import Chars Str Value Scalar KeyPath SDict Layout Lexer TokParser TreeSpec NativeSpec LayoutSpec E2ESpec.
From DictIO Require ScalarProofs SDictProofs TokProofs LayoutProofs SemProofs QuoteProofs KeyPathProofs.
From DictIO Require Import E2EProofs E2EHoles E2EInsert E2EKeyTok E2EFullProofs RereadStr RereadTree RereadLex RereadIncStage.
Import ListNotations.
Import LayoutProofs.
Open Scope N_scope.

(* ================================================================================================ *)
(* 1. directive lines                                                                               *)
(* ================================================================================================ *)

(* the line comment pass finds nothing in the directive: no double slash, unless a colon stands in front of it *)
Definition no_comment_in (name : str) : bool :=
  match find_comment false [] (inc_directive name) with None => true | Some _ => false end.
(* the document-level class of include names *)
Definition inc_name_ok (name : str) : bool := name_ok name && no_comment_in name.

Lemma fc_step a b (r : str) pc acc : find_comment pc acc (a :: b :: r) =
  if (a =? c_slash) && (b =? c_slash) && negb pc then Some (rev acc, a :: b :: r) else find_comment (a =? c_colon) (a :: acc) (b :: r).
Proof. reflexivity. Qed.

Lemma fc_none_acc : forall (s : str) pc acc acc', find_comment pc acc s = None -> find_comment pc acc' s = None.
Proof.
  induction s as [|a s IH]; intros pc acc acc' H; [reflexivity|]. destruct s as [|b r]; [reflexivity|].
  rewrite fc_step in *. destruct ((a =? c_slash) && (b =? c_slash) && negb pc); [discriminate H|]. exact (IH _ _ _ H).
Qed.

Lemma fc_spaces n (X : str) : forall acc, find_comment false [] (c_hash :: X) = None ->
  find_comment false acc (spaces n ++ c_hash :: X) = None.
Proof.
  induction n as [|n IH]; intros acc H; [exact (fc_none_acc _ _ _ _ H)|].
  cbn [spaces repeat app]. fold (spaces n).
  assert (E : exists b r, spaces n ++ c_hash :: X = b :: r) by (destruct n; cbn [spaces repeat app]; eexists; eexists; reflexivity).
  destruct E as (b & r & E). rewrite E, fc_step. replace (c_sp =? c_slash) with false by reflexivity. cbn [andb].
  replace (c_sp =? c_colon) with false by reflexivity. rewrite <- E. apply IH. exact H.
Qed.

Lemma inc_name_ok_inv name : inc_name_ok name = true -> name_ok name = true /\ find_comment false [] (inc_directive name) = None.
Proof.
  unfold inc_name_ok, no_comment_in. intros H. apply andb_true_iff in H. destruct H as [H1 H2]. split; [exact H1|].
  destruct (find_comment false [] (inc_directive name)); [discriminate H2|reflexivity].
Qed.

Lemma format_string_In (s : str) c : In c (format_string s) -> In c s \/ is_quote c = true.
Proof.
  unfold format_string. destruct (classify_string s); unfold sq, dq; intros H; try (left; exact H);
    (destruct H as [<-|H]; [right; reflexivity|]; apply in_app_or in H; destruct H as [H|[<-|[]]]; [left; exact H|right; reflexivity]).
Qed.

Lemma inc_directive_nolb name : name_ok name = true -> forallb (fun c => negb (is_linebreak c)) (inc_directive name) = true.
Proof.
  intros Hok. unfold inc_directive. rewrite forallb_app. apply andb_true_iff. split; [reflexivity|].
  apply forallb_forall. intros c Hc. destruct (format_string_In name c Hc) as [H|H].
  - exact (forallb_In _ _ _ Hok H).
  - unfold is_quote in H. unfold is_linebreak. uc. lia.
Qed.

Lemma line_nolb lvl (x : str) : forallb (fun c => negb (is_linebreak c)) x = true ->
  forallb (fun c => negb (is_linebreak c)) (indent_of lvl ++ x) = true.
Proof. intros H. rewrite forallb_app. apply andb_true_iff. split; [apply spaces_nolb|exact H]. Qed.

Lemma dir_line_single lvl name : name_ok name = true ->
  splitlines (line lvl (inc_directive name) true) = [line lvl (inc_directive name) true].
Proof. intros H. unfold line. rewrite app_assoc. apply splitlines_single. apply line_nolb. apply inc_directive_nolb. exact H. Qed.

Lemma dir_line_shape lvl name : name_ok name = true ->
  ends_lf (line lvl (inc_directive name) true) /\ has_char c_cr (line lvl (inc_directive name) true) = false.
Proof.
  intros H. split; [apply ends_lf_line|]. apply line_nocr. destruct (nolb_nolf _ (inc_directive_nolb name H)) as [_ Hcr]. exact Hcr.
Qed.

(* the line comment pass leaves a directive line alone *)
Lemma dir_line_no_comment cm c lvl name : inc_name_ok name = true ->
  extract_line_comment cm c (line lvl (inc_directive name) true) = (line lvl (inc_directive name) true, c, None).
Proof.
  intros H. destruct (inc_name_ok_inv name H) as [Hok Hfc]. unfold extract_line_comment.
  assert (Hb : has_char c_lf (indent_of lvl ++ inc_directive name) = false).
  { destruct (nolb_nolf _ (line_nolb lvl _ (inc_directive_nolb name Hok))) as [Hlf _]. exact Hlf. }
  unfold line. rewrite app_assoc, (chomp_lf_spec _ [c_lf] Hb (or_intror eq_refl)).
  unfold indent_of. rewrite inc_directive_eq in *. rewrite (fc_spaces _ _ [] Hfc). reflexivity.
Qed.

(* ================================================================================================ *)
(* 2. source events with include directives                                                         *)
(* ================================================================================================ *)

(* the name that tags a directive in an event list and a directive entry in a canonical document: it carries the word
   COMMENT, so the document vocabulary of RereadTree (events, cmapg, cshape ...) treats a directive entry as a one-line
   entry of its own, like a comment; it is neither LINECOMMENT nor BLOCKCOMMENT *)
Definition w_INCTAG : str := of_string "INCLUDECOMMENT".

Definition is_inc_dir (x : str) : Prop := exists name, x = inc_directive name /\ inc_name_ok name = true.

Definition ev_srcI (e : ev) : Prop :=
  match e with
  | ECm _ n x => (n = w_LINECOMMENT /\ lc_ok x = true) \/ (n = w_BLOCKCOMMENT /\ bc_ok x = true) \/ (n = w_INCTAG /\ is_inc_dir x)
  | _ => ev_ok e
  end.

(* the shape of an event text: ends its line, no carriage return *)
Lemma tR_shapeI e : ev_srcI e -> ends_lf (tR e) /\ has_char c_cr (tR e) = false.
Proof.
  intros He. destruct e as [lvl k v|lvl k l|lvl k|lvl|lvl n x]; try (apply tR_shape; exact He).
  cbn [ev_srcI] in He. destruct He as [H|[H|(_ & name & -> & Hn)]].
  - apply tR_shape. cbn [ev_lex]. left. exact H.
  - apply tR_shape. cbn [ev_lex]. right. left. exact H.
  - cbn [tR]. apply dir_line_shape. exact (proj1 (inc_name_ok_inv name Hn)).
Qed.

Lemma splitlines_catRI e es : ev_srcI e -> splitlines (catR (e :: es)) = splitlines (tR e) ++ splitlines (catR es).
Proof. intros He. destruct (tR_shapeI e He) as [H1 H2]. rewrite catR_cons. apply splitlines_app; assumption. Qed.

(* the include directives in text order: level and name *)
Definition dname (x : str) : str := include_name_of (drop_n (length w_hash_include) x).
Fixpoint icx (es : list ev) : list (nat * str) :=
  match es with
  | [] => []
  | ECm lvl n x :: es' => if str_eqb n w_INCTAG then (lvl, dname x) :: icx es' else icx es'
  | _ :: es' => icx es'
  end.
Definition inc_entry (dir : str) (ln : nat * str) : include_entry :=
  (indent_of (fst ln) ++ inc_directive (snd ln), snd ln, path_join dir (snd ln)).

Lemma dname_directive name : name_ok name = true -> dname (inc_directive name) = name.
Proof.
  intros H. unfold dname. rewrite inc_directive_eq.
  change (c_hash :: w_include ++ c_sp :: format_string name) with (w_hash_include ++ c_sp :: format_string name).
  rewrite drop_n_app. pose proof (include_name_written name [c_sp] [] H) as E. rewrite app_nil_r in E. apply E.
  - intros c [<-|[]]. reflexivity.
  - intros c [].
Qed.

(* line comments relabelled: the line comment pass of the lexer, in the presence of directive lines *)
Lemma elc_eventsI cm : forall es c, Forall ev_srcI es ->
  elcL cm c (splitlines (catR es)) =
  (splitlines (catR (relab cm (ids c (length (lcx es))) es)), cafter c (length (lcx es)), combine (ids c (length (lcx es))) (lcx es)).
Proof.
  induction es as [|e es IH]; intros c H; [reflexivity|]. inversion H as [|e' es' He Hes]; subst.
  assert (Gord : forall e0 : ev, ev_srcI e0 -> (forall c0, elcL cm c0 (splitlines (tR e0)) = (splitlines (tR e0), c0, [])) ->
            lcx (e0 :: es) = lcx es -> (forall ks, relab cm ks (e0 :: es) = e0 :: relab cm ks es) ->
            elcL cm c (splitlines (catR (e0 :: es))) =
            (splitlines (catR (relab cm (ids c (length (lcx (e0 :: es)))) (e0 :: es))), cafter c (length (lcx (e0 :: es))),
             combine (ids c (length (lcx (e0 :: es)))) (lcx (e0 :: es)))).
  { intros e0 Hl0 Hn0 El Er. rewrite El, Er, !(splitlines_catRI e0 _ Hl0), elcL_app, (Hn0 c), (IH c Hes). reflexivity. }
  assert (Gin : forall e0 : ev, Forall (fun l => nopair c_slash c_slash l = true) (splitlines (tR e0)) ->
            forall c0, elcL cm c0 (splitlines (tR e0)) = (splitlines (tR e0), c0, [])).
  { intros e0 Hn c0. exact (elcL_inert cm _ Hn c0). }
  destruct e as [lvl k v|lvl k l|lvl k|lvl|lvl n x].
  1-4: (apply Gord; [exact He| |reflexivity|reflexivity];
        apply Gin; match goal with |- Forall _ (splitlines (tR ?e0)) => exact (in_lc _ (ordinary_inert e0 He I)) end).
  cbn [ev_srcI] in He. destruct He as [[-> Hx]|[[-> Hx]|(-> & name & -> & Hn)]].
  - (* a line comment *)
    assert (Hsrc : ev_srcI (ECm lvl w_LINECOMMENT x)) by (left; split; [reflexivity|exact Hx]).
    destruct (lc_ok_inv x Hx) as (rest & Ex & Hlb & _ & _). destruct (nolb_nolf x Hlb) as [Hlf _].
    assert (El : lcx (ECm lvl w_LINECOMMENT x :: es) = x :: lcx es) by reflexivity.
    rewrite El. cbn [length]. rewrite ids_S. cbn [relab]. replace (str_eqb w_LINECOMMENT w_LINECOMMENT) with true by reflexivity.
    set (k := Z.to_N (counter_next c)).
    assert (Hlex' : ev_lex (ECm lvl w_LINECOMMENT (if cm then lph k else []))).
    { cbn [ev_lex]. right. right. destruct cm; [apply cph_tchars; left; reflexivity|reflexivity]. }
    rewrite (splitlines_catRI _ _ Hsrc), (splitlines_catR _ _ Hlex'). cbn [tR].
    assert (S1 : splitlines (line lvl x true) = [line lvl x true]).
    { unfold line, indent_of. rewrite app_assoc. apply splitlines_single. rewrite forallb_app. apply andb_true_iff. split; [apply spaces_nolb|exact Hlb]. }
    assert (S2 : splitlines (line lvl (if cm then lph k else []) true) = [line lvl (if cm then lph k else []) true]).
    { unfold line, indent_of. rewrite app_assoc. apply splitlines_single. rewrite forallb_app. apply andb_true_iff. split; [apply spaces_nolb|].
      destruct cm; [apply cph_nolb; left; reflexivity|reflexivity]. }
    rewrite S1, S2. cbn [app elcL].
    assert (Ext : extract_line_comment cm c (line lvl x true) =
                  (line lvl (if cm then lph k else []) true, counter_next c, Some (k, x))).
    { unfold line, indent_of. rewrite Ex.
      rewrite (extract_line_comment_gen cm (spaces (4 * lvl)) rest [c_lf] c).
      - reflexivity.
      - apply spaces_nochar. reflexivity.
      - apply no_colon_spaces.
      - unfold no_lf. rewrite Ex in Hlf. rewrite !has_char_cons in Hlf. apply orb_false_iff in Hlf. destruct Hlf as [_ Hlf].
        apply orb_false_iff in Hlf. exact (proj2 Hlf).
      - apply spaces_nochar. reflexivity.
      - right. reflexivity. }
    rewrite Ext, (IH (counter_next c) Hes). reflexivity.
  - (* a block comment: its lines carry no line comment *)
    apply Gord; [right; left; split; [reflexivity|exact Hx]| |reflexivity|reflexivity]. apply Gin. cbn [tR].
    destruct (bc_ok_inv x Hx) as (_ & Hn & Hc & _). apply nopair_lines.
    unfold splitlines. rewrite (concat_splitlines _ (line_nocr lvl x (bc_chars_nocr x Hc)) []). cbn [rev app].
    apply nopair_line; [reflexivity|reflexivity|exact Hn].
  - (* a directive line *)
    apply Gord; [right; right; split; [reflexivity|exists name; split; [reflexivity|exact Hn]]| |reflexivity|reflexivity].
    intros c0. cbn [tR]. rewrite (dir_line_single lvl name (proj1 (inc_name_ok_inv name Hn))). cbn [elcL].
    rewrite (dir_line_no_comment cm c0 lvl name Hn). reflexivity.
Qed.

(* ================================================================================================ *)
(* 3. the include pass                                                                              *)
(* ================================================================================================ *)

(* directive lines replaced, in text order, by the placeholders of the given ids (the placeholder line is not indented) *)
Fixpoint relabI (ks : list N) (es : list ev) : list ev :=
  match es with
  | [] => []
  | ECm lvl n x :: es' =>
      if str_eqb n w_INCTAG then
        match ks with
        | k :: ks' => ECm 0 n (iph k) :: relabI ks' es'
        | [] => ECm lvl n x :: relabI [] es'
        end
      else ECm lvl n x :: relabI ks es'
  | e :: es' => e :: relabI ks es'
  end.

(* events after the line comment pass *)
Definition ev_midI (e : ev) : Prop :=
  match e with
  | ECm _ n x => (n = w_BLOCKCOMMENT /\ bc_ok x = true) \/ (n = w_INCTAG /\ is_inc_dir x) \/
                 (n <> w_BLOCKCOMMENT /\ n <> w_INCTAG /\ forallb tchar x = true)
  | _ => ev_ok e
  end.

Lemma relab_midI cm : forall es ks, Forall ev_srcI es -> length ks = length (lcx es) -> Forall ev_midI (relab cm ks es).
Proof.
  induction es as [|e es IH]; intros ks H Hl; [constructor|]. inversion H as [|e' es' He Hes]; subst.
  destruct e as [lvl k v|lvl k l|lvl k|lvl|lvl n x]; cbn [relab lcx] in *; try (constructor; [exact He|exact (IH ks Hes Hl)]).
  destruct (str_eqb n w_LINECOMMENT) eqn:En.
  - apply SDictProofs.str_eqb_eq in En. subst n. destruct ks as [|k ks]; [discriminate Hl|]. cbn [length] in Hl.
    constructor; [|apply IH; [exact Hes|lia]]. cbn [ev_midI]. right. right. split; [discriminate|]. split; [discriminate|].
    destruct cm; [apply cph_tchars; left; reflexivity|reflexivity].
  - constructor; [|exact (IH ks Hes Hl)]. cbn [ev_midI]. cbn [ev_srcI] in He. destruct He as [[-> _]|[[-> Hx]|[-> Hx]]]; [discriminate En| |].
    + left. split; [reflexivity|exact Hx].
    + right. left. split; [reflexivity|exact Hx].
Qed.

Lemma ev_midI_lexsh e : ev_midI e -> ends_lf (tR e) /\ has_char c_cr (tR e) = false.
Proof.
  intros He. destruct e as [lvl k v|lvl k l|lvl k|lvl|lvl n x]; try (apply tR_shape; exact He).
  cbn [ev_midI] in He. destruct He as [H|[(_ & name & -> & Hn)|(_ & _ & H)]].
  - apply tR_shape. cbn [ev_lex]. right. left. exact H.
  - cbn [tR]. apply dir_line_shape. exact (proj1 (inc_name_ok_inv name Hn)).
  - apply tR_shape. cbn [ev_lex]. right. right. exact H.
Qed.

Lemma splitlines_catRM e es : ev_midI e -> splitlines (catR (e :: es)) = splitlines (tR e) ++ splitlines (catR es).
Proof. intros He. destruct (ev_midI_lexsh e He) as [H1 H2]. rewrite catR_cons. apply splitlines_app; assumption. Qed.

Lemma ei_app_inert dir : forall (l1 : list str) c l2, Forall (fun l => include_line_rest l = None) l1 ->
  extract_includes dir c (l1 ++ l2) = let '(r, c', t) := extract_includes dir c l2 in (l1 ++ r, c', t).
Proof.
  induction l1 as [|l l1 IH]; intros c l2 H.
  - cbn [app]. destruct (extract_includes dir c l2) as [[r c'] t]. reflexivity.
  - inversion H as [|x xs Hl Hr]; subst. cbn [app extract_includes]. rewrite Hl, (IH c l2 Hr).
    destruct (extract_includes dir c l2) as [[r c'] t]. reflexivity.
Qed.

Fixpoint insV {V} (xs : list (N * V)) (tab : list (N * V)) : list (N * V) :=
  match xs with [] => tab | x :: xs' => tupdate [x] (insV xs' tab) end.

Lemma insV_fresh {V} (xs : list (N * V)) : NoDup (map fst xs) -> insV xs [] = xs.
Proof.
  induction xs as [|x xs IH]; intros H; [reflexivity|]. cbn [map] in H. inversion H as [|y ys Hy Hnd]; subst.
  cbn [insV]. rewrite (IH Hnd). apply (tupdate_fresh xs [x]). cbn [app map]. exact H.
Qed.

Lemma iph_tchars k : forallb tchar (iph k) = true.
Proof. apply forallb_forall. intros c Hc. pose proof (forallb_In _ _ _ (iph_chars k) Hc) as H. unfold phc in H. tch. Qed.
Lemma iph_nolb k : forallb (fun c => negb (is_linebreak c)) (iph k) = true.
Proof. apply forallb_forall. intros c Hc. pose proof (forallb_In _ _ _ (iph_chars k) Hc) as H. unfold phc in H. cbn beta. unfold is_linebreak. uc. lia. Qed.
Lemma iph_word k : word_lexeme (iph k).
Proof.
  split; [apply iph_ne|]. apply Forall_forall. intros c Hc. pose proof (forallb_In _ _ _ (iph_chars k) Hc) as H. unfold phc in H.
  unfold is_delim. split; uc; lia.
Qed.

Lemma ei_events dir : forall es c, Forall ev_midI es ->
  extract_includes dir c (splitlines (catR es)) =
  (splitlines (catR (relabI (ids c (length (icx es))) es)), cafter c (length (icx es)),
   insV (combine (ids c (length (icx es))) (map (inc_entry dir) (icx es))) []).
Proof.
  induction es as [|e es IH]; intros c H; [reflexivity|]. inversion H as [|e' es' He Hes]; subst.
  assert (Gord : forall e0 : ev, ev_midI e0 -> Forall (fun l => include_line_rest l = None) (splitlines (tR e0)) ->
            icx (e0 :: es) = icx es -> (forall ks, relabI ks (e0 :: es) = e0 :: relabI ks es) ->
            extract_includes dir c (splitlines (catR (e0 :: es))) =
            (splitlines (catR (relabI (ids c (length (icx (e0 :: es)))) (e0 :: es))), cafter c (length (icx (e0 :: es))),
             insV (combine (ids c (length (icx (e0 :: es)))) (map (inc_entry dir) (icx (e0 :: es)))) [])).
  { intros e0 Hm Hn El Er. rewrite El, Er, !(splitlines_catRM e0 _ Hm), (ei_app_inert dir _ c _ Hn), (IH c Hes). reflexivity. }
  destruct e as [lvl k v|lvl k l|lvl k|lvl|lvl n x].
  1-4: (apply Gord; [exact He| |reflexivity|reflexivity];
        match goal with |- Forall _ (splitlines (tR ?e0)) => exact (in_inc _ (ordinary_inert e0 He I)) end).
  cbn [ev_midI] in He. destruct He as [[-> Hx]|[(-> & name & -> & Hn)|(Hnb & Hni & Hx)]].
  - apply Gord; [left; split; [reflexivity|exact Hx]| |reflexivity|reflexivity]. exact (bc_line_no_include lvl x Hx).
  - (* a directive line *)
    destruct (inc_name_ok_inv name Hn) as [Hok _].
    assert (Hm : ev_midI (ECm lvl w_INCTAG (inc_directive name))) by (right; left; split; [reflexivity|exists name; split; [reflexivity|exact Hn]]).
    assert (El : icx (ECm lvl w_INCTAG (inc_directive name) :: es) = (lvl, name) :: icx es).
    { cbn [icx]. replace (str_eqb w_INCTAG w_INCTAG) with true by reflexivity. rewrite (dname_directive name Hok). reflexivity. }
    rewrite El. cbn [length map]. rewrite ids_S. cbn [relabI combine insV]. replace (str_eqb w_INCTAG w_INCTAG) with true by reflexivity.
    set (k := Z.to_N (counter_next c)).
    assert (Hlex' : ev_lex (ECm 0 w_INCTAG (iph k))) by (cbn [ev_lex]; right; right; apply iph_tchars).
    rewrite (splitlines_catRM _ _ Hm), (splitlines_catR _ _ Hlex'). cbn [tR].
    rewrite (dir_line_single lvl name Hok).
    assert (S2 : splitlines (line 0 (iph k) true) = [iph k ++ [c_lf]]).
    { change (line 0 (iph k) true) with (iph k ++ [c_lf]). apply splitlines_single. apply iph_nolb. }
    rewrite S2. cbn [app]. rewrite (include_roundtrip dir c lvl name _ Hok). cbv zeta. rewrite (IH (counter_next c) Hes).
    unfold inc_entry. cbn [fst snd]. reflexivity.
  - assert (En : str_eqb n w_INCTAG = false).
    { destruct (str_eqb n w_INCTAG) eqn:E; [|reflexivity]. apply SDictProofs.str_eqb_eq in E. contradiction. }
    apply Gord; [right; right; split; [exact Hnb|split; [exact Hni|exact Hx]]| | |].
    + exact (in_inc _ (word_line_inert lvl x Hx)).
    + cbn [icx]. rewrite En. reflexivity.
    + intros ks. cbn [relabI]. rewrite En. reflexivity.
Qed.

Lemma relabI_mid : forall es ks, Forall ev_midI es -> length ks = length (icx es) -> Forall ev_mid (relabI ks es).
Proof.
  induction es as [|e es IH]; intros ks H Hl; [constructor|]. inversion H as [|e' es' He Hes]; subst.
  destruct e as [lvl k v|lvl k l|lvl k|lvl|lvl n x]; cbn [relabI icx] in *; try (constructor; [exact He|exact (IH ks Hes Hl)]).
  destruct (str_eqb n w_INCTAG) eqn:En.
  - apply SDictProofs.str_eqb_eq in En. subst n. destruct ks as [|k ks]; [discriminate Hl|]. cbn [length] in Hl.
    constructor; [|apply IH; [exact Hes|lia]]. cbn [ev_mid]. right. split; [discriminate|apply iph_tchars].
  - constructor; [|exact (IH ks Hes Hl)]. cbn [ev_mid]. cbn [ev_midI] in He. destruct He as [Hbc|[[-> _]|(Hb & _ & Hx)]].
    + left. exact Hbc.
    + discriminate En.
    + right. split; assumption.
Qed.

(* ---- bookkeeping through the relabellings ---------------------------------------------------------- *)
Lemma relab_icx cm : forall es ks, icx (relab cm ks es) = icx es.
Proof.
  induction es as [|e es IH]; intros ks; [reflexivity|]. destruct e as [lvl k v|lvl k l|lvl k|lvl|lvl n x]; cbn [relab icx]; try apply IH.
  destruct (str_eqb n w_LINECOMMENT) eqn:En.
  - apply SDictProofs.str_eqb_eq in En. subst n. destruct ks as [|k ks]; cbn [icx]; replace (str_eqb w_LINECOMMENT w_INCTAG) with false by reflexivity; apply IH.
  - cbn [icx]. rewrite IH. reflexivity.
Qed.

Lemma relabI_bcx : forall es ks, bcx (relabI ks es) = bcx es.
Proof.
  induction es as [|e es IH]; intros ks; [reflexivity|]. destruct e as [lvl k v|lvl k l|lvl k|lvl|lvl n x]; cbn [relabI bcx]; try apply IH.
  destruct (str_eqb n w_INCTAG) eqn:En.
  - apply SDictProofs.str_eqb_eq in En. subst n. destruct ks as [|k ks]; cbn [bcx]; replace (str_eqb w_INCTAG w_BLOCKCOMMENT) with false by reflexivity; apply IH.
  - cbn [bcx]. rewrite IH. reflexivity.
Qed.

Lemma relabI_lits : forall es ks, lits (relabI ks es) = lits es.
Proof.
  induction es as [|e es IH]; intros ks; [reflexivity|]. unfold lits in *. destruct e as [lvl k v|lvl k l|lvl k|lvl|lvl n x]; cbn [relabI flat_map ev_lits]; try (rewrite IH; reflexivity).
  destruct (str_eqb n w_INCTAG); [destruct ks|]; cbn [flat_map ev_lits]; apply IH.
Qed.

Lemma relabI_first : forall es ks, first_nc es -> first_nc (relabI ks es).
Proof.
  induction es as [|e es IH]; intros ks H; [exact I|]. destruct e as [lvl k v|lvl k l|lvl k|lvl|lvl n x]; cbn [relabI first_nc] in *; try exact I; try contradiction.
  destruct (str_eqb n w_INCTAG); [destruct ks|]; cbn [first_nc]; apply IH; exact H.
Qed.

(* the final events: every comment and every directive is a word token (or nothing, with comments off) *)
Lemma final_eventsI cm tab : forall es ks1 ks2, Forall ev_srcI es -> (forall x, In x (bcx es) -> inb x tab = true) ->
  length ks1 = length (lcx es) -> length ks2 = length (icx es) ->
  Forall ev_fin (map (numB cm tab) (relabI ks2 (relab cm ks1 es))).
Proof.
  induction es as [|e es IH]; intros ks1 ks2 H Hin Hl1 Hl2; [constructor|]. inversion H as [|e' es' He Hes]; subst.
  destruct e as [lvl k v|lvl k l|lvl k|lvl|lvl n x]; cbn [relab relabI lcx icx bcx map numB] in *;
    try (constructor; [exact He|exact (IH ks1 ks2 Hes Hin Hl1 Hl2)]).
  cbn [ev_srcI] in He. destruct He as [[-> Hx]|[[-> Hx]|[-> Hx]]].
  - replace (str_eqb w_LINECOMMENT w_LINECOMMENT) with true in * by reflexivity.
    replace (str_eqb w_LINECOMMENT w_BLOCKCOMMENT) with false in Hin by reflexivity.
    replace (str_eqb w_LINECOMMENT w_INCTAG) with false in Hl2 by reflexivity.
    destruct ks1 as [|k ks1]; [discriminate Hl1|]. cbn [length] in Hl1. cbn [relabI].
    replace (str_eqb w_LINECOMMENT w_INCTAG) with false by reflexivity. cbn [map numB].
    replace (str_eqb w_LINECOMMENT w_BLOCKCOMMENT) with false by reflexivity. cbn [andb].
    constructor; [|apply IH; [exact Hes|exact Hin|lia|exact Hl2]]. cbn [ev_fin].
    destruct cm; [split; [apply cph_tchars; left; reflexivity|right; apply cph_word; left; reflexivity]|split; [reflexivity|left; reflexivity]].
  - replace (str_eqb w_BLOCKCOMMENT w_LINECOMMENT) with false in * by reflexivity.
    replace (str_eqb w_BLOCKCOMMENT w_BLOCKCOMMENT) with true in * by reflexivity.
    replace (str_eqb w_BLOCKCOMMENT w_INCTAG) with false in Hl2 by reflexivity. cbn [relabI].
    replace (str_eqb w_BLOCKCOMMENT w_INCTAG) with false by reflexivity. cbn [map numB].
    replace (str_eqb w_BLOCKCOMMENT w_BLOCKCOMMENT) with true by reflexivity. rewrite (Hin x (or_introl eq_refl)). cbn [andb].
    constructor; [exact (btok_fin cm _)|apply IH; [exact Hes|intros y Hy; apply Hin; right; exact Hy|exact Hl1|exact Hl2]].
  - replace (str_eqb w_INCTAG w_LINECOMMENT) with false in * by reflexivity.
    replace (str_eqb w_INCTAG w_BLOCKCOMMENT) with false in Hin by reflexivity.
    replace (str_eqb w_INCTAG w_INCTAG) with true in Hl2 by reflexivity. cbn [relabI].
    replace (str_eqb w_INCTAG w_INCTAG) with true by reflexivity.
    destruct ks2 as [|k ks2]; [discriminate Hl2|]. cbn [length] in Hl2. cbn [map numB].
    replace (str_eqb w_INCTAG w_BLOCKCOMMENT) with false by reflexivity. cbn [andb].
    constructor; [|apply IH; [exact Hes|exact Hin|exact Hl1|lia]]. cbn [ev_fin]. split; [apply iph_tchars|right; apply iph_word].
Qed.

Lemma ev_midI_lex_of_mid e : ev_mid e -> ev_lex e.
Proof. exact (ev_mid_lex e). Qed.

(* ================================================================================================ *)
(* 4. the lexer on a written text with directive lines                                              *)
(* ================================================================================================ *)

(* Counter: the line comments draw first (in text order), then the directives (in text order), then the quoted literals.
   Tables: line comments and directives keyed by their counter values, block comments numbered from zero.  Tokens: those
   of the document in which every comment and every directive is one placeholder token. *)
Theorem lex_events_inc cm dir count es : Forall ev_srcI es -> first_nc es -> NoDup (bcx es) ->
  NoDup (ids count (length (lcx es))) -> NoDup (ids (cafter count (length (lcx es))) (length (icx es))) ->
  let nl := length (lcx es) in let c1 := cafter count nl in let ni := length (icx es) in let c2 := cafter c1 ni in
  let nq := length (lits es) in
  let btab := number_from 0 (bcx es) in
  let E2 := map (numB cm btab) (relabI (ids c1 ni) (relab cm (ids count nl) es)) in
  exists tl, (tl = [] \/ tl = [[]]) /\
  lex cm dir count (catR es) =
  mkLexed (evs_tokL (ids c2 nq) E2 ++ tl) (cafter c2 nq) (combine (ids count nl) (lcx es)) btab
          (combine (ids c1 ni) (map (inc_entry dir) (icx es))) []
          (tupdate [] (combine (ids c2 nq) (lits es))).
Proof.
  intros Hes Hfn Hbnd Hlnd Hind nl c1 ni c2 nq btab E2.
  set (E1 := relab cm (ids count nl) es).
  assert (HmidI : Forall ev_midI E1) by (apply relab_midI; [exact Hes|apply ids_length]).
  assert (Hi1 : icx E1 = icx es) by (unfold E1; apply relab_icx).
  set (E1' := relabI (ids c1 ni) E1).
  assert (Hmid : Forall ev_mid E1') by (apply relabI_mid; [exact HmidI|rewrite Hi1; apply ids_length]).
  assert (Hfin : Forall ev_fin E2).
  { apply final_eventsI; [exact Hes|intros x Hx; apply inb_number_from; exact Hx|apply ids_length|apply ids_length]. }
  assert (HokT : Forall ev_okT E2) by (revert Hfin; apply Forall_impl; exact ev_fin_okT).
  assert (Hlits : lits E2 = lits es) by (unfold E2; rewrite numB_lits, relabI_lits, relab_lits; reflexivity).
  assert (Hq : Forall qlit (lits es)) by (rewrite <- Hlits; exact (lits_qlit E2 HokT)).
  set (F := map format_string (lits es)). set (B := catRabs E2).
  assert (Hsol : Forall solid F) by exact (qlits_solid _ Hq).
  assert (EB : catR E2 = expandL F B).
  { pose proof (catR_expand E2 HokT [] ltac:(constructor)) as H. cbn [expandL] in H. rewrite !app_nil_r, Hlits in H. symmetry. exact H. }
  destruct (catRabs_aok E2 HokT) as [HaB HnB]. rewrite Hlits in HnB. fold B in HaB, HnB. fold nq in HnB.
  pose proof (achar_rle B HaB) as HaB2. assert (HnB2 : nh (remove_line_endings B) = nq) by (rewrite nh_rle; exact HnB).
  assert (Hw : Forall wlit (lits es)) by (revert Hq; apply Forall_impl; exact qlit_wlit).
  set (P := map PH (ids c2 nq)). set (b3 := expandL P (remove_line_endings B)).
  assert (Ht3 : forallb tchar b3 = true).
  { unfold b3, P. apply expandL_tchars; [exact HaB2| |rewrite map_length, ids_length, HnB2; lia].
    apply Forall_map_iff. apply Forall_forall. intros k _. apply PH_tchars. }
  assert (Htoks : toks_go [] b3 = evs_tokL (ids c2 nq) E2).
  { unfold b3, P, B. apply toks_surgery; [exact Hfin|rewrite Hlits, ids_length; apply Nat.le_refl|apply ids_small]. }
  assert (Hstrip : strip b3 = b3).
  { unfold b3, P. rewrite <- (rle_expand B _ (PHs_solid _)), remove_line_endings_eq. apply strip_idem. }
  assert (Hfw : first_word (evs_tokL (ids c2 nq) E2)).
  { apply first_word_evs; [exact Hfin|]. unfold E2. apply numB_first, relabI_first, relab_first. exact Hfn. }
  destruct (tokens_of_text b3 _ Hstrip Htoks Hfw) as (tl & Htl & Etok). exists tl. split; [exact Htl|].
  unfold lex. cbv zeta. rewrite elc_elcL, (elc_eventsI cm es count Hes). fold nl c1 E1.
  rewrite ins_fresh by (rewrite combine_fst by (apply ids_length); exact Hlnd).
  rewrite (ei_events dir E1 c1 HmidI). rewrite Hi1. fold ni c2 E1'.
  rewrite insV_fresh by (rewrite combine_fst by (rewrite map_length; apply ids_length); exact Hind).
  pose proof (catR_nocr E1' (Forall_impl _ ev_mid_lex Hmid)) as Hcr.
  assert (Hcat : concat (splitlines (catR E1')) = catR E1') by (exact (concat_splitlines _ Hcr [])).
  assert (Hb1 : bcx E1' = bcx es) by (unfold E1', E1; rewrite relabI_bcx; apply relab_bcx).
  rewrite Hcat. rewrite (extract_blocks_events cm E1' Hmid) by (rewrite Hb1; exact Hbnd).
  rewrite Hb1. fold btab. change (map (numB cm btab) E1') with E2.
  rewrite EB, (rle_expand B F Hsol). unfold extract_string_literals, F.
  rewrite (scan_expand (remove_line_endings B) (lits es) _ c2 [] [] Hw HaB2 HnB2 (Nat.le_succ_diag_r _)).
  cbn [rev app]. fold nq P b3.
  rewrite (extract_expressions_none _ _ (tchars_no c_dq _ Ht3 eq_refl) (tchars_no c_dollar _ Ht3 eq_refl)).
  rewrite Etok. reflexivity.
Qed.

Print Assumptions lex_events_inc.
