(* Proofs for C17 (command line wiring, scope spellings), C13 (file system frame, target names),
   C08 (placeholder counter) and C16 (append / overwrite at data level). *)
From Coq Require Export String.  (* the Properties files write constants with of_string "..." *)
From Coq Require Import NArith ZArith List Bool.
From Coq Require Import Lia ZifyBool ZifyNat ZifyN.
From DictIO Require Import Chars Str Value Scalar KeyPath SDict Layout Lexer TokParser Reader Expr Cli Paths
  TreeSpec MiscSpec.
From DictIO Require Import ScalarProofs SDictProofs QuoteProofs.
Import ListNotations.
Open Scope N_scope.

(* ================================================================================================ *)
(* C17: wiring                                                                                       *)
(* ================================================================================================ *)

Lemma cli_wiring : forall f, cli_kwargs f = spec_kwargs f.
Proof.
  intros [ii o ic a out sc q v l]. unfold cli_kwargs, spec_kwargs. cbn.
  destruct ii, ic, sc; reflexivity.
Qed.

(* ================================================================================================ *)
(* C13: file system                                                                                  *)
(* ================================================================================================ *)

Lemma fs_read_pure : forall fs p, fs_step fs (FRead p) = fs.
Proof. reflexivity. Qed.

Lemma fs_get_set_other : forall (fs : fsmap) (t q txt : list N), q <> t -> fs_get q (fs_set t txt fs) = fs_get q fs.
Proof.
  induction fs as [|[k v] fs IH]; intros t q txt Hne.
  - cbn [fs_set fs_get].
    destruct (str_eqb q t) eqn:E; [|reflexivity].
    apply ScalarProofs.str_eqb_eq in E. contradiction.
  - cbn [fs_set]. destruct (str_eqb t k) eqn:E.
    + apply ScalarProofs.str_eqb_eq in E. subst k. cbn [fs_get].
      destruct (str_eqb q t) eqn:E2; [|reflexivity].
      apply ScalarProofs.str_eqb_eq in E2. contradiction.
    + cbn [fs_get]. destruct (str_eqb q k); [reflexivity|]. apply IH. exact Hne.
Qed.

Lemma fs_get_set_same : forall (fs : fsmap) (t txt : list N), fs_get t (fs_set t txt fs) = Some txt.
Proof.
  induction fs as [|[k v] fs IH]; intros t txt.
  - cbn [fs_set fs_get]. rewrite ScalarProofs.str_eqb_refl. reflexivity.
  - cbn [fs_set]. destruct (str_eqb t k) eqn:E.
    + cbn [fs_get]. rewrite E. reflexivity.
    + cbn [fs_get]. rewrite E. apply IH.
Qed.

Lemma fs_frame : forall fs t c q, q <> t -> fs_get q (fs_step fs (FWrite t c)) = fs_get q fs.
Proof.
  intros fs t [txt|e] q Hne; cbn [fs_step]; [|reflexivity].
  apply fs_get_set_other. exact Hne.
Qed.

Lemma fs_write_target : forall fs t txt, fs_get t (fs_step fs (FWrite t (Ok txt))) = Some txt.
Proof. intros. cbn [fs_step]. apply fs_get_set_same. Qed.

Lemma fs_no_clobber : forall fs t e, fs_step fs (FWrite t (Raise e)) = fs.
Proof. reflexivity. Qed.

Lemma fs_history_frame : forall ops fs q,
  (forall t txt, In (FWrite t (Ok txt)) ops -> t <> q) -> fs_get q (fold_left fs_step ops fs) = fs_get q fs.
Proof.
  induction ops as [|op ops IH]; intros fs q H; [reflexivity|].
  cbn [fold_left]. rewrite IH.
  - destruct op as [p|t [txt|e]]; [reflexivity| |reflexivity].
    apply fs_frame. intro E. apply (H t txt); [left; reflexivity|symmetry; exact E].
  - intros t txt Hin. apply (H t txt). right. exact Hin.
Qed.

(* ================================================================================================ *)
(* C08: counter                                                                                      *)
(* ================================================================================================ *)

Lemma counter_next_mod : forall c, (-1 <= c <= 999999)%Z -> counter_next c = ((c + 1) mod 1000000)%Z.
Proof.
  intros c H. unfold counter_next.
  destruct (999999 <? c + 1)%Z eqn:E.
  - assert (c = 999999%Z) by lia. subst c. reflexivity.
  - rewrite Z.mod_small by lia. reflexivity.
Qed.

Lemma counter_closed_form : forall n c, counter_ok c ->
  counter_iter (S n) c = ((c + 1 + Z.of_nat n) mod 1000000)%Z.
Proof.
  unfold counter_ok. induction n as [|n IH]; intros c H.
  - cbn [counter_iter]. rewrite counter_next_mod by exact H. f_equal. lia.
  - change (counter_iter (S (S n)) c) with (counter_next (counter_iter (S n) c)).
    rewrite (IH c H).
    pose proof (Z.mod_pos_bound (c + 1 + Z.of_nat n) 1000000 ltac:(lia)) as Hb.
    rewrite counter_next_mod by lia.
    rewrite Z.add_mod_idemp_l by lia. f_equal. lia.
Qed.

Lemma counter_range : forall n c, counter_ok c -> (0 <= counter_iter (S n) c <= 999999)%Z.
Proof.
  intros n c H. rewrite counter_closed_form by exact H.
  pose proof (Z.mod_pos_bound (c + 1 + Z.of_nat n) 1000000 ltac:(lia)). lia.
Qed.

Lemma million_nat : Z.of_nat 1000000 = 1000000%Z.
Proof. vm_compute. reflexivity. Qed.

Lemma counter_distinct : forall c n m, counter_ok c -> (n < m)%nat -> (m - n < 1000000)%nat ->
  counter_iter (S n) c <> counter_iter (S m) c.
Proof.
  intros c n m H Hnm Hd. rewrite !counter_closed_form by exact H.
  apply Nat2Z.inj_lt in Hd. rewrite million_nat in Hd.
  rewrite Nat2Z.inj_sub in Hd by (apply Nat.lt_le_incl; exact Hnm).
  apply Nat2Z.inj_lt in Hnm.
  generalize dependent (Z.of_nat n). generalize dependent (Z.of_nat m). clear n m.
  intros zm zn Hnm Hd E.
  pose proof (Z.div_mod (c + 1 + zn) 1000000 ltac:(lia)) as E1.
  pose proof (Z.div_mod (c + 1 + zm) 1000000 ltac:(lia)) as E2.
  rewrite E in E1.
  set (q1 := ((c + 1 + zn) / 1000000)%Z) in *.
  set (q2 := ((c + 1 + zm) / 1000000)%Z) in *.
  set (r := ((c + 1 + zm) mod 1000000)%Z) in *.
  clearbody q1 q2 r.
  assert (Hq : (zm - zn = 1000000 * (q2 - q1))%Z) by lia.
  lia.
Qed.

(* ================================================================================================ *)
(* C16: append / overwrite                                                                           *)
(* ================================================================================================ *)

Lemma append_keeps : forall s d p v,
  get_dpath (Dict s) p = Some (Leaf v) ->
  exists s', spec_write (Some s) (d, true) = Some s' /\ get_dpath (Dict s') p = Some (Leaf v).
Proof.
  intros s d p v H. exists (merge_spec s d). split; [reflexivity|].
  apply merge_keeps_leaves. exact H.
Qed.

Lemma appends_keep : forall ds s p v,
  get_dpath (Dict s) p = Some (Leaf v) ->
  exists s', spec_writes (map (fun d => (d, true)) ds) (Some s) = Some s' /\ get_dpath (Dict s') p = Some (Leaf v).
Proof.
  unfold spec_writes. induction ds as [|d ds IH]; intros s p v H.
  - exists s. split; [reflexivity|exact H].
  - cbn [map fold_left].
    change (spec_write (Some s) (d, true)) with (Some (merge_spec s d)).
    apply IH. apply merge_keeps_leaves. exact H.
Qed.

Lemma overwrite_replaces : forall st d, spec_write st (d, false) = Some d /\ spec_write None (d, true) = Some d.
Proof. intros [s|] d; split; reflexivity. Qed.

Lemma append_adds : forall s d p x, wf (Dict d) = true -> get_dpath (Dict d) p = Some x ->
  exists s', spec_write (Some s) (d, true) = Some s' /\
  ((exists y, get_dpath (Dict s') p = Some y) \/
   (exists r t, strict_prefix r p /\ r <> [] /\ get_dpath (Dict s) r = Some t /\ (forall kvs, t <> Dict kvs))).
Proof.
  intros s d p x Hwf H. exists (merge_spec s d). split; [reflexivity|].
  exact (merge_adds_paths s d p x Hwf H).
Qed.

(* ================================================================================================ *)
(* C13: target file name                                                                             *)
(* ================================================================================================ *)

Lemma target_ext : forall name scope o, In o [of_string "foam"; of_string "json"; of_string "xml"] ->
  exists base, target_file_name name (Some w_parsed) scope (Some o) = base ++ c_dot :: o.
Proof.
  intros name scope o Hin. unfold target_file_name.
  destruct (stem_suffix name) as [stem0 suf0].
  destruct (if str_eqb stem0 (of_string "parsed") || str_eqb stem0 w_parsed then (stem0 ++ suf0, []) else (stem0, suf0))
    as [fname ending].
  cbn [In] in Hin.
  destruct Hin as [<-|[<-|[<-|[]]]];
    match goal with |- exists base, ?A ++ ?B = _ => exists A; f_equal end.
Qed.

Lemma word_not_dot : forall c, is_word c = true -> (c =? c_dot) = false.
Proof. intros c H. unfold is_word in H. chars. Qed.

Lemma last_dot_split_nodot : forall (s acc : list N), Forall (fun c => (c =? c_dot) = false) s ->
  last_dot_split s acc = None.
Proof.
  induction s as [|c s IH]; intros acc H; [reflexivity|].
  inversion H as [|c' s' Hc Hs]; subst. cbn [last_dot_split]. rewrite Hc. apply IH. exact Hs.
Qed.

Lemma last_dot_split_at : forall (b s' acc : list N), Forall (fun c => (c =? c_dot) = false) b ->
  last_dot_split (b ++ c_dot :: s') acc = Some (rev s', c_dot :: rev b ++ acc).
Proof.
  induction b as [|c b IH]; intros s' acc H.
  - cbn [app last_dot_split]. rewrite N.eqb_refl. reflexivity.
  - inversion H as [|c' b' Hc Hb]; subst. cbn [app last_dot_split]. rewrite Hc.
    rewrite (IH s' (c :: acc) Hb). cbn [rev]. rewrite <- app_assoc. reflexivity.
Qed.

Lemma stem_suffix_nodot : forall name : list N, Forall (fun c => (c =? c_dot) = false) name ->
  stem_suffix name = (name, []).
Proof.
  intros name H. unfold stem_suffix. rewrite last_dot_split_nodot; [reflexivity|].
  apply Forall_rev. exact H.
Qed.

Lemma stem_suffix_dot : forall a b : list N, a <> [] -> b <> [] -> Forall (fun c => (c =? c_dot) = false) b ->
  stem_suffix (a ++ c_dot :: b) = (a, c_dot :: b).
Proof.
  intros a b Ha Hb H. unfold stem_suffix.
  rewrite rev_app_distr. cbn [rev]. rewrite <- app_assoc. cbn [app].
  rewrite last_dot_split_at by (apply Forall_rev; exact H).
  rewrite !rev_involutive, app_nil_r.
  destruct a as [|x a]; [congruence|]. destruct b as [|y b]; [congruence|]. reflexivity.
Qed.

Lemma starts_with_split : forall p s : list N, starts_with p s = true -> exists r, s = p ++ r.
Proof.
  induction p as [|x p IH]; intros s H.
  - exists s. reflexivity.
  - destruct s as [|y s]; cbn [starts_with] in H; [discriminate|].
    apply andb_true_iff in H. destruct H as [E H]. apply N.eqb_eq in E. subst y.
    destruct (IH s H) as [r ->]. exists r. reflexivity.
Qed.

Lemma starts_with_app : forall p r : list N, starts_with p (p ++ r) = true.
Proof. induction p as [|x p IH]; intros r; [reflexivity|]. cbn [app starts_with]. rewrite N.eqb_refl. apply IH. Qed.

Lemma drop_n_app_length' {A} (a b : list A) : drop_n (length a) (a ++ b) = b.
Proof. induction a as [|x a IH]; [destruct b; reflexivity|]. cbn [length app drop_n]. exact IH. Qed.

Definition w_parsed_dot : list N := w_parsed ++ [c_dot].

Lemma starts_with_parsed_dot_nodot : forall name : list N, Forall (fun c => (c =? c_dot) = false) name ->
  starts_with w_parsed_dot name = false.
Proof.
  intros name H. destruct (starts_with w_parsed_dot name) eqn:E; [|reflexivity].
  apply starts_with_split in E. destruct E as [r ->].
  unfold w_parsed_dot in H. rewrite <- app_assoc in H.
  apply Forall_app in H. destruct H as [_ H]. inversion H as [|c l Hc _]; subst.
  rewrite N.eqb_refl in Hc. discriminate.
Qed.

(* the name derived for a name without a dot *)
Lemma target_of_word : forall name : list N, Forall (fun c => (c =? c_dot) = false) name ->
  target_file_name name (Some w_parsed) [] None = w_parsed ++ c_dot :: name.
Proof.
  intros name H. unfold target_file_name. rewrite (stem_suffix_nodot name H).
  destruct (str_eqb name (of_string "parsed") || str_eqb name w_parsed); [rewrite (app_nil_r name)|]; cbv iota beta.
  all: change (nonempty w_parsed) with true; cbv iota.
  all: change ((match rev w_parsed with
           | [] => w_parsed
           | c :: r => if c =? c_dot then rev r else w_parsed
           end) ++ [c_dot]) with w_parsed_dot.
  all: rewrite (starts_with_parsed_dot_nodot name H).
  all: rewrite app_nil_r; unfold w_parsed_dot; rewrite <- app_assoc; reflexivity.
Qed.

Lemma target_of_derived : forall name : list N, name <> [] -> Forall (fun c => (c =? c_dot) = false) name ->
  target_file_name (w_parsed ++ c_dot :: name) (Some w_parsed) [] None = w_parsed ++ c_dot :: name.
Proof.
  intros name Hne H. unfold target_file_name.
  rewrite (stem_suffix_dot w_parsed name) by (try assumption; discriminate).
  change (str_eqb w_parsed (of_string "parsed")) with true. cbv iota. cbn [orb].
  change (nonempty w_parsed) with true. cbv iota.
  change ((match rev w_parsed with
           | [] => w_parsed
           | c :: r => if c =? c_dot then rev r else w_parsed
           end) ++ [c_dot]) with w_parsed_dot.
  replace (w_parsed ++ c_dot :: name) with (w_parsed_dot ++ name)
    by (unfold w_parsed_dot; rewrite <- app_assoc; reflexivity).
  rewrite starts_with_app. rewrite drop_n_app_length'. rewrite app_nil_r. reflexivity.
Qed.

Lemma target_prefix_once : forall name, word_name name ->
  let t := target_file_name name (Some w_parsed) [] None in
  target_file_name t (Some w_parsed) [] None = t /\ t = w_parsed ++ c_dot :: name.
Proof.
  intros name [Hne Hw].
  assert (Hnd : Forall (fun c => (c =? c_dot) = false) name).
  { eapply Forall_impl; [|exact Hw]. intros c Hc. apply word_not_dot. exact Hc. }
  cbv zeta. rewrite (target_of_word name Hnd). split; [|reflexivity].
  apply target_of_derived; assumption.
Qed.

(* ================================================================================================ *)
(* C17: scope spellings                                                                              *)
(* ================================================================================================ *)

Lemma word_char_facts : forall c, is_word c = true ->
  is_space c = false /\ (c =? c_lbrk) = false /\ (c =? c_rbrk) = false /\ (c =? c_sp) = false /\ (c =? c_comma) = false.
Proof. intros c H. unfold is_word in H. repeat split; chars. Qed.

Lemma scope_word_ok : forall k, scope_word k -> validate_scope k = Ok [SStr k].
Proof.
  intros k (Hne & Hw & _). unfold validate_scope.
  destruct k as [|c k]; [congruence|].
  inversion Hw as [|c' k' Hc Hk]; subst.
  destruct (word_char_facts c Hc) as (Hs & Hl & _).
  unfold looks_like_list. cbn [lstrip]. rewrite Hs, Hl. reflexivity.
Qed.

(* characters that the scope parser removes at the edges of the whole text or of one part *)
Definition edge (c : cp) : bool := is_space c || scope_strip_char c.
Definition nocomma (s : list N) : Prop := Forall (fun c => (c =? c_comma) = false) s.
Definition item_ok (it : list N) : Prop :=
  it <> [] /\ nocomma it /\ hd_not edge it /\ hd_not edge (rev it).
Definition sep_item (k : list N) : list N := [c_comma; c_sp] ++ k.

Lemma hd_not_weaken (p q : N -> bool) (s : list N) :
  (forall c, p c = false -> q c = false) -> hd_not p s -> hd_not q s.
Proof. intros Hpq. destruct s as [|c s]; cbn [hd_not]; [trivial|apply Hpq]. Qed.

Lemma edge_space c : edge c = false -> is_space c = false.
Proof. unfold edge. intros H. apply orb_false_iff in H. apply H. Qed.
Lemma edge_strip c : edge c = false -> scope_strip_char c = false.
Proof. unfold edge. intros H. apply orb_false_iff in H. apply H. Qed.

Lemma join_flat : forall (sep : list N) (l : list (list N)) (x : list N),
  join sep (x :: l) = x ++ flat_map (fun k => sep ++ k) l.
Proof.
  intros sep. induction l as [|y l IH]; intros x.
  - cbn. rewrite app_nil_r. reflexivity.
  - change (join sep (x :: y :: l)) with (x ++ sep ++ join sep (y :: l)).
    rewrite IH. cbn [flat_map]. rewrite <- app_assoc. reflexivity.
Qed.

Lemma lstrip_by_hd (p : N -> bool) (s : list N) : hd_not p s -> lstrip_by p s = s.
Proof. destruct s as [|c s]; cbn [hd_not lstrip_by]; [reflexivity|]. intros ->. reflexivity. Qed.

Lemma strip_by_bracketed (J : list N) : J <> [] -> hd_not scope_strip_char J -> hd_not scope_strip_char (rev J) ->
  strip_by scope_strip_char ([c_lbrk] ++ J ++ [c_rbrk]) = J.
Proof.
  intros Hne H1 H2. unfold strip_by.
  change (lstrip_by scope_strip_char ([c_lbrk] ++ J ++ [c_rbrk])) with (lstrip_by scope_strip_char (J ++ [c_rbrk])).
  rewrite (lstrip_by_hd _ (J ++ [c_rbrk])) by (apply hd_not_app; assumption).
  rewrite rev_app_distr.
  change (lstrip_by scope_strip_char (rev [c_rbrk] ++ rev J)) with (lstrip_by scope_strip_char (rev J)).
  rewrite (lstrip_by_hd _ (rev J) H2). apply rev_involutive.
Qed.

Lemma rev_nonempty {A} (l : list A) : l <> [] -> rev l <> [].
Proof. intros H E. apply H. rewrite <- (rev_involutive l), E. reflexivity. Qed.

Lemma joined_last : forall (rest : list (list N)) (it1 : list N), Forall item_ok (it1 :: rest) ->
  hd_not edge (rev (it1 ++ flat_map sep_item rest)).
Proof.
  induction rest as [|k rest IH]; intros it1 H.
  - cbn [flat_map]. rewrite app_nil_r. inversion H as [|a b Ha _]; subst. apply Ha.
  - inversion H as [|a b Ha Hb]; subst.
    cbn [flat_map]. unfold sep_item at 1.
    replace (it1 ++ ([c_comma; c_sp] ++ k) ++ flat_map sep_item rest)
      with ((it1 ++ [c_comma; c_sp]) ++ (k ++ flat_map sep_item rest))
      by (rewrite <- !app_assoc; reflexivity).
    rewrite rev_app_distr. apply hd_not_app.
    + apply rev_nonempty. inversion Hb as [|a' b' Hk _]; subst. destruct Hk as (Hk & _).
      destruct k; [congruence|discriminate].
    + apply IH. exact Hb.
Qed.

Lemma split_on_nosep : forall (w cur r : list N), nocomma w ->
  split_on c_comma cur (w ++ r) = split_on c_comma (rev w ++ cur) r.
Proof.
  induction w as [|c w IH]; intros cur r H; [reflexivity|].
  inversion H as [|c' w' Hc Hw]; subst. cbn [app split_on]. rewrite Hc.
  rewrite (IH (c :: cur) r Hw). cbn [rev]. rewrite <- app_assoc. reflexivity.
Qed.

Lemma split_on_items : forall (rest : list (list N)) (cur : list N), Forall nocomma rest ->
  split_on c_comma cur (flat_map sep_item rest) = rev cur :: map (cons c_sp) rest.
Proof.
  induction rest as [|k rest IH]; intros cur H; [reflexivity|].
  inversion H as [|a b Hk Hr]; subst.
  cbn [flat_map map]. unfold sep_item at 1.
  change (([c_comma; c_sp] ++ k) ++ flat_map sep_item rest) with (c_comma :: (c_sp :: k) ++ flat_map sep_item rest).
  change (split_on c_comma cur (c_comma :: (c_sp :: k) ++ flat_map sep_item rest))
    with (rev cur :: split_on c_comma [] ((c_sp :: k) ++ flat_map sep_item rest)).
  f_equal.
  rewrite (split_on_nosep (c_sp :: k)) by (constructor; [reflexivity|exact Hk]).
  rewrite app_nil_r. rewrite (IH _ Hr). rewrite rev_involutive. reflexivity.
Qed.

Lemma strip_edges' (a : list N) : hd_not is_space a -> hd_not is_space (rev a) -> strip a = a.
Proof.
  intros H1 H2. unfold strip, rstrip. rewrite (lstrip_hd a H1). rewrite (lstrip_hd _ H2). apply rev_involutive.
Qed.

Lemma strip_item (it : list N) : item_ok it -> strip it = it.
Proof.
  intros (_ & _ & H1 & H2).
  apply strip_edges'; eapply hd_not_weaken; try eassumption; apply edge_space.
Qed.

Lemma strip_sp (it : list N) : strip (c_sp :: it) = strip it.
Proof. reflexivity. Qed.

Definition scope_folder (part : str) (acc : res (list scalar)) : res (list scalar) :=
  bind acc (fun l => bind (parse_value (strip part)) (fun v => Ok (v :: l))).

Lemma scope_fold : forall (parts : list (list N)) vs,
  Forall2 (fun part v => parse_value (strip part) = Ok v) parts vs ->
  fold_right scope_folder (Ok []) parts = Ok vs.
Proof.
  induction 1 as [|part v parts vs Hp _ IH]; cbn [fold_right]; [reflexivity|].
  unfold scope_folder at 1. rewrite IH. cbn [bind]. rewrite Hp. reflexivity.
Qed.

Lemma validate_items : forall (its : list (list N)) vs, its <> [] -> Forall item_ok its ->
  Forall2 (fun it v => parse_value it = Ok v) its vs ->
  validate_scope ([c_lbrk] ++ join [c_comma; c_sp] its ++ [c_rbrk]) = Ok vs.
Proof.
  intros [|it1 rest] vs Hne Hok Hpv; [congruence|].
  rewrite join_flat. change (fun k : list N => [c_comma; c_sp] ++ k) with sep_item.
  pose proof (joined_last rest it1 Hok) as Hlast.
  inversion Hok as [|a b Hit1 Hrest]; subst.
  assert (Hnc : Forall nocomma rest).
  { eapply Forall_impl; [|exact Hrest]. intros k Hk. apply Hk. }
  destruct Hit1 as (Hne1 & Hnc1 & Hhd1 & Hrv1).
  set (J := it1 ++ flat_map sep_item rest) in *.
  unfold validate_scope.
  change (looks_like_list ([c_lbrk] ++ J ++ [c_rbrk])) with true. cbv iota.
  rewrite strip_by_bracketed.
  - unfold J. rewrite split_on_nosep by exact Hnc1. rewrite app_nil_r.
    rewrite split_on_items by exact Hnc. rewrite rev_involutive.
    apply scope_fold.
    inversion Hpv as [|x v l vs' Hx Hl]; subst. constructor.
    + rewrite strip_item; [exact Hx|repeat split; assumption].
    + clear - Hl Hrest. induction Hl as [|k v l vs Hk _ IH]; cbn [map]; constructor.
      * rewrite strip_sp. inversion Hrest; subst. rewrite strip_item; assumption.
      * apply IH. inversion Hrest; assumption.
  - unfold J. destruct it1; [congruence|discriminate].
  - unfold J. apply hd_not_app; [exact Hne1|]. eapply hd_not_weaken; [apply edge_strip|exact Hhd1].
  - eapply hd_not_weaken; [apply edge_strip|exact Hlast].
Qed.

Lemma scope_word_item : forall k, scope_word k -> item_ok k.
Proof.
  intros k (Hne & Hw & _).
  assert (Hedge : Forall (fun c => edge c = false) k).
  { eapply Forall_impl; [|exact Hw]. intros c Hc.
    destruct (word_char_facts c Hc) as (Hs & Hl & Hr & Hsp & _).
    unfold edge, scope_strip_char. rewrite Hs, Hl, Hr, Hsp. reflexivity. }
  repeat split.
  - exact Hne.
  - eapply Forall_impl; [|exact Hw]. intros c Hc. apply (word_char_facts c Hc).
  - apply (Forall_hd_not (fun c => edge c = false)); [auto|exact Hedge].
  - apply (Forall_hd_not (fun c => edge c = false)); [auto|apply Forall_rev; exact Hedge].
Qed.

Lemma scope_list_ok : forall ks, ks <> [] -> Forall scope_word ks -> validate_scope (bracketed ks) = Ok (map SStr ks).
Proof.
  intros ks Hne Hw. unfold bracketed. apply validate_items.
  - exact Hne.
  - eapply Forall_impl; [|exact Hw]. apply scope_word_item.
  - clear Hne. induction Hw as [|k ks Hk _ IH]; cbn [map]; constructor; [apply Hk|exact IH].
Qed.

Lemma parse_value_sq : forall k : list N, k <> [] -> parse_value (sq k) = Ok (SStr k).
Proof.
  intros k Hne. unfold parse_value.
  rewrite (proj1 (unquote_quoted k)).
  replace (nonempty k) with true by (destruct k; [congruence|reflexivity]).
  assert (Hs : strip (sq k) = sq k).
  { unfold sq. apply strip_edges'; [reflexivity|].
    change (c_sq :: k ++ [c_sq]) with ((c_sq :: k) ++ [c_sq]). rewrite rev_app_distr. reflexivity. }
  rewrite Hs. unfold sq. reflexivity.
Qed.

Lemma sq_item : forall k, scope_word k -> item_ok (sq k).
Proof.
  intros k (Hne & Hw & _). unfold sq. split; [|split; [|split; [vm_compute; reflexivity|]]].
  - discriminate.
  - constructor; [reflexivity|]. apply Forall_app. split.
    + eapply Forall_impl; [|exact Hw]. intros c Hc. apply (word_char_facts c Hc).
    + constructor; [reflexivity|constructor].
  - change (c_sq :: k ++ [c_sq]) with ((c_sq :: k) ++ [c_sq]). rewrite rev_app_distr. vm_compute. reflexivity.
Qed.

Lemma scope_quoted_ok : forall ks, ks <> [] -> Forall scope_word ks -> validate_scope (quoted_bracketed ks) = Ok (map SStr ks).
Proof.
  intros ks Hne Hw. unfold quoted_bracketed. apply validate_items.
  - destruct ks; [congruence|discriminate].
  - clear Hne. induction Hw as [|k ks Hk _ IH]; cbn [map]; constructor; [apply sq_item; exact Hk|exact IH].
  - clear Hne. induction Hw as [|k ks Hk _ IH]; cbn [map]; constructor; [|exact IH].
    apply parse_value_sq. apply Hk.
Qed.
