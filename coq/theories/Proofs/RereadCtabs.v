(* C16 on documents with comments: _clean keeps a re-readable SDict.
   At every dict level of a re-readable SDict the block comment texts, and the line comment texts, that the placeholder
   keys look up are pairwise distinct (ctabs), hence sd_clean is the identity on it. *)
From Coq Require Import String.
From Coq Require Import NArith ZArith List Bool Lia Permutation.
From DictIO Require Import Chars Str Value Scalar KeyPath SDict Layout Lexer TokParser Reader TreeSpec NativeSpec LayoutSpec E2ESpec MiscSpec.
From DictIO Require ScalarProofs TokProofs KeyPathProofs.
From DictIO Require Import SDictProofs WriteProofs.
From DictIO Require Import E2EProofs E2EHoles E2EInsert E2EKeyTok E2EFullProofs.
From DictIO Require Import RereadPlain RereadStr RereadTree RereadWrite RereadLex RereadNum RereadProofs RereadFix RereadOff.
Import ListNotations. Open Scope N_scope.

(* ================================================================================================ *)
(* 1. lists                                                                                         *)
(* ================================================================================================ *)

Lemma NoDup_map_filter {A B} (f : A -> B) (p : A -> bool) (l : list A) : NoDup (map f l) -> NoDup (map f (filter p l)).
Proof.
  induction l as [|a l IH]; intros H; [constructor|]. cbn [map] in H. inversion H as [|y ys Hy Hnd]; subst.
  cbn [filter]. destruct (p a); [|exact (IH Hnd)]. cbn [map]. constructor; [|exact (IH Hnd)].
  intros Hin. apply Hy. apply in_map_iff in Hin. destruct Hin as (z & Ez & Hz). apply filter_In in Hz.
  rewrite <- Ez. apply in_map. exact (proj1 Hz).
Qed.

(* g is at least as fine as f on l *)
Lemma NoDup_map_transfer {A B C} (f : A -> B) (g : A -> C) (l : list A) :
  NoDup (map f l) -> (forall a b, In a l -> In b l -> g a = g b -> f a = f b) -> NoDup (map g l).
Proof.
  induction l as [|a l IH]; intros H Hfg; [constructor|]. cbn [map] in *. inversion H as [|y ys Hy Hnd]; subst. constructor.
  - intros Hin. apply Hy. apply in_map_iff in Hin. destruct Hin as (z & Ez & Hz).
    rewrite <- (Hfg z a (or_intror Hz) (or_introl eq_refl) Ez). apply in_map. exact Hz.
  - apply (IH Hnd). intros x y Hx Hy' E. exact (Hfg x y (or_intror Hx) (or_intror Hy') E).
Qed.

Lemma NoDup_app_sub {A} (p a b : list A) : (forall y, In y a -> In y b) -> (NoDup b -> NoDup a) -> NoDup (p ++ b) -> NoDup (p ++ a).
Proof.
  intros Hsub Hnd. induction p as [|x p IH]; intros H; [exact (Hnd H)|]. cbn [app] in *. inversion H as [|y ys Hy Hr]; subst.
  constructor; [|exact (IH Hr)]. intros Hin. apply Hy. apply in_app_or in Hin. apply in_or_app.
  destruct Hin as [Hin|Hin]; [left; exact Hin|right; exact (Hsub x Hin)].
Qed.

Lemma Permutation_filter' {A} (p : A -> bool) (a b : list A) : Permutation a b -> Permutation (filter p a) (filter p b).
Proof.
  induction 1 as [|x a b _ IH|x y a|a b c _ IH1 _ IH2].
  - constructor.
  - cbn [filter]. destruct (p x); [constructor; exact IH|exact IH].
  - cbn [filter]. destruct (p x); destruct (p y); try apply Permutation_refl. apply perm_swap.
  - exact (Permutation_trans IH1 IH2).
Qed.

(* map after filter *)
Definition mf {A B} (f : A -> B) (p : A -> bool) (l : list A) : list B := map f (filter p l).
Lemma mf_app {A B} (f : A -> B) p (a b : list A) : mf f p (a ++ b) = mf f p a ++ mf f p b.
Proof. unfold mf. rewrite filter_app, map_app. reflexivity. Qed.
Lemma mf_perm {A B} (f : A -> B) p (a b : list A) : Permutation a b -> Permutation (mf f p a) (mf f p b).
Proof. intros H. unfold mf. apply Permutation_map. apply Permutation_filter'. exact H. Qed.

(* ================================================================================================ *)
(* 2. the comment entries of one dict level                                                         *)
(* ================================================================================================ *)

Definition lvl_cms (lvl : nat) (kvs : list (key * tree)) : list (nat * str * str) :=
  flat_map (fun kc => match cm_entry kc with Some (n, x) => [(lvl, n, x)] | None => [] end) kvs.

Lemma lvl_cms_cons lvl kc kvs :
  lvl_cms lvl (kc :: kvs) = (match cm_entry kc with Some (n, x) => [(lvl, n, x)] | None => [] end) ++ lvl_cms lvl kvs.
Proof. reflexivity. Qed.

Lemma lvl_cms_In lvl kvs c : In c (lvl_cms lvl kvs) -> exists kc n x, In kc kvs /\ cm_entry kc = Some (n, x) /\ c = (lvl, n, x).
Proof.
  unfold lvl_cms. intros H. apply in_flat_map in H. destruct H as (kc & Hin & Hc). exists kc.
  destruct (cm_entry kc) as [[n x]|]; [|destruct Hc]. destruct Hc as [<-|[]]. exists n, x. repeat split. exact Hin.
Qed.

(* the comment entries of a level are among the comment events of the dict, in the same order *)
Lemma lvl_sub {B} (f : nat * str * str -> B) p kvs lvl :
  (forall y, In y (mf f p (lvl_cms lvl kvs)) -> In y (mf f p (cms_of (events lvl (Dict kvs))))) /\
  (NoDup (mf f p (cms_of (events lvl (Dict kvs)))) -> NoDup (mf f p (lvl_cms lvl kvs))).
Proof.
  induction kvs as [|kc kvs [IH1 IH2]]; [split; [intros y []|intros _; constructor]|].
  rewrite events_cons, cms_of_app, lvl_cms_cons, !mf_app. unfold entry_events.
  destruct (cm_entry kc) as [[n x]|].
  - cbn [cms_of ev_cm]. split.
    + intros y Hy. apply in_app_or in Hy. apply in_or_app. destruct Hy as [Hy|Hy]; [left; exact Hy|right; exact (IH1 y Hy)].
    + apply NoDup_app_sub; assumption.
  - change (mf f p []) with (@nil B). cbn [app]. split.
    + intros y Hy. apply in_or_app. right. exact (IH1 y Hy).
    + intros H. apply NoDup_app_r in H. exact (IH2 H).
Qed.

Lemma cm_entry_dict k d : cm_entry (k, Dict d) = None.
Proof. destruct k; reflexivity. Qed.

Lemma cms_child lvl l1 k d l2 :
  cms_of (events lvl (Dict (l1 ++ (k, Dict d) :: l2))) =
  cms_of (events lvl (Dict l1)) ++ cms_of (events (S lvl) (Dict d)) ++ cms_of (events lvl (Dict l2)).
Proof.
  rewrite events_app, events_cons. unfold entry_events. rewrite cm_entry_dict. cbn [fst snd].
  rewrite !cms_of_app. cbn [cms_of ev_cm]. rewrite cms_of_app. cbn [cms_of ev_cm]. rewrite app_nil_r. reflexivity.
Qed.

(* ================================================================================================ *)
(* 3. one level of a document whose comment entries are placeholder entries                         *)
(* ================================================================================================ *)

Section Tabs.
  Variable lc bc : list (N * str).
  Hypothesis HBd : NoDup (map snd bc).

  Definition rtx (c : nat * str * str) : str := res_text lc bc (cm_name c) (cm_text c).
  Definition pL (c : nat * str * str) : bool := is_ph w_LINECOMMENT (cm_name c).
  Definition pB (c : nat * str * str) : bool := is_ph w_BLOCKCOMMENT (cm_name c).
  (* the looked-up texts of the line / block comment entries *)
  Definition ltx (l : list (nat * str * str)) : list str := mf rtx pL l.
  Definition btx (l : list (nat * str * str)) : list str := mf rtx pB l.

  Definition lvl_ok (lvl : nat) (kvs : list (key * tree)) : Prop :=
    forall kc n x, In kc kvs -> cm_entry kc = Some (n, x) -> ph_entry_ok lc bc (lvl, n, x) = true.
  Definition lvl_simp (kvs : list (key * tree)) : Prop :=
    forall kc, In kc kvs -> cm_entry kc = None -> simple_key (fst kc) = true.

  (* a placeholder entry is a line comment entry or a block comment entry *)
  Lemma ph_entry_cases lvl n x : ph_entry_ok lc bc (lvl, n, x) = true ->
    (exists i t, n = lph i /\ i < 1000000 /\ tlookup i lc = Some t) \/
    (exists i b, n = bph i /\ i < 1000000 /\ tlookup i bc = Some b).
  Proof.
    intros H. destruct (ph_entry_inv _ _ _ _ _ H) as (_ & _ & [[Hp (t & Ht)]|[Hp (b & Hb)]]).
    - left. destruct (is_ph_inv _ _ Hp) as [En Hi]. exists (ph_id w_LINECOMMENT n), t. repeat split; assumption.
    - right. destruct (is_ph_inv _ _ Hp) as [En Hi]. exists (ph_id w_BLOCKCOMMENT n), b. repeat split; assumption.
  Qed.

  Lemma res_text_lph i x t : i < 1000000 -> tlookup i lc = Some t -> res_text lc bc (lph i) x = t.
  Proof.
    intros Hi Ht. unfold res_text. unfold lph at 1. rewrite (is_ph_ph w_LINECOMMENT i Hi). rewrite ph_id_lph. unfold tget. rewrite Ht. reflexivity.
  Qed.
  Lemma res_text_bph i x b : i < 1000000 -> tlookup i bc = Some b -> res_text lc bc (bph i) x = b.
  Proof.
    intros Hi Hb. unfold res_text. rewrite is_ph_cross_lb. unfold bph at 1. rewrite (is_ph_ph w_BLOCKCOMMENT i Hi). rewrite ph_id_bph. unfold tget. rewrite Hb. reflexivity.
  Qed.

  Lemma kvals_one {V} k i (v : V) tab : key_id k = Some i -> tlookup i tab = Some v -> kvals [k] tab = [v].
  Proof. intros Hk Ht. unfold kvals. cbn [flat_map]. rewrite Hk, Ht. reflexivity. Qed.

  Lemma kvals_lvl lvl kvs : lvl_ok lvl kvs -> lvl_simp kvs ->
    kvals (keys_of_kind PhBlock kvs) bc = btx (lvl_cms lvl kvs) /\ kvals (keys_of_kind PhLine kvs) lc = ltx (lvl_cms lvl kvs).
  Proof.
    induction kvs as [|kc kvs IH]; intros Hok Hsi; [split; reflexivity|].
    destruct IH as [I1 I2]; [intros kc' n x Hin' Hc'; exact (Hok kc' n x (or_intror Hin') Hc')|intros kc' Hin' Hc'; exact (Hsi kc' (or_intror Hin') Hc')|].
    rewrite !keys_of_kind_cons, !kvals_app, I1, I2, lvl_cms_cons. unfold btx, ltx. rewrite !mf_app.
    destruct (cm_entry kc) as [[n x]|] eqn:Ec.
    - destruct (cm_entry_inv _ _ _ Ec) as [-> _]. cbn [fst].
      destruct (ph_entry_cases lvl n x (Hok _ n x (or_introl eq_refl) Ec)) as [(i & t & -> & Hi & Ht)|(i & b & -> & Hi & Hb)].
      + rewrite (lph_kind i Hi). unfold mf. cbn [filter]. unfold pB, pL. cbn [cm_name fst snd].
        rewrite is_ph_cross_bl. unfold lph at 2. rewrite (is_ph_ph w_LINECOMMENT i Hi). cbn [map]. unfold rtx. cbn [cm_name cm_text fst snd].
        rewrite (res_text_lph i x t Hi Ht).
        rewrite (kvals_one (KS (lph i)) i t lc (first_6digits_ph w_LINECOMMENT i (or_introl eq_refl) Hi) Ht). split; reflexivity.
      + rewrite (bph_kind i Hi). unfold mf. cbn [filter]. unfold pB, pL. cbn [cm_name fst snd].
        rewrite is_ph_cross_lb. unfold bph at 2. rewrite (is_ph_ph w_BLOCKCOMMENT i Hi). cbn [map]. unfold rtx. cbn [cm_name cm_text fst snd].
        rewrite (res_text_bph i x b Hi Hb).
        rewrite (kvals_one (KS (bph i)) i b bc (first_6digits_ph w_BLOCKCOMMENT i (or_intror eq_refl) Hi) Hb). split; reflexivity.
    - rewrite (simple_kind _ (Hsi kc (or_introl eq_refl) Ec)). split; reflexivity.
  Qed.

  (* block comment entries with distinct names have distinct texts *)
  Lemma block_texts_nodup (L : list (nat * str * str)) :
    (forall c, In c L -> ph_entry_ok lc bc c = true /\ pB c = true) -> NoDup (map cm_name L) -> NoDup (map rtx L).
  Proof.
    intros HL Hnd. apply (NoDup_map_transfer cm_name rtx L Hnd). intros [[l1 n1] x1] [[l2 n2] x2] H1 H2 E.
    destruct (HL _ H1) as [O1 P1]. destruct (HL _ H2) as [O2 P2]. unfold pB in P1, P2. unfold rtx in E. cbn [cm_name cm_text fst snd] in *.
    destruct (ph_entry_cases _ _ _ O1) as [(i1 & t1 & -> & _)|(i1 & b1 & -> & Hi1 & Hb1)]; [rewrite is_ph_cross_bl in P1; discriminate P1|].
    destruct (ph_entry_cases _ _ _ O2) as [(i2 & t2 & -> & _)|(i2 & b2 & -> & Hi2 & Hb2)]; [rewrite is_ph_cross_bl in P2; discriminate P2|].
    rewrite (res_text_bph i1 x1 b1 Hi1 Hb1), (res_text_bph i2 x2 b2 Hi2 Hb2) in E. subst b2.
    pose proof (NoDup_map_inj_on snd bc HBd (i1, b1) (i2, b1) (tlookup_In _ _ _ Hb1) (tlookup_In _ _ _ Hb2) eq_refl) as Ei.
    inversion Ei. reflexivity.
  Qed.

  (* ================================================================================================ *)
  (* 4. the whole document                                                                          *)
  (* ================================================================================================ *)

  Theorem ctabs_of : forall t lvl, cshape t = true ->
    (forall c, In c (cms_of (events lvl t)) -> ph_entry_ok lc bc c = true) ->
    NoDup (map cm_name (cms_of (events lvl t))) ->
    NoDup (ltx (cms_of (events lvl t))) ->
    ctabs lc bc t.
  Proof.
    induction t as [v|kvs IH|ts IH] using tree_ind'; intros lvl Hs Hent Hnm Hlt; try exact I.
    assert (Hok : lvl_ok lvl kvs).
    { intros kc n x Hin Hc. apply Hent. apply In_cms. rewrite events_flat. apply in_flat_map. exists kc. split; [exact Hin|].
      unfold entry_events. rewrite Hc. left. reflexivity. }
    assert (Hsi : lvl_simp kvs).
    { intros kc Hin Hc. rewrite cshape_forallb, forallb_forall in Hs. pose proof (Hs _ Hin) as Hse. unfold cshape_entry in Hse.
      rewrite Hc in Hse. apply andb_true_iff in Hse. exact (proj1 Hse). }
    destruct (kvals_lvl lvl kvs Hok Hsi) as [Kb Kl].
    apply ctabs_dict.
    - rewrite Kb. unfold btx, mf. apply block_texts_nodup.
      + intros c Hc. apply filter_In in Hc. destruct Hc as [Hc Hp]. split; [|exact Hp].
        destruct (lvl_cms_In _ _ _ Hc) as (kc & n & x & Hin & Ec & ->). exact (Hok kc n x Hin Ec).
      + apply (proj2 (lvl_sub cm_name pB kvs lvl)). unfold mf. apply NoDup_map_filter. exact Hnm.
    - rewrite Kl. exact (proj2 (lvl_sub rtx pL kvs lvl) Hlt).
    - intros k d Hin. rewrite Forall_forall in IH. pose proof (IH (k, Dict d) Hin) as IHd. cbn [snd] in IHd.
      assert (Hsd : cshape (Dict d) = true).
      { rewrite cshape_forallb, forallb_forall in Hs. pose proof (Hs _ Hin) as Hse. unfold cshape_entry in Hse.
        rewrite cm_entry_dict in Hse. cbn [fst snd] in Hse. apply andb_true_iff in Hse. exact (proj2 Hse). }
      destruct (in_split _ _ Hin) as (l1 & l2 & ->). rewrite cms_child in Hent, Hnm, Hlt.
      apply (IHd (S lvl) Hsd).
      + intros c Hc. apply Hent. apply in_or_app. right. apply in_or_app. left. exact Hc.
      + rewrite !map_app in Hnm. exact (NoDup_app_l _ _ (NoDup_app_r _ _ Hnm)).
      + unfold ltx in Hlt |- *. rewrite !mf_app in Hlt. exact (NoDup_app_l _ _ (NoDup_app_r _ _ Hlt)).
  Qed.

  (* ---- the line comment texts of the canonical form ------------------------------------------------ *)
  Lemma res_name_line lvl n x : ph_entry_ok lc bc (lvl, n, x) = true -> str_eqb (res_name n) w_LINECOMMENT = is_ph w_LINECOMMENT n.
  Proof.
    intros H. destruct (ph_entry_cases _ _ _ H) as [(i & t & -> & Hi & _)|(i & b & -> & Hi & _)]; unfold res_name.
    - unfold lph. rewrite (is_ph_ph w_LINECOMMENT i Hi). reflexivity.
    - rewrite is_ph_cross_lb. unfold bph. rewrite (is_ph_ph w_BLOCKCOMMENT i Hi). reflexivity.
  Qed.

  Lemma lcx_canon es : (forall lvl n x, In (ECm lvl n x) es -> ph_entry_ok lc bc (lvl, n, x) = true) ->
    lcx (map (ev_map (fun n _ => res_name n) (res_text lc bc) idf) es) = ltx (cms_of es).
  Proof.
    induction es as [|e es IH]; intros H; [reflexivity|]. cbn [map].
    assert (IH' := IH (fun lvl n x Hin => H lvl n x (or_intror Hin))).
    destruct e as [lvl k v|lvl k l|lvl k|lvl|lvl n x]; cbn [ev_map lcx cms_of ev_cm]; try exact IH'.
    rewrite (res_name_line lvl n x (H lvl n x (or_introl eq_refl))). unfold ltx, mf. cbn [filter]. unfold pL at 1. cbn [cm_name fst snd].
    destruct (is_ph w_LINECOMMENT n); [|exact IH']. cbn [map]. rewrite IH'. reflexivity.
  Qed.
End Tabs.

Lemma lcx_hdr c : lcx (events 0 (Dict (hdr c))) = lcx (events 0 (Dict (csort c))).
Proof. unfold hdr. cbv zeta. destruct (has_header (csort c)); [reflexivity|]. rewrite hdr_entry_events. reflexivity. Qed.

(* the looked-up texts of all line comment entries of a re-readable SDict are pairwise distinct *)
Lemma rereadable_line_texts s : wfacts s -> NoDup (ltx (sd_lc s) (sd_bc s) (cms (Dict (sd_data s)))).
Proof.
  intros HW. destruct (cdoc_ok_inv _ (wf_canon s HW)) as (_ & _ & _ & _ & Hl & _). unfold lc_list in Hl.
  rewrite lcx_hdr, (canon_events s HW) in Hl.
  rewrite (lcx_canon (sd_lc s) (sd_bc s) _ (E0_entry s HW)) in Hl.
  apply (Permutation_NoDup (l := ltx (sd_lc s) (sd_bc s) (cms_of (events 0 (Dict (sort_top (sd_data s))))))); [|exact Hl].
  unfold ltx. apply mf_perm. exact (cms_perm _ _ (D_perm s HW)).
Qed.

Theorem rereadable_ctabs : forall s, rereadable s = true -> ctabs (sd_lc s) (sd_bc s) (Dict (sd_data s)).
Proof.
  intros s Hr. pose proof (rereadable_facts s Hr) as HW.
  exact (ctabs_of (sd_lc s) (sd_bc s) (wf_bc_dist s HW) (Dict (sd_data s)) 0%nat (wf_shape s HW) (wf_entries s HW) (wf_names s HW)
                  (rereadable_line_texts s HW)).
Qed.

Theorem rereadable_clean : forall s, rereadable s = true -> sd_clean s = s.
Proof.
  intros s Hr. pose proof (rereadable_facts s Hr) as HW. pose proof (rereadable_ctabs s Hr) as Hc.
  pose proof (wf_data s HW) as Hw. pose proof (wf_inc s HW) as Hi.
  destruct s as [d lc bc inc ex]. cbn [sd_data sd_lc sd_bc sd_inc] in *. subst inc. exact (sd_clean_keep d lc bc ex Hc Hw).
Qed.

Print Assumptions rereadable_ctabs.
Print Assumptions rereadable_clean.
