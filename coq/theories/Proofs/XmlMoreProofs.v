(* More proofs for C11:
   A. writing: the leaf at an arbitrary key path becomes the text of the element addressed by that path
   B. reading with add_node_numbering = False
   C. reading: the explicit shape of the i-th entry *)
From Coq Require Import String.
From Coq Require Import NArith ZArith List Bool Lia.
From DictIO Require Import Chars Str Value Scalar KeyPath SDict Lexer Reader Expr Xml
     TypeTable TreeSpec MiscSpec LayoutSpec ScalarProofs SDictProofs SemProofs CliProofs XmlProofs.
Import ListNotations.
Open Scope N_scope.

(* ================================================================================================ *)
(* A. key paths of the dict and child positions of the written element tree                          *)
(* ================================================================================================ *)
(* the text the writer gives the element of a scalar leaf: str(value), None is written as the empty text *)
Definition leaf_text (v : scalar) : str := match v with SNone => [] | _ => py_str v end.

(* position of the child element written for key k: the number of ordinary (element making) entries in
   front of the (first) entry with key k *)
Fixpoint xml_pos (k : key) (kvs : list (key * tree)) : nat :=
  match kvs with
  | [] => 0%nat
  | kt :: l => if key_eqb k (fst kt) then 0%nat
               else if pop_ns kt then S (xml_pos k l) else xml_pos k l
  end.
(* the child positions along a key path *)
Fixpoint xml_pos_path (t : tree) (p : list key) : list nat :=
  match p, t with
  | k :: p', Dict kvs => xml_pos k kvs :: match alookup k kvs with Some c => xml_pos_path c p' | None => [] end
  | _, _ => []
  end.
(* follow child positions in an element tree; tags_at collects the tags passed on the way *)
Fixpoint elem_at (e : elem) (p : list nat) : option elem :=
  match p with
  | [] => Some e
  | i :: p' => match nth_error (elem_children e) i with Some ch => elem_at ch p' | None => None end
  end.
Fixpoint tags_at (e : elem) (p : list nat) : list str :=
  match p with
  | [] => []
  | i :: p' => match nth_error (elem_children e) i with Some ch => tag_of ch :: tags_at ch p' | None => [] end
  end.
Definition xml_tag_of_key (k : key) : str := strip_numbering (key_text_xml k).
Definition ordinary_key (k : key) : bool := negb (special_xml_key (key_text_xml k)).

Lemma xml_pos_nth : forall k c kvs, alookup k kvs = Some c -> ordinary_key k = true ->
  nth_error (map pop_child (filter pop_ns kvs)) (xml_pos k kvs) = Some (pop_child (k, c)).
Proof.
  intros k c. induction kvs as [|[k' c'] l IH]; intros Hl Ho; [discriminate|].
  cbn [alookup] in Hl. cbn [xml_pos fst filter]. destruct (key_eqb k k') eqn:E.
  - apply SDictProofs.key_eqb_eq in E. subst k'. injection Hl as ->.
    assert (Hp : pop_ns (k, c) = true) by exact Ho. rewrite Hp. reflexivity.
  - destruct (pop_ns (k', c')); [cbn [map nth_error]|]; apply IH; assumption.
Qed.

Lemma pop_child_tag : forall k c, tag_of (pop_child (k, c)) = xml_tag_of_key k.
Proof.
  intros k c. unfold pop_child, xml_tag_of_key. cbn [fst snd].
  destruct c as [[]| |]; try reflexivity; apply populate_tag.
Qed.

Lemma pop_child_leaf : forall k v, pop_child (k, Leaf v) = Elem (xml_tag_of_key k) [] (Some (leaf_text v)) [].
Proof. intros k v. destruct v; reflexivity. Qed.

Lemma pop_child_dict : forall k kvs, pop_child (k, Dict kvs) = populate (xml_tag_of_key k) (Dict kvs).
Proof. reflexivity. Qed.

Lemma last_cons2 : forall {A} (a b : A) l d, last (a :: b :: l) d = last (b :: l) d.
Proof. reflexivity. Qed.
Lemma last_default : forall {A} (l : list A) a d d', last (a :: l) d = last (a :: l) d'.
Proof. intros A l. induction l as [|b l IH]; intros a d d'; [reflexivity|]. rewrite !last_cons2. apply IH. Qed.

(* the subtree at the key path k :: p of a dict is written as the element at the corresponding child positions; the
   tags passed on the way are the keys of the path (without running numbers) *)
Theorem populate_path : forall p k tag kvs c,
  get_dpath (Dict kvs) (k :: p) = Some c -> forallb ordinary_key (k :: p) = true ->
  elem_at (populate tag (Dict kvs)) (xml_pos_path (Dict kvs) (k :: p)) = Some (pop_child (last (k :: p) k, c))
  /\ tags_at (populate tag (Dict kvs)) (xml_pos_path (Dict kvs) (k :: p)) = map xml_tag_of_key (k :: p).
Proof.
  induction p as [|k2 p IH]; intros k tag kvs c0 Hg Ho.
  - cbn [get_dpath] in Hg. destruct (alookup k kvs) as [c|] eqn:Hl; [|discriminate]. injection Hg as ->.
    cbn [forallb] in Ho. rewrite andb_true_r in Ho.
    cbn [xml_pos_path elem_at tags_at last map]. rewrite Hl.
    assert (E : match c0 with Leaf _ | _ => @nil nat end = []) by (destruct c0; reflexivity).
    destruct c0 as [w|kvs2|ts]; cbn [xml_pos_path elem_at tags_at];
      rewrite elem_children_populate_dict, (xml_pos_nth k _ kvs Hl Ho), pop_child_tag; split; reflexivity.
  - cbn [get_dpath] in Hg. destruct (alookup k kvs) as [c|] eqn:Hl; [|discriminate].
    destruct c as [w|kvs2|ts]; try discriminate.
    change (forallb ordinary_key (k :: k2 :: p)) with (ordinary_key k && forallb ordinary_key (k2 :: p)) in Ho.
    apply andb_true_iff in Ho. destruct Ho as [Hk Ho].
    change (get_dpath (Dict kvs2) (k2 :: p) = Some c0) in Hg.
    destruct (IH k2 (xml_tag_of_key k) kvs2 c0 Hg Ho) as [I1 I2].
    change (xml_pos_path (Dict kvs) (k :: k2 :: p))
      with (xml_pos k kvs :: match alookup k kvs with Some c => xml_pos_path c (k2 :: p) | None => [] end).
    rewrite Hl. cbn [elem_at tags_at]. rewrite elem_children_populate_dict, (xml_pos_nth k (Dict kvs2) kvs Hl Hk).
    rewrite pop_child_tag, pop_child_dict. rewrite last_cons2.
    split.
    + rewrite I1, (last_default p k2 k k2). reflexivity.
    + rewrite I2. reflexivity.
Qed.

(* every scalar leaf is the text of the element addressed by its key path *)
Theorem populate_leaf_path : forall p k tag kvs v,
  get_dpath (Dict kvs) (k :: p) = Some (Leaf v) -> forallb ordinary_key (k :: p) = true ->
  elem_at (populate tag (Dict kvs)) (xml_pos_path (Dict kvs) (k :: p)) =
    Some (Elem (xml_tag_of_key (last (k :: p) k)) [] (Some (leaf_text v)) [])
  /\ tags_at (populate tag (Dict kvs)) (xml_pos_path (Dict kvs) (k :: p)) = map xml_tag_of_key (k :: p).
Proof.
  intros p k tag kvs v Hg Ho. destruct (populate_path p k tag kvs _ Hg Ho) as [H1 H2].
  rewrite pop_child_leaf in H1. split; assumption.
Qed.

(* the text of an inner element: a _content entry (the last one, if there are several keys starting with _content) *)
Definition elem_text (e : elem) : option str := match e with Elem _ _ t _ => t end.
Definition content_key (kt : key * tree) : bool := starts_with (of_string "_content") (key_text_xml (fst kt)).

Lemma pop_go_text : forall l a t k,
  snd (fst (pop_go l a t k)) =
  match rev (filter content_key l) with kt :: _ => Some (content_text (snd kt)) | [] => t end.
Proof.
  induction l as [|[k0 item] l IH]; intros a t k; [reflexivity|].
  cbn [pop_go filter]. unfold content_key at 1. cbn [fst].
  destruct (starts_with (of_string "_content") (key_text_xml k0)) eqn:E.
  - rewrite IH. cbn [rev]. destruct (rev (filter content_key l)) as [|x r]; reflexivity.
  - destruct (starts_with (of_string "_attrib") (key_text_xml k0)).
    + destruct item; apply IH.
    + destruct (is_skip_key (key_text_xml k0)); apply IH.
Qed.

Lemma populate_text : forall tag kvs,
  elem_text (populate tag (Dict kvs)) =
  match rev (filter content_key kvs) with kt :: _ => Some (content_text (snd kt)) | [] => None end.
Proof.
  intros tag kvs. rewrite populate_dict. pose proof (pop_go_text kvs [] None []) as H.
  destruct (pop_go kvs [] None []) as [[a x] kd]. exact H.
Qed.

(* a _content entry below the key path k :: p is the text of the element addressed by k :: p (multi-line text is put
   on lines of its own) *)
Theorem populate_content_path : forall p k tag kvs kvs',
  get_dpath (Dict kvs) (k :: p) = Some (Dict kvs') -> forallb ordinary_key (k :: p) = true ->
  exists e, elem_at (populate tag (Dict kvs)) (xml_pos_path (Dict kvs) (k :: p)) = Some e /\
            tag_of e = xml_tag_of_key (last (k :: p) k) /\
            elem_text e = match rev (filter content_key kvs') with
                          | kt :: _ => Some (content_text (snd kt))
                          | [] => None
                          end.
Proof.
  intros p k tag kvs kvs' Hg Ho. destruct (populate_path p k tag kvs _ Hg Ho) as [H1 _].
  exists (pop_child (last (k :: p) k, Dict kvs')). split; [exact H1|]. split; [apply pop_child_tag|].
  rewrite pop_child_dict. apply populate_text.
Qed.

(* ================================================================================================ *)
(* B. the reader, with and without node numbering: one level                                         *)
(* ================================================================================================ *)
(* without numbering the tag itself is the key.  off_tag: the tag
     - is a plain word for the classifier (parse_key keeps it as the same string: not true / on / None / null ..,
       which Python turns into the keys True / None, and no quote character at either end),
     - is an ordinary key for the writer (not _content.., _attrib.., _..Opts, INCLUDE.., a comment key),
     - does not look like a numbered key (digits and an underscore in front would be removed on writing) *)
Definition plain_word (tag : str) : bool :=
  match parse_value tag with Ok (SStr s) => str_eqb s tag | _ => false end.
Definition off_tag (tag : str) : bool :=
  plain_word tag && negb (special_xml_key tag) && str_eqb (strip_numbering tag) tag.
(* sibling tags are pairwise distinct, at every level *)
Fixpoint sib_ok (e : elem) : bool :=
  match e with
  | Elem _ _ _ kids =>
      keys_nodup (map (fun ch => KS (tag_of ch)) kids)
      && forallb (fun ch => off_tag (tag_of ch)) kids
      && forallb sib_ok kids
  end.
Definition xml_ok_off (e : elem) : bool := xml_ok e && sib_ok e.

Definition mkkey (nb : bool) (i : Z) (tag : str) : key := if nb then nkey i tag else KS tag.
Definition tag_fit (nb : bool) (tag : str) : Prop := nb = false -> off_tag tag = true.

Lemma off_tag_inv : forall tag, off_tag tag = true ->
  parse_value tag = Ok (SStr tag) /\ special_xml_key tag = false /\ strip_numbering tag = tag.
Proof.
  intros tag H. unfold off_tag in H. apply andb_true_iff in H. destruct H as [H H3].
  apply andb_true_iff in H. destruct H as [H1 H2]. split; [|split].
  - unfold plain_word in H1. destruct (parse_value tag) as [v|]; [|discriminate]. destruct v as [| | | |s]; try discriminate.
    apply ScalarProofs.str_eqb_eq in H1. subst s. reflexivity.
  - apply negb_true_iff. exact H2.
  - apply ScalarProofs.str_eqb_eq. exact H3.
Qed.

Lemma node_key_mk : forall nb i tag, in_range i -> quote_free tag = true -> tag_fit nb tag ->
  node_key nb i tag = mkkey nb i tag.
Proof.
  intros [|] i tag Hi Hq Hf.
  - apply node_key_numbered; assumption.
  - destruct (off_tag_inv tag (Hf eq_refl)) as (Hp & _ & _). unfold node_key, mkkey. rewrite Hp. reflexivity.
Qed.

Lemma mkkey_not_attr : forall nb i tag, in_range i -> tag_fit nb tag -> mkkey nb i tag <> k_attributes.
Proof.
  intros [|] i tag Hi Hf E; unfold mkkey in E.
  - unfold nkey, k_attributes in E. injection E as E.
    destruct (pad6_head (Z.to_N i) ltac:(unfold in_range in Hi; lia)) as (d & t & Ep & Hd). rewrite Ep in E.
    cbn [app] in E. change (of_string "_attributes") with (95 :: of_string "attributes") in E.
    injection E as E _. subst d. discriminate Hd.
  - destruct (off_tag_inv tag (Hf eq_refl)) as (_ & Hs & _). unfold k_attributes in E. injection E as E. subst tag.
    vm_compute in Hs. discriminate Hs.
Qed.

Lemma mkkey_ordinary : forall nb i tag v, in_range i -> tag_fit nb tag -> pop_ns (mkkey nb i tag, v) = true.
Proof.
  intros [|] i tag v Hi Hf; unfold mkkey.
  - apply nkey_ordinary. exact Hi.
  - destruct (off_tag_inv tag (Hf eq_refl)) as (_ & Hs & _). unfold pop_ns. cbn [fst key_text_xml]. rewrite Hs. reflexivity.
Qed.

Lemma mkkey_tag : forall nb i tag, in_range i -> tag_fit nb tag -> xml_tag_of_key (mkkey nb i tag) = tag.
Proof.
  intros [|] i tag Hi Hf; unfold mkkey, xml_tag_of_key.
  - unfold nkey. cbn [key_text_xml]. apply numbering_removed. unfold in_range in Hi. lia.
  - destruct (off_tag_inv tag (Hf eq_refl)) as (_ & _ & Hs). exact Hs.
Qed.

(* ---- fuel --------------------------------------------------------------------------------------- *)
Lemma number_tags_snd : forall l c, map snd (fst (number_tags c l)) = l.
Proof.
  induction l as [|a l IH]; intros c; [reflexivity|]. cbn [number_tags].
  specialize (IH (counter_next c)). destruct (number_tags (counter_next c) l) as [r c']. cbn [fst snd map] in *.
  rewrite IH. reflexivity.
Qed.

Lemma fold_left_ext_in : forall {A B} (g h : A -> B -> A) l,
  (forall a x, In x l -> g a x = h a x) -> forall a, fold_left g l a = fold_left h l a.
Proof.
  intros A B g h. induction l as [|x l IH]; intros H a; [reflexivity|]. cbn [fold_left].
  rewrite (H a x (or_introl eq_refl)). apply IH. intros a' y Hy. apply H. right. exact Hy.
Qed.

Lemma parse_nodes_fuel : forall f1 f2 nb e c, (elem_depth e <= f1)%nat -> (elem_depth e <= f2)%nat ->
  parse_nodes f1 nb e c = parse_nodes f2 nb e c.
Proof.
  induction f1 as [|f1 IH]; intros f2 nb e c H1 H2; [destruct e; cbn [elem_depth] in H1; lia|].
  destruct f2 as [|f2]; [destruct e; cbn [elem_depth] in H2; lia|].
  destruct e as [t a x kids]. rewrite !parse_nodes_S.
  pose proof (number_tags_snd kids c) as Hs. destruct (number_tags c kids) as [numbered c0]. cbn [fst] in Hs.
  rewrite (fold_left_ext_in (pn_step f1 nb) (pn_step f2 nb) numbered); [reflexivity|].
  intros [d c1] [i ch] Hin. destruct ch as [tag attrs text gk]. unfold pn_step.
  destruct gk as [|g gk]; [reflexivity|].
  assert (Hk : In (Elem tag attrs text (g :: gk)) kids).
  { rewrite <- Hs. apply (in_map snd) in Hin. exact Hin. }
  pose proof (depth_kid _ _ Hk) as Hd. cbn [elem_depth] in H1, H2.
  rewrite (IH f2 nb (Elem tag attrs text (g :: gk)) c1); [reflexivity| |]; lia.
Qed.

Lemma parse_nodes_xml_parse : forall f nb e c, (elem_depth e <= f)%nat -> parse_nodes f nb e c = xml_parse nb e c.
Proof. intros f nb e c H. unfold xml_parse. apply parse_nodes_fuel; [exact H|lia]. Qed.

(* ---- one level ----------------------------------------------------------------------------------- *)
Lemma pn_step_eq' : forall f nb d c i tag attrs text kids,
  pn_step f nb (d, c) (i, Elem tag attrs text kids) =
  let bc := match kids with
            | [] => (content_raw text, c)
            | _ => parse_nodes f nb (Elem tag attrs text kids) c
            end in
  (aset (node_key nb i tag)
        (Dict (match attrs with
               | [] => fst bc
               | _ => aset k_attributes (Dict (fold_left attr_step attrs [])) (fst bc)
               end)) d, snd bc).
Proof.
  intros f nb d c i tag attrs text kids. unfold pn_step. destruct kids as [|g gk].
  - unfold content_raw, text_of. destruct (blank_text text); destruct attrs; reflexivity.
  - destruct (parse_nodes f nb (Elem tag attrs text (g :: gk)) c) as [sub c1]. destruct attrs; reflexivity.
Qed.

(* where the body of an entry comes from: the text, or the child's own entries (read with some counter value) *)
Definition body_src (P : elem -> Z -> list (key * tree)) (ch : elem) (body : list (key * tree)) : Prop :=
  match e_kids ch with
  | [] => body = content_part (e_text ch)
  | _ => exists c, counter_ok c /\ body = P ch c
  end.
Definition entry_of (nb : bool) (i : Z) (ch : elem) (body : list (key * tree)) : key * tree :=
  (mkkey nb i (tag_of ch), Dict (body ++ attrs_part (e_attrs ch))).

Definition good_res (r : list (key * tree)) : Prop := map tm r = r /\ ~ In k_attributes (map fst r).
Definition rec_ok' (f : nat) (nb : bool) (ch : elem) : Prop :=
  forall c, counter_ok c -> counter_ok (snd (parse_nodes f nb ch c)) /\ good_res (fst (parse_nodes f nb ch c)).
Definition child_ready' (f : nat) (nb : bool) (ie : Z * elem) : Prop :=
  in_range (fst ie) /\ elem_ok (snd ie) = true /\ tag_fit nb (tag_of (snd ie)) /\
  (e_kids (snd ie) <> [] -> rec_ok' f nb (snd ie)).
Definition raw_entry_ok' (f : nat) (nb : bool) (ie : Z * elem) (kt : key * tree) : Prop :=
  exists body, tm kt = entry_of nb (fst ie) (snd ie) body /\
               body_src (fun ch c => fst (parse_nodes f nb ch c)) (snd ie) body /\ map tm body = body.
Definition key_of' (nb : bool) (ie : Z * elem) : key := mkkey nb (fst ie) (tag_of (snd ie)).

Lemma level_fold' : forall f nb numbered d c, counter_ok c -> Forall (child_ready' f nb) numbered ->
  NoDup (map fst d ++ map (key_of' nb) numbered) ->
  exists ents c', fold_left (pn_step f nb) numbered (d, c) = (d ++ ents, c') /\ counter_ok c' /\
                  Forall2 (raw_entry_ok' f nb) numbered ents.
Proof.
  intros f nb. induction numbered as [|[i ch] numbered IH]; intros d c Hc HF Hnd.
  - exists [], c. rewrite app_nil_r. split; [reflexivity|]. split; [exact Hc|constructor].
  - inversion HF as [|? ? (Hi & Hok & Hfit & Hrec) HF']; subst. cbn [fst snd] in Hi, Hok, Hfit, Hrec.
    destruct ch as [tag attrs text kids]. destruct (elem_ok_inv _ _ _ _ Hok) as (Hq & Ha & Ht & _ & _).
    cbn [tag_of] in Hfit.
    cbn [fold_left]. rewrite pn_step_eq'. rewrite (node_key_mk nb i tag Hi Hq Hfit).
    set (ch := Elem tag attrs text kids) in *.
    set (bc := match kids with [] => (content_raw text, c) | _ :: _ => parse_nodes f nb ch c end).
    assert (Hbc : counter_ok (snd bc) /\ body_src (fun ch c => fst (parse_nodes f nb ch c)) ch (map tm (fst bc)) /\
                  map tm (map tm (fst bc)) = map tm (fst bc) /\ ~ In k_attributes (map fst (fst bc))).
    { unfold bc, body_src. subst ch. cbn [e_kids e_text] in *. destruct kids as [|g gk].
      - cbn [fst snd]. split; [exact Hc|]. split; [apply content_raw_typed|]. split.
        + rewrite content_raw_typed. apply content_part_stable. apply Ht. reflexivity.
        + unfold content_raw. destruct (blank_text text); cbn [map fst In]; [tauto|].
          intros [E|[]]. discriminate E.
      - destruct (Hrec ltac:(discriminate) c Hc) as [H1 [H2 H3]]. split; [exact H1|]. rewrite H2.
        split; [exists c; split; [exact Hc|reflexivity]|]. split; [exact H2|exact H3]. }
    destruct Hbc as (Hc' & Hbody & Hst & Hna). cbv zeta.
    assert (Eb : match attrs with
                 | [] => fst bc
                 | _ :: _ => aset k_attributes (Dict (fold_left attr_step attrs [])) (fst bc)
                 end = fst bc ++ araw attrs).
    { unfold araw. destruct attrs; [rewrite app_nil_r; reflexivity|]. apply aset_notin. exact Hna. }
    rewrite Eb. cbn [map] in Hnd. change (key_of' nb (i, ch)) with (mkkey nb i tag) in Hnd.
    rewrite aset_notin.
    2:{ apply NoDup_remove_2 in Hnd. intro Hin. apply Hnd. apply in_or_app. left. exact Hin. }
    destruct (IH (d ++ [(mkkey nb i tag, Dict (fst bc ++ araw attrs))]) (snd bc) Hc' HF') as (ents & c'' & Ef & Hc'' & H2).
    { rewrite map_app, <- app_assoc. exact Hnd. }
    exists ((mkkey nb i tag, Dict (fst bc ++ araw attrs)) :: ents), c''. split; [|split].
    + rewrite Ef, <- app_assoc. reflexivity.
    + exact Hc''.
    + constructor; [|exact H2]. exists (map tm (fst bc)). split; [|split; [exact Hbody|exact Hst]].
      unfold tm at 1, entry_of. cbn [fst snd tmap tag_of e_attrs ch].
      change (fun kt : key * tree => (fst kt, tmap (snd kt))) with tm. rewrite map_app, (araw_typed _ Ha). reflexivity.
Qed.

Lemma entry_of_tm : forall nb i ch body, elem_ok ch = true -> map tm body = body ->
  tm (entry_of nb i ch body) = entry_of nb i ch body.
Proof.
  intros nb i [tag attrs text kids] body Hok Hb. destruct (elem_ok_inv _ _ _ _ Hok) as (_ & Ha & _ & _ & _).
  unfold entry_of, tm. cbn [fst snd tmap e_attrs tag_of]. do 2 f_equal.
  change (fun kt : key * tree => (fst kt, tmap (snd kt))) with tm. rewrite map_app, (attrs_part_stable _ Ha), Hb.
  reflexivity.
Qed.

(* ---- the shape of the reader's result ------------------------------------------------------------ *)
Definition entry_shape (P : elem -> Z -> list (key * tree)) (nb : bool) (ch : elem) (kt : key * tree) : Prop :=
  exists i body, in_range i /\ kt = entry_of nb i ch body /\ body_src P ch body.
Definition Shape (nb : bool) (e : elem) (r : list (key * tree)) : Prop :=
  Forall2 (entry_shape (fun ch c => fst (xml_parse nb ch c)) nb) (e_kids e) r.

Lemma level_res : forall f nb numbered ents, Forall2 (raw_entry_ok' f nb) numbered ents ->
  Forall (fun ie => in_range (fst ie) /\ elem_ok (snd ie) = true /\ tag_fit nb (tag_of (snd ie)) /\
                    (elem_depth (snd ie) <= f)%nat) numbered ->
  map tm (map tm ents) = map tm ents /\
  ~ In k_attributes (map fst (map tm ents)) /\
  Forall2 (entry_shape (fun ch c => fst (xml_parse nb ch c)) nb) (map snd numbered) (map tm ents) /\
  map fst (map tm ents) = map (key_of' nb) numbered.
Proof.
  intros f nb numbered ents H2. induction H2 as [|[i ch] kt numbered ents (body & Et & Hb & Hst) H2 IH]; intros HF.
  - repeat split; try constructor. intros [].
  - inversion HF as [|? ? (Hi & Hok & Hfit & Hd) HF']; subst. cbn [fst snd] in *.
    destruct (IH HF') as (I1 & I2 & I3 & I4). cbn [map]. rewrite Et.
    split; [|split; [|split]].
    + rewrite (entry_of_tm nb i ch body Hok Hst), I1. reflexivity.
    + cbn [map fst In entry_of]. intros [E|Hin]; [|exact (I2 Hin)].
      exact (mkkey_not_attr nb i (tag_of ch) Hi Hfit E).
    + constructor; [|exact I3]. cbn [snd]. exists i, body. split; [exact Hi|]. split; [reflexivity|].
      unfold body_src in *. destruct (e_kids ch); [exact Hb|]. destruct Hb as (c & Hc & Eb). exists c. split; [exact Hc|].
      rewrite Eb. rewrite (parse_nodes_xml_parse f nb ch c Hd). reflexivity.
    + rewrite I4. reflexivity.
Qed.

Lemma sib_ok_inv : forall t a x kids, sib_ok (Elem t a x kids) = true ->
  NoDup (map (fun ch => KS (tag_of ch)) kids) /\ forallb (fun ch => off_tag (tag_of ch)) kids = true /\
  forallb sib_ok kids = true.
Proof.
  intros t a x kids H. cbn [sib_ok] in H. apply andb_true_iff in H. destruct H as [H H3].
  apply andb_true_iff in H. destruct H as [H1 H2]. split; [apply keys_nodup_iff; exact H1|]. split; assumption.
Qed.

Theorem parse_nodes_shape : forall f nb e c, (elem_depth e <= f)%nat -> xml_ok e = true ->
  (nb = false -> sib_ok e = true) -> counter_ok c ->
  counter_ok (snd (parse_nodes f nb e c)) /\ good_res (fst (parse_nodes f nb e c)) /\
  Shape nb e (fst (parse_nodes f nb e c)) /\ NoDup (map fst (fst (parse_nodes f nb e c))).
Proof.
  induction f as [|f IHf]; intros nb e c Hd Hok Hsib Hc.
  - destruct e; cbn [elem_depth] in Hd; lia.
  - destruct e as [t a x kids]. unfold xml_ok in Hok. cbn [e_kids] in Hok.
    apply andb_true_iff in Hok. destruct Hok as [Hfew Hkids]. rewrite forallb_forall in Hkids.
    rewrite parse_nodes_S.
    destruct (number_tags_spec kids c Hc (few_bound kids Hfew)) as (N1 & N2 & N3 & N4).
    destruct (number_tags c kids) as [numbered c0]. cbn [fst snd] in N1, N2, N3, N4.
    assert (HF : Forall (fun ie => in_range (fst ie) /\ elem_ok (snd ie) = true /\ tag_fit nb (tag_of (snd ie)) /\
                                   (elem_depth (snd ie) <= f)%nat) numbered).
    { apply Forall_forall. intros ie Hin.
      assert (Hk : In (snd ie) kids). { rewrite <- N1. apply in_map. exact Hin. }
      split; [|split; [|split]].
      - rewrite Forall_forall in N3. apply N3. apply in_map. exact Hin.
      - apply Hkids. exact Hk.
      - intros ->. destruct (sib_ok_inv _ _ _ _ (Hsib eq_refl)) as (_ & S2 & _). rewrite forallb_forall in S2.
        exact (S2 _ Hk).
      - pose proof (depth_kid _ _ Hk) as Hdk. cbn [elem_depth] in Hd. lia. }
    assert (HR : Forall (child_ready' f nb) numbered).
    { apply Forall_forall. intros ie Hin. rewrite Forall_forall in HF. destruct (HF ie Hin) as (H1 & H2 & H3 & H4).
      split; [exact H1|]. split; [exact H2|]. split; [exact H3|]. intros _ c' Hc'.
      assert (Hk : In (snd ie) kids). { rewrite <- N1. apply in_map. exact Hin. }
      destruct (IHf nb (snd ie) c' H4 (elem_ok_xml_ok _ H2)) as (R1 & R2 & _); [|exact Hc'|split; assumption].
      intros ->. destruct (sib_ok_inv _ _ _ _ (Hsib eq_refl)) as (_ & _ & S3). rewrite forallb_forall in S3.
      exact (S3 _ Hk). }
    assert (Hnd : NoDup (map (key_of' nb) numbered)).
    { destruct nb.
      - apply (NoDup_map_via fst (key_of' true)); [|exact N4]. intros y z Hy Hz E. rewrite Forall_forall in HF.
        unfold key_of', mkkey in E. apply nkey_inj in E; [exact E|exact (proj1 (HF y Hy))|exact (proj1 (HF z Hz))].
      - destruct (sib_ok_inv _ _ _ _ (Hsib eq_refl)) as (S1 & _ & _). rewrite <- N1, map_map in S1. exact S1. }
    destruct (level_fold' f nb numbered [] c0 N2 HR Hnd) as (ents & c' & Ef & Hc' & H2).
    rewrite Ef. cbn [app]. rewrite typed_tmap. cbn [tmap kvs_of_tree fst snd].
    change (fun kt : key * tree => (fst kt, tmap (snd kt))) with tm.
    split; [exact Hc'|].
    destruct (level_res f nb numbered ents H2 HF) as (I1 & I2 & I3 & I4). rewrite N1 in I3.
    split; [split; assumption|]. split; [exact I3|]. rewrite I4. exact Hnd.
Qed.

Theorem xml_parse_shape : forall nb e c, xml_ok e = true -> (nb = false -> sib_ok e = true) -> counter_ok c ->
  counter_ok (snd (xml_parse nb e c)) /\ Shape nb e (fst (xml_parse nb e c)) /\ NoDup (map fst (fst (xml_parse nb e c))).
Proof.
  intros nb e c Hok Hs Hc. unfold Shape. unfold xml_parse at 1 2 4.
  destruct (parse_nodes_shape (S (elem_depth e)) nb e c ltac:(lia) Hok Hs Hc) as (H1 & _ & H3 & H4).
  split; [exact H1|]. split; assumption.
Qed.

(* ================================================================================================ *)
(* B2. reading without node numbering, sibling tags pairwise distinct                                *)
(* ================================================================================================ *)
Lemma xml_ok_off_inv : forall e, xml_ok_off e = true -> xml_ok e = true /\ sib_ok e = true.
Proof. intros e H. unfold xml_ok_off in H. apply andb_true_iff in H. exact H. Qed.

Lemma kids_facts : forall t a x kids, xml_ok (Elem t a x kids) = true -> sib_ok (Elem t a x kids) = true ->
  Forall (fun ch => elem_ok ch = true /\ sib_ok ch = true /\ off_tag (tag_of ch) = true) kids.
Proof.
  intros t a x kids Hok Hs. unfold xml_ok in Hok. cbn [e_kids] in Hok. apply andb_true_iff in Hok.
  destruct Hok as [_ Hk]. destruct (sib_ok_inv _ _ _ _ Hs) as (_ & S2 & S3).
  rewrite forallb_forall in Hk, S2, S3. apply Forall_forall. intros ch Hin.
  split; [exact (Hk _ Hin)|]. split; [exact (S3 _ Hin)|exact (S2 _ Hin)].
Qed.

Theorem xml_off_entries : forall e, xml_ok e = true -> sib_ok e = true -> forall c, counter_ok c ->
  fst (xml_parse false e c) = xml_entries e.
Proof.
  induction e as [t a x kids IH] using elem_ind'. intros Hok Hs c Hc.
  destruct (xml_parse_shape false _ c Hok (fun _ => Hs) Hc) as (_ & Hsh & _).
  pose proof (kids_facts _ _ _ _ Hok Hs) as HK. unfold Shape in Hsh. cbn [e_kids] in Hsh.
  rewrite xml_entries_eq. revert Hsh IH HK. generalize (fst (xml_parse false (Elem t a x kids) c)). clear.
  intros r H2. induction H2 as [|ch kt kids r (i & body & Hi & Ek & Hb) H2 IHr]; intros IH HK; [reflexivity|].
  inversion IH as [|? ? Pch IH']; subst. inversion HK as [|? ? (K1 & K2 & K3) HK']; subst.
  cbn [map]. rewrite (IHr IH' HK'). f_equal.
  unfold entry_of, mkkey, xml_entry. f_equal. f_equal. f_equal.
  destruct ch as [tag attrs text gk]. unfold body_src in Hb. cbn [e_kids e_text] in Hb. destruct gk as [|g gk]; [exact Hb|].
  destruct Hb as (c & Hc & ->). apply Pch; [apply elem_ok_xml_ok; exact K1|exact K2|exact Hc].
Qed.

(* the keys are the bare tags in document order, and no entry is lost *)
Theorem xml_off_order : forall e c, xml_ok e = true -> sib_ok e = true -> counter_ok c ->
  map fst (fst (xml_parse false e c)) = map (fun ch => KS (tag_of ch)) (elem_children e)
  /\ NoDup (map fst (fst (xml_parse false e c))).
Proof.
  intros e c Hok Hs Hc. split.
  - rewrite (xml_off_entries e Hok Hs c Hc). destruct e as [t a x kids]. rewrite xml_entries_eq, map_map. reflexivity.
  - exact (proj2 (proj2 (xml_parse_shape false e c Hok (fun _ => Hs) Hc))).
Qed.

(* the entries read with numbering are, without the numbers, the entries read without numbering *)
Theorem xml_on_off : forall e c c', xml_ok e = true -> sib_ok e = true -> counter_ok c -> counter_ok c' ->
  unnumber (fst (xml_parse true e c)) = fst (xml_parse false e c').
Proof.
  intros e c c' Hok Hs Hc Hc'. rewrite (xml_read_entries e c Hok Hc), (xml_off_entries e Hok Hs c' Hc'). reflexivity.
Qed.

(* ---- writing the un-numbered entries --------------------------------------------------------------- *)
Lemma xml_entry_ns : forall ch, off_tag (tag_of ch) = true -> pop_ns (xml_entry ch) = true.
Proof.
  intros ch H. destruct (off_tag_inv _ H) as (_ & Hs & _). unfold pop_ns, xml_entry. cbn [fst key_text_xml].
  rewrite Hs. reflexivity.
Qed.

Lemma map_pop_entries : forall kids,
  Forall (fun ch => elem_ok ch = true -> sib_ok ch = true -> off_tag (tag_of ch) = true ->
                    pop_child (xml_entry ch) = normalise_elem ch) kids ->
  Forall (fun ch => elem_ok ch = true /\ sib_ok ch = true /\ off_tag (tag_of ch) = true) kids ->
  map pop_child (map xml_entry kids) = map normalise_elem kids.
Proof.
  intros kids IH HK. rewrite map_map. induction IH as [|ch l Pch _ IHl]; [reflexivity|].
  inversion HK as [|? ? (K1 & K2 & K3) HK']; subst. cbn [map]. rewrite (Pch K1 K2 K3), (IHl HK'). reflexivity.
Qed.

Lemma xml_entry_pop : forall ch, elem_ok ch = true -> sib_ok ch = true -> off_tag (tag_of ch) = true ->
  pop_child (xml_entry ch) = normalise_elem ch.
Proof.
  induction ch as [tag attrs text kids IH] using elem_ind'. intros Hok Hs Ht.
  destruct (elem_ok_inv _ _ _ _ Hok) as (_ & Ha & _ & _ & _). cbn [tag_of] in Ht.
  destruct (off_tag_inv _ Ht) as (_ & _ & Hst).
  unfold xml_entry, pop_child. cbn [fst snd tag_of e_attrs key_text_xml]. rewrite Hst, populate_dict.
  destruct kids as [|g gk].
  - unfold content_part. cbn [normalise_elem map]. unfold norm_content. destruct (blank_text text).
    + cbn [app]. rewrite (pop_go_attrs_part _ None [] Ha). reflexivity.
    + cbn [app]. rewrite pop_go_content_entry. rewrite (pop_go_attrs_part _ _ [] Ha). reflexivity.
  - pose proof (kids_facts tag attrs text (g :: gk) (elem_ok_xml_ok _ Hok) Hs) as HK.
    rewrite xml_entries_eq. remember (g :: gk) as kids eqn:Ek.
    assert (H3 : Forall (fun kt => pop_ns kt = true) (map xml_entry kids)).
    { apply Forall_map. revert HK. apply Forall_impl. intros ch (_ & _ & K3). apply xml_entry_ns. exact K3. }
    assert (H4 : map pop_child (map xml_entry kids) = map normalise_elem kids).
    { apply map_pop_entries; assumption. }
    rewrite (pop_go_ord _ _ _ _ _ H3). rewrite (pop_go_attrs_part _ _ _ Ha). rewrite app_nil_r, rev_involutive, H4.
    cbn [normalise_elem]. subst kids. reflexivity.
Qed.

Theorem xml_off_write_inverts_read : forall e c, xml_ok e = true -> sib_ok e = true -> counter_ok c ->
  populate (tag_of e) (Dict (fst (xml_parse false e c))) = normalise_root e.
Proof.
  intros e c Hok Hs Hc. rewrite (xml_off_entries e Hok Hs c Hc). destruct e as [t a x kids].
  pose proof (kids_facts _ _ _ _ Hok Hs) as HK. rewrite xml_entries_eq, populate_dict.
  assert (H3 : Forall (fun kt => pop_ns kt = true) (map xml_entry kids)).
  { apply Forall_map. revert HK. apply Forall_impl. intros ch (_ & _ & K3). apply xml_entry_ns. exact K3. }
  assert (H4 : map pop_child (map xml_entry kids) = map normalise_elem kids).
  { apply map_pop_entries; [|exact HK]. apply Forall_forall. intros ch _. apply xml_entry_pop. }
  rewrite <- (app_nil_r (map xml_entry kids)). rewrite (pop_go_ord _ [] [] None [] H3). cbn [pop_go].
  rewrite app_nil_r, rev_involutive, H4. reflexivity.
Qed.

(* ---- the normalised tree has the same tags ---------------------------------------------------------- *)
Lemma normalise_tag : forall ch, tag_of (normalise_elem ch) = tag_of ch.
Proof. intros [t a x k]. reflexivity. Qed.

Lemma normalise_kids_tags : forall (F : elem -> key) kids, (forall ch, F (normalise_elem ch) = F ch) ->
  map F (map normalise_elem kids) = map F kids.
Proof. intros F kids H. rewrite map_map. apply map_ext. exact H. Qed.

Lemma forallb_map' : forall {A B} (f : B -> bool) (g : A -> B) l, forallb f (map g l) = forallb (fun x => f (g x)) l.
Proof. intros A B f g. induction l as [|x l IH]; [reflexivity|]. cbn [map forallb]. rewrite IH. reflexivity. Qed.
Lemma forallb_ext' : forall {A} (f g : A -> bool) l, (forall x, f x = g x) -> forallb f l = forallb g l.
Proof. intros A f g l H. induction l as [|x l IH]; [reflexivity|]. cbn [forallb]. rewrite H, IH. reflexivity. Qed.

Lemma normalise_sib_ok : forall ch, sib_ok (normalise_elem ch) = sib_ok ch.
Proof.
  induction ch as [tag attrs text kids IH] using elem_ind'. cbn [normalise_elem sib_ok].
  rewrite (normalise_kids_tags (fun ch => KS (tag_of ch))) by (intros ch; rewrite normalise_tag; reflexivity).
  f_equal; [f_equal|].
  - rewrite forallb_map'. apply forallb_ext'. intros ch. rewrite normalise_tag. reflexivity.
  - rewrite forallb_map'. induction IH as [|ch l Pch _ IHl]; [reflexivity|]. cbn [forallb]. rewrite Pch, IHl. reflexivity.
Qed.

Lemma normalise_root_sib_ok : forall e, sib_ok (normalise_root e) = sib_ok e.
Proof.
  intros [t a x kids]. unfold normalise_root. cbn [tag_of e_kids].
  change (sib_ok (Elem t [] None (map normalise_elem kids))) with (sib_ok (normalise_elem (Elem t a x kids))).
  apply normalise_sib_ok.
Qed.

(* reading, writing and reading again yields literally the same entries *)
Theorem xml_off_cycle : forall e c c2, xml_ok e = true -> sib_ok e = true -> counter_ok c -> counter_ok c2 ->
  fst (xml_parse false (populate (tag_of e) (Dict (fst (xml_parse false e c)))) c2) = fst (xml_parse false e c).
Proof.
  intros e c c2 Hok Hs Hc Hc2. rewrite (xml_off_write_inverts_read e c Hok Hs Hc).
  destruct (normalise_root_ok e Hok) as [Hok' He].
  assert (Hs' : sib_ok (normalise_root e) = true) by (rewrite normalise_root_sib_ok; exact Hs).
  rewrite (xml_off_entries _ Hok' Hs' c2 Hc2), (xml_off_entries e Hok Hs c Hc). exact He.
Qed.

Theorem xml_off_distinct_tags : forall e c, xml_ok_off e = true -> counter_ok c ->
  fst (xml_parse false e c) = xml_entries e
  /\ map fst (fst (xml_parse false e c)) = map (fun ch => KS (tag_of ch)) (elem_children e)
  /\ NoDup (map fst (fst (xml_parse false e c))).
Proof.
  intros e c H Hc. destruct (xml_ok_off_inv e H) as [Hok Hs]. split; [apply xml_off_entries; assumption|].
  apply xml_off_order; assumption.
Qed.

Theorem xml_off_write_inverts_read' : forall e c, xml_ok_off e = true -> counter_ok c ->
  populate (tag_of e) (Dict (fst (xml_parse false e c))) = normalise_root e.
Proof. intros e c H Hc. destruct (xml_ok_off_inv e H) as [Hok Hs]. apply xml_off_write_inverts_read; assumption. Qed.

Theorem xml_off_cycle' : forall e c c2, xml_ok_off e = true -> counter_ok c -> counter_ok c2 ->
  fst (xml_parse false (populate (tag_of e) (Dict (fst (xml_parse false e c)))) c2) = fst (xml_parse false e c).
Proof. intros e c c2 H Hc Hc2. destruct (xml_ok_off_inv e H) as [Hok Hs]. apply xml_off_cycle; assumption. Qed.

Theorem xml_on_off' : forall e c c', xml_ok_off e = true -> counter_ok c -> counter_ok c' ->
  unnumber (fst (xml_parse true e c)) = fst (xml_parse false e c').
Proof. intros e c c' H Hc Hc'. destruct (xml_ok_off_inv e H) as [Hok Hs]. apply xml_on_off; assumption. Qed.

(* ================================================================================================ *)
(* C. reading with numbering: the i-th child element makes the i-th entry                            *)
(* ================================================================================================ *)
Lemma Forall2_nth : forall {A B} (R : A -> B -> Prop) l l', Forall2 R l l' ->
  Datatypes.length l' = Datatypes.length l /\
  forall i x, nth_error l i = Some x -> exists y, nth_error l' i = Some y /\ R x y.
Proof.
  intros A B R l l' H. induction H as [|x y l l' Hxy H [IH1 IH2]]; [split; [reflexivity|intros [|i] x Hx; discriminate]|].
  split; [cbn [Datatypes.length]; rewrite IH1; reflexivity|].
  intros [|i] z Hz; cbn [nth_error] in *.
  - injection Hz as <-. exists y. split; [reflexivity|exact Hxy].
  - exact (IH2 i z Hz).
Qed.

Theorem xml_entry_shape : forall e c, xml_ok e = true -> counter_ok c ->
  Datatypes.length (fst (xml_parse true e c)) = Datatypes.length (elem_children e) /\
  forall i tag attrs text kids, nth_error (elem_children e) i = Some (Elem tag attrs text kids) ->
  exists n body, (0 <= n < 1000000)%Z /\
    nth_error (fst (xml_parse true e c)) i =
      Some (KS (pad6 (Z.to_N n) ++ [c_us] ++ tag), Dict (body ++ attrs_part attrs)) /\
    match kids with
    | [] => body = content_part text
    | _ => xml_ok (Elem tag attrs text kids) = true /\
           exists c', counter_ok c' /\ body = fst (xml_parse true (Elem tag attrs text kids) c')
    end.
Proof.
  intros e c Hok Hc. destruct (xml_parse_shape true e c Hok ltac:(discriminate) Hc) as (_ & Hsh & _).
  unfold Shape in Hsh. destruct (Forall2_nth _ _ _ Hsh) as [Hl Hn].
  assert (Ek : e_kids e = elem_children e) by (destruct e; reflexivity). rewrite Ek in *.
  split; [exact Hl|]. intros i tag attrs text kids Hi.
  destruct (Hn i _ Hi) as (kt & Hkt & (n & body & Hr & E & Hb)). exists n, body. split; [exact Hr|].
  split; [rewrite Hkt, E; reflexivity|]. unfold body_src in Hb. cbn [e_kids e_text] in Hb.
  destruct kids as [|g gk]; [exact Hb|]. split; [|exact Hb].
  apply elem_ok_xml_ok. unfold xml_ok in Hok. apply andb_true_iff in Hok. destruct Hok as [_ Hk].
  rewrite forallb_forall in Hk. apply Hk. rewrite Ek. apply (nth_error_In _ i). exact Hi.
Qed.

(* ---- the same in terms of lookups ------------------------------------------------------------------ *)
Lemma nkey_not_us : forall n t s, in_range n -> nkey n t <> KS (c_us :: s).
Proof.
  intros n t s Hn E. unfold nkey in E. injection E as E.
  destruct (pad6_head (Z.to_N n) ltac:(unfold in_range in Hn; lia)) as (d & r & Ep & Hd). rewrite Ep in E.
  cbn [app] in E. injection E as E _. subst d. discriminate Hd.
Qed.

Lemma alookup_skip : forall (k : key) (r l : list (key * tree)), Forall (fun kt => fst kt <> k) r ->
  alookup k (r ++ l) = alookup k l.
Proof.
  intros k r l H. induction H as [|[k' v] r Hk H IH]; [reflexivity|]. cbn [app alookup]. cbn [fst] in Hk.
  destruct (key_eqb k k') eqn:E; [|exact IH]. apply SDictProofs.key_eqb_eq in E. subst k'. contradiction.
Qed.

Lemma numbered_keys : forall e c, xml_ok e = true -> counter_ok c ->
  Forall (fun kt => exists n t, in_range n /\ fst kt = nkey n t) (fst (xml_parse true e c)).
Proof.
  intros e c Hok Hc. destruct (xml_parse_shape true e c Hok ltac:(discriminate) Hc) as (_ & Hsh & _).
  unfold Shape in Hsh. induction Hsh as [|ch kt l r (n & body & Hn & E & _) _ IH]; constructor; [|exact IH].
  exists n, (tag_of ch). split; [exact Hn|]. rewrite E. reflexivity.
Qed.

Lemma numbered_keys_skip : forall e c s, xml_ok e = true -> counter_ok c ->
  Forall (fun kt => fst kt <> KS (c_us :: s)) (fst (xml_parse true e c)).
Proof.
  intros e c s Hok Hc. pose proof (numbered_keys e c Hok Hc) as H. revert H. apply Forall_impl.
  intros kt (n & t & Hn & E). rewrite E. apply nkey_not_us. exact Hn.
Qed.

Definition typed_content (text : option str) : option tree :=
  if blank_text text then None else Some (Leaf (tval (norm_text (text_of text)))).
Definition typed_attributes (attrs : list (str * str)) : option tree :=
  match attrs with
  | [] => None
  | _ => Some (Dict (map (fun kv => (KS (fst kv), Leaf (tval (snd kv)))) (filter has_value attrs)))
  end.

Lemma alookup_attrs_part : forall attrs, alookup k_attributes (attrs_part attrs) = typed_attributes attrs.
Proof. intros [|kv attrs]; reflexivity. Qed.
Lemma alookup_content_attrs_part : forall attrs, alookup k_content (attrs_part attrs) = None.
Proof. intros [|kv attrs]; reflexivity. Qed.
Lemma alookup_content_part : forall text l, alookup k_content (content_part text ++ l) =
  match typed_content text with Some v => Some v | None => alookup k_content l end.
Proof. intros text l. unfold content_part, typed_content. destruct (blank_text text); reflexivity. Qed.
Lemma alookup_attr_content_part : forall text l, alookup k_attributes (content_part text ++ l) = alookup k_attributes l.
Proof. intros text l. unfold content_part. destruct (blank_text text); reflexivity. Qed.

Theorem xml_entry_lookup : forall e c i tag attrs text kids k v, xml_ok e = true -> counter_ok c ->
  nth_error (elem_children e) i = Some (Elem tag attrs text kids) ->
  nth_error (fst (xml_parse true e c)) i = Some (k, v) ->
  unnumber_key k = KS tag /\
  exists d, v = Dict d /\
    alookup k_content d = match kids with [] => typed_content text | _ => None end /\
    alookup k_attributes d = typed_attributes attrs /\
    match kids with
    | [] => d = content_part text ++ attrs_part attrs
    | _ => exists c', counter_ok c' /\ d = fst (xml_parse true (Elem tag attrs text kids) c') ++ attrs_part attrs
    end.
Proof.
  intros e c i tag attrs text kids k v Hok Hc Hi Hkv.
  destruct (xml_entry_shape e c Hok Hc) as [_ H]. destruct (H i tag attrs text kids Hi) as (n & body & Hn & E & Hb).
  rewrite E in Hkv. injection Hkv as <- <-. split.
  - exact (nkey_unnumber n tag Hn).
  - exists (body ++ attrs_part attrs). split; [reflexivity|]. destruct kids as [|g gk].
    + subst body. rewrite alookup_content_part, alookup_attr_content_part, alookup_content_attrs_part, alookup_attrs_part.
      split; [destruct (typed_content text); reflexivity|]. split; reflexivity.
    + destruct Hb as (Hok' & c' & Hc' & ->).
      rewrite (alookup_skip k_content) by (apply numbered_keys_skip; assumption).
      rewrite (alookup_skip k_attributes) by (apply numbered_keys_skip; assumption).
      rewrite alookup_content_attrs_part, alookup_attrs_part. split; [reflexivity|]. split; [reflexivity|].
      exists c'. split; [exact Hc'|reflexivity].
Qed.
