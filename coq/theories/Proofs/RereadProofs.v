(* C03 / C12 on documents with comments, part 7: reading the written text back.
   NativeParser.parse_string on the text NativeFormatter.to_string writes for a re-readable SDict: the same ordinary data
   (leaves as the classifier reads their written form), every comment with its exact text at its place, the header first,
   the placeholders renumbered in text order. *)
From Coq Require Import String.
From Coq Require Import NArith ZArith List Bool Lia ZifyBool ZifyN ZifyNat.
From DictIO Require Import Chars Str Value Scalar KeyPath SDict Layout Lexer TokParser TreeSpec NativeSpec LayoutSpec E2ESpec.
From DictIO Require ScalarProofs SDictProofs TokProofs LayoutProofs SemProofs QuoteProofs KeyPathProofs.
From DictIO Require Import E2EProofs E2EHoles E2EInsert E2EKeyTok E2EFullProofs RereadStr RereadTree RereadWrite RereadLex RereadParse RereadNum.
Import ListNotations.
Import LayoutProofs.
Open Scope N_scope.

(* ================================================================================================ *)
(* 1. from the labelled placeholder document to the numbered document                               *)
(* ================================================================================================ *)

Lemma cph_noW w i : cw w -> contains w_STRINGLITERAL (placeholder w i) = false.
Proof.
  intros Hw. destruct (contains w_STRINGLITERAL (placeholder w i)) eqn:E; [|reflexivity]. exfalso.
  apply contains_head_In in E. destruct (cph_In w i 83 Hw E) as [H|H]; [|discriminate H].
  destruct Hw as [-> | ->]; cbn in H; repeat (destruct H as [H|H]; [discriminate H|]); exact H.
Qed.

Lemma cph_ctok w i : cw w -> TRC.ctokb (placeholder w i) = true.
Proof.
  intros Hw. destruct (cw_facts w Hw) as (Hne & _ & Hc).
  assert (Hcm : is_comment_tok (placeholder w i) = true) by (unfold is_comment_tok, placeholder; apply contains_app_l; exact Hc).
  assert (Hh : exists c r, placeholder w i = c :: r /\ simple_char c = true).
  { destruct Hw as [-> | ->]; unfold placeholder; eexists; eexists; (split; [reflexivity|reflexivity]). }
  destruct Hh as (c & r & E & Hs). destruct (simple_not_struct c r Hs) as (B1 & B2 & B3).
  assert (A1 : is_open (placeholder w i) = false) by (rewrite E; exact B1).
  assert (A2 : is_close (placeholder w i) = false) by (rewrite E; exact B2).
  assert (A3 : str_eqb (placeholder w i) t_semi = false) by (rewrite E; exact B3).
  unfold TRC.ctokb. rewrite A1, A2, A3, Hcm. reflexivity.
Qed.

Section Values.
  Variable ltab btab : list (N * str).
  Variable tab : list (N * str).           (* the literal table *)
  Notation gx := (numx ltab btab).

  Lemma gx_cases n x : exists w i, cw w /\ gx n x = placeholder w i.
  Proof.
    unfold numx. destruct (str_eqb n w_LINECOMMENT); [exists w_LINECOMMENT, (rlookup x ltab)|exists w_BLOCKCOMMENT, (rlookup x btab)];
      (split; [first [left; reflexivity|right; reflexivity]|reflexivity]).
  Qed.

  (* the document the token parser sees: comment values numbered, quoted leaves labelled *)
  Definition doc2 (t : tree) : tree := cmapg (gkv keepn gx) idf t.
  Definition doc3 (ks : list N) (t : tree) : tree := clabel ks (doc2 t).

  Lemma keepn_cm n x : is_cm n = true -> is_cm (keepn n x) = true.
  Proof. intros H. exact H. Qed.

  Lemma cm_entry_gkv n x y : is_cm n = true -> cm_entry (gkv keepn gx n y) = Some (n, gx n y) /\ cm_entry (KS n, Leaf (SStr x)) = Some (n, x).
  Proof. intros H. unfold gkv, keepn. cbn [cm_entry]. rewrite H. split; reflexivity. Qed.

  Notation e2 := (cmap_entry (gkv keepn gx) idf).
  Notation e3 := (cmap_entry TRC.gtok nvL).
  Notation e4 := (cmap_entry (gkv gx gx) written_value).

  Lemma doc2_events t lvl : cshape t = true -> events lvl (doc2 t) = map (ev_map keepn gx idf) (events lvl t).
  Proof. intros H. apply cmapg_events; [exact keepn_cm|exact H]. Qed.

  Lemma ev_map_lits es : lits (map (ev_map keepn gx idf) es) = lits es.
  Proof.
    induction es as [|e es IH]; [reflexivity|]. unfold lits in *. cbn [map flat_map]. rewrite IH. f_equal.
    destruct e as [lvl k v|lvl k l|lvl k|lvl|lvl n x]; cbn [ev_map ev_lits]; try reflexivity. rewrite map_leaves_idf_list. reflexivity.
  Qed.

  Lemma doc2_cshape : forall t, cshape t = true -> cshape (doc2 t) = true.
  Proof.
    induction t as [v|kvs IH|ts IH] using tree_ind'; intros H; try discriminate H. unfold doc2. rewrite cmapg_dict.
    rewrite cshape_forallb in *. rewrite forallb_forall in *. intros e He. apply in_map_iff in He. destruct He as (kc & <- & Hin).
    pose proof (H kc Hin) as Hk. rewrite Forall_forall in IH. pose proof (IH kc Hin) as IHk.
    unfold cshape_entry, cmap_entry in *. destruct (cm_entry kc) as [[n x]|] eqn:Ec.
    - destruct (cm_entry_inv _ _ _ Ec) as [_ Hn]. destruct (cm_entry_gkv n x x Hn) as [E1 _]. rewrite E1. reflexivity.
    - cbn [fst snd]. apply andb_true_iff in Hk. destruct Hk as [Hs Hc]. destruct kc as [k c]. cbn [fst snd] in *.
      rewrite (cm_entry_simple k _ Hs), Hs. cbn [andb]. destruct c as [v|d|l].
      + exact Hc.
      + exact (IHk Hc).
      + rewrite TokProofs.map_leaves_lst, map_leaves_idf_list. exact Hc.
  Qed.

  Lemma doc2_cnq t : cshape t = true -> cnqT (doc2 t) = cnqT t.
  Proof.
    intros H. destruct (events_clabel (doc2 t) 0%nat [] (doc2_cshape t H)) as [_ E1]. destruct (events_clabel t 0%nat [] H) as [_ E2].
    rewrite <- E1, <- E2, (doc2_events t 0 H), ev_map_lits. reflexivity.
  Qed.

  Lemma entry_lits lvl kc : cshape_entry kc = true -> length (lits (entry_events lvl kc)) = cnq_entry kc.
  Proof.
    intros H. unfold cshape_entry, entry_events, cnq_entry in *. destruct (cm_entry kc) as [[n x]|]; [reflexivity|].
    apply andb_true_iff in H. destruct H as [_ Hc]. destruct kc as [k c]. cbn [fst snd] in *. destruct c as [v|d|l].
    - cbn [lits flat_map ev_lits]. rewrite app_nil_r. reflexivity.
    - destruct (events_clabel (Dict d) (S lvl) [] Hc) as [_ E]. rewrite <- E.
      change (EOpen lvl k :: events (S lvl) (Dict d) ++ [EClose lvl]) with ([EOpen lvl k] ++ events (S lvl) (Dict d) ++ [EClose lvl]).
      rewrite !lits_app, !app_length. cbn [lits flat_map ev_lits app length]. lia.
    - cbn [lits flat_map ev_lits]. rewrite app_nil_r. reflexivity.
  Qed.

  Definition Vc (t : tree) : Prop :=
    cshape t = true -> forall lvl ks R b, Forall2 (Rel tab) ks (lits (events lvl t) ++ R) ->
    map_leaves (Gfun tab) (TRC.cres nvL (doc3 ks t)) = numT ltab btab written_value t /\
    (quoted_within b (cstrip t) = true -> lw PWs b (TRC.cres nvL (doc3 ks t)) = true) /\
    TRC.cskeys (doc3 ks t) = true /\ TRC.call TRC.ctokb (doc3 ks t) = true.

  (* one entry *)
  Definition Ve (kc : key * tree) : Prop :=
    cshape_entry kc = true -> forall lvl ks R b, Forall2 (Rel tab) ks (lits (entry_events lvl kc) ++ R) ->
    TokProofs.mkv (Gfun tab) (e3 (clabel_entry ks (e2 kc))) = e4 kc /\
    (forallb (fun e => quoted_within b (snd e)) (cstrip_entry kc) = true -> lw PWs b (snd (e3 (clabel_entry ks (e2 kc)))) = true) /\
    TRC.cskeys_entry (clabel_entry ks (e2 kc)) = true /\ TRC.call_entry TRC.ctokb (clabel_entry ks (e2 kc)) = true /\
    cnq_entry (e2 kc) = cnq_entry kc.

  Lemma Ve_entry k c : (match c with Dict d => Vc (Dict d) | _ => True end) -> Ve (k, c).
  Proof.
    intros IHc Hs lvl ks R b HR. unfold cshape_entry in Hs. unfold cstrip_entry, entry_events in *.
    destruct (cm_entry (k, c)) as [[n x]|] eqn:Ec.
    - (* a comment entry *)
      destruct (cm_entry_inv _ _ _ Ec) as [_ Hn]. destruct (cm_entry_gkv n x x Hn) as [E1 _].
      destruct (gx_cases n x) as (w & i & Hw & Eg).
      assert (A2 : e2 (k, c) = (KS n, Leaf (SStr (gx n x)))) by (unfold cmap_entry; rewrite Ec; reflexivity).
      assert (A4 : e4 (k, c) = (KS (gx n x), Leaf (SStr (gx n x)))) by (unfold cmap_entry; rewrite Ec; reflexivity).
      unfold gkv, keepn in E1.
      assert (A3 : clabel_entry ks (KS n, Leaf (SStr (gx n x))) = (KS n, Leaf (SStr (gx n x)))) by (unfold clabel_entry; rewrite E1; reflexivity).
      assert (A5 : e3 (KS n, Leaf (SStr (gx n x))) = (KS (gx n x), Leaf (SStr (gx n x)))) by (unfold cmap_entry; rewrite E1; reflexivity).
      rewrite A2, A3, A4, A5. unfold cnq_entry, TRC.cskeys_entry, TRC.call_entry. rewrite E1, Ec. cbn [snd fst]. rewrite Eg.
      split; [|split; [|split; [|split]]]; try reflexivity.
      + unfold TokProofs.mkv. cbn [fst snd map_leaves]. rewrite Gfun_noW; [reflexivity|]. unfold PWs. cbn [py_str]. exact (cph_noW w i Hw).
      + intros _. cbn [lw]. unfold PWs. cbn [py_str]. rewrite (cph_noW w i Hw). reflexivity.
      + exact (cph_ctok w i Hw).
    - cbn [fst snd] in *. apply andb_true_iff in Hs. destruct Hs as [Hk Hc].
      assert (Ecm : forall c', cm_entry (k, c') = None) by (intros c'; apply cm_entry_simple; exact Hk).
      destruct c as [v|d|l].
      + (* leaf *)
        assert (A2 : e2 (k, Leaf v) = (k, Leaf v)) by (unfold cmap_entry; rewrite Ec; reflexivity).
        assert (A4 : e4 (k, Leaf v) = (k, Leaf (written_value v))) by (unfold cmap_entry; rewrite Ec; reflexivity).
        rewrite A2, A4. unfold clabel_entry, cnq_entry, TRC.cskeys_entry, TRC.call_entry. rewrite !Ecm. cbn [fst snd].
        unfold cmap_entry. rewrite !Ecm. cbn [fst snd]. rewrite Hk. cbn [andb].
        cbn [map_leaves label lits flat_map ev_lits] in *. rewrite app_nil_r in HR. change (idf v) with v. cbn [forallb snd]. rewrite andb_true_r.
        pose proof (Vt_all tab (Leaf v) ks R HR Hc) as HV. cbn [label map_leaves] in HV.
        split; [unfold TokProofs.mkv; cbn [fst snd map_leaves]; f_equal; exact HV|]. split; [|split; [reflexivity|split; reflexivity]].
        intros Hq. destruct (label_facts (Leaf v) ks) as (_ & _ & L3). exact (L3 b Hc Hq).
      + (* nested dict *)
        assert (A2 : e2 (k, Dict d) = (k, doc2 (Dict d))) by (unfold cmap_entry; rewrite Ec; reflexivity).
        assert (A4 : e4 (k, Dict d) = (k, numT ltab btab written_value (Dict d))) by (unfold cmap_entry; rewrite Ec; reflexivity).
        rewrite A2, A4.
        assert (Ed : lits (EOpen lvl k :: events (S lvl) (Dict d) ++ [EClose lvl]) = lits (events (S lvl) (Dict d))).
        { change (EOpen lvl k :: events (S lvl) (Dict d) ++ [EClose lvl]) with ([EOpen lvl k] ++ events (S lvl) (Dict d) ++ [EClose lvl]).
          rewrite !lits_app. cbn [lits flat_map ev_lits app]. rewrite app_nil_r. reflexivity. }
        rewrite Ed in HR. destruct (IHc Hc (S lvl) ks R b HR) as (V1 & V2 & V3 & V4).
        assert (Edoc : exists d2, doc2 (Dict d) = Dict d2) by (unfold doc2; rewrite cmapg_dict; eexists; reflexivity).
        destruct Edoc as [d2 Ed2]. unfold doc3 in V1, V2, V3, V4. rewrite Ed2 in *.
        destruct (clabel_dict ks d2) as [d3 Ed3]. rewrite Ed3 in *.
        unfold clabel_entry, cnq_entry, TRC.cskeys_entry, TRC.call_entry. rewrite !Ecm. cbn [fst snd]. rewrite Ed3.
        unfold cmap_entry. rewrite !Ecm. cbn [fst snd]. rewrite Hk. cbn [andb].
        split; [unfold TokProofs.mkv; cbn [fst snd]; f_equal; exact V1|]. split; [|split; [exact V3|split; [exact V4|]]].
        * cbn [forallb snd]. rewrite andb_true_r. intros Hq. apply V2. exact Hq.
        * rewrite <- Ed2. exact (doc2_cnq (Dict d) Hc).
      + (* list *)
        assert (A2 : e2 (k, Lst l) = (k, Lst l)) by (unfold cmap_entry; rewrite Ec; cbn [fst snd]; rewrite TokProofs.map_leaves_lst, map_leaves_idf_list; reflexivity).
        assert (A4 : e4 (k, Lst l) = (k, map_leaves written_value (Lst l))) by (unfold cmap_entry; rewrite Ec; reflexivity).
        rewrite A2, A4. unfold clabel_entry, cnq_entry, TRC.cskeys_entry, TRC.call_entry. rewrite !Ecm. cbn [fst snd].
        unfold cmap_entry. rewrite !Ecm. cbn [fst snd]. rewrite Hk. cbn [andb]. cbn [lits flat_map ev_lits] in HR. rewrite app_nil_r in HR.
        pose proof (Vt_all tab (Lst l) ks R HR Hc) as HV. cbn [forallb snd]. rewrite andb_true_r.
        destruct (label_facts (Lst l) ks) as (_ & L2 & L3). rewrite (label_lst ks l) in *. cbv beta iota.
        split; [unfold TokProofs.mkv; cbn [fst snd]; f_equal; rewrite map_leaves_compose; exact HV|]. split; [|split; [|split; reflexivity]].
        * intros Hq. exact (L3 b Hc Hq).
        * rewrite L2. exact (ktree_skeys _ _ Hc).
  Qed.

  Lemma Vc_entries lvl b kvs : Forall (fun kc => Ve kc) kvs -> cshape (Dict kvs) = true ->
    forall ks R, Forall2 (Rel tab) ks (lits (events lvl (Dict kvs)) ++ R) ->
    exists k3, clabel ks (Dict (map e2 kvs)) = Dict k3 /\
      map (TokProofs.mkv (Gfun tab)) (map e3 k3) = map e4 kvs /\
      (forallb (fun e => quoted_within b (snd e)) (flat_map cstrip_entry kvs) = true -> forallb (fun e => lw PWs b (snd e)) (map e3 k3) = true) /\
      TRC.cskeys (Dict k3) = true /\ TRC.call TRC.ctokb (Dict k3) = true.
  Proof.
    induction 1 as [|kc kvs Hkc _ IH]; intros Hs ks R HR.
    - exists []. repeat split; reflexivity.
    - rewrite cshape_cons in Hs. apply andb_true_iff in Hs. destruct Hs as [Hs1 Hs2].
      rewrite events_cons, lits_app, <- app_assoc in HR.
      destruct (Hkc Hs1 lvl ks _ b HR) as (E1 & E2 & E3 & E4 & E5).
      pose proof (Forall2_skipn _ _ _ _ HR) as HR'. rewrite (entry_lits lvl kc Hs1), <- E5 in HR'.
      destruct (IH Hs2 _ R HR') as (k3 & K0 & K1 & K2 & K3 & K4).
      cbn [map]. rewrite clabel_cons, K0. cbn [kvs_of]. eexists. split; [reflexivity|].
      cbn [map flat_map]. rewrite E1, K1. split; [reflexivity|]. split; [|split].
      + rewrite forallb_app. intros Hq. apply andb_true_iff in Hq. destruct Hq as [Hq1 Hq2]. cbn [forallb]. rewrite (E2 Hq1), (K2 Hq2). reflexivity.
      + rewrite TRC.cskeys_cons, E3, K3. reflexivity.
      + rewrite TRC.call_cons, E4, K4. reflexivity.
  Qed.

  Lemma Vc_all : forall t, Vc t.
  Proof.
    induction t as [v|kvs IH|ts IH] using tree_ind'; intros Hs; try discriminate Hs. intros lvl ks R b HR.
    assert (HVe : Forall (fun kc => Ve kc) kvs).
    { revert IH. apply Forall_impl. intros [k c] Hc. apply Ve_entry. cbn [snd] in Hc. destruct c; try exact I. exact Hc. }
    destruct (Vc_entries lvl (Nat.pred b) kvs HVe Hs ks R HR) as (k3 & K0 & K1 & K2 & K3 & K4).
    unfold doc3, doc2. rewrite cmapg_dict, K0. unfold TRC.cres, numT. rewrite !cmapg_dict, TokProofs.map_leaves_dict, K1.
    split; [reflexivity|]. split; [|split; assumption].
    rewrite cstrip_dict. unfold quoted_within. rewrite !lw_dict. exact K2.
  Qed.
End Values.

(* ================================================================================================ *)
(* 2. tables                                                                                        *)
(* ================================================================================================ *)

Lemma number_from_fst {A} (l : list A) : forall i, map fst (number_from i l) = map (fun j => i + N.of_nat j) (seq 0 (length l)).
Proof.
  induction l as [|x l IH]; intros i; [reflexivity|]. cbn [number_from map fst length seq]. rewrite IH, <- seq_shift, map_map.
  f_equal; [lia|]. apply map_ext. intros j. lia.
Qed.

Lemma number_from_nodup {A} (l : list A) i : NoDup (map fst (number_from i l)).
Proof.
  rewrite number_from_fst. apply NoDup_map_on; [|apply seq_NoDup]. intros a b _ _ H. lia.
Qed.

Lemma number_from_lt {A} (l : list A) i j x : In (j, x) (number_from i l) -> j < i + N.of_nat (length l).
Proof.
  intros H. assert (Hj : In j (map fst (number_from i l))) by (apply in_map_iff; exists (j, x); split; [reflexivity|exact H]).
  rewrite number_from_fst in Hj. apply in_map_iff in Hj. destruct Hj as (k & <- & Hk). apply in_seq in Hk. lia.
Qed.

Lemma inb_combine (ks : list N) (xs : list str) x : length ks = length xs -> In x xs -> inb x (combine ks xs) = true.
Proof.
  revert xs. induction ks as [|k ks IH]; intros xs Hl Hin; destruct xs as [|y xs]; try discriminate Hl; [destruct Hin|].
  cbn [combine inb existsb snd]. destruct Hin as [-> |Hin]; [rewrite ScalarProofs.str_eqb_refl; reflexivity|].
  fold (inb x (combine ks xs)). rewrite (IH xs ltac:(cbn [length] in Hl; lia) Hin). apply orb_true_r.
Qed.

Lemma cafter_ge c n : (-1 <= c)%Z -> (-1 <= cafter c n)%Z.
Proof.
  revert c. induction n as [|n IH]; intros c H; [exact H|]. cbn [cafter]. apply IH. pose proof (counter_next_nonneg c H). lia.
Qed.

(* _clean looks at keys only *)
Lemma keys_of_kind_mkv g kd kvs : keys_of_kind kd (map (TokProofs.mkv g) kvs) = keys_of_kind kd kvs.
Proof. unfold keys_of_kind. rewrite map_map. reflexivity. Qed.

Lemma ctabs_map_leaves lc bc g : forall t, ctabs lc bc (map_leaves g t) -> ctabs lc bc t.
Proof.
  induction t as [v|kvs IH|ts IH] using tree_ind'; intros H; try exact I.
  rewrite TokProofs.map_leaves_dict in H. cbn [ctabs] in *. rewrite !keys_of_kind_mkv in H. destruct H as (H1 & H2 & H3).
  split; [exact H1|]. split; [exact H2|]. clear H1 H2. induction IH as [|[k c] kvs Hc _ IHk]; [exact I|].
  cbn [map] in H3. destruct H3 as [H3 H4]. split; [|exact (IHk H4)]. cbn [snd] in Hc. unfold TokProofs.mkv in H3. cbn [fst snd] in H3.
  destruct c as [v|d|l]; try exact I. rewrite TokProofs.map_leaves_dict in H3. apply Hc. rewrite TokProofs.map_leaves_dict. exact H3.
Qed.

Lemma parser_clean_num ltab btab f (c : list (key * tree)) : cshape (Dict c) = true ->
  parser_clean (kvs_of (numT ltab btab f (Dict c))) = kvs_of (numT ltab btab f (Dict c)).
Proof.
  intros Hs. unfold numT. rewrite cmapg_dict. cbn [kvs_of]. unfold parser_clean.
  assert (G : forall k0, (k0 = KS (of_string "_variables") \/ k0 = KS (of_string "_includes")) ->
              forall l : list (key * tree), (forall kc, In kc l -> In kc (map (cmap_entry (gkv (numx ltab btab) (numx ltab btab)) f) c)) -> adel k0 l = l).
  { intros k0 Hk0 l Hl. apply adel_absent. intros e He. apply Hl in He. apply in_map_iff in He. destruct He as (kc & <- & Hin).
    rewrite fst_ce. rewrite cshape_forallb, forallb_forall in Hs. pose proof (Hs kc Hin) as Hk. unfold cshape_entry in Hk.
    apply SDictProofs.key_eqb_neq. destruct (cm_entry kc) as [[n x]|].
    - destruct (gx_cases ltab btab n x) as (w & i & Hw & ->). intros E.
      destruct Hk0 as [-> | ->]; destruct Hw as [-> | ->]; inversion E.
    - apply andb_true_iff in Hk. destruct Hk as [Hk _]. destruct (simple_key_inv _ Hk) as (_ & _ & _ & N1 & N2).
      destruct Hk0 as [-> | ->]; intros Heq; [apply N1|apply N2]; symmetry; exact Heq. }
  rewrite (G _ (or_introl eq_refl) _ (fun kc H => H)). apply (G _ (or_intror eq_refl)). intros kc H. exact H.
Qed.

(* ================================================================================================ *)
(* 3. reading a canonical document                                                                  *)
(* ================================================================================================ *)

Definition lc_list (c : list (key * tree)) : list str := lcx (events 0 (Dict c)).
Definition bc_list (c : list (key * tree)) : list str := bcx (events 0 (Dict c)).
Definition lit_list (c : list (key * tree)) : list str := lits (events 0 (Dict c)).
Definition lc_tab (count : Z) (c : list (key * tree)) : list (N * str) := combine (ids count (length (lc_list c))) (lc_list c).
Definition bc_tab (c : list (key * tree)) : list (N * str) := number_from 0 (bc_list c).
(* the SDict the reader returns for the text of the canonical document c: comments renumbered in text order (line
   comments by the placeholder counter, block comments from zero), ordinary leaves as the classifier reads them *)
Definition number (count : Z) (c : list (key * tree)) : sdict :=
  mkSD (kvs_of (numT (lc_tab count c) (bc_tab c) written_value (Dict c))) (lc_tab count c) (bc_tab c) [] [].
Definition count_after (count : Z) (c : list (key * tree)) : Z :=
  cafter (cafter count (length (lc_list c))) (length (lit_list c)).

Lemma cdoc_ok_inv c : cdoc_ok c = true ->
  cshape (Dict c) = true /\ wf (cstrip (Dict c)) = true /\ quoted_within 11 (cstrip (Dict c)) = true /\
  forallb cm_ok (cms (Dict c)) = true /\ NoDup (lc_list c) /\ NoDup (bc_list c).
Proof.
  unfold cdoc_ok. intros H. apply andb_true_iff in H. destruct H as [H H6]. apply andb_true_iff in H. destruct H as [H H5].
  apply andb_true_iff in H. destruct H as [H H4]. apply andb_true_iff in H. destruct H as [H H3]. apply andb_true_iff in H. destruct H as [H1 H2].
  repeat split; try assumption.
  - unfold lc_list. rewrite lcx_texts. apply nodupb_NoDup. exact H5.
  - unfold bc_list. rewrite bcx_texts. apply nodupb_NoDup. exact H6.
Qed.

Lemma lits_qlit_ok es : Forall ev_ok es -> Forall qlit (lits es).
Proof.
  induction 1 as [|e es He _ IH]; [constructor|]. unfold lits in *. cbn [flat_map]. apply Forall_app. split; [|exact IH].
  destruct e as [lvl k v|lvl k l|lvl k|lvl|lvl n x]; cbn [ev_lits ev_ok] in *; try constructor.
  - exact (qstrs_qlit (Leaf v) (proj2 He)).
  - exact (qstrs_qlit (Lst l) (proj2 He)).
Qed.

Theorem reader_canon c dir count : cdoc_ok c = true -> (-1 <= count)%Z ->
  (Z.of_nat (length (lc_list c)) <= 1000000)%Z -> (Z.of_nat (length (bc_list c)) <= 1000000)%Z ->
  (Z.of_nat (length (lit_list c)) <= 1000000)%Z ->
  parse_string true dir count (remove_trailing_spaces (cat cm_line (events 0 (Dict c)))) =
  Ok (mkParsed (number count c) (count_after count c)).
Proof.
  intros Hc Hcount Hnl Hnb Hnq. destruct (cdoc_ok_inv c Hc) as (Hs & Hw & Hqw & Hcm & Hlnd & Hbnd).
  set (es := events 0 (Dict c)) in *.
  assert (Hok : Forall ev_ok es) by (apply cshape_events; exact Hs).
  assert (Hsrc : Forall ev_src es) by (apply cms_of_events_src; assumption).
  set (nl := length (lc_list c)). set (nq := length (lit_list c)). set (lids := ids count nl). set (c1 := cafter count nl).
  set (ltab := lc_tab count c). set (btab := bc_tab c). set (ks := ids c1 nq). set (tab := combine ks (lit_list c)).
  assert (Hlids : NoDup lids) by (apply ids_nodup; assumption).
  assert (Hc1 : (-1 <= c1)%Z) by (apply cafter_ge; exact Hcount).
  assert (Hks : NoDup ks) by (apply ids_nodup; assumption).
  assert (Hlen_l : length lids = length (lc_list c)) by apply ids_length.
  assert (Hlen_k : length ks = length (lit_list c)) by apply ids_length.
  (* the tables *)
  assert (TLnd : NoDup (map fst ltab)) by (unfold ltab, lc_tab; fold nl lids; rewrite (combine_fst _ _ Hlen_l); exact Hlids).
  assert (TBnd : NoDup (map fst btab)) by apply number_from_nodup.
  assert (TLlt : forall i x, In (i, x) ltab -> i < 1000000).
  { intros i x Hin. apply in_combine_l in Hin. pose proof (ids_small count nl) as Hsm. unfold small in Hsm. rewrite Forall_forall in Hsm. exact (Hsm i Hin). }
  assert (TBlt : forall i x, In (i, x) btab -> i < 1000000).
  { intros i x Hin. apply number_from_lt in Hin. fold (bc_list c) in Hnb. lia. }
  assert (TLin : forall x, In x (lc_list c) -> inb x ltab = true) by (intros x Hx; apply inb_combine; [exact Hlen_l|exact Hx]).
  assert (TBin : forall x, In x (bc_list c) -> inb x btab = true) by (intros x Hx; apply inb_number_from; exact Hx).
  (* the numbered document *)
  assert (Hsrct : src_tree ltab btab (Dict c) 0).
  { split; [exact Hs|]. split; [exact Hw|]. split; [exact Hsrc|]. fold es. rewrite <- lcx_wxe, <- bcx_wxe. repeat split; assumption. }
  destruct (num_ok ltab btab TLnd TBnd TLlt TBlt written_value (Dict c) 0%nat Hsrct) as [Wnum Cnum].
  (* the lexer *)
  rewrite (rts_cat es (Forall_impl _ ev_src_lexW Hsrc)).
  destruct (lex_events true dir count es Hsrc (events_first_nc (Dict c) 0) Hbnd Hlids) as (tl & Htl & Elex).
  (* the final events are those of the numbered placeholder document *)
  assert (EE2 : map (numB true btab) (relab true lids es) = events 0 (doc2 ltab btab (Dict c))).
  { rewrite (relab_keyed true es lids Hlnd Hlen_l).
    change (map (numB true btab) (map (relL true ltab) es) = events 0 (doc2 ltab btab (Dict c))).
    rewrite (passes_keyed ltab btab es Hsrc TBin). symmetry. apply doc2_events. exact Hs. }
  assert (Elex' : lex true dir count (catR es) =
                  mkLexed (evs_tokL ks (events 0 (doc2 ltab btab (Dict c))) ++ tl) (cafter c1 nq) ltab btab [] []
                          (tupdate [] (combine ks (lit_list c)))) by (rewrite <- EE2; exact Elex).
  clear Elex. unfold parse_string. cbv zeta. rewrite Elex'. cbn [lxd_tokens lxd_count lxd_lc lxd_bc lxd_inc lxd_expr lxd_lit].
  assert (Hfin : Forall ev_fin (events 0 (doc2 ltab btab (Dict c)))).
  { rewrite <- EE2. apply final_events; [exact Hsrc|exact TBin|exact Hlen_l]. }
  assert (Hnb0 : forall lvl n, ~ In (ECm lvl n []) (events 0 (doc2 ltab btab (Dict c)))).
  { intros lvl n Hin. rewrite (doc2_events ltab btab (Dict c) 0 Hs) in Hin. apply in_map_iff in Hin. destruct Hin as (e & Ee & _).
    destruct e as [l k v|l k ts|l k|l|l m y]; cbn [ev_map] in Ee; try discriminate Ee. inversion Ee as [[E1 E2 E3]].
    destruct (gx_cases ltab btab m y) as (w & i & Hcw & Eg). rewrite Eg in E3. exact (cph_ne w i Hcw E3). }
  rewrite (evs_tokL_lab _ ks Hfin Hnb0).
  destruct (events_clabel (doc2 ltab btab (Dict c)) 0%nat ks (doc2_cshape ltab btab (Dict c) Hs)) as [Elab _]. rewrite <- Elab.
  fold (doc3 ltab btab ks (Dict c)).
  (* values *)
  assert (Hlits : Forall qlit (lit_list c)) by (apply lits_qlit_ok; exact Hok).
  assert (Hpv : Forall (fun s => PWs (pv s) = false) (lit_list c)).
  { revert Hlits. apply Forall_impl. intros s Hq. destruct (qlit_content s Hq) as [A B]. apply PWs_pv; assumption. }
  assert (Hrel : Forall2 (Rel tab) ks (lits (events 0 (Dict c)) ++ [])).
  { rewrite app_nil_r. apply rel_top; [exact Hks|apply ids_small|exact Hlen_k|exact Hpv]. }
  destruct (Vc_all ltab btab tab (Dict c) Hs 0%nat ks [] 11%nat Hrel) as (V1 & V2 & V3 & V4).
  specialize (V2 Hqw).
  destruct (clabel_dict ks (kvs_of (doc2 ltab btab (Dict c)))) as [k3 Ek3].
  assert (Ed2 : exists d2, doc2 ltab btab (Dict c) = Dict d2) by (unfold doc2; rewrite cmapg_dict; eexists; reflexivity).
  destruct Ed2 as [d2 Ed2]. unfold doc3 in *. rewrite Ed2 in *. cbn [kvs_of] in Ek3. rewrite Ek3 in *.
  set (d0 := kvs_of (TRC.cres nvL (Dict k3))).
  assert (Ed0 : TRC.cres nvL (Dict k3) = Dict d0) by (unfold d0, TRC.cres; rewrite cmapg_dict; reflexivity).
  assert (Wd0 : wf (Dict d0) = true) by (rewrite <- Ed0, <- (wf_map_leaves (Gfun tab)), V1; exact Wnum).
  assert (Cd0 : ctabs ltab btab (Dict d0)) by (rewrite <- Ed0; apply (ctabs_map_leaves _ _ (Gfun tab)); rewrite V1; exact Cnum).
  rewrite (TRC.tok_roundtrip ltL ktS nvL HltL HktpS HkpkS k3 tl Htl); [|rewrite Ed0; exact Wd0|exact V3|exact V4].
  fold d0. cbn [bind].
  rewrite (sd_clean_keep d0 ltab btab [] Cd0 Wd0). cbn [sd_data sd_lc sd_bc sd_inc sd_expr].
  assert (Htab : tupdate [] (combine ks (lit_list c)) = tab).
  { apply (tupdate_fresh (combine ks (lit_list c)) []). cbn [app]. rewrite (combine_fst ks _ Hlen_k). exact Hks. }
  rewrite Htab, (insert_all tab d0 Wd0).
  - rewrite <- Ed0, V1. cbn [bind].
    rewrite (parser_clean_num ltab btab written_value c Hs).
    assert (Ednum : exists d1, numT ltab btab written_value (Dict c) = Dict d1) by (unfold numT; rewrite cmapg_dict; eexists; reflexivity).
    destruct Ednum as [d1 Ed1]. rewrite Ed1 in *. cbn [kvs_of].
    rewrite (sd_clean_keep d1 ltab btab [] Cnum Wnum). unfold number, count_after. fold ltab btab nl nq c1. rewrite Ed1. reflexivity.
  - rewrite <- Ed0. exact V2.
  - apply Forall_forall. intros [k s] Hin. cbn [snd]. rewrite Forall_forall in Hpv. apply Hpv. exact (in_combine_r _ _ _ _ Hin).
Qed.

(* ================================================================================================ *)
(* 4. write, then read                                                                              *)
(* ================================================================================================ *)

(* the canonical document the written text of s spells *)
Definition written_doc (s : sdict) : list (key * tree) := hdr (canon s).

Lemma rereadable_doc s : rereadable s = true -> cdoc_ok (written_doc s) = true.
Proof. intros H. exact (wf_canon s (rereadable_facts s H)). Qed.

(* reading what NativeFormatter.to_string wrote for a re-readable SDict returns the numbered canonical document *)
Theorem reread_sd s dir count : rereadable s = true -> (-1 <= count)%Z ->
  (Z.of_nat (length (lc_list (written_doc s))) <= 1000000)%Z -> (Z.of_nat (length (bc_list (written_doc s))) <= 1000000)%Z ->
  (Z.of_nat (length (lit_list (written_doc s))) <= 1000000)%Z ->
  parse_string true dir count (to_string_sd s) =
  Ok (mkParsed (number count (written_doc s)) (count_after count (written_doc s))).
Proof.
  intros Hr Hc H1 H2 H3. rewrite (writer_canon s Hr). exact (reader_canon (written_doc s) dir count (rereadable_doc s Hr) Hc H1 H2 H3).
Qed.

(* ---- what the numbered document is ----------------------------------------------------------------- *)
(* the canonical document with every ordinary leaf read back by the classifier; comments untouched *)
Definition keepx (_ x : str) : str := x.
Definition cwv (c : list (key * tree)) : list (key * tree) := kvs_of (cmapg (gkv keepn keepx) written_value (Dict c)).

(* comment entries of a canonical document carry the names LINECOMMENT / BLOCKCOMMENT and texts that are in the tables *)
Fixpoint cnames_ok (ltab btab : list (N * str)) (t : tree) {struct t} : Prop :=
  match t with
  | Dict kvs =>
      (fix go (l : list (key * tree)) : Prop :=
         match l with
         | [] => True
         | (k, c) :: l' =>
             (match cm_entry (k, c) with
              | Some (n, x) => (n = w_LINECOMMENT /\ inb x ltab = true) \/ (n = w_BLOCKCOMMENT /\ inb x btab = true)
              | None => match c with Dict _ => cnames_ok ltab btab c | _ => True end
              end) /\ go l'
         end) kvs
  | _ => True
  end.

Lemma src_cnames ltab btab : forall t lvl, src_tree ltab btab t lvl -> cnames_ok ltab btab t.
Proof.
  induction t as [v|kvs IH|ts IH] using tree_ind'; intros lvl Hsrc; try exact I.
  destruct (src_level ltab btab kvs lvl Hsrc) as (Hcm & _).
  assert (G : forall l, (forall kc, In kc l -> In kc kvs) -> cnames_ok ltab btab (Dict l)).
  { induction l as [|[k c] l IHl]; intros Hsub; [exact I|]. cbn [cnames_ok]. split; [|apply IHl; intros kc H; apply Hsub; right; exact H].
    assert (Hin : In (k, c) kvs) by (apply Hsub; left; reflexivity).
    destruct (cm_entry (k, c)) as [[n x]|] eqn:Ec; [exact (Hcm (k, c) n x Hin Ec)|].
    destruct c as [v|d|l']; try exact I. rewrite Forall_forall in IH. exact (IH (k, Dict d) Hin (S lvl) (src_child ltab btab kvs lvl k d Hsrc Hin Ec)). }
  apply G. auto.
Qed.

Section CanonNumber.
  Variable ltab btab : list (N * str).
  Hypothesis HLnd : NoDup (map fst ltab).
  Hypothesis HBnd : NoDup (map fst btab).
  Hypothesis HLlt : forall i x, In (i, x) ltab -> i < 1000000.
  Hypothesis HBlt : forall i x, In (i, x) btab -> i < 1000000.

  Lemma canon_numT : forall t, cshape t = true -> cnames_ok ltab btab t ->
    canon_tree ltab btab (numT ltab btab written_value t) = cmapg (gkv keepn keepx) written_value t.
  Proof.
    induction t as [v|kvs IH|ts IH] using tree_ind'; intros Hs Hn; try discriminate Hs.
    unfold canon_tree, numT. rewrite !cmapg_dict. apply (f_equal Dict). etransitivity; [apply List.map_map|].
    revert Hs Hn. induction IH as [|[k c] kvs Hc _ IHk]; intros Hs Hn; [reflexivity|].
    rewrite cshape_cons in Hs. apply andb_true_iff in Hs. destruct Hs as [Hs1 Hs2]. cbn [cnames_ok] in Hn. destruct Hn as [Hn1 Hn2].
    cbn [map]. rewrite (IHk Hs2 Hn2). f_equal. cbn [snd] in Hc.
    unfold cshape_entry in Hs1. unfold cmap_entry at 2 3. destruct (cm_entry (k, c)) as [[n x]|] eqn:Ec.
    - destruct (cm_entry_inv _ _ _ Ec) as [_ Hcmn]. unfold gkv at 2 3. unfold cmap_entry.
      assert (Enum : exists w i, cw w /\ i < 1000000 /\ numx ltab btab n x = placeholder w i /\ n = w /\
                                 tlookup i (if str_eqb w w_LINECOMMENT then ltab else btab) = Some x).
      { unfold numx. destruct Hn1 as [[-> Hx]|[-> Hx]].
        - exists w_LINECOMMENT, (rlookup x ltab). replace (str_eqb w_LINECOMMENT w_LINECOMMENT) with true by reflexivity.
          repeat split; [left; reflexivity|exact (HLlt _ _ (rlookup_In x ltab Hx))|exact (tlookup_rlookup x ltab HLnd Hx)].
        - exists w_BLOCKCOMMENT, (rlookup x btab). replace (str_eqb w_BLOCKCOMMENT w_LINECOMMENT) with false by reflexivity.
          repeat split; [right; reflexivity|exact (HBlt _ _ (rlookup_In x btab Hx))|exact (tlookup_rlookup x btab HBnd Hx)]. }
      destruct Enum as (w & i & Hw & Hi & Eg & -> & Hl). rewrite Eg.
      assert (Ecm : cm_entry (KS (placeholder w i), Leaf (SStr (placeholder w i))) = Some (placeholder w i, placeholder w i)).
      { cbn [cm_entry]. unfold is_cm. destruct (cw_facts w Hw) as (_ & _ & Hcc). unfold placeholder. rewrite (contains_app_l _ _ _ Hcc). reflexivity. }
      rewrite Ecm. unfold gkv, keepn, keepx, res_name, res_text, tget.
      destruct Hw as [-> | ->].
      + rewrite (is_ph_ph w_LINECOMMENT i Hi), ph_id_ph. replace (str_eqb w_LINECOMMENT w_LINECOMMENT) with true in Hl by reflexivity. rewrite Hl. reflexivity.
      + fold (bph i). rewrite is_ph_cross_lb. unfold bph. rewrite (is_ph_ph w_BLOCKCOMMENT i Hi), ph_id_ph.
        replace (str_eqb w_BLOCKCOMMENT w_LINECOMMENT) with false in Hl by reflexivity. rewrite Hl. reflexivity.
    - cbn [fst snd] in *. apply andb_true_iff in Hs1. destruct Hs1 as [Hk Hc1]. unfold cmap_entry. rewrite (cm_entry_simple k _ Hk). cbn [fst snd].
      f_equal. destruct c as [v|d|l].
      + reflexivity.
      + fold (numT ltab btab written_value (Dict d)). fold (canon_tree ltab btab (numT ltab btab written_value (Dict d))).
        assert (Ed : exists d', numT ltab btab written_value (Dict d) = Dict d') by (unfold numT; rewrite cmapg_dict; eexists; reflexivity).
        destruct Ed as [d' Ed]. rewrite Ed. rewrite <- Ed. exact (Hc Hc1 Hn1).
      + rewrite TokProofs.map_leaves_lst. cbv beta iota. exact (map_leaves_id _).
  Qed.
End CanonNumber.

(* the ordinary data of a mapped document *)
Lemma cstrip_cmapg gn gx f : (forall n x, is_cm n = true -> is_cm (gn n x) = true) ->
  forall t, cshape t = true -> cstrip (cmapg (gkv gn gx) f t) = map_leaves f (cstrip t).
Proof.
  intros Hgn. induction t as [v|kvs IH|ts IH] using tree_ind'; intros Hs; try discriminate Hs.
  rewrite cmapg_dict, !cstrip_dict, TokProofs.map_leaves_dict. f_equal.
  revert Hs. induction IH as [|[k c] kvs Hc _ IHk]; intros Hs; [reflexivity|].
  rewrite cshape_cons in Hs. apply andb_true_iff in Hs. destruct Hs as [Hs1 Hs2]. cbn [map flat_map]. rewrite map_app, (IHk Hs2). f_equal.
  unfold cshape_entry in Hs1. unfold cmap_entry, cstrip_entry. cbn [snd] in Hc. destruct (cm_entry (k, c)) as [[n x]|] eqn:Ec.
  - destruct (cm_entry_inv _ _ _ Ec) as [_ Hn]. unfold gkv. cbn [cm_entry]. rewrite (Hgn n x Hn). reflexivity.
  - cbn [fst snd] in *. apply andb_true_iff in Hs1. destruct Hs1 as [Hk Hc1]. rewrite (cm_entry_simple k _ Hk). cbn [fst snd map].
    unfold TokProofs.mkv. cbn [fst snd]. f_equal. f_equal. destruct c as [v|d|l].
    + reflexivity.
    + rewrite cmapg_dict. rewrite <- cmapg_dict. rewrite (Hc Hc1). rewrite cstrip_dict. reflexivity.
    + rewrite TokProofs.map_leaves_lst. reflexivity.
Qed.

(* the facts about a canonical document and its tables used above, collected *)
Lemma doc_src c count : cdoc_ok c = true -> (-1 <= count)%Z ->
  (Z.of_nat (length (lc_list c)) <= 1000000)%Z -> (Z.of_nat (length (bc_list c)) <= 1000000)%Z ->
  NoDup (map fst (lc_tab count c)) /\ NoDup (map fst (bc_tab c)) /\
  (forall i x, In (i, x) (lc_tab count c) -> i < 1000000) /\ (forall i x, In (i, x) (bc_tab c) -> i < 1000000) /\
  src_tree (lc_tab count c) (bc_tab c) (Dict c) 0.
Proof.
  intros Hc Hcount Hnl Hnb. destruct (cdoc_ok_inv c Hc) as (Hs & Hw & Hqw & Hcm & Hlnd & Hbnd).
  assert (Hok : Forall ev_ok (events 0 (Dict c))) by (apply cshape_events; exact Hs).
  assert (Hsrc : Forall ev_src (events 0 (Dict c))) by (apply cms_of_events_src; assumption).
  assert (Hlen_l : length (ids count (length (lc_list c))) = length (lc_list c)) by apply ids_length.
  split; [unfold lc_tab; rewrite (combine_fst _ _ Hlen_l); apply ids_nodup; assumption|]. split; [apply number_from_nodup|]. split; [|split].
  - intros i x Hin. apply in_combine_l in Hin. pose proof (ids_small count (length (lc_list c))) as Hsm. unfold small in Hsm.
    rewrite Forall_forall in Hsm. exact (Hsm i Hin).
  - intros i x Hin. apply number_from_lt in Hin. lia.
  - split; [exact Hs|]. split; [exact Hw|]. split; [exact Hsrc|]. rewrite <- lcx_wxe, <- bcx_wxe. split; [exact Hlnd|]. split; [exact Hbnd|]. split.
    + intros x Hx. apply inb_combine; [exact Hlen_l|exact Hx].
    + intros x Hx. apply inb_number_from. exact Hx.
Qed.

Lemma numT_dict ltab btab f c : exists d, numT ltab btab f (Dict c) = Dict d.
Proof. unfold numT. rewrite cmapg_dict. eexists. reflexivity. Qed.

(* (b), (c): the canonical form of the re-read SDict is the canonical document, leaves read back *)
Theorem canon_number c count : cdoc_ok c = true -> (-1 <= count)%Z ->
  (Z.of_nat (length (lc_list c)) <= 1000000)%Z -> (Z.of_nat (length (bc_list c)) <= 1000000)%Z ->
  canon (number count c) = cwv c.
Proof.
  intros Hc Hcount Hnl Hnb. destruct (doc_src c count Hc Hcount Hnl Hnb) as (A1 & A2 & A3 & A4 & A5).
  destruct (cdoc_ok_inv c Hc) as (Hs & _). unfold canon, number, cwv. cbn [sd_data sd_lc sd_bc].
  destruct (numT_dict (lc_tab count c) (bc_tab c) written_value c) as [d Ed]. rewrite Ed. cbn [kvs_of]. rewrite <- Ed.
  rewrite (canon_numT _ _ A1 A2 A3 A4 (Dict c) Hs (src_cnames _ _ (Dict c) 0 A5)). reflexivity.
Qed.

(* (a): the ordinary data of the re-read SDict *)
Theorem data_number c count : cdoc_ok c = true ->
  cstrip (Dict (sd_data (number count c))) = map_leaves written_value (cstrip (Dict c)).
Proof.
  intros Hc. destruct (cdoc_ok_inv c Hc) as (Hs & _). unfold number. cbn [sd_data].
  destruct (numT_dict (lc_tab count c) (bc_tab c) written_value c) as [d Ed]. rewrite Ed. cbn [kvs_of]. rewrite <- Ed.
  unfold numT. apply cstrip_cmapg; [|exact Hs]. intros n x _.
  destruct (gx_cases (lc_tab count c) (bc_tab c) n x) as (w & i & Hw & ->). destruct (cw_facts w Hw) as (_ & _ & Hcc).
  unfold is_cm, placeholder. apply contains_app_l. exact Hcc.
Qed.

Print Assumptions reread_sd.
Print Assumptions canon_number.
