(* C03 on include directives: one write/read cycle is a fixed point.
   The SDict read back from the text written for an SDict of the class rereadable_inc is again in the class, with the same
   include names; a second cycle returns the same canonical document and the same names, and writes the same bytes. *)
From Coq Require Import String.
From Coq Require Import NArith ZArith List Bool Lia ZifyBool ZifyN ZifyNat.
From DictIO Require Import Chars Str Value Scalar KeyPath SDict Layout Lexer TokParser TreeSpec NativeSpec LayoutSpec E2ESpec.
From DictIO Require ScalarProofs SDictProofs TokProofs LayoutProofs SemProofs QuoteProofs KeyPathProofs.
From DictIO Require Import E2EProofs E2EHoles E2EInsert E2EKeyTok E2EFullProofs RereadStr RereadTree RereadWrite RereadLex RereadParse RereadNum RereadProofs RereadFix RereadOff.
From DictIO Require Import RereadIncStage RereadIncLex RereadIncParse RereadIncRead RereadIncWrite RereadIncProofs.
Import ListNotations.
Import LayoutProofs.
Open Scope N_scope.

(* ================================================================================================ *)
(* 1. the re-read SDict is in the class                                                             *)
(* ================================================================================================ *)

Lemma inc_name_tab dir : forall names ks, NoDup ks -> length ks = length names ->
  map (inc_name (inc_tab dir ks names)) ks = names.
Proof.
  unfold inc_tab. induction names as [|nm names IH]; intros ks Hnd Hl; destruct ks as [|k ks]; try discriminate Hl; [reflexivity|].
  inversion Hnd as [|x xs Hx Hnd']; subst. cbn [map combine]. f_equal.
  - unfold inc_name. cbn [tlookup]. rewrite N.eqb_refl. reflexivity.
  - rewrite <- (IH ks Hnd' ltac:(cbn [length] in Hl; lia)) at 2. apply map_ext_in. intros k' Hk'. unfold inc_name. cbn [tlookup].
    destruct (k' =? k) eqn:E; [apply N.eqb_eq in E; subst k'; contradiction|reflexivity].
Qed.

Lemma forallb_snd_number_from (p : str -> bool) (l : list str) : forall i, forallb (fun e : N * str => p (snd e)) (number_from i l) = forallb p l.
Proof. induction l as [|x l IH]; intros i; [reflexivity|]. cbn [number_from forallb snd]. rewrite IH. reflexivity. Qed.

Lemma tlookup_combine_in {V} : forall (ks : list N) (es : list V) k, In k ks -> length ks = length es -> exists e, tlookup k (combine ks es) = Some e.
Proof.
  induction ks as [|k0 ks IH]; intros es k Hin Hl; [destruct Hin|]. destruct es as [|e es]; [discriminate Hl|]. cbn [combine tlookup].
  destruct (k =? k0) eqn:E; [exists e; reflexivity|]. destruct Hin as [<-|Hin]; [rewrite N.eqb_refl in E; discriminate E|].
  apply IH; [exact Hin|cbn [length] in Hl; lia].
Qed.

Lemma inc_tab_lookup dir ks names k : In k ks -> length ks = length names -> exists e, tlookup k (inc_tab dir ks names) = Some e.
Proof. intros Hk Hl. unfold inc_tab. apply tlookup_combine_in; [exact Hk|rewrite map_length; exact Hl]. Qed.

Theorem number_inc_rereadable dir count c names : cdoc_ok c = true -> csort c = c -> has_header c = true -> (-1 <= count)%Z ->
  (Z.of_nat (length (lc_list c)) <= 1000000)%Z -> (Z.of_nat (length (bc_list c)) <= 1000000)%Z -> (Z.of_nat (length names) <= 1000000)%Z ->
  forallb name_cond names = true -> NoDup names -> forallb incfree (bc_list c) = true ->
  rereadable_inc (number_inc dir count c names) = true /\ written_doc_inc (number_inc dir count c names) = cwv c /\
  inc_names (number_inc dir count c names) = names /\ length (sd_lc (number_inc dir count c names)) = length (lc_list c).
Proof.
  intros Hc Hsort Hh Hcount Hnl Hnb Hni Hnm Hnmnd Hbf.
  destruct (cdoc_ok_inv c Hc) as (Hs & _).
  destruct (number_rereadable c count Hc Hsort Hh Hcount Hnl Hnb) as [Hr0 Ew0].
  set (c1 := cafter count (length (lc_list c))). set (ks := ids c1 (length names)).
  assert (Hc1 : (-1 <= c1)%Z) by (apply cafter_ge; exact Hcount).
  assert (Hks_nd : NoDup ks) by (apply ids_nodup; assumption).
  assert (Hks_sm : small ks) by apply ids_small.
  assert (Hsm : forall k, In k ks -> k < 1000000) by (intros k Hk; unfold small in Hks_sm; rewrite Forall_forall in Hks_sm; exact (Hks_sm k Hk)).
  assert (Hlen : length ks = length names) by apply ids_length.
  pose proof (strip_number_inc dir count c names Hc Hsm) as Hstrip.
  set (s1 := number_inc dir count c names) in *. set (d := sd_data (number count c)). set (nb := length (bpart c)).
  assert (Ed1 : sd_data s1 = firstn nb d ++ map inc_ph_entry ks ++ skipn nb d) by reflexivity.
  assert (Hd : forall kc, In kc d -> is_inc_entry kc = false).
  { intros kc Hin. unfold d in Hin. rewrite <- Hstrip in Hin. cbn [strip_inc sd_data] in Hin. apply filter_In in Hin. destruct Hin as [_ Hf].
    apply negb_true_iff in Hf. exact Hf. }
  assert (Hnoinc : noinc (Dict (firstn nb d ++ skipn nb d))).
  { rewrite firstn_skipn. unfold d, number. cbn [sd_data]. destruct (numT_dict (lc_tab count c) (bc_tab c) written_value c) as [d' Ed].
    rewrite Ed. cbn [kvs_of]. rewrite <- Ed. apply numT_noinc. exact Hs. }
  assert (Hwf0 : wf (Dict (firstn nb d ++ skipn nb d)) = true).
  { rewrite firstn_skipn. exact (wf_data _ (rereadable_facts _ Hr0)). }
  assert (Hids : inc_ids s1 = ks).
  { unfold inc_ids. rewrite Ed1, !flat_map_app.
    assert (G0 : forall l, (forall kc, In kc l -> In kc d) -> flat_map inc_id_of l = []).
    { induction l as [|kc l IH]; intros Hsub; [reflexivity|]. cbn [flat_map]. rewrite IH by (intros x Hx; apply Hsub; right; exact Hx).
      unfold inc_id_of. rewrite (Hd kc (Hsub kc (or_introl eq_refl))). reflexivity. }
    rewrite (G0 (firstn nb d)) by (intros kc Hin; exact (firstn_In _ _ _ Hin)).
    rewrite (G0 (skipn nb d)) by (intros kc Hin; exact (skipn_In _ _ _ Hin)). rewrite app_nil_r. cbn [app].
    clear -Hsm. induction ks as [|k ks IH]; [reflexivity|]. cbn [map flat_map]. rewrite (inc_id_entry k (Hsm k (or_introl eq_refl))), IH; [reflexivity|].
    intros k' Hk'. apply Hsm. right. exact Hk'. }
  assert (Hnames : inc_names s1 = names).
  { unfold inc_names. rewrite Hids. change (sd_inc s1) with (inc_tab dir ks names). exact (inc_name_tab dir names ks Hks_nd Hlen). }
  split; [|split; [unfold written_doc_inc; rewrite Hstrip; exact Ew0|split; [exact Hnames|]]].
  2:{ change (sd_lc s1) with (lc_tab count c). unfold lc_tab. rewrite combine_length, ids_length. lia. }
  unfold rereadable_inc. rewrite Hstrip, Hr0. cbn [andb].
  assert (W : wf (Dict (sd_data s1)) = true) by (rewrite Ed1; apply (wf_splice ks Hks_nd Hks_sm); assumption).
  rewrite W. cbn [andb].
  assert (Een : forallb (fun kc => negb (is_inc_entry kc) || inc_entry_ok (sd_inc s1) kc) (sd_data s1) = true).
  { apply forallb_forall. intros kc Hin. rewrite Ed1 in Hin. apply In_splice in Hin. destruct Hin as [Hin|Hin].
    - apply in_map_iff in Hin. destruct Hin as (k & <- & Hk). apply orb_true_iff. right. unfold inc_ph_entry, ikey. cbn [inc_entry_ok].
      rewrite ScalarProofs.str_eqb_refl. unfold iph. rewrite (is_ph_ph w_INCLUDE k (Hsm k Hk)), ph_id_ph. cbn [andb].
      change (sd_inc s1) with (inc_tab dir ks names). destruct (inc_tab_lookup dir ks names k Hk Hlen) as [e He]. rewrite He. reflexivity.
    - rewrite (Hd kc ltac:(rewrite <- (firstn_skipn nb d); exact Hin)). reflexivity. }
  rewrite Een. cbn [andb].
  assert (Etab : tab_ok (sd_inc s1) = true).
  { apply tab_ok_of.
    - change (sd_inc s1) with (inc_tab dir ks names). unfold inc_tab. rewrite combine_fst by (rewrite map_length; exact Hlen). exact Hks_nd.
    - intros i v Hin. change (sd_inc s1) with (inc_tab dir ks names) in Hin. unfold inc_tab in Hin. apply in_combine_l in Hin. exact (Hsm i Hin). }
  rewrite Etab, Hnames, Hnm, (NoDup_nodupb names Hnmnd). cbn [andb].
  change (sd_bc s1) with (bc_tab c). unfold bc_tab. rewrite (forallb_snd_number_from incfree (bc_list c) 0), Hbf. reflexivity.
Qed.

(* ================================================================================================ *)
(* 2. the block comment texts of the written document                                               *)
(* ================================================================================================ *)

Lemma bc_list_incfree s : rereadable s = true -> (forall i b, In (i, b) (sd_bc s) -> incfree b = true) ->
  forallb incfree (bc_list (written_doc s)) = true.
Proof.
  intros Hr Hb. pose proof (rereadable_facts s Hr) as HW.
  assert (Hcs : forallb incfree (bcx (events 0 (Dict (csort (canon s))))) = true).
  { rewrite (canon_events s HW). set (E0 := events 0 (Dict (sort_top (sd_data s)))).
    assert (G : forall es, (forall lvl n x, In (ECm lvl n x) es -> In (ECm lvl n x) E0) ->
                forallb incfree (bcx (map (ev_map (fun n _ => res_name n) (res_text (sd_lc s) (sd_bc s)) idf) es)) = true).
    { induction es as [|e es IH]; intros Hsub; [reflexivity|]. cbn [map].
      destruct e as [lvl k v|lvl k l|lvl k|lvl|lvl n x]; cbn [ev_map bcx]; try (apply IH; intros l0 n0 x0 H0; apply Hsub; right; exact H0).
      assert (IH' : forallb incfree (bcx (map (ev_map (fun n _ => res_name n) (res_text (sd_lc s) (sd_bc s)) idf) es)) = true)
        by (apply IH; intros l0 n0 x0 H0; apply Hsub; right; exact H0).
      destruct (str_eqb (res_name n) w_BLOCKCOMMENT) eqn:En; [|exact IH']. cbn [forallb]. rewrite IH', andb_true_r.
      destruct (final_text s HW lvl n x (Hsub lvl n x (or_introl eq_refl))) as [(i & t & Ei & _)|(i & b & Ei & Hi & Hbt & HG & _)].
      - exfalso. rewrite Ei in En. unfold res_name in En.
        assert (Ep : is_ph w_LINECOMMENT (lph i) = true).
        { destruct (ph_entry_inv _ _ _ _ _ (E0_entry s HW lvl n x (Hsub lvl n x (or_introl eq_refl)))) as (_ & _ & [[Hp _]|[Hp _]]).
          - rewrite Ei in Hp. exact Hp.
          - rewrite Ei, is_ph_cross_bl in Hp. discriminate Hp. }
        rewrite Ep in En. discriminate En.
      - rewrite HG. exact (Hb i b (tlookup_In _ _ _ Hbt)). }
    apply G. auto. }
  unfold bc_list, written_doc, hdr. destruct (has_header (csort (canon s))); [exact Hcs|].
  rewrite hdr_entry_events. cbn [bcx]. replace (str_eqb w_BLOCKCOMMENT w_BLOCKCOMMENT) with true by reflexivity. cbn [forallb]. rewrite Hcs.
  replace (incfree nh_txt) with true by (symmetry; exact nh_incfree'). reflexivity.
Qed.

(* ================================================================================================ *)
(* 3. the fixed point                                                                               *)
(* ================================================================================================ *)

Theorem reread_inc_fixed_point s dir count dir' count' : rereadable_inc s = true -> (Z.of_nat (length (sd_lc s)) < 1000000)%Z ->
  (-1 <= count)%Z -> (-1 <= count')%Z ->
  (Z.of_nat (length (lc_list (written_doc_inc s))) < 1000000)%Z -> (Z.of_nat (length (bc_list (written_doc_inc s))) <= 1000000)%Z ->
  (Z.of_nat (length (lit_list (written_doc_inc s))) <= 1000000)%Z -> (Z.of_nat (length (inc_names s)) <= 1000000)%Z ->
  let c := written_doc_inc s in let names := inc_names s in
  let s1 := number_inc dir count c names in let c1 := cwv c in let s2 := number_inc dir' count' c1 names in
  parse_string true dir count (to_string_sd s) = Ok (mkParsed s1 (count_after_inc count c names)) /\
  rereadable_inc s1 = true /\
  parse_string true dir' count' (to_string_sd s1) = Ok (mkParsed s2 (count_after_inc count' c1 names)) /\
  written_doc_inc s1 = c1 /\ written_doc_inc s2 = c1 /\ inc_names s1 = names /\ inc_names s2 = names /\
  to_string_sd s2 = to_string_sd s1.
Proof.
  intros Hr Hl Hc Hc' H1 H2 H3 H4 c names s1 c1 s2. pose proof (rereadable_inc_facts s Hr) as HI.
  pose proof (rereadable_doc (strip_inc s) (if_strip s HI)) as Hdoc. fold (written_doc_inc s) in Hdoc. fold c in Hdoc, H1, H2, H3. fold names in H4.
  destruct (hdr_sorted (canon (strip_inc s))) as [Hsort Hhead]. fold (written_doc (strip_inc s)) in Hsort, Hhead. fold (written_doc_inc s) in Hsort, Hhead. fold c in Hsort, Hhead.
  destruct (cdoc_ok_inv c Hdoc) as (Hs & _).
  assert (Hnm : forallb name_cond names = true) by (apply forallb_forall; intros nm Hin; exact (if_names s HI nm Hin)).
  pose proof (if_names_nd s HI) as Hnmnd. fold names in Hnmnd.
  assert (Hbf : forallb incfree (bc_list c) = true) by (exact (bc_list_incfree (strip_inc s) (if_strip s HI) (if_bc s HI))).
  assert (H1' : (Z.of_nat (length (lc_list c)) <= 1000000)%Z) by lia.
  destruct (number_inc_rereadable dir count c names Hdoc Hsort Hhead Hc H1' H2 H4 Hnm Hnmnd Hbf) as (Hr1 & Ew1 & En1 & El1). fold s1 in Hr1, Ew1, En1, El1. fold c1 in Ew1.
  destruct (cwv_lists c Hs) as (L1 & L2 & L3). fold c1 in L1, L2, L3.
  pose proof (cwv_ok c Hdoc) as Hdoc1. fold c1 in Hdoc1.
  pose proof (cwv_sorted c Hs Hsort) as Hsort1. fold c1 in Hsort1.
  assert (Hhead1 : has_header c1 = true) by (unfold c1; rewrite (cwv_header c Hs); exact Hhead).
  assert (B1 : (Z.of_nat (length (lc_list c1)) <= 1000000)%Z) by (rewrite L1; lia).
  assert (B2 : (Z.of_nat (length (bc_list c1)) <= 1000000)%Z) by (rewrite L2; exact H2).
  assert (B3 : (Z.of_nat (length (lit_list c1)) <= 1000000)%Z) by lia.
  assert (Hbf1 : forallb incfree (bc_list c1) = true) by (rewrite L2; exact Hbf).
  destruct (number_inc_rereadable dir' count' c1 names Hdoc1 Hsort1 Hhead1 Hc' B1 B2 H4 Hnm Hnmnd Hbf1) as (Hr2 & Ew2 & En2 & El2). fold s2 in Hr2, Ew2, En2, El2.
  assert (Ecc : cwv c1 = c1) by (unfold c1; apply cwv_cwv; exact Hs). rewrite Ecc in Ew2.
  assert (Hl1 : (Z.of_nat (length (sd_lc s1)) < 1000000)%Z) by (rewrite El1; exact H1).
  assert (Hl2 : (Z.of_nat (length (sd_lc s2)) < 1000000)%Z) by (rewrite El2, L1; exact H1).
  split; [exact (reread_inc s dir count Hr Hl Hc H1' H2 H3 H4)|]. split; [exact Hr1|]. split.
  - pose proof (reread_inc s1 dir' count' Hr1 Hl1 Hc') as R. rewrite Ew1, En1 in R. exact (R B1 B2 B3 H4).
  - split; [exact Ew1|]. split; [exact Ew2|]. split; [exact En1|]. split; [exact En2|].
    rewrite (writer_canon_inc_all s2 Hr2 Hl2), (writer_canon_inc_all s1 Hr1 Hl1).
    fold (written_doc_inc s2) (written_doc_inc s1). rewrite Ew1, Ew2, En1, En2. reflexivity.
Qed.

Print Assumptions number_inc_rereadable.
Print Assumptions reread_inc_fixed_point.
