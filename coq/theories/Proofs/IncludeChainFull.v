(* C18, the chain SDict.include + dump + read WITHOUT a hypothesis on the parsed include table: IncludeChainProofs
   composed with the document-level theorem on include directives of C12 / C03 (RereadIncProofs.includes_survive:
   parse_string (to_string_sd s) for an SDict s of the class rereadable_inc returns the include table
   (directive, name, path_join dir name) in text order).
   NEEDS the files Proofs/RereadInc*.v (job pj_c12inc). *)
From Coq Require Export String.
From Coq Require Import NArith ZArith List Bool Lia.
From DictIO Require Import Chars Str Value Scalar KeyPath SDict Layout Lexer TokParser Reader Paths
     TreeSpec NativeSpec MiscSpec LayoutSpec E2ESpec.
From DictIO Require Import SDictProofs IncludeProofs IncludeChainProofs.
From DictIO Require E2EProofs E2EHoles RereadTree RereadWrite RereadLex RereadProofs.
From DictIO Require RereadIncStage RereadIncLex RereadIncRead RereadIncWrite RereadIncProofs.
Import ListNotations.
Open Scope N_scope.

Module RW := RereadIncWrite.
Module RP := RereadIncProofs.

(* the dict built in memory has one include entry: its id and its name *)
Lemma inc_ids_with_include da i name path : plain_top da = true -> i < 1000000 ->
  RW.inc_ids (sd_with_include da i name path) = [i].
Proof.
  intros Hp Hi. unfold RW.inc_ids, sd_with_include. cbn [sd_data]. rewrite flat_map_app.
  assert (E : flat_map RW.inc_id_of da = []).
  { pose proof (plain_top_inv da Hp) as Hk. clear Hp. induction da as [|kc da IH]; [reflexivity|].
    cbn [flat_map]. rewrite IH by (intros x Hx; apply Hk; right; exact Hx).
    unfold RW.inc_id_of, RW.is_inc_entry. rewrite (proj2 (Hk kc (or_introl eq_refl))). reflexivity. }
  rewrite E. cbn [flat_map app]. unfold RW.inc_id_of, RW.is_inc_entry, inc_kv. cbn [fst].
  rewrite (iph_include_key i Hi). unfold iph. rewrite RereadWrite.ph_id_ph. reflexivity.
Qed.

Lemma inc_names_with_include da i name path : plain_top da = true -> i < 1000000 ->
  RW.inc_names (sd_with_include da i name path) = [name].
Proof.
  intros Hp Hi. unfold RW.inc_names. rewrite (inc_ids_with_include da i name path Hp Hi).
  unfold sd_with_include, RW.inc_name. cbn [sd_inc map tlookup]. rewrite N.eqb_refl. reflexivity.
Qed.

Lemma strip_inc_with_include da i name path : plain_top da = true -> i < 1000000 ->
  sd_data (RW.strip_inc (sd_with_include da i name path)) = da.
Proof.
  intros Hp Hi. unfold RW.strip_inc, sd_with_include. cbn [sd_data]. rewrite filter_app.
  rewrite (filter_all _ da).
  - cbn [filter]. unfold RW.is_inc_entry, inc_kv. cbn [fst]. rewrite (iph_include_key i Hi). cbn [negb]. apply app_nil_r.
  - intros x Hx. unfold RW.is_inc_entry. rewrite (proj2 (plain_top_inv da Hp x Hx)). reflexivity.
Qed.

(* (2)+(3) end to end.  The dict a is built in memory (data da of the re-readable class of C03 / C12, here without
   include entries of its own), b is included, a is dumped to pa; fs holds the dumped text at pa and any unit at pb.
   For ANY two normalised absolute paths: the parse of the dumped text succeeds, reading pa merges b (every ordinary
   top-level key of b's parse is a key of the result), a's own ordinary leaves are kept, and the data of the parsed a
   (comment and include entries aside) are da with each leaf as written and re-read. *)
Theorem include_dump_read_full : forall fs pa pb da i c s c' ub,
  norm_path pa = pa -> norm_path pb = pb ->
  let sa := sd_with_include da i (include_name pa pb) pb in
  plain_top da = true -> RW.rereadable_inc sa = true -> (-1 <= c)%Z ->
  (Z.of_nat (List.length (RereadProofs.lc_list (RP.written_doc_inc sa))) <= 1000000)%Z ->
  (Z.of_nat (List.length (RereadProofs.bc_list (RP.written_doc_inc sa))) <= 1000000)%Z ->
  (Z.of_nat (List.length (RereadProofs.lit_list (RP.written_doc_inc sa))) <= 1000000)%Z ->
  fs_lookup pa fs = Some (FNative (to_string_sd sa)) -> fs_lookup pb fs = Some ub ->
  read_plain fs pa true true c = Ok (s, c') ->
  exists pra,
    parse_unit true pa c (FNative (to_string_sd sa)) = Ok pra /\
    (exists c1 prb, parse_unit true (path_join (dir_of pa) (include_name pa pb)) c1 ub = Ok prb /\
       forall k, ordinary_key k = true -> alookup k (sd_data (pr_sd prb)) <> None -> alookup k (sd_data s) <> None) /\
    (forall k v, ordinary_key k = true -> ordinary_leaf v = true ->
       alookup k (sd_data (pr_sd pra)) = Some (Leaf v) -> alookup k (sd_data s) = Some (Leaf v)) /\
    RereadTree.cstrip (Dict (sd_data (RW.strip_inc (pr_sd pra)))) = map_leaves written_value (RereadTree.cstrip (Dict da)).
Proof.
  intros fs pa pb da i c s c' ub Ha Hb sa Hp Hr Hc B1 B2 B3 Hfa Hfb Hread.
  assert (Hi : i < 1000000).
  { pose proof (RW.rereadable_inc_facts sa Hr) as F. apply (RW.if_lt sa F i (of_string "#include " ++ format_string (include_name pa pb), include_name pa pb, pb)).
    left. reflexivity. }
  assert (Hnames : RW.inc_names sa = [include_name pa pb]) by (exact (inc_names_with_include da i _ pb Hp Hi)).
  assert (Hlc : (Z.of_nat (List.length (sd_lc sa)) < 1000000)%Z) by (cbn; lia).
  assert (B4 : (Z.of_nat (List.length (RW.inc_names sa)) <= 1000000)%Z) by (rewrite Hnames; cbn; lia).
  destruct (RP.includes_survive sa (dir_of pa) c Hr Hlc Hc B1 B2 B3 B4) as (s' & count' & Hparse & _ & _ & Hdata & _ & _ & Hinc & _).
  cbv zeta in Hinc. rewrite Hnames in Hinc. cbn [List.length] in Hinc. rewrite RereadLex.ids_S in Hinc. cbn [map combine] in Hinc.
  set (pra := mkParsed s' count').
  assert (Hpa : parse_unit true pa c (FNative (to_string_sd sa)) = Ok pra) by exact Hparse.
  exists pra. split; [exact Hpa|].
  assert (Hin : In (Z.to_N (counter_next (E2EHoles.cafter c (List.length (RereadProofs.lc_list (RP.written_doc_inc sa))))),
                    (RereadIncStage.inc_directive (include_name pa pb), include_name pa pb,
                     path_join (dir_of pa) (include_name pa pb))) (sd_inc (pr_sd pra))).
  { unfold pra. cbn [pr_sd]. rewrite Hinc. left. reflexivity. }
  destruct (include_read_merges fs pa pb true c s c' _ pra _ _ ub Ha Hb Hread Hfa Hpa Hin Hfb) as [H1 H2].
  split; [exact H1|]. split; [exact H2|].
  unfold pra. cbn [pr_sd]. rewrite Hdata. unfold sa. rewrite (strip_inc_with_include da i _ pb Hp Hi). reflexivity.
Qed.
