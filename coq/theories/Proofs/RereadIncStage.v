(* C12 on include directives, part 1: the stages.
   _extract_includes on one directive line, insert_includes on one placeholder pair, and the round trip of one
   directive: the directive the formatter writes for a name is read back with the same name and the same path. *)
From Coq Require Import String.
From Coq Require Import NArith ZArith List Bool Lia ZifyBool ZifyN ZifyNat.
From DictIO Require Import Chars Str Value Scalar KeyPath SDict Layout Lexer TokParser TreeSpec NativeSpec LayoutSpec E2ESpec.
From DictIO Require ScalarProofs SDictProofs TokProofs LayoutProofs SemProofs QuoteProofs KeyPathProofs.
From DictIO Require Import E2EProofs E2EHoles E2EInsert E2EKeyTok E2EFullProofs RereadStr.
Import ListNotations.
Import LayoutProofs.
Open Scope N_scope.

(* ================================================================================================ *)
(* 1. vocabulary                                                                                    *)
(* ================================================================================================ *)

Definition iph (i : N) : str := placeholder w_INCLUDE i.
Definition w_hash_include : str := of_string "#include".
(* the directive insert_includes writes for a file name: the keyword, one blank, the name as format_string spells it
   (bare, or in single / double quotes) *)
Definition inc_directive (name : str) : str := of_string "#include " ++ format_string name.
(* the class of names of the stage theorems: no line break of any kind *)
Definition name_ok (name : str) : bool := forallb (fun c => negb (is_linebreak c)) name.

Lemma inc_directive_eq name : inc_directive name = c_hash :: w_include ++ c_sp :: format_string name.
Proof. reflexivity. Qed.

(* ================================================================================================ *)
(* 2. the name the formatter writes is the name the reader takes                                    *)
(* ================================================================================================ *)

Lemma remove_quotes_wrap q (s : str) : is_quote q = true -> remove_quotes (q :: s ++ [q]) = s.
Proof.
  intros Hq. unfold remove_quotes. cbn [strip_lead_quote]. rewrite Hq. unfold strip_trail_quote.
  rewrite rev_app_distr. cbn [rev app]. rewrite Hq. apply rev_involutive.
Qed.

(* a string without quote characters at its ends and without a final line feed is left alone *)
Lemma remove_quotes_bare (c : N) (m : str) e : is_quote c = false -> is_quote e = false -> (e =? c_lf) = false ->
  remove_quotes (c :: m ++ [e]) = c :: m ++ [e].
Proof.
  intros Hc He Hl. unfold remove_quotes. cbn [strip_lead_quote]. rewrite Hc. unfold strip_trail_quote.
  change (c :: m ++ [e]) with ((c :: m) ++ [e]). rewrite rev_app_distr. cbn [rev app]. rewrite He, Hl. reflexivity.
Qed.

Lemma remove_quotes_one (c : N) : is_quote c = false -> (c =? c_lf) = false -> remove_quotes [c] = [c].
Proof. intros Hc Hl. unfold remove_quotes. cbn [strip_lead_quote]. rewrite Hc. unfold strip_trail_quote. cbn [rev app]. rewrite Hc, Hl. reflexivity. Qed.

(* a string that begins and ends with a visible character which is no quote, and whose last character is no line feed *)
Definition bare_ends (s : str) : Prop :=
  exists c m, s = c :: m /\ is_space c = false /\ is_quote c = false /\
  (m = [] \/ exists m' e, m = m' ++ [e] /\ is_space e = false /\ is_quote e = false).

Lemma bare_ends_forall (s : str) : s <> [] -> (forall c, In c s -> is_space c = false /\ is_quote c = false) -> bare_ends s.
Proof.
  intros Hne H. destruct s as [|c m]; [congruence|]. exists c, m. split; [reflexivity|].
  destruct (H c (or_introl eq_refl)) as [A B]. split; [exact A|]. split; [exact B|].
  destruct m as [|d m' _] using rev_ind; [left; reflexivity|]. right. exists m', d. split; [reflexivity|].
  apply H. right. apply in_or_app. right. left. reflexivity.
Qed.

Lemma space_of_lf c : (c =? c_lf) = true -> is_space c = true.
Proof. intros H. apply N.eqb_eq in H. subst c. reflexivity. Qed.

Lemma bare_ends_facts (s : str) : bare_ends s ->
  remove_quotes s = s /\ (exists c m, s = c :: m /\ is_space c = false) /\ (exists r e, s = r ++ [e] /\ is_space e = false).
Proof.
  intros (c & m & -> & Hs & Hq & [-> |(m' & e & -> & Hse & Hqe)]).
  - assert (Hl : (c =? c_lf) = false) by (destruct (c =? c_lf) eqn:E; [rewrite (space_of_lf c E) in Hs; discriminate Hs|reflexivity]).
    split; [exact (remove_quotes_one c Hq Hl)|]. split; [exists c, []; split; [reflexivity|exact Hs]|exists [], c; split; [reflexivity|exact Hs]].
  - assert (Hl : (e =? c_lf) = false) by (destruct (e =? c_lf) eqn:E; [rewrite (space_of_lf e E) in Hse; discriminate Hse|reflexivity]).
    split; [exact (remove_quotes_bare c m' e Hq Hqe Hl)|]. split; [exists c, (m' ++ [e]); split; [reflexivity|exact Hs]|].
    exists (c :: m'), e. split; [reflexivity|exact Hse].
Qed.

Lemma wrapped_facts q (s : str) : is_quote q = true ->
  remove_quotes (q :: s ++ [q]) = s /\ (exists c m, q :: s ++ [q] = c :: m /\ is_space c = false) /\
  (exists r e, q :: s ++ [q] = r ++ [e] /\ is_space e = false).
Proof.
  intros Hq. assert (Hs : is_space q = false) by (unfold is_quote in Hq; uc; lia).
  split; [exact (remove_quotes_wrap q s Hq)|]. split; [exists q, (s ++ [q]); split; [reflexivity|exact Hs]|].
  exists (q :: s), q. split; [reflexivity|exact Hs].
Qed.

Lemma has_char_false_In (c : N) (s : str) : has_char c s = false -> forall d, In d s -> (d =? c) = false.
Proof.
  intros H d Hd. destruct (d =? c) eqn:E; [|reflexivity]. apply N.eqb_eq in E. subst d.
  unfold has_char in H. assert (X : existsb (N.eqb c) s = true) by (apply existsb_exists; exists c; split; [exact Hd|apply N.eqb_refl]).
  rewrite X in H. discriminate H.
Qed.

Lemma existsb_false_In {A} (p : A -> bool) (s : list A) : existsb p s = false -> forall d, In d s -> p d = false.
Proof.
  intros H d Hd. destruct (p d) eqn:E; [|reflexivity].
  assert (X : existsb p s = true) by (apply existsb_exists; exists d; split; assumption). rewrite X in H. discriminate H.
Qed.

Lemma span_all (p : N -> bool) (s : str) : snd (span p s) = [] -> forall c, In c s -> p c = true.
Proof.
  induction s as [|x s IH]; intros H c Hc; [destruct Hc|]. cbn [span] in H. destruct (p x) eqn:Ex.
  - destruct (span p s) as [a b] eqn:Es. cbn [snd] in *. destruct Hc as [<-|Hc]; [exact Ex|exact (IH H c Hc)].
  - cbn [snd] in H. discriminate H.
Qed.

(* what the formatter writes for a name without line breaks: the reader's regex and quote stripping give the name back *)
Lemma format_name_facts (name : str) : name_ok name = true ->
  remove_quotes (format_string name) = name /\
  (exists c m, format_string name = c :: m /\ is_space c = false) /\
  (exists r e, format_string name = r ++ [e] /\ is_space e = false).
Proof.
  intros Hok. unfold name_ok in Hok.
  assert (Hnl : forall c, In c name -> is_linebreak c = false).
  { intros c Hc. pose proof (forallb_In _ _ _ Hok Hc) as H. cbn beta in H. apply negb_true_iff in H. exact H. }
  unfold format_string, classify_string.
  destruct (has_char c_dollar name) eqn:Ed.
  - destruct (re_reference name) eqn:Er; [|exact (wrapped_facts c_dq name eq_refl)].
    (* a reference: dollar, word character, reference characters *)
    apply bare_ends_facts. unfold re_reference in Er. destruct name as [|d [|w r]]; try discriminate Er.
    apply andb_true_iff in Er. destruct Er as [Er Hend]. apply andb_true_iff in Er. destruct Er as [Hd Hw]. apply N.eqb_eq in Hd. subst d.
    assert (Hr : snd (span is_ref_char r) = []).
    { unfold at_end in Hend. destruct (snd (span is_ref_char r)) as [|x [|y t]] eqn:Es; [reflexivity| |discriminate Hend].
      exfalso. apply N.eqb_eq in Hend. subst x.
      assert (Hin : In c_lf (c_dollar :: w :: r)).
      { right. right. destruct (span is_ref_char r) as [a b] eqn:Esp. cbn [snd] in Es. subst b.
        destruct (ScalarProofs.span_spec is_ref_char r a [c_lf] Esp) as (Er & _). rewrite Er. apply in_or_app. right. left. reflexivity. }
      pose proof (Hnl c_lf Hin) as H. discriminate H. }
    apply bare_ends_forall; [discriminate|]. intros c [<-|[<-|Hc]].
    + split; reflexivity.
    + unfold is_word in Hw. unfold is_quote. split; uc; lia.
    + pose proof (span_all is_ref_char r Hr c Hc) as H. unfold is_ref_char, is_word in H. unfold is_quote. split; uc; lia.
  - destruct (nonempty name) eqn:En; cbn [negb]; [|exact (wrapped_facts c_sq name eq_refl)].
    destruct (has_char c_dq name) eqn:Eq; [exact (wrapped_facts c_sq name eq_refl)|].
    destruct (has_char c_sq name) eqn:Es; [exact (wrapped_facts c_dq name eq_refl)|].
    destruct (existsb is_struct_char name) eqn:Et; [exact (wrapped_facts c_sq name eq_refl)|].
    apply bare_ends_facts. apply bare_ends_forall; [destruct name; [discriminate En|discriminate]|].
    intros c Hc. pose proof (existsb_false_In _ _ Et c Hc) as H1. pose proof (has_char_false_In _ _ Eq c Hc) as H2.
    pose proof (has_char_false_In _ _ Es c Hc) as H3. unfold is_struct_char in H1.
    split; [destruct (is_space c); [cbn [orb] in H1; discriminate H1|reflexivity]|]. unfold is_quote. rewrite H2, H3. reflexivity.
Qed.

Lemma ws_run_In (q : str) : ws_run q -> forall c, In c q -> is_space c = true.
Proof. intros H c Hc. unfold ws_run in H. rewrite Forall_forall in H. exact (H c Hc). Qed.

(* the name of the directive, whatever white space follows the keyword and the name *)
Lemma include_name_written (name sp nl : str) : name_ok name = true ->
  (forall c, In c sp -> is_space c = true) -> (forall c, In c nl -> is_space c = true) ->
  include_name_of (sp ++ format_string name ++ nl) = name.
Proof.
  intros Hok Hsp Hnl. destruct (format_name_facts name Hok) as (Hrq & (c & m & Ec & Hc) & (r & e & Ee & He)).
  unfold include_name_of. rewrite (lstrip_ws sp _ Hsp).
  assert (E1 : lstrip (format_string name ++ nl) = format_string name ++ nl) by (rewrite Ec; cbn [app lstrip]; rewrite Hc; reflexivity).
  rewrite E1. rewrite (rstrip_unique _ (format_string name) nl eq_refl).
  - exact Hrq.
  - apply Forall_forall. exact Hnl.
  - right. exists r, e. split; assumption.
Qed.

(* ================================================================================================ *)
(* 3. extraction of one directive line                                                              *)
(* ================================================================================================ *)

Lemma include_line_rest_hit (ind sp1 X : str) : (forall c, In c ind -> is_space c = true) -> (forall c, In c sp1 -> is_space c = true) ->
  include_line_rest (ind ++ c_hash :: sp1 ++ w_include ++ X) = Some X.
Proof.
  intros Hi Hs. unfold include_line_rest. rewrite (lstrip_ws ind _ Hi). cbn [lstrip].
  replace (is_space c_hash) with false by reflexivity. replace (c_hash =? c_hash) with true by reflexivity.
  rewrite (lstrip_ws sp1 _ Hs).
  assert (E : lstrip (w_include ++ X) = w_include ++ X) by reflexivity. rewrite E, starts_with_app, drop_n_app. reflexivity.
Qed.

Lemma extract_includes_hit dir count (l rest : str) ls : include_line_rest l = Some rest ->
  extract_includes dir count (l :: ls) =
  let k := counter_next count in
  let '(r, c2, tab) := extract_includes dir k ls in
  ((iph (Z.to_N k) ++ [c_lf]) :: r, c2,
   tupdate [(Z.to_N k, (fst (chomp_lf l), include_name_of rest, path_join dir (include_name_of rest)))] tab).
Proof. intros H. cbn [extract_includes]. rewrite H. reflexivity. Qed.

(* a line that carries the directive the formatter writes (indented or not, any white space around keyword and name,
   name bare or quoted as the formatter chooses): the line is replaced by one placeholder of the next counter value and
   the table gets (the line without its line feed, the name, the path of the name relative to the folder of the file) *)
Theorem extract_include_written dir count (ind sp1 sp2 name nl : str) ls : name_ok name = true ->
  (forall c, In c ind -> is_space c = true) -> (forall c, In c sp1 -> is_space c = true) ->
  (forall c, In c sp2 -> is_space c = true) -> has_char c_lf (ind ++ sp1 ++ sp2) = false -> line_end nl ->
  let l := ind ++ c_hash :: sp1 ++ w_include ++ sp2 ++ format_string name in
  let k := counter_next count in
  extract_includes dir count ((l ++ nl) :: ls) =
  let '(r, c2, tab) := extract_includes dir k ls in
  ((iph (Z.to_N k) ++ [c_lf]) :: r, c2, tupdate [(Z.to_N k, (l, name, path_join dir name))] tab).
Proof.
  intros Hok Hi Hs1 Hs2 Hlf Hnl l k.
  assert (Hnlsp : forall c, In c nl -> is_space c = true) by (destruct Hnl as [-> | ->]; intros c Hc; [destruct Hc|destruct Hc as [<-|[]]; reflexivity]).
  assert (El : l ++ nl = ind ++ c_hash :: sp1 ++ w_include ++ (sp2 ++ format_string name ++ nl)) by (unfold l; rewrite <- !app_assoc; cbn [app]; rewrite <- !app_assoc; reflexivity).
  assert (Hr : include_line_rest (l ++ nl) = Some (sp2 ++ format_string name ++ nl)) by (rewrite El; apply include_line_rest_hit; assumption).
  pose proof (extract_includes_hit dir count (l ++ nl) (sp2 ++ format_string name ++ nl) ls Hr) as Hh. cbv zeta in Hh. fold k in Hh.
  etransitivity; [exact Hh|]. clear Hh. rewrite (include_name_written name sp2 nl Hok Hs2 Hnlsp).
  assert (Hb : has_char c_lf l = false).
  { unfold l. rewrite !has_char_app' in Hlf. apply orb_false_iff in Hlf. destruct Hlf as [H1 Hlf]. apply orb_false_iff in Hlf. destruct Hlf as [H2 H3].
    rewrite has_char_app', H1. cbn [orb]. rewrite has_char_cons. replace (c_lf =? c_hash) with false by reflexivity. cbn [orb].
    rewrite !has_char_app', H2, H3. replace (has_char c_lf w_include) with false by reflexivity. cbn [orb].
    apply forallb_nochar. apply forallb_forall. intros c Hc. cbn beta.
    destruct (format_name_facts name Hok) as (_ & _ & _).
    destruct (c =? c_lf) eqn:E; [|reflexivity]. exfalso. apply N.eqb_eq in E. subst c.
    (* a line feed in the written name would be a line feed in the name, or the name would be quoted around it *)
    assert (Hin : In c_lf name \/ is_quote c_lf = true).
    { unfold format_string in Hc. destruct (classify_string name); unfold sq, dq in Hc; cbn [In] in Hc;
        try (left; exact Hc); destruct Hc as [Hc|Hc]; try discriminate Hc; apply in_app_or in Hc; destruct Hc as [Hc|[Hc|[]]]; try discriminate Hc; left; exact Hc. }
    destruct Hin as [Hin|Hin]; [|discriminate Hin]. unfold name_ok in Hok. pose proof (forallb_In _ _ _ Hok Hin) as H. discriminate H. }
  rewrite (chomp_lf_spec l nl Hb Hnl). cbn [fst]. reflexivity.
Qed.

(* ================================================================================================ *)
(* 4. re-insertion of one directive                                                                 *)
(* ================================================================================================ *)

Lemma iph_chars i : forallb phc (iph i) = true.
Proof.
  unfold iph, placeholder. rewrite forallb_app. apply andb_true_iff. split; [reflexivity|].
  apply forallb_forall. intros c Hc. unfold phc. rewrite (forallb_In _ _ _ (pad6_digits i) Hc). apply orb_true_r.
Qed.
Lemma iph_ne i : iph i <> [].
Proof. unfold iph, placeholder. discriminate. Qed.
Lemma iph_nospace i : forall c, In c (iph i) -> is_space c = false.
Proof. intros c Hc. pose proof (forallb_In _ _ _ (iph_chars i) Hc) as H. unfold phc in H. uc. lia. Qed.

(* the placeholder pair as the formatter lays it out *)
Definition inc_pair (lvl : nat) (i : N) : str :=
  line lvl (iph i ++ spaces (Nat.max 8 (30 - length (iph i) - 4 * lvl)) ++ iph i ++ [c_semi]) true.

(* the pair of entry i, between texts in which the placeholder does not begin anywhere (ns / Gc of RereadStr), is
   replaced by the directive; nothing else changes *)
Theorem insert_include_one lvl i (d name p : str) (X Z : str) : Gc (iph i) X -> Gc (iph i) Z ->
  insert_includes format_string [(i, (d, name, p))] (X ++ inc_pair lvl i ++ Z) = X ++ line lvl (inc_directive name) true ++ Z.
Proof.
  intros HX HZ. unfold insert_includes. cbn [fold_left]. fold (iph i).
  change (fst (sub_ph_pair (S (length (X ++ inc_pair lvl i ++ Z))) (iph i) (of_string "#include " ++ format_string name) (X ++ inc_pair lvl i ++ Z)))
    with (fst (subst (iph i) (inc_directive name) (X ++ inc_pair lvl i ++ Z))).
  rewrite (subst_skip _ _ X _ (HX _)). cbn [fst]. f_equal.
  unfold inc_pair, line, indent_of. rewrite <- !app_assoc.
  assert (Hsp : ns (iph i) (spaces (4 * lvl)) (iph i ++ spaces (Nat.max 8 (30 - length (iph i) - 4 * lvl)) ++ iph i ++ [c_semi] ++ [c_lf] ++ Z)).
  { intros j Hj. unfold spaces in *. rewrite repeat_length in Hj. rewrite drop_n_app_lt by (rewrite repeat_length; lia).
    assert (E : exists m, drop_n j (repeat c_sp (4 * lvl)) = c_sp :: repeat c_sp m).
    { clear -Hj. revert j Hj. generalize (4 * lvl)%nat. induction n as [|n IH]; intros j Hj; [lia|]. destruct j as [|j]; [exists n; reflexivity|].
      cbn [repeat drop_n]. apply IH. lia. }
    destruct E as [m ->]. reflexivity. }
  rewrite (subst_skip _ _ _ _ Hsp). cbn [fst]. f_equal.
  destruct (Nat.max 8 (30 - length (iph i) - 4 * lvl)) as [|m] eqn:Em; [lia|].
  cbn [app]. rewrite (subst_hit (iph i) (inc_directive name) _ ([c_lf] ++ Z)).
  - cbn [fst]. f_equal. cbn [app]. rewrite subst_miss by (apply match_needs_start; reflexivity). cbn [fst]. f_equal.
    pose proof (subst_skip (iph i) (inc_directive name) Z [] (HZ [])) as H. rewrite app_nil_r in H. rewrite H, subst_nil. cbn [fst]. apply app_nil_r.
  - apply match_pair_line; [apply iph_ne|apply iph_nospace|lia].
Qed.

(* ================================================================================================ *)
(* 5. the round trip of one directive                                                               *)
(* ================================================================================================ *)

(* the line insert_includes writes for (directive, name, path), read again from a file in folder dir': the table gets the
   same name, and the path of that name relative to dir' -- the same file when dir' is the folder the entry was read from *)
Theorem include_roundtrip dir' count lvl (name : str) ls : name_ok name = true ->
  let k := counter_next count in
  extract_includes dir' count (line lvl (inc_directive name) true :: ls) =
  let '(r, c2, tab) := extract_includes dir' k ls in
  ((iph (Z.to_N k) ++ [c_lf]) :: r, c2,
   tupdate [(Z.to_N k, (indent_of lvl ++ inc_directive name, name, path_join dir' name))] tab).
Proof.
  intros Hok k.
  pose proof (extract_include_written dir' count (indent_of lvl) [] [c_sp] name [c_lf] ls Hok) as H.
  cbv zeta in H. cbn [app] in H.
  assert (E : line lvl (inc_directive name) true = (indent_of lvl ++ c_hash :: w_include ++ c_sp :: format_string name) ++ [c_lf]).
  { unfold line. rewrite inc_directive_eq, <- !app_assoc. reflexivity. }
  rewrite E. rewrite inc_directive_eq. apply H.
  - intros c Hc. unfold indent_of, spaces in Hc. apply repeat_spec in Hc. subst c. reflexivity.
  - intros c [].
  - intros c [<-|[]]. reflexivity.
  - apply forallb_nochar. apply forallb_forall. intros c Hc. apply in_app_or in Hc. destruct Hc as [Hc|[<-|[]]]; [|reflexivity].
    unfold indent_of, spaces in Hc. apply repeat_spec in Hc. subst c. reflexivity.
  - right. reflexivity.
Qed.

Print Assumptions extract_include_written.
Print Assumptions insert_include_one.
Print Assumptions include_roundtrip.
