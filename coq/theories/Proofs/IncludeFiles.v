(* Proofs for C06 on FILES: the side condition of the deep include theorems of IncludeNested.v (a predicate on the
   intermediate fold states, reach_where) is discharged from a condition on the files themselves, in the order in
   which merge_includes_rec visits them. *)
From Coq Require Import String.
From Coq Require Import NArith ZArith List Bool Lia.
From DictIO Require Import Chars Str Value Scalar KeyPath SDict Layout Lexer TokParser Reader TreeSpec
     SDictProofs TokProofs SemProofs WriteProofs IncludeProofs IncludeNested.
Import ListNotations.

(* ================================================================================================ *)
(* 0. the visit order: which files the include recursion parses, in which order, at which counter    *)
(* ================================================================================================ *)
(* one include entry: skipped when its file is on the chain or missing; otherwise the file is parsed at the
   current counter and, when it has include entries of its own, they are walked next (depth first) *)
Definition visit_one (vrec : list str -> list (N * include_entry) -> Z -> res (list (str * parsed) * Z))
           (fs : fsys) (com : bool) (chain : list str) (e : N * include_entry) (c : Z)
  : res (list (str * parsed) * Z) :=
  let '(_, (_, _, path)) := e in
  let resolved := norm_path path in
  if in_chain resolved chain then Ok ([], c)
  else match fs_lookup resolved fs with
       | None => Ok ([], c)
       | Some u =>
           bind (parse_unit com path c u) (fun pr =>
           bind (match sd_inc (pr_sd pr) with
                 | [] => Ok ([], pr_count pr)
                 | _ => vrec (chain ++ [resolved]) (sd_inc (pr_sd pr)) (pr_count pr)
                 end) (fun sub => Ok ((path, pr) :: fst sub, snd sub)))
       end.

Fixpoint visit_list (vrec : list str -> list (N * include_entry) -> Z -> res (list (str * parsed) * Z))
         (fs : fsys) (com : bool) (chain : list str) (incs : list (N * include_entry)) (c : Z)
  : res (list (str * parsed) * Z) :=
  match incs with
  | [] => Ok ([], c)
  | e :: rest =>
      bind (visit_one vrec fs com chain e c) (fun lc =>
      bind (visit_list vrec fs com chain rest (snd lc)) (fun lc2 => Ok (fst lc ++ fst lc2, snd lc2)))
  end.

(* fuelled like merge_includes_rec: [visit_rec f fs com chain (sd_inc parent) count] lists what
   [merge_includes_rec f fs com chain parent count] parses, in order, with the parse results *)
Fixpoint visit_rec (fuel : nat) (fs : fsys) (com : bool) (chain : list str) (incs : list (N * include_entry)) (c : Z)
         {struct fuel} : res (list (str * parsed) * Z) :=
  match fuel with
  | O => Raise E_Fuel
  | S f => visit_list (visit_rec f fs com) fs com chain incs c
  end.

(* the files DictReader.read parses, in PRECEDENCE order: the root, then for each include directive in order the
   included file followed (depth first) by what it includes; each with its own parse (at the counter the run has
   reached: the counter numbers the placeholders) *)
Definition visit_parses (fs : fsys) (com : bool) (root : str) (c : Z) : res (list (str * parsed)) :=
  match fs_lookup (norm_path root) fs with
  | None => Raise E_Key
  | Some u =>
      bind (parse_unit com root c u) (fun pr0 =>
      bind (visit_rec (S (length fs)) fs com [] (sd_inc (pr_sd pr0)) (pr_count pr0)) (fun lc =>
      Ok ((root, pr0) :: fst lc)))
  end.
Definition visit_order (fs : fsys) (com : bool) (root : str) (c : Z) : list str :=
  match visit_parses fs com root c with Ok l => map (fun e => norm_path (fst e)) l | Raise _ => [] end.

(* ================================================================================================ *)
(* 1. what a tree holds along a key path                                                             *)
(* ================================================================================================ *)
(* SBlocked: a leaf or a list is met before the end of the path;  SOff: the walk falls off a dict;
   SEnd: a leaf or a list at the path itself;  SDict: a dict at the path *)
Inductive pshape := SBlocked | SOff | SEnd | SDict.

Fixpoint shape (t : tree) (p : list key) : pshape :=
  match p with
  | [] => match t with Dict _ => SDict | _ => SEnd end
  | k :: p' =>
      match t with
      | Dict kvs => match alookup k kvs with Some c => shape c p' | None => SOff end
      | _ => SBlocked
      end
  end.

Lemma shape_cons : forall kvs k p',
  shape (Dict kvs) (k :: p') = match alookup k kvs with Some c => shape c p' | None => SOff end.
Proof. reflexivity. Qed.

Lemma shape_nondict : forall c p, (forall kvs, c <> Dict kvs) -> shape c p = match p with [] => SEnd | _ => SBlocked end.
Proof.
  intros c p Hc. destruct p as [|k p']; destruct c as [v|kvs|ts]; try reflexivity; exfalso; exact (Hc kvs eq_refl).
Qed.

Lemma clear_above_shape : forall p t, clear_above t p = match shape t p with SBlocked => false | _ => true end.
Proof.
  induction p as [|k p' IH]; intro t.
  - cbn [clear_above shape]. destruct t; reflexivity.
  - destruct t as [v|kvs|ts]; try reflexivity. rewrite clear_above_cons, shape_cons.
    destruct (alookup k kvs) as [c|]; [|reflexivity].
    destruct p' as [|k1 p1]; [cbn [shape]; destruct c; reflexivity | apply IH].
Qed.

Lemma get_dpath_shape : forall p t,
  match get_dpath t p with
  | None => shape t p = SBlocked \/ shape t p = SOff
  | Some (Dict _) => shape t p = SDict
  | Some _ => shape t p = SEnd
  end.
Proof.
  induction p as [|k p' IH]; intro t.
  - cbn [get_dpath shape]. destruct t; reflexivity.
  - destruct t as [v|kvs|ts]; try (left; reflexivity). rewrite get_dpath_cons, shape_cons.
    destruct (alookup k kvs) as [c|]; [apply IH | right; reflexivity].
Qed.

Lemma falls_off_shape : forall t p, falls_off t p = match shape t p with SOff => true | _ => false end.
Proof.
  intros t p. unfold falls_off. rewrite clear_above_shape. pose proof (get_dpath_shape p t) as H.
  destruct (get_dpath t p) as [[v|kvs|ts]|]; try (rewrite H; reflexivity).
  destruct H as [H|H]; rewrite H; reflexivity.
Qed.

Lemma clear_upto_shape : forall t p,
  clear_upto t p = match shape t p with SOff | SDict => true | _ => false end.
Proof.
  intros t p. unfold clear_upto, nodict_at. rewrite clear_above_shape. pose proof (get_dpath_shape p t) as H.
  destruct (get_dpath t p) as [[v|kvs|ts]|]; try (rewrite H; reflexivity).
  destruct H as [H|H]; rewrite H; reflexivity.
Qed.

(* ================================================================================================ *)
(* 2. clean-up does not change what is held along an ordinary path                                  *)
(* ================================================================================================ *)
Lemma clean_tree_shape : forall fuel data s p,
  opath p = true -> nodup_path (Dict data) p = true ->
  shape (Dict (fst (clean_tree fuel data s))) p = shape (Dict data) p.
Proof.
  induction fuel as [|f IH]; intros data s p Hord Hnd; [reflexivity|].
  destruct p as [|k p']; [reflexivity|].
  unfold opath in Hord. cbn [forallb] in Hord. apply andb_true_iff in Hord. destruct Hord as [Hk Hord].
  rewrite nodup_path_cons in Hnd. apply andb_true_iff in Hnd. destruct Hnd as [Hnd Hndc].
  apply keys_nodup_iff in Hnd.
  rewrite clean_tree_S.
  pose proof (clean_level_lookup data s k Hk) as Hl.
  pose proof (clean_level_nodup data s Hnd) as Hn.
  destruct (clean_level data s) as [d s1]. cbn [fst] in Hl, Hn |- *.
  rewrite !shape_cons.
  destruct (alookup k data) as [c|] eqn:Ek.
  - destruct c as [v|sub|ts].
    + pose proof (fold_cstep_lookup f d d s1 k Hn) as H. rewrite Hl in H. rewrite H. reflexivity.
    + destruct (fold_cstep_lookup_dict f d d s1 k sub Hn Hl) as [sacc' H]. rewrite H.
      destruct p' as [|k' p'']; [reflexivity|]. exact (IH sub sacc' (k' :: p'') Hord Hndc).
    + pose proof (fold_cstep_lookup f d d s1 k Hn) as H. rewrite Hl in H. rewrite H. reflexivity.
  - pose proof (fold_cstep_lookup f d d s1 k Hn) as H. rewrite Hl in H. rewrite H. reflexivity.
Qed.

Lemma sd_clean_shape : forall s p, opath p = true -> wfs s -> shape (D (sd_clean s)) p = shape (D s) p.
Proof.
  intros s p Hord Hw. unfold D. rewrite sd_clean_data_fst.
  apply clean_tree_shape; [exact Hord | apply wf_nodup_path; exact Hw].
Qed.

(* ================================================================================================ *)
(* 3. merge: when neither side is blocked above the path, the result is not blocked either; where    *)
(*    the target falls off the merged-in side decides, and a dict of the target stays a dict          *)
(* ================================================================================================ *)
Definition shape_law (a b r : pshape) : Prop :=
  r <> SBlocked /\ (a = SOff -> r = b) /\ (a = SDict -> r = SDict).

Lemma shape_end_or_dict : forall x, shape x [] = SEnd \/ shape x [] = SDict.
Proof. intro x. destruct x; [left | right | left]; reflexivity. Qed.

Lemma mk_shape : forall f top tgt other p,
  (depth (Dict other) <= f)%nat -> wf (Dict other) = true -> p <> [] ->
  shape (Dict tgt) p <> SBlocked -> shape (Dict other) p <> SBlocked ->
  shape_law (shape (Dict tgt) p) (shape (Dict other) p) (shape (Dict (merge_kvs f top tgt other)) p).
Proof.
  induction f as [|f IH]; intros top tgt other p Hdep Hwo Hp Hbt Hbo; [cbn [depth] in Hdep; lia|].
  destruct p as [|k p']; [congruence|]. clear Hp.
  apply wf_Dict_iff in Hwo. destruct Hwo as [Hndo Hallo].
  rewrite WriteProofs.merge_kvs_S. rewrite !shape_cons in *.
  destruct (alookup k other) as [co|] eqn:Eo.
  - assert (Hwco : wf co = true) by exact (Forall_alookup wfkv other k co Hallo Eo).
    assert (Hdco : (depth co <= f)%nat).
    { assert (HF : Forall (fun kv => (depth (snd kv) <= f)%nat) other).
      { apply Forall_forall. intros kv Hin. pose proof (depth_child _ _ Hin) as Hc. cbn [depth] in Hdep. lia. }
      exact (Forall_alookup _ other k co HF Eo). }
    destruct (fold_kstep_at f top other tgt k co Hndo Eo) as [tgt' [H1 H2]].
    rewrite H2. rewrite <- H1 in *. clear H1 H2.
    destruct (alookup k tgt') as [c|] eqn:Ea.
    + destruct c as [v|tsub|ts].
      * (* the target holds a leaf at k: the path ends there *)
        rewrite shape_nondict in Hbt by (intros; discriminate). destruct p' as [|k1 p1]; [|congruence].
        assert (Hx : exists x, alookup k (kstep f top tgt' (k, co)) = Some x).
        { destruct (kstep_shape f top tgt' k co) as [E|[x E]]; rewrite E;
            [exists (Leaf v); exact Ea | exists x; rewrite alookup_aset, key_eqb_refl; reflexivity]. }
        destruct Hx as [x Hx]. rewrite Hx. cbn [shape]. split; [|split; discriminate].
        destruct (shape_end_or_dict x) as [E|E]; cbn [shape] in E; rewrite E; discriminate.
      * destruct co as [v'|osub|ts'].
        -- rewrite (shape_nondict (Leaf v')) in * by (intros; discriminate). destruct p' as [|k1 p1]; [|congruence].
           assert (E : alookup k (kstep f top tgt' (k, Leaf v')) = Some (Dict tsub)).
           { unfold kstep. rewrite Ea. destruct top as [exprs|]; [|exact Ea].
             rewrite circular_container by (intros v0; discriminate). exact Ea. }
           rewrite E. cbn [shape]. split; [discriminate|]. split; [discriminate | reflexivity].
        -- assert (E : alookup k (kstep f top tgt' (k, Dict osub)) = Some (Dict (merge_kvs f None tsub osub))).
           { unfold kstep. rewrite Ea, alookup_aset, key_eqb_refl. reflexivity. }
           rewrite E. destruct p' as [|k1 p1].
           ++ cbn [shape]. split; [discriminate|]. split; [discriminate | reflexivity].
           ++ apply IH; [exact Hdco | exact Hwco | discriminate | exact Hbt | exact Hbo].
        -- rewrite (shape_nondict (Lst ts')) in * by (intros; discriminate). destruct p' as [|k1 p1]; [|congruence].
           assert (E : alookup k (kstep f top tgt' (k, Lst ts')) = Some (Dict tsub)).
           { unfold kstep. rewrite Ea. destruct top as [exprs|]; [|exact Ea].
             rewrite circular_container by (intros v0; discriminate). exact Ea. }
           rewrite E. cbn [shape]. split; [discriminate|]. split; [discriminate | reflexivity].
      * (* a list at k *)
        rewrite shape_nondict in Hbt by (intros; discriminate). destruct p' as [|k1 p1]; [|congruence].
        assert (Hx : exists x, alookup k (kstep f top tgt' (k, co)) = Some x).
        { destruct (kstep_shape f top tgt' k co) as [E|[x E]]; rewrite E;
            [exists (Lst ts); exact Ea | exists x; rewrite alookup_aset, key_eqb_refl; reflexivity]. }
        destruct Hx as [x Hx]. rewrite Hx. cbn [shape]. split; [|split; discriminate].
        destruct (shape_end_or_dict x) as [E|E]; cbn [shape] in E; rewrite E; discriminate.
    + (* the key is new: the whole entry of the merged-in dict is taken *)
      assert (E : alookup k (kstep f top tgt' (k, co)) = Some co).
      { unfold kstep. rewrite Ea. destruct co; rewrite alookup_aset, key_eqb_refl; reflexivity. }
      rewrite E. split; [exact Hbo|]. split; [reflexivity | discriminate].
  - rewrite fold_kstep_lookup_notin by (apply alookup_None_notin; exact Eo).
    split; [exact Hbt|]. split; [intro E; exact E | intro E; exact E].
Qed.

Lemma sd_merge_shape : forall s m o p,
  opath p = true -> wfs s -> wf (Dict m) = true ->
  shape (D s) p <> SBlocked -> shape (Dict m) p <> SBlocked ->
  shape_law (shape (D s) p) (shape (Dict m) p) (shape (D (sd_merge s m o)) p).
Proof.
  intros s m o p Hord Hw Hm Hbs Hbm.
  destruct p as [|k p'].
  { cbn [shape D]. split; [discriminate|]. split; [discriminate | reflexivity]. }
  destruct (sd_merge_clean s m o) as [s1 [E1 E2]]. rewrite E1.
  assert (Hw1 : wfs s1) by (unfold wfs; rewrite E2; apply merge_kvs_wf; assumption).
  rewrite (sd_clean_shape s1 (k :: p') Hord Hw1).
  assert (ED : D s1 = Dict (merge_kvs (S (depth (Dict m))) (Some (sd_expr s)) (sd_data s) m))
    by (unfold D; rewrite E2; reflexivity).
  rewrite ED. unfold D.
  apply mk_shape; [lia | exact Hm | discriminate | exact Hbs | exact Hbm].
Qed.

(* the three conditions of the deep theorems are kept by a merge (both sides satisfying them) *)
Definition merge_closed (N : list (key * tree) -> Prop) : Prop :=
  N [] /\ forall s m o, wfs s -> wf (Dict m) = true -> N (sd_data s) -> N m -> N (sd_data (sd_merge s m o)).

Lemma clear_above_closed : forall p, opath p = true -> merge_closed (fun d => clear_above (Dict d) p = true).
Proof.
  intros p Hord. split; [destruct p; reflexivity|]. intros s m o Hw Hm Hs Hmm.
  rewrite clear_above_shape in *. fold (D s) in Hs. fold (D (sd_merge s m o)).
  assert (Hbs : shape (D s) p <> SBlocked) by (intro E; rewrite E in Hs; discriminate).
  assert (Hbm : shape (Dict m) p <> SBlocked) by (intro E; rewrite E in Hmm; discriminate).
  destruct (sd_merge_shape s m o p Hord Hw Hm Hbs Hbm) as [Hr _].
  destruct (shape (D (sd_merge s m o)) p); congruence.
Qed.

Lemma falls_off_closed : forall p, opath p = true -> p <> [] -> merge_closed (fun d => falls_off (Dict d) p = true).
Proof.
  intros p Hord Hne. split; [destruct p as [|k p']; [congruence | reflexivity]|].
  intros s m o Hw Hm Hs Hmm.
  rewrite falls_off_shape in *. fold (D s) in Hs. fold (D (sd_merge s m o)).
  assert (Es : shape (D s) p = SOff) by (destruct (shape (D s) p); congruence).
  assert (Em : shape (Dict m) p = SOff) by (destruct (shape (Dict m) p); congruence).
  destruct (sd_merge_shape s m o p Hord Hw Hm) as [_ [Hr _]]; [congruence | congruence|].
  rewrite (Hr Es), Em. reflexivity.
Qed.

Lemma clear_upto_closed : forall p, opath p = true -> merge_closed (fun d => clear_upto (Dict d) p = true).
Proof.
  intros p Hord. split; [destruct p; reflexivity|]. intros s m o Hw Hm Hs Hmm.
  rewrite clear_upto_shape in *. fold (D s) in Hs. fold (D (sd_merge s m o)).
  assert (Hbs : shape (D s) p <> SBlocked) by (intro E; rewrite E in Hs; discriminate).
  assert (Hbm : shape (Dict m) p <> SBlocked) by (intro E; rewrite E in Hmm; discriminate).
  destruct (sd_merge_shape s m o p Hord Hw Hm Hbs Hbm) as [_ [Hoff Hdict]].
  destruct (shape (D s) p) eqn:Es; try discriminate Hs.
  - rewrite (Hoff eq_refl). exact Hmm.
  - rewrite (Hdict eq_refl). reflexivity.
Qed.

(* ================================================================================================ *)
(* 4. the visit list follows the include recursion step by step                                      *)
(* ================================================================================================ *)
Definition vsub (vrec : list str -> list (N * include_entry) -> Z -> res (list (str * parsed) * Z))
           (chain : list str) (path : str) (pr : parsed) : res (list (str * parsed) * Z) :=
  match sd_inc (pr_sd pr) with
  | [] => Ok ([], pr_count pr)
  | _ => vrec (chain ++ [norm_path path]) (sd_inc (pr_sd pr)) (pr_count pr)
  end.

Lemma visit_one_skip : forall vrec fs com chain i d n path c,
  in_chain (norm_path path) chain = true \/ fs_lookup (norm_path path) fs = None ->
  visit_one vrec fs com chain (i, (d, n, path)) c = Ok ([], c).
Proof.
  intros vrec fs com chain i d n path c H. unfold visit_one.
  destruct (in_chain (norm_path path) chain); [reflexivity|].
  destruct H as [H|H]; [discriminate H|]. rewrite H. reflexivity.
Qed.

Lemma visit_one_valid : forall vrec fs com chain i d n path c u,
  in_chain (norm_path path) chain = false -> fs_lookup (norm_path path) fs = Some u ->
  visit_one vrec fs com chain (i, (d, n, path)) c =
  bind (parse_unit com path c u) (fun pr =>
  bind (vsub vrec chain path pr) (fun sub => Ok ((path, pr) :: fst sub, snd sub))).
Proof. intros vrec fs com chain i d n path c u Hc Hl. unfold visit_one. rewrite Hc, Hl. reflexivity. Qed.

Lemma visit_list_cons : forall vrec fs com chain e rest c,
  visit_list vrec fs com chain (e :: rest) c =
  bind (visit_one vrec fs com chain e c) (fun lc =>
  bind (visit_list vrec fs com chain rest (snd lc)) (fun lc2 => Ok (fst lc ++ fst lc2, snd lc2))).
Proof. reflexivity. Qed.

Lemma visit_rec_S : forall f fs com chain incs c,
  visit_rec (S f) fs com chain incs c = visit_list (visit_rec f fs com) fs com chain incs c.
Proof. reflexivity. Qed.

Section Visit.
  Variable fs : fsys.
  Variable com : bool.
  Notation mrec f := (merge_includes_rec f fs com).
  Notation vrec f := (visit_rec f fs com).

  (* a successful run of the recursion has a visit list, and the counters agree *)
  Lemma fold_visit : forall f,
    (forall chain parent count s c', mrec f chain parent count = Ok (s, c') ->
       exists lv, vrec f chain (sd_inc parent) count = Ok (lv, c')) ->
    forall chain l temp c temp' c',
    fold_left (inc_step (mrec f) fs com chain) l (Ok (temp, c)) = Ok (temp', c') ->
    exists lv, visit_list (vrec f) fs com chain l c = Ok (lv, c').
  Proof.
    intros f IHf chain. induction l as [|e l IH]; intros temp c temp' c' H; cbn [fold_left] in H.
    - inversion H; subst. exists []. reflexivity.
    - destruct (inc_step (mrec f) fs com chain (Ok (temp, c)) e) as [[t1 c1]|x] eqn:E;
        [|rewrite fold_inc_raise in H; discriminate H].
      destruct (IH _ _ _ _ H) as [lv2 Hv2]. rewrite visit_list_cons.
      destruct e as [i [[d n] path]]. apply inc_step_inv in E.
      destruct E as [temp0 [c0 [Eacc [[Hskip [Et Ec]] | [u [pr [inc' [temp1 [Hc [Hl [Hp [Hs _]]]]]]]]]]]];
        inversion Eacc; subst temp0 c0; clear Eacc.
      + subst. rewrite visit_one_skip by exact Hskip. cbn [bind snd fst]. rewrite Hv2. cbn [bind fst snd app].
        exists lv2. reflexivity.
      + rewrite (visit_one_valid _ _ _ _ _ _ _ _ _ u Hc Hl), Hp. cbn [bind].
        assert (Hvs : exists lsub, vsub (vrec f) chain path pr = Ok (lsub, c1)).
        { unfold sub_result in Hs. unfold vsub. destruct (sd_inc (pr_sd pr)) as [|e0 l0] eqn:Ei.
          - inversion Hs; subst. exists []. reflexivity.
          - destruct (IHf _ _ _ _ _ Hs) as [lsub Hsub]. rewrite Ei in Hsub. exists lsub. exact Hsub. }
        destruct Hvs as [lsub Hvs]. rewrite Hvs. cbn [bind fst snd]. rewrite Hv2. cbn [bind fst snd].
        eexists. reflexivity.
  Qed.

  Lemma rec_visit : forall f chain parent count s c',
    mrec f chain parent count = Ok (s, c') -> exists lv, vrec f chain (sd_inc parent) count = Ok (lv, c').
  Proof.
    induction f as [|f IH]; intros chain parent count s c' H; [discriminate H|].
    apply rec_S_inv in H. destruct H as [temp [Hfold _]]. rewrite visit_rec_S.
    exact (fold_visit f IH chain _ _ _ _ _ Hfold).
  Qed.

  (* one step of both walks *)
  Lemma step_both : forall f chain temp c i d n path t1 c1,
    inc_step (mrec f) fs com chain (Ok (temp, c)) (i, (d, n, path)) = Ok (t1, c1) ->
    ((in_chain (norm_path path) chain = true \/ fs_lookup (norm_path path) fs = None) /\ t1 = temp /\ c1 = c /\
     visit_one (vrec f) fs com chain (i, (d, n, path)) c = Ok ([], c)) \/
    (exists u pr inc' temp1 lsub,
       in_chain (norm_path path) chain = false /\ fs_lookup (norm_path path) fs = Some u /\
       parse_unit com path c u = Ok pr /\
       (temp1 = temp \/ temp1 = sd_merge temp (sd_data inc') (Some inc')) /\
       t1 = sd_merge temp1 (sd_data inc') (Some inc') /\
       visit_one (vrec f) fs com chain (i, (d, n, path)) c = Ok ((path, pr) :: lsub, c1) /\
       ((sd_inc (pr_sd pr) = [] /\ inc' = pr_sd pr /\ lsub = [] /\ c1 = pr_count pr) \/
        (sd_inc (pr_sd pr) <> [] /\
         mrec f (chain ++ [norm_path path]) (pr_sd pr) (pr_count pr) = Ok (inc', c1) /\
         vrec f (chain ++ [norm_path path]) (sd_inc (pr_sd pr)) (pr_count pr) = Ok (lsub, c1)))).
  Proof.
    intros f chain temp c i d n path t1 c1 E. apply inc_step_inv in E.
    destruct E as [temp0 [c0 [Eacc [[Hskip [Et Ec]] | [u [pr [inc' [temp1 [Hc [Hl [Hp [Hs [Ht1 Et]]]]]]]]]]]]];
      inversion Eacc; subst temp0 c0; clear Eacc.
    - left. subst. split; [exact Hskip|]. split; [reflexivity|]. split; [reflexivity|]. apply visit_one_skip. exact Hskip.
    - right. rewrite (visit_one_valid _ _ _ _ _ _ _ _ _ u Hc Hl), Hp. cbn [bind].
      unfold sub_result in Hs. unfold vsub. destruct (sd_inc (pr_sd pr)) as [|e0 l0] eqn:Ei.
      + inversion Hs; subst inc' c1. exists u, pr, (pr_sd pr), temp1, [].
        repeat (split; [assumption || reflexivity|]). left. repeat split; first [reflexivity | exact Ei].
      + destruct (rec_visit _ _ _ _ _ _ Hs) as [lsub Hsub]. rewrite Ei in Hsub. rewrite Hsub. cbn [bind fst snd].
        exists u, pr, inc', temp1, lsub.
        repeat (split; [assumption || reflexivity|]). right.
        split; [first [discriminate | rewrite Ei; discriminate]|]. split; [exact Hs|].
        first [exact Hsub | rewrite Ei; exact Hsub].
  Qed.

  Hypothesis Hfs : fs_wf fs = true.

  (* ================================================================================================ *)
  (* 5. a merge-closed condition that the including file and every visited file satisfy holds of the   *)
  (*    state the recursion returns                                                                    *)
  (* ================================================================================================ *)
  Section Closed.
    Variable N : list (key * tree) -> Prop.
    Hypothesis HN : merge_closed N.
    Definition Nfile (e : str * parsed) : Prop := N (sd_data (pr_sd (snd e))).

    Definition rec_N (f : nat) : Prop := forall chain parent count s c' lv cv,
      mrec f chain parent count = Ok (s, c') -> wfs parent ->
      vrec f chain (sd_inc parent) count = Ok (lv, cv) ->
      N (sd_data parent) -> Forall Nfile lv -> N (sd_data s).

    Lemma step_N : forall f, rec_N f -> forall chain temp c e t1 c1 l1 c1v,
      inc_step (mrec f) fs com chain (Ok (temp, c)) e = Ok (t1, c1) -> wfs temp ->
      visit_one (vrec f) fs com chain e c = Ok (l1, c1v) ->
      N (sd_data temp) -> Forall Nfile l1 -> N (sd_data t1) /\ c1v = c1.
    Proof.
      intros f IHf chain temp c [i [[d n] path]] t1 c1 l1 c1v E Hw Hv HNt HF.
      destruct (step_both _ _ _ _ _ _ _ _ _ _ E)
        as [[_ [Et [Ec Hv']]] | [u [pr [inc' [temp1 [lsub [Hc [Hl [Hp [Ht1 [Et [Hv' Hsub]]]]]]]]]]]];
        pose proof (eq_trans (eq_sym Hv') Hv) as Hx; inversion Hx; subst l1 c1v; clear Hv Hx.
      - subst. split; [exact HNt | reflexivity].
      - split; [|reflexivity]. inversion HF as [|? ? HNpr HFsub]; subst. unfold Nfile in HNpr. cbn [snd] in HNpr.
        assert (Hwpr : wfs (pr_sd pr)) by (eapply parse_unit_wf; [|exact Hp]; eapply fs_lookup_wf; eassumption).
        assert (Hinc : wfs inc' /\ N (sd_data inc')).
        { destruct Hsub as [[_ [Ei _]] | [_ [Hm Hvr]]].
          - subst inc'. split; assumption.
          - split; [exact (rec_wf fs com Hfs _ _ _ _ _ _ Hm Hwpr) | exact (IHf _ _ _ _ _ _ _ Hm Hwpr Hvr HNpr HFsub)]. }
        destruct Hinc as [Hwi HNi]. destruct HN as [_ Hmerge]. try subst t1.
        destruct Ht1 as [Ht1|Ht1]; subst temp1.
        + apply Hmerge; assumption.
        + apply Hmerge; [apply sd_merge_wf; assumption | exact Hwi | apply Hmerge; assumption | exact HNi].
    Qed.

    Lemma fold_N : forall f, rec_N f -> forall chain l temp c temp' c' lv cv,
      fold_left (inc_step (mrec f) fs com chain) l (Ok (temp, c)) = Ok (temp', c') -> wfs temp ->
      visit_list (vrec f) fs com chain l c = Ok (lv, cv) ->
      N (sd_data temp) -> Forall Nfile lv -> N (sd_data temp').
    Proof.
      intros f IHf chain. induction l as [|e l IH]; intros temp c temp' c' lv cv H Hw Hv HNt HF; cbn [fold_left] in H.
      - inversion H; subst. exact HNt.
      - destruct (inc_step (mrec f) fs com chain (Ok (temp, c)) e) as [[t1 c1]|x] eqn:E;
          [|rewrite fold_inc_raise in H; discriminate H].
        rewrite visit_list_cons in Hv.
        destruct (visit_one (vrec f) fs com chain e c) as [[l1 c1v]|x] eqn:Ev; [|discriminate Hv].
        cbn [bind fst snd] in Hv.
        destruct (visit_list (vrec f) fs com chain l c1v) as [[l2 c2]|x] eqn:Ev2; [|discriminate Hv].
        cbn [bind fst snd] in Hv. inversion Hv; subst lv cv; clear Hv.
        apply Forall_app in HF. destruct HF as [HF1 HF2].
        destruct (step_N f IHf _ _ _ _ _ _ _ _ E Hw Ev HNt HF1) as [HN1 Ec]. subst c1v.
        eapply IH; [exact H | eapply (inc_step_wf fs com Hfs); [exact (rec_wf fs com Hfs f) | exact E | exact Hw] | exact Ev2 | exact HN1 | exact HF2].
    Qed.

    Lemma rec_N_all : forall f, rec_N f.
    Proof.
      induction f as [|f IH]; intros chain parent count s c' lv cv H Hw Hv HNp HF; [discriminate H|].
      apply rec_S_inv in H. destruct H as [temp [Hfold Es]]. subst s. rewrite visit_rec_S in Hv.
      pose proof HN as [Hempty Hmerge].
      apply Hmerge; [exact Hw | eapply (fold_inc_wf fs com Hfs); [exact (rec_wf fs com Hfs f) | exact Hfold | exact wfs_empty] | exact HNp |].
      eapply fold_N; [exact IH | exact Hfold | exact wfs_empty | exact Hv | exact Hempty | exact HF].
    Qed.
  End Closed.
End Visit.

(* ================================================================================================ *)
(* 6. the condition on the FILES visited earlier gives the condition on the fold states: reach_where *)
(* ================================================================================================ *)
Section Reach.
  Variable fs : fsys.
  Variable com : bool.
  Hypothesis Hfs : fs_wf fs = true.
  Variable N : list (key * tree) -> Prop.
  Hypothesis HN : merge_closed N.
  Notation mrec f := (merge_includes_rec f fs com).
  Notation vrec f := (visit_rec f fs com).
  Notation NF := (Nfile N).

  Definition reach_at (f : nat) : Prop := forall chain parent count s c' lv cv l1 q pr l2,
    mrec f chain parent count = Ok (s, c') -> wfs parent ->
    vrec f chain (sd_inc parent) count = Ok (lv, cv) -> lv = l1 ++ (q, pr) :: l2 ->
    N (sd_data parent) -> Forall NF l1 ->
    exists f' chain', reach_where fs com N f chain parent count f' chain' q pr.

  Lemma reach_fold : forall f, reach_at f -> forall chain parent count suf pre temp0 c0 tfin c' lv cv l1 q pr l2,
    sd_inc parent = pre ++ suf ->
    fold_left (inc_step (mrec f) fs com chain) pre (Ok (sd_empty, count)) = Ok (temp0, c0) ->
    fold_left (inc_step (mrec f) fs com chain) suf (Ok (temp0, c0)) = Ok (tfin, c') ->
    wfs temp0 -> N (sd_data temp0) -> N (sd_data parent) ->
    visit_list (vrec f) fs com chain suf c0 = Ok (lv, cv) -> lv = l1 ++ (q, pr) :: l2 -> Forall NF l1 ->
    exists f' chain', reach_where fs com N (S f) chain parent count f' chain' q pr.
  Proof.
    intros f IHf chain parent count.
    induction suf as [|e suf' IH]; intros pre temp0 c0 tfin c' lv cv l1 q pr l2 Hinc Hpre Hsuf Hw0 HN0 HNp Hv Hlv HF.
    - cbn [visit_list] in Hv. injection Hv as Hnil _. rewrite Hlv in Hnil. destruct l1; discriminate Hnil.
    - cbn [fold_left] in Hsuf.
      destruct (inc_step (mrec f) fs com chain (Ok (temp0, c0)) e) as [[t1 c1]|x] eqn:E;
        [|rewrite fold_inc_raise in Hsuf; discriminate Hsuf].
      rewrite visit_list_cons in Hv.
      destruct (visit_one (vrec f) fs com chain e c0) as [[la c1v]|x] eqn:Ev; [|discriminate Hv].
      cbn [bind fst snd] in Hv.
      destruct (visit_list (vrec f) fs com chain suf' c1v) as [[lb c2]|x] eqn:Ev2; [|discriminate Hv].
      cbn [bind fst snd] in Hv. injection Hv as Hab Hcv. subst cv. rewrite Hlv in Hab. clear Hlv. rename Hab into Hlv.
      assert (Hw1 : wfs t1) by (eapply (inc_step_wf fs com Hfs); [exact (rec_wf fs com Hfs f) | exact E | exact Hw0]).
      (* the walk continues behind e *)
      assert (Hnext : forall l1', lb = l1' ++ (q, pr) :: l2 -> Forall NF la -> Forall NF l1' ->
                exists f' chain', reach_where fs com N (S f) chain parent count f' chain' q pr).
      { intros l1' Hlb HFa HFb.
        destruct (step_N fs com Hfs N HN f (rec_N_all fs com Hfs N HN f) _ _ _ _ _ _ _ _ E Hw0 Ev HN0 HFa) as [HN1 Ec].
        subst c1v.
        apply (IH (pre ++ [e]) t1 c1 tfin c' lb c2 l1' q pr l2); try assumption.
        - rewrite <- app_assoc. exact Hinc.
        - rewrite fold_left_app, Hpre. exact E. }
      destruct e as [i [[d n] path]].
      destruct (step_both fs com _ _ _ _ _ _ _ _ _ _ E)
        as [[_ [Et [Ec Hv']]] | [u [pr1 [inc' [temp1 [lsub [Hc [Hl [Hp [Ht1 [Et [Hv' Hsub]]]]]]]]]]]];
        pose proof (eq_trans (eq_sym Hv') Ev) as Hx; injection Hx as Hla Hc1v; subst la.
      + cbn [app] in Hlv. apply (Hnext l1); [exact Hlv | constructor | exact HF].
      + assert (Hdir : direct_include_t fs com f chain parent count path pr1 temp0).
        { exists pre, i, d, n, suf', c0, u. split; [exact Hinc|]. split; [exact Hpre|].
          split; [exact Hc|]. split; [exact Hl | exact Hp]. }
        destruct l1 as [|x1 l1'].
        * (* the file itself *)
          cbn [app] in Hlv. injection Hlv as Hq Hpr _. subst q pr.
          exists f, (chain ++ [norm_path path]). eapply RW_direct; [exact Hdir | exact HNp | exact HN0].
        * cbn [app] in Hlv. injection Hlv as Hx Hrest. subst x1.
          inversion HF as [|? ? HNpr HF']; subst. unfold Nfile in HNpr. cbn [snd] in HNpr.
          apply app_eq_app in Hrest. destruct Hrest as [l [[H1 H2] | [H1 H2]]].
          -- destruct l as [|y l'].
             ++ rewrite app_nil_r in H1. subst lsub. cbn [app] in H2.
                apply (Hnext []); [symmetry; exact H2 | constructor; assumption | constructor].
             ++ (* below this entry *)
                cbn [app] in H2. injection H2 as Hy Hlb. subst y.
                destruct Hsub as [[_ [_ [Hnil _]]] | [_ [Hm Hvr]]];
                  [rewrite Hnil in H1; destruct l1'; discriminate H1|].
                assert (Hwpr : wfs (pr_sd pr1)) by (eapply parse_unit_wf; [|exact Hp]; eapply fs_lookup_wf; eassumption).
                destruct (IHf _ _ _ _ _ _ _ _ _ _ _ Hm Hwpr Hvr H1 HNpr HF') as [f' [chain' Hr]].
                exists f', chain'. eapply RW_trans; [exact Hdir | exact HNp | exact HN0 | exact Hr].
          -- (* behind this entry *)
             subst l1'. apply Forall_app in HF'. destruct HF' as [HFs HFl].
             apply (Hnext l); [exact H2 | constructor; assumption | exact HFl].
  Qed.

  Lemma reach_at_all : forall f, reach_at f.
  Proof.
    induction f as [|f IH]; intros chain parent count s c' lv cv l1 q pr l2 H Hw Hv Hlv HNp HF; [discriminate H|].
    apply rec_S_inv in H. destruct H as [temp [Hfold _]]. rewrite visit_rec_S in Hv.
    destruct HN as [Hempty _].
    exact (reach_fold f IH chain parent count (sd_inc parent) [] sd_empty count temp c' lv cv l1 q pr l2
                      eq_refl eq_refl Hfold wfs_empty Hempty HNp Hv Hlv HF).
  Qed.
End Reach.

(* ================================================================================================ *)
(* 7. DictReader.read: the theorems on the files                                                     *)
(* ================================================================================================ *)
Lemma visit_parses_inv : forall fs com root c l,
  visit_parses fs com root c = Ok l ->
  exists u pr0 lv cv,
    fs_lookup (norm_path root) fs = Some u /\ parse_unit com root c u = Ok pr0 /\
    visit_rec (S (length fs)) fs com [] (sd_inc (pr_sd pr0)) (pr_count pr0) = Ok (lv, cv) /\
    l = (root, pr0) :: lv.
Proof.
  intros fs com root c l H. unfold visit_parses in H.
  destruct (fs_lookup (norm_path root) fs) as [u|]; [|discriminate H].
  destruct (parse_unit com root c u) as [pr0|x] eqn:Ep; [|discriminate H]. cbn [bind] in H.
  destruct (visit_rec (S (length fs)) fs com [] (sd_inc (pr_sd pr0)) (pr_count pr0)) as [[lv cv]|x] eqn:E; [|discriminate H].
  cbn [bind fst] in H. inversion H; subst. exists u, pr0, lv, cv.
  split; [reflexivity|]. split; [exact Ep|]. split; [exact E | reflexivity].
Qed.

(* a read that succeeds has a visit list *)
Lemma read_visit_parses : forall fs root com c s c',
  read_plain fs root true com c = Ok (s, c') -> exists l, visit_parses fs com root c = Ok l.
Proof.
  intros fs root com c s c' H. pose proof H as H0.
  apply read_plain_inv in H. destruct H as [u [pr [m [Hl [Hp _]]]]].
  destruct (read_plain_rec_inv _ _ _ _ _ _ _ _ H0 Hl Hp) as [p [Hrun _]].
  destruct (rec_visit fs com _ _ _ _ _ _ Hrun) as [lv Hv].
  unfold visit_parses. rewrite Hl, Hp. cbn [bind]. rewrite Hv. cbn [bind fst]. eexists. reflexivity.
Qed.

(* the file level condition: every file visited EARLIER (the root included) satisfies N *)
Theorem files_reach_where : forall fs root com c s c' l1 q pr l2 (N : list (key * tree) -> Prop) x1 l1',
  fs_wf fs = true -> merge_closed N ->
  read_plain fs root true com c = Ok (s, c') ->
  visit_parses fs com root c = Ok (l1 ++ (q, pr) :: l2) -> l1 = x1 :: l1' ->
  Forall (Nfile N) l1 ->
  exists u0 pr0 f' chain',
    fs_lookup (norm_path root) fs = Some u0 /\ parse_unit com root c u0 = Ok pr0 /\
    reach_where fs com N (S (length fs)) [] (pr_sd pr0) (pr_count pr0) f' chain' q pr.
Proof.
  intros fs root com c s c' l1 q pr l2 N x1 l1' Hfs HN H Hv Hl1 HF. subst l1.
  apply visit_parses_inv in Hv. destruct Hv as [u0 [pr0 [lv [cv [Hl [Hp [Hvr Hlv]]]]]]].
  cbn [app] in Hlv. injection Hlv as Hx Hlv. subst x1.
  destruct (read_plain_rec_inv _ _ _ _ _ _ _ _ H Hl Hp) as [p [Hrun _]].
  apply Forall_cons_iff in HF. destruct HF as [HN0 HF']. unfold Nfile in HN0. cbn [snd] in HN0.
  assert (Hw : wfs (pr_sd pr0)) by (eapply parse_unit_wf; [|exact Hp]; eapply fs_lookup_wf; eassumption).
  destruct (reach_at_all fs com Hfs N HN _ _ _ _ _ _ _ _ _ _ _ _ Hrun Hw Hvr (eq_sym Hlv) HN0 HF') as [f' [chain' Hr]].
  exists u0, pr0, f', chain'. split; [exact Hl|]. split; [exact Hp | exact Hr].
Qed.

Lemma forallb_Nfile : forall (P : list (key * tree) -> bool) l,
  forallb (fun e : str * parsed => P (sd_data (pr_sd (snd e)))) l = true -> Forall (Nfile (fun d => P d = true)) l.
Proof.
  intros P l H. rewrite forallb_forall in H. apply Forall_forall. intros e Hin. exact (H e Hin).
Qed.

Lemma visit_root_head : forall fs com root c q pr l2,
  visit_parses fs com root c = Ok ((q, pr) :: l2) ->
  exists u, q = root /\ fs_lookup (norm_path root) fs = Some u /\ parse_unit com root c u = Ok pr.
Proof.
  intros fs com root c q pr l2 Hv. apply visit_parses_inv in Hv.
  destruct Hv as [u0 [pr0 [lv [cv [Hl [Hp [_ Hlv]]]]]]]. injection Hlv as Hq Hpr _. subst.
  exists u0. repeat split; assumption.
Qed.

(* COMPLETENESS: every ordinary key path of every visited file leads to something in the result, unless a file
   visited earlier holds a leaf or a list above it *)
Theorem complete_files : forall fs root com c s c' l1 q pr l2 p,
  fs_wf fs = true ->
  read_plain fs root true com c = Ok (s, c') ->
  visit_parses fs com root c = Ok (l1 ++ (q, pr) :: l2) ->
  forallb ordinary_key p = true ->
  forallb (fun e : str * parsed => clear_above (Dict (sd_data (pr_sd (snd e)))) p) l1 = true ->
  get_dpath (Dict (sd_data (pr_sd pr))) p <> None ->
  get_dpath (Dict (sd_data s)) p <> None.
Proof.
  intros fs root com c s c' l1 q pr l2 p Hfs H Hv Hord Hcl Hget.
  destruct l1 as [|x1 l1'].
  - destruct (visit_root_head _ _ _ _ _ _ _ Hv) as [u [_ [Hl Hp]]].
    destruct (get_dpath (Dict (sd_data (pr_sd pr))) p) as [x|] eqn:E; [|congruence].
    destruct (including_file_paths_kept fs root com c u pr s c' p x Hfs Hl Hp H Hord E) as [x' [Hx _]].
    rewrite Hx. discriminate.
  - destruct (files_reach_where fs root com c s c' _ q pr l2 _ x1 l1' Hfs (clear_above_closed p Hord) H Hv eq_refl
                (forallb_Nfile (fun d => clear_above (Dict d) p) _ Hcl)) as [u0 [pr0 [f' [chain' [Hl [Hp Hr]]]]]].
    exact (reachable_file_complete_deep fs root com c s c' u0 pr0 f' chain' q pr p Hfs H Hl Hp Hord Hr Hget).
Qed.

(* ... and to a dict where the file has a dict, unless a file visited earlier holds a leaf or a list above the
   path or at the path itself *)
Theorem dict_files : forall fs root com c s c' l1 q pr l2 p kvs,
  fs_wf fs = true ->
  read_plain fs root true com c = Ok (s, c') ->
  visit_parses fs com root c = Ok (l1 ++ (q, pr) :: l2) ->
  forallb ordinary_key p = true ->
  forallb (fun e : str * parsed => clear_upto (Dict (sd_data (pr_sd (snd e)))) p) l1 = true ->
  get_dpath (Dict (sd_data (pr_sd pr))) p = Some (Dict kvs) ->
  exists kvs', get_dpath (Dict (sd_data s)) p = Some (Dict kvs').
Proof.
  intros fs root com c s c' l1 q pr l2 p kvs Hfs H Hv Hord Hcl Hget.
  destruct l1 as [|x1 l1'].
  - destruct (visit_root_head _ _ _ _ _ _ _ Hv) as [u [_ [Hl Hp]]].
    destruct (including_file_paths_kept fs root com c u pr s c' p _ Hfs Hl Hp H Hord Hget) as [x' [Hx Hd]].
    destruct (Hd kvs eq_refl) as [kvs' E]. exists kvs'. rewrite Hx, E. reflexivity.
  - destruct (files_reach_where fs root com c s c' _ q pr l2 _ x1 l1' Hfs (clear_upto_closed p Hord) H Hv eq_refl
                (forallb_Nfile (fun d => clear_upto (Dict d) p) _ Hcl)) as [u0 [pr0 [f' [chain' [Hl [Hp Hr]]]]]].
    exact (reachable_file_dict_deep fs root com c s c' u0 pr0 f' chain' q pr p kvs Hfs H Hl Hp Hord Hr Hget).
Qed.

(* INCLUDE ORDER: the leaf of the FIRST file in visit order that holds anything at the path or above it is the
   leaf of the result *)
Theorem first_holder_files : forall fs root com c s c' l1 q pr l2 p v,
  fs_wf fs = true ->
  read_plain fs root true com c = Ok (s, c') ->
  visit_parses fs com root c = Ok (l1 ++ (q, pr) :: l2) ->
  forallb ordinary_key p = true -> leaf_ok p v = true ->
  forallb (fun e : str * parsed => falls_off (Dict (sd_data (pr_sd (snd e)))) p) l1 = true ->
  get_dpath (Dict (sd_data (pr_sd pr))) p = Some (Leaf v) ->
  get_dpath (Dict (sd_data s)) p = Some (Leaf v).
Proof.
  intros fs root com c s c' l1 q pr l2 p v Hfs H Hv Hord Hlf Hcl Hget.
  assert (Hne : p <> []) by (intro E; subst p; discriminate Hget).
  destruct l1 as [|x1 l1'].
  - destruct (visit_root_head _ _ _ _ _ _ _ Hv) as [u [_ [Hl Hp]]].
    exact (including_file_wins_deep fs root com c u pr s c' p v Hfs Hl Hp H Hord Hlf Hget).
  - destruct (files_reach_where fs root com c s c' _ q pr l2 _ x1 l1' Hfs (falls_off_closed p Hord Hne) H Hv eq_refl
                (forallb_Nfile (fun d => falls_off (Dict d) p) _ Hcl)) as [u0 [pr0 [f' [chain' [Hl [Hp Hr]]]]]].
    exact (first_holder_wins_deep fs root com c s c' u0 pr0 f' chain' q pr p v Hfs H Hl Hp Hord Hlf Hr Hget).
Qed.

(* ================================================================================================ *)
(* 8. the visit list holds exactly the files the run reaches (IncludeProofs.run_reach)               *)
(* ================================================================================================ *)
Lemma bind_eta : forall (r : res (list (str * parsed) * Z)), bind r (fun y => Ok ([] ++ fst y, snd y)) = r.
Proof. intros [[l c]|x]; reflexivity. Qed.

Lemma visit_list_app : forall vrec fs com chain a b c,
  visit_list vrec fs com chain (a ++ b) c =
  bind (visit_list vrec fs com chain a c) (fun x =>
  bind (visit_list vrec fs com chain b (snd x)) (fun y => Ok (fst x ++ fst y, snd y))).
Proof.
  intros vrec fs com chain. induction a as [|e a IH]; intros b c.
  - cbn [app visit_list bind fst snd]. rewrite bind_eta. reflexivity.
  - cbn [app]. rewrite !visit_list_cons.
    destruct (visit_one vrec fs com chain e c) as [[l1 c1]|x]; [|reflexivity]. cbn [bind fst snd].
    rewrite IH. destruct (visit_list vrec fs com chain a c1) as [[l2 c2]|x]; [|reflexivity]. cbn [bind fst snd].
    destruct (visit_list vrec fs com chain b c2) as [[l3 c3]|x]; [|reflexivity]. cbn [bind fst snd].
    rewrite app_assoc. reflexivity.
Qed.

Section Exact.
  Variable fs : fsys.
  Variable com : bool.
  Notation mrec f := (merge_includes_rec f fs com).
  Notation vrec f := (visit_rec f fs com).

  Lemma direct_in_visit : forall f chain parent count s c' lv cv path pr,
    mrec (S f) chain parent count = Ok (s, c') ->
    vrec (S f) chain (sd_inc parent) count = Ok (lv, cv) ->
    direct_include fs com f chain parent count path pr ->
    exists la lsub lb, lv = la ++ (path, pr) :: lsub ++ lb /\
      (sd_inc (pr_sd pr) <> [] ->
       exists inc' c1, mrec f (chain ++ [norm_path path]) (pr_sd pr) (pr_count pr) = Ok (inc', c1) /\
                       vrec f (chain ++ [norm_path path]) (sd_inc (pr_sd pr)) (pr_count pr) = Ok (lsub, c1)).
  Proof.
    intros f chain parent count s c' lv cv path pr H Hv [pre [i [d [n [suf [temp [c1 [u [Hinc [Hpre [Hc [Hl Hp]]]]]]]]]]]].
    apply rec_S_inv in H. destruct H as [tfin [Hfold _]]. rewrite Hinc in Hfold.
    apply fold_inc_split in Hfold. destruct Hfold as [temp0 [c0 [temp1 [c1' [Hpre' [Hstep Hsuf]]]]]].
    assert (temp0 = temp /\ c0 = c1) by (split; congruence). destruct H as [E1 E2]. subst temp0 c0.
    rewrite visit_rec_S, Hinc, visit_list_app in Hv.
    destruct (fold_visit fs com f (rec_visit fs com f) chain _ _ _ _ _ Hpre) as [la Hla].
    rewrite Hla in Hv. cbn [bind fst snd] in Hv. rewrite visit_list_cons in Hv.
    destruct (step_both fs com _ _ _ _ _ _ _ _ _ _ Hstep)
      as [[[Hx|Hx] _] | [u' [pr' [inc' [temp2 [lsub [_ [Hl' [Hp' [_ [_ [Hv' Hsub]]]]]]]]]]]]; [congruence | congruence |].
    assert (u' = u) by congruence. subst u'. assert (pr' = pr) by congruence. subst pr'.
    rewrite Hv' in Hv. cbn [bind fst snd] in Hv.
    destruct (visit_list (vrec f) fs com chain suf c1') as [[lb c2]|x]; [|discriminate Hv].
    cbn [bind fst snd] in Hv. injection Hv as Hlv _.
    exists la, lsub, lb. split; [rewrite <- Hlv; reflexivity|].
    intro Hne. destruct Hsub as [[Hnil _] | [_ [Hm Hvr]]]; [congruence|]. exists inc', c1'. split; assumption.
  Qed.

  Lemma reach_in_visit : forall f chain parent count f' chain' path pr,
    run_reach fs com f chain parent count f' chain' path pr ->
    forall s c' lv cv, mrec f chain parent count = Ok (s, c') -> vrec f chain (sd_inc parent) count = Ok (lv, cv) ->
    In (path, pr) lv.
  Proof.
    intros f chain parent count f' chain' path pr H.
    induction H as [f chain parent count path pr Hd | f chain parent count path pr f' chain' path' pr' Hd Hr IH];
      intros s c' lv cv Hrun Hv.
    - destruct (direct_in_visit _ _ _ _ _ _ _ _ _ _ Hrun Hv Hd) as [la [lsub [lb [Hlv _]]]].
      subst lv. apply in_or_app. right. left. reflexivity.
    - destruct (direct_in_visit _ _ _ _ _ _ _ _ _ _ Hrun Hv Hd) as [la [lsub [lb [Hlv Hsub]]]].
      destruct (Hsub (run_reach_nonempty _ _ _ _ _ _ _ _ _ _ Hr)) as [inc' [c1 [Hm Hvr]]].
      subst lv. apply in_or_app. right. right. apply in_or_app. left. exact (IH _ _ _ _ Hm Hvr).
  Qed.
End Exact.

Lemma true_closed : merge_closed (fun _ => True).
Proof. split; [exact I | intros; exact I]. Qed.

Theorem visit_is_reached : forall fs root com c s c' l u0 pr0 q pr,
  fs_wf fs = true ->
  read_plain fs root true com c = Ok (s, c') ->
  visit_parses fs com root c = Ok l ->
  fs_lookup (norm_path root) fs = Some u0 -> parse_unit com root c u0 = Ok pr0 ->
  hd_error l = Some (root, pr0) /\
  (In (q, pr) (tl l) <->
   exists f' chain', run_reach fs com (S (length fs)) [] (pr_sd pr0) (pr_count pr0) f' chain' q pr).
Proof.
  intros fs root com c s c' l u0 pr0 q pr Hfs H Hv Hl Hp.
  apply visit_parses_inv in Hv. destruct Hv as [u [pr0' [lv [cv [Hl' [Hp' [Hvr Hlv]]]]]]].
  assert (u = u0) by congruence. subst u. assert (pr0' = pr0) by congruence. subst pr0' l.
  split; [reflexivity|]. cbn [tl].
  destruct (read_plain_rec_inv _ _ _ _ _ _ _ _ H Hl Hp) as [p [Hrun _]].
  split.
  - intro Hin. apply in_split in Hin. destruct Hin as [l1 [l2 Hlv]].
    assert (Hw : wfs (pr_sd pr0)) by (eapply parse_unit_wf; [|exact Hp]; eapply fs_lookup_wf; eassumption).
    assert (HF : Forall (Nfile (fun _ => True)) l1) by (apply Forall_forall; intros; exact I).
    destruct (reach_at_all fs com Hfs _ true_closed _ _ _ _ _ _ _ _ _ _ _ _ Hrun Hw Hvr Hlv I HF) as [f' [chain' Hr]].
    exists f', chain'. eapply reach_where_run_reach. exact Hr.
  - intros [f' [chain' Hr]]. exact (reach_in_visit fs com _ _ _ _ _ _ _ _ Hr _ _ _ _ Hrun Hvr).
Qed.

(* ================================================================================================ *)
(* 9. graphs without conflicts: no two visited files hold a dict and a leaf / list at the same        *)
(*    ordinary path.  Then nothing is blocked and every ordinary key path of every file arrives.       *)
(* ================================================================================================ *)
(* along ordinary keys, wherever both trees hold something they hold the same kind (dict / not a dict) *)
Fixpoint compat (t1 t2 : tree) : bool :=
  match t1, t2 with
  | Dict a, Dict b =>
      (fix go (l : list (key * tree)) : bool :=
         match l with
         | [] => true
         | (k, c) :: l' =>
             (if ordinary_key k then match alookup k b with Some c' => compat c c' | None => true end else true)
             && go l'
         end) a
  | Dict _, _ | _, Dict _ => false
  | _, _ => true
  end.

Definition compat_go (b : list (key * tree)) : list (key * tree) -> bool :=
  fix go (l : list (key * tree)) : bool :=
    match l with
    | [] => true
    | (k, c) :: l' =>
        (if ordinary_key k then match alookup k b with Some c' => compat c c' | None => true end else true)
        && go l'
    end.

Lemma compat_dict : forall a b, compat (Dict a) (Dict b) = compat_go b a.
Proof. reflexivity. Qed.

Lemma compat_go_lookup : forall b a k c c', compat_go b a = true -> ordinary_key k = true ->
  alookup k a = Some c -> alookup k b = Some c' -> compat c c' = true.
Proof.
  intros b. induction a as [|[k0 c0] a IH]; intros k c c' H Hk Ha Hb; [discriminate Ha|].
  cbn [compat_go] in H. apply andb_true_iff in H. destruct H as [H0 H1].
  cbn [alookup] in Ha. destruct (key_eqb k k0) eqn:E.
  - apply key_eqb_eq in E. subst k0. injection Ha as Ha. subst c0. rewrite Hk, Hb in H0. exact H0.
  - exact (IH k c c' H1 Hk Ha Hb).
Qed.

Lemma compat_clear_above : forall p t1 t2, compat t1 t2 = true -> opath p = true ->
  get_dpath t2 p <> None -> clear_above t1 p = true.
Proof.
  induction p as [|k p' IH]; intros t1 t2 Hc Hord Hget; [reflexivity|].
  unfold opath in Hord. cbn [forallb] in Hord. apply andb_true_iff in Hord. destruct Hord as [Hk Hord].
  destruct t2 as [v|b|ts]; try (exfalso; apply Hget; reflexivity).
  destruct t1 as [v|a|ts]; try discriminate Hc.
  rewrite get_dpath_cons in Hget. rewrite clear_above_cons.
  destruct (alookup k a) as [c1|] eqn:Ea; [|reflexivity].
  destruct p' as [|k1 p1]; [reflexivity|].
  destruct (alookup k b) as [c2|] eqn:Eb; [|congruence].
  rewrite compat_dict in Hc.
  exact (IH c1 c2 (compat_go_lookup b a k c1 c2 Hc Hk Ea Eb) Hord Hget).
Qed.

Definition own (e : str * parsed) : tree := Dict (sd_data (pr_sd (snd e))).
(* every file is compatible with every file visited after it *)
Fixpoint no_conflict (l : list (str * parsed)) : bool :=
  match l with
  | [] => true
  | a :: l' => forallb (fun b => compat (own a) (own b)) l' && no_conflict l'
  end.

Lemma no_conflict_split : forall l1 e l2, no_conflict (l1 ++ e :: l2) = true ->
  forallb (fun a => compat (own a) (own e)) l1 = true.
Proof.
  induction l1 as [|a l1 IH]; intros e l2 H; [reflexivity|].
  cbn [app no_conflict] in H. apply andb_true_iff in H. destruct H as [H0 H1].
  cbn [forallb]. rewrite (IH e l2 H1), andb_true_r.
  rewrite forallb_forall in H0. apply H0. apply in_or_app. right. left. reflexivity.
Qed.

(* the property in its own words, for include graphs without conflicts: every ordinary key path of every file
   the read reaches (the root included) is present in the result *)
Theorem complete_no_conflict : forall fs root com c s c' l q pr p,
  fs_wf fs = true ->
  read_plain fs root true com c = Ok (s, c') ->
  visit_parses fs com root c = Ok l -> no_conflict l = true ->
  In (q, pr) l ->
  forallb ordinary_key p = true ->
  get_dpath (Dict (sd_data (pr_sd pr))) p <> None ->
  get_dpath (Dict (sd_data s)) p <> None.
Proof.
  intros fs root com c s c' l q pr p Hfs H Hv Hnc Hin Hord Hget.
  apply in_split in Hin. destruct Hin as [l1 [l2 Hl]]. subst l.
  apply (complete_files fs root com c s c' l1 q pr l2 p Hfs H Hv Hord); [|exact Hget].
  pose proof (no_conflict_split l1 (q, pr) l2 Hnc) as Hc.
  rewrite forallb_forall in Hc |- *. intros e He.
  exact (compat_clear_above p (own e) (own (q, pr)) (Hc e He) Hord Hget).
Qed.

(* ... and with run_reach instead of the list *)
Theorem reachable_complete_no_conflict : forall fs root com c s c' l u0 pr0 f' chain' q pr p,
  fs_wf fs = true ->
  read_plain fs root true com c = Ok (s, c') ->
  visit_parses fs com root c = Ok l -> no_conflict l = true ->
  fs_lookup (norm_path root) fs = Some u0 -> parse_unit com root c u0 = Ok pr0 ->
  run_reach fs com (S (length fs)) [] (pr_sd pr0) (pr_count pr0) f' chain' q pr ->
  forallb ordinary_key p = true ->
  get_dpath (Dict (sd_data (pr_sd pr))) p <> None ->
  get_dpath (Dict (sd_data s)) p <> None.
Proof.
  intros fs root com c s c' l u0 pr0 f' chain' q pr p Hfs H Hv Hnc Hl Hp Hr Hord Hget.
  destruct (visit_is_reached fs root com c s c' l u0 pr0 q pr Hfs H Hv Hl Hp) as [_ [_ Hin]].
  eapply (complete_no_conflict fs root com c s c' l q pr p); try eassumption.
  destruct l as [|x l']; [discriminate Hv || (apply visit_parses_inv in Hv; destruct Hv as [? [? [? [? [_ [_ [_ E]]]]]]]; discriminate E)|].
  right. apply Hin. exists f', chain'. exact Hr.
Qed.
