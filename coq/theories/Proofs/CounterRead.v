(* C08, counter independence, part 5: include merging (DictReader.read with includes, native files without references). *)
From Coq Require Import String.
From Coq Require Import NArith ZArith Bool Lia ZifyBool ZifyN ZifyNat.
From DictIO Require Import Chars Str Value Scalar KeyPath SDict Lexer TokParser Reader MiscSpec CliProofs.
From DictIO Require ScalarProofs TokProofs SDictProofs KeyPathProofs ParserFuelProofs E2EInsert E2EHoles.
From DictIO Require Import CounterBase CounterLex CounterParse CounterInsert CounterProofs.
From Coq Require Import List.
Import ListNotations.
Open Scope N_scope.

(* ================================================================================================ *)
(* 1. the side conditions do not depend on the counter or the directory                             *)
(* ================================================================================================ *)
Lemma key_okb_R d k : key_okb (Rk d k) = key_okb k.
Proof.
  destruct k as [z|s]; [reflexivity|]. unfold key_okb. rewrite ph_kind_of_R. cbn [Rk]. rewrite f6_R.
  destruct (ph_kind_of (KS s)) as [[]|]; destruct (f6 s) as [[[] i]|]; reflexivity.
Qed.

Lemma keys_okt_R d : forall t, keys_okt (Rt d t) = keys_okt t.
Proof.
  induction t as [v|kvs IH|ts IH] using tree_ind'; [reflexivity| |].
  - rewrite Rt_dict, !keys_okt_dict. induction IH as [|[k c] kvs Hc _ IHk]; [reflexivity|].
    rewrite Rkv_cons. cbn [forallb fst snd] in *. rewrite key_okb_R, Hc, IHk. reflexivity.
  - rewrite Rt_lst, !keys_okt_lst. induction IH as [|c l Hc _ IHl]; [reflexivity|]. cbn [map forallb]. rewrite Hc, IHl. reflexivity.
Qed.

Lemma parse_side_R d lx k : Forall idok (lxd_lit lx) -> parse_side (rename_lexed d lx k) = parse_side lx.
Proof.
  intros Hid. unfold parse_side. cbn [rename_lexed lxd_tokens lxd_lit]. rewrite parse_tokens_R.
  destruct (parse_tokens (lxd_tokens lx)) as [d0|e]; [|reflexivity]. cbn [map_res].
  rewrite <- Rt_dict, keys_okt_R, (lits_own_ok_R d _ Hid). reflexivity.
Qed.

Lemma extract_includes_dir dirA dirB : forall ls c,
  fst (extract_includes dirA c ls) = fst (extract_includes dirB c ls).
Proof.
  induction ls as [|l ls IH]; intros c; [reflexivity|]. cbn [extract_includes].
  destruct (include_line_rest l) as [rest|].
  - specialize (IH (counter_next c)). destruct (extract_includes dirA (counter_next c) ls) as [[rA cA] tA].
    destruct (extract_includes dirB (counter_next c) ls) as [[rB cB] tB]. cbn [fst] in *. injection IH as -> ->. reflexivity.
  - specialize (IH c). destruct (extract_includes dirA c ls) as [[rA cA] tA].
    destruct (extract_includes dirB c ls) as [[rB cB] tB]. cbn [fst] in *. injection IH as -> ->. reflexivity.
Qed.

Lemma lex_dir com dirA dirB c text :
  lxd_tokens (lex com dirA c text) = lxd_tokens (lex com dirB c text) /\
  lxd_lit (lex com dirA c text) = lxd_lit (lex com dirB c text) /\
  lxd_expr (lex com dirA c text) = lxd_expr (lex com dirB c text).
Proof.
  unfold lex. destruct (extract_line_comments com c (splitlines text)) as [[l1 k1] lc].
  pose proof (extract_includes_dir dirA dirB l1 k1) as H.
  destruct (extract_includes dirA k1 l1) as [[l2 k2] inc]. destruct (extract_includes dirB k1 l1) as [[l2' k2'] inc'].
  cbn [fst] in H. injection H as -> ->.
  destruct (extract_block_comments com (concat l2')) as [b1 bc].
  destruct (extract_string_literals k2' (remove_line_endings b1)) as [[b3 k3] lit].
  destruct (extract_expressions k3 b3) as [[b4 k4] ex]. repeat split.
Qed.

Lemma parse_side_dir dirA dirB c text : parse_side (lex true dirA c text) = parse_side (lex true dirB c text).
Proof. destruct (lex_dir true dirA dirB c text) as (H1 & H2 & _). unfold parse_side. rewrite H1, H2. reflexivity. Qed.

Lemma rename_inv' d s : rename_str d (rename_str (- d) s) = s.
Proof. rewrite <- (Z.opp_involutive d) at 1. apply rename_inv. Qed.

(* a native source file: no placeholder names, the parser's side condition (at the fresh counter), no references *)
Definition no_expr (lx : lexed) : bool := match lxd_expr lx with [] => true | _ => false end.
Definition file_ok (text : str) : bool :=
  cleanb text && parse_side (lex true [] (-1) text) && no_expr (lex true [] (-1) text).

Lemma file_ok_any text : file_ok text = true -> forall dir c, counter_ok c ->
  cleanb text = true /\ parse_side (lex true dir c text) = true /\ lxd_expr (lex true dir c text) = [].
Proof.
  unfold file_ok. intros H dir c Hc. apply andb_true_iff in H. destruct H as [H H3]. apply andb_true_iff in H. destruct H as [H1 H2].
  split; [exact H1|].
  assert (H0 : counter_ok (-1)%Z) by (unfold counter_ok; lia).
  destruct (lex_R (c - -1) (-1)%Z c H0 Hc eq_refl (rename_str (- (c - -1)) dir) text (-1)%Z c (crel_start _ _) H1) as (k' & E & _ & Hid).
  rewrite rename_inv' in E. rewrite E. split.
  - rewrite (parse_side_R _ _ _ Hid), (parse_side_dir _ [] _ _). exact H2.
  - cbn [rename_lexed lxd_expr]. destruct (lex_dir true (rename_str (- (c - -1)) dir) [] (-1)%Z text) as (_ & _ & He). rewrite He.
    unfold no_expr in H3. destruct (lxd_expr (lex true [] (-1) text)); [reflexivity|discriminate H3].
Qed.

(* ================================================================================================ *)
(* 2. SDict.merge                                                                                   *)
(* ================================================================================================ *)
Lemma insert_expression_nil v : insert_expression v [] = v.
Proof.
  destruct v as [[z|l|b| |t]|kvs|ts]; try reflexivity. cbn [insert_expression].
  destruct (has_placeholder w_EXPRESSION t); [|reflexivity]. destruct (first_6digits t); reflexivity.
Qed.

Definition tail_ok (name s : list N) : bool := match drop_n (length name) s with x :: _ => negb (is_word x) | [] => true end.

Lemma word_nAN x : is_word x = false -> isAN x = false.
Proof. unfold is_word, isAN. intros H. lia. Qed.

Lemma starts_with_refl (x : list N) : starts_with x x = true.
Proof. rewrite <- (app_nil_r x) at 2. apply starts_with_app. Qed.
Lemma drop_n_all {A} (x : list A) : drop_n (length x) x = [].
Proof. rewrite <- (app_nil_r x) at 2. apply drop_n_app. Qed.

Lemma hit_fwd d (name s : list N) : starts_with name s && tail_ok name s = true ->
  starts_with (rename_str d name) (rename_str d s) && tail_ok (rename_str d name) (rename_str d s) = true.
Proof.
  intros H. apply andb_true_iff in H. destruct H as [H1 H2]. apply starts_with_eq in H1. unfold tail_ok in *.
  destruct (drop_n (length name) s) as [|x rest] eqn:Ed.
  - rewrite app_nil_r in H1. subst s. rewrite starts_with_refl, drop_n_all. reflexivity.
  - apply negb_true_iff in H2. rewrite H1. rewrite R_app_r by (apply word_nAN; exact H2). rewrite starts_with_app.
    rewrite drop_n_app. rewrite R_cons by (apply nAN_nupper; apply word_nAN; exact H2). rewrite H2. reflexivity.
Qed.

Lemma hit_R d (name s : list N) :
  starts_with (rename_str d name) (rename_str d s) && tail_ok (rename_str d name) (rename_str d s) = starts_with name s && tail_ok name s.
Proof.
  destruct (starts_with name s && tail_ok name s) eqn:E; [apply hit_fwd; exact E|].
  destruct (starts_with (rename_str d name) (rename_str d s) && tail_ok (rename_str d name) (rename_str d s)) eqn:E2; [|reflexivity].
  apply (hit_fwd (- d)) in E2. rewrite !rename_inv in E2. congruence.
Qed.

Lemma refers_to_unfold name c s : refers_to name (c :: s) = ((c =? c_dollar) && (starts_with name s && tail_ok name s)) || refers_to name s.
Proof. cbn [refers_to]. unfold tail_ok. rewrite andb_assoc. reflexivity. Qed.

Lemma refers_to_rsuf d (name : list N) : forall s s' : list N, rsuf d s s' -> refers_to (rename_str d name) s' = refers_to name s.
Proof.
  induction s as [|c s IH]; intros s' H; [rewrite (rsuf_nil d _ H); reflexivity|].
  destruct (rsuf_cons_inv d _ _ _ H) as (c' & t & -> & Hc & Ht). rewrite !refers_to_unfold, (IH t Ht).
  rewrite <- (ds_eqb c_dollar eq_refl _ _ Hc). destruct (c =? c_dollar) eqn:E; [|reflexivity].
  apply N.eqb_eq in E. subst c. pose proof (rsuf_safe d c_dollar s _ eq_refl H) as Es. rewrite R_cons in Es by reflexivity.
  injection Es as _ ->. rewrite hit_R. reflexivity.
Qed.

Lemma span_dsim2 (p : N -> bool) (s s' : list N) : (forall a b, dsim1 a b -> p a = p b) -> dsim s s' ->
  dsim (fst (span p s)) (fst (span p s')) /\ dsim (snd (span p s)) (snd (span p s')).
Proof.
  intros Hp H. induction H as [|a b s t Hab H IH]; [split; constructor|]. cbn [span]. rewrite <- (Hp a b Hab).
  destruct (p a); [|split; [constructor|constructor; assumption]].
  destruct (span p s), (span p t). cbn [fst snd] in *. destruct IH as [I1 I2]. split; [constructor; assumption|exact I2].
Qed.

Lemma is_placeholder_name_R d s : is_placeholder_name (rename_str d s) = is_placeholder_name s.
Proof.
  unfold is_placeholder_name. destruct (span_dsim2 is_upper s (rename_str d s) ds_upper (dsim_rename d s)) as [H1 H2].
  destruct (span is_upper s) as [u r], (span is_upper (rename_str d s)) as [u' r']. cbn [fst snd] in *.
  rewrite <- (dsim_length _ _ H2), <- (forallb_dsim is_digit r r' ds_digit H2).
  apply dsim_length in H1. destruct u, u'; try discriminate H1; reflexivity.
Qed.

Lemma circular_R d k v : circular (Rk d k) (Rt d v) = circular k v.
Proof.
  destruct k as [z|name]; [reflexivity|]. destruct v as [[z|l|b| |t]|kvs|ts]; try reflexivity.
  cbn [Rk Rt Rsc circular]. rewrite nonempty_R, (refers_to_rsuf d name t _ (rsuf_R d t)), rename_eqb, is_placeholder_name_R. reflexivity.
Qed.

Definition top_ok (top : option (list (N * expr_entry))) : Prop := top = None \/ top = Some [].

Lemma merge_kvs_R d : forall fuel top target other, top_ok top ->
  merge_kvs fuel top (Rkv d (Rt d) target) (Rkv d (Rt d) other) = Rkv d (Rt d) (merge_kvs fuel top target other).
Proof.
  induction fuel as [|f IH]; intros top target other Htop; [reflexivity|]. cbn [merge_kvs].
  revert target. induction other as [|[k ov] other IHo]; intros target; [reflexivity|].
  rewrite Rkv_cons. cbn [fold_left]. rewrite <- IHo. f_equal.
  rewrite (alookup_R d (Rt d)). destruct (alookup k target) as [tv|]; cbn [option_map].
  - assert (Hleaf : (match top with
                     | Some exprs => if circular (Rk d k) (insert_expression (Rt d tv) exprs) then aset (Rk d k) (Rt d ov) (Rkv d (Rt d) target) else Rkv d (Rt d) target
                     | None => Rkv d (Rt d) target end) =
                    Rkv d (Rt d) (match top with
                     | Some exprs => if circular k (insert_expression tv exprs) then aset k ov target else target
                     | None => target end)).
    { destruct Htop as [-> | ->]; [reflexivity|]. rewrite !insert_expression_nil, circular_R.
      destruct (circular k tv); [apply aset_R|reflexivity]. }
    destruct tv as [x|tsub|tl]; destruct ov as [y|osub|ol]; try exact Hleaf.
    rewrite !Rt_dict. rewrite (IH None tsub osub (or_introl eq_refl)). rewrite <- Rt_dict. apply aset_R.
  - destruct ov; apply aset_R.
Qed.

Lemma tmerge_R {V} (fv : V -> V) (sh : N -> N) : (forall i j, (sh i =? sh j) = (i =? j)) ->
  forall (m l : list (N * V)), tmerge (rtab fv sh l) (rtab fv sh m) = rtab fv sh (tmerge l m).
Proof.
  intros Hsh. unfold tmerge. induction m as [|[j v] m IH]; intros l; [reflexivity|].
  rewrite rtab_cons. cbn [fold_left fst snd]. rewrite (rtab_tlookup fv sh Hsh). destruct (tlookup j l); cbn [option_map]; [apply IH|].
  assert (Happ : rtab fv sh l ++ [(sh j, fv v)] = rtab fv sh (l ++ [(j, v)])) by (unfold rtab; rewrite map_app; reflexivity).
  rewrite Happ. apply IH.
Qed.

(* merging keeps the keys of both sides *)
Lemma keys_okt_aset k v l : key_okb k = true -> keys_okt v = true -> keys_okt (Dict l) = true -> keys_okt (Dict (aset k v l)) = true.
Proof.
  intros Hk Hv. rewrite !keys_okt_dict. induction l as [|[k' v'] l IH]; intros H.
  - cbn [aset forallb fst snd]. rewrite Hk, Hv. reflexivity.
  - cbn [forallb fst snd] in H. apply andb_true_iff in H. destruct H as [H1 H2]. cbn [aset]. destruct (key_eqb k k').
    + cbn [forallb fst snd]. apply andb_true_iff in H1. rewrite (proj1 H1), Hv, H2. reflexivity.
    + cbn [forallb fst snd]. rewrite H1, (IH H2). reflexivity.
Qed.

Lemma alookup_in {V} k (l : list (key * V)) v : alookup k l = Some v -> exists k', In (k', v) l.
Proof.
  induction l as [|[k' v'] l IH]; [discriminate|]. cbn [alookup]. destruct (key_eqb k k').
  - intros H. injection H as ->. exists k'. left. reflexivity.
  - intros H. destruct (IH H) as (k2 & H2). exists k2. right. exact H2.
Qed.

Lemma keys_okt_merge_kvs : forall fuel top target other,
  keys_okt (Dict target) = true -> keys_okt (Dict other) = true -> keys_okt (Dict (merge_kvs fuel top target other)) = true.
Proof.
  induction fuel as [|f IH]; intros top target other Ht Ho; [exact Ht|]. cbn [merge_kvs].
  revert target Ht. induction other as [|[k ov] other IHo]; intros target Ht; [exact Ht|].
  rewrite keys_okt_dict in Ho. cbn [forallb fst snd] in Ho. apply andb_true_iff in Ho. destruct Ho as [Ho1 Ho2].
  apply andb_true_iff in Ho1. destruct Ho1 as [Hk Hov]. rewrite <- keys_okt_dict in Ho2.
  cbn [fold_left]. apply IHo; [exact Ho2|].
  destruct (alookup k target) as [tv|] eqn:El; [|destruct ov; apply keys_okt_aset; assumption].
  assert (Hleaf : keys_okt (Dict (match top with
                     | Some exprs => if circular k (insert_expression tv exprs) then aset k ov target else target
                     | None => target end)) = true).
  { destruct top as [exprs|]; [|exact Ht]. destruct (circular k (insert_expression tv exprs)); [apply keys_okt_aset; assumption|exact Ht]. }
  destruct tv as [x|tsub|tl]; [destruct ov; exact Hleaf| |destruct ov; exact Hleaf].
  destruct ov as [y|osub|ol]; [exact Hleaf| |exact Hleaf].
  apply keys_okt_aset; [exact Hk| |exact Ht]. apply IH; [|exact Hov].
  destruct (alookup_in _ _ _ El) as (k' & Hin). exact (keys_okt_child target k' (Dict tsub) Ht Hin).
Qed.

Lemma depth_Rkvs d m : depth (Dict (Rkv d (Rt d) m)) = depth (Dict m).
Proof. rewrite <- Rt_dict. apply depth_R. Qed.

(* sdicts without expression entries (sources free of dollar signs) *)
Lemma sd_merge_R d s m o : sd_expr s = [] ->
  keys_okt (Dict (sd_data s)) = true -> keys_okt (Dict m) = true ->
  sd_merge (Rsd d s) (Rkv d (Rt d) m) (Some (Rsd d o)) = Rsd d (sd_merge s m (Some o)).
Proof.
  intros He Hs Hm. unfold sd_merge. cbn [Rsd sd_data sd_lc sd_bc sd_inc sd_expr]. rewrite depth_Rkvs. rewrite He.
  change (rtab (Rex d) (shift d) []) with (@nil (N * expr_entry)).
  rewrite (merge_kvs_R d _ (Some []) (sd_data s) m (or_intror eq_refl)).
  rewrite (tmerge_R (rename_str d) (shift d) (shift_eqb d)), (tmerge_R (rename_str d) (fun j => j) (fun i j => eq_refl)),
    (tmerge_R (Rinc d) (shift d) (shift_eqb d)).
  change (tmerge [] (rtab (Rex d) (shift d) (sd_expr o))) with (tmerge (rtab (Rex d) (shift d) []) (rtab (Rex d) (shift d) (sd_expr o))).
  rewrite (tmerge_R (Rex d) (shift d) (shift_eqb d)).
  set (s1 := mkSD (merge_kvs (S (depth (Dict m))) (Some []) (sd_data s) m) (tmerge (sd_lc s) (sd_lc o)) (tmerge (sd_bc s) (sd_bc o))
                  (tmerge (sd_inc s) (sd_inc o)) (tmerge [] (sd_expr o))).
  change (mkSD (Rkv d (Rt d) (merge_kvs (S (depth (Dict m))) (Some []) (sd_data s) m)) (rtab (rename_str d) (shift d) (tmerge (sd_lc s) (sd_lc o)))
               (rtab (rename_str d) (fun j => j) (tmerge (sd_bc s) (sd_bc o))) (rtab (Rinc d) (shift d) (tmerge (sd_inc s) (sd_inc o)))
               (rtab (Rex d) (shift d) (tmerge [] (sd_expr o)))) with (Rsd d s1).
  apply sd_clean_R. cbn [s1 sd_data]. apply keys_okt_merge_kvs; assumption.
Qed.

(* ================================================================================================ *)
(* 3. paths                                                                                         *)
(* ================================================================================================ *)
Section Paths.
Variable d : Z.
Notation R := (rename_str d).

Lemma split_on_acc sep : forall (s cur : list N),
  split_on sep cur s = match split_on sep [] s with t :: ts => (rev cur ++ t) :: ts | [] => [] end.
Proof.
  induction s as [|c s IH]; intros cur.
  - cbn [split_on rev]. rewrite app_nil_r. reflexivity.
  - cbn [split_on]. destruct (c =? sep).
    + cbn [rev]. rewrite app_nil_r. reflexivity.
    + rewrite (IH (c :: cur)), (IH [c]). destruct (split_on sep [] s) as [|t ts]; [reflexivity|].
      cbn [rev app]. rewrite <- app_assoc. reflexivity.
Qed.
Lemma split_on_AN sep (u r cur : list N) : isAN sep = false -> forallb isAN u = true ->
  split_on sep cur (u ++ r) = split_on sep (rev u ++ cur) r.
Proof.
  intros Hs. revert cur. induction u as [|c u IH]; intros cur H; [reflexivity|]. cbn [forallb] in H. apply andb_true_iff in H. destruct H as [H1 H2].
  cbn [app split_on]. destruct (c =? sep) eqn:E; [apply N.eqb_eq in E; subst c; congruence|].
  rewrite IH by exact H2. cbn [rev]. rewrite <- app_assoc. reflexivity.
Qed.
Lemma anp_first_comp sep : isAN sep = false -> forall (s t : list N) ts, split_on sep [] s = t :: ts -> anp t = anp s.
Proof.
  intros Hs. induction s as [|c s IH]; intros t ts H.
  - cbn in H. injection H as <- _. reflexivity.
  - cbn [split_on] in H. destruct (c =? sep) eqn:E.
    + injection H as <- _. apply N.eqb_eq in E. subst c. rewrite anp_cons_nAN by exact Hs. reflexivity.
    + rewrite split_on_acc in H. destruct (split_on sep [] s) as [|t0 ts0] eqn:E0; [discriminate H|]. injection H as <- _.
      cbn [rev app]. destruct (isAN c) eqn:Ea; [rewrite !anp_cons_AN by exact Ea; rewrite (IH _ _ eq_refl); reflexivity
                                                |rewrite !anp_cons_nAN by exact Ea; reflexivity].
Qed.

Lemma split_on_R sep : isAN sep = false -> forall s : str, split_on sep [] (R s) = map R (split_on sep [] s).
Proof.
  intros Hs. induction s as [|c s Hn IH|w ds r Hin L D IH] using str_ph_ind.
  - reflexivity.
  - rewrite rename_char by exact Hn. cbn [split_on]. destruct (c =? sep) eqn:E.
    + rewrite IH. reflexivity.
    + rewrite (split_on_acc sep (R s)), (split_on_acc sep s), IH.
      destruct (split_on sep [] s) as [|t ts] eqn:E0; [reflexivity|]. cbn [map rev app]. f_equal.
      symmetry. apply rename_char. rewrite <- Hn. apply ph_word_anp.
      destruct (isAN c) eqn:Ea; [rewrite !anp_cons_AN by exact Ea; rewrite (anp_first_comp sep Hs _ _ _ E0); reflexivity
                                |rewrite !anp_cons_nAN by exact Ea; reflexivity].
  - rewrite rename_ph by assumption.
    assert (Hb : shift d (dec_to_N ds) < 1000000) by (apply shift_lt; exact (dec6_bound ds L D)).
    rewrite !app_assoc. rewrite !split_on_AN by (try exact Hs; try apply AN_word_digits; try apply word_digits_AN; assumption).
    rewrite (split_on_acc sep (R r)), (split_on_acc sep r), IH.
    destruct (split_on sep [] r) as [|t ts]; [reflexivity|]. cbn [map]. rewrite !app_nil_r, !rev_involutive. f_equal.
    rewrite <- !app_assoc. symmetry. apply rename_ph; assumption.
Qed.

Lemma join_slash_R (comps : list (list N)) : R (flat_map (fun c => c_slash :: c) comps) = flat_map (fun c => c_slash :: c) (map R comps).
Proof.
  induction comps as [|c comps IH]; [reflexivity|]. cbn [flat_map map app]. rewrite R_cons by reflexivity. f_equal.
  rewrite <- IH. destruct comps as [|c2 comps]; [cbn [flat_map]; rewrite !app_nil_r; reflexivity|].
  cbn [flat_map app]. apply R_app_r. reflexivity.
Qed.

Lemma norm_components_R comps : norm_components (map R comps) = map R (norm_components comps).
Proof.
  unfold norm_components. rewrite map_rev. f_equal.
  set (F := fun (acc : list str) (c : str) =>
              if str_eqb c [] || str_eqb c [c_dot] then acc else if str_eqb c [c_dot; c_dot] then tl acc else c :: acc).
  assert (H : forall acc : list str, fold_left F (map R comps) (map R acc) = map R (fold_left F comps acc)).
  { induction comps as [|c comps IH]; intros acc; [reflexivity|].
    cbn [map fold_left]. unfold F at 2 4. rewrite !str_eqb_R by reflexivity.
    destruct (str_eqb c [] || str_eqb c [c_dot]); [apply IH|]. destruct (str_eqb c [c_dot; c_dot]).
    - rewrite <- IH. f_equal. destruct acc; reflexivity.
    - apply (IH (c :: acc)). }
  exact (H []).
Qed.

Lemma norm_path_R p : norm_path (R p) = R (norm_path p).
Proof. unfold norm_path. rewrite (split_on_R c_slash eq_refl), norm_components_R, join_slash_R. reflexivity. Qed.

Lemma dir_of_R p : dir_of (R p) = R (dir_of p).
Proof.
  unfold dir_of. rewrite (split_on_R c_slash eq_refl), join_slash_R. f_equal. rewrite <- removelast_map. f_equal.
  apply filter_map_comm. intros a. apply nonempty_R.
Qed.

Definition fs_keys_clean (fs : fsys) : bool := forallb (fun pu => cleanb (fst pu)) fs.

Lemma fs_lookup_R fs p : fs_keys_clean fs = true -> fs_lookup (R p) fs = fs_lookup p fs.
Proof.
  induction fs as [|[q u] fs IH]; intros H; [reflexivity|]. cbn [fs_keys_clean forallb fst] in H. apply andb_true_iff in H. destruct H as [H1 H2].
  cbn [fs_lookup]. rewrite <- (rename_clean d q H1) at 1. rewrite rename_eqb. destruct (str_eqb p q); [reflexivity|exact (IH H2)].
Qed.

Lemma in_chain_R p chain : in_chain (R p) (map R chain) = in_chain p chain.
Proof. unfold in_chain. induction chain as [|q chain IH]; [reflexivity|]. cbn [map existsb]. rewrite rename_eqb, IH. reflexivity. Qed.

End Paths.

(* ================================================================================================ *)
(* 4. sdicts without expression entries and with regular placeholder keys                           *)
(* ================================================================================================ *)
Lemma clean_level_expr data s : sd_expr (snd (clean_level data s)) = sd_expr s.
Proof.
  unfold clean_level. destruct (clean_kind str_eqb (keys_of_kind PhBlock data) data (sd_bc s) []) as [d1 bc].
  destruct (clean_kind inc_eqb (keys_of_kind PhInclude data) d1 (sd_inc s) []) as [d2 inc].
  destruct (clean_kind str_eqb (keys_of_kind PhLine data) d2 (sd_lc s) []) as [d3 lc]. reflexivity.
Qed.

Lemma clean_tree_expr : forall fuel data s, sd_expr (snd (clean_tree fuel data s)) = sd_expr s.
Proof.
  induction fuel as [|f IH]; intros data s; [reflexivity|]. rewrite SDictProofs.clean_tree_S.
  assert (G : forall l dacc sacc, sd_expr (snd (fold_left (SDictProofs.cstep f) l (dacc, sacc))) = sd_expr sacc).
  { induction l as [|[k v] l IHl]; intros dacc sacc; [reflexivity|].
    cbn [fold_left]. unfold SDictProofs.cstep at 2. cbn [fst snd]. destruct v as [x|sub|ts]; try apply IHl.
    pose proof (IH sub sacc) as Hs. destruct (clean_tree f sub sacc) as [sub' s']. cbn [snd] in Hs. rewrite IHl. exact Hs. }
  pose proof (clean_level_expr data s) as H. destruct (clean_level data s) as [d0 s1]. cbn [fst snd] in *. rewrite G. exact H.
Qed.

Lemma sd_clean_expr s : sd_expr (sd_clean s) = sd_expr s.
Proof.
  unfold sd_clean. pose proof (clean_tree_expr (S (depth (Dict (sd_data s)))) (sd_data s) s) as H.
  destruct (clean_tree (S (depth (Dict (sd_data s)))) (sd_data s) s) as [dd s']. exact H.
Qed.

Definition good (s : sdict) : Prop := sd_expr s = [] /\ keys_okt (Dict (sd_data s)) = true.

Lemma good_empty : good sd_empty.
Proof. split; reflexivity. Qed.

Lemma tmerge_nil_nil {V} : @tmerge V [] [] = [].
Proof. reflexivity. Qed.

Lemma sd_merge_good s o : good s -> good o -> good (sd_merge s (sd_data o) (Some o)).
Proof.
  intros [Es Ks] [Eo Ko]. unfold sd_merge. split.
  - rewrite sd_clean_expr. cbn [sd_expr]. rewrite Es, Eo. reflexivity.
  - apply keys_okt_sd_clean. cbn [sd_data]. apply keys_okt_merge_kvs; assumption.
Qed.

Lemma parse_string_count dir c text pr : parse_string true dir c text = Ok pr -> pr_count pr = lxd_count (lex true dir c text).
Proof.
  unfold parse_string. destruct (parse_tokens (lxd_tokens (lex true dir c text))) as [d0|e]; [|discriminate]. cbn [bind].
  destruct (insert_string_literals _ _) as [d1|e]; [|discriminate]. cbn [bind]. intros H. injection H as <-. reflexivity.
Qed.

Lemma parse_string_good dir c text pr : parse_side (lex true dir c text) = true -> lxd_expr (lex true dir c text) = [] ->
  parse_string true dir c text = Ok pr -> good (pr_sd pr).
Proof.
  intros Hside Hex. unfold parse_string. set (lx := lex true dir c text) in *. unfold parse_side in Hside.
  destruct (parse_tokens (lxd_tokens lx)) as [d0|e] eqn:Ept; [|discriminate]. cbn [bind].
  apply andb_true_iff in Hside. destruct Hside as [Hk Hl].
  pose proof (ParserFuelProofs.parse_tokens_wf _ _ Ept) as Hwf0.
  set (s0 := sd_clean (mkSD d0 (lxd_lc lx) (lxd_bc lx) (lxd_inc lx) (lxd_expr lx))).
  assert (Hwf : wf (Dict (sd_data s0)) = true) by (apply ParserFuelProofs.sd_clean_wf; exact Hwf0).
  assert (Hk0 : keys_okt (Dict (sd_data s0)) = true) by (apply keys_okt_sd_clean; exact Hk).
  destruct (insert_string_literals (lxd_lit lx) (sd_data s0)) as [d1|e] eqn:Ei; [|discriminate]. cbn [bind].
  assert (Hk1 : keys_okt (Dict d1) = true).
  { rewrite (isl_eq _ _ Hwf Hl) in Ei. rewrite (isl_keys_okt _ _ _ Ei). exact Hk0. }
  intros H. injection H as <-. cbn [pr_sd]. split.
  - rewrite sd_clean_expr. cbn [sd_expr]. unfold s0. rewrite sd_clean_expr. exact Hex.
  - apply keys_okt_sd_clean. cbn [sd_data]. unfold parser_clean. rewrite !keys_okt_dict. apply forallb_adel. apply forallb_adel.
    rewrite <- keys_okt_dict. exact Hk1.
Qed.

Lemma crel_ok c1 c2 c c' : counter_ok c1 -> counter_ok c2 -> crel c1 c2 c c' -> counter_ok c /\ counter_ok c'.
Proof.
  intros H1 H2 (n & -> & ->). destruct n as [|n]; [split; assumption|].
  pose proof (counter_range n c1 H1). pose proof (counter_range n c2 H2). unfold counter_ok. split; lia.
Qed.

(* ================================================================================================ *)
(* 5. _merge_includes                                                                               *)
(* ================================================================================================ *)
Definition inc_step (f : nat) (fs : fsys) (chain : list str) (acc : res (sdict * Z)) (e : N * include_entry) : res (sdict * Z) :=
  bind acc (fun tc =>
  let '(temp, c) := tc in
  let '(_, (_, _, path)) := e in
  let resolved := norm_path path in
  if in_chain resolved chain then Ok (temp, c)
  else match fs_lookup resolved fs with
       | None => Ok (temp, c)
       | Some u =>
           bind (parse_unit true path c u) (fun pr =>
           let inc := pr_sd pr in
           bind (match sd_inc inc with
                 | [] => Ok (inc, pr_count pr)
                 | _ => merge_includes_rec f fs true (chain ++ [resolved]) inc (pr_count pr)
                 end) (fun ic =>
           let '(inc', c') := ic in
           let temp1 := match sd_inc inc with
                        | [] => temp
                        | _ => sd_merge temp (sd_data inc') (Some inc')
                        end in
           Ok (sd_merge temp1 (sd_data inc') (Some inc'), c')))
       end).

Lemma merge_includes_rec_S f fs chain parent count :
  merge_includes_rec (S f) fs true chain parent count =
  bind (fold_left (inc_step f fs chain) (sd_inc parent) (Ok (sd_empty, count)))
       (fun tc => let '(temp, c) := tc in Ok (sd_merge parent (sd_data temp) (Some temp), c)).
Proof. reflexivity. Qed.

Definition file_okb (pu : str * funit) : bool := match snd pu with FNative text => file_ok text | FJson _ => false end.
Definition fs_ok (fs : fsys) : bool := fs_keys_clean fs && forallb file_okb fs.

Lemma fs_lookup_ok fs p u : forallb file_okb fs = true -> fs_lookup p fs = Some u -> exists text, u = FNative text /\ file_ok text = true.
Proof.
  induction fs as [|[q v] fs IH]; intros H Hl; [discriminate Hl|]. cbn [forallb] in H. apply andb_true_iff in H. destruct H as [H1 H2].
  cbn [fs_lookup] in Hl. destruct (str_eqb p q); [|exact (IH H2 Hl)]. injection Hl as <-.
  unfold file_okb in H1. cbn [snd] in H1. destruct v as [text|t]; [exists text; split; [reflexivity|exact H1]|discriminate H1].
Qed.

Section Merge.
Variables (d c1 c2 : Z).
Hypothesis H1 : counter_ok c1.
Hypothesis H2 : counter_ok c2.
Hypothesis Hd : d = (c2 - c1)%Z.
Variable fs : fsys.
Hypothesis Hfs : fs_ok fs = true.
Notation R := (rename_str d).
Notation CR := (crel c1 c2).

Definition resrel (r r' : res (sdict * Z)) : Prop :=
  match r, r' with
  | Ok (s, k), Ok (s', k') => s' = Rsd d s /\ CR k k' /\ good s
  | Raise e, Raise e' => e = e'
  | _, _ => False
  end.

Lemma Hkeys : fs_keys_clean fs = true.
Proof. unfold fs_ok in Hfs. apply andb_true_iff in Hfs. exact (proj1 Hfs). Qed.
Lemma Hfiles : forallb file_okb fs = true.
Proof. unfold fs_ok in Hfs. apply andb_true_iff in Hfs. exact (proj2 Hfs). Qed.

Lemma sd_inc_nil_R s : match sd_inc (Rsd d s) with [] => true | _ => false end = match sd_inc s with [] => true | _ => false end.
Proof. cbn [Rsd sd_inc]. destruct (sd_inc s); reflexivity. Qed.

Lemma parse_unit_R path c c' text : CR c c' -> file_ok text = true ->
  match parse_unit true path c (FNative text), parse_unit true (R path) c' (FNative text) with
  | Ok pr, Ok pr' => pr_sd pr' = Rsd d (pr_sd pr) /\ CR (pr_count pr) (pr_count pr') /\ good (pr_sd pr)
  | Raise e, Raise e' => e = e'
  | _, _ => False
  end.
Proof.
  intros Hc Hf. cbn [parse_unit]. rewrite dir_of_R.
  destruct (crel_ok c1 c2 c c' H1 H2 Hc) as [Hok _].
  destruct (file_ok_any text Hf (dir_of path) c Hok) as (Hcl & Hside & Hex).
  destruct (parse_string_R d c1 c2 H1 H2 Hd (dir_of path) text c c' Hc Hcl Hside) as (k' & Hk & E). rewrite E.
  destruct (parse_string true (dir_of path) c text) as [pr|e] eqn:Ep; [|reflexivity].
  cbn [map_res rename_parsed pr_sd pr_count]. split; [reflexivity|]. split.
  - rewrite (parse_string_count _ _ _ _ Ep). exact Hk.
  - exact (parse_string_good _ _ _ _ Hside Hex Ep).
Qed.

Lemma inc_step_R f chain :
  (forall chain0 parent c c', CR c c' -> good parent ->
      resrel (merge_includes_rec f fs true chain0 parent c) (merge_includes_rec f fs true (map R chain0) (Rsd d parent) c')) ->
  forall acc acc' i (e : include_entry), resrel acc acc' ->
  resrel (inc_step f fs chain acc (i, e)) (inc_step f fs (map R chain) acc' (shift d i, Rinc d e)).
Proof.
  intros IH acc acc' i [[a b] path] Hr. unfold inc_step.
  destruct acc as [[temp c]|err]; destruct acc' as [[temp' c']|err']; cbn [resrel] in Hr; try contradiction; [|cbn [bind resrel]; exact Hr].
  destruct Hr as (-> & Hc & Hg). cbn [bind Rinc]. rewrite norm_path_R, in_chain_R.
  destruct (in_chain (norm_path path) chain); [cbn [resrel]; split; [reflexivity|split; assumption]|].
  rewrite (fs_lookup_R d fs _ Hkeys).
  destruct (fs_lookup (norm_path path) fs) as [u|] eqn:El; [|cbn [resrel]; split; [reflexivity|split; assumption]].
  destruct (fs_lookup_ok fs _ _ Hfiles El) as (text & -> & Hf).
  pose proof (parse_unit_R path c c' text Hc Hf) as Hp.
  destruct (parse_unit true path c (FNative text)) as [pr|e1]; destruct (parse_unit true (R path) c' (FNative text)) as [pr'|e1'];
    try contradiction; [|cbn [bind resrel]; exact Hp].
  destruct Hp as (Epr & Hcp & Hgp). cbn [bind]. rewrite Epr.
  assert (Hrec : resrel (match sd_inc (pr_sd pr) with
                         | [] => Ok (pr_sd pr, pr_count pr)
                         | _ => merge_includes_rec f fs true (chain ++ [norm_path path]) (pr_sd pr) (pr_count pr) end)
                        (match sd_inc (Rsd d (pr_sd pr)) with
                         | [] => Ok (Rsd d (pr_sd pr), pr_count pr')
                         | _ => merge_includes_rec f fs true (map R chain ++ [R (norm_path path)]) (Rsd d (pr_sd pr)) (pr_count pr') end)).
  { change (sd_inc (Rsd d (pr_sd pr))) with (rtab (Rinc d) (shift d) (sd_inc (pr_sd pr))).
    assert (Happ : map R chain ++ [R (norm_path path)] = map R (chain ++ [norm_path path])) by (rewrite map_app; reflexivity).
    rewrite Happ. destruct (sd_inc (pr_sd pr)) as [|x l]; cbn [rtab map].
    - cbn [resrel]. split; [reflexivity|split; assumption].
    - apply IH; assumption. }
  pose proof (sd_inc_nil_R (pr_sd pr)) as Hnil.
  destruct (match sd_inc (pr_sd pr) with
            | [] => Ok (pr_sd pr, pr_count pr)
            | _ => merge_includes_rec f fs true (chain ++ [norm_path path]) (pr_sd pr) (pr_count pr) end) as [[inc1 k1]|e2];
  destruct (match sd_inc (Rsd d (pr_sd pr)) with
            | [] => Ok (Rsd d (pr_sd pr), pr_count pr')
            | _ => merge_includes_rec f fs true (map R chain ++ [R (norm_path path)]) (Rsd d (pr_sd pr)) (pr_count pr') end) as [[inc1' k1']|e2'];
    cbn [resrel] in Hrec; try contradiction; [|cbn [bind resrel]; exact Hrec].
  destruct Hrec as (-> & Hc1 & Hg1). cbn [bind resrel].
  assert (Hm : forall t, good t -> sd_merge (Rsd d t) (sd_data (Rsd d inc1)) (Some (Rsd d inc1)) = Rsd d (sd_merge t (sd_data inc1) (Some inc1))).
  { intros t [Et Kt]. cbn [Rsd sd_data]. apply sd_merge_R; [exact Et|exact Kt|exact (proj2 Hg1)]. }
  destruct (sd_inc (Rsd d (pr_sd pr))) as [|x' l'] eqn:Ei'; destruct (sd_inc (pr_sd pr)) as [|x l] eqn:Ei; try discriminate Hnil.
  - split; [apply Hm; exact Hg|]. split; [exact Hc1|apply sd_merge_good; assumption].
  - assert (Hg2 : good (sd_merge temp (sd_data inc1) (Some inc1))) by (apply sd_merge_good; assumption).
    split; [rewrite (Hm temp Hg); apply Hm; exact Hg2|]. split; [exact Hc1|apply sd_merge_good; assumption].
Qed.

Lemma merge_includes_rec_R : forall f chain parent c c', CR c c' -> good parent ->
  resrel (merge_includes_rec f fs true chain parent c) (merge_includes_rec f fs true (map R chain) (Rsd d parent) c').
Proof.
  induction f as [|f IH]; intros chain parent c c' Hc Hg; [reflexivity|].
  rewrite !merge_includes_rec_S.
  assert (Hfold : forall incs acc acc', resrel acc acc' ->
            resrel (fold_left (inc_step f fs chain) incs acc) (fold_left (inc_step f fs (map R chain)) (rtab (Rinc d) (shift d) incs) acc')).
  { induction incs as [|[i e] incs IHi]; intros acc acc' Hr; [exact Hr|].
    rewrite rtab_cons. cbn [fold_left]. apply IHi. apply inc_step_R; [exact IH|exact Hr]. }
  specialize (Hfold (sd_inc parent) (Ok (sd_empty, c)) (Ok (sd_empty, c'))).
  cbn [Rsd sd_inc]. change (Rkv d (Rt d) (sd_data parent)) with (sd_data (Rsd d parent)).
  assert (H0 : resrel (Ok (sd_empty, c)) (Ok (sd_empty, c'))) by (cbn [resrel]; split; [reflexivity|split; [exact Hc|exact good_empty]]).
  specialize (Hfold H0).
  destruct (fold_left (inc_step f fs chain) (sd_inc parent) (Ok (sd_empty, c))) as [[temp k]|e];
    destruct (fold_left (inc_step f fs (map R chain)) (rtab (Rinc d) (shift d) (sd_inc parent)) (Ok (sd_empty, c'))) as [[temp' k']|e'];
    cbn [resrel] in Hfold; try contradiction; [|exact Hfold].
  destruct Hfold as (-> & Hk & Hgt). cbn [bind resrel]. split; [|split; [exact Hk|apply sd_merge_good; assumption]].
  change (mkSD (sd_data (Rsd d parent)) (rtab R (shift d) (sd_lc parent)) (rtab R (fun j => j) (sd_bc parent))
               (rtab (Rinc d) (shift d) (sd_inc parent)) (rtab (Rex d) (shift d) (sd_expr parent))) with (Rsd d parent).
  cbn [Rsd sd_data]. apply sd_merge_R; [exact (proj1 Hg)|exact (proj2 Hg)|exact (proj2 Hgt)].
Qed.

Lemma merge_includes_R parent c c' : CR c c' -> good parent ->
  resrel (merge_includes fs true parent c) (merge_includes fs true (Rsd d parent) c').
Proof.
  intros Hc Hg. unfold merge_includes. pose proof (merge_includes_rec_R (S (length fs)) [] parent c c' Hc Hg) as Hr.
  cbn [map] in Hr.
  destruct (merge_includes_rec (S (length fs)) fs true [] parent c) as [[p k]|e];
    destruct (merge_includes_rec (S (length fs)) fs true [] (Rsd d parent) c') as [[p' k']|e']; cbn [resrel] in Hr; try contradiction; [|exact Hr].
  destruct Hr as (-> & Hk & Hgp). cbn [bind resrel]. split; [|split; [exact Hk|apply sd_merge_good; assumption]].
  cbn [Rsd sd_data]. apply sd_merge_R; [exact (proj1 Hgp)|exact (proj2 Hgp)|exact (proj2 Hgp)].
Qed.

End Merge.

(* ================================================================================================ *)
(* 6. DictReader.read with include merging                                                          *)
(* ================================================================================================ *)
(* side conditions: comments are kept; every file of the file system is a native file without placeholder names and
   without references (file_ok, checked at the fresh counter; it then holds at every counter: file_ok_any); the keys of
   the file system (normalised paths) and the spelling of the root path contain no placeholder names *)
Theorem read_counter_independent_inc : forall fs root c1 c2,
  counter_ok c1 -> counter_ok c2 -> fs_ok fs = true -> cleanb root = true ->
  exists n,
    read_plain fs root true true c2 = map_res (rename_read (c2 - c1) (counter_iter n c2)) (read_plain fs root true true c1) /\
    (forall s k, read_plain fs root true true c1 = Ok (s, k) -> k = counter_iter n c1).
Proof.
  intros fs root c1 c2 H1 H2 Hfs Hroot. set (d := (c2 - c1)%Z). unfold read_plain.
  destruct (fs_lookup (norm_path root) fs) as [u|] eqn:El; [|exists O; split; [reflexivity|discriminate]].
  assert (Hfiles : forallb file_okb fs = true) by (unfold fs_ok in Hfs; apply andb_true_iff in Hfs; exact (proj2 Hfs)).
  destruct (fs_lookup_ok fs _ _ Hfiles El) as (text & -> & Hf).
  pose proof (parse_unit_R d c1 c2 H1 H2 eq_refl root c1 c2 text (crel_start c1 c2) Hf) as Hp.
  rewrite (rename_clean d root Hroot) in Hp.
  destruct (parse_unit true root c1 (FNative text)) as [pr|e]; destruct (parse_unit true root c2 (FNative text)) as [pr'|e'];
    try contradiction; [|exists O; subst e'; split; [reflexivity|discriminate]].
  destruct Hp as (Epr & Hcp & Hgp). cbn [bind]. rewrite Epr.
  pose proof (merge_includes_R d c1 c2 H1 H2 eq_refl fs Hfs (pr_sd pr) (pr_count pr) (pr_count pr') Hcp Hgp) as Hm.
  destruct (merge_includes fs true (pr_sd pr) (pr_count pr)) as [[s k]|e];
    destruct (merge_includes fs true (Rsd d (pr_sd pr)) (pr_count pr')) as [[s' k']|e']; cbn [resrel] in Hm;
    try contradiction; [|exists O; subst e'; split; [reflexivity|discriminate]].
  destruct Hm as (-> & (n & -> & ->) & _). exists n. cbn [bind map_res rename_read fst snd]. split; [reflexivity|].
  intros s0 k0 E. injection E as _ <-. reflexivity.
Qed.

(* the parser's side condition can be checked under either counter *)
Lemma parse_side_counter_independent c1 c2 dir text :
  counter_ok c1 -> counter_ok c2 -> cleanb text = true -> cleanb dir = true ->
  parse_side (lex true dir c2 text) = parse_side (lex true dir c1 text).
Proof.
  intros H1 H2 Ht Hd. destruct (lex_counter_independent c1 c2 dir text H1 H2 Ht Hd) as (n & _ & E & Hid).
  rewrite E. apply parse_side_R. exact Hid.
Qed.
