(* C08, counter independence of reading.
   Starting the process-global placeholder counter at c2 instead of c1 changes the result of lexing / parsing / reading a
   text only by the renaming  id |-> (id + (c2 - c1)) mod 10^6  of the ids of the LINECOMMENT / INCLUDE / STRINGLITERAL /
   EXPRESSION placeholders (BLOCKCOMMENT ids are numbered from 0 in every parse and do not move).  The renaming acts on
   tokens, keys, string leaves, the ids of the side tables and the placeholder names stored inside table entries.

   Vocabulary (CounterBase / CounterLex / CounterParse):
     shift d i            the renamed id
     rename_str d s       every occurrence of one of the four words + six digits in s gets its id shifted
     rename_tree d t      = Rt d t : keys and string leaves renamed
     rename_sd d s        = Rsd d s : data, the ids of lc / inc / expr tables (bc ids stay), the contents of all four tables
     rename_lexed d lx k  tokens and tables renamed, counter k *)
From Coq Require Import String.
From Coq Require Import NArith ZArith Bool Lia ZifyBool ZifyN ZifyNat.
From DictIO Require Import Chars Str Value Scalar KeyPath SDict Lexer TokParser Reader MiscSpec CliProofs.
From DictIO Require ScalarProofs TokProofs SDictProofs KeyPathProofs ParserFuelProofs E2EInsert E2EHoles.
From DictIO Require Import CounterBase CounterLex CounterParse CounterInsert.
From Coq Require Import List.
Import ListNotations.
Open Scope N_scope.

Definition rename_tree := Rt.
Definition rename_kvs (d : Z) := Rkv d (Rt d).
Definition rename_sd := Rsd.

(* ================================================================================================ *)
(* 1. the lexer                                                                                     *)
(* ================================================================================================ *)
(* side conditions: the source text (and the directory the include paths are joined to) contain none of the four
   renamed words followed by six digits -- cleanb; comments are kept (the reader's default) *)
Theorem lex_counter_independent : forall c1 c2 dir text,
  counter_ok c1 -> counter_ok c2 -> cleanb text = true -> cleanb dir = true ->
  exists n,
    lxd_count (lex true dir c1 text) = counter_iter n c1 /\
    lex true dir c2 text = rename_lexed (c2 - c1) (lex true dir c1 text) (counter_iter n c2) /\
    Forall idok (lxd_lit (lex true dir c1 text)).
Proof.
  intros c1 c2 dir text H1 H2 Ht Hd.
  destruct (lex_R (c2 - c1) c1 c2 H1 H2 eq_refl dir text c1 c2 (crel_start c1 c2) Ht) as (k' & E & (n & En1 & En2) & Hids).
  exists n. rewrite (rename_clean _ dir Hd) in E. rewrite E, En2. repeat split; assumption.
Qed.

(* ================================================================================================ *)
(* 2. parse_string                                                                                  *)
(* ================================================================================================ *)
(* side conditions on the first run, both invariant under the renaming (so they hold for the second run as well):
   - keys_okt: in every key that counts as a comment / include placeholder, the first run of six digits -- which is what
     SDict._clean takes for the id -- is the id of a placeholder of the right family (a renamed one for LINECOMMENT and
     INCLUDE keys, not a renamed one for BLOCKCOMMENT keys).  Without it the result DOES depend on the counter
     (C08_counter_dependence_finding in Properties/C08.v).
   - lits_own_ok: no string literal evaluates to a text that contains the literal's OWN placeholder -- the condition under
     which _insert_string_literals terminates (ParserFuelProofs.literal_ok). *)
Definition parse_side (lx : lexed) : bool :=
  match parse_tokens (lxd_tokens lx) with
  | Raise _ => true
  | Ok d0 => keys_okt (Dict d0) && lits_own_ok (lxd_lit lx)
  end.

Definition rename_parsed (d : Z) (k : Z) (p : parsed) : parsed := mkParsed (rename_sd d (pr_sd p)) k.

Lemma const_key_R d (s : list N) : cleanb s = true -> Rk d (KS s) = KS s.
Proof. intros H. cbn [Rk]. rewrite (rename_clean d s H). reflexivity. Qed.

Lemma parser_clean_R d data : parser_clean (Rkv d (Rt d) data) = Rkv d (Rt d) (parser_clean data).
Proof.
  unfold parser_clean.
  rewrite <- (const_key_R d (of_string "_variables") eq_refl), (adel_R d (Rt d)).
  rewrite <- (const_key_R d (of_string "_includes") eq_refl), (adel_R d (Rt d)). reflexivity.
Qed.

(* general form: any two counters that are the same number of draws away from c1 and c2, any directory *)
Lemma parse_string_R : forall d c1 c2, counter_ok c1 -> counter_ok c2 -> d = (c2 - c1)%Z ->
  forall dir text c c', crel c1 c2 c c' -> cleanb text = true -> parse_side (lex true dir c text) = true ->
  exists k', crel c1 c2 (lxd_count (lex true dir c text)) k' /\
    parse_string true (rename_str d dir) c' text = map_res (rename_parsed d k') (parse_string true dir c text).
Proof.
  intros d c1 c2 H1 H2 Hd dir text c c' Hc Ht Hside.
  destruct (lex_R d c1 c2 H1 H2 Hd dir text c c' Hc Ht) as (k' & E & Hk & Hids).
  exists k'. split; [exact Hk|]. unfold parse_string. rewrite E.
  set (lx := lex true dir c text) in *.
  cbn [rename_lexed lxd_tokens lxd_count lxd_lc lxd_bc lxd_inc lxd_expr lxd_lit].
  rewrite parse_tokens_R. unfold parse_side in Hside.
  destruct (parse_tokens (lxd_tokens lx)) as [d0|e] eqn:Ept; [|reflexivity]. cbn [bind map_res].
  apply andb_true_iff in Hside. destruct Hside as [Hk0' Hl].
  pose proof (ParserFuelProofs.parse_tokens_wf _ _ Ept) as Hwf0.
  set (s00 := mkSD d0 (lxd_lc lx) (lxd_bc lx) (lxd_inc lx) (lxd_expr lx)).
  change (mkSD (Rkv d (Rt d) d0) (rtab (rename_str d) (shift d) (lxd_lc lx)) (rtab (rename_str d) (fun j => j) (lxd_bc lx))
               (rtab (Rinc d) (shift d) (lxd_inc lx)) (rtab (Rex d) (shift d) (lxd_expr lx))) with (Rsd d s00).
  rewrite (sd_clean_R d s00 Hk0'). set (s0 := sd_clean s00).
  assert (Hwf : wf (Dict (sd_data s0)) = true) by (apply ParserFuelProofs.sd_clean_wf; exact Hwf0).
  assert (Hk0 : keys_okt (Dict (sd_data s0)) = true) by (apply keys_okt_sd_clean; exact Hk0').
  cbn [Rsd sd_data sd_lc sd_bc sd_inc sd_expr].
  rewrite (insert_string_literals_R' d (lxd_lit lx) (sd_data s0) Hwf Hl Hids).
  destruct (insert_string_literals (lxd_lit lx) (sd_data s0)) as [d1|e] eqn:Ei; [|reflexivity]. cbn [bind map_res].
  assert (Hk1 : keys_okt (Dict d1) = true).
  { rewrite (isl_eq _ _ Hwf Hl) in Ei. rewrite (isl_keys_okt _ _ _ Ei). exact Hk0. }
  rewrite parser_clean_R.
  set (s1 := mkSD (parser_clean d1) (sd_lc s0) (sd_bc s0) (sd_inc s0) (sd_expr s0)).
  change (mkSD (Rkv d (Rt d) (parser_clean d1)) (rtab (rename_str d) (shift d) (sd_lc s0))
               (rtab (rename_str d) (fun j => j) (sd_bc s0)) (rtab (Rinc d) (shift d) (sd_inc s0))
               (rtab (Rex d) (shift d) (sd_expr s0))) with (Rsd d s1).
  rewrite (sd_clean_R d s1); [reflexivity|].
  cbn [s1 sd_data]. unfold parser_clean. rewrite !keys_okt_dict. apply forallb_adel. apply forallb_adel. rewrite <- keys_okt_dict. exact Hk1.
Qed.

Theorem parse_counter_independent : forall c1 c2 dir text,
  counter_ok c1 -> counter_ok c2 -> cleanb text = true -> cleanb dir = true ->
  parse_side (lex true dir c1 text) = true ->
  exists n,
    lxd_count (lex true dir c1 text) = counter_iter n c1 /\
    parse_string true dir c2 text =
    map_res (rename_parsed (c2 - c1) (counter_iter n c2)) (parse_string true dir c1 text).
Proof.
  intros c1 c2 dir text H1 H2 Ht Hd Hside.
  destruct (parse_string_R (c2 - c1) c1 c2 H1 H2 eq_refl dir text c1 c2 (crel_start c1 c2) Ht Hside) as (k' & (n & En1 & En2) & E).
  exists n. split; [exact En1|]. rewrite (rename_clean _ dir Hd) in E. rewrite E, En2. reflexivity.
Qed.

(* ---- the ordinary data are literally equal --------------------------------------------------------- *)
Definition plain_key (k : key) : bool := match k with KS s => cleanb s | KI _ => true end.
Definition plain_leaf (t : tree) : bool :=
  match t with Leaf (SStr s) => cleanb s | Leaf (SFloat l) => cleanb l | _ => true end.
(* the entries whose key is no placeholder and whose value is no text with a placeholder in it, at every depth *)
Fixpoint ordinary_part (t : tree) : tree :=
  match t with
  | Leaf v => Leaf v
  | Dict kvs => Dict ((fix go (l : list (key * tree)) : list (key * tree) :=
                         match l with
                         | [] => []
                         | (k, c) :: l' => if plain_key k && plain_leaf c then (k, ordinary_part c) :: go l' else go l'
                         end) kvs)
  | Lst ts => Lst ((fix go (l : list tree) : list tree :=
                      match l with [] => [] | c :: l' => if plain_leaf c then ordinary_part c :: go l' else go l' end) ts)
  end.

Lemma cleanb_dsim (s t : list N) : dsim s t -> cleanb s = cleanb t.
Proof.
  induction 1 as [|a b s t Hab H IH]; [reflexivity|]. cbn [cleanb].
  rewrite (ph_word_dsim (a :: s) (b :: t)) by (constructor; assumption). rewrite IH. reflexivity.
Qed.
Lemma cleanb_R d s : cleanb (rename_str d s) = cleanb s.
Proof. symmetry. apply cleanb_dsim. apply dsim_rename. Qed.

Lemma plain_key_R d k : plain_key (Rk d k) = plain_key k.
Proof. destruct k; [reflexivity|]. apply cleanb_R. Qed.
Lemma plain_leaf_R d t : plain_leaf (Rt d t) = plain_leaf t.
Proof. destruct t as [[z|l|b| |s]|kvs|ts]; try reflexivity; cbn [Rt Rsc plain_leaf]; apply cleanb_R. Qed.

Theorem ordinary_part_R d : forall t, plain_leaf t = true -> ordinary_part (rename_tree d t) = ordinary_part t.
Proof.
  unfold rename_tree. induction t as [v|kvs IH|ts IH] using tree_ind'; intros Hp.
  - cbn [Rt ordinary_part]. f_equal. destruct v as [z|l|b| |s]; try reflexivity; cbn [Rsc plain_leaf] in *; f_equal; apply rename_clean; exact Hp.
  - rewrite Rt_dict. cbn [ordinary_part]. f_equal. clear Hp.
    induction IH as [|[k c] kvs Hc _ IHk]; [reflexivity|]. rewrite Rkv_cons. cbn [snd] in Hc.
    rewrite plain_key_R, plain_leaf_R. destruct (plain_key k && plain_leaf c) eqn:E; [|exact IHk].
    apply andb_true_iff in E. destruct E as [E1 E2]. rewrite (Hc E2), IHk. f_equal. f_equal.
    destruct k as [z|s]; [reflexivity|]. cbn [Rk]. f_equal. apply rename_clean. exact E1.
  - rewrite Rt_lst. cbn [ordinary_part]. f_equal. clear Hp.
    induction IH as [|c l Hc _ IHl]; [reflexivity|]. cbn [map]. rewrite plain_leaf_R.
    destruct (plain_leaf c) eqn:E; [rewrite (Hc eq_refl), IHl; reflexivity|exact IHl].
Qed.

Corollary ordinary_data_equal d data : ordinary_part (Dict (rename_kvs d data)) = ordinary_part (Dict data).
Proof. unfold rename_kvs. rewrite <- Rt_dict. apply (ordinary_part_R d (Dict data)). reflexivity. Qed.

(* ================================================================================================ *)
(* 3. read_plain without include merging, native root file                                          *)
(* ================================================================================================ *)
Lemma has_include_mark_dsim (s t : list N) : dsim s t -> has_include_mark s = has_include_mark t.
Proof.
  induction 1 as [|a b s t Hab H IH]; [reflexivity|]. cbn [has_include_mark].
  assert (Hd : dsim (a :: s) (b :: t)) by (constructor; assumption).
  rewrite (starts_with_dsim w_INCLUDE _ _ eq_refl Hd), IH. f_equal. f_equal.
  pose proof (dsim_drop (length w_INCLUDE) _ _ Hd) as Hdr.
  remember (drop_n (length w_INCLUDE) (a :: s)) as x1. remember (drop_n (length w_INCLUDE) (b :: t)) as x2.
  destruct Hdr as [|x y xs ys Hxy _]; [reflexivity|].
  rewrite (ds_digit _ _ Hxy), (ds_eqb c_semi eq_refl _ _ Hxy). reflexivity.
Qed.

Lemma remove_include_keys_R d data : remove_include_keys (Rkv d (Rt d) data) = Rkv d (Rt d) (remove_include_keys data).
Proof.
  unfold remove_include_keys, Rkv. apply filter_map_comm. intros [k v]. cbn [fst]. destruct k as [z|s]; [reflexivity|]. cbn [Rk].
  rewrite <- (has_include_mark_dsim s (rename_str d s) (dsim_rename d s)). reflexivity.
Qed.

Definition rename_read (d : Z) (k : Z) (r : sdict * Z) : sdict * Z := (rename_sd d (fst r), k).

Theorem read_counter_independent_noinc : forall fs root text c1 c2,
  counter_ok c1 -> counter_ok c2 ->
  fs_lookup (norm_path root) fs = Some (FNative text) ->
  cleanb text = true -> cleanb (dir_of root) = true ->
  parse_side (lex true (dir_of root) c1 text) = true ->
  exists n,
    lxd_count (lex true (dir_of root) c1 text) = counter_iter n c1 /\
    read_plain fs root false true c2 = map_res (rename_read (c2 - c1) (counter_iter n c2)) (read_plain fs root false true c1).
Proof.
  intros fs root text c1 c2 H1 H2 Hf Ht Hd Hs.
  destruct (parse_counter_independent c1 c2 (dir_of root) text H1 H2 Ht Hd Hs) as (n & En & E).
  exists n. split; [exact En|]. unfold read_plain. rewrite Hf. cbn [parse_unit]. rewrite E.
  destruct (parse_string true (dir_of root) c1 text) as [p|e]; [|reflexivity].
  cbn [map_res bind rename_parsed pr_sd pr_count rename_read fst snd]. f_equal. f_equal.
  unfold rename_sd, Rsd. cbn [sd_data sd_lc sd_bc sd_inc sd_expr]. rewrite remove_include_keys_R. reflexivity.
Qed.
