(* C08, path spelling: the result of a read depends on the SPELLING of the root path (dot and dot-dot components, doubled
   and trailing slashes) only through the normalised path and the normalised directory.
   1. path functions (split_on, norm_path, dir_of, path_join)
   2. SDict operations respect a relation on the include tables (paths related, everything else equal)
   3. the lexer / parse_string / json_parse / parse_unit under two directories
   4. read_plain, includes off and on
   5. read_opts, write_sd, parse_model *)
From Coq Require Import String.
From Coq Require Import NArith ZArith List Bool Lia.
From DictIO Require Import Chars Str Value Scalar KeyPath SDict Layout Lexer TokParser Reader.
From DictIO Require ScalarProofs SDictProofs IncludeProofs CounterRead.
Import ListNotations.
Open Scope N_scope.

(* ================================================================================================ *)
(* 1. paths                                                                                         *)
(* ================================================================================================ *)
Definition comps (p : str) : list str := split_on c_slash [] p.
Definition pjoin (cs : list str) : str := flat_map (fun c => c_slash :: c) cs.
Definition nosep (c : str) : Prop := Forall (fun x => (x =? c_slash) = false) c.
Definition pstep (acc : list str) (c : str) : list str :=
  if str_eqb c [] || str_eqb c [c_dot] then acc
  else if str_eqb c [c_dot; c_dot] then tl acc
  else c :: acc.
(* the stack of components norm_path builds, innermost first *)
Definition pstack (cs : list str) (st : list str) : list str := fold_left pstep cs st.
Definition dstack (p : str) : list str := pstack (comps p) [].

Lemma norm_path_stack p : norm_path p = pjoin (rev (dstack p)).
Proof. reflexivity. Qed.

Lemma pstack_app a b st : pstack (a ++ b) st = pstack b (pstack a st).
Proof. unfold pstack. apply fold_left_app. Qed.

Lemma split_app_sep sep : forall (a b cur : str),
  split_on sep cur (a ++ sep :: b) = split_on sep cur a ++ split_on sep [] b.
Proof.
  induction a as [|c a IH]; intros b cur.
  - cbn [app split_on]. rewrite N.eqb_refl. reflexivity.
  - cbn [app split_on]. destruct (c =? sep); [rewrite IH; reflexivity|apply IH].
Qed.

Lemma split_nosep : forall (c cur : str), nosep c -> split_on c_slash cur c = [rev cur ++ c].
Proof.
  induction c as [|x c IH]; intros cur H.
  - cbn [split_on]. rewrite app_nil_r. reflexivity.
  - inversion H as [|x' c' Hx Hc]; subst. cbn [split_on]. rewrite Hx. rewrite IH by exact Hc.
    cbn [rev]. rewrite <- app_assoc. reflexivity.
Qed.

Lemma split_parts_nosep : forall (s cur : str), nosep cur -> Forall nosep (split_on c_slash cur s).
Proof.
  induction s as [|x s IH]; intros cur Hc.
  - cbn [split_on]. constructor; [|constructor]. unfold nosep in *. apply Forall_rev. exact Hc.
  - cbn [split_on]. destruct (x =? c_slash) eqn:E.
    + constructor; [unfold nosep in *; apply Forall_rev; exact Hc|]. apply IH. constructor.
    + apply IH. constructor; assumption.
Qed.
Lemma comps_nosep p : Forall nosep (comps p).
Proof. apply split_parts_nosep. constructor. Qed.

Lemma comps_app_slash a b : comps (a ++ c_slash :: b) = comps a ++ comps b.
Proof. apply split_app_sep. Qed.

Lemma comps_join_head : forall cs c, nosep c -> Forall nosep cs -> comps (c ++ pjoin cs) = c :: cs.
Proof.
  induction cs as [|c' cs IH]; intros c Hc Hcs.
  - cbn [pjoin flat_map]. rewrite app_nil_r. unfold comps. rewrite split_nosep by exact Hc. reflexivity.
  - inversion Hcs as [|? ? Hc' Hcs']; subst. cbn [pjoin flat_map].
    change (c ++ (c_slash :: c') ++ flat_map (fun c0 => c_slash :: c0) cs) with (c ++ c_slash :: (c' ++ pjoin cs)).
    rewrite comps_app_slash. rewrite (IH c' Hc' Hcs'). unfold comps. rewrite split_nosep by exact Hc. reflexivity.
Qed.
Lemma comps_join cs : Forall nosep cs -> comps (pjoin cs) = [] :: cs.
Proof. intros H. apply (comps_join_head cs [] (Forall_nil _) H). Qed.

Lemma join_app a b : pjoin (a ++ b) = pjoin a ++ pjoin b.
Proof. unfold pjoin. apply flat_map_app. Qed.

Lemma join_inj a b : Forall nosep a -> Forall nosep b -> pjoin a = pjoin b -> a = b.
Proof. intros Ha Hb E. pose proof (comps_join a Ha) as E1. rewrite E, (comps_join b Hb) in E1. injection E1 as E1. symmetry. exact E1. Qed.

(* the stack only holds proper components *)
Lemma pstep_nosep st c : Forall nosep st -> nosep c -> Forall nosep (pstep st c).
Proof.
  intros Hs Hc. unfold pstep. destruct (str_eqb c [] || str_eqb c [c_dot]); [exact Hs|].
  destruct (str_eqb c [c_dot; c_dot]); [destruct st; [constructor|inversion Hs; assumption]|constructor; assumption].
Qed.
Lemma pstack_nosep : forall cs st, Forall nosep st -> Forall nosep cs -> Forall nosep (pstack cs st).
Proof.
  induction cs as [|c cs IH]; intros st Hs Hc; [exact Hs|]. inversion Hc; subst. cbn [pstack fold_left].
  apply IH; [apply pstep_nosep; assumption|assumption].
Qed.
Lemma dstack_nosep p : Forall nosep (dstack p).
Proof. apply pstack_nosep; [constructor|apply comps_nosep]. Qed.

Lemma norm_eq_stack p q : norm_path p = norm_path q <-> dstack p = dstack q.
Proof.
  rewrite !norm_path_stack. split.
  - intros E. apply join_inj in E; try (apply Forall_rev; apply dstack_nosep).
    rewrite <- (rev_involutive (dstack p)), E. apply rev_involutive.
  - intros ->. reflexivity.
Qed.

(* components that the stack keeps as they are *)
Definition properb (c : str) : bool := negb (str_eqb c [] || str_eqb c [c_dot] || str_eqb c [c_dot; c_dot]).
Lemma pstep_proper st c : properb c = true -> pstep st c = c :: st.
Proof.
  unfold properb, pstep. intros H. apply negb_true_iff in H. apply orb_false_iff in H. destruct H as [H1 H2].
  rewrite H1, H2. reflexivity.
Qed.
Lemma pstack_proper : forall cs st, forallb properb cs = true -> pstack cs st = rev cs ++ st.
Proof.
  induction cs as [|c cs IH]; intros st H; [reflexivity|]. cbn [forallb] in H. apply andb_true_iff in H. destruct H as [Hc Hcs].
  cbn [pstack fold_left]. rewrite (pstep_proper st c Hc). change (fold_left pstep cs (c :: st)) with (pstack cs (c :: st)).
  rewrite IH by exact Hcs. cbn [rev]. rewrite <- app_assoc. reflexivity.
Qed.
Lemma pstep_empty st : pstep st [] = st.
Proof. reflexivity. Qed.

(* empty components are invisible to the stack *)
Lemma pstack_filter : forall cs st, pstack (filter nonempty cs) st = pstack cs st.
Proof.
  induction cs as [|c cs IH]; intros st; [reflexivity|]. cbn [filter]. destruct c as [|x c].
  - cbn [nonempty pstack fold_left]. rewrite pstep_empty. apply IH.
  - cbn [nonempty pstack fold_left]. apply IH.
Qed.

(* ---- norm_path is idempotent ---------------------------------------------------------------------- *)
Lemma pstack_self : forall st, Forall nosep st -> forallb properb st = true -> dstack (pjoin (rev st)) = st.
Proof.
  intros st Hn Hp. unfold dstack. rewrite comps_join by (apply Forall_rev; exact Hn).
  cbn [pstack fold_left]. rewrite pstep_empty. change (fold_left pstep (rev st) []) with (pstack (rev st) []).
  rewrite pstack_proper.
  - rewrite rev_involutive, app_nil_r. reflexivity.
  - rewrite forallb_forall in *. intros x Hx. apply Hp. apply in_rev. exact Hx.
Qed.
Lemma pstep_properb st c : forallb properb st = true -> forallb properb (pstep st c) = true.
Proof.
  intros Hs. unfold pstep. destruct (str_eqb c [] || str_eqb c [c_dot]) eqn:E1; [exact Hs|].
  destruct (str_eqb c [c_dot; c_dot]) eqn:E2.
  - destruct st; [reflexivity|]. cbn [forallb tl] in *. apply andb_true_iff in Hs. exact (proj2 Hs).
  - cbn [forallb]. rewrite Hs, andb_true_r. unfold properb. rewrite E1, E2. reflexivity.
Qed.
Lemma pstack_properb : forall cs st, forallb properb st = true -> forallb properb (pstack cs st) = true.
Proof. induction cs as [|c cs IH]; intros st Hs; [exact Hs|]. cbn [pstack fold_left]. apply IH. apply pstep_properb. exact Hs. Qed.
Lemma dstack_properb p : forallb properb (dstack p) = true.
Proof. apply pstack_properb. reflexivity. Qed.

Lemma dstack_norm p : dstack (norm_path p) = dstack p.
Proof. rewrite norm_path_stack. apply pstack_self; [apply dstack_nosep|apply dstack_properb]. Qed.
Lemma norm_path_idem p : norm_path (norm_path p) = norm_path p.
Proof. apply norm_eq_stack. apply dstack_norm. Qed.

(* ---- dir_of and path_join --------------------------------------------------------------------------- *)
Definition ncomps (p : str) : list str := filter nonempty (comps p).
Lemma dir_of_ncomps p : dir_of p = pjoin (removelast (ncomps p)).
Proof. reflexivity. Qed.
Lemma ncomps_nosep p : Forall nosep (ncomps p).
Proof.
  unfold ncomps. pose proof (comps_nosep p) as H. induction H as [|c l Hc _ IH]; [constructor|].
  cbn [filter]. destruct (nonempty c); [constructor; assumption|assumption].
Qed.
Lemma ncomps_nonempty p : forallb nonempty (ncomps p) = true.
Proof. unfold ncomps. induction (comps p) as [|c l IH]; [reflexivity|]. cbn [filter]. destruct (nonempty c) eqn:E; [cbn [forallb]; rewrite E, IH|]; auto. Qed.
Lemma dstack_ncomps p : dstack p = pstack (ncomps p) [].
Proof. unfold dstack, ncomps. symmetry. apply pstack_filter. Qed.

(* a directory as dir_of returns it: slash-separated non-empty components *)
Definition is_dir (d : str) : Prop := exists cs, Forall nosep cs /\ forallb nonempty cs = true /\ d = pjoin cs.
Lemma removelast_Forall {A} (P : A -> Prop) (l : list A) : Forall P l -> Forall P (removelast l).
Proof. induction 1 as [|x l Hx Hl IH]; [constructor|]. cbn [removelast]. destruct l; [constructor|constructor; assumption]. Qed.
Lemma removelast_forallb {A} (p : A -> bool) (l : list A) : forallb p l = true -> forallb p (removelast l) = true.
Proof.
  induction l as [|x l IH]; intros H; [reflexivity|]. cbn [removelast]. destruct l as [|y l]; [reflexivity|].
  cbn [forallb] in *. apply andb_true_iff in H. destruct H as [Hx H]. rewrite Hx. apply IH. exact H.
Qed.
Lemma dir_of_is_dir p : is_dir (dir_of p).
Proof.
  exists (removelast (ncomps p)). split; [apply removelast_Forall, ncomps_nosep|].
  split; [apply removelast_forallb, ncomps_nonempty|reflexivity].
Qed.
Lemma filter_id {A} (p : A -> bool) (l : list A) : forallb p l = true -> filter p l = l.
Proof. induction l as [|x l IH]; intros H; [reflexivity|]. cbn [forallb] in H. apply andb_true_iff in H. destruct H as [Hx H]. cbn [filter]. rewrite Hx, IH by exact H. reflexivity. Qed.
Lemma ncomps_join cs : Forall nosep cs -> forallb nonempty cs = true -> ncomps (pjoin cs) = cs.
Proof. intros Hn Hne. unfold ncomps. rewrite comps_join by exact Hn. cbn [filter nonempty]. apply filter_id. exact Hne. Qed.
Lemma ncomps_dir_slash d n : is_dir d -> ncomps (d ++ c_slash :: n) = ncomps d ++ ncomps n.
Proof. intros _. unfold ncomps. rewrite comps_app_slash. apply filter_app. Qed.

(* an include name that is joined to the directory and names something below it textually: non-empty, relative *)
Definition rel_name (n : str) : bool := match n with [] => false | c :: _ => negb (c =? c_slash) end.
Lemma path_join_rel d n : rel_name n = true -> path_join d n = d ++ c_slash :: n.
Proof. destruct n as [|c n]; [discriminate|]. cbn [rel_name path_join]. intros H. apply negb_true_iff in H. rewrite H. reflexivity. Qed.
Lemma split_on_not_nil sep : forall (s cur : str), split_on sep cur s <> [].
Proof. induction s as [|x s IH]; intros cur; cbn [split_on]; [discriminate|]. destruct (x =? sep); [discriminate|apply IH]. Qed.
Lemma ncomps_rel_name n : rel_name n = true -> ncomps n <> [].
Proof.
  destruct n as [|c n]; [discriminate|]. cbn [rel_name]. intros H. apply negb_true_iff in H.
  unfold ncomps, comps. cbn [split_on]. rewrite H. rewrite CounterRead.split_on_acc.
  pose proof (split_on_not_nil c_slash n []) as Hn.
  destruct (split_on c_slash [] n) as [|t ts]; [congruence|]. cbn [rev app filter nonempty]. discriminate.
Qed.

Lemma dir_of_join d n : is_dir d -> rel_name n = true ->
  dir_of (d ++ c_slash :: n) = d ++ pjoin (removelast (ncomps n)).
Proof.
  intros Hd Hn. rewrite dir_of_ncomps, (ncomps_dir_slash d n Hd).
  rewrite removelast_app by (apply ncomps_rel_name; exact Hn). rewrite join_app.
  destruct Hd as (cs & H1 & H2 & ->). rewrite ncomps_join by assumption. reflexivity.
Qed.

Lemma dstack_slash d n : dstack (d ++ c_slash :: n) = pstack (comps n) (dstack d).
Proof. unfold dstack. rewrite comps_app_slash. apply pstack_app. Qed.

Lemma dstack_dir_app d ts : Forall nosep ts -> dstack (d ++ pjoin ts) = pstack ts (dstack d).
Proof.
  intros H. destruct ts as [|t ts]; [cbn [pjoin flat_map pstack fold_left]; rewrite app_nil_r; reflexivity|].
  inversion H as [|? ? Ht Hts]; subst. cbn [pjoin flat_map].
  change ((c_slash :: t) ++ flat_map (fun c => c_slash :: c) ts) with (c_slash :: (t ++ pjoin ts)).
  rewrite dstack_slash. rewrite comps_join_head by assumption. reflexivity.
Qed.

(* (1) the file an include directive names depends on the including file's directory only through its normal form *)
Lemma norm_path_join d1 d2 n : norm_path d1 = norm_path d2 -> norm_path (path_join d1 n) = norm_path (path_join d2 n).
Proof.
  intros E. destruct n as [|c n]; [exact E|]. cbn [path_join]. destruct (c =? c_slash); [reflexivity|].
  apply norm_eq_stack. apply norm_eq_stack in E. cbn [app]. rewrite !dstack_slash, E. reflexivity.
Qed.
Lemma norm_path_join_iff d1 d2 :
  (forall n, norm_path (path_join d1 n) = norm_path (path_join d2 n)) <-> norm_path d1 = norm_path d2.
Proof. split; [intros H; exact (H [])|intros E n; apply norm_path_join; exact E]. Qed.

(* the two spellings name the same file and, textually, the same directory *)
Definition same_file (r1 r2 : str) : bool :=
  str_eqb (norm_path r1) (norm_path r2) && str_eqb (norm_path (dir_of r1)) (norm_path (dir_of r2)).
Lemma same_file_spec r1 r2 : same_file r1 r2 = true <->
  norm_path r1 = norm_path r2 /\ norm_path (dir_of r1) = norm_path (dir_of r2).
Proof. unfold same_file. rewrite andb_true_iff, !ScalarProofs.str_eqb_eq. reflexivity. Qed.

(* sufficient: the last non-empty component of both spellings is a proper name (not dot, not dot-dot) *)
Definition proper_last (r : str) : bool := properb (last (ncomps r) []).
Lemma dstack_dir_of r : dstack (dir_of r) = pstack (removelast (ncomps r)) [].
Proof.
  rewrite dir_of_ncomps. unfold dstack. rewrite comps_join by (apply removelast_Forall, ncomps_nosep).
  cbn [pstack fold_left]. rewrite pstep_empty. reflexivity.
Qed.
Lemma dstack_proper_last r : proper_last r = true -> dstack r = last (ncomps r) [] :: dstack (dir_of r).
Proof.
  unfold proper_last. intros H. rewrite dstack_ncomps, dstack_dir_of.
  destruct (ncomps r) as [|c l] eqn:E; [discriminate H|].
  assert (Hne : c :: l <> []) by discriminate.
  rewrite (app_removelast_last [] Hne) at 1. rewrite pstack_app. cbn [pstack fold_left].
  apply pstep_proper. exact H.
Qed.
Lemma same_file_proper r1 r2 : proper_last r1 = true -> proper_last r2 = true -> norm_path r1 = norm_path r2 ->
  same_file r1 r2 = true /\ last (ncomps r1) [] = last (ncomps r2) [].
Proof.
  intros H1 H2 E. pose proof E as E'. apply norm_eq_stack in E'.
  rewrite (dstack_proper_last r1 H1), (dstack_proper_last r2 H2) in E'. injection E' as El Ed.
  split; [|exact El]. apply same_file_spec. split; [exact E|]. apply norm_eq_stack. exact Ed.
Qed.

(* ================================================================================================ *)
(* 2. SDict operations respect a relation on the include tables                                      *)
(* ================================================================================================ *)
Section Tables.
  Context {V : Type} (VR : V -> V -> Prop).
  Definition trel (t1 t2 : list (N * V)) : Prop := Forall2 (fun a b => fst a = fst b /\ VR (snd a) (snd b)) t1 t2.
  Definition orel (a b : option V) : Prop :=
    match a, b with Some x, Some y => VR x y | None, None => True | _, _ => False end.

  Lemma trel_nil : trel [] [].
  Proof. constructor. Qed.
  Lemma trel_ids t1 t2 : trel t1 t2 -> map fst t1 = map fst t2.
  Proof. induction 1 as [|a b l1 l2 [H _] _ IH]; [reflexivity|]. cbn [map]. rewrite H, IH. reflexivity. Qed.
  Lemma tlookup_rel i t1 t2 : trel t1 t2 -> orel (tlookup i t1) (tlookup i t2).
  Proof.
    induction 1 as [|[j v] [j' v'] l1 l2 [H1 H2] _ IH]; [exact I|]. cbn [fst snd] in *. subst j'. cbn [tlookup].
    destruct (i =? j); [exact H2|exact IH].
  Qed.
  Lemma tset_rel i v1 v2 t1 t2 : VR v1 v2 -> trel t1 t2 -> trel (tset i v1 t1) (tset i v2 t2).
  Proof.
    intros Hv. induction 1 as [|[j v] [j' v'] l1 l2 [H1 H2] Hl IH]; [constructor; [split; [reflexivity|exact Hv]|constructor]|].
    cbn [fst snd] in *. subst j'. cbn [tset]. destruct (i =? j).
    - constructor; [split; [reflexivity|exact Hv]|exact Hl].
    - constructor; [split; [reflexivity|exact H2]|exact IH].
  Qed.
  Lemma tdel_rel i t1 t2 : trel t1 t2 -> trel (tdel i t1) (tdel i t2).
  Proof.
    induction 1 as [|[j v] [j' v'] l1 l2 [H1 H2] Hl IH]; [constructor|].
    cbn [fst snd] in *. subst j'. cbn [tdel]. destruct (i =? j); [exact Hl|].
    constructor; [split; [reflexivity|exact H2]|exact IH].
  Qed.
  Lemma tupdate_rel m1 m2 : trel m1 m2 -> forall l1 l2, trel l1 l2 -> trel (tupdate l1 m1) (tupdate l2 m2).
  Proof.
    unfold tupdate. induction 1 as [|a b m1 m2 [H1 H2] _ IH]; intros l1 l2 Hl; [exact Hl|].
    cbn [fold_left]. apply IH. rewrite H1. apply tset_rel; assumption.
  Qed.
  Lemma trel_app a1 a2 b1 b2 : trel a1 a2 -> trel b1 b2 -> trel (a1 ++ b1) (a2 ++ b2).
  Proof. apply Forall2_app. Qed.
  Lemma tmerge_rel m1 m2 : trel m1 m2 -> forall l1 l2, trel l1 l2 -> trel (tmerge l1 m1) (tmerge l2 m2).
  Proof.
    unfold tmerge. induction 1 as [|a b m1 m2 [H1 H2] _ IH]; intros l1 l2 Hl; [exact Hl|].
    cbn [fold_left]. apply IH. rewrite H1. pose proof (tlookup_rel (fst b) l1 l2 Hl) as Ho.
    destruct (tlookup (fst b) l1), (tlookup (fst b) l2); try contradiction; [exact Hl|].
    apply trel_app; [exact Hl|]. constructor; [split; assumption|constructor].
  Qed.
  Lemma tinsert_rel a b l1 l2 : fst a = fst b -> VR (snd a) (snd b) -> trel l1 l2 -> trel (tinsert a l1) (tinsert b l2).
  Proof.
    intros H1 H2. induction 1 as [|x y l1 l2 [Hx Hy] Hl IH]; [constructor; [split; assumption|constructor]|].
    cbn [tinsert]. rewrite H1, Hx. destruct (fst b <=? fst y).
    - constructor; [split; assumption|]. constructor; [split; assumption|exact Hl].
    - constructor; [split; assumption|exact IH].
  Qed.
  Lemma tsort_rel l1 l2 : trel l1 l2 -> trel (tsort l1) (tsort l2).
  Proof. induction 1 as [|x y l1 l2 [Hx Hy] Hl IH]; [constructor|]. cbn [tsort]. apply tinsert_rel; assumption. Qed.

  Context (veqb : V -> V -> bool).
  Hypothesis veqb_rel : forall a a' b b', VR a a' -> VR b b' -> veqb a b = veqb a' b'.
  Lemma existsb_rel v v' seen seen' : VR v v' -> Forall2 VR seen seen' -> existsb (veqb v) seen = existsb (veqb v') seen'.
  Proof. intros Hv. induction 1 as [|x y l l' Hx _ IH]; [reflexivity|]. cbn [existsb]. rewrite (veqb_rel v v' x y Hv Hx), IH. reflexivity. Qed.
  Lemma clean_kind_rel : forall keys data t1 t2 seen1 seen2, trel t1 t2 -> Forall2 VR seen1 seen2 ->
    fst (clean_kind veqb keys data t1 seen1) = fst (clean_kind veqb keys data t2 seen2) /\
    trel (snd (clean_kind veqb keys data t1 seen1)) (snd (clean_kind veqb keys data t2 seen2)).
  Proof.
    induction keys as [|k keys IH]; intros data t1 t2 seen1 seen2 Ht Hs; [split; [reflexivity|exact Ht]|].
    cbn [clean_kind]. destruct (key_id k) as [i|]; [|apply IH; assumption].
    pose proof (tlookup_rel i t1 t2 Ht) as Ho.
    destruct (tlookup i t1) as [v|], (tlookup i t2) as [v'|]; try contradiction; [|apply IH; assumption].
    cbn [orel] in Ho. rewrite (existsb_rel v v' seen1 seen2 Ho Hs). destruct (existsb (veqb v') seen2).
    - apply IH; [apply tdel_rel; exact Ht|exact Hs].
    - apply IH; [exact Ht|]. apply Forall2_app; [exact Hs|]. constructor; [exact Ho|constructor].
  Qed.
End Tables.

Section SdRel.
  Variable ER : include_entry -> include_entry -> Prop.
  Hypothesis ER_eqb : forall a a' b b', ER a a' -> ER b b' -> inc_eqb a b = inc_eqb a' b'.

  Definition sdrel (s1 s2 : sdict) : Prop :=
    sd_data s1 = sd_data s2 /\ sd_lc s1 = sd_lc s2 /\ sd_bc s1 = sd_bc s2 /\ trel ER (sd_inc s1) (sd_inc s2) /\
    sd_expr s1 = sd_expr s2.
  Definition osdrel (o1 o2 : option sdict) : Prop :=
    match o1, o2 with Some a, Some b => sdrel a b | None, None => True | _, _ => False end.

  Lemma sdrel_mk d lc bc i1 i2 ex : trel ER i1 i2 -> sdrel (mkSD d lc bc i1 ex) (mkSD d lc bc i2 ex).
  Proof. intros H. repeat split. exact H. Qed.
  Lemma sdrel_empty : sdrel sd_empty sd_empty.
  Proof. apply sdrel_mk. constructor. Qed.

  Lemma clean_level_rel data s1 s2 : sdrel s1 s2 ->
    fst (clean_level data s1) = fst (clean_level data s2) /\ sdrel (snd (clean_level data s1)) (snd (clean_level data s2)).
  Proof.
    intros (Hd & Hl & Hb & Hi & He). unfold clean_level. rewrite Hb, Hl, Hd, He.
    destruct (clean_kind str_eqb (keys_of_kind PhBlock data) data (sd_bc s2) []) as [d1 bc].
    pose proof (clean_kind_rel ER inc_eqb ER_eqb (keys_of_kind PhInclude data) d1 (sd_inc s1) (sd_inc s2) [] [] Hi (Forall2_nil _)) as [E1 E2].
    destruct (clean_kind inc_eqb (keys_of_kind PhInclude data) d1 (sd_inc s1) []) as [d2 i1].
    destruct (clean_kind inc_eqb (keys_of_kind PhInclude data) d1 (sd_inc s2) []) as [d2' i2]. cbn [fst snd] in *. subst d2'.
    destruct (clean_kind str_eqb (keys_of_kind PhLine data) d2 (sd_lc s2) []) as [d3 lc]. cbn [fst snd].
    split; [reflexivity|]. apply sdrel_mk. exact E2.
  Qed.

  Lemma clean_tree_rel : forall fuel data s1 s2, sdrel s1 s2 ->
    fst (clean_tree fuel data s1) = fst (clean_tree fuel data s2) /\ sdrel (snd (clean_tree fuel data s1)) (snd (clean_tree fuel data s2)).
  Proof.
    induction fuel as [|f IH]; intros data s1 s2 H; [split; [reflexivity|exact H]|].
    rewrite !SDictProofs.clean_tree_S. destruct (clean_level_rel data s1 s2 H) as [E1 E2].
    destruct (clean_level data s1) as [d0 a1]. destruct (clean_level data s2) as [d0' a2]. cbn [fst snd] in *. subst d0'.
    generalize d0 at 2 4 6 8. revert a1 a2 E2.
    induction d0 as [|[k v] l IHl]; intros a1 a2 E2 dacc; [split; [reflexivity|exact E2]|].
    cbn [fold_left]. unfold SDictProofs.cstep at 2 4 6 8. cbn [fst snd].
    destruct v as [x|sub|ts]; [apply IHl; exact E2| |apply IHl; exact E2].
    destruct (IH sub a1 a2 E2) as [F1 F2].
    destruct (clean_tree f sub a1) as [sub1 b1]. destruct (clean_tree f sub a2) as [sub2 b2]. cbn [fst snd] in *. subst sub2.
    apply IHl. exact F2.
  Qed.

  Lemma sd_clean_rel s1 s2 : sdrel s1 s2 -> sdrel (sd_clean s1) (sd_clean s2).
  Proof.
    intros H. unfold sd_clean. pose proof H as (Hd & _). rewrite Hd.
    destruct (clean_tree_rel (S (depth (Dict (sd_data s2)))) (sd_data s2) s1 s2 H) as [E1 E2].
    destruct (clean_tree (S (depth (Dict (sd_data s2)))) (sd_data s2) s1) as [d1 a1].
    destruct (clean_tree (S (depth (Dict (sd_data s2)))) (sd_data s2) s2) as [d2 a2]. cbn [fst snd] in *. subst d2.
    destruct E2 as (_ & Hl & Hb & Hi & He). repeat split; cbn [sd_data sd_lc sd_bc sd_inc sd_expr]; assumption.
  Qed.

  Lemma post_update_rel s1 s2 o1 o2 : sdrel s1 s2 -> osdrel o1 o2 -> sdrel (post_update s1 o1) (post_update s2 o2).
  Proof.
    intros H Ho. destruct o1 as [a|], o2 as [b|]; try contradiction; [|exact H].
    destruct H as (Hd & Hl & Hb & Hi & He). destruct Ho as (Od & Ol & Ob & Oi & Oe).
    unfold post_update. rewrite Hd, Hl, Hb, He, Ol, Ob, Oe. apply sdrel_mk. apply tupdate_rel; assumption.
  Qed.
  Lemma sd_update_rel s1 s2 m o1 o2 : sdrel s1 s2 -> osdrel o1 o2 -> sdrel (sd_update s1 m o1) (sd_update s2 m o2).
  Proof.
    intros H Ho. unfold sd_update. apply sd_clean_rel. apply post_update_rel; [|exact Ho].
    destruct H as (Hd & Hl & Hb & Hi & He). rewrite Hd, Hl, Hb, He. apply sdrel_mk. exact Hi.
  Qed.
  Lemma sd_merge_rel s1 s2 m o1 o2 : sdrel s1 s2 -> osdrel o1 o2 -> sdrel (sd_merge s1 m o1) (sd_merge s2 m o2).
  Proof.
    intros H Ho. unfold sd_merge. apply sd_clean_rel. destruct H as (Hd & Hl & Hb & Hi & He). rewrite Hd, Hl, Hb, He.
    destruct o1 as [a|], o2 as [b|]; try contradiction; [|apply sdrel_mk; exact Hi].
    destruct Ho as (Od & Ol & Ob & Oi & Oe). rewrite Ol, Ob, Oe. apply sdrel_mk. apply tmerge_rel; assumption.
  Qed.
  Lemma sd_order_rel s1 s2 : sdrel s1 s2 -> sdrel (sd_order s1) (sd_order s2).
  Proof.
    intros H. pose proof H as (Hd & Hl & Hb & Hi & He). unfold sd_order. rewrite Hd.
    destruct (order_tree (Dict (sd_data s2))); try exact H. rewrite Hl, Hb, He. apply sdrel_mk. apply tsort_rel. exact Hi.
  Qed.
End SdRel.

(* ================================================================================================ *)
(* 3. one file under two directories                                                                *)
(* ================================================================================================ *)
Definition rrel {A} (R : A -> A -> Prop) (r1 r2 : res A) : Prop :=
  match r1, r2 with Ok a, Ok b => R a b | Raise e, Raise e' => e = e' | _, _ => False end.
Lemma rrel_bind {A B} (RA : A -> A -> Prop) (RB : B -> B -> Prop) r1 r2 (f1 f2 : A -> res B) :
  rrel RA r1 r2 -> (forall a b, RA a b -> rrel RB (f1 a) (f2 b)) -> rrel RB (bind r1 f1) (bind r2 f2).
Proof. destruct r1, r2; cbn [rrel bind]; intros H Hf; try contradiction; [apply Hf; exact H|exact H]. Qed.

(* the entries of one file: same directive and name, the name joined to the respective directory *)
Definition ER_dir (d1 d2 : str) (a b : include_entry) : Prop :=
  let '(x1, n1, p1) := a in let '(x2, n2, p2) := b in x1 = x2 /\ n1 = n2 /\ p1 = path_join d1 n1 /\ p2 = path_join d2 n2.
Lemma str_eqb_same a b a' b' : (a = b <-> a' = b') -> str_eqb a b = str_eqb a' b'.
Proof.
  intros H. destruct (str_eqb a b) eqn:E1, (str_eqb a' b') eqn:E2; try reflexivity.
  - apply ScalarProofs.str_eqb_eq in E1. apply H in E1. apply ScalarProofs.str_eqb_eq in E1. congruence.
  - apply ScalarProofs.str_eqb_eq in E2. apply H in E2. apply ScalarProofs.str_eqb_eq in E2. congruence.
Qed.
Lemma ER_dir_eqb d1 d2 a a' b b' : ER_dir d1 d2 a a' -> ER_dir d1 d2 b b' -> inc_eqb a b = inc_eqb a' b'.
Proof.
  destruct a as [[x1 n1] p1], a' as [[x1' n1'] p1'], b as [[x2 n2] p2], b' as [[x2' n2'] p2'].
  intros (-> & -> & -> & ->) (-> & -> & -> & ->). cbn [inc_eqb].
  destruct (str_eqb x1' x2'); [|reflexivity]. destruct (str_eqb n1' n2') eqn:E; [|reflexivity].
  apply ScalarProofs.str_eqb_eq in E. subst n2'. rewrite !ScalarProofs.str_eqb_refl. reflexivity.
Qed.

Lemma extract_includes_rel dA dB : forall ls c,
  fst (extract_includes dA c ls) = fst (extract_includes dB c ls) /\
  trel (ER_dir dA dB) (snd (extract_includes dA c ls)) (snd (extract_includes dB c ls)).
Proof.
  induction ls as [|l ls IH]; intros c; [split; [reflexivity|constructor]|]. cbn [extract_includes].
  destruct (include_line_rest l) as [rest|].
  - destruct (IH (counter_next c)) as [E1 E2].
    destruct (extract_includes dA (counter_next c) ls) as [[rA cA] tA]. destruct (extract_includes dB (counter_next c) ls) as [[rB cB] tB].
    cbn [fst snd] in *. injection E1 as -> ->. split; [reflexivity|].
    apply tupdate_rel; [exact E2|]. constructor; [|constructor]. cbn [fst snd ER_dir]. repeat split.
  - destruct (IH c) as [E1 E2]. destruct (extract_includes dA c ls) as [[rA cA] tA]. destruct (extract_includes dB c ls) as [[rB cB] tB].
    cbn [fst snd] in *. injection E1 as -> ->. split; [reflexivity|exact E2].
Qed.

Definition lexrel (dA dB : str) (a b : lexed) : Prop :=
  lxd_tokens a = lxd_tokens b /\ lxd_count a = lxd_count b /\ lxd_lc a = lxd_lc b /\ lxd_bc a = lxd_bc b /\
  trel (ER_dir dA dB) (lxd_inc a) (lxd_inc b) /\ lxd_expr a = lxd_expr b /\ lxd_lit a = lxd_lit b.
Lemma lex_rel com dA dB c text : lexrel dA dB (lex com dA c text) (lex com dB c text).
Proof.
  unfold lex. destruct (extract_line_comments com c (splitlines text)) as [[l1 k1] lc].
  destruct (extract_includes_rel dA dB l1 k1) as [H1 H2].
  destruct (extract_includes dA k1 l1) as [[l2 k2] inc]. destruct (extract_includes dB k1 l1) as [[l2' k2'] inc'].
  cbn [fst snd] in *. injection H1 as -> ->.
  destruct (extract_block_comments com (concat l2')) as [b1 bc].
  destruct (extract_string_literals k2' (remove_line_endings b1)) as [[b3 k3] lit].
  destruct (extract_expressions k3 b3) as [[b4 k4] ex]. repeat split. exact H2.
Qed.

Definition prrel (ER : include_entry -> include_entry -> Prop) (p1 p2 : parsed) : Prop :=
  sdrel ER (pr_sd p1) (pr_sd p2) /\ pr_count p1 = pr_count p2.

Lemma parse_string_rel com dA dB c text :
  rrel (prrel (ER_dir dA dB)) (parse_string com dA c text) (parse_string com dB c text).
Proof.
  unfold parse_string. destruct (lex_rel com dA dB c text) as (Ht & Hc & Hl & Hb & Hi & He & Hlit).
  rewrite Ht, Hc, Hl, Hb, He, Hlit. destruct (parse_tokens (lxd_tokens (lex com dB c text))) as [d0|e]; [|reflexivity].
  cbn [bind].
  pose proof (sd_clean_rel _ (ER_dir_eqb dA dB) _ _
                (sdrel_mk (ER_dir dA dB) d0 (lxd_lc (lex com dB c text)) (lxd_bc (lex com dB c text)) _ _ (lxd_expr (lex com dB c text)) Hi)) as H0.
  destruct H0 as (Hd0 & Hl0 & Hb0 & Hi0 & He0). rewrite Hd0, Hl0, Hb0, He0.
  destruct (insert_string_literals (lxd_lit (lex com dB c text)) _) as [d1|e]; [|reflexivity].
  cbn [bind rrel]. split; [|reflexivity]. cbn [pr_sd]. apply sd_clean_rel; [apply ER_dir_eqb|]. apply sdrel_mk. exact Hi0.
Qed.

Lemma json_includes_rel dA dB : forall kvs c,
  fst (json_includes dA c kvs) = fst (json_includes dB c kvs) /\
  trel (ER_dir dA dB) (snd (json_includes dA c kvs)) (snd (json_includes dB c kvs)).
Proof.
  induction kvs as [|[k v] kvs IH]; intros c; [split; [reflexivity|constructor]|]. cbn [json_includes].
  destruct (is_include_key_json k).
  - destruct (IH (counter_next c)) as [E1 E2].
    destruct (json_includes dA (counter_next c) kvs) as [[[pA rA] cA] tA]. destruct (json_includes dB (counter_next c) kvs) as [[[pB rB] cB] tB].
    cbn [fst snd] in *. injection E1 as -> -> ->. split; [reflexivity|].
    apply tupdate_rel; [exact E2|]. constructor; [|constructor]. cbn [fst snd ER_dir]. repeat split.
  - destruct (IH c) as [E1 E2].
    destruct (json_includes dA c kvs) as [[[pA rA] cA] tA]. destruct (json_includes dB c kvs) as [[[pB rB] cB] tB].
    cbn [fst snd] in *. injection E1 as -> -> ->. split; [reflexivity|exact E2].
Qed.

Lemma json_parse_rel dA dB c kvs : prrel (ER_dir dA dB) (json_parse dA c kvs) (json_parse dB c kvs).
Proof.
  unfold json_parse. set (s0 := sd_update sd_empty kvs None).
  destruct (json_includes_rel dA dB (sd_data s0) c) as [E1 E2].
  destruct (json_includes dA c (sd_data s0)) as [[[pA rA] cA] tA]. destruct (json_includes dB c (sd_data s0)) as [[[pB rB] cB] tB].
  cbn [fst snd] in *. injection E1 as -> -> ->.
  assert (H2 : sdrel (ER_dir dA dB)
            (sd_update (sd_update (mkSD [] (sd_lc s0) (sd_bc s0) tA (sd_expr s0)) pB None) rB (Some (mkSD rB (sd_lc s0) (sd_bc s0) tA (sd_expr s0))))
            (sd_update (sd_update (mkSD [] (sd_lc s0) (sd_bc s0) tB (sd_expr s0)) pB None) rB (Some (mkSD rB (sd_lc s0) (sd_bc s0) tB (sd_expr s0))))).
  { apply sd_update_rel; [apply ER_dir_eqb| |cbn [osdrel]; apply sdrel_mk; exact E2].
    apply sd_update_rel; [apply ER_dir_eqb|apply sdrel_mk; exact E2|exact I]. }
  destruct H2 as (Hd & Hl & Hb & Hi & He). rewrite Hd, Hl, Hb.
  destruct (json_expressions (Dict (sd_data _)) cB []) as [[t c2] ex].
  split; [|reflexivity]. cbn [pr_sd]. apply sd_clean_rel; [apply ER_dir_eqb|]. apply sdrel_mk. exact Hi.
Qed.

Lemma parse_unit_rel com p1 p2 c u :
  rrel (prrel (ER_dir (dir_of p1) (dir_of p2))) (parse_unit com p1 c u) (parse_unit com p2 c u).
Proof. destruct u as [text|t]; cbn [parse_unit]; [apply parse_string_rel|cbn [rrel]; apply json_parse_rel]. Qed.

(* ================================================================================================ *)
(* 4. read_plain                                                                                    *)
(* ================================================================================================ *)
Definition read_rel (ER : include_entry -> include_entry -> Prop) (r1 r2 : res (sdict * Z)) : Prop :=
  rrel (fun a b => sdrel ER (fst a) (fst b) /\ snd a = snd b) r1 r2.

Lemma trel_impl {V} (R R' : V -> V -> Prop) t1 t2 : (forall a b, R a b -> R' a b) -> trel R t1 t2 -> trel R' t1 t2.
Proof. intros H. induction 1 as [|a b l1 l2 [H1 H2] _ IH]; constructor; [split; [exact H1|apply H; exact H2]|exact IH]. Qed.
Lemma sdrel_impl (R R' : include_entry -> include_entry -> Prop) s1 s2 : (forall a b, R a b -> R' a b) -> sdrel R s1 s2 -> sdrel R' s1 s2.
Proof. intros H (Hd & Hl & Hb & Hi & He). repeat split; try assumption. exact (trel_impl R R' _ _ H Hi). Qed.
Lemma read_rel_impl (R R' : include_entry -> include_entry -> Prop) r1 r2 : (forall a b, R a b -> R' a b) -> read_rel R r1 r2 -> read_rel R' r1 r2.
Proof. intros H. destruct r1 as [[s1 c1]|e1], r2 as [[s2 c2]|e2]; cbn; try tauto. intros [H1 H2]. split; [exact (sdrel_impl R R' _ _ H H1)|exact H2]. Qed.

(* ---- includes off: nothing but the root file is read ---------------------------------------------------- *)
Lemma read_plain_off_rel fs r1 r2 com c : norm_path r1 = norm_path r2 ->
  read_rel (ER_dir (dir_of r1) (dir_of r2)) (read_plain fs r1 false com c) (read_plain fs r2 false com c).
Proof.
  intros E. unfold read_plain. rewrite E. destruct (fs_lookup (norm_path r2) fs) as [u|]; [|reflexivity].
  pose proof (parse_unit_rel com r1 r2 c u) as H.
  destruct (parse_unit com r1 c u) as [p1|e1], (parse_unit com r2 c u) as [p2|e2]; cbn [rrel] in H; try contradiction; [|exact H].
  cbn [bind]. destruct H as [(Hd & Hl & Hb & Hi & He) Hc]. cbn [read_rel rrel fst snd]. split; [|exact Hc].
  cbn [sd_data sd_lc sd_bc sd_inc]. rewrite Hd, Hl, Hb. apply sdrel_mk. exact Hi.
Qed.

(* ---- includes on ----------------------------------------------------------------------------------------- *)
(* the names of the include table of s are joined below the directory *)
Definition inc_name (e : N * include_entry) : str := snd (fst (snd e)).
Definition inc_path (e : N * include_entry) : str := snd (snd e).
Definition inc_names_ok (s : sdict) : bool := forallb (fun e => rel_name (inc_name e)) (sd_inc s).

(* the check along the run: every file that gets parsed has relative, non-empty include names.  Mirrors
   merge_includes_rec (same traversal, same counters). *)
Fixpoint names_ok_list (recok : list str -> sdict -> Z -> bool) (recrun : list str -> sdict -> Z -> res (sdict * Z))
         (fs : fsys) (com : bool) (chain : list str) (l : list (N * include_entry)) (c : Z) : bool :=
  match l with
  | [] => true
  | e :: l' =>
      let resolved := norm_path (inc_path e) in
      if in_chain resolved chain then names_ok_list recok recrun fs com chain l' c
      else match fs_lookup resolved fs with
           | None => names_ok_list recok recrun fs com chain l' c
           | Some u =>
               match parse_unit com (inc_path e) c u with
               | Raise _ => true
               | Ok pr =>
                   inc_names_ok (pr_sd pr) &&
                   match sd_inc (pr_sd pr) with
                   | [] => names_ok_list recok recrun fs com chain l' (pr_count pr)
                   | _ => recok (chain ++ [resolved]) (pr_sd pr) (pr_count pr) &&
                          match recrun (chain ++ [resolved]) (pr_sd pr) (pr_count pr) with
                          | Ok (_, c') => names_ok_list recok recrun fs com chain l' c'
                          | Raise _ => true
                          end
                   end
               end
           end
  end.
Fixpoint names_ok_rec (fuel : nat) (fs : fsys) (com : bool) (chain : list str) (parent : sdict) (count : Z) : bool :=
  match fuel with
  | O => true
  | S f => names_ok_list (names_ok_rec f fs com) (merge_includes_rec f fs com) fs com chain (sd_inc parent) count
  end.
Definition read_names_ok (fs : fsys) (root : str) (com : bool) (c : Z) : bool :=
  match fs_lookup (norm_path root) fs with
  | None => true
  | Some u => match parse_unit com root c u with
              | Raise _ => true
              | Ok pr => inc_names_ok (pr_sd pr) && names_ok_rec (S (length fs)) fs com [] (pr_sd pr) (pr_count pr)
              end
  end.

Section Glob.
  Variables D1 D2 : str.
  Hypothesis HD1 : is_dir D1.
  Hypothesis HD2 : is_dir D2.
  Hypothesis HD : dstack D1 = dstack D2.

  Definition tsok (ts : list str) : Prop := Forall nosep ts /\ forallb nonempty ts = true.
  Definition sfx_ok (s : str) : Prop := exists ts n, tsok ts /\ rel_name n = true /\ s = pjoin ts ++ c_slash :: n.
  (* entries anywhere in the run: the stored paths are the two root directories followed by one and the same text *)
  Definition ERg (a b : include_entry) : Prop :=
    let '(x1, n1, p1) := a in let '(x2, n2, p2) := b in
    x1 = x2 /\ n1 = n2 /\ exists s, sfx_ok s /\ p1 = D1 ++ s /\ p2 = D2 ++ s.

  Lemma ERg_eqb a a' b b' : ERg a a' -> ERg b b' -> inc_eqb a b = inc_eqb a' b'.
  Proof.
    destruct a as [[x1 n1] p1], a' as [[x1' n1'] p1'], b as [[x2 n2] p2], b' as [[x2' n2'] p2'].
    intros (-> & -> & s & _ & -> & ->) (-> & -> & s' & _ & -> & ->). cbn [inc_eqb]. f_equal.
    apply str_eqb_same. split; intros E; apply app_inv_head in E; subst; reflexivity.
  Qed.

  Lemma is_dir_app d ts : is_dir d -> tsok ts -> is_dir (d ++ pjoin ts).
  Proof.
    intros (cs & H1 & H2 & ->) [T1 T2]. exists (cs ++ ts). split; [apply Forall_app; split; assumption|].
    split; [rewrite forallb_app; apply andb_true_iff; split; assumption|rewrite join_app; reflexivity].
  Qed.
  Lemma dstack_sub ts : tsok ts -> dstack (D1 ++ pjoin ts) = dstack (D2 ++ pjoin ts).
  Proof. intros [T1 _]. rewrite !dstack_dir_app by exact T1. rewrite HD. reflexivity. Qed.

  Lemma sfx_norm s : sfx_ok s -> norm_path (D1 ++ s) = norm_path (D2 ++ s).
  Proof.
    intros (ts & n & T & _ & ->). apply norm_eq_stack. rewrite !app_assoc, !dstack_slash, (dstack_sub ts T). reflexivity.
  Qed.
  Lemma sfx_dir s : sfx_ok s -> exists ts, tsok ts /\ dir_of (D1 ++ s) = D1 ++ pjoin ts /\ dir_of (D2 ++ s) = D2 ++ pjoin ts.
  Proof.
    intros (ts & n & T & Hn & ->). exists (ts ++ removelast (ncomps n)). split.
    - destruct T as [T1 T2]. split; [apply Forall_app; split; [exact T1|apply removelast_Forall, ncomps_nosep]|].
      rewrite forallb_app. apply andb_true_iff. split; [exact T2|apply removelast_forallb, ncomps_nonempty].
    - rewrite !app_assoc, !dir_of_join by (try exact Hn; apply is_dir_app; assumption).
      rewrite join_app, !app_assoc. split; reflexivity.
  Qed.

  (* the entries of a file in a directory below the roots *)
  Lemma ER_dir_glob ts a b : tsok ts -> ER_dir (D1 ++ pjoin ts) (D2 ++ pjoin ts) a b -> rel_name (snd (fst a)) = true -> ERg a b.
  Proof.
    destruct a as [[x1 n1] p1], b as [[x2 n2] p2]. intros T (-> & -> & -> & ->) Hn. cbn [fst snd] in Hn.
    cbn [ERg]. split; [reflexivity|]. split; [reflexivity|]. exists (pjoin ts ++ c_slash :: n2).
    split; [exists ts, n2; repeat split; try assumption; apply T|]. rewrite !path_join_rel by exact Hn. rewrite <- !app_assoc. split; reflexivity.
  Qed.
  Lemma trel_glob ts t1 t2 : tsok ts -> trel (ER_dir (D1 ++ pjoin ts) (D2 ++ pjoin ts)) t1 t2 ->
    forallb (fun e => rel_name (inc_name e)) t1 = true -> trel ERg t1 t2.
  Proof.
    intros T. induction 1 as [|a b l1 l2 [H1 H2] _ IH]; intros Hn; [constructor|]. cbn [forallb] in Hn. apply andb_true_iff in Hn.
    destruct Hn as [Ha Hl]. constructor; [|apply IH; exact Hl]. split; [exact H1|]. apply (ER_dir_glob ts); assumption.
  Qed.
  Lemma sdrel_glob ts s1 s2 : tsok ts -> sdrel (ER_dir (D1 ++ pjoin ts) (D2 ++ pjoin ts)) s1 s2 -> inc_names_ok s1 = true -> sdrel ERg s1 s2.
  Proof. intros T (Hd & Hl & Hb & Hi & He) Hn. repeat split; try assumption. apply (trel_glob ts); assumption. Qed.

  Variable fs : fsys.
  Variable com : bool.

  Section Step.
    Variable recok : list str -> sdict -> Z -> bool.
    Variable recrun : list str -> sdict -> Z -> res (sdict * Z).
    Hypothesis Hrec : forall chain p1 p2 c, sdrel ERg p1 p2 -> recok chain p1 c = true ->
      read_rel ERg (recrun chain p1 c) (recrun chain p2 c).

    Lemma fold_inc_rel chain : forall l1 l2, trel ERg l1 l2 -> forall t1 t2 c, sdrel ERg t1 t2 ->
      names_ok_list recok recrun fs com chain l1 c = true ->
      read_rel ERg (fold_left (IncludeProofs.inc_step recrun fs com chain) l1 (Ok (t1, c)))
                   (fold_left (IncludeProofs.inc_step recrun fs com chain) l2 (Ok (t2, c))).
    Proof.
      induction 1 as [|[i1 [[x1 n1] p1]] [i2 [[x2 n2] p2]] l1 l2 [Hi He] _ IH]; intros t1 t2 c Ht Hn;
        [cbn [fold_left read_rel rrel fst snd]; split; [exact Ht|reflexivity]|].
      cbn [fst snd] in Hi, He. destruct He as (-> & -> & s & Hs & -> & ->). subst i2.
      cbn [fold_left]. unfold IncludeProofs.inc_step at 2 4. cbn [bind].
      cbn [names_ok_list inc_path snd] in Hn. rewrite <- (sfx_norm s Hs). 
      destruct (in_chain (norm_path (D1 ++ s)) chain); [apply IH; assumption|].
      destruct (fs_lookup (norm_path (D1 ++ s)) fs) as [u|]; [|apply IH; assumption].
      pose proof (parse_unit_rel com (D1 ++ s) (D2 ++ s) c u) as Hp.
      destruct (sfx_dir s Hs) as (ts & T & E1 & E2). rewrite E1, E2 in Hp.
      destruct (parse_unit com (D1 ++ s) c u) as [pr1|e1], (parse_unit com (D2 ++ s) c u) as [pr2|e2]; cbn [rrel] in Hp; try contradiction.
      2:{ subst e2. cbn [bind]. rewrite !IncludeProofs.fold_inc_raise. reflexivity. }
      cbn [bind]. apply andb_true_iff in Hn. destruct Hn as [Hn1 Hn].
      destruct Hp as [Hp Hc]. pose proof (sdrel_glob ts _ _ T Hp Hn1) as Hg. pose proof Hg as (Gd & Gl & Gb & Gi & Ge).
      destruct (sd_inc (pr_sd pr1)) as [|a1 r1] eqn:I1, (sd_inc (pr_sd pr2)) as [|a2 r2] eqn:I2; try (inversion Gi; fail).
      - cbn [bind]. rewrite Hc, Gd. apply IH; [|rewrite <- Hc; exact Hn].
        apply sd_merge_rel; [apply ERg_eqb|exact Ht|exact Hg].
      - apply andb_true_iff in Hn. destruct Hn as [Hn2 Hn].
        pose proof (Hrec (chain ++ [norm_path (D1 ++ s)]) _ _ (pr_count pr1) Hg Hn2) as Hr. rewrite <- Hc.
        destruct (recrun (chain ++ [norm_path (D1 ++ s)]) (pr_sd pr1) (pr_count pr1)) as [[q1 k1]|e1],
                 (recrun (chain ++ [norm_path (D1 ++ s)]) (pr_sd pr2) (pr_count pr1)) as [[q2 k2]|e2]; cbn [read_rel rrel fst snd] in Hr; try contradiction.
        2:{ subst e2. cbn [bind]. rewrite !IncludeProofs.fold_inc_raise. reflexivity. }
        destruct Hr as [Hq Hk]. subst k2. cbn [bind]. pose proof Hq as (Qd & _). rewrite Qd.
        apply IH; [|exact Hn]. apply sd_merge_rel; [apply ERg_eqb| |exact Hq]. apply sd_merge_rel; [apply ERg_eqb|exact Ht|exact Hq].
    Qed.
  End Step.

  Lemma rec_rel : forall f chain p1 p2 c, sdrel ERg p1 p2 -> names_ok_rec f fs com chain p1 c = true ->
    read_rel ERg (merge_includes_rec f fs com chain p1 c) (merge_includes_rec f fs com chain p2 c).
  Proof.
    induction f as [|f IH]; intros chain p1 p2 c Hp Hn; [reflexivity|].
    rewrite !IncludeProofs.merge_includes_rec_S. cbn [names_ok_rec] in Hn.
    pose proof Hp as (Pd & Pl & Pb & Pi & Pe).
    pose proof (fold_inc_rel (names_ok_rec f fs com) (merge_includes_rec f fs com) IH chain _ _ Pi sd_empty sd_empty c (sdrel_empty ERg) Hn) as H.
    destruct (fold_left _ (sd_inc p1) _) as [[t1 k1]|e1], (fold_left _ (sd_inc p2) _) as [[t2 k2]|e2]; cbn [read_rel rrel fst snd] in H; try contradiction; [|exact H].
    destruct H as [Ht Hk]. cbn [bind read_rel rrel fst snd]. split; [|exact Hk]. pose proof Ht as (Td & _). rewrite Td.
    apply sd_merge_rel; [apply ERg_eqb|exact Hp|exact Ht].
  Qed.

  Lemma merge_includes_rel p1 p2 c : sdrel ERg p1 p2 -> names_ok_rec (S (length fs)) fs com [] p1 c = true ->
    read_rel ERg (merge_includes fs com p1 c) (merge_includes fs com p2 c).
  Proof.
    intros Hp Hn. unfold merge_includes. pose proof (rec_rel (S (length fs)) [] p1 p2 c Hp Hn) as H.
    destruct (merge_includes_rec (S (length fs)) fs com [] p1 c) as [[t1 k1]|e1],
             (merge_includes_rec (S (length fs)) fs com [] p2 c) as [[t2 k2]|e2]; cbn [read_rel rrel fst snd] in H; try contradiction; [|exact H].
    destruct H as [Ht Hk]. cbn [bind read_rel rrel fst snd]. split; [|exact Hk]. pose proof Ht as (Td & _). rewrite Td.
    apply sd_merge_rel; [apply ERg_eqb|exact Ht|exact Ht].
  Qed.
End Glob.

Lemma same_file_dirs r1 r2 : same_file r1 r2 = true ->
  norm_path r1 = norm_path r2 /\ is_dir (dir_of r1) /\ is_dir (dir_of r2) /\ dstack (dir_of r1) = dstack (dir_of r2).
Proof.
  intros H. apply same_file_spec in H. destruct H as [H1 H2]. split; [exact H1|]. split; [apply dir_of_is_dir|].
  split; [apply dir_of_is_dir|]. apply norm_eq_stack. exact H2.
Qed.

Lemma tsok_nil : tsok [].
Proof. split; [constructor|reflexivity]. Qed.

Lemma read_plain_on_rel fs r1 r2 com c : same_file r1 r2 = true -> read_names_ok fs r1 com c = true ->
  read_rel (ERg (dir_of r1) (dir_of r2)) (read_plain fs r1 true com c) (read_plain fs r2 true com c).
Proof.
  intros Hs Hn. destruct (same_file_dirs r1 r2 Hs) as (E & Hd1 & Hd2 & Hd).
  unfold read_plain. unfold read_names_ok in Hn. rewrite <- E. destruct (fs_lookup (norm_path r1) fs) as [u|]; [|reflexivity].
  pose proof (parse_unit_rel com r1 r2 c u) as H.
  destruct (parse_unit com r1 c u) as [p1|e1], (parse_unit com r2 c u) as [p2|e2]; cbn [rrel] in H; try contradiction; [|exact H].
  apply andb_true_iff in Hn. destruct Hn as [Hn1 Hn2]. destruct H as [Hp Hc].
  assert (Hg : sdrel (ERg (dir_of r1) (dir_of r2)) (pr_sd p1) (pr_sd p2)).
  { apply (sdrel_glob (dir_of r1) (dir_of r2) []); [exact tsok_nil| |exact Hn1]. cbn [pjoin flat_map]. rewrite !app_nil_r. exact Hp. }
  cbn [bind]. rewrite <- Hc.
  pose proof (merge_includes_rel (dir_of r1) (dir_of r2) Hd1 Hd2 Hd fs com _ _ (pr_count p1) Hg Hn2) as Hm.
  destruct (merge_includes fs com (pr_sd p1) (pr_count p1)) as [[s1 k1]|e1],
           (merge_includes fs com (pr_sd p2) (pr_count p1)) as [[s2 k2]|e2]; cbn [read_rel rrel fst snd] in Hm; try contradiction; [|exact Hm].
  destruct Hm as [(Md & Ml & Mb & Mi & Me) Mk]. cbn [bind read_rel rrel fst snd]. split; [|exact Mk].
  cbn [sd_data sd_lc sd_bc sd_inc]. rewrite Md, Ml, Mb. apply sdrel_mk. exact Mi.
Qed.

(* ---- what the caller sees ----------------------------------------------------------------------------- *)
(* includes off: the stored path is the name joined to the (textual) directory of the root as spelled *)
Definition ER_off (r1 r2 : str) (a b : include_entry) : Prop :=
  let '(x1, n1, p1) := a in let '(x2, n2, p2) := b in
  x1 = x2 /\ n1 = n2 /\ norm_path p1 = norm_path p2 /\ p1 = path_join (dir_of r1) n1 /\ p2 = path_join (dir_of r2) n2.
(* includes on: the stored paths of all merged files differ in the spelling of the root's directory only *)
Definition ER_on (r1 r2 : str) (a b : include_entry) : Prop :=
  let '(x1, n1, p1) := a in let '(x2, n2, p2) := b in
  x1 = x2 /\ n1 = n2 /\ norm_path p1 = norm_path p2 /\ exists s, p1 = dir_of r1 ++ s /\ p2 = dir_of r2 ++ s.

Theorem read_spelling_off fs r1 r2 com c : same_file r1 r2 = true ->
  read_rel (ER_off r1 r2) (read_plain fs r1 false com c) (read_plain fs r2 false com c).
Proof.
  intros Hs. apply same_file_spec in Hs. destruct Hs as [E Ed].
  apply (read_rel_impl (ER_dir (dir_of r1) (dir_of r2))); [|apply read_plain_off_rel; exact E].
  intros [[x1 n1] p1] [[x2 n2] p2] (-> & -> & -> & ->). cbn [ER_off]. repeat split. apply norm_path_join. exact Ed.
Qed.

Lemma ERg_on r1 r2 a b : same_file r1 r2 = true -> ERg (dir_of r1) (dir_of r2) a b -> ER_on r1 r2 a b.
Proof.
  intros Hs. destruct (same_file_dirs r1 r2 Hs) as (E & Hd1 & Hd2 & Hd).
  destruct a as [[x1 n1] p1], b as [[x2 n2] p2]. intros (-> & -> & s & Hok & -> & ->). cbn [ER_on]. repeat split.
  - apply sfx_norm; assumption.
  - exists s. split; reflexivity.
Qed.

Theorem read_spelling_on fs r1 r2 com c : same_file r1 r2 = true -> read_names_ok fs r1 com c = true ->
  read_rel (ER_on r1 r2) (read_plain fs r1 true com c) (read_plain fs r2 true com c).
Proof.
  intros Hs Hn. apply (read_rel_impl (ERg (dir_of r1) (dir_of r2))); [|apply read_plain_on_rel; assumption].
  intros a b. apply ERg_on. exact Hs.
Qed.

(* in plain words *)
Definition entries_same (a b : N * include_entry) : Prop :=
  fst a = fst b /\ fst (fst (snd a)) = fst (fst (snd b)) /\ inc_name a = inc_name b /\ norm_path (inc_path a) = norm_path (inc_path b).
Definition same_result (r1 r2 : res (sdict * Z)) : Prop :=
  match r1, r2 with
  | Ok (s1, c1), Ok (s2, c2) =>
      sd_data s1 = sd_data s2 /\ sd_lc s1 = sd_lc s2 /\ sd_bc s1 = sd_bc s2 /\ sd_expr s1 = sd_expr s2 /\ c1 = c2 /\
      Forall2 entries_same (sd_inc s1) (sd_inc s2)
  | Raise e1, Raise e2 => e1 = e2
  | _, _ => False
  end.
Lemma read_rel_same_result (ER : include_entry -> include_entry -> Prop) r1 r2 :
  (forall x1 n1 p1 x2 n2 p2, ER (x1, n1, p1) (x2, n2, p2) -> x1 = x2 /\ n1 = n2 /\ norm_path p1 = norm_path p2) ->
  read_rel ER r1 r2 -> same_result r1 r2.
Proof.
  intros H. destruct r1 as [[s1 c1]|e1], r2 as [[s2 c2]|e2]; cbn; try tauto.
  intros [(Hd & Hl & Hb & Hi & He) Hc]. repeat split; try assumption.
  induction Hi as [|[i1 [[x1 n1] p1]] [i2 [[x2 n2] p2]] l1 l2 [A1 A2] _ IH]; constructor; [|exact IH].
  cbn [fst snd] in *. destruct (H _ _ _ _ _ _ A2) as (-> & -> & E). repeat split; assumption.
Qed.

Theorem read_spelling_independent fs r1 r2 inc com c : same_file r1 r2 = true ->
  (inc = true -> read_names_ok fs r1 com c = true) ->
  same_result (read_plain fs r1 inc com c) (read_plain fs r2 inc com c).
Proof.
  intros Hs Hn. destruct inc.
  - apply (read_rel_same_result (ER_on r1 r2)); [|apply read_spelling_on; [exact Hs|apply Hn; reflexivity]].
    intros x1 n1 p1 x2 n2 p2 (-> & -> & E & _). repeat split. exact E.
  - apply (read_rel_same_result (ER_off r1 r2)); [|apply read_spelling_off; exact Hs].
    intros x1 n1 p1 x2 n2 p2 (-> & -> & E & _). repeat split. exact E.
Qed.

(* ================================================================================================ *)
(* 5. read_opts, write_sd, parse_model                                                              *)
(* ================================================================================================ *)
From DictIO Require Expr Eval EvalProofs Cli Parse.

(* ---- expression evaluation carries the include table along -------------------------------------------- *)
Definition with_inc (i : list (N * include_entry)) (s : sdict) : sdict := mkSD (sd_data s) (sd_lc s) (sd_bc s) i (sd_expr s).
Definition omap_inc (i : list (N * include_entry)) (o : option (res sdict)) : option (res sdict) :=
  match o with Some (Ok s) => Some (Ok (with_inc i s)) | other => other end.

Lemma pass_step_inc resolved i acc e :
  EvalProofs.pass_step resolved (omap_inc i acc) e = omap_inc i (EvalProofs.pass_step resolved acc e).
Proof.
  destruct acc as [[st|er]|]; [|reflexivity|reflexivity]. destruct e as [key [e0 ph]].
  cbn [omap_inc]. unfold EvalProofs.pass_step. cbv zeta. cbn [with_inc sd_data sd_lc sd_bc sd_inc sd_expr].
  destruct (if Expr.is_plain_reference (strip e0) then Eval.rlookup (strip e0) resolved else None) as [t|].
  - destruct (Eval.insert_result _ ph t (Dict (sd_data st))) as [[x|d'|ts]|er]; reflexivity.
  - destruct (has_char c_dollar (Eval.substitute resolved e0)); [reflexivity|].
    destruct (Eval.pyeval (Eval.substitute resolved e0)) as [z| |]; try reflexivity.
    destruct (Eval.insert_result _ ph (Leaf (SInt z)) (Dict (sd_data st))) as [[x|d'|ts]|er]; reflexivity.
Qed.
Lemma pass_fold_inc resolved i : forall l acc,
  fold_left (EvalProofs.pass_step resolved) l (omap_inc i acc) = omap_inc i (fold_left (EvalProofs.pass_step resolved) l acc).
Proof. induction l as [|e l IH]; intros acc; [reflexivity|]. cbn [fold_left]. rewrite pass_step_inc. apply IH. Qed.
Lemma eval_pass_inc resolved i s : Eval.eval_pass resolved (with_inc i s) = omap_inc i (Eval.eval_pass resolved s).
Proof. rewrite !EvalProofs.eval_pass_fold. exact (pass_fold_inc resolved i (sd_expr s) (Some (Ok s))). Qed.
Lemma resolve_all_inc i s : Eval.resolve_all (with_inc i s) = Eval.resolve_all s.
Proof. reflexivity. Qed.
Lemma eval_loop_inc i : forall f s r u, Eval.eval_loop f (with_inc i s) r u = omap_inc i (Eval.eval_loop f s r u).
Proof.
  induction f as [|f IH]; intros s r u; [reflexivity|]. cbn [Eval.eval_loop]. rewrite eval_pass_inc.
  destruct (Eval.eval_pass r s) as [[s'|e]|]; cbn [omap_inc]; try reflexivity.
  rewrite resolve_all_inc. destruct (Eval.resolve_all s') as [[r' u']|]; [|reflexivity].
  destruct (Nat.ltb u' u); [apply IH|reflexivity].
Qed.
Lemma back_insert_inc i s : Eval.back_insert (with_inc i s) = match Eval.back_insert s with Ok x => Ok (with_inc i x) | Raise e => Raise e end.
Proof.
  unfold Eval.back_insert. cbn [with_inc sd_data sd_lc sd_bc sd_inc sd_expr].
  destruct (fold_left _ (sd_expr s) (Ok (sd_data s))) as [d|e]; reflexivity.
Qed.
Lemma eval_expressions_inc i s : Eval.eval_expressions (with_inc i s) = omap_inc i (Eval.eval_expressions s).
Proof.
  unfold Eval.eval_expressions. rewrite resolve_all_inc. destruct (Eval.resolve_all s) as [[r u]|]; [|reflexivity].
  rewrite eval_loop_inc. destruct (Eval.eval_loop (S (S u)) s r u) as [[s'|e]|]; cbn [omap_inc]; try reflexivity.
  rewrite back_insert_inc. destruct (Eval.back_insert s'); reflexivity.
Qed.

Section Opts.
  Variable ER : include_entry -> include_entry -> Prop.
  Hypothesis ER_eqb : forall a a' b b', ER a a' -> ER b b' -> inc_eqb a b = inc_eqb a' b'.
  Hypothesis ER_name : forall a b, ER a b -> snd (fst a) = snd (fst b).

  Definition oresrel (o1 o2 : option (res sdict)) : Prop :=
    match o1, o2 with None, None => True | Some a, Some b => rrel (sdrel ER) a b | _, _ => False end.
  Lemma sdrel_with_inc s1 s2 : sdrel ER s1 s2 -> s1 = with_inc (sd_inc s1) s2.
  Proof. destruct s1, s2. intros (Hd & Hl & Hb & Hi & He). cbn in *. subst. reflexivity. Qed.
  Lemma eval_expressions_rel s1 s2 : sdrel ER s1 s2 -> oresrel (Eval.eval_expressions s1) (Eval.eval_expressions s2).
  Proof.
    intros H. rewrite (sdrel_with_inc s1 s2 H), eval_expressions_inc. pose proof H as (_ & _ & _ & Hi & _).
    assert (E2 : Eval.eval_expressions s2 = omap_inc (sd_inc s2) (Eval.eval_expressions s2)).
    { rewrite <- eval_expressions_inc. f_equal. destruct s2; reflexivity. }
    rewrite E2 at 2. destruct (Eval.eval_expressions s2) as [[s|e]|]; cbn [omap_inc oresrel rrel]; try reflexivity.
    apply sdrel_mk. exact Hi.
  Qed.

  (* what read_opts does after the include merging *)
  Definition opts_tail (includes order : bool) (sk : list key) (r : res (sdict * Z)) : option (res (sdict * Z)) :=
    match r with
    | Raise e => Some (Raise e)
    | Ok (s, c) =>
        match Eval.eval_expressions s with
        | None => None
        | Some (Raise e) => Some (Raise e)
        | Some (Ok s1) =>
            let scoped : res sdict :=
              match sk with
              | [] => Ok s1
              | _ => if key_exists (Dict (sd_data s1)) sk
                     then Ok (sd_update (mkSD [] (sd_lc s1) (sd_bc s1) (sd_inc s1) (sd_expr s1)) (reduce_scope (sd_data s1) sk) None)
                     else Raise Parse.E_Exit
              end in
            match scoped with
            | Raise e => Some (Raise e)
            | Ok s2 =>
                let s3 := if order then sd_order s2 else s2 in
                let s4 := if includes then s3
                          else mkSD (remove_include_keys (sd_data s3)) (sd_lc s3) (sd_bc s3) (sd_inc s3) (sd_expr s3) in
                Some (Ok (s4, c))
            end
        end
    end.
  Definition core (fs : fsys) (u : funit) (root : str) (includes comments : bool) (count : Z) : res (sdict * Z) :=
    bind (parse_unit comments root count u) (fun pr =>
      if includes then merge_includes fs comments (pr_sd pr) (pr_count pr) else Ok (pr_sd pr, pr_count pr)).
  Lemma read_opts_eq fs root includes order comments scope count :
    Parse.read_opts fs root includes order comments scope count =
    match Parse.scope_keys scope with
    | None => None
    | Some sk => match fs_lookup (norm_path root) fs with
                 | None => Some (Raise E_Key)
                 | Some u => opts_tail includes order sk (core fs u root includes comments count)
                 end
    end.
  Proof.
    unfold Parse.read_opts, core. destruct (Parse.scope_keys scope) as [sk|]; [|reflexivity].
    destruct (fs_lookup (norm_path root) fs) as [u|]; [|reflexivity].
    destruct (parse_unit comments root count u) as [pr|e]; [|reflexivity]. cbn [bind].
    destruct (if includes then merge_includes fs comments (pr_sd pr) (pr_count pr) else Ok (pr_sd pr, pr_count pr)) as [[s c]|e]; reflexivity.
  Qed.

  Definition orrel (o1 o2 : option (res (sdict * Z))) : Prop :=
    match o1, o2 with None, None => True | Some a, Some b => read_rel ER a b | _, _ => False end.

  Lemma opts_tail_rel includes order sk r1 r2 : read_rel ER r1 r2 ->
    orrel (opts_tail includes order sk r1) (opts_tail includes order sk r2).
  Proof.
    destruct r1 as [[s1 c1]|e1], r2 as [[s2 c2]|e2]; cbn [read_rel rrel fst snd]; try contradiction; [|intros ->; reflexivity].
    intros [Hs Hc]. subst c2. cbn [opts_tail]. pose proof (eval_expressions_rel s1 s2 Hs) as He.
    destruct (Eval.eval_expressions s1) as [[a1|x1]|], (Eval.eval_expressions s2) as [[a2|x2]|]; cbn [oresrel rrel] in He; try contradiction;
      [|subst x2; reflexivity|exact I].
    pose proof He as (Ad & Al & Ab & Ai & Ae).
    assert (Hsc : rrel (sdrel ER)
              (match sk with [] => Ok a1 | _ => if key_exists (Dict (sd_data a1)) sk
                 then Ok (sd_update (mkSD [] (sd_lc a1) (sd_bc a1) (sd_inc a1) (sd_expr a1)) (reduce_scope (sd_data a1) sk) None) else Raise Parse.E_Exit end)
              (match sk with [] => Ok a2 | _ => if key_exists (Dict (sd_data a2)) sk
                 then Ok (sd_update (mkSD [] (sd_lc a2) (sd_bc a2) (sd_inc a2) (sd_expr a2)) (reduce_scope (sd_data a2) sk) None) else Raise Parse.E_Exit end)).
    { destruct sk as [|k sk]; [exact He|]. rewrite Ad. destruct (key_exists (Dict (sd_data a2)) (k :: sk)); [|reflexivity].
      cbn [rrel]. rewrite Al, Ab, Ae. apply sd_update_rel; [exact ER_eqb|apply sdrel_mk; exact Ai|exact I]. }
    cbv zeta.
    destruct (match sk with [] => Ok a1 | _ => _ end) as [b1|y1], (match sk with [] => Ok a2 | _ => _ end) as [b2|y2]; cbn [rrel] in Hsc; try contradiction;
      [|subst y2; reflexivity].
    cbn [orrel read_rel rrel fst snd]. split; [|reflexivity].
    assert (H3 : sdrel ER (if order then sd_order b1 else b1) (if order then sd_order b2 else b2)) by (destruct order; [apply sd_order_rel|]; exact Hsc).
    destruct includes; [exact H3|]. destruct H3 as (Bd & Bl & Bb & Bi & Be). cbn [sd_data sd_lc sd_bc sd_inc sd_expr].
    rewrite Bd, Bl, Bb, Be. apply sdrel_mk. exact Bi.
  Qed.

  (* the writer only looks at the ids and the names of the include table *)
  Lemma insert_includes_rel fmt t1 t2 : trel ER t1 t2 -> forall s, insert_includes fmt t1 s = insert_includes fmt t2 s.
  Proof.
    unfold insert_includes. induction 1 as [|[i1 [[x1 n1] p1]] [i2 [[x2 n2] p2]] l1 l2 [H1 H2] _ IH]; intros s; [reflexivity|].
    cbn [fold_left]. cbn [fst snd] in H1. subst i2. apply ER_name in H2. cbn [fst snd] in H2. subst n2. apply IH.
  Qed.
  Lemma to_string_sd_rel s1 s2 : sdrel ER s1 s2 -> to_string_sd s1 = to_string_sd s2.
  Proof. intros (Hd & Hl & Hb & Hi & He). unfold to_string_sd. rewrite Hd, Hl, Hb, (insert_includes_rel _ _ _ Hi). reflexivity. Qed.
  Lemma foam_to_string_sd_rel s1 s2 : sdrel ER s1 s2 -> foam_to_string_sd s1 = foam_to_string_sd s2.
  Proof. intros (Hd & Hl & Hb & Hi & He). unfold foam_to_string_sd. rewrite Hd, Hl, Hb, (insert_includes_rel _ _ _ Hi). reflexivity. Qed.
End Opts.

Lemma ER_dir_name d1 d2 a b : ER_dir d1 d2 a b -> snd (fst a) = snd (fst b).
Proof. destruct a as [[x1 n1] p1], b as [[x2 n2] p2]. intros (_ & H & _). exact H. Qed.
Lemma ERg_name d1 d2 a b : ERg d1 d2 a b -> snd (fst a) = snd (fst b).
Proof. destruct a as [[x1 n1] p1], b as [[x2 n2] p2]. intros (_ & H & _). exact H. Qed.

(* ---- parse + include merging under two spellings ------------------------------------------------------- *)
Lemma core_rel_off fs u r1 r2 com c :
  read_rel (ER_dir (dir_of r1) (dir_of r2)) (core fs u r1 false com c) (core fs u r2 false com c).
Proof.
  unfold core. pose proof (parse_unit_rel com r1 r2 c u) as H.
  destruct (parse_unit com r1 c u) as [p1|e1], (parse_unit com r2 c u) as [p2|e2]; cbn [rrel] in H; try contradiction; [|exact H].
  exact H.
Qed.
Definition core_names_ok (fs : fsys) (u : funit) (root : str) (com : bool) (c : Z) : bool :=
  match parse_unit com root c u with
  | Raise _ => true
  | Ok pr => inc_names_ok (pr_sd pr) && names_ok_rec (S (length fs)) fs com [] (pr_sd pr) (pr_count pr)
  end.
Lemma read_names_ok_core fs root com c u : fs_lookup (norm_path root) fs = Some u ->
  read_names_ok fs root com c = core_names_ok fs u root com c.
Proof. intros E. unfold read_names_ok. rewrite E. reflexivity. Qed.
Lemma core_rel_on fs u r1 r2 com c : same_file r1 r2 = true -> core_names_ok fs u r1 com c = true ->
  read_rel (ERg (dir_of r1) (dir_of r2)) (core fs u r1 true com c) (core fs u r2 true com c).
Proof.
  intros Hs Hn. destruct (same_file_dirs r1 r2 Hs) as (E & Hd1 & Hd2 & Hd). unfold core. unfold core_names_ok in Hn.
  pose proof (parse_unit_rel com r1 r2 c u) as H.
  destruct (parse_unit com r1 c u) as [p1|e1], (parse_unit com r2 c u) as [p2|e2]; cbn [rrel] in H; try contradiction; [|exact H].
  apply andb_true_iff in Hn. destruct Hn as [Hn1 Hn2]. destruct H as [Hp Hc].
  assert (Hg : sdrel (ERg (dir_of r1) (dir_of r2)) (pr_sd p1) (pr_sd p2)).
  { apply (sdrel_glob (dir_of r1) (dir_of r2) []); [exact tsok_nil| |exact Hn1]. cbn [pjoin flat_map]. rewrite !app_nil_r. exact Hp. }
  cbn [bind]. rewrite <- Hc. exact (merge_includes_rel (dir_of r1) (dir_of r2) Hd1 Hd2 Hd fs com _ _ (pr_count p1) Hg Hn2).
Qed.

(* the relation between the include tables of the two reads, by the includes option *)
Definition ER_sp (r1 r2 : str) (includes : bool) : include_entry -> include_entry -> Prop :=
  if includes then ERg (dir_of r1) (dir_of r2) else ER_dir (dir_of r1) (dir_of r2).
Lemma ER_sp_eqb r1 r2 inc a a' b b' : ER_sp r1 r2 inc a a' -> ER_sp r1 r2 inc b b' -> inc_eqb a b = inc_eqb a' b'.
Proof. destruct inc; [apply ERg_eqb|apply ER_dir_eqb]. Qed.
Lemma ER_sp_name r1 r2 inc a b : ER_sp r1 r2 inc a b -> snd (fst a) = snd (fst b).
Proof. destruct inc; [apply ERg_name|apply ER_dir_name]. Qed.

Lemma read_opts_rel fs r1 r2 inc order com scope c : same_file r1 r2 = true ->
  (inc = true -> read_names_ok fs r1 com c = true) ->
  orrel (ER_sp r1 r2 inc) (Parse.read_opts fs r1 inc order com scope c) (Parse.read_opts fs r2 inc order com scope c).
Proof.
  intros Hs Hn. pose proof (proj1 (same_file_dirs r1 r2 Hs)) as E. rewrite !read_opts_eq. rewrite <- E.
  destruct (Parse.scope_keys scope) as [sk|]; [|exact I].
  destruct (fs_lookup (norm_path r1) fs) as [u|] eqn:El; [|reflexivity].
  apply opts_tail_rel; [apply ER_sp_eqb|]. destruct inc; cbn [ER_sp].
  - apply core_rel_on; [exact Hs|]. rewrite <- (read_names_ok_core fs r1 com c u El). apply Hn. reflexivity.
  - apply core_rel_off.
Qed.

(* ---- DictWriter.write --------------------------------------------------------------------------------- *)
Section Write.
  Variable ER : include_entry -> include_entry -> Prop.
  Hypothesis ER_eqb : forall a a' b b', ER a a' -> ER b b' -> inc_eqb a b = inc_eqb a' b'.
  Hypothesis ER_name : forall a b, ER a b -> snd (fst a) = snd (fst b).

  Lemma write_sd_rel fs foam t1 t2 append order s1 s2 c : sdrel ER s1 s2 -> norm_path t1 = norm_path t2 ->
    (append = true -> fs_lookup (norm_path t1) fs <> None ->
     orrel ER (Parse.read_opts fs t1 true order true [] c) (Parse.read_opts fs t2 true order true [] c)) ->
    Parse.write_sd fs foam t1 append order s1 c = Parse.write_sd fs foam t2 append order s2 c.
  Proof.
    intros Hs Et Hr. pose proof Hs as (Hd & Hl & Hb & Hi & He). unfold Parse.write_sd. rewrite Hd, <- Et.
    destruct (parse_values_tree (Dict (sd_data s2))) as [t|e]; [|reflexivity]. cbv zeta.
    assert (Hsrc : sdrel ER (mkSD (kvs_of_tree t) (sd_lc s1) (sd_bc s1) (sd_inc s1) (sd_expr s1))
                            (mkSD (kvs_of_tree t) (sd_lc s2) (sd_bc s2) (sd_inc s2) (sd_expr s2))) by (rewrite Hl, Hb, He; apply sdrel_mk; exact Hi).
    set (src1 := mkSD (kvs_of_tree t) (sd_lc s1) (sd_bc s1) (sd_inc s1) (sd_expr s1)) in *.
    set (src2 := mkSD (kvs_of_tree t) (sd_lc s2) (sd_bc s2) (sd_inc s2) (sd_expr s2)) in *.
    assert (Hfin : forall m1 m2, sdrel ER m1 m2 ->
              (if foam then foam_to_string_sd (if order then sd_order m1 else m1) else to_string_sd (if order then sd_order m1 else m1)) =
              (if foam then foam_to_string_sd (if order then sd_order m2 else m2) else to_string_sd (if order then sd_order m2 else m2))).
    { intros m1 m2 Hm. assert (Ho : sdrel ER (if order then sd_order m1 else m1) (if order then sd_order m2 else m2)) by (destruct order; [apply sd_order_rel|]; exact Hm).
      destruct foam; [apply (foam_to_string_sd_rel ER ER_name)|apply (to_string_sd_rel ER ER_name)]; exact Ho. }
    destruct append; [|cbv iota; rewrite (Hfin _ _ Hsrc); reflexivity].
    destruct (fs_lookup (norm_path t1) fs) as [u|] eqn:El; [|cbv iota; rewrite (Hfin _ _ Hsrc); reflexivity].
    specialize (Hr eq_refl ltac:(discriminate)).
    destruct (Parse.read_opts fs t1 true order true [] c) as [[[x1 k1]|e1]|], (Parse.read_opts fs t2 true order true [] c) as [[[x2 k2]|e2]|];
      cbn [orrel read_rel rrel fst snd] in Hr; try contradiction; [|subst e2; reflexivity|reflexivity].
    destruct Hr as [Hx Hk]. subst k2. cbv iota.
    rewrite (Hfin _ _ (sd_merge_rel ER ER_eqb x1 x2 (sd_data src1) (Some src1) (Some src2) Hx Hsrc)). reflexivity.
  Qed.
End Write.

(* ---- DictParser.parse ----------------------------------------------------------------------------------- *)
Definition pm_same (o1 o2 : option (res (str * str * Z))) : Prop :=
  match o1, o2 with
  | None, None => True
  | Some (Raise e1), Some (Raise e2) => e1 = e2
  | Some (Ok (t1, x1, c1)), Some (Ok (t2, x2, c2)) => norm_path t1 = norm_path t2 /\ x1 = x2 /\ c1 = c2
  | _, _ => False
  end.

(* a file name: non-empty, no slash *)
Definition name_plain (n : str) : bool := rel_name n && forallb (fun x => negb (x =? c_slash)) n.
Lemma name_plain_nosep n : name_plain n = true -> rel_name n = true /\ nosep n.
Proof.
  unfold name_plain. intros H. apply andb_true_iff in H. destruct H as [H1 H2]. split; [exact H1|].
  unfold nosep. apply Forall_forall. intros x Hx. rewrite forallb_forall in H2. specialize (H2 x Hx). apply negb_true_iff in H2. exact H2.
Qed.
Lemma dir_of_plain d n : is_dir d -> name_plain n = true -> dir_of (d ++ c_slash :: n) = d.
Proof.
  intros Hd Hn. destruct (name_plain_nosep n Hn) as [Hr Hs]. rewrite (dir_of_join d n Hd Hr).
  unfold ncomps, comps. rewrite (split_nosep n [] Hs). cbn [rev app filter].
  destruct n as [|x n]; [discriminate Hr|]. cbn [nonempty removelast pjoin flat_map]. apply app_nil_r.
Qed.

(* ---- the derived target name is a plain file name -------------------------------------------------------- *)
From DictIO Require WorkflowProofs.
Definition nslb (s : str) : bool := forallb (fun x => negb (x =? c_slash)) s.
Lemma nslb_app a b : nslb (a ++ b) = nslb a && nslb b.
Proof. apply forallb_app. Qed.
Lemma nslb_drop_n : forall n s, nslb s = true -> nslb (drop_n n s) = true.
Proof.
  induction n as [|n IH]; intros s H; [destruct s; exact H|]. destruct s as [|x s]; [reflexivity|].
  cbn [drop_n]. apply IH. cbn [nslb forallb] in H. apply andb_true_iff in H. exact (proj2 H).
Qed.
Lemma nslb_nosep s : nosep s -> nslb s = true.
Proof. intros H. unfold nslb. apply forallb_forall. intros x Hx. unfold nosep in H. rewrite Forall_forall in H. rewrite (H x Hx). reflexivity. Qed.
Lemma nslb_base_name p : nslb (base_name p) = true.
Proof.
  apply nslb_nosep. unfold base_name. pose proof (comps_nosep p) as H. unfold comps in H.
  induction H as [|c l Hc Hl IH]; [constructor|]. destruct l as [|c' l]; [exact Hc|exact IH].
Qed.
Lemma nslb_scalar_text v : nslb (Cli.scalar_text v) = true.
Proof.
  unfold Cli.scalar_text, nslb. rewrite forallb_forall. intros x Hx. apply in_map_iff in Hx. destruct Hx as (y & <- & _).
  destruct (y =? c_slash) eqn:E; [reflexivity|]. cbn [orb]. destruct (y =? c_bsl); [reflexivity|]. rewrite E. reflexivity.
Qed.
Lemma nslb_join_us : forall l, forallb nslb l = true -> nslb (Str.join [c_us] l) = true.
Proof.
  induction l as [|x l IH]; intros H; [reflexivity|]. cbn [forallb] in H. apply andb_true_iff in H. destruct H as [Hx Hl].
  destruct l as [|y l]; [exact Hx|]. change (Str.join [c_us] (x :: y :: l)) with (x ++ [c_us] ++ Str.join [c_us] (y :: l)).
  rewrite !nslb_app, Hx, (IH Hl). reflexivity.
Qed.
Lemma nslb_scope_suffix scope : nslb (WorkflowProofs.scope_suffix scope) = true.
Proof.
  destruct scope as [|v scope]; [reflexivity|]. unfold WorkflowProofs.scope_suffix. rewrite nslb_app.
  rewrite nslb_join_us; [reflexivity|]. apply forallb_forall. intros x Hx. apply in_map_iff in Hx. destruct Hx as (y & <- & _). apply nslb_scalar_text.
Qed.
Lemma nslb_out_ext output ending : nslb ending = true -> nslb (WorkflowProofs.out_ext output ending) = true.
Proof.
  intros He. unfold WorkflowProofs.out_ext. destruct output as [o|]; [|exact He]. destruct (nonempty o); [|exact He]. cbv zeta.
  destruct (str_eqb o (of_string "cpp")) eqn:E1; [apply ScalarProofs.str_eqb_eq in E1; subst o; reflexivity|].
  destruct (str_eqb o (of_string "foam")) eqn:E2; [apply ScalarProofs.str_eqb_eq in E2; subst o; reflexivity|].
  destruct (str_eqb o (of_string "json")) eqn:E3; [apply ScalarProofs.str_eqb_eq in E3; subst o; reflexivity|].
  destruct (str_eqb o (of_string "xml")) eqn:E4; [apply ScalarProofs.str_eqb_eq in E4; subst o; reflexivity|].
  reflexivity.
Qed.
Lemma target_name_plain p scope output :
  name_plain (Cli.target_file_name (base_name p) (Some (of_string "parsed")) scope output) = true.
Proof.
  destruct (WorkflowProofs.target_shape (base_name p) scope output) as (stem & ending & E & Hse).
  change (of_string "parsed") with MiscSpec.w_parsed. rewrite E. unfold name_plain. apply andb_true_iff. split; [reflexivity|].
  fold (nslb (MiscSpec.w_parsed ++ [c_dot] ++ stem ++ WorkflowProofs.scope_suffix scope ++ WorkflowProofs.out_ext output ending)).
  assert (Hs : nslb (stem ++ ending) = true).
  { rewrite Hse. unfold WorkflowProofs.strip_parsed. destruct (starts_with _ _); [apply nslb_drop_n|]; apply nslb_base_name. }
  rewrite nslb_app in Hs. apply andb_true_iff in Hs. destruct Hs as [Hs1 Hs2].
  rewrite !nslb_app, Hs1, nslb_scope_suffix, (nslb_out_ext output ending Hs2). reflexivity.
Qed.

(* the side condition of the append mode, on the first run: when the target exists, the read of the target meets relative
   include names only, and so does the include table of the source when it was read with includes off *)
Definition pm_append_side (fs : fsys) (src : str) (includes order comments : bool) (scope : list scalar)
           (output : option str) (count : Z) : bool :=
  match Parse.read_opts fs src includes order comments scope count with
  | Some (Ok (s, c)) =>
      let name := Cli.target_file_name (base_name src) (Some (of_string "parsed")) scope output in
      let target := dir_of src ++ [c_slash] ++ name in
      match fs_lookup (norm_path target) fs with
      | None => true
      | Some _ => read_names_ok fs target true c && (includes || inc_names_ok s)
      end
  | _ => true
  end.

Lemma sdrel_sp_glob r1 r2 inc s1 s2 : sdrel (ER_sp r1 r2 inc) s1 s2 -> (inc || inc_names_ok s1) = true ->
  sdrel (ERg (dir_of r1) (dir_of r2)) s1 s2.
Proof.
  destruct inc; cbn [ER_sp orb]; intros H Hn; [exact H|].
  apply (sdrel_glob (dir_of r1) (dir_of r2) []); [exact tsok_nil| |exact Hn]. cbn [pjoin flat_map]. rewrite !app_nil_r. exact H.
Qed.

Theorem parse_model_spelling fs r1 r2 inc append order com scope output c :
  same_file r1 r2 = true -> base_name r1 = base_name r2 ->
  (inc = true -> read_names_ok fs r1 com c = true) ->
  (append = true -> pm_append_side fs r1 inc order com scope output c = true) ->
  pm_same (Parse.parse_model fs r1 inc append order com scope output c) (Parse.parse_model fs r2 inc append order com scope output c).
Proof.
  intros Hs Hb Hn Ha. unfold Parse.parse_model. destruct (Parse.output_kind output) as [foam0|]; [|exact I].
  pose proof (read_opts_rel fs r1 r2 inc order com scope c Hs Hn) as Hr. unfold pm_append_side in Ha.
  destruct (Parse.read_opts fs r1 inc order com scope c) as [[[s1 k1]|e1]|], (Parse.read_opts fs r2 inc order com scope c) as [[[s2 k2]|e2]|];
    cbn [orrel read_rel rrel fst snd] in Hr; try contradiction; [|exact Hr|exact I].
  destruct Hr as [Hsd Hk]. subst k2. rewrite <- Hb.
  set (name := Cli.target_file_name (base_name r1) (Some (of_string "parsed")) scope output) in *. cbv zeta in Ha |- *.
  destruct (ends_with (of_string ".json") name || ends_with (of_string ".xml") name); [exact I|].
  destruct (same_file_dirs r1 r2 Hs) as (E & Hd1 & Hd2 & Hd).
  assert (Et : norm_path (dir_of r1 ++ [c_slash] ++ name) = norm_path (dir_of r2 ++ [c_slash] ++ name)).
  { apply norm_eq_stack. cbn [app]. rewrite !dstack_slash, Hd. reflexivity. }
  assert (Hw : Parse.write_sd fs (foam0 || ends_with (of_string ".foam") name) (dir_of r1 ++ [c_slash] ++ name) append order s1 k1 =
               Parse.write_sd fs (foam0 || ends_with (of_string ".foam") name) (dir_of r2 ++ [c_slash] ++ name) append order s2 k1).
  { destruct append.
    - specialize (Ha eq_refl).
      destruct (fs_lookup (norm_path (dir_of r1 ++ [c_slash] ++ name)) fs) as [u|] eqn:El.
      + apply andb_true_iff in Ha. destruct Ha as [Ha2 Ha3]. pose proof (target_name_plain r1 scope output) as Ha1. fold name in Ha1.
        cbn [app] in *.
        assert (Hst : same_file (dir_of r1 ++ c_slash :: name) (dir_of r2 ++ c_slash :: name) = true).
        { apply same_file_spec. split; [exact Et|]. rewrite !dir_of_plain by assumption. apply norm_eq_stack. exact Hd. }
        apply (write_sd_rel (ERg (dir_of r1) (dir_of r2)) (ERg_eqb _ _) (ERg_name _ _)); [exact (sdrel_sp_glob r1 r2 inc s1 s2 Hsd Ha3)|exact Et|].
        intros _ _. pose proof (read_opts_rel fs _ _ true order true [] k1 Hst (fun _ => Ha2)) as Hro. cbn [ER_sp] in Hro.
        rewrite !dir_of_plain in Hro by assumption. exact Hro.
      + apply (write_sd_rel (ER_sp r1 r2 inc) (ER_sp_eqb r1 r2 inc) (ER_sp_name r1 r2 inc)); [exact Hsd|exact Et|].
        intros _ Hne. cbn [app] in *. congruence.
    - apply (write_sd_rel (ER_sp r1 r2 inc) (ER_sp_eqb r1 r2 inc) (ER_sp_name r1 r2 inc)); [exact Hsd|exact Et|]. intros H0. discriminate H0. }
  rewrite Hw. destruct (Parse.write_sd fs _ (dir_of r2 ++ [c_slash] ++ name) append order s2 k1) as [[[txt k']|e]|]; cbn [pm_same]; try reflexivity.
  split; [exact Et|]. split; reflexivity.
Qed.

(* read_opts in plain words *)
Definition same_opt_result (o1 o2 : option (res (sdict * Z))) : Prop :=
  match o1, o2 with None, None => True | Some a, Some b => same_result a b | _, _ => False end.
Lemma ER_sp_plain r1 r2 inc : same_file r1 r2 = true -> forall x1 n1 p1 x2 n2 p2,
  ER_sp r1 r2 inc (x1, n1, p1) (x2, n2, p2) -> x1 = x2 /\ n1 = n2 /\ norm_path p1 = norm_path p2.
Proof.
  intros Hs x1 n1 p1 x2 n2 p2 H. destruct inc; cbn [ER_sp] in H.
  - apply (ERg_on r1 r2 _ _ Hs) in H. destruct H as (-> & -> & E & _). repeat split. exact E.
  - destruct H as (-> & -> & -> & ->). repeat split. apply norm_path_join. apply same_file_spec in Hs. exact (proj2 Hs).
Qed.
Theorem read_opts_spelling fs r1 r2 inc order com scope c : same_file r1 r2 = true ->
  (inc = true -> read_names_ok fs r1 com c = true) ->
  same_opt_result (Parse.read_opts fs r1 inc order com scope c) (Parse.read_opts fs r2 inc order com scope c).
Proof.
  intros Hs Hn. pose proof (read_opts_rel fs r1 r2 inc order com scope c Hs Hn) as H.
  destruct (Parse.read_opts fs r1 inc order com scope c) as [a|], (Parse.read_opts fs r2 inc order com scope c) as [b|]; cbn [orrel] in H; try contradiction; [|exact I].
  cbn [same_opt_result]. exact (read_rel_same_result _ a b (ER_sp_plain r1 r2 inc Hs) H).
Qed.


(* ---- DictWriter.write of a plain dict (write_text): the target path as spelled ------------------------------ *)
Theorem write_text_spelling foam p1 p2 existing append d : same_file p1 p2 = true ->
  (forall text, existing = Some text -> append = true -> read_names_ok [(norm_path p1, FNative text)] p1 true (-1) = true) ->
  write_text foam p1 existing append d = write_text foam p2 existing append d.
Proof.
  intros Hs Hn. unfold write_text. destruct (parse_values_tree (Dict d)) as [t|e]; [|reflexivity]. cbn [bind].
  destruct existing as [text|]; [|reflexivity]. destruct append; [|reflexivity].
  pose proof (proj1 (same_file_dirs p1 p2 Hs)) as E. rewrite <- E.
  pose proof (read_plain_on_rel [(norm_path p1, FNative text)] p1 p2 true (-1)%Z Hs (Hn text eq_refl eq_refl)) as H.
  destruct (read_plain [(norm_path p1, FNative text)] p1 true true (-1)) as [[s1 k1]|e1],
           (read_plain [(norm_path p1, FNative text)] p2 true true (-1)) as [[s2 k2]|e2]; cbn [read_rel rrel fst snd] in H; try contradiction;
    [|subst e2; reflexivity].
  destruct H as [H _]. cbn [bind fst].
  pose proof (sd_merge_rel _ (ERg_eqb (dir_of p1) (dir_of p2)) s1 s2 (kvs_of_tree t) None None H I) as Hm.
  destruct foam; f_equal; [apply (foam_to_string_sd_rel _ (ERg_name (dir_of p1) (dir_of p2)))|apply (to_string_sd_rel _ (ERg_name (dir_of p1) (dir_of p2)))]; exact Hm.
Qed.
