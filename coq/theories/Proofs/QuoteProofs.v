(* C01 layer (b) and C10 lemmas: quoting class / literal extraction / underscore-key stripping. *)
From Coq Require Import NArith ZArith List Bool Lia.
From DictIO Require Import Chars Str Value Scalar KeyPath SDict Layout Lexer TokParser TreeSpec NativeSpec.
Import ListNotations.
Open Scope N_scope.

(* ---- literal extraction ------------------------------------------------------------------------ *)

(* one-character closer [q] not occurring in s: the literal ends at the first q, whatever follows *)
Lemma until_closer_single (q : N) : forall (s acc rest : list N),
  existsb (N.eqb q) s = false ->
  until_closer [q] acc (s ++ q :: rest) = Some (rev acc ++ s ++ [q], rest).
Proof.
  induction s as [|c s IH]; intros acc rest Hno.
  - cbn [app until_closer starts_with]. rewrite N.eqb_refl. cbn. reflexivity.
  - cbn [existsb] in Hno. apply orb_false_iff in Hno. destruct Hno as [Hc Hs].
    change ((c :: s) ++ q :: rest) with (c :: (s ++ q :: rest)).
    cbn [until_closer starts_with]. rewrite Hc. cbn [andb].
    rewrite (IH (c :: acc) rest Hs). cbn [rev]. rewrite <- app_assoc. reflexivity.
Qed.

Lemma quoted_literal_found (q : N) : q <> c_bsl -> forall (s rest : list N),
  existsb (N.eqb q) s = false ->
  quoted_at q false ((q :: s ++ [q]) ++ rest) = Some (q :: s ++ [q], rest).
Proof.
  intros Hq s rest Hno.
  assert (Hqb : (q =? c_bsl) = false) by (apply N.eqb_neq; exact Hq).
  unfold quoted_at, opener_at. cbn [app count_bsl]. rewrite Hqb. cbn [drop_n].
  rewrite N.eqb_refl. cbn [Nat.eqb orb andb repeat app length drop_n].
  rewrite <- app_assoc. cbn [app].
  pose proof (until_closer_single q s [] rest Hno) as Hu.
  match goal with
  | |- context [until_closer ?a ?b ?c] =>
      replace (until_closer a b c) with (Some (rev [] ++ s ++ [q], rest)) by (symmetry; exact Hu)
  end.
  cbn [rev app]. reflexivity.
Qed.

Lemma sq_literal_found : forall s rest, no_sq s = true ->
  quoted_at c_sq false (sq s ++ rest) = Some (sq s, rest).
Proof.
  intros s rest Hno. unfold sq.
  apply quoted_literal_found.
  - unfold c_sq, c_bsl. discriminate.
  - unfold no_sq, has_char in Hno. apply negb_true_iff in Hno. exact Hno.
Qed.

Lemma dq_literal_found : forall s rest, no_dq s = true ->
  quoted_at c_dq false (dq s ++ rest) = Some (dq s, rest).
Proof.
  intros s rest Hno. unfold dq.
  apply quoted_literal_found.
  - unfold c_dq, c_bsl. discriminate.
  - unfold no_dq, has_char in Hno. apply negb_true_iff in Hno. exact Hno.
Qed.

(* a double-quoted literal is not mistaken for a single-quoted one at its first character *)
Lemma dq_not_sq_opener : forall s rest, quoted_at c_sq false (dq s ++ rest) = None.
Proof. intros s rest. reflexivity. Qed.

(* ---- remove_quotes ----------------------------------------------------------------------------- *)

Lemma remove_quotes_wrapped (q : N) (s : list N) : is_quote q = true -> remove_quotes (q :: s ++ [q]) = s.
Proof.
  intros Hq. unfold remove_quotes. cbn [strip_lead_quote]. rewrite Hq.
  unfold strip_trail_quote. rewrite rev_app_distr. cbn [rev app]. rewrite Hq.
  apply rev_involutive.
Qed.

Lemma unquote_quoted : forall s, remove_quotes (sq s) = s /\ remove_quotes (dq s) = s.
Proof.
  intros s. split.
  - unfold sq. apply remove_quotes_wrapped. reflexivity.
  - unfold dq. apply remove_quotes_wrapped. reflexivity.
Qed.

(* ---- the writer's choice ------------------------------------------------------------------------ *)

Lemma bare_chars (s : list N) :
  existsb (N.eqb c_dq) s = false -> existsb (N.eqb c_sq) s = false -> existsb is_struct_char s = false ->
  forallb (fun c => negb (is_struct_char c || is_quote c)) s = true.
Proof.
  induction s as [|c s IH]; intros Hd Hs Hm.
  - reflexivity.
  - cbn [existsb] in Hd, Hs, Hm.
    apply orb_false_iff in Hd. destruct Hd as [Hd1 Hd2].
    apply orb_false_iff in Hs. destruct Hs as [Hs1 Hs2].
    apply orb_false_iff in Hm. destruct Hm as [Hm1 Hm2].
    cbn [forallb]. rewrite (IH Hd2 Hs2 Hm2). rewrite andb_true_r.
    rewrite Hm1. unfold is_quote.
    rewrite (N.eqb_sym c c_sq), (N.eqb_sym c c_dq), Hs1, Hd1. reflexivity.
Qed.

Lemma format_string_choice : forall s, has_char c_dollar s = false -> (has_char c_sq s && has_char c_dq s) = false ->
  (format_string s = sq s /\ no_sq s = true) \/
  (format_string s = dq s /\ no_dq s = true) \/
  (format_string s = s /\ nonempty s = true /\ forallb (fun c => negb (is_struct_char c || is_quote c)) s = true).
Proof.
  intros s Hdol Hboth.
  unfold format_string, classify_string, no_sq, no_dq. rewrite Hdol.
  destruct (nonempty s) eqn:Hne; cbn [negb].
  - destruct (has_char c_dq s) eqn:Hd.
    + left. split; [reflexivity|]. rewrite andb_true_r in Hboth. rewrite Hboth. reflexivity.
    + destruct (has_char c_sq s) eqn:Hs.
      * right. left. split; reflexivity.
      * destruct (existsb is_struct_char s) eqn:Hm.
        -- left. split; reflexivity.
        -- right. right. split; [reflexivity|]. split; [reflexivity|].
           apply bare_chars; assumption.
  - left. split; [reflexivity|].
    destruct s as [|c s]; [reflexivity|discriminate].
Qed.

Lemma foam_format_choice : forall s, has_char c_dollar s = false -> has_char c_dq s = false ->
  (foam_format_string s = dq s) \/
  (foam_format_string s = s /\ nonempty s = true /\ forallb (fun c => negb (is_struct_char c || is_quote c)) s = true).
Proof.
  intros s Hdol Hd.
  unfold foam_format_string, classify_string. rewrite Hdol, Hd.
  destruct (nonempty s) eqn:Hne; cbn [negb].
  - destruct (has_char c_sq s) eqn:Hs.
    + left. reflexivity.
    + destruct (existsb is_struct_char s) eqn:Hm.
      * left. reflexivity.
      * right. split; [reflexivity|]. split; [reflexivity|].
        apply bare_chars; assumption.
  - left. reflexivity.
Qed.

(* ---- Foam: no single quote introduced ----------------------------------------------------------- *)

Lemma has_char_app c (a b : list N) : has_char c (a ++ b) = has_char c a || has_char c b.
Proof. unfold has_char. apply existsb_app. Qed.

Lemma has_sq_dq (s : list N) : has_char c_sq s = false -> has_char c_sq (dq s) = false.
Proof.
  intros Hs. unfold dq.
  change (c_dq :: s ++ [c_dq]) with ([c_dq] ++ s ++ [c_dq]).
  rewrite !has_char_app, Hs. reflexivity.
Qed.

Lemma has_sq_escape (s : list N) : has_char c_sq s = false -> has_char c_sq (escape_dq s) = false.
Proof.
  unfold escape_dq.
  induction s as [|c s IH]; intros Hs.
  - reflexivity.
  - unfold has_char in Hs. cbn [existsb] in Hs.
    apply orb_false_iff in Hs. destruct Hs as [Hc Hs].
    cbn [flat_map]. rewrite has_char_app. rewrite (IH Hs). rewrite orb_false_r.
    destruct (c =? c_dq) eqn:Hcd.
    + reflexivity.
    + unfold has_char. cbn [existsb]. rewrite Hc. reflexivity.
Qed.

Lemma foam_no_single_quote : forall s, has_char c_sq s = false -> has_char c_sq (foam_format_string s) = false.
Proof.
  intros s Hs. unfold foam_format_string.
  destruct (classify_string s).
  - exact Hs.
  - apply has_sq_dq. exact Hs.
  - apply has_sq_dq. exact Hs.
  - apply has_sq_dq. apply has_sq_escape. exact Hs.
  - apply has_sq_dq. exact Hs.
  - apply has_sq_dq. exact Hs.
  - exact Hs.
Qed.

(* ---- strip_us ----------------------------------------------------------------------------------- *)

Fixpoint strip_kvs (l : list (key * tree)) : list (key * tree) :=
  match l with
  | [] => []
  | (k, c) :: l' => if us_key k then strip_kvs l' else (k, strip_us c) :: strip_kvs l'
  end.
Fixpoint us_kvs (l : list (key * tree)) : bool :=
  match l with [] => false | (k, c) :: l' => us_key k || has_us_key c || us_kvs l' end.
Fixpoint us_ts (l : list tree) : bool :=
  match l with [] => false | c :: l' => has_us_key c || us_ts l' end.

Lemma strip_us_dict kvs : strip_us (Dict kvs) = Dict (strip_kvs kvs).
Proof. reflexivity. Qed.

Lemma strip_us_lst ts : strip_us (Lst ts) = Lst (map strip_us ts).
Proof. reflexivity. Qed.

Lemma has_us_key_dict kvs : has_us_key (Dict kvs) = us_kvs kvs.
Proof. reflexivity. Qed.

Lemma has_us_key_lst ts : has_us_key (Lst ts) = us_ts ts.
Proof. reflexivity. Qed.

Lemma strip_us_removes_all : forall t, has_us_key (strip_us t) = false.
Proof.
  induction t as [v|kvs IH|ts IH] using tree_ind'.
  - reflexivity.
  - rewrite strip_us_dict, has_us_key_dict.
    induction IH as [|[k c] l Hc Hl IHl].
    + reflexivity.
    + cbn [strip_kvs]. cbn [snd] in Hc.
      destruct (us_key k) eqn:Hk.
      * exact IHl.
      * cbn [us_kvs]. rewrite Hk, Hc, IHl. reflexivity.
  - rewrite strip_us_lst, has_us_key_lst.
    induction IH as [|c l Hc Hl IHl].
    + reflexivity.
    + cbn [map us_ts]. rewrite Hc, IHl. reflexivity.
Qed.

Lemma strip_us_identity : forall t, has_us_key t = false -> strip_us t = t.
Proof.
  induction t as [v|kvs IH|ts IH] using tree_ind'; intros Hno.
  - reflexivity.
  - rewrite strip_us_dict. rewrite has_us_key_dict in Hno. f_equal.
    induction IH as [|[k c] l Hc Hl IHl].
    + reflexivity.
    + cbn [us_kvs] in Hno. cbn [snd] in Hc.
      apply orb_false_iff in Hno. destruct Hno as [Hno Hrest].
      apply orb_false_iff in Hno. destruct Hno as [Hk Hcc].
      cbn [strip_kvs]. rewrite Hk, (Hc Hcc), (IHl Hrest). reflexivity.
  - rewrite strip_us_lst. rewrite has_us_key_lst in Hno. f_equal.
    induction IH as [|c l Hc Hl IHl].
    + reflexivity.
    + cbn [us_ts] in Hno.
      apply orb_false_iff in Hno. destruct Hno as [Hcc Hrest].
      cbn [map]. rewrite (Hc Hcc), (IHl Hrest). reflexivity.
Qed.
