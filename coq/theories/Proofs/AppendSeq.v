(* C16 through re-parsing: any number of writes to one target.
   What DictWriter.write leaves in the file, read back with DictReader.read, for a whole sequence of writes (append
   and overwrite steps mixed): the data read back after the last write is the fold of the first-wins recursive merge
   over the dicts as the reader classifies them; an overwrite (or a write to a target that does not exist) restarts the
   fold.  The file of a sequence that started from an absent target holds at most one comment, the default header
   (written by the first append onto an existing file); the read-back states therefore have one of two shapes. *)
From Coq Require Import String.
From Coq Require Import NArith ZArith List Bool Lia.
From DictIO Require Import Chars Str Value Scalar KeyPath SDict Layout Lexer TokParser Reader TreeSpec NativeSpec LayoutSpec E2ESpec MiscSpec.
From DictIO Require ScalarProofs TokProofs KeyPathProofs.
From DictIO Require Import SDictProofs WriteProofs.
From DictIO Require Import E2EProofs E2EHoles E2EInsert E2EKeyTok E2EFullProofs.
From DictIO Require Import RereadPlain RereadStr RereadTree RereadWrite RereadLex RereadNum RereadProofs RereadFix RereadOff.
Import ListNotations.
Open Scope N_scope.

(* ================================================================================================ *)
(* 1. plain documents (simple keys, writable leaves, no comment entries) in the comment vocabulary   *)
(* ================================================================================================ *)

Lemma plain_facts : forall t, ktree writable_leaf t = true ->
  match t with Dict _ => cshape t = true /\ cstrip t = t | _ => True end.
Proof.
  induction t as [v|kvs IH|ts IH] using tree_ind'; intros H; try exact I.
  rewrite cstrip_dict. induction IH as [|[k c] kvs Hc _ IHk]; [split; reflexivity|].
  rewrite ktree_dict_cons in H. apply andb_true_iff in H. destruct H as [H H3].
  apply andb_true_iff in H. destruct H as [H1 H2]. cbn [snd] in Hc.
  destruct (IHk H3) as [I1 I2]. injection I2 as I2.
  rewrite cshape_cons, I1, andb_true_r. cbn [flat_map]. rewrite I2.
  unfold cshape_entry, cstrip_entry. rewrite (cm_entry_simple k c H1). cbn [fst snd]. rewrite H1. cbn [andb app].
  destruct c as [v|d|l].
  - split; [exact H2|reflexivity].
  - destruct (Hc H2) as [C1 C2]. rewrite C1, C2. split; reflexivity.
  - split; [exact H2|reflexivity].
Qed.

Lemma plain_cshape d : ktree writable_leaf (Dict d) = true -> cshape (Dict d) = true.
Proof. intros H. exact (proj1 (plain_facts (Dict d) H)). Qed.
Lemma plain_cstrip d : ktree writable_leaf (Dict d) = true -> cstrip (Dict d) = Dict d.
Proof. intros H. exact (proj2 (plain_facts (Dict d) H)). Qed.

Lemma plain_cmapg g f d : ktree writable_leaf (Dict d) = true -> cmapg g f (Dict d) = map_leaves f (Dict d).
Proof.
  intros H. rewrite <- (plain_cstrip d H) at 1. rewrite (cmapg_cstrip g f (Dict d) (plain_cshape d H)), (plain_cstrip d H). reflexivity.
Qed.

Lemma ordinary_evs_cms es : cms_of (ordinary_evs es) = [].
Proof.
  induction es as [|e es IH]; [reflexivity|]. unfold ordinary_evs in *. cbn [filter].
  destruct e; cbn [is_cmE negb cms_of ev_cm]; exact IH.
Qed.

Lemma plain_cms d lvl : ktree writable_leaf (Dict d) = true -> cms_of (events lvl (Dict d)) = [].
Proof.
  intros H. rewrite <- (plain_cstrip d H), (events_cstrip (Dict d) lvl (plain_cshape d H)). apply ordinary_evs_cms.
Qed.

Lemma plain_no_bc d : ktree writable_leaf (Dict d) = true ->
  filter is_bc_entry d = [] /\ filter (fun kc => negb (is_bc_entry kc)) d = d.
Proof.
  intros H. pose proof (ktree_dict_keys _ d H) as Hk.
  assert (G : forall kc, In kc d -> is_bc_entry kc = false).
  { intros [k c] Hin. unfold is_bc_entry. rewrite (cm_entry_simple k c (Hk (k, c) Hin)). reflexivity. }
  clear H Hk. induction d as [|kc d IH]; [split; reflexivity|].
  destruct (IH (fun x Hx => G x (or_intror Hx))) as [I1 I2]. cbn [filter].
  rewrite (G kc (or_introl eq_refl)). cbn [negb]. rewrite I1, I2. split; reflexivity.
Qed.

Lemma plain_key_not_ph d w i : ktree writable_leaf (Dict d) = true -> cw w -> ~ In (KS (placeholder w i)) (map fst d).
Proof.
  intros H Hw Hin. apply in_map_iff in Hin. destruct Hin as ([k c] & Ek & Hin). cbn [fst] in Ek. subst k.
  exact (simple_not_ph _ w i (ktree_dict_keys _ d H _ Hin) Hw eq_refl).
Qed.

(* ================================================================================================ *)
(* 2. the two shapes of a read-back state                                                           *)
(* ================================================================================================ *)
Definition hkey : key := KS (bph 0).
Definition hent : key * tree := (hkey, Leaf (SStr (bph 0))).
Definition htab : list (N * str) := [(0, nh_txt)].
(* what is read back from a text without comments / from a text that begins with the default header *)
Definition st_plain (d : list (key * tree)) : sdict := mkSD d [] [] [] [].
Definition st_hdr (d : list (key * tree)) : sdict := mkSD (hent :: d) [] htab [] [].
Definition st_of (hd : bool) (d : list (key * tree)) : sdict := if hd then st_hdr d else st_plain d.

(* the writer domain for plain dicts, as in C01_roundtrip / C03_plain_fixed_point (the bound on the number of quoted
   literals is kept apart: it is about the whole file) *)
Definition wdom (d : list (key * tree)) : bool :=
  wf (Dict d) && writable_tree (Dict d) && quoted_within 11 (Dict d).

Lemma wdom_inv d : wdom d = true ->
  wf (Dict d) = true /\ ktree writable_leaf (Dict d) = true /\ quoted_within 11 (Dict d) = true.
Proof.
  unfold wdom. intros H. apply andb_true_iff in H. destruct H as [H H3]. apply andb_true_iff in H. destruct H as [H1 H2].
  rewrite writable_ktree in H2. repeat split; assumption.
Qed.

Lemma hkey_fresh d : ktree writable_leaf (Dict d) = true -> alookup hkey d = None.
Proof.
  intros H. apply alookup_None_notin. exact (plain_key_not_ph d w_BLOCKCOMMENT 0 H (or_intror eq_refl)).
Qed.

Lemma wf_hent d : ktree writable_leaf (Dict d) = true -> wf (Dict d) = true -> wf (Dict (hent :: d)) = true.
Proof.
  intros Hk Hw. apply wf_Dict_iff in Hw. destruct Hw as [Hnd Hall]. apply wf_Dict_iff. split.
  - cbn [map fst hent]. constructor; [|exact Hnd]. exact (plain_key_not_ph d w_BLOCKCOMMENT 0 Hk (or_intror eq_refl)).
  - constructor; [reflexivity|exact Hall].
Qed.

Lemma cm_entry_hent : cm_entry hent = Some (bph 0, bph 0).
Proof. reflexivity. Qed.
Lemma cm_entry_hdr_entry : cm_entry hdr_entry = Some (w_BLOCKCOMMENT, nh_txt).
Proof. reflexivity. Qed.

Lemma canon_plain lc bc d : ktree writable_leaf (Dict d) = true -> canon_tree lc bc (Dict d) = Dict d.
Proof. intros H. unfold canon_tree. rewrite (plain_cmapg _ idf d H). exact (map_leaves_id _). Qed.

Lemma canon_st d hd : ktree writable_leaf (Dict d) = true -> canon (st_of hd d) = if hd then hdr_entry :: d else d.
Proof.
  intros H. destruct hd; unfold canon, st_of, st_hdr, st_plain; cbn [sd_data sd_lc sd_bc].
  - unfold canon_tree. rewrite cmapg_dict. cbn [map kvs_of]. f_equal.
    pose proof (canon_plain [] htab d H) as E. unfold canon_tree in E. rewrite cmapg_dict in E. injection E as E. exact E.
  - rewrite (canon_plain [] [] d H). reflexivity.
Qed.

Lemma csort_hdr_plain d : ktree writable_leaf (Dict d) = true -> csort (hdr_entry :: d) = hdr_entry :: d /\ csort d = d.
Proof.
  intros H. destruct (plain_no_bc d H) as [E1 E2]. unfold csort. cbn [filter].
  change (is_bc_entry hdr_entry) with true. cbn [negb]. rewrite E1, E2. split; reflexivity.
Qed.

Lemma written_doc_st d hd : ktree writable_leaf (Dict d) = true -> written_doc (st_of hd d) = hdr_entry :: d.
Proof.
  intros H. unfold written_doc. rewrite (canon_st d hd H). destruct (csort_hdr_plain d H) as [E1 E2]. unfold hdr.
  destruct hd.
  - rewrite E1. reflexivity.
  - rewrite E2. assert (Hh : has_header d = false).
    { destruct d as [|[k c] d']; [reflexivity|]. cbn [has_header].
      rewrite (cm_entry_simple k c (ktree_dict_keys _ _ H (k, c) (or_introl eq_refl))). reflexivity. }
    rewrite Hh. reflexivity.
Qed.

Lemma cms_hdr_doc d : ktree writable_leaf (Dict d) = true -> cms (Dict (hdr_entry :: d)) = [(0%nat, w_BLOCKCOMMENT, nh_txt)].
Proof. intros H. unfold cms. rewrite hdr_entry_events. cbn [cms_of ev_cm]. rewrite (plain_cms d 0 H). reflexivity. Qed.

Lemma cstrip_hdr_doc d : ktree writable_leaf (Dict d) = true -> cstrip (Dict (hdr_entry :: d)) = Dict d.
Proof.
  intros H. rewrite cstrip_dict. cbn [flat_map]. change (cstrip_entry hdr_entry) with (@nil (key * tree)). cbn [app].
  rewrite <- cstrip_dict. exact (plain_cstrip d H).
Qed.

Lemma cdoc_ok_hdr d : wdom d = true -> cdoc_ok (hdr_entry :: d) = true.
Proof.
  intros Hd. destruct (wdom_inv d Hd) as (Hw & Hk & Hq). unfold cdoc_ok.
  rewrite cshape_cons, (plain_cshape d Hk), (cstrip_hdr_doc d Hk), Hw, Hq.
  unfold lc_texts, bc_texts. rewrite (cms_hdr_doc d Hk). vm_compute. reflexivity.
Qed.

Lemma sort_top_hent d : ktree writable_leaf (Dict d) = true -> sort_top (hent :: d) = hent :: d.
Proof.
  intros H. pose proof (ktree_dict_keys _ d H) as Hk. unfold sort_top. cbn [filter fst hent].
  change (is_block_key hkey) with true. change (is_include_key hkey) with false.
  rewrite (filter_none (fun kv => is_block_key (fst kv))) by (intros kc Hin; exact (proj1 (simple_key_unsorted _ (Hk kc Hin)))).
  rewrite (filter_none (fun kv => is_include_key (fst kv))) by (intros kc Hin; exact (proj2 (simple_key_unsorted _ (Hk kc Hin)))).
  cbn [aupdate fold_left fst]. change (amem hkey [hent]) with true. cbn [negb app]. f_equal.
  clear H. induction d as [|[k c] d IH]; [reflexivity|]. cbn [filter fst].
  assert (E : key_eqb k hkey = false).
  { apply key_eqb_neq. intros ->. exact (simple_not_ph _ w_BLOCKCOMMENT 0 (Hk (hkey, c) (or_introl eq_refl)) (or_intror eq_refl) eq_refl). }
  unfold amem at 1. unfold hent at 1. cbn [alookup]. rewrite E. cbn [negb]. f_equal. apply IH. intros kc Hin. apply Hk. right. exact Hin.
Qed.

Lemma rereadable_st d hd : wdom d = true -> rereadable (st_of hd d) = true.
Proof.
  intros Hd. destruct (wdom_inv d Hd) as (Hw & Hk & Hq). unfold rereadable.
  rewrite (written_doc_st d hd Hk : hdr (canon (st_of hd d)) = _), (cdoc_ok_hdr d Hd), andb_true_r.
  destruct hd; unfold st_of, st_hdr, st_plain; cbn [sd_data sd_lc sd_bc sd_inc sd_expr].
  - rewrite (wf_hent d Hk Hw), cshape_cons, (plain_cshape d Hk).
    assert (Ec : cms (Dict (hent :: d)) = [(0%nat, bph 0, bph 0)]).
    { unfold cms. rewrite events_cons. unfold entry_events. rewrite cm_entry_hent. cbn [app cms_of ev_cm]. rewrite (plain_cms d 0 Hk). reflexivity. }
    rewrite Ec.
    assert (Eh : hdr_marked (mkSD (hent :: d) [] htab [] []) = true).
    { unfold hdr_marked, hk_s. cbn [sd_data sd_bc]. rewrite (sort_top_hent d Hk), events_cons. unfold entry_events. rewrite cm_entry_hent.
      vm_compute. reflexivity. }
    rewrite Eh. vm_compute. reflexivity.
  - rewrite Hw, (plain_cshape d Hk). unfold cms. rewrite (plain_cms d 0 Hk).
    cbn [map existsb negb]. rewrite orb_true_r. reflexivity.
Qed.

(* ---- the re-read state: number (-1) of the written document ---------------------------------------- *)
Lemma plain_cnq : forall t, ktree writable_leaf t = true -> match t with Dict _ => cnqT t = nq t | _ => True end.
Proof.
  induction t as [v|kvs IH|ts IH] using tree_ind'; intros H; try exact I.
  induction IH as [|[k c] kvs Hc _ IHk]; [reflexivity|].
  rewrite ktree_dict_cons in H. apply andb_true_iff in H. destruct H as [H H3].
  apply andb_true_iff in H. destruct H as [H1 H2]. cbn [snd] in Hc.
  rewrite cnqT_cons, nq_dict_cons, (IHk H3). f_equal. unfold cnq_entry. rewrite (cm_entry_simple k c H1). cbn [snd].
  destruct c as [v|d|l]; try reflexivity. exact (Hc H2).
Qed.

Lemma lists_hdr_doc d : ktree writable_leaf (Dict d) = true ->
  lc_list (hdr_entry :: d) = [] /\ bc_list (hdr_entry :: d) = [nh_txt] /\ length (lit_list (hdr_entry :: d)) = nq (Dict d).
Proof.
  intros H. unfold lc_list, bc_list, lit_list. rewrite lcx_texts, bcx_texts. fold (cms (Dict (hdr_entry :: d))).
  rewrite (cms_hdr_doc d H). split; [reflexivity|]. split; [reflexivity|].
  rewrite hdr_entry_events. unfold lits. cbn [flat_map ev_lits app]. fold (lits (events 0 (Dict d))).
  rewrite (proj2 (events_clabel (Dict d) 0%nat [] (plain_cshape d H))). exact (plain_cnq (Dict d) H).
Qed.

Lemma number_hdr_doc d count : ktree writable_leaf (Dict d) = true ->
  number count (hdr_entry :: d) = st_hdr (reread_plain d).
Proof.
  intros H. destruct (lists_hdr_doc d H) as (E1 & E2 & _). unfold number, lc_tab, bc_tab. rewrite E1, E2.
  cbn [length ids idsZ map combine number_from]. unfold st_hdr. f_equal.
  unfold numT. rewrite cmapg_dict. cbn [map kvs_of]. f_equal.
  pose proof (plain_cmapg (gkv (numx [] [(0, nh_txt)]) (numx [] [(0, nh_txt)])) written_value d H) as E.
  rewrite cmapg_dict, TokProofs.map_leaves_dict in E. injection E as E. rewrite E.
  unfold reread_plain. rewrite TokProofs.map_leaves_dict. reflexivity.
Qed.

(* ================================================================================================ *)
(* 3. reading back what was written                                                                 *)
(* ================================================================================================ *)
(* the text of an append step (NativeFormatter.to_string on a state of either shape) is read back as the data, every
   leaf as the classifier reads its written form, behind the header entry *)
Lemma parse_written_sd d hd dir count : wdom d = true -> (Z.of_nat (nq (Dict d)) <= 1000000)%Z -> (-1 <= count)%Z ->
  exists c', parse_string true dir count (to_string_sd (st_of hd d)) = Ok (mkParsed (st_hdr (reread_plain d)) c').
Proof.
  intros Hd Hn Hc. destruct (wdom_inv d Hd) as (Hw & Hk & Hq). destruct (lists_hdr_doc d Hk) as (E1 & E2 & E3).
  pose proof (reread_sd (st_of hd d) dir count (rereadable_st d hd Hd) Hc) as R.
  rewrite (written_doc_st d hd Hk), E1, E2, E3 in R. rewrite (number_hdr_doc d count Hk) in R.
  eexists. apply R; cbn [length]; lia.
Qed.

(* the text of a first write / an overwrite (to_string_plain) *)
Lemma parse_written_plain d dir count : wdom d = true -> (Z.of_nat (nq (Dict d)) <= 1000000)%Z -> (-1 <= count)%Z ->
  exists c', parse_string true dir count (to_string_plain d) = Ok (mkParsed (st_plain (reread_plain d)) c').
Proof.
  intros Hd Hn Hc. unfold wdom in Hd. apply andb_true_iff in Hd. destruct Hd as [Hd H3]. apply andb_true_iff in Hd. destruct Hd as [H1 H2].
  exact (roundtrip_native_partial d dir count H1 H2 Hc Hn H3).
Qed.

(* ---- DictReader.read of a file without includes ----------------------------------------------------- *)
(* merging a dict into itself changes nothing (the reader does this once after the include pass) *)
Lemma merge_kvs_self : forall f top d, wf (Dict d) = true -> merge_kvs f top d d = d.
Proof.
  induction f as [|f IH]; intros top d Hw; [reflexivity|]. rewrite WriteProofs.merge_kvs_S.
  apply wf_Dict_iff in Hw. destruct Hw as [Hnd Hall].
  assert (G : forall l, (forall kv, In kv l -> In kv d) -> fold_left (kstep f top) l d = d).
  { induction l as [|[k ov] l IHl]; intros Hsub; [reflexivity|]. cbn [fold_left].
    assert (Hin : In (k, ov) d) by (apply Hsub; left; reflexivity).
    assert (Hl : alookup k d = Some ov) by (apply alookup_In_nodup; assumption).
    assert (Es : kstep f top d (k, ov) = d).
    { unfold kstep. rewrite Hl. destruct ov as [v|osub|ts].
      - destruct top as [exprs|]; [|reflexivity]. destruct (circular k (insert_expression (Leaf v) exprs)); [|reflexivity].
        apply aset_same. exact Hl.
      - rewrite Forall_forall in Hall. pose proof (Hall _ Hin) as Hws. unfold wfkv in Hws. cbn [snd] in Hws.
        rewrite (IH None osub Hws). apply aset_same. exact Hl.
      - destruct top as [exprs|]; [|reflexivity]. destruct (circular k (insert_expression (Lst ts) exprs)); [|reflexivity].
        apply aset_same. exact Hl. }
    rewrite Es. apply IHl. intros kv H. apply Hsub. right. exact H. }
  apply G. auto.
Qed.

Lemma ctabs_st hd d : ktree writable_leaf (Dict d) = true -> ctabs (sd_lc (st_of hd d)) (sd_bc (st_of hd d)) (Dict (sd_data (st_of hd d))).
Proof.
  intros H. pose proof (ktree_skeys _ _ H) as Hs. destruct hd; unfold st_of, st_hdr, st_plain; cbn [sd_lc sd_bc sd_data].
  - pose proof (ctabs_plain [] htab (Dict d) Hs) as Hc. cbn [ctabs] in Hc |- *. destruct Hc as (_ & _ & Hgo).
    assert (Hkeys : forall kd, keys_of_kind kd d = []).
    { intros kd. unfold keys_of_kind. apply filter_none. intros k Hin. apply in_map_iff in Hin. destruct Hin as (kc & <- & Hin).
      rewrite (simple_kind _ (ktree_dict_keys _ d H kc Hin)). reflexivity. }
    assert (E : forall kd, keys_of_kind kd (hent :: d) = match kd with PhBlock => [hkey] | _ => [] end).
    { intros kd. unfold keys_of_kind in *. cbn [map fst hent filter]. rewrite (Hkeys kd). destruct kd; reflexivity. }
    rewrite !E. split; [vm_compute; repeat constructor; intros []|]. split; [constructor|]. split; [exact I|exact Hgo].
  - exact (ctabs_plain [] [] (Dict d) Hs).
Qed.

Lemma sd_clean_st hd d : ktree writable_leaf (Dict d) = true -> wf (Dict d) = true -> sd_clean (st_of hd d) = st_of hd d.
Proof.
  intros Hk Hw. pose proof (ctabs_st hd d Hk) as Hc.
  destruct hd; unfold st_of, st_hdr, st_plain in *; cbn [sd_lc sd_bc sd_data] in Hc; apply sd_clean_keep; try exact Hc; [exact (wf_hent d Hk Hw)|exact Hw].
Qed.

Lemma wf_st hd d : ktree writable_leaf (Dict d) = true -> wf (Dict d) = true -> wf (Dict (sd_data (st_of hd d))) = true.
Proof. intros Hk Hw. destruct hd; [exact (wf_hent d Hk Hw)|exact Hw]. Qed.

Lemma str_eqb_refl' (a : str) : str_eqb a a = true.
Proof. apply SDictProofs.str_eqb_eq. reflexivity. Qed.

(* DictReader.read (includes and comments on) of a single file whose parse has one of the two shapes *)
Lemma read_plain_single p text count hd d c' : ktree writable_leaf (Dict d) = true -> wf (Dict d) = true ->
  parse_string true (dir_of p) count text = Ok (mkParsed (st_of hd d) c') ->
  read_plain [(norm_path p, FNative text)] p true true count = Ok (st_of hd d, c').
Proof.
  intros Hk Hw Hp. unfold read_plain. cbn [fs_lookup]. rewrite str_eqb_refl'. cbn [parse_unit]. rewrite Hp. cbn [bind pr_sd pr_count].
  assert (Hi : sd_inc (st_of hd d) = []) by (destruct hd; reflexivity).
  assert (E1 : sd_merge (st_of hd d) [] (Some sd_empty) = st_of hd d).
  { destruct hd; [exact (sd_clean_st true d Hk Hw)|exact (sd_clean_st false d Hk Hw)]. }
  assert (E2 : sd_merge (st_of hd d) (sd_data (st_of hd d)) (Some (st_of hd d)) = st_of hd d).
  { unfold sd_merge. rewrite (merge_kvs_self _ _ _ (wf_st hd d Hk Hw)).
    destruct hd; [exact (sd_clean_st true d Hk Hw)|exact (sd_clean_st false d Hk Hw)]. }
  unfold merge_includes. cbn [length]. cbn [merge_includes_rec]. rewrite Hi. cbn [fold_left bind sd_data sd_empty]. rewrite E1. cbn [bind]. rewrite E2.
  destruct hd; reflexivity.
Qed.

(* ================================================================================================ *)
(* 4. the domain is closed under the first-wins merge                                               *)
(* ================================================================================================ *)
(* a predicate on trees that is checked entry by entry (with a depth budget) is inherited by the merge *)
Section MergeClosed.
  Variable P : nat -> tree -> bool.
  Variable Q : key -> bool.
  Hypothesis P_dict : forall b l, P b (Dict l) = forallb (fun kc => Q (fst kc) && P (Nat.pred b) (snd kc)) l.

  Lemma forallb_aset (f : key * tree -> bool) k v l : f (k, v) = true -> forallb f l = true -> forallb f (aset k v l) = true.
  Proof.
    intros Hv. induction l as [|[k0 v0] l IH]; intros H; cbn [aset forallb] in *; [rewrite Hv; reflexivity|].
    apply andb_true_iff in H. destruct H as [H1 H2]. destruct (key_eqb k k0) eqn:E; cbn [forallb].
    - apply key_eqb_eq in E. subst k0. rewrite H2, andb_true_r.
      (* the key is kept: only the value changes; f may look at the key *)
      exact Hv.
    - rewrite H1, (IH H2). reflexivity.
  Qed.

  Lemma forallb_alookup (f : key * tree -> bool) k v l : forallb f l = true -> alookup k l = Some v -> f (k, v) = true.
  Proof. intros H E. rewrite forallb_forall in H. apply H. apply alookup_Some_In. exact E. Qed.

  Lemma merge_tree_closed : forall ov tv b, P b tv = true -> P b ov = true -> P b (merge_spec_tree tv ov) = true.
  Proof.
    induction ov as [v0|osub IH|ts _] using tree_ind'; intros tv b Ht Ho.
    - rewrite merge_spec_tree_nondict_r; [assumption | intros a; discriminate].
    - destruct tv as [v1|tsub|ts1]; try (rewrite merge_spec_tree_nondict_l; [assumption | intros a; discriminate]).
      rewrite merge_spec_tree_dict. rewrite P_dict in *.
      revert tsub Ht. induction IH as [|[k c] o Hc _ IHo]; intros tsub Ht; [exact Ht|]. cbn [fold_left].
      cbn [forallb fst snd] in Ho. apply andb_true_iff in Ho. destruct Ho as [Ho1 Ho2]. apply andb_true_iff in Ho1. destruct Ho1 as [Hq Hpc].
      apply (IHo Ho2). unfold mstep. cbn [fst snd]. apply forallb_aset; [|exact Ht]. cbn [fst snd]. rewrite Hq. cbn [andb].
      destruct (alookup k tsub) as [tv'|] eqn:E; cbn [mval]; [|exact Hpc].
      cbn [snd] in Hc. apply Hc; [|exact Hpc].
      pose proof (forallb_alookup _ k tv' tsub Ht E) as H. cbn [fst snd] in H. apply andb_true_iff in H. exact (proj2 H).
    - rewrite merge_spec_tree_nondict_r; [assumption | intros a; discriminate].
  Qed.
End MergeClosed.

Lemma ktree_dict_forallb ok l : ktree ok (Dict l) = forallb (fun kc => simple_key (fst kc) && ktree ok (snd kc)) l.
Proof. induction l as [|[k c] l IH]; [reflexivity|]. rewrite ktree_dict_cons. cbn [forallb fst snd]. rewrite IH. reflexivity. Qed.

Lemma merge_ktree ok t o : ktree ok (Dict t) = true -> ktree ok (Dict o) = true -> ktree ok (Dict (merge_spec t o)) = true.
Proof.
  intros Ht Ho. pose proof (merge_tree_closed (fun _ => ktree ok) simple_key (fun _ l => ktree_dict_forallb ok l) (Dict o) (Dict t) 0%nat Ht Ho) as H.
  rewrite merge_spec_tree_dict in H. rewrite merge_spec_fold. exact H.
Qed.

Lemma merge_quoted_within b t o : quoted_within b (Dict t) = true -> quoted_within b (Dict o) = true ->
  quoted_within b (Dict (merge_spec t o)) = true.
Proof.
  intros Ht Ho. unfold quoted_within in *.
  assert (Pd : forall b l, lw (fun v => negb (simple_leaf v)) b (Dict l) =
                           forallb (fun kc => (fun _ : key => true) (fst kc) && lw (fun v => negb (simple_leaf v)) (Nat.pred b) (snd kc)) l).
  { intros b0 l. rewrite lw_dict. reflexivity. }
  pose proof (merge_tree_closed (lw (fun v => negb (simple_leaf v))) (fun _ => true) Pd (Dict o) (Dict t) b Ht Ho) as H.
  rewrite merge_spec_tree_dict in H. rewrite merge_spec_fold. exact H.
Qed.

(* the number of quoted literals *)
Lemma nq_aset k v l : (nq (Dict (aset k v l)) + match alookup k l with Some c => nq c | None => 0 end = nq (Dict l) + nq v)%nat.
Proof.
  induction l as [|[k0 v0] l IH]; cbn [aset alookup].
  - rewrite nq_dict_cons. lia.
  - destruct (key_eqb k k0); rewrite !nq_dict_cons; lia.
Qed.

Lemma nq_merge_tree : forall ov tv, (nq (merge_spec_tree tv ov) <= nq tv + nq ov)%nat.
Proof.
  induction ov as [v0|osub IH|ts _] using tree_ind'; intros tv.
  - rewrite merge_spec_tree_nondict_r; [lia | intros a; discriminate].
  - destruct tv as [v1|tsub|ts1]; try (rewrite merge_spec_tree_nondict_l; [lia | intros a; discriminate]).
    rewrite merge_spec_tree_dict. revert tsub. induction IH as [|[k c] o Hc _ IHo]; intros tsub; [cbn [fold_left]; lia|].
    cbn [fold_left]. rewrite nq_dict_cons. specialize (IHo (mstep tsub (k, c))).
    assert (Hs : (nq (Dict (mstep tsub (k, c))) <= nq (Dict tsub) + nq c)%nat).
    { unfold mstep. cbn [fst snd]. pose proof (nq_aset k (mval (alookup k tsub) c) tsub) as Ha.
      destruct (alookup k tsub) as [tv'|]; cbn [mval] in *; [|lia]. cbn [snd] in Hc. specialize (Hc tv'). lia. }
    lia.
  - rewrite merge_spec_tree_nondict_r; [lia | intros a; discriminate].
Qed.

Lemma nq_merge t o : (nq (Dict (merge_spec t o)) <= nq (Dict t) + nq (Dict o))%nat.
Proof. pose proof (nq_merge_tree (Dict o) (Dict t)) as H. rewrite merge_spec_tree_dict in H. rewrite merge_spec_fold. exact H. Qed.

Lemma merge_wdom t o : wdom t = true -> wdom o = true -> wdom (merge_spec t o) = true.
Proof.
  intros Ht Ho. destruct (wdom_inv t Ht) as (T1 & T2 & T3). destruct (wdom_inv o Ho) as (O1 & O2 & O3).
  unfold wdom. rewrite (merge_spec_wf t o T1 O1), writable_ktree, (merge_ktree _ t o T2 O2), (merge_quoted_within 11 t o T3 O3). reflexivity.
Qed.

(* ---- reading back commutes with the merge ------------------------------------------------------------- *)
Lemma alookup_mkv f k l : alookup k (map (TokProofs.mkv f) l) = option_map (map_leaves f) (alookup k l).
Proof.
  induction l as [|[k0 v0] l IH]; [reflexivity|]. cbn [map alookup TokProofs.mkv fst snd].
  destruct (key_eqb k k0); [reflexivity|exact IH].
Qed.

Lemma aset_mkv f k v l : map (TokProofs.mkv f) (aset k v l) = aset k (map_leaves f v) (map (TokProofs.mkv f) l).
Proof.
  induction l as [|[k0 v0] l IH]; [reflexivity|]. cbn [map aset TokProofs.mkv fst snd].
  destruct (key_eqb k k0); cbn [map TokProofs.mkv fst snd]; [reflexivity|rewrite IH; reflexivity].
Qed.

Lemma map_leaves_merge_tree f : forall ov tv,
  map_leaves f (merge_spec_tree tv ov) = merge_spec_tree (map_leaves f tv) (map_leaves f ov).
Proof.
  induction ov as [v0|osub IH|ts _] using tree_ind'; intros tv.
  - rewrite !merge_spec_tree_nondict_r; [reflexivity | intros a; discriminate | intros a; discriminate].
  - destruct tv as [v1|tsub|ts1].
    + rewrite !merge_spec_tree_nondict_l; [reflexivity | intros a; discriminate | intros a; discriminate].
    + rewrite !TokProofs.map_leaves_dict, !merge_spec_tree_dict, TokProofs.map_leaves_dict. f_equal.
      revert tsub. induction IH as [|[k c] o Hc _ IHo]; intros tsub; [reflexivity|]. cbn [map fold_left].
      rewrite IHo. f_equal. unfold mstep. cbn [TokProofs.mkv fst snd]. rewrite aset_mkv, alookup_mkv. f_equal.
      destruct (alookup k tsub) as [tv'|]; cbn [option_map mval]; [|reflexivity]. cbn [snd] in Hc. apply Hc.
    + rewrite TokProofs.map_leaves_lst, TokProofs.map_leaves_dict. reflexivity.
  - rewrite TokProofs.map_leaves_lst. rewrite !merge_spec_tree_nondict_r; [reflexivity | intros a; discriminate | intros a; discriminate].
Qed.

Lemma reread_merge t o : reread_plain (merge_spec t o) = merge_spec (reread_plain t) (reread_plain o).
Proof.
  pose proof (map_leaves_merge_tree written_value (Dict o) (Dict t)) as H.
  rewrite merge_spec_tree_dict, !TokProofs.map_leaves_dict, merge_spec_tree_dict in H. injection H as H.
  rewrite !merge_spec_fold. unfold reread_plain. rewrite !TokProofs.map_leaves_dict. cbn [kvs_of]. exact H.
Qed.

(* the read-back dict: in the domain again, a fixed point of reading back, with no more quoted literals *)
Lemma reread_dom d : wdom d = true ->
  wdom (reread_plain d) = true /\ reread_plain (reread_plain d) = reread_plain d /\ (nq (Dict (reread_plain d)) <= nq (Dict d))%nat.
Proof.
  intros Hd. destruct (wdom_inv d Hd) as (Hw & Hk & Hq). destruct (wvt_facts (Dict d) Hk) as (F1 & F2 & F3 & F4).
  pose proof (reread_plain_dict d) as Ed. split; [|split].
  - unfold wdom. rewrite Ed, wf_map_leaves, Hw, writable_ktree, F1, (F4 11%nat Hq). reflexivity.
  - unfold reread_plain at 1. rewrite Ed, F2, <- Ed. reflexivity.
  - rewrite Ed. exact F3.
Qed.

(* ================================================================================================ *)
(* 5. SDict.merge on a read-back state                                                              *)
(* ================================================================================================ *)
(* no top-level entry whose value spells its own key, the key having the form of a placeholder (upper case letters and
   six digits): SDict.merge REPLACES such an entry (it takes it for a left-over placeholder) *)
Definition no_self_named (d : list (key * tree)) : bool := forallb (fun kv => negb (circular (fst kv) (snd kv))) d.

(* the model's top-level merge is the first-wins merge as soon as no entry that the merged-in dict addresses is
   circular (the merged-in dict has unique keys) *)
Lemma merge_kvs_top_nocirc : forall f exprs other target,
  NoDup (map fst other) ->
  (forall k tv, In k (map fst other) -> alookup k target = Some tv -> circular k (insert_expression tv exprs) = false) ->
  Forall (fun kv => (depth (snd kv) <= f)%nat) other ->
  merge_kvs (S f) (Some exprs) target other = fold_left mstep other target.
Proof.
  intros f exprs other target. rewrite WriteProofs.merge_kvs_S. revert target.
  induction other as [|[k ov] o IH]; intros target Hnd Hc Hd; [reflexivity|].
  inversion Hd as [|? ? Hd1 Hd2]; subst. cbn [snd] in Hd1. cbn [map fst] in Hnd. inversion Hnd as [|? ? Hn Hnd']; subst.
  cbn [fold_left].
  assert (Hs : kstep f (Some exprs) target (k, ov) = mstep target (k, ov)).
  { unfold kstep, mstep. cbn [fst snd].
    destruct (alookup k target) as [tv|] eqn:E; [|reflexivity]. cbn [mval].
    pose proof (Hc k tv (or_introl eq_refl) E) as Hcc.
    destruct tv as [v|tsub|ts]; try (rewrite Hcc; symmetry; apply aset_same; destruct ov; exact E).
    destruct ov as [v|osub|ts]; try (rewrite Hcc; symmetry; apply aset_same; exact E).
    rewrite merge_kvs_none by exact Hd1. rewrite merge_spec_tree_dict. reflexivity. }
  rewrite Hs. apply IH; [exact Hnd'| |exact Hd2].
  intros k' tv' Hin E. apply (Hc k' tv' (or_intror Hin)). rewrite <- E. symmetry. apply alookup_mstep_other.
  intros ->. exact (Hn Hin).
Qed.

(* the header entry stays in front *)
Lemma fold_mstep_hent : forall m t, ~ In hkey (map fst m) -> fold_left mstep m (hent :: t) = hent :: fold_left mstep m t.
Proof.
  induction m as [|[k c] m IH]; intros t Hn; [reflexivity|]. cbn [fold_left]. cbn [map fst] in Hn.
  assert (Hk : key_eqb k hkey = false) by (apply key_eqb_neq; intros ->; apply Hn; left; reflexivity).
  assert (Es : mstep (hent :: t) (k, c) = hent :: mstep t (k, c)).
  { unfold mstep. cbn [fst snd]. unfold hent at 1 2. cbn [alookup aset]. rewrite Hk. reflexivity. }
  rewrite Es. apply IH. intros Hin. apply Hn. right. exact Hin.
Qed.

Lemma no_self_named_lookup d k tv : no_self_named d = true -> alookup k d = Some tv -> circular k tv = false.
Proof.
  intros H E. pose proof (forallb_alookup _ k tv d H E) as Hc. cbn [fst snd] in Hc. apply negb_true_iff. exact Hc.
Qed.

Lemma sd_merge_st hd F m : wdom F = true -> wdom m = true -> no_self_named F = true ->
  sd_merge (st_of hd F) m None = st_of hd (merge_spec F m).
Proof.
  intros HF Hm Hns. destruct (wdom_inv F HF) as (F1 & F2 & F3). destruct (wdom_inv m Hm) as (M1 & M2 & M3).
  pose proof (merge_wdom F m HF Hm) as HM. destruct (wdom_inv _ HM) as (W1 & W2 & W3).
  assert (Hnd : NoDup (map fst m)) by (apply wf_Dict_iff in M1; tauto).
  assert (Hdep : Forall (fun kv => (depth (snd kv) <= depth (Dict m))%nat) m).
  { apply Forall_forall. intros kv Hin. pose proof (depth_child _ _ Hin) as H. cbn [depth]. apply le_S. exact H. }
  assert (Hhk : ~ In hkey (map fst m)) by exact (plain_key_not_ph m w_BLOCKCOMMENT 0 M2 (or_intror eq_refl)).
  assert (Ed : merge_kvs (S (depth (Dict m))) (Some []) (sd_data (st_of hd F)) m = sd_data (st_of hd (merge_spec F m))).
  { rewrite merge_kvs_top_nocirc; [| exact Hnd | | exact Hdep].
    - rewrite merge_spec_fold. destruct hd; [exact (fold_mstep_hent m F Hhk)|reflexivity].
    - intros k tv Hin E. rewrite insert_expression_nil. apply (no_self_named_lookup F k tv Hns).
      destruct hd; [|exact E]. cbn [st_of st_hdr sd_data] in E. unfold hent in E. cbn [alookup] in E.
      destruct (key_eqb k hkey) eqn:Ek; [|exact E]. apply key_eqb_eq in Ek. subst k. contradiction. }
  unfold sd_merge. rewrite <- (sd_clean_st hd (merge_spec F m) W2 W1). f_equal.
  destruct hd; cbn [st_of st_hdr st_plain sd_data sd_lc sd_bc sd_inc sd_expr] in Ed |- *; rewrite Ed; reflexivity.
Qed.

Lemma circular_merge k tv ov : circular k (merge_spec_tree tv ov) = circular k tv.
Proof.
  destruct tv as [v|tsub|ts].
  - rewrite merge_spec_tree_nondict_l; [reflexivity|intros a; discriminate].
  - destruct ov as [v|osub|ts]; try (rewrite merge_spec_tree_nondict_r; [reflexivity|intros a; discriminate]).
    rewrite merge_spec_tree_dict. destruct k; reflexivity.
  - rewrite merge_spec_tree_nondict_l; [reflexivity|intros a; discriminate].
Qed.

Lemma merge_no_self_named t o : no_self_named t = true -> no_self_named o = true -> no_self_named (merge_spec t o) = true.
Proof.
  intros Ht Ho. rewrite merge_spec_fold. unfold no_self_named in *. revert t Ht.
  induction o as [|[k c] o IH]; intros t Ht; [exact Ht|]. cbn [fold_left].
  cbn [forallb fst snd] in Ho. apply andb_true_iff in Ho. destruct Ho as [Ho1 Ho2].
  apply (IH Ho2). unfold mstep. cbn [fst snd]. apply forallb_aset; [|exact Ht]. cbn [fst snd].
  destruct (alookup k t) as [tv|] eqn:E; cbn [mval]; [|exact Ho1].
  rewrite circular_merge. exact (forallb_alookup _ k tv t Ht E).
Qed.

(* ================================================================================================ *)
(* 6. one write, then read                                                                          *)
(* ================================================================================================ *)
(* the source dict after DictWriter's parse_values pass, and as the reader classifies what is written for it *)
Definition pv_ok (d : list (key * tree)) : bool := match parse_values_tree (Dict d) with Ok _ => true | Raise _ => false end.
Definition typed (d : list (key * tree)) : list (key * tree) :=
  match parse_values_tree (Dict d) with Ok t => kvs_of_tree t | Raise _ => [] end.
Definition classified (d : list (key * tree)) : list (key * tree) := reread_plain (typed d).
(* a source dict of the writer domain *)
Definition writable_src (d : list (key * tree)) : bool := pv_ok d && wdom (typed d) && no_self_named (classified d).

Lemma pv_ok_inv d : pv_ok d = true -> parse_values_tree (Dict d) = Ok (Dict (typed d)).
Proof.
  unfold pv_ok, typed. intros H1. destruct (pvt_dict_cases d) as [(d' & E & _)|(e & E)]; rewrite E in *; [reflexivity|discriminate H1].
Qed.

Lemma writable_src_inv d : writable_src d = true ->
  parse_values_tree (Dict d) = Ok (Dict (typed d)) /\ wdom (typed d) = true /\ no_self_named (classified d) = true.
Proof.
  unfold writable_src. intros H. apply andb_true_iff in H. destruct H as [H H3]. apply andb_true_iff in H. destruct H as [H1 H2].
  split; [|split; assumption]. unfold pv_ok in H1. unfold typed.
  destruct (pvt_dict_cases d) as [(d' & E & _)|(e & E)]; rewrite E in *; [reflexivity|discriminate H1].
Qed.

Definition read_back (path txt : str) : res (sdict * Z) := read_plain [(norm_path path, FNative txt)] path true true (-1)%Z.

(* the text of a first write / an overwrite, read back *)
Lemma read_back_plain path d : wdom d = true -> (Z.of_nat (nq (Dict d)) <= 1000000)%Z ->
  exists c, read_back path (to_string_plain d) = Ok (st_plain (reread_plain d), c).
Proof.
  intros Hd Hn. destruct (parse_written_plain d (dir_of path) (-1)%Z Hd Hn ltac:(lia)) as [c E].
  destruct (reread_dom d Hd) as (R1 & _). destruct (wdom_inv _ R1) as (W1 & W2 & _).
  exists c. exact (read_plain_single path _ (-1)%Z false (reread_plain d) c W2 W1 E).
Qed.

(* the text of an append step, read back *)
Lemma read_back_sd path hd d : wdom d = true -> (Z.of_nat (nq (Dict d)) <= 1000000)%Z ->
  exists c, read_back path (to_string_sd (st_of hd d)) = Ok (st_hdr (reread_plain d), c).
Proof.
  intros Hd Hn. destruct (parse_written_sd d hd (dir_of path) (-1)%Z Hd Hn ltac:(lia)) as [c E].
  destruct (reread_dom d Hd) as (R1 & _). destruct (wdom_inv _ R1) as (W1 & W2 & _).
  exists c. exact (read_plain_single path _ (-1)%Z true (reread_plain d) c W2 W1 E).
Qed.

(* (1) overwrite mode, and append mode when the target does not exist: the file then holds exactly the new dict *)
Theorem overwrite_reads_back : forall path existing d, pv_ok d = true -> wdom (typed d) = true -> (Z.of_nat (nq (Dict (typed d))) <= 1000000)%Z ->
  exists txt c,
    write_text false path existing false d = Ok txt /\ write_text false path None true d = Ok txt /\
    txt = to_string_plain (typed d) /\
    read_back path txt = Ok (mkSD (classified d) [] [] [] [], c).
Proof.
  intros path existing d Hp Hd Hn. pose proof (pv_ok_inv d Hp) as Ep.
  destruct (proj1 (write_text_overwrite false path existing d) _ Ep) as [W1 W2]. cbv iota in W1, W2.
  destruct (read_back_plain path (typed d) Hd Hn) as [c Er].
  exists (to_string_plain (typed d)), c. split; [exact W1|]. split; [exact W2|]. split; [reflexivity|exact Er].
Qed.

(* ---- the invariant of a write sequence ----------------------------------------------------------------- *)
(* the target holds a text that is read back as F (in one of the two shapes); F is in the domain, a fixed point of
   reading back, has no self-named entry and at most n quoted literals *)
Definition file_state (path : str) (file : option str) (st : option (list (key * tree))) (n : nat) (hd : bool) : Prop :=
  match file, st with
  | None, None => True
  | Some txt, Some F =>
      wdom F = true /\ reread_plain F = F /\ no_self_named F = true /\ (nq (Dict F) <= n)%nat /\
      exists c, read_back path txt = Ok (st_of hd F, c)
  | _, _ => False
  end.
(* the header is in the file exactly after an append onto an existing file *)
Definition hdr_after (file : option str) (ap : bool) : bool := match file with Some _ => ap | None => false end.

Lemma classified_facts d : writable_src d = true ->
  wdom (classified d) = true /\ reread_plain (classified d) = classified d /\ no_self_named (classified d) = true /\
  (nq (Dict (classified d)) <= nq (Dict (typed d)))%nat.
Proof.
  intros Hs. destruct (writable_src_inv d Hs) as (_ & Hd & Hns). destruct (reread_dom (typed d) Hd) as (R1 & R2 & R3).
  repeat split; assumption.
Qed.

(* one write step: it succeeds, and the new text is read back as the specified state *)
Lemma write_step path file st n hd ap d : file_state path file st n hd -> writable_src d = true ->
  (Z.of_nat (n + nq (Dict (typed d))) <= 1000000)%Z ->
  exists txt, write_text false path file ap d = Ok txt /\
              file_state path (Some txt) (spec_write st (classified d, ap)) (n + nq (Dict (typed d))) (hdr_after file ap).
Proof.
  intros Hfs Hs Hn. destruct (writable_src_inv d Hs) as (Ep & Hd & Hns). destruct (classified_facts d Hs) as (C1 & C2 & C3 & C4).
  assert (Hplain : forall ex, (ex = None \/ ap = false) ->
            exists txt, write_text false path ex ap d = Ok txt /\ file_state path (Some txt) (Some (classified d)) (n + nq (Dict (typed d))) false).
  { intros ex Hex. destruct (proj1 (write_text_overwrite false path ex d) _ Ep) as [W1 W2]. cbv iota in W1, W2.
    destruct (read_back_plain path (typed d) Hd ltac:(lia)) as [c Er].
    exists (to_string_plain (typed d)). split.
    - destruct Hex as [-> | ->]; [|exact W1]. destruct ap; [exact W2|exact W1].
    - cbn [file_state]. split; [exact C1|]. split; [exact C2|]. split; [exact C3|]. split; [lia|]. exists c. exact Er. }
  destruct file as [txt0|], st as [F|]; cbn [file_state] in Hfs; try contradiction.
  - destruct ap.
    + (* append onto the existing file *)
      destruct Hfs as (F1 & F2 & F3 & F4 & c & Er). cbn [spec_write hdr_after].
      rewrite write_text_unfold, Ep. cbn [bind kvs_of_tree]. cbv zeta. unfold read_back in Er. rewrite Er. cbn [bind fst].
      rewrite (sd_merge_st hd F (typed d) F1 Hd F3).
      pose proof (merge_wdom F (typed d) F1 Hd) as HM. pose proof (nq_merge F (typed d)) as HnM.
      destruct (read_back_sd path hd (merge_spec F (typed d)) HM ltac:(lia)) as [c' Er'].
      eexists. split; [reflexivity|]. cbn [file_state].
      assert (Erm : reread_plain (merge_spec F (typed d)) = merge_spec F (classified d)) by (rewrite reread_merge, F2; reflexivity).
      rewrite <- Erm. destruct (reread_dom _ HM) as (R1 & R2 & R3).
      split; [exact R1|]. split; [exact R2|]. split; [rewrite Erm; exact (merge_no_self_named F _ F3 C3)|]. split; [lia|].
      exists c'. exact Er'.
    + destruct (Hplain (Some txt0) (or_intror eq_refl)) as [txt [W Hf]]. exists txt. split; [exact W|exact Hf].
  - destruct (Hplain None (or_introl eq_refl)) as [txt [W Hf]]. exists txt. split; [exact W|]. destruct ap; exact Hf.
Qed.

(* ================================================================================================ *)
(* 7. any number of writes to one target                                                            *)
(* ================================================================================================ *)
Definition nq_total (ds : list (list (key * tree))) : nat := fold_right (fun d a => (nq (Dict (typed d)) + a)%nat) 0%nat ds.
(* the specification steps of a list of write operations (append?, source dict) *)
Definition spec_ops (ops : list (bool * list (key * tree))) : list (list (key * tree) * bool) :=
  map (fun op => (classified (snd op), fst op)) ops.
(* is the header in the file after the operations? *)
Definition hdr_run (ops : list (bool * list (key * tree))) (file : option str) (hd : bool) : bool :=
  snd (fold_left (fun (eh : bool * bool) (op : bool * list (key * tree)) => (true, fst eh && fst op)) ops
                 (match file with Some _ => true | None => false end, hd)).

Lemma writer_write_ok foam w target ap d txt : write_text foam target (w_get target w) ap d = Ok txt ->
  w_get target (fst (writer_write foam w target ap d)) = Some txt.
Proof. intros H. unfold writer_write. rewrite H. cbn [fst]. apply w_get_w_set_same. Qed.

Lemma run_state : forall ops path w st n hd,
  file_state path (w_get path w) st n hd ->
  forallb (fun op => writable_src (snd op)) ops = true ->
  (Z.of_nat (n + nq_total (map snd ops)) <= 1000000)%Z ->
  file_state path (w_get path (writer_run false w path ops)) (spec_writes (spec_ops ops) st)
             (n + nq_total (map snd ops)) (hdr_run ops (w_get path w) hd).
Proof.
  induction ops as [|[ap d] ops IH]; intros path w st n hd Hfs Hall Hn.
  - cbn [map nq_total fold_right writer_run fold_left spec_ops spec_writes hdr_run snd]. rewrite Nat.add_0_r. exact Hfs.
  - cbn [forallb snd] in Hall. apply andb_true_iff in Hall. destruct Hall as [Hd Hall].
    cbn [map snd nq_total fold_right] in Hn |- *. fold (nq_total (map snd ops)) in Hn |- *.
    destruct (write_step path (w_get path w) st n hd ap d Hfs Hd ltac:(lia)) as (txt & W & Hfs').
    pose proof (writer_write_ok false w path ap d txt W) as Hg.
    unfold writer_run. cbn [fold_left fst snd]. fold (writer_run false (fst (writer_write false w path ap d)) path ops).
    cbn [spec_ops map spec_writes fold_left fst snd]. fold (spec_ops ops). fold (spec_writes (spec_ops ops) (spec_write st (classified d, ap))).
    rewrite <- Hg in Hfs'.
    pose proof (IH path (fst (writer_write false w path ap d)) _ _ _ Hfs' Hall ltac:(lia)) as R.
    rewrite Nat.add_assoc.
    assert (Eh : hdr_run ((ap, d) :: ops) (w_get path w) hd = hdr_run ops (w_get path (fst (writer_write false w path ap d))) (hdr_after (w_get path w) ap)).
    { unfold hdr_run. cbn [fold_left fst snd]. rewrite Hg. unfold hdr_after. destruct (w_get path w); reflexivity. }
    rewrite Eh. exact R.
Qed.

Lemma spec_writes_some : forall l x, exists F, spec_writes l (Some x) = Some F.
Proof.
  induction l as [|[d ap] l IH]; intros x; [exists x; reflexivity|]. cbn [spec_writes fold_left].
  destruct ap; cbn [spec_write]; apply IH.
Qed.

(* (2), mixed sequences: onto a target that does not exist, any non-empty sequence of writes (append or overwrite, step
   by step) of dicts of the writer domain succeeds, and the file read back after the last write holds exactly the state
   of the specification fold  spec_writes : an overwrite restarts it, an append merges first-wins into it *)
Theorem write_sequence_reads_back : forall path w ops,
  w_get path w = None -> ops <> [] ->
  forallb (fun op => writable_src (snd op)) ops = true ->
  (Z.of_nat (nq_total (map snd ops)) <= 1000000)%Z ->
  exists txt F c,
    w_get path (writer_run false w path ops) = Some txt /\
    spec_writes (spec_ops ops) None = Some F /\
    read_back path txt = Ok (st_of (hdr_run ops None false) F, c) /\
    wdom F = true /\ reread_plain F = F.
Proof.
  intros path w ops Hw Hne Hall Hn.
  assert (Hfs : file_state path (w_get path w) None 0 false) by (rewrite Hw; exact I).
  pose proof (run_state ops path w None 0%nat false Hfs Hall ltac:(lia)) as R. rewrite Hw in R.
  destruct ops as [|[ap d] ops]; [contradiction|].
  destruct (spec_writes_some (spec_ops ops) (classified d)) as [F EF].
  assert (E : spec_writes (spec_ops ((ap, d) :: ops)) None = Some F).
  { cbn [spec_ops map spec_writes fold_left fst snd]. destruct ap; exact EF. }
  rewrite E in R. unfold file_state in R.
  destruct (w_get path (writer_run false w path ((ap, d) :: ops))) as [txt|]; [|contradiction].
  destruct R as (F1 & F2 & _ & _ & c & Er). exists txt, F, c. repeat split; assumption.
Qed.

(* (2), append only: the data read back is the fold of the first-wins merge over the classified dicts, behind the
   header entry from the second write on *)
Lemma spec_appends : forall ds x,
  spec_writes (map (fun d => (classified d, true)) ds) (Some x) = Some (fold_left merge_spec (map classified ds) x).
Proof. induction ds as [|d ds IH]; intros x; [reflexivity|]. cbn [map spec_writes fold_left spec_write]. apply IH. Qed.

Definition appends (ds : list (list (key * tree))) : list (bool * list (key * tree)) := map (fun d => (true, d)) ds.

Lemma hdr_run_appends : forall ds ex hd, hdr_run (appends ds) ex hd =
  match ds with [] => hd | _ => match ex with Some _ => true | None => Nat.ltb 1 (length ds) end end.
Proof.
  assert (G : forall ds e h, snd (fold_left (fun (eh : bool * bool) (op : bool * list (key * tree)) => (true, fst eh && fst op)) (appends ds) (e, h)) =
                             match ds with [] => h | [_] => e | _ => true end).
  { induction ds as [|d ds IH]; intros e h; [reflexivity|]. cbn [appends map fold_left fst snd]. fold (appends ds).
    rewrite IH, andb_true_r. destruct ds as [|d' [|d'' ds']]; reflexivity. }
  intros ds ex hd. unfold hdr_run. rewrite G. destruct ds as [|d [|d' ds']]; destruct ex; reflexivity.
Qed.

Theorem append_sequence_reads_back : forall path w ds,
  w_get path w = None -> ds <> [] ->
  forallb writable_src ds = true ->
  (Z.of_nat (nq_total ds) <= 1000000)%Z ->
  let F := fold_left merge_spec (map classified ds) [] in
  exists txt c,
    w_get path (writer_run false w path (appends ds)) = Some txt /\
    read_back path txt = Ok (st_of (Nat.ltb 1 (length ds)) F, c) /\
    wdom F = true /\ reread_plain F = F.
Proof.
  intros path w ds Hw Hne Hall Hn F.
  assert (Hall' : forallb (fun op => writable_src (snd op)) (appends ds) = true).
  { unfold appends. rewrite forallb_forall in *. intros op Hin. apply in_map_iff in Hin. destruct Hin as (d & <- & Hin). exact (Hall d Hin). }
  assert (Hm : map snd (appends ds) = ds) by (unfold appends; rewrite map_map; apply map_id).
  assert (Hne' : appends ds <> []) by (destruct ds; [contradiction|discriminate]).
  destruct (write_sequence_reads_back path w (appends ds) Hw Hne' Hall' ltac:(rewrite Hm; exact Hn)) as (txt & F' & c & E1 & E2 & E3 & E4 & E5).
  assert (EF : F' = F).
  { destruct ds as [|d ds]; [contradiction|]. unfold spec_ops, appends in E2. rewrite map_map in E2.
    cbn [map spec_writes fold_left fst snd spec_write] in E2. fold (spec_writes (map (fun x => (classified (snd (true, x)), fst (true, x))) ds) (Some (classified d))) in E2.
    change (map (fun x => (classified (snd (true, x)), fst (true, x))) ds) with (map (fun x => (classified x, true)) ds) in E2.
    rewrite spec_appends in E2. injection E2 as <-. unfold F. cbn [map fold_left].
    assert (Hd : writable_src d = true) by (cbn [forallb] in Hall; apply andb_true_iff in Hall; exact (proj1 Hall)).
    destruct (classified_facts d Hd) as (C1 & _). destruct (wdom_inv _ C1) as (Wc & _). apply wf_Dict_iff in Wc.
    assert (Hnil : merge_spec [] (classified d) = classified d) by (unfold merge_spec; rewrite (merge_nil_l (classified d) (proj1 Wc)); reflexivity).
    rewrite Hnil. reflexivity. }
  subst F'. rewrite hdr_run_appends in E3. destruct ds as [|d ds]; [contradiction|].
  exists txt, c. repeat split; assumption.
Qed.

(* ================================================================================================ *)
(* 8. in the words of the property: what is there stays, what is new and absent is added            *)
(* ================================================================================================ *)
(* the key path p is absent from t and can be added: walking down p through dicts, a key is missing *)
Fixpoint addable (t : tree) (p : list key) : bool :=
  match p with
  | [] => false
  | k :: p' => match t with
               | Dict kvs => match alookup k kvs with Some c => addable c p' | None => true end
               | _ => false
               end
  end.

Lemma addable_absent : forall p t, addable t p = true -> get_dpath t p = None.
Proof.
  induction p as [|k p IH]; intros t H; [discriminate H|]. destruct t as [v|kvs|ts]; try discriminate H.
  cbn [addable get_dpath] in *. destruct (alookup k kvs) as [c|]; [exact (IH c H)|reflexivity].
Qed.

(* a key path of the merged-in dict that is absent from the target arrives with its whole value *)
Lemma merge_tree_adds_exact : forall ov, wf ov = true -> forall tv p x,
  addable tv p = true -> get_dpath ov p = Some x -> get_dpath (merge_spec_tree tv ov) p = Some x.
Proof.
  induction ov as [v0|osub IH|ts _] using tree_ind'; intros Hwf tv p x Ha Hg.
  - destruct p; [discriminate Ha|discriminate Hg].
  - destruct p as [|k p']; [discriminate Ha|]. destruct tv as [v1|tsub|ts1]; try discriminate Ha.
    cbn [addable] in Ha. rewrite WriteProofs.get_dpath_cons in Hg.
    destruct (alookup k osub) as [c|] eqn:Ek; [|discriminate Hg].
    apply wf_Dict_iff in Hwf. destruct Hwf as [Hnd Hwfs]. pose proof (alookup_Some_In _ _ _ Ek) as Hin.
    rewrite merge_spec_tree_dict, WriteProofs.get_dpath_cons, (fold_mstep_lookup_in _ _ _ _ Hnd Hin).
    destruct (alookup k tsub) as [tv'|]; cbn [mval]; [|exact Hg].
    rewrite Forall_forall in IH, Hwfs. exact (IH _ Hin (Hwfs _ Hin) tv' p' x Ha Hg).
  - destruct p; [discriminate Ha|discriminate Hg].
Qed.

Lemma merge_adds_exact target other p x : wf (Dict other) = true -> addable (Dict target) p = true ->
  get_dpath (Dict other) p = Some x -> get_dpath (Dict (merge_spec target other)) p = Some x.
Proof.
  intros Hw Ha Hg. pose proof (merge_tree_adds_exact (Dict other) Hw (Dict target) p x Ha Hg) as H.
  rewrite merge_spec_tree_dict in H. rewrite merge_spec_fold. exact H.
Qed.

Lemma fold_merge_keeps : forall l X p v, get_dpath (Dict X) p = Some (Leaf v) ->
  get_dpath (Dict (fold_left merge_spec l X)) p = Some (Leaf v).
Proof. induction l as [|o l IH]; intros X p v H; [exact H|]. cbn [fold_left]. apply IH. apply merge_keeps_leaves. exact H. Qed.

(* paths of a read-back state of either shape *)
Lemma st_leaf_fwd hd F p v : get_dpath (Dict (sd_data (st_of hd F))) p = Some (Leaf v) ->
  (hd = true /\ p = [hkey] /\ v = SStr (bph 0)) \/ get_dpath (Dict F) p = Some (Leaf v).
Proof.
  destruct hd; [|right; assumption]. cbn [st_of st_hdr sd_data]. destruct p as [|k p']; [discriminate|].
  rewrite !WriteProofs.get_dpath_cons. unfold hent at 1. cbn [alookup]. destruct (key_eqb k hkey) eqn:E; [|right; assumption].
  apply key_eqb_eq in E. subst k. intros H. left. destruct p' as [|k' p'']; [|discriminate H]. cbn [get_dpath] in H. injection H as <-.
  repeat split; reflexivity.
Qed.

Lemma st_leaf_bwd hd F p v : alookup hkey F = None -> get_dpath (Dict F) p = Some (Leaf v) ->
  get_dpath (Dict (sd_data (st_of hd F))) p = Some (Leaf v).
Proof.
  intros Hh H. destruct hd; [|exact H]. cbn [st_of st_hdr sd_data]. destruct p as [|k p']; [discriminate H|].
  rewrite WriteProofs.get_dpath_cons in *. unfold hent at 1. cbn [alookup]. destruct (key_eqb k hkey) eqn:E; [|exact H].
  apply key_eqb_eq in E. subst k. rewrite Hh in H. discriminate H.
Qed.

Lemma st_addable hd F p : addable (Dict (sd_data (st_of hd F))) p = true -> addable (Dict F) p = true.
Proof.
  destruct hd; [|intros H; exact H]. cbn [st_of st_hdr sd_data]. destruct p as [|k p']; [intros H; exact H|].
  cbn [addable]. unfold hent at 1. cbn [alookup]. destruct (key_eqb k hkey); [|intros H; exact H].
  destruct p'; discriminate.
Qed.

Lemma writer_run_app foam w target a b : writer_run foam w target (a ++ b) = writer_run foam (writer_run foam w target a) target b.
Proof. unfold writer_run. apply fold_left_app. Qed.

Lemma nq_total_app a b : nq_total (a ++ b) = (nq_total a + nq_total b)%nat.
Proof. induction a as [|d a IH]; [reflexivity|]. cbn [app nq_total fold_right]. fold (nq_total (a ++ b)). fold (nq_total a). rewrite IH. lia. Qed.

(* (3): appends ds1 (at least one), then d, then ds2, onto a target that does not exist.  With s1 / s3 the states read
   back after ds1 and after the whole sequence:
   - every leaf path of s1 is in s3 with the same value (so is the header entry);
   - every key path of d (as classified) that is absent from s1 is in s3 with the value it has in d when that value is a
     leaf (a dict value arrives whole with the write of d and may be extended by later writes). *)
Theorem append_sequence_monotone : forall path w ds1 d ds2,
  w_get path w = None -> ds1 <> [] ->
  forallb writable_src (ds1 ++ d :: ds2) = true ->
  (Z.of_nat (nq_total (ds1 ++ d :: ds2)) <= 1000000)%Z ->
  exists txt1 txt3 s1 s3 c1 c3,
    w_get path (writer_run false w path (appends ds1)) = Some txt1 /\
    w_get path (writer_run false (writer_run false w path (appends ds1)) path (appends (d :: ds2))) = Some txt3 /\
    read_back path txt1 = Ok (s1, c1) /\ read_back path txt3 = Ok (s3, c3) /\
    (forall p v, get_dpath (Dict (sd_data s1)) p = Some (Leaf v) -> get_dpath (Dict (sd_data s3)) p = Some (Leaf v)) /\
    (forall p v, get_dpath (Dict (classified d)) p = Some (Leaf v) -> addable (Dict (sd_data s1)) p = true ->
                 get_dpath (Dict (sd_data s3)) p = Some (Leaf v)).
Proof.
  intros path w ds1 d ds2 Hw Hne Hall Hn.
  assert (Hall1 : forallb writable_src ds1 = true) by (rewrite forallb_app in Hall; apply andb_true_iff in Hall; exact (proj1 Hall)).
  assert (Hd : writable_src d = true).
  { rewrite forallb_app in Hall. apply andb_true_iff in Hall. destruct Hall as [_ H]. cbn [forallb] in H. apply andb_true_iff in H. exact (proj1 H). }
  rewrite nq_total_app in Hn.
  destruct (append_sequence_reads_back path w ds1 Hw Hne Hall1 ltac:(lia)) as (txt1 & c1 & A1 & A2 & A3 & _).
  assert (Hne3 : ds1 ++ d :: ds2 <> []) by (destruct ds1; discriminate).
  destruct (append_sequence_reads_back path w (ds1 ++ d :: ds2) Hw Hne3 Hall ltac:(rewrite nq_total_app; lia)) as (txt3 & c3 & B1 & B2 & B3 & _).
  unfold appends in B1. rewrite map_app, writer_run_app in B1. fold (appends ds1) in B1. fold (appends (d :: ds2)) in B1.
  set (F1 := fold_left merge_spec (map classified ds1) []) in *.
  set (F3 := fold_left merge_spec (map classified (ds1 ++ d :: ds2)) []) in *.
  assert (EF : F3 = fold_left merge_spec (map classified ds2) (merge_spec F1 (classified d))).
  { unfold F3, F1. rewrite map_app, fold_left_app. reflexivity. }
  assert (Hlen : Nat.ltb 1 (length (ds1 ++ d :: ds2)) = true).
  { rewrite app_length. cbn [length]. apply Nat.ltb_lt. destruct ds1; [contradiction|cbn [length]; lia]. }
  rewrite Hlen in B2.
  assert (Hh3 : alookup hkey F3 = None) by (apply hkey_fresh; exact (proj1 (proj2 (wdom_inv _ B3)))).
  exists txt1, txt3, (st_of (Nat.ltb 1 (length ds1)) F1), (st_of true F3), c1, c3. split; [exact A1|]. split; [exact B1|]. split; [exact A2|]. split; [exact B2|]. split.
  - intros p v H. destruct (st_leaf_fwd _ _ _ _ H) as [(_ & -> & ->)|H1].
    + reflexivity.
    + apply st_leaf_bwd; [exact Hh3|]. rewrite EF. apply fold_merge_keeps. apply merge_keeps_leaves. exact H1.
  - intros p v Hg Ha. apply st_leaf_bwd; [exact Hh3|]. rewrite EF. apply fold_merge_keeps.
    destruct (classified_facts d Hd) as (C1 & _). apply merge_adds_exact; [exact (proj1 (wdom_inv _ C1))| |exact Hg].
    exact (st_addable _ _ _ Ha).
Qed.

(* ================================================================================================ *)
(* 9. variants                                                                                      *)
(* ================================================================================================ *)
(* ---- a sequence that begins with an overwrite: whatever the target held ----------------------------- *)
Lemma overwrite_step path file d : writable_src d = true -> (Z.of_nat (nq (Dict (typed d))) <= 1000000)%Z ->
  exists txt, write_text false path file false d = Ok txt /\
              file_state path (Some txt) (Some (classified d)) (nq (Dict (typed d))) false.
Proof.
  intros Hs Hn. destruct (writable_src_inv d Hs) as (_ & Hd0 & _).
  assert (Hp0 : pv_ok d = true) by (unfold writable_src in Hs; apply andb_true_iff in Hs; destruct Hs as [Hs _]; apply andb_true_iff in Hs; exact (proj1 Hs)).
  destruct (overwrite_reads_back path file d Hp0 Hd0 Hn) as (txt & c & W & _ & _ & Er).
  destruct (classified_facts d Hs) as (C1 & C2 & C3 & C4).
  exists txt. split; [exact W|]. cbn [file_state]. repeat split; try assumption. exists c. exact Er.
Qed.

Theorem write_sequence_after_overwrite : forall path w d ops,
  forallb (fun op => writable_src (snd op)) ((false, d) :: ops) = true ->
  (Z.of_nat (nq_total (map snd ((false, d) :: ops))) <= 1000000)%Z ->
  exists txt F c,
    w_get path (writer_run false w path ((false, d) :: ops)) = Some txt /\
    spec_writes (spec_ops ops) (Some (classified d)) = Some F /\
    read_back path txt = Ok (st_of (hdr_run ops (Some []) false) F, c) /\
    wdom F = true /\ reread_plain F = F.
Proof.
  intros path w d ops Hall Hn. cbn [forallb snd] in Hall. apply andb_true_iff in Hall. destruct Hall as [Hd Hall].
  cbn [map snd nq_total fold_right] in Hn. fold (nq_total (map snd ops)) in Hn.
  destruct (overwrite_step path (w_get path w) d Hd ltac:(lia)) as (txt0 & W & Hfs).
  pose proof (writer_write_ok false w path false d txt0 W) as Hg. rewrite <- Hg in Hfs.
  pose proof (run_state ops path (fst (writer_write false w path false d)) _ _ _ Hfs Hall ltac:(lia)) as R.
  unfold writer_run. cbn [fold_left fst snd]. fold (writer_run false (fst (writer_write false w path false d)) path ops).
  destruct (spec_writes_some (spec_ops ops) (classified d)) as [F EF]. rewrite EF in R. unfold file_state in R.
  destruct (w_get path (writer_run false (fst (writer_write false w path false d)) path ops)) as [txt|]; [|contradiction].
  destruct R as (F1 & F2 & _ & _ & c & Er). rewrite Hg in Er. exists txt, F, c.
  split; [reflexivity|]. split; [exact EF|]. split; [exact Er|]. split; assumption.
Qed.

(* ---- (1) on DictWriter.write for an SDict source and DictReader.read with all options (Model/Parse.v) ---- *)
From DictIO Require Expr Eval Cli Parse.

Lemma eval_expressions_noexpr d lc bc inc :
  Eval.eval_expressions (mkSD d lc bc inc []) = Some (Ok (mkSD d lc bc inc [])).
Proof.
  unfold Eval.eval_expressions, Eval.resolve_all. cbn [sd_expr Eval.all_refs flat_map Eval.dedup map existsb filter length].
  cbn [Eval.eval_loop Eval.eval_pass fold_left sd_expr]. unfold Eval.resolve_all.
  cbn [sd_expr Eval.all_refs flat_map Eval.dedup map existsb filter length Nat.ltb Nat.leb].
  unfold Eval.back_insert. cbn [sd_expr fold_left bind sd_data sd_lc sd_bc sd_inc]. reflexivity.
Qed.

(* no include directive in either shape: the include pass returns the state as it is *)
Lemma merge_includes_st fs hd d c : ktree writable_leaf (Dict d) = true -> wf (Dict d) = true ->
  merge_includes fs true (st_of hd d) c = Ok (st_of hd d, c).
Proof.
  intros Hk Hw.
  assert (Hi : sd_inc (st_of hd d) = []) by (destruct hd; reflexivity).
  assert (E1 : sd_merge (st_of hd d) [] (Some sd_empty) = st_of hd d).
  { destruct hd; [exact (sd_clean_st true d Hk Hw)|exact (sd_clean_st false d Hk Hw)]. }
  assert (E2 : sd_merge (st_of hd d) (sd_data (st_of hd d)) (Some (st_of hd d)) = st_of hd d).
  { unfold sd_merge. rewrite (merge_kvs_self _ _ _ (wf_st hd d Hk Hw)).
    destruct hd; [exact (sd_clean_st true d Hk Hw)|exact (sd_clean_st false d Hk Hw)]. }
  unfold merge_includes. cbn [merge_includes_rec]. rewrite Hi. cbn [fold_left bind sd_data sd_empty]. rewrite E1. cbn [bind]. rewrite E2. reflexivity.
Qed.

(* read_opts (includes on, order off, comments on, no scope) of a single file whose parse has one of the two shapes *)
Lemma read_opts_single p text count hd d c' : ktree writable_leaf (Dict d) = true -> wf (Dict d) = true ->
  parse_string true (dir_of p) count text = Ok (mkParsed (st_of hd d) c') ->
  Parse.read_opts [(norm_path p, FNative text)] p true false true [] count = Some (Ok (st_of hd d, c')).
Proof.
  intros Hk Hw Hp. unfold Parse.read_opts. cbn [Parse.scope_keys fs_lookup]. rewrite str_eqb_refl'.
  cbn [parse_unit]. rewrite Hp. cbn [pr_sd pr_count]. rewrite (merge_includes_st _ hd d c' Hk Hw).
  cbv beta iota. destruct hd; unfold st_of, st_hdr, st_plain; rewrite eval_expressions_noexpr; reflexivity.
Qed.

(* DictWriter.write of an SDict source without comments, in overwrite mode or onto a target that does not exist, then
   DictReader.read: exactly the new dict behind the default header (an SDict source is always formatted with it) *)
Theorem overwrite_reads_back_sd : forall fs target ap d count,
  pv_ok d = true -> wdom (typed d) = true -> (Z.of_nat (nq (Dict (typed d))) <= 1000000)%Z -> (-1 <= count)%Z ->
  (ap = false \/ fs_lookup (norm_path target) fs = None) ->
  exists txt c',
    Parse.write_sd fs false target ap false (st_plain d) count = Some (Ok (txt, count)) /\
    txt = to_string_sd (st_plain (typed d)) /\
    Parse.read_opts [(norm_path target, FNative txt)] target true false true [] count = Some (Ok (st_hdr (classified d), c')).
Proof.
  intros fs target ap d count Hp Hd Hn Hc Hap. pose proof (pv_ok_inv d Hp) as Ep.
  destruct (parse_written_sd (typed d) false (dir_of target) count Hd Hn Hc) as [c' E].
  destruct (reread_dom (typed d) Hd) as (R1 & _). destruct (wdom_inv _ R1) as (W1 & W2 & _).
  exists (to_string_sd (st_plain (typed d))), c'. split; [|split; [reflexivity|]].
  - unfold Parse.write_sd. cbn [st_plain sd_data sd_lc sd_bc sd_inc sd_expr]. rewrite Ep. cbn [kvs_of_tree].
    assert (El : (if ap then fs_lookup (norm_path target) fs else None) = None) by (destruct Hap as [-> | ->]; [reflexivity|destruct ap; reflexivity]).
    rewrite El. reflexivity.
  - exact (read_opts_single target _ count true (classified d) c' W2 W1 E).
Qed.
