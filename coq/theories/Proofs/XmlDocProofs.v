(* Proofs for C11, document level: XmlParser.parse_string (Xml.parse_doc: the nodes plus the _xmlOpts entry) and
   XmlFormatter.to_string (Xml.format_doc: namespace, root tag and root attributes taken from _xmlOpts, then
   populate), and the read / write / read cycle on whole documents. *)
From Coq Require Import String.
From Coq Require Import NArith ZArith List Bool Lia.
From DictIO Require Import Chars Str Value Scalar KeyPath SDict Lexer Reader Expr Xml
     TypeTable TreeSpec MiscSpec LayoutSpec ScalarProofs SDictProofs SemProofs CliProofs XmlProofs XmlMoreProofs.
Import ListNotations.
Open Scope N_scope.

(* ================================================================================================ *)
(* 1. vocabulary                                                                                    *)
(* ================================================================================================ *)
(* the attribute names of one element are pairwise distinct (XML guarantees it) *)
Definition attr_names_distinct (attrs : list (str * str)) : bool := keys_nodup (map attr_name attrs).
(* the root tag as recorded: the tag, NOTSPECIFIED for an empty one (no XML document has an empty root tag) *)
Definition doc_root_tag (tag : str) : str := if nonempty tag then tag else w_NOTSPECIFIED.
(* the _rootAttributes entry: every attribute, text unchanged (also the empty ones), in document order *)
Definition doc_root_attrs (attrs : list (str * str)) : list (key * tree) := map raw_attr attrs.

(* namespace declarations: one table entry per declaration *)
Definition ns_entry_named (pu : option str * str) : list (key * tree) :=
  match fst pu with Some p => [(KS p, Leaf (SStr (snd pu)))] | None => [] end.
Definition ns_entry_default (pu : option str * str) : list (key * tree) :=
  match fst pu with None => [(KS w_None, Leaf (SStr (snd pu)))] | Some _ => [] end.
Definition ns_named (ns : list (option str * str)) : list (key * tree) := flat_map ns_entry_named ns.
Definition ns_default (ns : list (option str * str)) : list (key * tree) := flat_map ns_entry_default ns.
(* a namespace map has distinct prefixes and at most one default namespace (it is a Python dict) *)
Definition ns_distinct (ns : list (option str * str)) : bool :=
  keys_nodup (map fst (ns_named ns)) && Nat.leb (Datatypes.length (ns_default ns)) 1.
(* a default namespace AND a prefix that is literally called None *)
Definition ns_clash (ns : list (option str * str)) : bool :=
  nonempty (ns_default ns) && existsb (key_eqb (KS w_None)) (map fst (ns_named ns)).
(* the namespace the writer puts the tags in: the first entry of the table *)
Definition ns_first (ns : list (option str * str)) : str * str :=
  match ns_dict ns with
  | (KS p, Leaf (SStr u)) :: _ => (p, u)
  | _ => (of_string "xs", xs_uri)
  end.
(* the declaration that the written document carries: the prefix None stands for the default namespace *)
Definition ns_back (pu : str * str) : list (option str * str) :=
  [(if str_eqb (fst pu) w_None then None else Some (fst pu), snd pu)].

(* ================================================================================================ *)
(* 2. association lists                                                                             *)
(* ================================================================================================ *)
Lemma adel_aset_same : forall (k : key) (v : tree) l, adel k (aset k v l) = adel k l.
Proof.
  intros k v l. induction l as [|[k0 v0] l IH]; cbn [aset adel].
  - rewrite SDictProofs.key_eqb_refl. reflexivity.
  - destruct (key_eqb k k0) eqn:E; cbn [adel]; rewrite E; [reflexivity|]. rewrite IH. reflexivity.
Qed.

Lemma adel_notin : forall (k : key) (l : list (key * tree)), alookup k l = None -> adel k l = l.
Proof.
  intros k l. induction l as [|[k0 v0] l IH]; cbn [alookup adel]; intros H; [reflexivity|].
  destruct (key_eqb k k0); [discriminate|]. rewrite (IH H). reflexivity.
Qed.

Lemma adel_app_last : forall (k : key) (v : tree) l, alookup k l = None -> adel k (l ++ [(k, v)]) = l.
Proof.
  intros k v l. induction l as [|[k0 v0] l IH]; cbn [alookup adel app]; intros H.
  - rewrite SDictProofs.key_eqb_refl. reflexivity.
  - destruct (key_eqb k k0); [discriminate|]. rewrite (IH H). reflexivity.
Qed.

Lemma alookup_app_last : forall (k : key) (v : tree) l, alookup k l = None -> alookup k (l ++ [(k, v)]) = Some v.
Proof.
  intros k v l. induction l as [|[k0 v0] l IH]; cbn [alookup app]; intros H.
  - rewrite SDictProofs.key_eqb_refl. reflexivity.
  - destruct (key_eqb k k0); [discriminate|]. exact (IH H).
Qed.

(* ================================================================================================ *)
(* 3. the _xmlOpts entry                                                                            *)
(* ================================================================================================ *)
Lemma root_attr_fold : forall attrs acc, NoDup (map fst acc ++ map attr_name attrs) ->
  fold_left (fun a (kv : str * str) => aset (KS (fst kv)) (Leaf (SStr (snd kv))) a) attrs acc = acc ++ map raw_attr attrs.
Proof.
  induction attrs as [|kv attrs IH]; intros acc H; [cbn [fold_left map]; rewrite app_nil_r; reflexivity|].
  cbn [fold_left]. cbn [map] in H. rewrite XmlProofs.aset_notin.
  - rewrite IH; [cbn [map]; rewrite <- app_assoc; reflexivity|].
    rewrite map_app, <- app_assoc. exact H.
  - apply NoDup_remove_2 in H. intro Hin. apply H. apply in_or_app. left. exact Hin.
Qed.

Lemma root_attrs_recorded : forall attrs, attr_names_distinct attrs = true ->
  fold_left (fun a (kv : str * str) => aset (KS (fst kv)) (Leaf (SStr (snd kv))) a) attrs [] = doc_root_attrs attrs.
Proof.
  intros attrs H. apply keys_nodup_iff in H. rewrite root_attr_fold; [reflexivity|exact H].
Qed.

Lemma xml_opts_eq : forall numbering ns tag attrs text kids, attr_names_distinct attrs = true ->
  xml_opts numbering ns (Elem tag attrs text kids) =
  Dict [(k_nameSpaces, Dict (ns_dict ns)); (k_rootTag, Leaf (SStr (doc_root_tag tag)));
        (k_rootAttributes, Dict (doc_root_attrs attrs)); (k_addNodeNumbering, Leaf (SBool numbering))].
Proof. intros numbering ns tag attrs text kids H. unfold xml_opts. rewrite (root_attrs_recorded _ H). reflexivity. Qed.

(* every attribute of the root is found under its name with its text unchanged, and nothing else is *)
Lemma root_attr_lookup : forall attrs a v, attr_names_distinct attrs = true ->
  (alookup (KS a) (doc_root_attrs attrs) = Some (Leaf (SStr v)) <-> In (a, v) attrs).
Proof.
  intros attrs a v H. apply keys_nodup_iff in H. unfold doc_root_attrs. split.
  - intros L. apply alookup_Some_In in L. apply in_map_iff in L. destruct L as ([a' v'] & E & Hin).
    unfold raw_attr in E. cbn [fst snd] in E. injection E as -> ->. exact Hin.
  - intros Hin. apply alookup_In_nodup.
    + rewrite map_map. exact H.
    + apply in_map_iff. exists (a, v). split; [reflexivity|exact Hin].
Qed.

Lemma root_attr_lookup_value : forall attrs a t, alookup (KS a) (doc_root_attrs attrs) = Some t ->
  exists v, t = Leaf (SStr v) /\ In (a, v) attrs.
Proof.
  intros attrs a t L. apply alookup_Some_In in L. apply in_map_iff in L. destruct L as ([a' v'] & E & Hin).
  unfold raw_attr in E. cbn [fst snd] in E. injection E as -> <-. exists v'. split; [reflexivity|exact Hin].
Qed.

(* ================================================================================================ *)
(* 4. the namespace table                                                                           *)
(* ================================================================================================ *)
Definition ns_step1 (acc : list (key * tree)) (pu : option str * str) : list (key * tree) :=
  match fst pu with Some p => aset (KS p) (Leaf (SStr (snd pu))) acc | None => acc end.
Definition ns_step2 (acc : list (key * tree)) (pu : option str * str) : list (key * tree) :=
  match fst pu with None => aset (KS w_None) (Leaf (SStr (snd pu))) acc | Some _ => acc end.

Lemma ns_dict_eq : forall pu ns, ns_dict (pu :: ns) = fold_left ns_step2 (pu :: ns) (fold_left ns_step1 (pu :: ns) []).
Proof. reflexivity. Qed.

Lemma ns_fold1 : forall ns acc, NoDup (map fst acc ++ map fst (ns_named ns)) ->
  fold_left ns_step1 ns acc = acc ++ ns_named ns.
Proof.
  induction ns as [|[[p|] u] ns IH]; intros acc H.
  - cbn [fold_left ns_named flat_map]. rewrite app_nil_r. reflexivity.
  - cbn [fold_left]. unfold ns_step1 at 2. cbn [fst snd].
    unfold ns_named in *. cbn [flat_map] in *. unfold ns_entry_named at 1 in H. unfold ns_entry_named at 1.
    cbn [fst snd app map] in *. rewrite XmlProofs.aset_notin.
    + rewrite IH; [rewrite <- app_assoc; reflexivity|]. rewrite map_app, <- app_assoc. exact H.
    + apply NoDup_remove_2 in H. intro Hin. apply H. apply in_or_app. left. exact Hin.
  - cbn [fold_left]. unfold ns_step1 at 2. cbn [fst]. apply IH. exact H.
Qed.

Lemma ns_fold2 : forall ns acc, fold_left ns_step2 ns acc = aupdate acc (ns_default ns).
Proof.
  unfold aupdate. induction ns as [|[[p|] u] ns IH]; intros acc; [reflexivity| |].
  - cbn [fold_left]. unfold ns_step2 at 2. cbn [fst]. rewrite IH. reflexivity.
  - cbn [fold_left]. unfold ns_step2 at 2. cbn [fst snd]. rewrite IH. reflexivity.
Qed.

Lemma ns_distinct_inv : forall ns, ns_distinct ns = true ->
  NoDup (map fst (ns_named ns)) /\ (ns_default ns = [] \/ exists u, ns_default ns = [(KS w_None, Leaf (SStr u))]).
Proof.
  intros ns H. unfold ns_distinct in H. apply andb_true_iff in H. destruct H as [H1 H2].
  split; [apply keys_nodup_iff; exact H1|]. apply Nat.leb_le in H2.
  assert (HF : Forall (fun kt => exists u, kt = (KS w_None, Leaf (SStr u))) (ns_default ns)).
  { unfold ns_default. clear. induction ns as [|[[p|] u] ns IH]; [constructor|exact IH|].
    cbn [flat_map]. unfold ns_entry_default at 1. cbn [fst snd app]. constructor; [exists u; reflexivity|exact IH]. }
  destruct (ns_default ns) as [|kt [|kt2 r]]; [left; reflexivity| |cbn [Datatypes.length] in H2; lia].
  right. inversion HF as [|? ? (u & ->) _]. exists u. reflexivity.
Qed.

(* the table in general: the prefixed declarations in document order; the default namespace is entered under the name
   None, at the end - or in place of a declared prefix that is itself called None *)
Lemma ns_dict_general : forall ns, ns <> [] -> ns_distinct ns = true ->
  ns_dict ns = aupdate (ns_named ns) (ns_default ns).
Proof.
  intros [|pu ns] Hne Hd; [contradiction|]. rewrite ns_dict_eq. destruct (ns_distinct_inv _ Hd) as [H1 _].
  rewrite ns_fold1 by exact H1. cbn [app]. apply ns_fold2.
Qed.

Lemma existsb_key_In : forall (k : key) ks, existsb (key_eqb k) ks = false -> ~ In k ks.
Proof.
  intros k ks H Hin. assert (E : existsb (key_eqb k) ks = true).
  { apply existsb_exists. exists k. split; [exact Hin|apply SDictProofs.key_eqb_refl]. }
  congruence.
Qed.

Lemma ns_dict_no_clash : forall ns, ns <> [] -> ns_distinct ns = true -> ns_clash ns = false ->
  ns_dict ns = ns_named ns ++ ns_default ns.
Proof.
  intros ns Hne Hd Hc. rewrite (ns_dict_general ns Hne Hd). destruct (ns_distinct_inv _ Hd) as [_ [E|(u & E)]].
  - rewrite E. unfold aupdate. cbn [fold_left]. rewrite app_nil_r. reflexivity.
  - rewrite E. unfold aupdate. cbn [fold_left fst snd]. apply XmlProofs.aset_notin.
    unfold ns_clash in Hc. rewrite E in Hc. cbn [nonempty andb] in Hc. apply existsb_key_In. exact Hc.
Qed.

Lemma In_ns_named : forall ns p u, In (Some p, u) ns -> In (KS p, Leaf (SStr u)) (ns_named ns).
Proof.
  intros ns p u Hin. unfold ns_named. apply in_flat_map. exists (Some p, u). split; [exact Hin|]. left. reflexivity.
Qed.
Lemma In_ns_default : forall ns u, In (None, u) ns -> In (KS w_None, Leaf (SStr u)) (ns_default ns).
Proof.
  intros ns u Hin. unfold ns_default. apply in_flat_map. exists (None, u). split; [exact Hin|]. left. reflexivity.
Qed.

(* the default namespace is always found under the name None *)
Lemma ns_dict_lookup_default : forall ns u, ns_distinct ns = true -> In (None, u) ns ->
  alookup (KS w_None) (ns_dict ns) = Some (Leaf (SStr u)).
Proof.
  intros ns u Hd Hin. assert (Hne : ns <> []) by (intro E; subst; contradiction).
  rewrite (ns_dict_general ns Hne Hd). destruct (ns_distinct_inv _ Hd) as [_ [E|(u' & E)]].
  - apply In_ns_default in Hin. rewrite E in Hin. contradiction.
  - apply In_ns_default in Hin. rewrite E in *. destruct Hin as [Hin|[]]. injection Hin as ->.
    unfold aupdate. cbn [fold_left fst snd]. rewrite alookup_aset, SDictProofs.key_eqb_refl. reflexivity.
Qed.

(* a declared prefix is found under its name - unless it is called None and there is a default namespace as well *)
Lemma ns_dict_lookup_prefix : forall ns p u, ns_distinct ns = true -> In (Some p, u) ns ->
  (str_eqb p w_None && nonempty (ns_default ns) = false) ->
  alookup (KS p) (ns_dict ns) = Some (Leaf (SStr u)).
Proof.
  intros ns p u Hd Hin Hc. assert (Hne : ns <> []) by (intro E; subst; contradiction).
  rewrite (ns_dict_general ns Hne Hd). destruct (ns_distinct_inv _ Hd) as [H1 H2].
  assert (L : alookup (KS p) (ns_named ns) = Some (Leaf (SStr u))).
  { apply alookup_In_nodup; [exact H1|]. apply In_ns_named. exact Hin. }
  destruct H2 as [E|(u' & E)].
  - rewrite E. exact L.
  - rewrite E in *. unfold aupdate. cbn [fold_left fst snd]. rewrite alookup_aset.
    cbn [nonempty] in Hc. rewrite andb_true_r in Hc. cbn [key_eqb]. rewrite Hc. exact L.
Qed.

(* all entries are (string, string): the writer can use the table *)
Definition ns_entry_ok (kv : key * tree) : bool := match kv with (KS _, Leaf (SStr _)) => true | _ => false end.

Lemma ns_dict_entries : forall ns, forallb ns_entry_ok (ns_dict ns) = true /\ ns_dict ns <> [].
Proof.
  intros ns. assert (G : Forall (fun kv => ns_entry_ok kv = true) (ns_dict ns) /\ ns_dict ns <> []).
  { destruct ns as [|pu ns]; [split; [repeat constructor|discriminate]|]. rewrite ns_dict_eq.
    assert (F1 : forall l acc, Forall (fun kv => ns_entry_ok kv = true) acc ->
                               Forall (fun kv => ns_entry_ok kv = true) (fold_left ns_step1 l acc)).
    { induction l as [|[[p|] u] l IH]; intros acc Ha; [exact Ha| |].
      - cbn [fold_left]. apply IH. unfold ns_step1. cbn [fst snd]. apply aset_Forall; [reflexivity|exact Ha].
      - cbn [fold_left]. apply IH. exact Ha. }
    assert (F2 : forall l acc, Forall (fun kv => ns_entry_ok kv = true) acc ->
                               Forall (fun kv => ns_entry_ok kv = true) (fold_left ns_step2 l acc)).
    { induction l as [|[[p|] u] l IH]; intros acc Ha; [exact Ha| |].
      - cbn [fold_left]. apply IH. exact Ha.
      - cbn [fold_left]. apply IH. unfold ns_step2. cbn [fst snd]. apply aset_Forall; [reflexivity|exact Ha]. }
    assert (N1 : forall l acc, acc <> [] -> fold_left ns_step1 l acc <> []).
    { induction l as [|[[p|] u] l IH]; intros acc Ha; [exact Ha| |]; cbn [fold_left]; apply IH; [|exact Ha].
      unfold ns_step1. cbn [fst snd]. destruct acc as [|[k0 v0] acc]; [contradiction|]. cbn [aset].
      destruct (key_eqb (KS p) k0); discriminate. }
    assert (N2 : forall l acc, acc <> [] -> fold_left ns_step2 l acc <> []).
    { induction l as [|[[p|] u] l IH]; intros acc Ha; [exact Ha| |]; cbn [fold_left]; apply IH; [exact Ha|].
      unfold ns_step2. cbn [fst snd]. destruct acc as [|[k0 v0] acc]; [contradiction|]. cbn [aset].
      destruct (key_eqb (KS w_None) k0); discriminate. }
    split; [apply F2, F1; constructor|].
    destruct pu as [[p|] u].
    - apply N2. cbn [fold_left]. apply N1. discriminate.
    - cbn [fold_left]. unfold ns_step1 at 2, ns_step2 at 2. cbn [fst snd]. apply N2.
      destruct (fold_left ns_step1 ns []) as [|[k0 v0] r]; [discriminate|]. cbn [aset].
      destruct (key_eqb (KS w_None) k0); discriminate. }
  destruct G as [G1 G2]. split; [|exact G2]. apply forallb_forall. rewrite Forall_forall in G1. exact G1.
Qed.

Lemma first_ns_dict : forall ns, first_ns (ns_dict ns) = Some (ns_first ns).
Proof.
  intros ns. destruct (ns_dict_entries ns) as [H1 H2]. unfold ns_first. destruct (ns_dict ns) as [|[k v] r]; [contradiction|].
  cbn [forallb] in H1. apply andb_true_iff in H1. destruct H1 as [H0 H1]. unfold first_ns.
  destruct k as [z|p]; [discriminate|]. destruct v as [s| |]; try discriminate. destruct s; try discriminate.
  change (fun kv : key * tree => match kv with (KS _, Leaf (SStr _)) => true | _ => false end) with ns_entry_ok.
  rewrite H1. reflexivity.
Qed.

(* the declaration written back makes the one-entry table with the entry that was used *)
Lemma ns_dict_back : forall ns, ns_dict (ns_back (ns_first ns)) = firstn 1 (ns_dict ns).
Proof.
  intros ns. destruct (ns_dict_entries ns) as [H1 H2]. unfold ns_first. destruct (ns_dict ns) as [|[k v] r]; [contradiction|].
  cbn [forallb] in H1. apply andb_true_iff in H1. destruct H1 as [H0 _].
  destruct k as [z|p]; [discriminate|]. destruct v as [s| |]; try discriminate. destruct s; try discriminate.
  unfold ns_back. cbn [fst snd firstn]. destruct (str_eqb p w_None) eqn:E.
  - apply ScalarProofs.str_eqb_eq in E. subst p. reflexivity.
  - reflexivity.
Qed.

(* ================================================================================================ *)
(* 5. reading a document                                                                            *)
(* ================================================================================================ *)
Lemma parse_doc_eq : forall numbering ns root count,
  parse_doc numbering ns root count =
  (aset k_xmlOpts (xml_opts numbering ns root) (fst (xml_parse numbering root count)), snd (xml_parse numbering root count)).
Proof. intros. unfold parse_doc. destruct (xml_parse numbering root count) as [nodes c]. reflexivity. Qed.

(* what the reader records, and that every other entry is the element-level result *)
Theorem xml_doc_read_opts : forall numbering ns tag attrs text kids count,
  let root := Elem tag attrs text kids in
  let d := fst (parse_doc numbering ns root count) in
  let nodes := fst (xml_parse numbering root count) in
  alookup k_xmlOpts d = Some (xml_opts numbering ns root)
  /\ snd (parse_doc numbering ns root count) = snd (xml_parse numbering root count)
  /\ adel k_xmlOpts d = adel k_xmlOpts nodes
  /\ (alookup k_xmlOpts nodes = None -> d = nodes ++ [(k_xmlOpts, xml_opts numbering ns root)] /\ adel k_xmlOpts d = nodes)
  /\ (forall k, k <> k_xmlOpts -> alookup k d = alookup k nodes)
  /\ exists o ra, xml_opts numbering ns root = Dict o
       /\ map fst o = [k_nameSpaces; k_rootTag; k_rootAttributes; k_addNodeNumbering]
       /\ alookup k_nameSpaces o = Some (Dict (ns_dict ns))
       /\ alookup k_rootTag o = Some (Leaf (SStr (doc_root_tag tag)))
       /\ alookup k_rootAttributes o = Some (Dict ra)
       /\ alookup k_addNodeNumbering o = Some (Leaf (SBool numbering))
       /\ (attr_names_distinct attrs = true ->
             ra = doc_root_attrs attrs
             /\ forall a v, alookup (KS a) ra = Some (Leaf (SStr v)) <-> In (a, v) attrs).
Proof.
  intros numbering ns tag attrs text kids count root d nodes. subst d nodes. rewrite parse_doc_eq. cbn [fst snd].
  split; [rewrite alookup_aset, SDictProofs.key_eqb_refl; reflexivity|]. split; [reflexivity|].
  split; [apply adel_aset_same|]. split.
  { intros Hn. rewrite (SDictProofs.aset_notin _ _ _ Hn). split; [reflexivity|]. apply adel_app_last. exact Hn. }
  split.
  { intros k Hk. rewrite alookup_aset. destruct (key_eqb k k_xmlOpts) eqn:E; [|reflexivity].
    apply SDictProofs.key_eqb_eq in E. contradiction. }
  eexists. eexists. split; [reflexivity|]. split; [reflexivity|]. split; [reflexivity|]. split; [reflexivity|].
  split; [reflexivity|]. split; [reflexivity|]. intros Hd. split; [apply root_attrs_recorded; exact Hd|].
  intros a v. rewrite (root_attrs_recorded _ Hd). apply root_attr_lookup. exact Hd.
Qed.

(* with node numbering no element is keyed _xmlOpts (all keys start with six digits): the entry is appended *)
Theorem xml_doc_read_numbered : forall ns root c, xml_ok root = true -> counter_ok c ->
  fst (parse_doc true ns root c) = fst (xml_parse true root c) ++ [(k_xmlOpts, xml_opts true ns root)]
  /\ adel k_xmlOpts (fst (parse_doc true ns root c)) = fst (xml_parse true root c)
  /\ alookup k_xmlOpts (fst (xml_parse true root c)) = None
  /\ counter_ok (snd (parse_doc true ns root c)).
Proof.
  intros ns root c Hok Hc.
  assert (Hn : alookup k_xmlOpts (fst (xml_parse true root c)) = None).
  { pose proof (numbered_keys_skip root c (of_string "xmlOpts") Hok Hc) as H.
    rewrite <- (app_nil_r (fst (xml_parse true root c))). rewrite alookup_skip; [reflexivity|exact H]. }
  rewrite parse_doc_eq. cbn [fst snd]. rewrite (SDictProofs.aset_notin _ _ _ Hn).
  split; [reflexivity|]. split; [apply adel_app_last; exact Hn|]. split; [exact Hn|].
  exact (proj1 (xml_parse_inv root c Hok Hc)).
Qed.

(* without node numbering, for documents of the class xml_ok_off (no tag is a special key): the same *)
Theorem xml_doc_read_unnumbered : forall ns root c, xml_ok_off root = true -> counter_ok c ->
  fst (parse_doc false ns root c) = xml_entries root ++ [(k_xmlOpts, xml_opts false ns root)]
  /\ adel k_xmlOpts (fst (parse_doc false ns root c)) = xml_entries root
  /\ alookup k_xmlOpts (xml_entries root) = None.
Proof.
  intros ns root c Hoff Hc. destruct (xml_ok_off_inv _ Hoff) as [Hok Hs].
  pose proof (xml_off_entries root Hok Hs c Hc) as E.
  assert (Hn : alookup k_xmlOpts (xml_entries root) = None).
  { destruct root as [t a x kids]. pose proof (kids_facts _ _ _ _ Hok Hs) as HK. rewrite xml_entries_eq.
    apply alookup_None_notin. rewrite map_map. intro Hin. apply in_map_iff in Hin. destruct Hin as (ch & Ek & Hin).
    rewrite Forall_forall in HK. destruct (HK ch Hin) as (_ & _ & K3). unfold xml_entry in Ek. cbn [fst] in Ek.
    injection Ek as Ek. rewrite Ek in K3. vm_compute in K3. discriminate. }
  rewrite parse_doc_eq. cbn [fst snd]. rewrite E. rewrite (SDictProofs.aset_notin _ _ _ Hn).
  split; [reflexivity|]. split; [apply adel_app_last; exact Hn|exact Hn].
Qed.

(* the _nameSpaces table *)
Theorem xml_doc_namespaces :
  ns_dict [] = [(KS (of_string "xs"), Leaf (SStr xs_uri))]
  /\ (forall p u, ns_dict [(Some p, u)] = [(KS p, Leaf (SStr u))])
  /\ (forall u, ns_dict [(None, u)] = [(KS w_None, Leaf (SStr u))])
  /\ (forall ns, ns <> [] -> ns_distinct ns = true ->
        (ns_clash ns = false -> ns_dict ns = ns_named ns ++ ns_default ns)
        /\ (forall u, In (None, u) ns -> alookup (KS w_None) (ns_dict ns) = Some (Leaf (SStr u)))
        /\ (forall p u, In (Some p, u) ns -> str_eqb p w_None && nonempty (ns_default ns) = false ->
                        alookup (KS p) (ns_dict ns) = Some (Leaf (SStr u))))
  /\ (forall ns, forallb ns_entry_ok (ns_dict ns) = true /\ ns_dict ns <> []).
Proof.
  split; [reflexivity|]. split; [reflexivity|]. split; [reflexivity|]. split; [|exact ns_dict_entries].
  intros ns Hne Hd. split; [apply ns_dict_no_clash; assumption|]. split.
  - intros u Hin. apply ns_dict_lookup_default; assumption.
  - intros p u Hin Hc. apply ns_dict_lookup_prefix; assumption.
Qed.

(* ================================================================================================ *)
(* 6. writing a document                                                                            *)
(* ================================================================================================ *)
Lemma py_str_tree_str : forall v, py_str_tree (Leaf (SStr v)) = v.
Proof. reflexivity. Qed.

(* the recorded root attributes as the writer reads them: those with non-empty text, in order *)
Lemma root_attrs_doc : forall attrs, root_attrs (doc_root_attrs attrs) = Some (filter has_value attrs).
Proof.
  induction attrs as [|[a v] attrs IH]; [reflexivity|]. unfold doc_root_attrs in *. cbn [map]. unfold root_attrs in *.
  cbn [fold_right]. rewrite IH. unfold raw_attr. cbn [fst snd filter]. rewrite py_str_tree_str.
  unfold has_value at 2. cbn [snd]. reflexivity.
Qed.

Lemma nonempty_doc_root_tag : forall tag, nonempty (doc_root_tag tag) = true.
Proof. intros tag. unfold doc_root_tag. destruct (nonempty tag) eqn:E; [exact E|reflexivity]. Qed.
Lemma doc_root_tag_idem : forall tag, doc_root_tag (doc_root_tag tag) = doc_root_tag tag.
Proof. intros tag. unfold doc_root_tag at 1. rewrite nonempty_doc_root_tag. reflexivity. Qed.
Lemma doc_root_tag_nonempty : forall tag, nonempty tag = true -> doc_root_tag tag = tag.
Proof. intros tag H. unfold doc_root_tag. rewrite H. reflexivity. Qed.

Definition e_tag (e : elem) : str := tag_of e.

(* what the writer does with a dict that carries the reader's _xmlOpts entry: the tags are put into the first
   namespace of the table, the root element gets the recorded tag and the recorded attributes with non-empty text -
   unless the dict has a top-level _attrib.. dict entry, which wins -, text and children are those of populate *)
Theorem xml_doc_write_uses_opts : forall d numbering ns tag attrs text kids,
  alookup k_xmlOpts d = Some (xml_opts numbering ns (Elem tag attrs text kids)) ->
  attr_names_distinct attrs = true ->
  format_doc d =
    Some (ns_first ns,
          Elem (doc_root_tag tag)
               (if existsb is_attrib_entry d then e_attrs (populate (doc_root_tag tag) (Dict d)) else filter has_value attrs)
               (e_text (populate (doc_root_tag tag) (Dict d)))
               (e_kids (populate (doc_root_tag tag) (Dict d)))).
Proof.
  intros d numbering ns tag attrs text kids L Hd. unfold format_doc. rewrite L. rewrite (xml_opts_eq _ _ _ _ _ _ Hd).
  change (alookup k_nameSpaces [(k_nameSpaces, Dict (ns_dict ns)); (k_rootTag, Leaf (SStr (doc_root_tag tag)));
                                (k_rootAttributes, Dict (doc_root_attrs attrs)); (k_addNodeNumbering, Leaf (SBool numbering))])
    with (Some (Dict (ns_dict ns))).
  change (alookup k_rootAttributes [(k_nameSpaces, Dict (ns_dict ns)); (k_rootTag, Leaf (SStr (doc_root_tag tag)));
                                (k_rootAttributes, Dict (doc_root_attrs attrs)); (k_addNodeNumbering, Leaf (SBool numbering))])
    with (Some (Dict (doc_root_attrs attrs))).
  change (alookup k_removeNodeNumbering [(k_nameSpaces, Dict (ns_dict ns)); (k_rootTag, Leaf (SStr (doc_root_tag tag)));
                                (k_rootAttributes, Dict (doc_root_attrs attrs)); (k_addNodeNumbering, Leaf (SBool numbering))])
    with (@None tree).
  change (alookup k_rootTag [(k_nameSpaces, Dict (ns_dict ns)); (k_rootTag, Leaf (SStr (doc_root_tag tag)));
                                (k_rootAttributes, Dict (doc_root_attrs attrs)); (k_addNodeNumbering, Leaf (SBool numbering))])
    with (Some (Leaf (SStr (doc_root_tag tag)))).
  cbv beta iota. rewrite first_ns_dict, root_attrs_doc, py_str_tree_str.
  pose proof (populate_tag (doc_root_tag tag) (Dict d)) as Ht.
  destruct (populate (doc_root_tag tag) (Dict d)) as [t pa px pk]. cbn [e_attrs e_text e_kids]. subst t. reflexivity.
Qed.

(* the same without the helper names, for the usual case: no top-level _attrib.. dict entry *)
Corollary xml_doc_write_plain : forall d numbering ns tag attrs text kids,
  alookup k_xmlOpts d = Some (xml_opts numbering ns (Elem tag attrs text kids)) ->
  nonempty tag = true -> attr_names_distinct attrs = true -> existsb is_attrib_entry d = false ->
  exists pattrs text' kids',
    populate tag (Dict d) = Elem tag pattrs text' kids' /\
    format_doc d = Some (ns_first ns, Elem tag (filter has_value attrs) text' kids').
Proof.
  intros d numbering ns tag attrs text kids L Ht Hd Ha. rewrite (xml_doc_write_uses_opts _ _ _ _ _ _ _ L Hd).
  rewrite (doc_root_tag_nonempty _ Ht), Ha. pose proof (populate_tag tag (Dict d)) as Hp.
  destruct (populate tag (Dict d)) as [t pa px pk]. subst t. exists pa, px, pk. split; reflexivity.
Qed.

(* the namespace that is used *)
Theorem xml_doc_ns_first :
  ns_first [] = (of_string "xs", xs_uri)
  /\ (forall p u, ns_first [(Some p, u)] = (p, u))
  /\ (forall u, ns_first [(None, u)] = (w_None, u))
  /\ (forall ns, first_ns (ns_dict ns) = Some (ns_first ns))
  /\ (forall ns, ns_dict (ns_back (ns_first ns)) = firstn 1 (ns_dict ns)).
Proof.
  split; [reflexivity|]. split; [reflexivity|]. split; [reflexivity|]. split; [exact first_ns_dict|exact ns_dict_back].
Qed.

(* with several declarations the first PREFIXED one is used, also when a default namespace is declared (and declared
   first): the default namespace comes last in the table *)
Lemma ns_first_prefixed : forall ns p u rest, ns_distinct ns = true -> ns_clash ns = false ->
  ns_named ns = (KS p, Leaf (SStr u)) :: rest -> ns_first ns = (p, u).
Proof.
  intros ns p u rest Hd Hc E. assert (Hne : ns <> []) by (intro E0; subst; discriminate).
  unfold ns_first. rewrite (ns_dict_no_clash ns Hne Hd Hc), E. reflexivity.
Qed.

(* ================================================================================================ *)
(* 7. read, write, read again                                                                       *)
(* ================================================================================================ *)
(* the _xmlOpts entry makes no element *)
Lemma pop_go_opts_last : forall v l a t k, pop_go (l ++ [(k_xmlOpts, v)]) a t k = pop_go l a t k.
Proof.
  intros v. induction l as [|[k0 item] l IH]; intros a t k; [reflexivity|]. cbn [app pop_go].
  destruct (starts_with (of_string "_content") (key_text_xml k0)); [apply IH|].
  destruct (starts_with (of_string "_attrib") (key_text_xml k0)); [destruct item; apply IH|].
  destruct (is_skip_key (key_text_xml k0)); apply IH.
Qed.

Lemma populate_opts_last : forall tag l v, populate tag (Dict (l ++ [(k_xmlOpts, v)])) = populate tag (Dict l).
Proof. intros tag l v. rewrite !populate_dict, pop_go_opts_last. reflexivity. Qed.

Lemma no_attrib_entry : forall l v, Forall (fun kt => pop_ns kt = true) l ->
  existsb is_attrib_entry (l ++ [(k_xmlOpts, v)]) = false.
Proof.
  intros l v H. rewrite existsb_app. apply orb_false_iff. split; [|destruct v; reflexivity].
  induction H as [|kt l Hk H IH]; [reflexivity|]. cbn [existsb]. rewrite IH, orb_false_r.
  unfold pop_ns, special_xml_key in Hk. apply negb_true_iff in Hk. apply orb_false_iff in Hk. destruct Hk as [Hk _].
  apply orb_false_iff in Hk. destruct Hk as [_ Hk]. unfold is_attrib_entry. rewrite Hk. reflexivity.
Qed.

(* tag, attributes and text of the root element are not looked at by the element-level reader *)
Lemma xml_parse_root : forall nb t a x t' a' x' kids c,
  xml_parse nb (Elem t a x kids) c = xml_parse nb (Elem t' a' x' kids) c.
Proof. reflexivity. Qed.

Lemma attr_names_distinct_filter : forall attrs, attr_names_distinct attrs = true ->
  attr_names_distinct (filter has_value attrs) = true.
Proof.
  intros attrs H. unfold attr_names_distinct in *. apply keys_nodup_iff. apply keys_nodup_iff in H.
  apply NoDup_map_filter. exact H.
Qed.

Lemma firstn_one : forall {A} (l : list A), Datatypes.length l = 1%nat -> firstn 1 l = l.
Proof. intros A [|x [|y l]] H; try discriminate. reflexivity. Qed.

Lemma filter_all : forall {A} (f : A -> bool) l, forallb f l = true -> filter f l = l.
Proof.
  intros A f l. induction l as [|x l IH]; intros H; [reflexivity|]. cbn [forallb] in H. apply andb_true_iff in H.
  destruct H as [H1 H2]. cbn [filter]. rewrite H1, (IH H2). reflexivity.
Qed.

Lemma unnumber_app : forall a b, unnumber (a ++ b) = unnumber a ++ unnumber b.
Proof. intros a b. unfold unnumber. apply map_app. Qed.

(* the element tree that is written for a document that was read: the recorded tag, the root attributes with
   non-empty text, no root text, the children normalised as on the element level *)
Definition doc_written (root : elem) : elem :=
  match root with
  | Elem tag attrs _ kids => Elem (doc_root_tag tag) (filter has_value attrs) None (map normalise_elem kids)
  end.

Section Cycle.
  Variables (ns : list (option str * str)) (tag : str) (attrs : list (str * str)) (text : option str) (kids : list elem).
  Let root := Elem tag attrs text kids.
  Let root' := doc_written root.
  Let ns' := ns_back (ns_first ns).

  Lemma opts_written : attr_names_distinct attrs = true -> forall nb,
    xml_opts nb ns' root' =
    Dict [(k_nameSpaces, Dict (firstn 1 (ns_dict ns))); (k_rootTag, Leaf (SStr (doc_root_tag tag)));
          (k_rootAttributes, Dict (doc_root_attrs (filter has_value attrs))); (k_addNodeNumbering, Leaf (SBool nb))].
  Proof.
    intros Hd nb. unfold root', root, doc_written. rewrite (xml_opts_eq _ _ _ _ _ _ (attr_names_distinct_filter _ Hd)).
    unfold ns'. rewrite ns_dict_back, doc_root_tag_idem. reflexivity.
  Qed.

  Lemma opts_same : attr_names_distinct attrs = true -> Datatypes.length (ns_dict ns) = 1%nat ->
    forallb has_value attrs = true -> forall nb, xml_opts nb ns' root' = xml_opts nb ns root.
  Proof.
    intros Hd Hn Hv nb. rewrite (opts_written Hd). unfold root. rewrite (xml_opts_eq _ _ _ _ _ _ Hd).
    rewrite (firstn_one _ Hn), (filter_all _ _ Hv). reflexivity.
  Qed.

  (* with node numbering *)
  Theorem xml_doc_cycle : forall c c2,
    xml_ok root = true -> attr_names_distinct attrs = true -> counter_ok c -> counter_ok c2 ->
    let d := fst (parse_doc true ns root c) in
    let d2 := fst (parse_doc true ns' root' c2) in
    format_doc d = Some (ns_first ns, root')
    /\ d = fst (xml_parse true root c) ++ [(k_xmlOpts, xml_opts true ns root)]
    /\ d2 = fst (xml_parse true root' c2) ++ [(k_xmlOpts, xml_opts true ns' root')]
    /\ unnumber (fst (xml_parse true root' c2)) = unnumber (fst (xml_parse true root c))
    /\ xml_opts true ns root =
         Dict [(k_nameSpaces, Dict (ns_dict ns)); (k_rootTag, Leaf (SStr (doc_root_tag tag)));
               (k_rootAttributes, Dict (doc_root_attrs attrs)); (k_addNodeNumbering, Leaf (SBool true))]
    /\ xml_opts true ns' root' =
         Dict [(k_nameSpaces, Dict (firstn 1 (ns_dict ns))); (k_rootTag, Leaf (SStr (doc_root_tag tag)));
               (k_rootAttributes, Dict (doc_root_attrs (filter has_value attrs))); (k_addNodeNumbering, Leaf (SBool true))]
    /\ (Datatypes.length (ns_dict ns) = 1%nat -> forallb has_value attrs = true ->
          alookup k_xmlOpts d2 = alookup k_xmlOpts d /\ unnumber d2 = unnumber d).
  Proof.
    intros c c2 Hok Hd Hc Hc2 d d2.
    destruct (xml_doc_read_numbered ns root c Hok Hc) as (E1 & _ & _ & _).
    assert (Hok' : xml_ok root' = true) by exact (proj1 (normalise_root_ok root Hok)).
    destruct (xml_doc_read_numbered ns' root' c2 Hok' Hc2) as (E2 & _ & _ & _).
    assert (Eu : unnumber (fst (xml_parse true root' c2)) = unnumber (fst (xml_parse true root c))).
    { pose proof (xml_cycle root c c2 Hok Hc Hc2) as H. rewrite (xml_write_inverts_read root c Hok Hc) in H. exact H. }
    assert (F : format_doc d = Some (ns_first ns, root')).
    { subst d. rewrite (xml_doc_write_uses_opts _ true ns tag attrs text kids); [|rewrite E1; apply alookup_app_last;
        exact (proj1 (proj2 (proj2 (xml_doc_read_numbered ns root c Hok Hc))))|exact Hd].
      destruct (xml_parse_inv root c Hok Hc) as (_ & _ & _ & I3 & I4 & _).
      rewrite E1, (no_attrib_entry _ _ I3), populate_opts_last.
      pose proof (xml_write_inverts_read (Elem (doc_root_tag tag) attrs text kids) c Hok Hc) as W.
      cbn [tag_of] in W. rewrite (xml_parse_root true (doc_root_tag tag) attrs text tag attrs text) in W. fold root in W.
      rewrite W. reflexivity. }
    split; [exact F|]. split; [exact E1|]. split; [exact E2|]. split; [exact Eu|].
    split; [exact (xml_opts_eq _ _ _ _ _ _ Hd)|]. split; [exact (opts_written Hd true)|].
    intros Hn Hv. subst d d2. rewrite E1, E2, (opts_same Hd Hn Hv true). split.
    - rewrite !alookup_app_last; [reflexivity| |].
      + exact (proj1 (proj2 (proj2 (xml_doc_read_numbered ns root c Hok Hc)))).
      + exact (proj1 (proj2 (proj2 (xml_doc_read_numbered ns' root' c2 Hok' Hc2)))).
    - rewrite !unnumber_app, Eu. reflexivity.
  Qed.

  (* without node numbering the cycle holds literally *)
  Theorem xml_doc_cycle_off : forall c c2,
    xml_ok_off root = true -> attr_names_distinct attrs = true -> counter_ok c -> counter_ok c2 ->
    let d := fst (parse_doc false ns root c) in
    let d2 := fst (parse_doc false ns' root' c2) in
    format_doc d = Some (ns_first ns, root')
    /\ d = xml_entries root ++ [(k_xmlOpts, xml_opts false ns root)]
    /\ d2 = xml_entries root ++ [(k_xmlOpts, xml_opts false ns' root')]
    /\ xml_opts false ns' root' =
         Dict [(k_nameSpaces, Dict (firstn 1 (ns_dict ns))); (k_rootTag, Leaf (SStr (doc_root_tag tag)));
               (k_rootAttributes, Dict (doc_root_attrs (filter has_value attrs))); (k_addNodeNumbering, Leaf (SBool false))]
    /\ (Datatypes.length (ns_dict ns) = 1%nat -> forallb has_value attrs = true -> d2 = d).
  Proof.
    intros c c2 Hoff Hd Hc Hc2 d d2. destruct (xml_ok_off_inv _ Hoff) as [Hok Hs].
    destruct (xml_doc_read_unnumbered ns root c Hoff Hc) as (E1 & _ & N1).
    assert (Hok' : xml_ok root' = true) by exact (proj1 (normalise_root_ok root Hok)).
    assert (Hs' : sib_ok root' = true).
    { pose proof (normalise_root_sib_ok root) as H. rewrite Hs in H. exact H. }
    assert (Hoff' : xml_ok_off root' = true) by (unfold xml_ok_off; rewrite Hok', Hs'; reflexivity).
    destruct (xml_doc_read_unnumbered ns' root' c2 Hoff' Hc2) as (E2 & _ & _).
    assert (Ee : xml_entries root' = xml_entries root) by exact (proj2 (normalise_root_ok root Hok)).
    rewrite Ee in E2.
    assert (F : format_doc d = Some (ns_first ns, root')).
    { subst d. rewrite (xml_doc_write_uses_opts _ false ns tag attrs text kids); [|rewrite E1; apply alookup_app_last; exact N1|exact Hd].
      pose proof (xml_off_write_inverts_read (Elem (doc_root_tag tag) attrs text kids) c Hok Hs Hc) as W.
      cbn [tag_of] in W. rewrite (xml_parse_root false (doc_root_tag tag) attrs text tag attrs text) in W. fold root in W.
      rewrite (xml_off_entries root Hok Hs c Hc) in W.
      assert (I3 : Forall (fun kt => pop_ns kt = true) (xml_entries root)).
      { unfold root. rewrite xml_entries_eq. pose proof (kids_facts _ _ _ _ Hok Hs) as HK. apply Forall_map.
        revert HK. apply Forall_impl. intros ch (_ & _ & K3). apply xml_entry_ns. exact K3. }
      rewrite E1, (no_attrib_entry _ _ I3), populate_opts_last, W. reflexivity. }
    split; [exact F|]. split; [exact E1|]. split; [exact E2|]. split; [exact (opts_written Hd false)|].
    intros Hn Hv. subst d d2. rewrite E1, E2, (opts_same Hd Hn Hv false). reflexivity.
  Qed.
End Cycle.

(* ================================================================================================ *)
(* 8. the second cycle is exact; dicts without _xmlOpts                                              *)
(* ================================================================================================ *)
Lemma ns_back_first_back : forall pu, ns_back (ns_first (ns_back pu)) = ns_back pu.
Proof.
  intros [p u]. unfold ns_back at 2 3. cbn [fst snd]. destruct (str_eqb p w_None) eqn:E.
  - reflexivity.
  - unfold ns_first, ns_back. cbn [ns_dict fold_left fst snd aset]. rewrite E. reflexivity.
Qed.

Lemma ns_first_back_first : forall ns, ns_first (ns_back (ns_first ns)) = ns_first ns.
Proof.
  intros ns. unfold ns_first at 1. rewrite ns_dict_back. destruct (ns_dict_entries ns) as [H1 H2]. unfold ns_first.
  destruct (ns_dict ns) as [|[k v] r]; [contradiction|]. cbn [firstn]. reflexivity.
Qed.

Lemma ns_dict_back_length : forall ns, Datatypes.length (ns_dict (ns_back (ns_first ns))) = 1%nat.
Proof.
  intros ns. rewrite ns_dict_back. destruct (ns_dict_entries ns) as [_ H2]. destruct (ns_dict ns); [contradiction|reflexivity].
Qed.

Lemma forallb_filter_same : forall {A} (f : A -> bool) l, forallb f (filter f l) = true.
Proof.
  intros A f l. induction l as [|x l IH]; [reflexivity|]. cbn [filter]. destruct (f x) eqn:E; [|exact IH].
  cbn [forallb]. rewrite E, IH. reflexivity.
Qed.

(* whatever changes, changes in the first cycle: the document that was written, read and written again is read as the
   same dict up to the running node numbers, _xmlOpts entry included - for every namespace map and all root attributes *)
Theorem xml_doc_cycle_stable : forall ns tag attrs text kids c2 c3,
  let root := Elem tag attrs text kids in
  let ns' := ns_back (ns_first ns) in
  xml_ok root = true -> attr_names_distinct attrs = true -> counter_ok c2 -> counter_ok c3 ->
  let d2 := fst (parse_doc true ns' (doc_written root) c2) in
  let d3 := fst (parse_doc true ns' (doc_written (doc_written root)) c3) in
  format_doc d2 = Some (ns_first ns, doc_written (doc_written root))
  /\ alookup k_xmlOpts d3 = alookup k_xmlOpts d2
  /\ unnumber d3 = unnumber d2.
Proof.
  intros ns tag attrs text kids c2 c3 root ns' Hok Hd Hc2 Hc3 d2 d3.
  assert (Hok' : xml_ok (doc_written root) = true) by exact (proj1 (normalise_root_ok root Hok)).
  pose proof (xml_doc_cycle ns' (doc_root_tag tag) (filter has_value attrs) None (map normalise_elem kids) c2 c3
                Hok' (attr_names_distinct_filter _ Hd) Hc2 Hc3) as H.
  cbv zeta in H. unfold ns' in H. rewrite ns_back_first_back, ns_first_back_first in H. fold ns' in H.
  destruct H as (F & _ & _ & _ & _ & _ & G).
  destruct (G (ns_dict_back_length ns) (forallb_filter_same _ _)) as [G1 G2].
  split; [exact F|]. split; [exact G1|exact G2].
Qed.

(* a dict without an _xmlOpts entry: the defaults *)
Lemma pop_go_no_attrib : forall l a t k, existsb is_attrib_entry l = false -> fst (fst (pop_go l a t k)) = a.
Proof.
  induction l as [|[k0 item] l IH]; intros a t k H; [reflexivity|]. cbn [existsb] in H. apply orb_false_iff in H.
  destruct H as [H0 H]. unfold is_attrib_entry in H0. cbn [fst snd] in H0. cbn [pop_go].
  destruct (starts_with (of_string "_content") (key_text_xml k0)); [apply IH; exact H|].
  destruct (starts_with (of_string "_attrib") (key_text_xml k0)).
  - destruct item; [apply IH; exact H|discriminate|apply IH; exact H].
  - destruct (is_skip_key (key_text_xml k0)); apply IH; exact H.
Qed.

Theorem xml_doc_write_no_opts : forall d, alookup k_xmlOpts d = None ->
  format_doc d = Some (of_string "xs", xs_uri, populate w_NOTSPECIFIED (Dict d)).
Proof.
  intros d L. unfold format_doc. rewrite L. rewrite populate_dict.
  pose proof (pop_go_no_attrib d [] None []) as H. destruct (pop_go d [] None []) as [[pa px] pk]. cbn [fst] in H.
  destruct (existsb is_attrib_entry d); [reflexivity|]. rewrite (H eq_refl). reflexivity.
Qed.
