(* Proofs for C06: recursive include merging (termination, precedence, completeness, include order). *)
From Coq Require Import String.
From Coq Require Import NArith ZArith List Bool Lia.
From DictIO Require Import Chars Str Value Scalar KeyPath SDict Layout Lexer TokParser Reader TreeSpec
     SDictProofs TokProofs SemProofs.
Import ListNotations.

(* ================================================================================================ *)
(* 1. what one top level pass of the model merge does to a single key                               *)
(*    (the data of an include run is NOT ordinary: it carries the INCLUDE / COMMENT placeholder     *)
(*    entries, so SDictProofs.sd_merge_is_spec does not apply; the facts below are about the top    *)
(*    level only and hold for arbitrary data)                                                       *)
(* ================================================================================================ *)
Definition mk_step (f : nat) (top : option (list (N * expr_entry))) (tgt : list (key * tree)) (kv : key * tree)
  : list (key * tree) :=
  let (k, ov) := kv in
  match alookup k tgt, ov with
  | Some (Dict tsub), Dict osub => aset k (Dict (merge_kvs f None tsub osub)) tgt
  | Some tv, _ =>
      match top with
      | Some exprs => if circular k (insert_expression tv exprs) then aset k ov tgt else tgt
      | None => tgt
      end
  | None, _ => aset k ov tgt
  end.

Lemma merge_kvs_S : forall f top target other,
  merge_kvs (S f) top target other = fold_left (mk_step f top) other target.
Proof. reflexivity. Qed.

(* a step leaves the target alone (the key is there already) or sets the key of the merged-in entry *)
Lemma mk_step_shape : forall f top tgt k0 ov,
  (mk_step f top tgt (k0, ov) = tgt /\ alookup k0 tgt <> None) \/
  (exists v', mk_step f top tgt (k0, ov) = aset k0 v' tgt).
Proof.
  intros f top tgt k0 ov. unfold mk_step.
  destruct (alookup k0 tgt) as [tv|] eqn:E; [|right; eexists; reflexivity].
  destruct tv as [x|tsub|ts]; destruct ov as [y|osub|us]; destruct top as [exprs|];
    try (left; split; [reflexivity | discriminate]);
    try (right; eexists; reflexivity);
    match goal with
    | |- context [if ?b then _ else _] => destruct b
    end;
    try (left; split; [reflexivity | discriminate]); right; eexists; reflexivity.
Qed.

Lemma mk_step_other : forall f top tgt k0 ov k, k <> k0 ->
  alookup k (mk_step f top tgt (k0, ov)) = alookup k tgt.
Proof.
  intros f top tgt k0 ov k Hne.
  destruct (mk_step_shape f top tgt k0 ov) as [[H _]|[v' H]]; rewrite H; [reflexivity|].
  rewrite alookup_aset. destruct (key_eqb k k0) eqn:E; [|reflexivity].
  apply key_eqb_eq in E. contradiction.
Qed.

Lemma mk_step_same_present : forall f top tgt k0 ov, alookup k0 (mk_step f top tgt (k0, ov)) <> None.
Proof.
  intros f top tgt k0 ov.
  destruct (mk_step_shape f top tgt k0 ov) as [[H Hp]|[v' H]]; rewrite H; [exact Hp|].
  rewrite alookup_aset, key_eqb_refl. discriminate.
Qed.

Lemma mk_step_nodup : forall f top tgt kv, NoDup (map fst tgt) -> NoDup (map fst (mk_step f top tgt kv)).
Proof.
  intros f top tgt [k0 ov] Hnd.
  destruct (mk_step_shape f top tgt k0 ov) as [[H _]|[v' H]]; rewrite H; [exact Hnd|].
  apply aset_nodup. exact Hnd.
Qed.

Lemma mk_fold_nodup : forall f top other tgt, NoDup (map fst tgt) ->
  NoDup (map fst (fold_left (mk_step f top) other tgt)).
Proof.
  intros f top. induction other as [|kv o IH]; intros tgt Hnd; cbn [fold_left]; [exact Hnd|].
  apply IH. apply mk_step_nodup. exact Hnd.
Qed.

Lemma mk_step_keeps_key : forall f top tgt kv k, alookup k tgt <> None ->
  alookup k (mk_step f top tgt kv) <> None.
Proof.
  intros f top tgt [k0 ov] k Hp. destruct (key_eqb k k0) eqn:E.
  - apply key_eqb_eq in E. subst k0. apply mk_step_same_present.
  - apply key_eqb_neq in E. rewrite mk_step_other by exact E. exact Hp.
Qed.

Lemma mk_fold_keeps_key : forall f top other tgt k, alookup k tgt <> None ->
  alookup k (fold_left (mk_step f top) other tgt) <> None.
Proof.
  intros f top. induction other as [|kv o IH]; intros tgt k Hp; cbn [fold_left]; [exact Hp|].
  apply IH. apply mk_step_keeps_key. exact Hp.
Qed.

Lemma mk_fold_adds_key : forall f top other tgt k, alookup k other <> None ->
  alookup k (fold_left (mk_step f top) other tgt) <> None.
Proof.
  intros f top. induction other as [|[k0 ov] o IH]; intros tgt k Hin; cbn [fold_left].
  - cbn [alookup] in Hin. congruence.
  - cbn [alookup] in Hin. destruct (key_eqb k k0) eqn:E.
    + apply key_eqb_eq in E. subst k0. apply mk_fold_keeps_key. apply mk_step_same_present.
    + apply IH. exact Hin.
Qed.

(* an existing leaf that does not refer to its own key survives *)
Lemma mk_step_keeps_leaf : forall f exprs tgt kv k v,
  alookup k tgt = Some (Leaf v) -> circular k (insert_expression (Leaf v) exprs) = false ->
  alookup k (mk_step f (Some exprs) tgt kv) = Some (Leaf v).
Proof.
  intros f exprs tgt [k0 ov] k v Hl Hc. destruct (key_eqb k k0) eqn:E.
  - apply key_eqb_eq in E. subst k0. unfold mk_step. rewrite Hl, Hc. destruct ov; exact Hl.
  - apply key_eqb_neq in E. rewrite mk_step_other by exact E. exact Hl.
Qed.

Lemma mk_fold_keeps_leaf : forall f exprs other tgt k v,
  alookup k tgt = Some (Leaf v) -> circular k (insert_expression (Leaf v) exprs) = false ->
  alookup k (fold_left (mk_step f (Some exprs)) other tgt) = Some (Leaf v).
Proof.
  intros f exprs. induction other as [|kv o IH]; intros tgt k v Hl Hc; cbn [fold_left]; [exact Hl|].
  apply IH; [|exact Hc]. apply mk_step_keeps_leaf; assumption.
Qed.

(* an absent key takes the (first) value the merged-in dict has for it *)
Lemma mk_fold_adds_leaf : forall f exprs other tgt k v,
  alookup k tgt = None -> alookup k other = Some (Leaf v) ->
  circular k (insert_expression (Leaf v) exprs) = false ->
  alookup k (fold_left (mk_step f (Some exprs)) other tgt) = Some (Leaf v).
Proof.
  intros f exprs. induction other as [|[k0 ov] o IH]; intros tgt k v Hn Ho Hc; cbn [fold_left].
  - cbn [alookup] in Ho. discriminate.
  - cbn [alookup] in Ho. destruct (key_eqb k k0) eqn:E.
    + apply key_eqb_eq in E. subst k0. inversion Ho; subst ov.
      apply mk_fold_keeps_leaf; [|exact Hc].
      unfold mk_step. rewrite Hn. rewrite alookup_aset, key_eqb_refl. reflexivity.
    + apply key_eqb_neq in E. apply IH; [|exact Ho|exact Hc]. rewrite mk_step_other by exact E. exact Hn.
Qed.

(* ================================================================================================ *)
(* 2. clean-up, with unique top level keys only (SDictProofs asks for wf of the whole tree)         *)
(* ================================================================================================ *)
Lemma fold_cstep_nodup : forall f l dacc sacc, NoDup (map fst dacc) ->
  NoDup (map fst (fst (fold_left (cstep f) l (dacc, sacc)))).
Proof.
  intros f. induction l as [|[k v] l IH]; intros dacc sacc Hnd; [exact Hnd|].
  cbn [fold_left]. pose proof (cstep_fst f dacc sacc k v) as Hc.
  destruct (cstep f (dacc, sacc) (k, v)) as [d' s']. cbn [fst] in Hc. apply IH. rewrite Hc.
  destruct v as [x|sub|ts]; try exact Hnd. apply aset_nodup. exact Hnd.
Qed.

Lemma sd_clean_nodup : forall s, NoDup (map fst (sd_data s)) -> NoDup (map fst (sd_data (sd_clean s))).
Proof.
  intros s Hnd. rewrite sd_clean_data_fst, clean_tree_S.
  pose proof (clean_level_nodup (sd_data s) s Hnd) as Hn.
  destruct (clean_level (sd_data s) s) as [d s1]. cbn [fst] in *. apply fold_cstep_nodup. exact Hn.
Qed.

Lemma clean_keeps_ordinary_keys_nd : forall s k, ordinary_key k = true -> NoDup (map fst (sd_data s)) ->
  alookup k (sd_data (sd_clean s)) = alookup k (sd_data s) \/
  exists sub sub', alookup k (sd_data s) = Some (Dict sub) /\ alookup k (sd_data (sd_clean s)) = Some (Dict sub').
Proof.
  intros s k Hk Hnd.
  rewrite sd_clean_data_fst, clean_tree_S.
  pose proof (clean_level_lookup (sd_data s) s k Hk) as Hl.
  pose proof (clean_level_nodup (sd_data s) s Hnd) as Hn.
  destruct (clean_level (sd_data s) s) as [d s1]. cbn [fst] in *.
  pose proof (fold_cstep_lookup (depth (Dict (sd_data s))) d d s1 k Hn) as H.
  rewrite Hl in H. destruct (alookup k (sd_data s)) as [[x|sub|ts]|] eqn:E.
  - left. exact H.
  - right. destruct H as [sub' H]. exists sub, sub'. split; [reflexivity | exact H].
  - left. exact H.
  - left. exact H.
Qed.

Lemma clean_keeps_key : forall s k, ordinary_key k = true -> NoDup (map fst (sd_data s)) ->
  alookup k (sd_data s) <> None -> alookup k (sd_data (sd_clean s)) <> None.
Proof.
  intros s k Hk Hnd Hp.
  destruct (clean_keeps_ordinary_keys_nd s k Hk Hnd) as [H|[sub [sub' [_ H]]]]; rewrite H; [exact Hp | discriminate].
Qed.

Lemma clean_keeps_leaf : forall s k v, ordinary_key k = true -> NoDup (map fst (sd_data s)) ->
  alookup k (sd_data s) = Some (Leaf v) -> alookup k (sd_data (sd_clean s)) = Some (Leaf v).
Proof.
  intros s k v Hk Hnd Hp.
  destruct (clean_keeps_ordinary_keys_nd s k Hk Hnd) as [H|[sub [sub' [H _]]]]; [rewrite H; exact Hp | congruence].
Qed.

(* ================================================================================================ *)
(* 3. sd_merge on arbitrary data, top level                                                          *)
(* ================================================================================================ *)
Lemma sd_merge_unfold : forall s m o, exists s1,
  sd_merge s m o = sd_clean s1 /\
  sd_data s1 = fold_left (mk_step (depth (Dict m)) (Some (sd_expr s))) m (sd_data s).
Proof.
  intros s m o. unfold sd_merge. rewrite merge_kvs_S. destruct o as [o|]; eexists; split; reflexivity.
Qed.

Lemma sd_merge_nodup : forall s m o, NoDup (map fst (sd_data s)) -> NoDup (map fst (sd_data (sd_merge s m o))).
Proof.
  intros s m o Hnd. destruct (sd_merge_unfold s m o) as [s1 [E D]]. rewrite E.
  apply sd_clean_nodup. rewrite D. apply mk_fold_nodup. exact Hnd.
Qed.

Lemma sd_merge_keeps_key : forall s m o k, ordinary_key k = true -> NoDup (map fst (sd_data s)) ->
  alookup k (sd_data s) <> None -> alookup k (sd_data (sd_merge s m o)) <> None.
Proof.
  intros s m o k Hk Hnd Hp. destruct (sd_merge_unfold s m o) as [s1 [E D]]. rewrite E.
  apply clean_keeps_key; [exact Hk | rewrite D; apply mk_fold_nodup; exact Hnd |].
  rewrite D. apply mk_fold_keeps_key. exact Hp.
Qed.

Lemma sd_merge_adds_key : forall s m o k, ordinary_key k = true -> NoDup (map fst (sd_data s)) ->
  alookup k m <> None -> alookup k (sd_data (sd_merge s m o)) <> None.
Proof.
  intros s m o k Hk Hnd Hp. destruct (sd_merge_unfold s m o) as [s1 [E D]]. rewrite E.
  apply clean_keeps_key; [exact Hk | rewrite D; apply mk_fold_nodup; exact Hnd |].
  rewrite D. apply mk_fold_adds_key. exact Hp.
Qed.

Lemma circular_ordinary_leaf : forall k v exprs, ordinary_key k = true -> ordinary_leaf v = true ->
  circular k (insert_expression (Leaf v) exprs) = false.
Proof. intros k v exprs Hk Hv. apply circular_ordinary; [exact Hk | exact Hv]. Qed.

Lemma sd_merge_keeps_leaf : forall s m o k v, ordinary_key k = true -> ordinary_leaf v = true ->
  NoDup (map fst (sd_data s)) ->
  alookup k (sd_data s) = Some (Leaf v) -> alookup k (sd_data (sd_merge s m o)) = Some (Leaf v).
Proof.
  intros s m o k v Hk Hv Hnd Hp. destruct (sd_merge_unfold s m o) as [s1 [E D]]. rewrite E.
  apply clean_keeps_leaf; [exact Hk | rewrite D; apply mk_fold_nodup; exact Hnd |].
  rewrite D. apply mk_fold_keeps_leaf; [exact Hp | apply circular_ordinary_leaf; assumption].
Qed.

Lemma sd_merge_adds_leaf : forall s m o k v, ordinary_key k = true -> ordinary_leaf v = true ->
  NoDup (map fst (sd_data s)) ->
  alookup k (sd_data s) = None -> alookup k m = Some (Leaf v) ->
  alookup k (sd_data (sd_merge s m o)) = Some (Leaf v).
Proof.
  intros s m o k v Hk Hv Hnd Hn Hp. destruct (sd_merge_unfold s m o) as [s1 [E D]]. rewrite E.
  apply clean_keeps_leaf; [exact Hk | rewrite D; apply mk_fold_nodup; exact Hnd |].
  rewrite D. apply mk_fold_adds_leaf; [exact Hn | exact Hp | apply circular_ordinary_leaf; assumption].
Qed.

(* ================================================================================================ *)
(* 4. every parsed unit has unique top level keys (a Python dict invariant the model keeps)         *)
(* ================================================================================================ *)
(* H : bind r f = Ok _  ~>  r = Ok x (named E), H : f x = Ok _ *)
Tactic Notation "bind_ok" hyp(H) "as" ident(x) ident(E) :=
  match type of H with
  | bind ?r _ = Ok _ => destruct r as [x|] eqn:E; [cbn [bind] in H | discriminate H]
  end.

Lemma pd_nodup : forall f ts ti acc d, NoDup (map fst acc) ->
  parse_dict_go f ts ti acc = Ok d -> NoDup (map fst d).
Proof.
  induction f as [|f IH]; intros ts ti acc d Hnd H; [discriminate H|].
  rewrite parse_dict_go_S in H.
  destruct (py_nth ts ti) as [[lv txt]|]; [|inversion H; subst; exact Hnd].
  destruct (ti <? 0)%Z; [inversion H; subst; exact Hnd|].
  destruct (is_open txt).
  - bind_ok H as kidx Ekidx. destruct (py_nth ts kidx) as [[z0 ktxt]|]; [|discriminate H].
    bind_ok H as k Ek. bind_ok H as cs Ecs. destruct cs as [ds i].
    bind_ok H as u1 Eu1. bind_ok H as u2 Eu2. bind_ok H as acc' Eacc.
    eapply IH; [|exact H].
    destruct (str_eqb (first_text ds) t_lpar).
    + destruct (Nat.ltb (length ds) 3).
      * inversion Eacc; subst. apply aset_nodup. exact Hnd.
      * bind_ok Eacc as l El. inversion Eacc; subst. apply aset_nodup. exact Hnd.
    + destruct (str_eqb (first_text ds) t_lbrace).
      * bind_ok Eacc as sub Esub. inversion Eacc; subst. apply aset_nodup. exact Hnd.
      * inversion Eacc; subst. exact Hnd.
  - destruct (str_eqb txt t_semi &&
              negb match py_nth ts (ti - 1)%Z with Some (_, p) => str_eqb p t_rpar | None => false end).
    + destruct (py_nth ts (ti - 1)%Z) as [x|]; [|discriminate H]. cbv zeta in H.
      destruct (kv_back f ts ti 1%Z lv [(lv, txt)]) as [|[z1 ktxt] [|[z2 vtxt] [|t3 [|t4 l4]]]];
        try (eapply IH; [|exact H]; exact Hnd).
      bind_ok H as k Ek. bind_ok H as v Ev. eapply IH; [|exact H]. apply aset_nodup. exact Hnd.
    + destruct (is_comment_tok txt || is_include_tok txt).
      * eapply IH; [|exact H]. apply aset_nodup. exact Hnd.
      * eapply IH; [|exact H]. exact Hnd.
Qed.

Definition top_nodup (t : tree) : Prop := match t with Dict d => NoDup (map fst d) | _ => True end.

Lemma set_child_top_nodup : forall t k v t', top_nodup t -> set_child t k v = Ok t' -> top_nodup t'.
Proof.
  intros t k v t' Hnd H. destruct t as [x|d|ts]; cbn [set_child] in H.
  - discriminate H.
  - inversion H; subst. cbn [top_nodup] in *. apply aset_nodup. exact Hnd.
  - destruct k as [z|s]; [|discriminate H]. destruct (norm_index z (length ts)); [|discriminate H].
    inversion H; subst. exact I.
Qed.

Lemma set_at_top_nodup : forall t p v ii t', top_nodup t -> set_at t p v ii = Ok t' -> top_nodup t'.
Proof.
  intros t p v ii t' Hnd H. destruct p as [|k [|k2 p']].
  - cbn [set_at] in H. inversion H; subst. exact Hnd.
  - cbn [set_at] in H. eapply set_child_top_nodup; eassumption.
  - cbn [set_at] in H. bind_ok H as c Ec. destruct (negb (is_container c)); [discriminate H|].
    destruct (Nat.eqb (S ii) 10); [discriminate H|]. bind_ok H as c' Ec'.
    eapply set_child_top_nodup; eassumption.
Qed.

Lemma insert_literal_top_nodup : forall fuel ph v t t', top_nodup t -> insert_literal fuel ph v t = Ok t' -> top_nodup t'.
Proof.
  induction fuel as [|f IH]; intros ph v t t' Hnd H; [discriminate H|].
  cbn [insert_literal] in H. destruct (find_global_key ph t) as [p|]; [|inversion H; subst; exact Hnd].
  bind_ok H as t1 Et1. eapply IH; [|exact H]. unfold set_global_key in Et1. eapply set_at_top_nodup; eassumption.
Qed.

Lemma insert_string_literals_nodup : forall lits (r : res (list (key * tree))) d',
  (forall d, r = Ok d -> NoDup (map fst d)) ->
  fold_left (fun (acc : res (list (key * tree))) (e : N * str) =>
               bind acc (fun d =>
               bind (parse_value (snd e)) (fun v =>
               bind (insert_literal (S (count_leaves (Dict d))) (placeholder w_STRINGLITERAL (fst e)) (Leaf v) (Dict d))
                    (fun t => match t with Dict d' => Ok d' | _ => Ok d end)))) lits r = Ok d' ->
  NoDup (map fst d').
Proof.
  induction lits as [|e lits IH]; intros r d' Hr H; cbn [fold_left] in H; [apply Hr; exact H|].
  eapply IH; [|exact H]. intros d0 H0. destruct r as [d|]; [|discriminate H0]. cbn [bind] in H0.
  bind_ok H0 as v Ev. bind_ok H0 as t1 Et1.
  assert (Ht : top_nodup t1).
  { eapply insert_literal_top_nodup; [|exact Et1]. cbn [top_nodup]. apply Hr. reflexivity. }
  destruct t1 as [x|d2|ts]; inversion H0; subst; [apply Hr; reflexivity | exact Ht | apply Hr; reflexivity].
Qed.

Lemma parse_string_nodup : forall com dir c text pr, parse_string com dir c text = Ok pr ->
  NoDup (map fst (sd_data (pr_sd pr))).
Proof.
  intros com dir c text pr H. unfold parse_string in H. cbv zeta in H.
  bind_ok H as d0 Ed0. bind_ok H as d1 Ed1. inversion H; subst. cbn [pr_sd].
  apply sd_clean_nodup. cbn [sd_data]. unfold parser_clean. apply adel_nodup. apply adel_nodup.
  unfold insert_string_literals in Ed1. eapply insert_string_literals_nodup; [|exact Ed1].
  intros d Hd. inversion Hd; subst. apply sd_clean_nodup. cbn [sd_data].
  unfold parse_tokens in Ed0. eapply pd_nodup; [|exact Ed0]. constructor.
Qed.

Lemma je_kvs_keys : forall kvs c tab, map fst (fst (fst (je_kvs kvs c tab))) = map fst kvs.
Proof.
  induction kvs as [|[k v] kvs IH]; intros c tab; [reflexivity|].
  cbn [je_kvs]. destruct (json_expressions v c tab) as [[v' c1] tb1]. fold je_kvs.
  specialize (IH c1 tb1). destruct (je_kvs kvs c1 tb1) as [[r c2] tb2]. cbn [fst map] in *. rewrite IH. reflexivity.
Qed.

Lemma sd_update_nodup : forall s m o, NoDup (map fst (sd_data s)) -> NoDup (map fst (sd_data (sd_update s m o))).
Proof.
  intros s m o Hnd. unfold sd_update. apply sd_clean_nodup. rewrite sd_data_post_update. cbn [sd_data].
  apply aupdate_nodup. exact Hnd.
Qed.

Lemma json_parse_nodup : forall dir c t, NoDup (map fst (sd_data (pr_sd (json_parse dir c t)))).
Proof.
  intros dir c t. unfold json_parse.
  destruct (json_includes dir c (sd_data (sd_update sd_empty t None))) as [[[phs rest] c1] inc].
  match goal with
  | |- context [json_expressions (Dict (sd_data ?s2)) c1 []] =>
      assert (H2 : NoDup (map fst (sd_data s2)));
      [apply sd_update_nodup; apply sd_update_nodup; cbn [sd_data map]; constructor|];
      remember s2 as s2' eqn:Es2
  end.
  rewrite json_expressions_dict. pose proof (je_kvs_keys (sd_data s2') c1 []) as Hk.
  destruct (je_kvs (sd_data s2') c1 []) as [[kvs' c2] tb]. cbn [fst] in Hk. cbn [pr_sd].
  apply sd_clean_nodup. cbn [sd_data kvs_of_tree]. rewrite Hk. exact H2.
Qed.

Lemma parse_unit_nodup : forall com path c u pr, parse_unit com path c u = Ok pr ->
  NoDup (map fst (sd_data (pr_sd pr))).
Proof.
  intros com path c u pr H. destruct u as [text|t]; cbn [parse_unit] in H.
  - eapply parse_string_nodup. exact H.
  - inversion H; subst. apply json_parse_nodup.
Qed.

(* ================================================================================================ *)
(* 5. the include recursion, one unfolding                                                           *)
(* ================================================================================================ *)
(* the body of the loop over the include table of [parent]; [rec] is the recursive call *)
Definition inc_step (rec : list str -> sdict -> Z -> res (sdict * Z)) (fs : fsys) (comments : bool)
           (chain : list str) (acc : res (sdict * Z)) (e : N * include_entry) : res (sdict * Z) :=
  bind acc (fun tc =>
  let '(temp, c) := tc in
  let '(_, (_, _, path)) := e in
  let resolved := norm_path path in
  if in_chain resolved chain then Ok (temp, c)
  else match fs_lookup resolved fs with
       | None => Ok (temp, c)
       | Some u =>
           bind (parse_unit comments path c u) (fun pr =>
           let inc := pr_sd pr in
           bind (match sd_inc inc with
                 | [] => Ok (inc, pr_count pr)
                 | _ => rec (chain ++ [resolved]) inc (pr_count pr)
                 end) (fun ic =>
           let '(inc', c') := ic in
           let temp1 := match sd_inc inc with
                        | [] => temp
                        | _ => sd_merge temp (sd_data inc') (Some inc')
                        end in
           Ok (sd_merge temp1 (sd_data inc') (Some inc'), c')))
       end).

Lemma merge_includes_rec_S : forall f fs com chain parent count,
  merge_includes_rec (S f) fs com chain parent count =
  bind (fold_left (inc_step (merge_includes_rec f fs com) fs com chain) (sd_inc parent) (Ok (sd_empty, count)))
       (fun tc => let '(temp, c) := tc in Ok (sd_merge parent (sd_data temp) (Some temp), c)).
Proof. reflexivity. Qed.

(* what an included unit contributes once parsed: itself, or the merge with its own includes *)
Definition sub_result (rec : list str -> sdict -> Z -> res (sdict * Z)) (chain : list str) (path : str) (pr : parsed)
  : res (sdict * Z) :=
  match sd_inc (pr_sd pr) with
  | [] => Ok (pr_sd pr, pr_count pr)
  | _ => rec (chain ++ [norm_path path]) (pr_sd pr) (pr_count pr)
  end.

Lemma inc_step_raise : forall rec fs com chain e x, inc_step rec fs com chain (Raise x) e = Raise x.
Proof. reflexivity. Qed.

Lemma fold_inc_raise : forall rec fs com chain l x, fold_left (inc_step rec fs com chain) l (Raise x) = Raise x.
Proof. intros rec fs com chain. induction l as [|e l IH]; intro x; [reflexivity|]. cbn [fold_left]. apply IH. Qed.

(* an entry whose file is on the chain or missing is skipped *)
Lemma inc_step_skip : forall rec fs com chain temp c i d n path,
  in_chain (norm_path path) chain = true \/ fs_lookup (norm_path path) fs = None ->
  inc_step rec fs com chain (Ok (temp, c)) (i, (d, n, path)) = Ok (temp, c).
Proof.
  intros rec fs com chain temp c i d n path H. unfold inc_step. cbn [bind].
  destruct (in_chain (norm_path path) chain); [reflexivity|].
  destruct H as [H|H]; [discriminate H|]. rewrite H. reflexivity.
Qed.

(* an entry whose file exists and is not on the chain is parsed and merged *)
Lemma inc_step_valid : forall rec fs com chain temp c i d n path u,
  in_chain (norm_path path) chain = false -> fs_lookup (norm_path path) fs = Some u ->
  inc_step rec fs com chain (Ok (temp, c)) (i, (d, n, path)) =
  bind (parse_unit com path c u) (fun pr =>
  bind (sub_result rec chain path pr) (fun ic =>
  Ok (sd_merge (match sd_inc (pr_sd pr) with
                | [] => temp
                | _ => sd_merge temp (sd_data (fst ic)) (Some (fst ic))
                end) (sd_data (fst ic)) (Some (fst ic)), snd ic))).
Proof.
  intros rec fs com chain temp c i d n path u Hc Hl. unfold inc_step. cbn [bind]. rewrite Hc, Hl.
  destruct (parse_unit com path c u) as [pr|x]; [|reflexivity]. cbn [bind]. unfold sub_result.
  destruct (match sd_inc (pr_sd pr) with
            | [] => Ok (pr_sd pr, pr_count pr)
            | _ :: _ => rec (chain ++ [norm_path path]) (pr_sd pr) (pr_count pr)
            end) as [[inc' c']|x]; reflexivity.
Qed.

Lemma inc_step_inv : forall rec fs com chain acc i d n path temp' c',
  inc_step rec fs com chain acc (i, (d, n, path)) = Ok (temp', c') ->
  exists temp c, acc = Ok (temp, c) /\
    (((in_chain (norm_path path) chain = true \/ fs_lookup (norm_path path) fs = None) /\ temp' = temp /\ c' = c) \/
     (exists u pr inc' temp1,
        in_chain (norm_path path) chain = false /\ fs_lookup (norm_path path) fs = Some u /\
        parse_unit com path c u = Ok pr /\ sub_result rec chain path pr = Ok (inc', c') /\
        (temp1 = temp \/ temp1 = sd_merge temp (sd_data inc') (Some inc')) /\
        temp' = sd_merge temp1 (sd_data inc') (Some inc'))).
Proof.
  intros rec fs com chain acc i d n path temp' c' H.
  destruct acc as [[temp c]|x]; [|discriminate H]. exists temp, c. split; [reflexivity|].
  destruct (in_chain (norm_path path) chain) eqn:Hc.
  - rewrite inc_step_skip in H by (left; exact Hc). inversion H; subst. left. auto.
  - destruct (fs_lookup (norm_path path) fs) as [u|] eqn:Hl.
    + rewrite (inc_step_valid rec fs com chain temp c i d n path u Hc Hl) in H.
      destruct (parse_unit com path c u) as [pr|x] eqn:Hp; [|discriminate H]. cbn [bind] in H.
      destruct (sub_result rec chain path pr) as [[inc' c2]|x] eqn:Hs; [|discriminate H].
      cbn [bind fst snd] in H. inversion H; subst c2. right.
      exists u, pr, inc',
        (match sd_inc (pr_sd pr) with [] => temp | _ => sd_merge temp (sd_data inc') (Some inc') end).
      split; [reflexivity|]. split; [reflexivity|]. split; [exact Hp|]. split; [exact Hs|].
      split; [|congruence].
      destruct (sd_inc (pr_sd pr)); [left | right]; reflexivity.
    + rewrite inc_step_skip in H by (right; exact Hl). inversion H; subst. left. auto.
Qed.

(* ================================================================================================ *)
(* 6. TERMINATION: the chain holds pairwise distinct paths of existing files                         *)
(* ================================================================================================ *)
Definition chain_ok (fs : fsys) (chain : list str) : Prop :=
  NoDup chain /\ forall p, In p chain -> fs_lookup p fs <> None.

Lemma fs_lookup_In : forall p fs, fs_lookup p fs <> None -> In p (map fst fs).
Proof.
  intros p fs. induction fs as [|[q u] fs IH]; cbn [fs_lookup map fst]; intro H; [congruence|].
  destruct (str_eqb p q) eqn:E.
  - left. apply SDictProofs.str_eqb_eq in E. congruence.
  - right. apply IH. exact H.
Qed.

(* pigeonhole over the paths of the file system *)
Lemma chain_bound : forall fs chain, chain_ok fs chain -> (length chain <= length fs)%nat.
Proof.
  intros fs chain [Hnd Hin].
  pose proof (NoDup_incl_length Hnd (l' := map fst fs)) as H. rewrite map_length in H. apply H.
  intros p Hp. apply fs_lookup_In. apply Hin. exact Hp.
Qed.

Lemma in_chain_false : forall p chain, in_chain p chain = false -> ~ In p chain.
Proof.
  intros p chain H Hin. unfold in_chain in H.
  assert (existsb (str_eqb p) chain = true); [|congruence].
  apply existsb_exists. exists p. split; [exact Hin | apply SDictProofs.str_eqb_eq; reflexivity].
Qed.

Lemma chain_ok_nil : forall fs, chain_ok fs [].
Proof. intro fs. split; [constructor | intros p []]. Qed.

Lemma chain_ok_snoc : forall fs chain p u, chain_ok fs chain -> in_chain p chain = false ->
  fs_lookup p fs = Some u -> chain_ok fs (chain ++ [p]).
Proof.
  intros fs chain p u [Hnd Hin] Hc Hl. split.
  - apply NoDup_snoc; [exact Hnd | apply in_chain_false; exact Hc].
  - intros q Hq. apply in_app_or in Hq. destruct Hq as [Hq|[Hq|[]]]; [apply Hin; exact Hq|]. subst q. congruence.
Qed.

Lemma fold_left_ext : forall (A B : Type) (f g : A -> B -> A) l a,
  (forall a x, f a x = g a x) -> fold_left f l a = fold_left g l a.
Proof. intros A B f g l a H. apply fold_left_ext_in. intros a' x _. apply H. Qed.

(* the result does not depend on the fuel once the fuel covers the files not yet on the chain *)
Lemma rec_fuel_indep : forall fs com f1 f2 chain parent count, chain_ok fs chain ->
  (length fs < f1 + length chain)%nat -> (length fs < f2 + length chain)%nat ->
  merge_includes_rec f1 fs com chain parent count = merge_includes_rec f2 fs com chain parent count.
Proof.
  intros fs com. induction f1 as [|f1 IH]; intros f2 chain parent count Hok H1 H2.
  - pose proof (chain_bound fs chain Hok). lia.
  - destruct f2 as [|f2]; [pose proof (chain_bound fs chain Hok); lia|].
    rewrite !merge_includes_rec_S. f_equal. apply fold_left_ext.
    intros [[temp c]|x] [i [[d n] path]]; [|reflexivity].
    destruct (in_chain (norm_path path) chain) eqn:Hc;
      [rewrite !inc_step_skip by (left; exact Hc); reflexivity|].
    destruct (fs_lookup (norm_path path) fs) as [u|] eqn:Hl;
      [|rewrite !inc_step_skip by (right; exact Hl); reflexivity].
    rewrite !(inc_step_valid _ fs com chain temp c i d n path u Hc Hl).
    destruct (parse_unit com path c u) as [pr|x]; [|reflexivity]. cbn [bind].
    assert (Hs : sub_result (merge_includes_rec f1 fs com) chain path pr =
                 sub_result (merge_includes_rec f2 fs com) chain path pr).
    { unfold sub_result. destruct (sd_inc (pr_sd pr)); [reflexivity|].
      apply IH; [eapply chain_ok_snoc; eassumption | |]; rewrite app_length; cbn [length]; lia. }
    rewrite Hs. reflexivity.
Qed.

(* the parser of a native unit has its own fuel; the include recursion adds no way to run out *)
Definition parse_never_out_of_fuel (fs : fsys) (com : bool) : Prop :=
  forall p u path c, fs_lookup p fs = Some u -> parse_unit com path c u <> Raise E_Fuel.

Lemma rec_no_fuel : forall fs com, parse_never_out_of_fuel fs com ->
  forall f chain parent count, chain_ok fs chain -> (length fs < f + length chain)%nat ->
  merge_includes_rec f fs com chain parent count <> Raise E_Fuel.
Proof.
  intros fs com Hpf. induction f as [|f IH]; intros chain parent count Hok Hlen.
  - pose proof (chain_bound fs chain Hok). lia.
  - rewrite merge_includes_rec_S.
    assert (Hfold : forall l acc, acc <> Raise E_Fuel ->
              fold_left (inc_step (merge_includes_rec f fs com) fs com chain) l acc <> Raise E_Fuel).
    { induction l as [|[i [[d n] path]] l IHl]; intros acc Hacc; cbn [fold_left]; [exact Hacc|].
      apply IHl. destruct acc as [[temp c]|x]; [|exact Hacc].
      destruct (in_chain (norm_path path) chain) eqn:Hc;
        [rewrite inc_step_skip by (left; exact Hc); discriminate|].
      destruct (fs_lookup (norm_path path) fs) as [u|] eqn:Hl;
        [|rewrite inc_step_skip by (right; exact Hl); discriminate].
      rewrite (inc_step_valid _ fs com chain temp c i d n path u Hc Hl).
      pose proof (Hpf _ _ path c Hl) as Hp.
      destruct (parse_unit com path c u) as [pr|x]; cbn [bind]; [|intro Ex; apply Hp; inversion Ex; reflexivity].
      assert (Hs : sub_result (merge_includes_rec f fs com) chain path pr <> Raise E_Fuel).
      { unfold sub_result. destruct (sd_inc (pr_sd pr)); [discriminate|].
        apply IH; [eapply chain_ok_snoc; eassumption|]. rewrite app_length. cbn [length]. lia. }
      destruct (sub_result (merge_includes_rec f fs com) chain path pr) as [[inc' c2]|x]; cbn [bind];
        [discriminate | exact Hs]. }
    specialize (Hfold (sd_inc parent) (Ok (sd_empty, count))).
    destruct (fold_left (inc_step (merge_includes_rec f fs com) fs com chain) (sd_inc parent) (Ok (sd_empty, count)))
      as [[temp c]|x]; cbn [bind]; [discriminate|]. apply Hfold. discriminate.
Qed.

Theorem include_fuel_irrelevant : forall fs com parent count n, (S (length fs) <= n)%nat ->
  merge_includes_rec n fs com [] parent count = merge_includes_rec (S (length fs)) fs com [] parent count.
Proof.
  intros fs com parent count n Hn. apply rec_fuel_indep; [apply chain_ok_nil | |]; cbn [length]; lia.
Qed.

Theorem include_recursion_terminates : forall fs com parent count, parse_never_out_of_fuel fs com ->
  merge_includes fs com parent count <> Raise E_Fuel.
Proof.
  intros fs com parent count Hpf. unfold merge_includes.
  pose proof (rec_no_fuel fs com Hpf (S (length fs)) [] parent count (chain_ok_nil fs)) as H.
  destruct (merge_includes_rec (S (length fs)) fs com [] parent count) as [[p c]|x]; cbn [bind]; [discriminate|].
  apply H. cbn [length]. lia.
Qed.

Theorem read_terminates : forall fs root inc com c, parse_never_out_of_fuel fs com ->
  read_plain fs root inc com c <> Raise E_Fuel.
Proof.
  intros fs root inc com c Hpf. unfold read_plain.
  destruct (fs_lookup (norm_path root) fs) as [u|] eqn:Hl; [|discriminate].
  pose proof (Hpf _ _ root c Hl) as Hp.
  destruct (parse_unit com root c u) as [pr|x]; cbn [bind]; [|intro Ex; apply Hp; inversion Ex; reflexivity].
  destruct inc.
  - pose proof (include_recursion_terminates fs com (pr_sd pr) (pr_count pr) Hpf) as Hm.
    destruct (merge_includes fs com (pr_sd pr) (pr_count pr)) as [[s c1]|x]; cbn [bind]; [discriminate | exact Hm].
  - cbn [bind]. discriminate.
Qed.

(* JSON units are handed over parsed: a file system of JSON units satisfies the hypothesis *)
Definition all_json (fs : fsys) : bool := forallb (fun pu => match snd pu with FJson _ => true | FNative _ => false end) fs.

Lemma fs_lookup_In_pair : forall p fs u, fs_lookup p fs = Some u -> In u (map snd fs).
Proof.
  intros p fs u. induction fs as [|[q w] fs IH]; cbn [fs_lookup map snd]; intro H; [discriminate H|].
  destruct (str_eqb p q); [inversion H; left; reflexivity | right; apply IH; exact H].
Qed.

Lemma all_json_parse_ok : forall fs com, all_json fs = true -> parse_never_out_of_fuel fs com.
Proof.
  intros fs com Hj p u path c Hl. apply fs_lookup_In_pair in Hl. apply in_map_iff in Hl.
  destruct Hl as [[q w] [Hw Hin]]. cbn [snd] in Hw. subst w.
  unfold all_json in Hj. rewrite forallb_forall in Hj. specialize (Hj _ Hin). cbn [snd] in Hj.
  destruct u as [text|t]; [discriminate Hj|]. cbn [parse_unit]. discriminate.
Qed.

(* ================================================================================================ *)
(* 7. the loop over the include table: what it does to ordinary top level keys                       *)
(* ================================================================================================ *)
Definition key_in (k : key) (s : sdict) : Prop := alookup k (sd_data s) <> None.
Definition nodup_top (s : sdict) : Prop := NoDup (map fst (sd_data s)).
(* [t] has every ordinary key of [s] and every ordinary leaf of [s] unchanged *)
Definition extends (s t : sdict) : Prop :=
  (forall k, ordinary_key k = true -> key_in k s -> key_in k t) /\
  (forall k v, ordinary_key k = true -> ordinary_leaf v = true ->
     alookup k (sd_data s) = Some (Leaf v) -> alookup k (sd_data t) = Some (Leaf v)).

Lemma extends_refl : forall s, extends s s.
Proof. intro s. split; auto. Qed.

Lemma extends_trans : forall a b c, extends a b -> extends b c -> extends a c.
Proof. intros a b c [H1 H2] [H3 H4]. split; [intros k Hk H; auto | intros k v Hk Hv H; auto]. Qed.

Lemma sd_merge_extends : forall s m o, nodup_top s -> nodup_top (sd_merge s m o) /\ extends s (sd_merge s m o).
Proof.
  intros s m o Hnd. split; [apply sd_merge_nodup; exact Hnd|]. split.
  - intros k Hk Hin. apply sd_merge_keeps_key; assumption.
  - intros k v Hk Hv Hl. apply sd_merge_keeps_leaf; assumption.
Qed.

Lemma inc_step_extends : forall rec fs com chain temp c e temp' c',
  inc_step rec fs com chain (Ok (temp, c)) e = Ok (temp', c') -> nodup_top temp ->
  nodup_top temp' /\ extends temp temp'.
Proof.
  intros rec fs com chain temp c [i [[d n] path]] temp' c' H Hnd.
  apply inc_step_inv in H.
  destruct H as [temp0 [c0 [Eacc [[_ [Et Ec]] | [u [pr [inc' [temp1 [Hc [Hl [Hp [Hs [Ht1 Et]]]]]]]]]]]]];
    inversion Eacc; subst temp0 c0; clear Eacc.
  - subst. split; [exact Hnd | apply extends_refl].
  - assert (H1 : nodup_top temp1 /\ extends temp temp1).
    { destruct Ht1 as [Ht1|Ht1]; subst temp1; [split; [exact Hnd | apply extends_refl]|].
      apply sd_merge_extends. exact Hnd. }
    destruct H1 as [Hnd1 Hex1]. subst temp'.
    destruct (sd_merge_extends temp1 (sd_data inc') (Some inc') Hnd1) as [Hnd2 Hex2].
    split; [exact Hnd2 | eapply extends_trans; eassumption].
Qed.

Lemma fold_inc_extends : forall rec fs com chain l temp c temp' c',
  fold_left (inc_step rec fs com chain) l (Ok (temp, c)) = Ok (temp', c') -> nodup_top temp ->
  nodup_top temp' /\ extends temp temp'.
Proof.
  intros rec fs com chain. induction l as [|e l IH]; intros temp c temp' c' H Hnd; cbn [fold_left] in H.
  - inversion H; subst. split; [exact Hnd | apply extends_refl].
  - destruct (inc_step rec fs com chain (Ok (temp, c)) e) as [[t1 c1]|x] eqn:E;
      [|rewrite fold_inc_raise in H; discriminate H].
    destruct (inc_step_extends _ _ _ _ _ _ _ _ _ E Hnd) as [Hnd1 Hex1].
    destruct (IH _ _ _ _ H Hnd1) as [Hnd2 Hex2].
    split; [exact Hnd2 | eapply extends_trans; eassumption].
Qed.

Lemma fold_inc_split : forall rec fs com chain pre e suf acc temp' c',
  fold_left (inc_step rec fs com chain) (pre ++ e :: suf) acc = Ok (temp', c') ->
  exists temp c temp1 c1,
    fold_left (inc_step rec fs com chain) pre acc = Ok (temp, c) /\
    inc_step rec fs com chain (Ok (temp, c)) e = Ok (temp1, c1) /\
    fold_left (inc_step rec fs com chain) suf (Ok (temp1, c1)) = Ok (temp', c').
Proof.
  intros rec fs com chain pre e suf acc temp' c' H. rewrite fold_left_app in H. cbn [fold_left] in H.
  destruct (fold_left (inc_step rec fs com chain) pre acc) as [[temp c]|x];
    [|rewrite inc_step_raise, fold_inc_raise in H; discriminate H].
  destruct (inc_step rec fs com chain (Ok (temp, c)) e) as [[temp1 c1]|x] eqn:E;
    [|rewrite fold_inc_raise in H; discriminate H].
  exists temp, c, temp1, c1. repeat split; [exact E | exact H].
Qed.

(* a file that exists and is not on the chain: everything its merged content has arrives *)
Lemma inc_step_adds : forall rec fs com chain temp c i d n path u temp' c',
  inc_step rec fs com chain (Ok (temp, c)) (i, (d, n, path)) = Ok (temp', c') -> nodup_top temp ->
  in_chain (norm_path path) chain = false -> fs_lookup (norm_path path) fs = Some u ->
  exists pr inc',
    parse_unit com path c u = Ok pr /\ sub_result rec chain path pr = Ok (inc', c') /\
    (forall k, ordinary_key k = true -> key_in k inc' -> key_in k temp') /\
    (forall k v, ordinary_key k = true -> ordinary_leaf v = true ->
       alookup k (sd_data temp) = None -> alookup k (sd_data inc') = Some (Leaf v) ->
       alookup k (sd_data temp') = Some (Leaf v)).
Proof.
  intros rec fs com chain temp c i d n path u temp' c' H Hnd Hc Hl.
  apply inc_step_inv in H.
  destruct H as [temp0 [c0 [Eacc [[[Hx|Hx] _] | [u' [pr [inc' [temp1 [_ [Hl' [Hp [Hs [Ht1 Et]]]]]]]]]]]]];
    [congruence | congruence |].
  inversion Eacc; subst temp0 c0; clear Eacc.
  assert (u' = u) by congruence. subst u'. exists pr, inc'. split; [exact Hp|]. split; [exact Hs|].
  assert (Hnd1 : nodup_top temp1).
  { destruct Ht1 as [Ht1|Ht1]; subst temp1; [exact Hnd | apply sd_merge_nodup; exact Hnd]. }
  subst temp'. split.
  - intros k Hk Hin. apply sd_merge_adds_key; assumption.
  - intros k v Hk Hv Hn Hi. destruct Ht1 as [Ht1|Ht1]; subst temp1.
    + apply sd_merge_adds_leaf; assumption.
    + apply sd_merge_keeps_leaf; try assumption. apply sd_merge_adds_leaf; assumption.
Qed.

(* ================================================================================================ *)
(* 8. PRECEDENCE: the including file wins, at every level of the recursion                           *)
(* ================================================================================================ *)
Lemma rec_S_inv : forall f fs com chain parent count s c',
  merge_includes_rec (S f) fs com chain parent count = Ok (s, c') ->
  exists temp,
    fold_left (inc_step (merge_includes_rec f fs com) fs com chain) (sd_inc parent) (Ok (sd_empty, count)) = Ok (temp, c') /\
    s = sd_merge parent (sd_data temp) (Some temp).
Proof.
  intros f fs com chain parent count s c' H. rewrite merge_includes_rec_S in H.
  destruct (fold_left (inc_step (merge_includes_rec f fs com) fs com chain) (sd_inc parent) (Ok (sd_empty, count)))
    as [[temp c]|x]; [|discriminate H].
  cbn [bind] in H. inversion H; subst. exists temp. split; reflexivity.
Qed.

Lemma nodup_top_empty : nodup_top sd_empty.
Proof. unfold nodup_top. cbn [sd_empty sd_data map]. constructor. Qed.

Lemma rec_extends_parent : forall f fs com chain parent count s c',
  merge_includes_rec f fs com chain parent count = Ok (s, c') -> nodup_top parent ->
  nodup_top s /\ extends parent s.
Proof.
  intros f fs com chain parent count s c' H Hnd. destruct f as [|f]; [discriminate H|].
  apply rec_S_inv in H. destruct H as [temp [_ Es]]. subst s. apply sd_merge_extends. exact Hnd.
Qed.

Lemma merge_includes_extends : forall fs com parent count s c',
  merge_includes fs com parent count = Ok (s, c') -> nodup_top parent -> nodup_top s /\ extends parent s.
Proof.
  intros fs com parent count s c' H Hnd. unfold merge_includes in H.
  destruct (merge_includes_rec (S (length fs)) fs com [] parent count) as [[p c]|x] eqn:E; [|discriminate H].
  cbn [bind] in H. inversion H; subst.
  destruct (rec_extends_parent _ _ _ _ _ _ _ _ E Hnd) as [Hnd1 Hex1].
  destruct (sd_merge_extends p (sd_data p) (Some p) Hnd1) as [Hnd2 Hex2].
  split; [exact Hnd2 | eapply extends_trans; eassumption].
Qed.

(* read_plain with include processing: root parse, merge_includes, expression table dropped *)
Lemma read_plain_inv : forall fs root com c s c',
  read_plain fs root true com c = Ok (s, c') ->
  exists u pr m,
    fs_lookup (norm_path root) fs = Some u /\ parse_unit com root c u = Ok pr /\
    merge_includes fs com (pr_sd pr) (pr_count pr) = Ok (m, c') /\ sd_data s = sd_data m.
Proof.
  intros fs root com c s c' H. unfold read_plain in H.
  destruct (fs_lookup (norm_path root) fs) as [u|] eqn:Hl; [|discriminate H].
  destruct (parse_unit com root c u) as [pr|x] eqn:Hp; [|discriminate H]. cbn [bind] in H.
  destruct (merge_includes fs com (pr_sd pr) (pr_count pr)) as [[m c1]|x] eqn:Hm; [|discriminate H].
  cbn [bind] in H. inversion H; subst. exists u, pr, m.
  split; [reflexivity|]. split; [exact Hp|]. split; [exact Hm | reflexivity].
Qed.

Theorem including_file_wins : forall fs root com c u pr s c' k v,
  fs_lookup (norm_path root) fs = Some u -> parse_unit com root c u = Ok pr ->
  read_plain fs root true com c = Ok (s, c') ->
  ordinary_key k = true -> ordinary_leaf v = true ->
  alookup k (sd_data (pr_sd pr)) = Some (Leaf v) ->
  alookup k (sd_data s) = Some (Leaf v).
Proof.
  intros fs root com c u pr s c' k v Hl Hp H Hk Hv Hin.
  apply read_plain_inv in H. destruct H as [u' [pr' [m [Hl' [Hp' [Hm Hd]]]]]].
  assert (u' = u) by congruence. subst u'. assert (pr' = pr) by congruence. subst pr'.
  rewrite Hd. pose proof (parse_unit_nodup _ _ _ _ _ Hp) as Hnd.
  destruct (merge_includes_extends _ _ _ _ _ _ Hm Hnd) as [_ [_ Hex]]. apply Hex; assumption.
Qed.

(* the same at every level of the recursion *)
Theorem including_file_wins_rec : forall f fs com chain parent count s c' k v,
  merge_includes_rec f fs com chain parent count = Ok (s, c') ->
  keys_nodup (map fst (sd_data parent)) = true ->
  ordinary_key k = true -> ordinary_leaf v = true ->
  alookup k (sd_data parent) = Some (Leaf v) ->
  alookup k (sd_data s) = Some (Leaf v).
Proof.
  intros f fs com chain parent count s c' k v H Hnd Hk Hv Hin. apply keys_nodup_iff in Hnd.
  destruct (rec_extends_parent _ _ _ _ _ _ _ _ H Hnd) as [_ [_ Hex]]. apply Hex; assumption.
Qed.

(* ================================================================================================ *)
(* 9. COMPLETENESS                                                                                   *)
(* ================================================================================================ *)
(* [path] is an entry of the include table of [parent] that the run
   merge_includes_rec (S f) fs com chain parent count  reaches with the counter at [c1] (the value the
   loop over the earlier entries leaves), the file exists, is not on the chain, and parses to [pr].
   The counter only numbers placeholders, but a parse result is a function of it, so it is named. *)
Definition direct_include (fs : fsys) (com : bool) (f : nat) (chain : list str) (parent : sdict) (count : Z)
           (path : str) (pr : parsed) : Prop :=
  exists pre i d n suf temp c1 u,
    sd_inc parent = pre ++ (i, (d, n, path)) :: suf /\
    fold_left (inc_step (merge_includes_rec f fs com) fs com chain) pre (Ok (sd_empty, count)) = Ok (temp, c1) /\
    in_chain (norm_path path) chain = false /\
    fs_lookup (norm_path path) fs = Some u /\
    parse_unit com path c1 u = Ok pr.

Lemma sub_result_extends : forall f fs com chain path pr inc' c2,
  sub_result (merge_includes_rec f fs com) chain path pr = Ok (inc', c2) -> nodup_top (pr_sd pr) ->
  extends (pr_sd pr) inc'.
Proof.
  intros f fs com chain path pr inc' c2 H Hnd. unfold sub_result in H.
  destruct (sd_inc (pr_sd pr)) as [|e l].
  - inversion H; subst. apply extends_refl.
  - destruct (rec_extends_parent _ _ _ _ _ _ _ _ H Hnd) as [_ Hex]. exact Hex.
Qed.

(* one level: the merged content of a direct include arrives in the result, and the sub-run succeeded *)
Lemma rec_direct_core : forall f fs com chain parent count s c' path pr,
  merge_includes_rec (S f) fs com chain parent count = Ok (s, c') -> nodup_top parent ->
  direct_include fs com f chain parent count path pr ->
  exists inc' c2,
    sub_result (merge_includes_rec f fs com) chain path pr = Ok (inc', c2) /\
    extends (pr_sd pr) inc' /\
    (forall k, ordinary_key k = true -> key_in k inc' -> key_in k s).
Proof.
  intros f fs com chain parent count s c' path pr H Hnd
         [pre [i [d [n [suf [temp [c1 [u [Hinc [Hpre [Hc [Hl Hp]]]]]]]]]]]].
  apply rec_S_inv in H. destruct H as [tfin [Hfold Es]]. rewrite Hinc in Hfold.
  apply fold_inc_split in Hfold.
  destruct Hfold as [temp0 [c0 [temp1 [c1' [Hpre' [Hstep Hsuf]]]]]].
  assert (temp0 = temp /\ c0 = c1) by (split; congruence). destruct H as [E1 E2]. subst temp0 c0.
  destruct (fold_inc_extends _ _ _ _ _ _ _ _ _ Hpre nodup_top_empty) as [Hndt _].
  destruct (inc_step_adds _ _ _ _ _ _ _ _ _ _ _ _ _ Hstep Hndt Hc Hl) as [pr' [inc' [Hp' [Hs [Hkeys _]]]]].
  assert (pr' = pr) by congruence. subst pr'.
  destruct (inc_step_extends _ _ _ _ _ _ _ _ _ Hstep Hndt) as [Hnd1 _].
  destruct (fold_inc_extends _ _ _ _ _ _ _ _ _ Hsuf Hnd1) as [_ [Hex _]].
  exists inc', c1'. split; [exact Hs|]. split.
  - eapply sub_result_extends; [exact Hs|]. eapply parse_unit_nodup. exact Hp.
  - intros k Hk Hin. subst s. apply sd_merge_adds_key; [exact Hk | exact Hnd|].
    apply Hex; [exact Hk|]. apply Hkeys; assumption.
Qed.

(* in a successful run every entry whose file exists and is not on the chain is a direct include *)
Lemma direct_include_exists : forall f fs com chain parent count s c' i d n path u,
  merge_includes_rec (S f) fs com chain parent count = Ok (s, c') ->
  In (i, (d, n, path)) (sd_inc parent) ->
  in_chain (norm_path path) chain = false -> fs_lookup (norm_path path) fs = Some u ->
  exists pr, direct_include fs com f chain parent count path pr.
Proof.
  intros f fs com chain parent count s c' i d n path u H Hin Hc Hl.
  apply in_split in Hin. destruct Hin as [pre [suf Hinc]].
  apply rec_S_inv in H. destruct H as [tfin [Hfold _]]. rewrite Hinc in Hfold.
  apply fold_inc_split in Hfold. destruct Hfold as [temp [c1 [temp1 [c1' [Hpre [Hstep _]]]]]].
  destruct (fold_inc_extends _ _ _ _ _ _ _ _ _ Hpre nodup_top_empty) as [Hndt _].
  destruct (inc_step_adds _ _ _ _ _ _ _ _ _ _ _ _ _ Hstep Hndt Hc Hl) as [pr [inc' [Hp _]]].
  exists pr, pre, i, d, n, suf, temp, c1, u. repeat split; assumption.
Qed.

(* files reached through a chain of includes, none of them cut by the chain guard.
   [run_reach fs com f chain parent count f' chain' path pr]: in the run
   merge_includes_rec f fs com chain parent count  the file [path] is reached and parses to [pr]; its own
   include table is processed by  merge_includes_rec f' fs com chain' (pr_sd pr) (pr_count pr) *)
Inductive run_reach (fs : fsys) (com : bool)
  : nat -> list str -> sdict -> Z -> nat -> list str -> str -> parsed -> Prop :=
  | RR_direct : forall f chain parent count path pr,
      direct_include fs com f chain parent count path pr ->
      run_reach fs com (S f) chain parent count f (chain ++ [norm_path path]) path pr
  | RR_trans : forall f chain parent count path pr f' chain' path' pr',
      direct_include fs com f chain parent count path pr ->
      run_reach fs com f (chain ++ [norm_path path]) (pr_sd pr) (pr_count pr) f' chain' path' pr' ->
      run_reach fs com (S f) chain parent count f' chain' path' pr'.

Lemma direct_include_nonempty : forall fs com f chain parent count path pr,
  direct_include fs com f chain parent count path pr -> sd_inc parent <> [].
Proof.
  intros fs com f chain parent count path pr [pre [i [d [n [suf [temp [c1 [u [Hinc _]]]]]]]]].
  rewrite Hinc. destruct pre; discriminate.
Qed.

Lemma direct_include_parse_nodup : forall fs com f chain parent count path pr,
  direct_include fs com f chain parent count path pr -> nodup_top (pr_sd pr).
Proof.
  intros fs com f chain parent count path pr [pre [i [d [n [suf [temp [c1 [u [_ [_ [_ [_ Hp]]]]]]]]]]]].
  eapply parse_unit_nodup. exact Hp.
Qed.

Lemma run_reach_nonempty : forall fs com f chain parent count f' chain' path pr,
  run_reach fs com f chain parent count f' chain' path pr -> sd_inc parent <> [].
Proof.
  intros fs com f chain parent count f' chain' path pr H.
  destruct H as [f chain parent count path pr Hd | f chain parent count path pr f' chain' path' pr' Hd _];
    eapply direct_include_nonempty; exact Hd.
Qed.

(* the sub-run of a direct include that has includes of its own succeeded *)
Lemma direct_sub_run : forall f fs com chain parent count s c' path pr,
  merge_includes_rec (S f) fs com chain parent count = Ok (s, c') -> nodup_top parent ->
  direct_include fs com f chain parent count path pr -> sd_inc (pr_sd pr) <> [] ->
  exists s1 c2,
    merge_includes_rec f fs com (chain ++ [norm_path path]) (pr_sd pr) (pr_count pr) = Ok (s1, c2) /\
    (forall k, ordinary_key k = true -> key_in k s1 -> key_in k s).
Proof.
  intros f fs com chain parent count s c' path pr Hrun Hnd Hd Hne.
  destruct (rec_direct_core _ _ _ _ _ _ _ _ _ _ Hrun Hnd Hd) as [inc' [c2 [Hs [_ Hkeys]]]].
  unfold sub_result in Hs. destruct (sd_inc (pr_sd pr)) as [|e l]; [congruence|].
  exists inc', c2. split; [exact Hs | exact Hkeys].
Qed.

Lemma reach_complete : forall fs com f chain parent count f' chain' path pr,
  run_reach fs com f chain parent count f' chain' path pr ->
  forall s c', merge_includes_rec f fs com chain parent count = Ok (s, c') -> nodup_top parent ->
  forall k, ordinary_key k = true -> key_in k (pr_sd pr) -> key_in k s.
Proof.
  intros fs com f chain parent count f' chain' path pr H.
  induction H as [f chain parent count path pr Hd | f chain parent count path pr f' chain' path' pr' Hd Hr IH];
    intros s c' Hrun Hnd k Hk Hin.
  - destruct (rec_direct_core _ _ _ _ _ _ _ _ _ _ Hrun Hnd Hd) as [inc' [c2 [_ [[Hex _] Hkeys]]]].
    apply Hkeys; [exact Hk|]. apply Hex; assumption.
  - pose proof (run_reach_nonempty _ _ _ _ _ _ _ _ _ _ Hr) as Hne.
    destruct (direct_sub_run _ _ _ _ _ _ _ _ _ _ Hrun Hnd Hd Hne) as [s1 [c2 [Hsub Hkeys]]].
    apply Hkeys; [exact Hk|].
    eapply IH; try eassumption. eapply direct_include_parse_nodup. exact Hd.
Qed.

(* nothing is suppressed: the reached files are closed under include entries whose target exists and is
   not on the chain at that point *)
Lemma reach_closed : forall fs com f chain parent count f' chain' path pr,
  run_reach fs com f chain parent count f' chain' path pr ->
  forall s c', merge_includes_rec f fs com chain parent count = Ok (s, c') -> nodup_top parent ->
  forall i d n path' u', In (i, (d, n, path')) (sd_inc (pr_sd pr)) ->
  in_chain (norm_path path') chain' = false -> fs_lookup (norm_path path') fs = Some u' ->
  exists f'' pr', run_reach fs com f chain parent count f'' (chain' ++ [norm_path path']) path' pr'.
Proof.
  intros fs com f chain parent count f' chain' path pr H.
  induction H as [f chain parent count path pr Hd | f chain parent count path pr f' chain' path' pr' Hd Hr IH];
    intros s c' Hrun Hnd i d n p2 u2 Hin Hc Hl.
  - assert (Hne : sd_inc (pr_sd pr) <> []) by (intro E; rewrite E in Hin; exact Hin).
    destruct (direct_sub_run _ _ _ _ _ _ _ _ _ _ Hrun Hnd Hd Hne) as [s1 [c2 [Hsub _]]].
    destruct f as [|f0]; [discriminate Hsub|].
    destruct (direct_include_exists _ _ _ _ _ _ _ _ _ _ _ _ _ Hsub Hin Hc Hl) as [pr2 Hd2].
    exists f0, pr2. eapply RR_trans; [exact Hd|]. apply RR_direct. exact Hd2.
  - pose proof (run_reach_nonempty _ _ _ _ _ _ _ _ _ _ Hr) as Hne.
    destruct (direct_sub_run _ _ _ _ _ _ _ _ _ _ Hrun Hnd Hd Hne) as [s1 [c2 [Hsub _]]].
    pose proof (direct_include_parse_nodup _ _ _ _ _ _ _ _ Hd) as Hndp.
    destruct (IH _ _ Hsub Hndp _ _ _ _ _ Hin Hc Hl) as [f'' [pr2 Hr2]].
    exists f'', pr2. eapply RR_trans; eassumption.
Qed.

(* ---- read_plain level ---------------------------------------------------------------------------- *)
Lemma read_plain_rec_inv : forall fs root com c s c' u pr,
  read_plain fs root true com c = Ok (s, c') ->
  fs_lookup (norm_path root) fs = Some u -> parse_unit com root c u = Ok pr ->
  exists p, merge_includes_rec (S (length fs)) fs com [] (pr_sd pr) (pr_count pr) = Ok (p, c') /\
            nodup_top p /\ extends p s.
Proof.
  intros fs root com c s c' u pr H Hl Hp.
  apply read_plain_inv in H. destruct H as [u' [pr' [m [Hl' [Hp' [Hm Hd]]]]]].
  assert (u' = u) by congruence. subst u'. assert (pr' = pr) by congruence. subst pr'.
  unfold merge_includes in Hm.
  destruct (merge_includes_rec (S (length fs)) fs com [] (pr_sd pr) (pr_count pr)) as [[p c1]|x] eqn:E;
    [|discriminate Hm].
  cbn [bind] in Hm. inversion Hm; subst. exists p. split; [reflexivity|].
  pose proof (parse_unit_nodup _ _ _ _ _ Hp) as Hnd.
  destruct (rec_extends_parent _ _ _ _ _ _ _ _ E Hnd) as [Hnd1 _].
  destruct (sd_merge_extends p (sd_data p) (Some p) Hnd1) as [_ [Hex1 Hex2]].
  split; [exact Hnd1|]. unfold extends, key_in. rewrite Hd. split; assumption.
Qed.

Theorem reachable_file_complete : forall fs root com c s c' u0 pr0 f' chain' path pr k,
  read_plain fs root true com c = Ok (s, c') ->
  fs_lookup (norm_path root) fs = Some u0 -> parse_unit com root c u0 = Ok pr0 ->
  run_reach fs com (S (length fs)) [] (pr_sd pr0) (pr_count pr0) f' chain' path pr ->
  ordinary_key k = true -> alookup k (sd_data (pr_sd pr)) <> None ->
  alookup k (sd_data s) <> None.
Proof.
  intros fs root com c s c' u0 pr0 f' chain' path pr k H Hl Hp Hr Hk Hin.
  destruct (read_plain_rec_inv _ _ _ _ _ _ _ _ H Hl Hp) as [p [Hrun [_ [Hex _]]]].
  apply Hex; [exact Hk|].
  eapply reach_complete; try eassumption. eapply parse_unit_nodup. exact Hp.
Qed.

(* direct includes, stated on the include table alone: the file is parsed and its keys arrive *)
Theorem direct_include_complete : forall fs root com c s c' u0 pr0 i d n path u,
  read_plain fs root true com c = Ok (s, c') ->
  fs_lookup (norm_path root) fs = Some u0 -> parse_unit com root c u0 = Ok pr0 ->
  In (i, (d, n, path)) (sd_inc (pr_sd pr0)) -> fs_lookup (norm_path path) fs = Some u ->
  exists c1 pr, parse_unit com path c1 u = Ok pr /\
    forall k, ordinary_key k = true -> alookup k (sd_data (pr_sd pr)) <> None -> alookup k (sd_data s) <> None.
Proof.
  intros fs root com c s c' u0 pr0 i d n path u H Hl Hp Hin Hlu.
  destruct (read_plain_rec_inv _ _ _ _ _ _ _ _ H Hl Hp) as [p [Hrun _]].
  destruct (direct_include_exists _ _ _ _ _ _ _ _ _ _ _ _ _ Hrun Hin eq_refl Hlu) as [pr Hd].
  pose proof Hd as [pre [i' [d' [n' [suf [temp [c1 [u' [_ [_ [_ [Hlu' Hpp]]]]]]]]]]]].
  assert (u' = u) by congruence. subst u'.
  exists c1, pr. split; [exact Hpp|]. intros k Hk Hk'.
  eapply reachable_file_complete; try eassumption. apply RR_direct. exact Hd.
Qed.

(* the same one level down, at any depth of the recursion: in a successful run every include entry of a
   directly included file whose target exists and is not on the chain is itself parsed and merged *)
Theorem rec_direct_include_complete : forall f fs com chain parent count s c' i d n path u,
  merge_includes_rec (S f) fs com chain parent count = Ok (s, c') ->
  keys_nodup (map fst (sd_data parent)) = true ->
  In (i, (d, n, path)) (sd_inc parent) ->
  in_chain (norm_path path) chain = false -> fs_lookup (norm_path path) fs = Some u ->
  exists c1 pr, parse_unit com path c1 u = Ok pr /\
    (forall k, ordinary_key k = true -> alookup k (sd_data (pr_sd pr)) <> None -> alookup k (sd_data s) <> None) /\
    (sd_inc (pr_sd pr) <> [] ->
     exists s1 c2, merge_includes_rec f fs com (chain ++ [norm_path path]) (pr_sd pr) (pr_count pr) = Ok (s1, c2) /\
       forall k, ordinary_key k = true -> alookup k (sd_data s1) <> None -> alookup k (sd_data s) <> None).
Proof.
  intros f fs com chain parent count s c' i d n path u Hrun Hnd Hin Hc Hlu. apply keys_nodup_iff in Hnd.
  destruct (direct_include_exists _ _ _ _ _ _ _ _ _ _ _ _ _ Hrun Hin Hc Hlu) as [pr Hd].
  pose proof Hd as [pre [i' [d' [n' [suf [temp [c1 [u' [_ [_ [_ [Hlu' Hpp]]]]]]]]]]]].
  assert (u' = u) by congruence. subst u'.
  destruct (rec_direct_core _ _ _ _ _ _ _ _ _ _ Hrun Hnd Hd) as [inc' [c2 [Hs [[Hex _] Hkeys]]]].
  exists c1, pr. split; [exact Hpp|]. split.
  - intros k Hk Hk'. apply Hkeys; [exact Hk|]. apply Hex; assumption.
  - intro Hne. unfold sub_result in Hs. destruct (sd_inc (pr_sd pr)) as [|e l]; [congruence|].
    exists inc', c2. split; [exact Hs | exact Hkeys].
Qed.

(* ================================================================================================ *)
(* 10. INCLUDE ORDER: an earlier include wins over every later one                                   *)
(* ================================================================================================ *)
Lemma earlier_include_wins_core : forall f fs com chain parent count s c' pre i d n path suf temp c1 u pr k v,
  merge_includes_rec (S f) fs com chain parent count = Ok (s, c') -> nodup_top parent ->
  sd_inc parent = pre ++ (i, (d, n, path)) :: suf ->
  fold_left (inc_step (merge_includes_rec f fs com) fs com chain) pre (Ok (sd_empty, count)) = Ok (temp, c1) ->
  in_chain (norm_path path) chain = false -> fs_lookup (norm_path path) fs = Some u ->
  parse_unit com path c1 u = Ok pr ->
  ordinary_key k = true -> ordinary_leaf v = true ->
  alookup k (sd_data parent) = None -> alookup k (sd_data temp) = None ->
  alookup k (sd_data (pr_sd pr)) = Some (Leaf v) ->
  alookup k (sd_data s) = Some (Leaf v).
Proof.
  intros f fs com chain parent count s c' pre i d n path suf temp c1 u pr k v
         H Hnd Hinc Hpre Hc Hl Hp Hk Hv Hnp Hnt Hin.
  apply rec_S_inv in H. destruct H as [tfin [Hfold Es]]. rewrite Hinc in Hfold.
  apply fold_inc_split in Hfold.
  destruct Hfold as [temp0 [c0 [temp1 [c1' [Hpre' [Hstep Hsuf]]]]]].
  assert (temp0 = temp /\ c0 = c1) by (split; congruence). destruct H as [E1 E2]. subst temp0 c0.
  destruct (fold_inc_extends _ _ _ _ _ _ _ _ _ Hpre nodup_top_empty) as [Hndt _].
  destruct (inc_step_adds _ _ _ _ _ _ _ _ _ _ _ _ _ Hstep Hndt Hc Hl) as [pr' [inc' [Hp' [Hs [_ Hleaf]]]]].
  assert (pr' = pr) by congruence. subst pr'.
  assert (Hex0 : extends (pr_sd pr) inc').
  { eapply sub_result_extends; [exact Hs|]. eapply parse_unit_nodup. exact Hp. }
  destruct Hex0 as [_ Hex0].
  destruct (inc_step_extends _ _ _ _ _ _ _ _ _ Hstep Hndt) as [Hnd1 _].
  destruct (fold_inc_extends _ _ _ _ _ _ _ _ _ Hsuf Hnd1) as [_ [_ Hex]].
  subst s. apply sd_merge_adds_leaf; try assumption.
  apply Hex; try assumption. apply Hleaf; try assumption. apply Hex0; assumption.
Qed.

Theorem earlier_include_wins : forall fs root com c s c' u0 pr0 pre i d n path suf temp c1 u pr k v,
  read_plain fs root true com c = Ok (s, c') ->
  fs_lookup (norm_path root) fs = Some u0 -> parse_unit com root c u0 = Ok pr0 ->
  sd_inc (pr_sd pr0) = pre ++ (i, (d, n, path)) :: suf ->
  fold_left (inc_step (merge_includes_rec (length fs) fs com) fs com []) pre (Ok (sd_empty, pr_count pr0)) = Ok (temp, c1) ->
  fs_lookup (norm_path path) fs = Some u -> parse_unit com path c1 u = Ok pr ->
  ordinary_key k = true -> ordinary_leaf v = true ->
  alookup k (sd_data (pr_sd pr0)) = None -> alookup k (sd_data temp) = None ->
  alookup k (sd_data (pr_sd pr)) = Some (Leaf v) ->
  alookup k (sd_data s) = Some (Leaf v).
Proof.
  intros fs root com c s c' u0 pr0 pre i d n path suf temp c1 u pr k v
         H Hl0 Hp0 Hinc Hpre Hl Hp Hk Hv Hn0 Hnt Hin.
  destruct (read_plain_rec_inv _ _ _ _ _ _ _ _ H Hl0 Hp0) as [p [Hrun [_ [_ Hex]]]].
  apply Hex; try assumption.
  eapply earlier_include_wins_core; try eassumption; [eapply parse_unit_nodup; exact Hp0 | reflexivity].
Qed.

(* the first include of the root: nothing is earlier *)
Theorem first_include_wins : forall fs root com c s c' u0 pr0 i d n path suf u pr k v,
  read_plain fs root true com c = Ok (s, c') ->
  fs_lookup (norm_path root) fs = Some u0 -> parse_unit com root c u0 = Ok pr0 ->
  sd_inc (pr_sd pr0) = (i, (d, n, path)) :: suf ->
  fs_lookup (norm_path path) fs = Some u -> parse_unit com path (pr_count pr0) u = Ok pr ->
  ordinary_key k = true -> ordinary_leaf v = true ->
  alookup k (sd_data (pr_sd pr0)) = None ->
  alookup k (sd_data (pr_sd pr)) = Some (Leaf v) ->
  alookup k (sd_data s) = Some (Leaf v).
Proof.
  intros fs root com c s c' u0 pr0 i d n path suf u pr k v H Hl0 Hp0 Hinc Hl Hp Hk Hv Hn0 Hin.
  eapply (earlier_include_wins fs root com c s c' u0 pr0 [] i d n path suf sd_empty (pr_count pr0));
    try eassumption; reflexivity.
Qed.

(* every include entry of the root whose target exists is reached (the chain is empty at the root) *)
Theorem root_includes_reached : forall fs root com c s c' u0 pr0 i d n path u,
  read_plain fs root true com c = Ok (s, c') ->
  fs_lookup (norm_path root) fs = Some u0 -> parse_unit com root c u0 = Ok pr0 ->
  In (i, (d, n, path)) (sd_inc (pr_sd pr0)) -> fs_lookup (norm_path path) fs = Some u ->
  exists pr, run_reach fs com (S (length fs)) [] (pr_sd pr0) (pr_count pr0) (length fs) [norm_path path] path pr.
Proof.
  intros fs root com c s c' u0 pr0 i d n path u H Hl Hp Hin Hlu.
  destruct (read_plain_rec_inv _ _ _ _ _ _ _ _ H Hl Hp) as [p [Hrun _]].
  destruct (direct_include_exists _ _ _ _ _ _ _ _ _ _ _ _ _ Hrun Hin eq_refl Hlu) as [pr Hd].
  exists pr. apply (RR_direct fs com (length fs) [] (pr_sd pr0) (pr_count pr0) path pr Hd).
Qed.

Theorem reachable_files_closed : forall fs root com c s c' u0 pr0 f' chain' path pr i d n path' u',
  read_plain fs root true com c = Ok (s, c') ->
  fs_lookup (norm_path root) fs = Some u0 -> parse_unit com root c u0 = Ok pr0 ->
  run_reach fs com (S (length fs)) [] (pr_sd pr0) (pr_count pr0) f' chain' path pr ->
  In (i, (d, n, path')) (sd_inc (pr_sd pr)) ->
  in_chain (norm_path path') chain' = false -> fs_lookup (norm_path path') fs = Some u' ->
  exists f'' pr',
    run_reach fs com (S (length fs)) [] (pr_sd pr0) (pr_count pr0) f'' (chain' ++ [norm_path path']) path' pr'.
Proof.
  intros fs root com c s c' u0 pr0 f' chain' path pr i d n path' u' H Hl Hp Hr Hin Hc Hlu.
  destruct (read_plain_rec_inv _ _ _ _ _ _ _ _ H Hl Hp) as [p [Hrun _]].
  eapply reach_closed; try eassumption. eapply parse_unit_nodup. exact Hp.
Qed.
