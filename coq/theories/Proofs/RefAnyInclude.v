(* C05: a plain reference in the root file to a key that is declared in an INCLUDED file only.
   The root parses to the SDict of a reference document (Proofs/RefAnyProofs.v) with one include entry; the included
   file parses to a plain dict.  The reader merges the included dict behind the root's entries (merged_two, exactly) and
   the merged state is the SDict of the concatenated document: the whole-document theorem applies. *)
From Coq Require Import String.
From Coq Require Import NArith ZArith List Bool Lia Permutation.
From DictIO Require Import Chars Str Value Scalar KeyPath SDict Layout Lexer TokParser Reader Expr Eval Paths
     TreeSpec NativeSpec LayoutSpec E2ESpec MiscSpec EvalSpec FlatSpec IndexSpec.
From DictIO Require Import SDictProofs WriteProofs E2EKeyTok AppendSeq RereadCtabs AppendCommented
     IncludeProofs CleanInvariant AuditFix RereadRead FlatDataProofs FlatIndexProofs RefAnyProofs.
Import ListNotations.

(* merged_two on a root state that still has its table of expressions, and a plain included dict whose keys are new *)
Lemma merged_two_exact_expr : forall A m, clean_state A = true ->
  wf (Dict m) = true -> ktree (fun _ => true) (Dict m) = true ->
  (forall k, In k (map fst m) -> alookup k (sd_data A) = None) ->
  merged_two A (st_plain_of m) = mkSD (sd_data A ++ m) (sd_lc A) (sd_bc A) (sd_inc A) (sd_expr A).
Proof.
  intros A m Hcs Hw Hk Hnew. assert (Hnd : NoDup (map fst m)) by (apply wf_Dict_iff in Hw; tauto).
  unfold clean_state in Hcs. apply andb_true_iff in Hcs. destruct Hcs as [HwA HcA].
  unfold merged_two. cbv zeta. change (sd_data (st_plain_of m)) with m. rewrite (merge_into_empty m Hw Hk).
  change (sd_data (st_plain_of m)) with m.
  destruct A as [D lc bc inc ex]. cbn [sd_data sd_lc sd_bc sd_inc sd_expr] in *.
  assert (Eapp : merge_spec D m = D ++ m) by (rewrite merge_spec_fold; apply fold_mstep_fresh; assumption).
  assert (HwM : wf (Dict (D ++ m)) = true) by (rewrite <- Eapp; exact (merge_spec_wf D m HwA Hw)).
  assert (HcM : clean_state (mkSD (D ++ m) lc bc inc ex) = true).
  { unfold clean_state. cbn [sd_data sd_lc sd_bc sd_inc]. rewrite HwM, <- Eapp. exact (clean_data_merge lc bc inc D m Hk HcA). }
  assert (EP : sd_merge (mkSD D lc bc inc ex) m (Some (st_plain_of m)) = mkSD (D ++ m) lc bc inc ex).
  { unfold sd_merge, st_plain_of. cbn [sd_data sd_lc sd_bc sd_inc sd_expr].
    rewrite merge_kvs_top_nocirc; [|exact Hnd| |exact (depth_children m)].
    - rewrite <- merge_spec_fold, Eapp. cbn [tmerge fold_left]. exact (clean_state_fix _ HcM).
    - intros k tv Hin E. rewrite (Hnew k Hin) in E. discriminate E. }
  rewrite EP. unfold sd_merge. cbn [sd_data sd_lc sd_bc sd_inc sd_expr]. rewrite (merge_kvs_self _ _ _ HwM), !tmerge_self.
  exact (clean_state_fix _ HcM).
Qed.

(* the merge step of the reader for a root with ONE include entry whose unit has none *)
Lemma merge_single_include : forall fs com pr0 i d n path u pr,
  sd_inc (pr_sd pr0) = [(i, (d, n, path))] ->
  fs_lookup (norm_path path) fs = Some u -> parse_unit com path (pr_count pr0) u = Ok pr ->
  sd_inc (pr_sd pr) = [] ->
  merge_includes fs com (pr_sd pr0) (pr_count pr0) = Ok (merged_two (pr_sd pr0) (pr_sd pr), pr_count pr).
Proof.
  intros fs com pr0 i d n path u pr Hinc Hl Hp Hni.
  unfold merge_includes. rewrite merge_includes_rec_S, Hinc. cbn [fold_left].
  assert (Hc : in_chain (norm_path path) [] = false) by reflexivity.
  rewrite (inc_step_valid _ fs com [] sd_empty (pr_count pr0) i d n path u Hc Hl).
  rewrite Hp. cbn [bind]. unfold sub_result. rewrite Hni. cbn [bind fst snd]. reflexivity.
Qed.

Definition rlit_doc (l : list (str * tree)) : rdoc := map (fun xt => (fst xt, VLit (snd xt))) l.
Definition plain_kvs (l : list (str * tree)) : list (key * tree) := map (fun xt => (KS (fst xt), snd xt)) l.

Lemma rdata_rlit_doc : forall l, rdata (rlit_doc l) = plain_kvs l.
Proof. intro l. unfold rdata, rlit_doc, plain_kvs. rewrite map_map. reflexivity. Qed.
Lemma rtable_rlit_doc : forall l, rtable (rlit_doc l) = [].
Proof. induction l as [|[x t] l IH]; [reflexivity|]. exact IH. Qed.

Theorem include_declared_reference_document : forall fs root c u0 i dtext n path u droot dinc lc bc cnt0 cnt,
  fs_lookup (norm_path root) fs = Some u0 ->
  parse_unit true root c u0 = Ok (mkParsed (ref_sdict droot lc bc [(i, (dtext, n, path))]) cnt0) ->
  fs_lookup (norm_path path) fs = Some u ->
  parse_unit true path cnt0 u = Ok (mkParsed (st_plain_of (plain_kvs dinc)) cnt) ->
  clean_state (ref_sdict droot lc bc [(i, (dtext, n, path))]) = true ->
  wf (Dict (plain_kvs dinc)) = true -> ktree (fun _ => true) (Dict (plain_kvs dinc)) = true ->
  rdoc_okb (droot ++ rlit_doc dinc) = true ->
  read_full fs root true c =
  Some (Ok (mkSD (ref_result (droot ++ rlit_doc dinc)) lc bc [(i, (dtext, n, path))] [], cnt)).
Proof.
  intros fs root c u0 i dtext n path u droot dinc lc bc cnt0 cnt Hl0 Hp0 Hl Hp Hcs Hw Hk Hok.
  set (inc := [(i, (dtext, n, path))]) in *.
  pose proof (rdoc_okb_rok _ Hok) as Hrok.
  unfold read_full. rewrite Hl0, Hp0.
  rewrite (merge_single_include fs true (mkParsed (ref_sdict droot lc bc inc) cnt0) i dtext n path u
             (mkParsed (st_plain_of (plain_kvs dinc)) cnt) eq_refl Hl Hp eq_refl).
  cbn [pr_sd pr_count].
  assert (Hnew : forall k, In k (map fst (plain_kvs dinc)) -> alookup k (sd_data (ref_sdict droot lc bc inc)) = None).
  { intros k Hin. cbn [ref_sdict sd_data]. apply alookup_notin. rewrite rdata_keys. intro Hc.
    pose proof (rok_names _ Hrok) as Hnd. rewrite map_app in Hnd.
    unfold plain_kvs in Hin. rewrite map_map in Hin. cbn [fst] in Hin. apply in_map_iff in Hin. destruct Hin as [[x t] [E Hin]].
    cbn [fst] in E. subst k. apply in_map_iff in Hc. destruct Hc as [x' [E Hx']]. inversion E; subst x'.
    apply (proj2 (proj2 (NoDup_app_inv _ _ Hnd)) x Hx'). unfold rlit_doc. rewrite map_map. cbn [fst].
    apply in_map_iff. exists (x, t). split; [reflexivity | exact Hin]. }
  rewrite (merged_two_exact_expr _ _ Hcs Hw Hk Hnew). cbn [ref_sdict sd_data sd_lc sd_bc sd_inc sd_expr].
  assert (E : mkSD (rdata droot ++ plain_kvs dinc) lc bc inc (rtable droot) = ref_sdict (droot ++ rlit_doc dinc) lc bc inc).
  { unfold ref_sdict. rewrite rdata_app, rtable_app, rdata_rlit_doc, rtable_rlit_doc, app_nil_r. reflexivity. }
  rewrite E, (reference_document_any_type _ lc bc inc Hok). reflexivity.
Qed.
Print Assumptions include_declared_reference_document.

(* one reference, read off: the key k of the root, declared  k $y;  holds the value the INCLUDED file declares for y
   (y is not declared in the root) *)
Theorem include_declared_reference : forall fs root c u0 i dtext n path u droot dinc lc bc cnt0 cnt k j y v,
  fs_lookup (norm_path root) fs = Some u0 ->
  parse_unit true root c u0 = Ok (mkParsed (ref_sdict droot lc bc [(i, (dtext, n, path))]) cnt0) ->
  fs_lookup (norm_path path) fs = Some u ->
  parse_unit true path cnt0 u = Ok (mkParsed (st_plain_of (plain_kvs dinc)) cnt) ->
  clean_state (ref_sdict droot lc bc [(i, (dtext, n, path))]) = true ->
  wf (Dict (plain_kvs dinc)) = true -> ktree (fun _ => true) (Dict (plain_kvs dinc)) = true ->
  rdoc_okb (droot ++ rlit_doc dinc) = true ->
  In (k, VRef j y) droot -> In (y, v) dinc -> v <> Leaf SNone ->
  ~ In y (map fst droot) /\
  exists s', read_full fs root true c = Some (Ok (s', cnt)) /\ sd_expr s' = [] /\
             alookup (KS y) (sd_data s') = Some v /\ alookup (KS k) (sd_data s') = Some v.
Proof.
  intros fs root c u0 i dtext n path u droot dinc lc bc cnt0 cnt k j y v Hl0 Hp0 Hl Hp Hcs Hw Hk Hok Hin Hy Hv.
  pose proof (rdoc_okb_rok _ Hok) as Hrok. pose proof (rok_names _ Hrok) as Hnd.
  set (d := droot ++ rlit_doc dinc) in *.
  assert (Hyd : In (y, VLit v) d).
  { unfold d. apply in_or_app. right. unfold rlit_doc. apply in_map_iff. exists (y, v). split; [reflexivity | exact Hy]. }
  assert (Hkd : In (k, VRef j y) d) by (unfold d; apply in_or_app; left; exact Hin).
  split.
  - intro Hc. unfold d in Hnd. rewrite map_app in Hnd. apply (proj2 (proj2 (NoDup_app_inv _ _ Hnd)) y Hc).
    unfold rlit_doc. rewrite map_map. cbn [fst]. apply in_map_iff. exists (y, v). split; [reflexivity | exact Hy].
  - exists (mkSD (ref_result d) lc bc [(i, (dtext, n, path))] []).
    split; [apply (include_declared_reference_document fs root c u0 i dtext n path u droot dinc lc bc cnt0 cnt); assumption|].
    split; [reflexivity|]. cbn [sd_data]. rewrite !alookup_ref_result.
    rewrite (in_rlook d y _ Hnd Hyd), (in_rlook d k _ Hnd Hkd). cbn [option_map rfinal]. split; [reflexivity|].
    assert (Ed : denote_ref d y = Some v).
    { apply (follow_denote d 1 y v). rewrite follow_S, (in_rlook d y _ Hnd Hyd). reflexivity. }
    unfold ref_value. rewrite Ed. destruct v as [[ | | | | ]| |]; try reflexivity. exfalso. apply Hv. reflexivity.
Qed.
Print Assumptions include_declared_reference.
