(* Flat data (a list of (key, Leaf) entries with distinct keys): back-insertion of a value for a placeholder,
   placeholder arithmetic, the variables table, and the id-keyed side tables. *)
From Coq Require Import String NArith ZArith List Bool Lia Permutation.
From DictIO Require Import Chars Str Value Scalar KeyPath SDict Layout Lexer TokParser Reader Expr Eval
     MiscSpec EvalSpec FlatSpec ScalarProofs KeyPathProofs SDictProofs SemProofs.
From DictIO Require OrderProofs.
Import ListNotations.

(* ================================================================================================ *)
(* D4 : side tables with distinct ids                                                               *)
(* ================================================================================================ *)
Lemma tdel_mid : forall {V} (T1 T2 : list (N * V)) i e,
  ~ In i (map fst T1) -> tdel i (T1 ++ (i, e) :: T2) = T1 ++ T2.
Proof.
  intros V T1 T2 i e. induction T1 as [|[j v] T1 IH]; intros Hn; cbn [app tdel].
  - rewrite N.eqb_refl. reflexivity.
  - cbn [map fst In] in Hn. destruct (N.eqb i j) eqn:E.
    + apply N.eqb_eq in E. exfalso. apply Hn. left. symmetry. exact E.
    + rewrite IH; [reflexivity|]. intros Hin. apply Hn. right. exact Hin.
Qed.

Lemma tset_mid : forall {V} (T1 T2 : list (N * V)) i e e',
  ~ In i (map fst T1) -> tset i e' (T1 ++ (i, e) :: T2) = T1 ++ (i, e') :: T2.
Proof.
  intros V T1 T2 i e e'. induction T1 as [|[j v] T1 IH]; intros Hn; cbn [app tset].
  - rewrite N.eqb_refl. reflexivity.
  - cbn [map fst In] in Hn. destruct (N.eqb i j) eqn:E.
    + apply N.eqb_eq in E. exfalso. apply Hn. left. symmetry. exact E.
    + rewrite IH; [reflexivity|]. intros Hin. apply Hn. right. exact Hin.
Qed.

Lemma tlookup_mid : forall {V} (T1 T2 : list (N * V)) i e,
  ~ In i (map fst T1) -> tlookup i (T1 ++ (i, e) :: T2) = Some e.
Proof.
  intros V T1 T2 i e. induction T1 as [|[j v] T1 IH]; intros Hn; cbn [app tlookup].
  - rewrite N.eqb_refl. reflexivity.
  - cbn [map fst In] in Hn. destruct (N.eqb i j) eqn:E.
    + apply N.eqb_eq in E. exfalso. apply Hn. left. symmetry. exact E.
    + apply IH. intros Hin. apply Hn. right. exact Hin.
Qed.

(* ================================================================================================ *)
(* string search: small facts                                                                       *)
(* ================================================================================================ *)
Lemma starts_with_refl : forall p : str, starts_with p p = true.
Proof.
  induction p as [|c p IH]; cbn [starts_with]; [reflexivity|].
  rewrite N.eqb_refl, IH. reflexivity.
Qed.

Lemma contains_refl : forall ph : str, contains ph ph = true.
Proof.
  intros [|c p]; cbn [contains]; [reflexivity|].
  rewrite starts_with_refl. reflexivity.
Qed.

Lemma starts_with_short : forall p s : str, (length s < length p)%nat -> starts_with p s = false.
Proof.
  induction p as [|c p IH]; intros [|d s] Hl; cbn [length] in Hl; cbn [starts_with].
  - lia.
  - lia.
  - reflexivity.
  - rewrite IH by lia. apply andb_false_r.
Qed.

Lemma contains_short : forall p s : str, (length s < length p)%nat -> contains p s = false.
Proof.
  intros p s. induction s as [|d s IH]; intros Hl; cbn [contains].
  - destruct p as [|c p]; [cbn [length] in Hl; lia | reflexivity].
  - rewrite (starts_with_short p (d :: s) Hl). cbn [length] in Hl. rewrite IH by lia. reflexivity.
Qed.

Lemma starts_with_eqlen : forall p s : str, length p = length s -> starts_with p s = str_eqb p s.
Proof.
  induction p as [|c p IH]; intros [|d s] Hl; cbn [length] in Hl; cbn [starts_with str_eqb].
  - reflexivity.
  - discriminate.
  - discriminate.
  - rewrite IH by lia. reflexivity.
Qed.

Lemma contains_eqlen : forall p s : str, length p = length s -> contains p s = str_eqb p s.
Proof.
  intros p [|d s] Hl.
  - destruct p as [|c p]; [reflexivity | discriminate].
  - cbn [contains]. rewrite (contains_short p s) by (cbn [length] in Hl; lia).
    rewrite orb_false_r. apply starts_with_eqlen. exact Hl.
Qed.

Lemma has_char_forall : forall c (s : str), Forall (fun x => x <> c) s -> has_char c s = false.
Proof.
  intros c s H. unfold has_char. induction H as [|x s Hx Hs IH]; cbn [existsb]; [reflexivity|].
  rewrite IH, orb_false_r. apply N.eqb_neq. intros E. apply Hx. symmetry. exact E.
Qed.

Lemma has_char_app : forall c (a b : str), has_char c (a ++ b) = has_char c a || has_char c b.
Proof. intros c a b. unfold has_char. apply existsb_app. Qed.

(* a pattern whose first character does not occur is not contained *)
Lemma contains_no_head : forall c (p s : str), has_char c s = false -> contains (c :: p) s = false.
Proof.
  intros c p s. unfold has_char. induction s as [|d s IH]; cbn [existsb contains starts_with]; intros H; [reflexivity|].
  apply orb_false_iff in H. destruct H as [H1 H2]. rewrite H1, (IH H2). reflexivity.
Qed.

(* ================================================================================================ *)
(* D1 : back-insertion into flat data                                                               *)
(* ================================================================================================ *)
Definition flat_leaf_free (ph : str) (kv : key * tree) : Prop :=
  exists s, snd kv = Leaf s /\ contains ph (py_str s) = false.

Lemma find_key_free : forall ph kv, flat_leaf_free ph kv -> find_key ph (snd kv) = None.
Proof.
  intros ph kv [s [Hs Hc]]. rewrite Hs. cbn [find_key]. rewrite Hc. reflexivity.
Qed.

Lemma first_some_unique : forall {A} (l : list (key * option (list A))) k p,
  In (k, Some p) l ->
  (forall k' p', In (k', Some p') l -> k' = k /\ p' = p) ->
  first_some l = Some (k, p).
Proof.
  intros A l k p Hin Hu. destruct (first_some l) as [[k' p']|] eqn:E.
  - apply first_some_in in E. destruct (Hu k' p' E) as [E1 E2]. subst. reflexivity.
  - pose proof (first_some_none l k (Some p) E Hin) as H. discriminate.
Qed.

Lemma in_sorted_find : forall ph (kvs : list (key * tree)) k o,
  In (k, o) (sort_kvs (OrderProofs.map_snd (find_key ph) kvs)) <->
  exists c, In (k, c) kvs /\ o = find_key ph c.
Proof.
  intros ph kvs k o. split.
  - intros Hin. apply (Permutation_in _ (OrderProofs.sort_kvs_perm _)) in Hin.
    unfold OrderProofs.map_snd in Hin. apply in_map_iff in Hin. destruct Hin as [[k1 c] [Heq Hin]].
    cbn [fst snd] in Heq. inversion Heq; subst. exists c. split; [exact Hin | reflexivity].
  - intros [c [Hin Ho]]. apply (Permutation_in _ (Permutation_sym (OrderProofs.sort_kvs_perm _))).
    unfold OrderProofs.map_snd. apply in_map_iff. exists (k, c). split; [|exact Hin].
    cbn [fst snd]. rewrite Ho. reflexivity.
Qed.

Lemma find_key_dict_absent : forall ph (l : list (key * tree)),
  Forall (flat_leaf_free ph) l -> find_key ph (Dict l) = None.
Proof.
  intros ph l Hf. rewrite find_key_dict.
  destruct (first_some (sort_kvs (OrderProofs.map_snd (find_key ph) l))) as [[k p]|] eqn:E; [|reflexivity].
  exfalso. apply first_some_in in E. apply in_sorted_find in E. destruct E as [c [Hin Ho]].
  rewrite Forall_forall in Hf. pose proof (find_key_free ph (k, c) (Hf _ Hin)) as Hn.
  cbn [snd] in Hn. rewrite Hn in Ho. discriminate.
Qed.

Lemma find_global_absent : forall ph (l : list (key * tree)),
  Forall (flat_leaf_free ph) l -> find_global_key ph (Dict l) = None.
Proof.
  intros ph l Hf. unfold find_global_key. rewrite (find_key_dict_absent ph l Hf). reflexivity.
Qed.

Lemma insert_literal_S : forall f ph v d,
  insert_literal (S f) ph v d =
  match find_global_key ph d with
  | Some p => bind (set_global_key d p v) (fun d' => insert_literal f ph v d')
  | None => Ok d
  end.
Proof. reflexivity. Qed.

Lemma insert_literal_absent : forall (l : list (key * tree)) ph v fuel,
  Forall (flat_leaf_free ph) l -> insert_literal (S fuel) ph v (Dict l) = Ok (Dict l).
Proof.
  intros l ph v fuel Hf. rewrite insert_literal_S, (find_global_absent ph l Hf). reflexivity.
Qed.

Lemma find_key_dict_one : forall ph (l1 l2 : list (key * tree)) k,
  Forall (flat_leaf_free ph) (l1 ++ l2) ->
  find_key ph (Dict (l1 ++ (k, Leaf (SStr ph)) :: l2)) = Some [k].
Proof.
  intros ph l1 l2 k Hf. rewrite find_key_dict.
  assert (Hself : find_key ph (Leaf (SStr ph)) = Some []).
  { cbn [find_key py_str]. rewrite contains_refl. reflexivity. }
  rewrite (first_some_unique _ k []); [reflexivity | |].
  - apply in_sorted_find. exists (Leaf (SStr ph)). split; [|symmetry; exact Hself].
    apply in_or_app. right. left. reflexivity.
  - intros k' p' Hin. apply in_sorted_find in Hin. destruct Hin as [c [Hin Ho]].
    rewrite Forall_forall in Hf.
    assert (Hfree : In (k', c) (l1 ++ l2) -> False).
    { intros Hin'. pose proof (find_key_free ph (k', c) (Hf _ Hin')) as Hn.
      cbn [snd] in Hn. rewrite Hn in Ho. discriminate. }
    apply in_app_or in Hin. destruct Hin as [Hin|[Heq|Hin]].
    + exfalso. apply Hfree. apply in_or_app. left. exact Hin.
    + inversion Heq; subst. rewrite Hself in Ho. inversion Ho. split; reflexivity.
    + exfalso. apply Hfree. apply in_or_app. right. exact Hin.
Qed.

Lemma aset_mid : forall {V} (l1 l2 : list (key * V)) k v0 v,
  ~ In k (map fst l1) -> aset k v (l1 ++ (k, v0) :: l2) = l1 ++ (k, v) :: l2.
Proof.
  intros V l1 l2 k v0 v. induction l1 as [|[k1 c1] l1 IH]; intros Hn; cbn [app aset].
  - rewrite key_eqb_refl. reflexivity.
  - cbn [map fst In] in Hn. destruct (key_eqb k k1) eqn:E.
    + apply key_eqb_eq in E. exfalso. apply Hn. left. symmetry. exact E.
    + rewrite IH; [reflexivity|]. intros Hin. apply Hn. right. exact Hin.
Qed.

Lemma count_leaves_mid : forall (l1 l2 : list (key * tree)) k s,
  (1 <= count_leaves (Dict (l1 ++ (k, Leaf s) :: l2)))%nat.
Proof.
  intros l1 l2 k s. cbn [count_leaves].
  induction l1 as [|kv l1 IH]; cbn [app fold_right snd count_leaves]; lia.
Qed.

Lemma insert_literal_flat : forall (l1 l2 : list (key * tree)) (k : key) (ph : str) (sv : scalar),
  NoDup (map fst (l1 ++ (k, Leaf (SStr ph)) :: l2)) ->
  Forall (flat_leaf_free ph) (l1 ++ l2) ->
  contains ph (py_str sv) = false ->
  insert_literal (S (count_leaves (Dict (l1 ++ (k, Leaf (SStr ph)) :: l2)))) ph (Leaf sv)
                 (Dict (l1 ++ (k, Leaf (SStr ph)) :: l2))
  = Ok (Dict (l1 ++ (k, Leaf sv) :: l2)).
Proof.
  intros l1 l2 k ph sv Hnd Hf Hsv.
  rewrite insert_literal_S.
  assert (Hfind : find_global_key ph (Dict (l1 ++ (k, Leaf (SStr ph)) :: l2)) = Some [k]).
  { unfold find_global_key. rewrite (find_key_dict_one ph l1 l2 k Hf). reflexivity. }
  rewrite Hfind.
  assert (Hset : set_global_key (Dict (l1 ++ (k, Leaf (SStr ph)) :: l2)) [k] (Leaf sv)
                 = Ok (Dict (l1 ++ (k, Leaf sv) :: l2))).
  { unfold set_global_key. cbn [set_at set_child]. rewrite aset_mid; [reflexivity|].
    rewrite map_app in Hnd. cbn [map fst] in Hnd.
    pose proof (NoDup_remove_2 _ _ _ Hnd) as Hnotin.
    intros Hin. apply Hnotin. apply in_or_app. left. exact Hin. }
  rewrite Hset. cbn [bind].
  pose proof (count_leaves_mid l1 l2 k (SStr ph)) as Hc.
  destruct (count_leaves (Dict (l1 ++ (k, Leaf (SStr ph)) :: l2))) as [|n]; [lia|].
  apply insert_literal_absent.
  apply Forall_app in Hf. destruct Hf as [Hf1 Hf2].
  apply Forall_app. split; [exact Hf1|]. constructor; [|exact Hf2].
  exists sv. split; [reflexivity | exact Hsv].
Qed.

(* ================================================================================================ *)
(* D2 : placeholder arithmetic                                                                      *)
(* ================================================================================================ *)
Local Open Scope N_scope.

Lemma dec_to_N_zeros : forall n (d : str), dec_to_N (repeat 48 n ++ d) = dec_to_N d.
Proof.
  intros n d. unfold dec_to_N. induction n as [|n IH]; cbn [repeat app fold_left]; [reflexivity|].
  change (10 * 0 + digit_val 48) with 0. exact IH.
Qed.

Lemma dec_to_N_pad6 : forall i, dec_to_N (pad6 i) = i.
Proof.
  intros i. unfold pad6. rewrite dec_to_N_zeros. apply (proj2 (N_to_dec_spec i)).
Qed.

Lemma pad6_inj : forall i j, pad6 i = pad6 j -> i = j.
Proof.
  intros i j H. rewrite <- (dec_to_N_pad6 i), <- (dec_to_N_pad6 j), H. reflexivity.
Qed.

Lemma w_EXPRESSION_length : length w_EXPRESSION = 10%nat.
Proof. reflexivity. Qed.

Lemma w_EXPRESSION_head : w_EXPRESSION = c_E :: tl w_EXPRESSION.
Proof. reflexivity. Qed.

Lemma ph_of_head : forall i, ph_of i = c_E :: (tl w_EXPRESSION ++ pad6 i).
Proof. reflexivity. Qed.

Lemma ph_of_length : forall i, i < 1000000 -> length (ph_of i) = 16%nat.
Proof.
  intros i Hi. unfold ph_of, placeholder. rewrite app_length, w_EXPRESSION_length.
  rewrite (proj2 (pad6_props i Hi)). reflexivity.
Qed.

Lemma ph_of_inj : forall i j, ph_of i = ph_of j -> i = j.
Proof.
  intros i j H. unfold ph_of, placeholder in H. apply app_inv_head in H. apply pad6_inj. exact H.
Qed.

Lemma ph_contains_ph : forall i j, i < 1000000 -> j < 1000000 ->
  contains (ph_of i) (ph_of j) = (i =? j).
Proof.
  intros i j Hi Hj.
  rewrite contains_eqlen by (rewrite (ph_of_length i Hi), (ph_of_length j Hj); reflexivity).
  destruct (N.eqb_spec i j) as [E|E].
  - subst j. apply str_eqb_refl.
  - apply ScalarProofs.str_eqb_neq. intros H. apply E. apply ph_of_inj. exact H.
Qed.

(* the characters of a rendered integer *)
Lemma N_to_dec_digits : forall n, Forall (fun c => is_digit c = true) (N_to_dec n).
Proof.
  intros n. destruct (N_to_dec_spec n) as [[Hd _] _]. exact Hd.
Qed.

Lemma Z_to_dec_chars : forall z, Forall (fun c => is_digit c = true \/ c = c_minus) (Z_to_dec z).
Proof.
  intros [|p|p]; cbn [Z_to_dec].
  - constructor; [left; reflexivity | constructor].
  - eapply Forall_impl; [|apply N_to_dec_digits]. intros c Hc. left. exact Hc.
  - constructor; [right; reflexivity|].
    eapply Forall_impl; [|apply N_to_dec_digits]. intros c Hc. left. exact Hc.
Qed.

Lemma Z_to_dec_no_char : forall c z, is_digit c = false -> c <> c_minus -> has_char c (Z_to_dec z) = false.
Proof.
  intros c z Hd Hm. apply has_char_forall.
  eapply Forall_impl; [|apply Z_to_dec_chars].
  intros x [Hx|Hx] E.
  - rewrite E, Hd in Hx. discriminate.
  - apply Hm. rewrite <- E. exact Hx.
Qed.

Lemma ph_not_in_int : forall i z, contains (ph_of i) (Z_to_dec z) = false.
Proof.
  intros i z. rewrite ph_of_head. apply contains_no_head.
  apply Z_to_dec_no_char; [reflexivity | discriminate].
Qed.

Lemma expression_not_in_int : forall z, contains w_EXPRESSION (Z_to_dec z) = false.
Proof.
  intros z. rewrite w_EXPRESSION_head. apply contains_no_head.
  apply Z_to_dec_no_char; [reflexivity | discriminate].
Qed.

Lemma int_no_dollar : forall z, has_char c_dollar (Z_to_dec z) = false.
Proof.
  intros z. apply Z_to_dec_no_char; [reflexivity | discriminate].
Qed.

Lemma all_digits_n_all : forall n (s : str),
  Forall (fun c => is_digit c = true) s -> length s = n -> all_digits_n n s = true.
Proof.
  induction n as [|n IH]; intros s Hd Hl; cbn [all_digits_n]; [reflexivity|].
  destruct s as [|c s]; [discriminate|].
  inversion Hd as [|? ? Hc Hs]; subst. rewrite Hc, (IH s Hs); [reflexivity|].
  cbn [length] in Hl. lia.
Qed.

Lemma take_n_all : forall {A} (l : list A), take_n (length l) l = l.
Proof.
  intros A l. induction l as [|x l IH]; cbn [length take_n]; [reflexivity|].
  rewrite IH. reflexivity.
Qed.

Lemma has_placeholder_unfold : forall w s,
  has_placeholder w s =
  (starts_with w s && all_digits_n 6 (drop_n (length w) s)) ||
  match s with [] => false | _ :: s' => has_placeholder w s' end.
Proof. intros w [|c s]; reflexivity. Qed.

Lemma first_6digits_unfold : forall s,
  first_6digits s =
  if all_digits_n 6 s then Some (dec_to_N (take_n 6 s))
  else match s with [] => None | _ :: s' => first_6digits s' end.
Proof. intros [|c s]; reflexivity. Qed.

Lemma pad6_all_digits : forall i, i < 1000000 -> all_digits_n 6 (pad6 i) = true.
Proof.
  intros i Hi. destruct (pad6_props i Hi) as [Hd Hl]. apply all_digits_n_all; assumption.
Qed.

Lemma ph_has_placeholder : forall i, i < 1000000 -> has_placeholder w_EXPRESSION (ph_of i) = true.
Proof.
  intros i Hi. rewrite has_placeholder_unfold. unfold ph_of, placeholder.
  rewrite starts_with_app, drop_n_app, (pad6_all_digits i Hi). reflexivity.
Qed.

(* leading characters that are no digits are skipped *)
Lemma first_6digits_skip : forall (a s : str),
  Forall (fun c => is_digit c = false) a -> first_6digits (a ++ s) = first_6digits s.
Proof.
  intros a s H. induction H as [|c a Hc Ha IH]; [reflexivity|].
  rewrite first_6digits_unfold. cbn [app all_digits_n]. rewrite Hc. cbn [andb]. exact IH.
Qed.

Lemma w_EXPRESSION_no_digit : Forall (fun c => is_digit c = false) w_EXPRESSION.
Proof. repeat (constructor; [reflexivity|]). constructor. Qed.

Lemma ph_first_6digits : forall i, i < 1000000 -> first_6digits (ph_of i) = Some i.
Proof.
  intros i Hi. unfold ph_of, placeholder.
  rewrite (first_6digits_skip _ _ w_EXPRESSION_no_digit).
  rewrite first_6digits_unfold, (pad6_all_digits i Hi).
  destruct (pad6_props i Hi) as [_ Hl].
  rewrite <- Hl, take_n_all, dec_to_N_pad6. reflexivity.
Qed.

Lemma insert_expression_ph : forall i tab, i < 1000000 ->
  insert_expression (Leaf (SStr (ph_of i))) tab =
  match tlookup i tab with Some (e, _) => Leaf (SStr e) | None => Leaf (SStr (ph_of i)) end.
Proof.
  intros i tab Hi. unfold insert_expression.
  rewrite (ph_has_placeholder i Hi), (ph_first_6digits i Hi). reflexivity.
Qed.

Lemma insert_expression_int : forall z tab, insert_expression (Leaf (SInt z)) tab = Leaf (SInt z).
Proof. reflexivity. Qed.

Lemma ph_no_dollar : forall i, i < 1000000 -> has_char c_dollar (ph_of i) = false.
Proof.
  intros i Hi. unfold ph_of, placeholder. rewrite has_char_app.
  assert (Hw : has_char c_dollar w_EXPRESSION = false) by reflexivity.
  rewrite Hw. cbn [orb]. apply has_char_forall.
  eapply Forall_impl; [|apply (proj1 (pad6_props i Hi))].
  intros c Hc E. subst c. discriminate.
Qed.

Local Close Scope N_scope.

(* ================================================================================================ *)
(* D3 : variables of flat data                                                                      *)
(* ================================================================================================ *)
Definition flat_kvs (kvs : list (key * tree)) : Prop :=
  Forall (fun kv => (exists x, fst kv = KS x) /\ (exists s, snd kv = Leaf s)) kvs.

Lemma vars_tree_flat_cons : forall exprs x s (l : list (key * tree)) acc,
  vars_tree exprs false (Dict ((KS x, Leaf s) :: l)) acc =
  vars_tree exprs false (Dict l)
    (if circular (KS x) (insert_expression (Leaf s) exprs) then acc
     else aset (KS x) (insert_expression (Leaf s) exprs) acc).
Proof. reflexivity. Qed.

Lemma vars_tree_nil : forall exprs acc, vars_tree exprs false (Dict []) acc = acc.
Proof. reflexivity. Qed.

Lemma alookup_notin : forall {V} k (l : list (key * V)), ~ In k (map fst l) -> alookup k l = None.
Proof.
  intros V k l. induction l as [|[k1 c1] l IH]; intros Hn; cbn [alookup]; [reflexivity|].
  cbn [map fst In] in Hn. destruct (key_eqb k k1) eqn:E.
  - apply key_eqb_eq in E. exfalso. apply Hn. left. symmetry. exact E.
  - apply IH. intros Hin. apply Hn. right. exact Hin.
Qed.

Lemma alookup_aset : forall {V} q k (v : V) l,
  alookup q (aset k v l) = if key_eqb q k then Some v else alookup q l.
Proof.
  intros V q k v l. destruct (key_eqb q k) eqn:E.
  - apply key_eqb_eq in E. subst q. apply alookup_aset_same.
  - apply alookup_aset_other. intros H. subst k. rewrite key_eqb_refl in E. discriminate.
Qed.

Lemma variables_flat_gen : forall exprs q kvs acc, flat_kvs kvs -> NoDup (map fst kvs) ->
  alookup q (vars_tree exprs false (Dict kvs) acc) =
  match alookup q kvs with
  | Some v => let v' := insert_expression v exprs in if circular q v' then alookup q acc else Some v'
  | None => alookup q acc
  end.
Proof.
  intros exprs q kvs. induction kvs as [|[k v] l IH]; intros acc Hf Hnd.
  - rewrite vars_tree_nil. reflexivity.
  - inversion Hf as [|? ? [[x Hx] [s Hs]] Hf']; subst. cbn [fst snd] in Hx, Hs. subst k v.
    cbn [map fst] in Hnd. inversion Hnd as [|? ? Hnotin Hnd']; subst.
    rewrite vars_tree_flat_cons, (IH _ Hf' Hnd'). cbn [alookup]. cbv zeta.
    destruct (circular (KS x) (insert_expression (Leaf s) exprs)) eqn:Ec;
      destruct (key_eqb q (KS x)) eqn:E.
    + apply key_eqb_eq in E. subst q. rewrite (alookup_notin _ _ Hnotin). cbv iota.
      rewrite Ec. reflexivity.
    + reflexivity.
    + apply key_eqb_eq in E. subst q. rewrite (alookup_notin _ _ Hnotin). cbv iota.
      rewrite Ec. apply alookup_aset_same.
    + rewrite alookup_aset, E. reflexivity.
Qed.

Lemma variables_flat : forall exprs kvs q, flat_kvs kvs -> NoDup (map fst kvs) ->
  alookup q (vars_tree exprs false (Dict kvs) []) =
  match alookup q kvs with
  | Some v => let v' := insert_expression v exprs in if circular q v' then None else Some v'
  | None => None
  end.
Proof.
  intros exprs kvs q Hf Hnd. rewrite (variables_flat_gen exprs q kvs [] Hf Hnd). reflexivity.
Qed.

Print Assumptions insert_literal_flat.
Print Assumptions ph_contains_ph.
Print Assumptions insert_expression_ph.
Print Assumptions variables_flat.
