(* C09, part 3: reads over include graphs in any mix of JSON and native files, where a native file may carry comments
   (the header block comment the writer puts in front, line comments, block comments at any dict level).
   A native unit is ANY text whose parse gives, once the comment placeholder entries are dropped at every dict level and
   the include placeholder entries at top level, the ordinary data of the document, and whose include table names the
   files of the document (native_equiv).  The proof follows the DROPPED data through the include recursion: dropping
   commutes with the specification merge (pdrop_merge), the merge of the library is the specification merge on the dropped
   data (merge_fold_drop), and the clean-up only ever deletes placeholder keys (clean_tree_ldrop).  No structural
   condition on the comment entries is needed.
   Everything is generic in the class P of comment placeholder keys that are dropped: P = is_ckey gives the theorem for
   commented files, P = nothing gives back JsonNativeRead.read_mixed_formats. *)
From Coq Require Import String.
From Coq Require Import NArith ZArith List Bool Lia ZifyBool ZifyN ZifyNat.
From DictIO Require Import Chars Str Value Scalar KeyPath SDict Layout Lexer TokParser Reader TreeSpec NativeSpec LayoutSpec E2ESpec.
From DictIO Require RereadTree RereadWrite RereadNum RereadProofs RereadOff RereadIncRead RereadIncWrite RereadIncProofs RereadIncFix.
From DictIO Require CounterRead CounterParse ScalarProofs SDictProofs TokProofs LayoutProofs SemProofs KeyPathProofs ParserFuelProofs RereadStr RereadNum FlatDataProofs.
From DictIO Require Import IncludeProofs E2EProofs E2EHoles E2EKeyTok E2EFullProofs FoamProofs JsonNativeProofs JsonNativeRead.
Import ListNotations.
Open Scope N_scope.

(* a comment placeholder key: what SDict._clean_data takes for the key of a block or line comment *)
Definition is_ckey (k : key) : bool :=
  match ph_kind_of k with Some PhBlock | Some PhLine => true | _ => false end.

Lemma ckey_not_ordinary k : is_ckey k = true -> ordinary_key k = false.
Proof. unfold is_ckey, ordinary_key. destruct (ph_kind_of k) as [[| |]|]; try discriminate; reflexivity. Qed.

Lemma kind_some_cases k kd : ph_kind_of k = Some kd -> is_ckey k = true \/ is_include_key k = true.
Proof.
  intros H. destruct kd; unfold is_ckey; rewrite H; [left; reflexivity| |left; reflexivity].
  right. apply kind_inc_key. exact H.
Qed.

(* ================================================================================================ *)
(* 1. dropping the entries with a key of class P at every dict level                                *)
(* ================================================================================================ *)
Section Drop.
  Variable P : key -> bool.

  Fixpoint pdrop (t : tree) {struct t} : tree :=
    match t with
    | Dict kvs =>
        Dict ((fix go (l : list (key * tree)) : list (key * tree) :=
                 match l with
                 | [] => []
                 | (k, c) :: l' => if P k then go l' else (k, pdrop c) :: go l'
                 end) kvs)
    | _ => t
    end.
  (* one level with its own class D (top level: P and the include placeholders), class P below *)
  Definition ldrop (D : key -> bool) (l : list (key * tree)) : list (key * tree) :=
    flat_map (fun kc => if D (fst kc) then [] else [(fst kc, pdrop (snd kc))]) l.

  Lemma pdrop_dict kvs : pdrop (Dict kvs) = Dict (ldrop P kvs).
  Proof.
    cbn [pdrop]. f_equal. induction kvs as [|[k c] kvs IH]; [reflexivity|]. cbn [ldrop flat_map fst snd]. fold (ldrop P kvs).
    rewrite IH. destruct (P k); reflexivity.
  Qed.

  Lemma ldrop_cons D k c l : ldrop D ((k, c) :: l) = if D k then ldrop D l else (k, pdrop c) :: ldrop D l.
  Proof. cbn [ldrop flat_map fst snd]. destruct (D k); reflexivity. Qed.

  Lemma ldrop_app D a b : ldrop D (a ++ b) = ldrop D a ++ ldrop D b.
  Proof. unfold ldrop. apply flat_map_app. Qed.

  Lemma alookup_ldrop D k l : D k = false -> alookup k (ldrop D l) = option_map pdrop (alookup k l).
  Proof.
    intros Hk. induction l as [|[k0 c0] l IH]; [reflexivity|]. rewrite ldrop_cons. cbn [alookup].
    destruct (key_eqb k k0) eqn:E.
    - apply SDictProofs.key_eqb_eq in E. subst k0. rewrite Hk. cbn [alookup]. rewrite SDictProofs.key_eqb_refl. reflexivity.
    - destruct (D k0); [exact IH|]. cbn [alookup]. rewrite E. exact IH.
  Qed.

  Lemma ldrop_aset_drop D k v l : D k = true -> ldrop D (aset k v l) = ldrop D l.
  Proof.
    intros Hk. induction l as [|[k0 c0] l IH]; cbn [aset]; [rewrite ldrop_cons, Hk; reflexivity|].
    destruct (key_eqb k k0) eqn:E.
    - apply SDictProofs.key_eqb_eq in E. subst k0. rewrite !ldrop_cons, Hk. reflexivity.
    - rewrite !ldrop_cons, IH. reflexivity.
  Qed.

  Lemma ldrop_aset_keep D k v l : D k = false -> ldrop D (aset k v l) = aset k (pdrop v) (ldrop D l).
  Proof.
    intros Hk. induction l as [|[k0 c0] l IH]; cbn [aset]; [rewrite ldrop_cons, Hk; reflexivity|].
    destruct (key_eqb k k0) eqn:E.
    - apply SDictProofs.key_eqb_eq in E. subst k0. rewrite !ldrop_cons, Hk. cbn [aset]. rewrite SDictProofs.key_eqb_refl. reflexivity.
    - rewrite !ldrop_cons, IH. destruct (D k0); [reflexivity|]. cbn [aset]. rewrite E. reflexivity.
  Qed.

  Lemma ldrop_adel_drop D k l : D k = true -> ldrop D (adel k l) = ldrop D l.
  Proof.
    intros Hk. induction l as [|[k0 c0] l IH]; [reflexivity|]. cbn [adel].
    destruct (key_eqb k k0) eqn:E.
    - apply SDictProofs.key_eqb_eq in E. subst k0. rewrite ldrop_cons, Hk. reflexivity.
    - rewrite !ldrop_cons, IH. reflexivity.
  Qed.

  Lemma pdrop_nondict t : (forall a, t <> Dict a) -> pdrop t = t.
  Proof. destruct t as [v|d|ts]; intros H; [reflexivity|exfalso; exact (H d eq_refl)|reflexivity]. Qed.

  (* dropping commutes with the specification merge *)
  Lemma pdrop_merge : forall ov tv, pdrop (merge_spec_tree tv ov) = merge_spec_tree (pdrop tv) (pdrop ov).
  Proof.
    induction ov as [v0|osub IH|ts _] using tree_ind'; intros tv.
    - rewrite !SDictProofs.merge_spec_tree_nondict_r by (intros a; discriminate). reflexivity.
    - destruct tv as [v1|tsub|ts1].
      + rewrite !SDictProofs.merge_spec_tree_nondict_l by (intros a; discriminate). reflexivity.
      + rewrite SDictProofs.merge_spec_tree_dict, !pdrop_dict, SDictProofs.merge_spec_tree_dict. f_equal.
        revert tsub. induction IH as [|[k c] o Hc _ IHo]; intros tsub; [reflexivity|]. cbn [fold_left]. rewrite IHo, ldrop_cons.
        destruct (P k) eqn:Ek.
        * unfold SDictProofs.mstep at 2. cbn [fst snd]. rewrite (ldrop_aset_drop P _ _ _ Ek). reflexivity.
        * cbn [fold_left]. f_equal. unfold SDictProofs.mstep. cbn [fst snd]. rewrite (ldrop_aset_keep P _ _ _ Ek), (alookup_ldrop P _ _ Ek).
          f_equal. destruct (alookup k tsub) as [t0|]; cbn [option_map SDictProofs.mval]; [apply Hc|reflexivity].
      + rewrite !SDictProofs.merge_spec_tree_nondict_l by (intros a; discriminate). reflexivity.
    - rewrite !SDictProofs.merge_spec_tree_nondict_r by (intros a; discriminate). reflexivity.
  Qed.

  Lemma ldrop_mstep_drop D t k c : D k = true -> ldrop D (SDictProofs.mstep t (k, c)) = ldrop D t.
  Proof. intros Hk. unfold SDictProofs.mstep. cbn [fst snd]. apply ldrop_aset_drop. exact Hk. Qed.

  Lemma ldrop_mstep_keep D t k c : D k = false -> ldrop D (SDictProofs.mstep t (k, c)) = SDictProofs.mstep (ldrop D t) (k, pdrop c).
  Proof.
    intros Hk. unfold SDictProofs.mstep. cbn [fst snd]. rewrite (ldrop_aset_keep D _ _ _ Hk), (alookup_ldrop D _ _ Hk). f_equal.
    destruct (alookup k t) as [t0|]; cbn [option_map SDictProofs.mval]; [apply pdrop_merge|reflexivity].
  Qed.
End Drop.

(* ================================================================================================ *)
(* 2. the merge of the library is the specification merge on the dropped data                       *)
(* ================================================================================================ *)
Section Merge.
  Variable P : key -> bool.
  Variable D : key -> bool.

  Lemma ldrop_In k c l : In (k, c) l -> D k = false -> In (k, pdrop P c) (ldrop P D l).
  Proof.
    intros Hin Hk. unfold ldrop. apply in_flat_map. exists (k, c). split; [exact Hin|]. cbn [fst snd]. rewrite Hk. left. reflexivity.
  Qed.

  Lemma ldrop_ordkv l k c : ordinary (Dict (ldrop P D l)) = true -> In (k, c) l -> D k = false ->
    ordinary_key k = true /\ ordinary (pdrop P c) = true.
  Proof.
    intros Ho Hin Hk. apply SDictProofs.ordinary_Dict_iff in Ho. rewrite Forall_forall in Ho.
    exact (Ho _ (ldrop_In k c l Hin Hk)).
  Qed.

  Lemma mk_step_drop f exprs a k ov : ordinary (Dict (ldrop P D a)) = true -> (depth ov <= f)%nat ->
    ldrop P D (mk_step f (Some exprs) a (k, ov)) =
    if D k then ldrop P D a else SDictProofs.mstep (ldrop P D a) (k, pdrop P ov).
  Proof.
    intros Ho Hd. destruct (D k) eqn:Ek.
    - destruct (mk_step_shape f (Some exprs) a k ov) as [[E _]|[v' E]]; rewrite E; [reflexivity|]. apply ldrop_aset_drop. exact Ek.
    - unfold mk_step, SDictProofs.mstep. cbn [fst snd]. rewrite (alookup_ldrop P D _ _ Ek).
      destruct (alookup k a) as [tv|] eqn:El; cbn [option_map SDictProofs.mval].
      + destruct (ldrop_ordkv a k tv Ho (SDictProofs.alookup_Some_In _ _ _ El) Ek) as [Hk Htv].
        assert (Hsame : ldrop P D a = aset k (pdrop P tv) (ldrop P D a)).
        { symmetry. apply SDictProofs.aset_same. rewrite (alookup_ldrop P D _ _ Ek), El. reflexivity. }
        assert (Hc : circular k (insert_expression tv exprs) = false).
        { destruct tv as [x|tsub|ts]; [|destruct k; reflexivity|destruct k; reflexivity].
          apply SDictProofs.circular_ordinary; [exact Hk|exact Htv]. }
        destruct tv as [x|tsub|ts]; destruct ov as [y|osub|us]; try (rewrite Hc);
          try (rewrite SDictProofs.merge_spec_tree_nondict_l by (intros ? ?; discriminate); exact Hsame);
          try (rewrite SDictProofs.merge_spec_tree_nondict_r by (intros ? ?; discriminate); exact Hsame).
        rewrite (SDictProofs.merge_kvs_none f osub tsub Hd), <- SDictProofs.merge_spec_tree_dict.
        rewrite (ldrop_aset_keep P D _ _ _ Ek), pdrop_merge. reflexivity.
      + apply ldrop_aset_keep. exact Ek.
  Qed.

  Lemma mstep_single t kv : SDictProofs.mstep t kv = merge_spec t [kv].
  Proof. rewrite SDictProofs.merge_spec_fold. reflexivity. Qed.

  Lemma merge_fold_drop f exprs : forall m a, ordinary (Dict (ldrop P D a)) = true -> ordinary (Dict (ldrop P D m)) = true ->
    Forall (fun kv => (depth (snd kv) <= f)%nat) m ->
    ldrop P D (fold_left (mk_step f (Some exprs)) m a) = fold_left SDictProofs.mstep (ldrop P D m) (ldrop P D a).
  Proof.
    induction m as [|[k ov] m IH]; intros a Ha Hm Hd; [reflexivity|].
    inversion Hd as [|? ? Hd1 Hd']; subst. cbn [snd] in Hd1. cbn [fold_left].
    pose proof (mk_step_drop f exprs a k ov Ha Hd1) as Hs. rewrite ldrop_cons in Hm |- *.
    destruct (D k) eqn:Ek.
    - rewrite IH; [rewrite Hs; reflexivity|rewrite Hs; exact Ha|exact Hm|exact Hd'].
    - apply SDictProofs.ordinary_Dict_iff in Hm. inversion Hm as [|? ? Hkv Hm']; subst. apply SDictProofs.ordinary_Dict_iff in Hm'.
      cbn [fold_left]. rewrite IH; [rewrite Hs; reflexivity| |exact Hm'|exact Hd'].
      rewrite Hs, mstep_single. apply SDictProofs.merge_spec_ordinary; [exact Ha|].
      apply SDictProofs.ordinary_Dict_iff. constructor; [exact Hkv|constructor].
  Qed.

  (* ================================================================================================ *)
  (* 3. the clean-up deletes placeholder keys only: the dropped data do not move                      *)
  (* ================================================================================================ *)
  Lemma clean_kind_ldrop {V} (veqb : V -> V -> bool) : forall keys data tab seen,
    (forall k, In k keys -> D k = true) -> ldrop P D (fst (clean_kind veqb keys data tab seen)) = ldrop P D data.
  Proof.
    induction keys as [|k keys IH]; intros data tab seen Hk; [reflexivity|]. cbn [clean_kind].
    assert (Hk' : forall k0, In k0 keys -> D k0 = true) by (intros k0 H0; apply Hk; right; exact H0).
    destruct (key_id k) as [i|]; [|exact (IH _ _ _ Hk')]. destruct (tlookup i tab) as [v|]; [|exact (IH _ _ _ Hk')].
    destruct (existsb (veqb v) seen); [|exact (IH _ _ _ Hk')]. rewrite (IH _ _ _ Hk'). apply ldrop_adel_drop. apply Hk. left. reflexivity.
  Qed.

  Lemma kind_keys_dropped data kd : ordinary (Dict (ldrop P D data)) = true ->
    forall k, In k (keys_of_kind kd data) -> D k = true.
  Proof.
    intros Ho k Hin. destruct (CounterParse.keys_of_kind_kind _ _ _ Hin) as [Hkd Hk].
    destruct (D k) eqn:Ek; [reflexivity|exfalso]. apply in_map_iff in Hk. destruct Hk as ([k0 c] & E & Hin'). cbn [fst] in E. subst k0.
    destruct (ldrop_ordkv data k c Ho Hin' Ek) as [Hok _]. unfold ordinary_key in Hok. rewrite Hkd in Hok. discriminate Hok.
  Qed.

  Lemma clean_level_ldrop data s : ordinary (Dict (ldrop P D data)) = true ->
    ldrop P D (fst (clean_level data s)) = ldrop P D data.
  Proof.
    intros Ho. unfold clean_level.
    pose proof (clean_kind_ldrop str_eqb (keys_of_kind PhBlock data) data (sd_bc s) [] (kind_keys_dropped data PhBlock Ho)) as H1.
    destruct (clean_kind str_eqb (keys_of_kind PhBlock data) data (sd_bc s) []) as [d1 bc]. cbn [fst] in H1.
    pose proof (clean_kind_ldrop inc_eqb (keys_of_kind PhInclude data) d1 (sd_inc s) [] (kind_keys_dropped data PhInclude Ho)) as H2.
    destruct (clean_kind inc_eqb (keys_of_kind PhInclude data) d1 (sd_inc s) []) as [d2 inc]. cbn [fst] in H2.
    pose proof (clean_kind_ldrop str_eqb (keys_of_kind PhLine data) d2 (sd_lc s) [] (kind_keys_dropped data PhLine Ho)) as H3.
    destruct (clean_kind str_eqb (keys_of_kind PhLine data) d2 (sd_lc s) []) as [d3 lc]. cbn [fst] in H3 |- *.
    rewrite H3, H2, H1. reflexivity.
  Qed.
End Merge.

Lemma clean_tree_ldrop P : forall f D data s, ordinary (Dict (ldrop P D data)) = true -> wf (Dict (ldrop P D data)) = true ->
  ldrop P D (fst (clean_tree f data s)) = ldrop P D data.
Proof.
  induction f as [|f IH]; intros D data s Ho Hw; [reflexivity|].
  rewrite SDictProofs.clean_tree_S. pose proof (clean_level_ldrop P D data s Ho) as Hl.
  destruct (clean_level data s) as [d s1]. cbn [fst] in Hl |- *.
  set (L := ldrop P D data) in *.
  assert (Hgen : forall l, (forall kv, In kv l -> In kv d) -> forall dacc sacc, ldrop P D dacc = L ->
            ldrop P D (fst (fold_left (SDictProofs.cstep f) l (dacc, sacc))) = L).
  { induction l as [|[k v] l IHl]; intros Hsub dacc sacc Hacc; [exact Hacc|]. cbn [fold_left].
    assert (Hin : In (k, v) d) by (apply Hsub; left; reflexivity).
    assert (Hsub' : forall kv, In kv l -> In kv d) by (intros kv H'; apply Hsub; right; exact H').
    unfold SDictProofs.cstep at 2. cbn [fst snd]. destruct v as [x|sub|ts]; try (apply IHl; assumption).
    destruct (clean_tree f sub sacc) as [sub' s'] eqn:Ec. apply IHl; [exact Hsub'|].
    destruct (D k) eqn:Ek; [rewrite (ldrop_aset_drop P D _ _ _ Ek); exact Hacc|].
    rewrite (ldrop_aset_keep P D _ _ _ Ek), Hacc.
    assert (HinL : In (k, pdrop P (Dict sub)) L) by (rewrite <- Hl; apply ldrop_In; assumption).
    apply SDictProofs.ordinary_Dict_iff in Ho. apply SDictProofs.wf_Dict_iff in Hw. destruct Hw as [Hnd Hw].
    rewrite Forall_forall in Ho, Hw. destruct (Ho _ HinL) as [_ Hos]. pose proof (Hw _ HinL) as Hws. unfold SDictProofs.wfkv in Hws.
    cbn [snd] in Hos, Hws. rewrite pdrop_dict in Hos, Hws.
    pose proof (IH P sub sacc Hos Hws) as Hsub2. rewrite Ec in Hsub2. cbn [fst] in Hsub2.
    rewrite pdrop_dict, Hsub2, <- pdrop_dict. apply SDictProofs.aset_same. apply SDictProofs.alookup_In_nodup; assumption. }
  apply Hgen; [intros kv H; exact H|exact Hl].
Qed.

(* ================================================================================================ *)
(* 4. states: the dropped data are ordinary and well formed, no expressions                         *)
(* ================================================================================================ *)
(* top level: the keys of class P and the include placeholder keys are dropped *)
Definition qkey (P : key -> bool) (k : key) : bool := P k || is_include_key k.
Definition odata (P : key -> bool) (d : list (key * tree)) : list (key * tree) := ldrop P (qkey P) d.
Definition cgood (P : key -> bool) (s : sdict) : Prop :=
  ordinary (Dict (odata P (sd_data s))) = true /\ wf (Dict (odata P (sd_data s))) = true /\ sd_expr s = [].

Lemma cgood_empty P : cgood P sd_empty.
Proof. repeat split. Qed.

Lemma sd_clean_odata P s : ordinary (Dict (odata P (sd_data s))) = true -> wf (Dict (odata P (sd_data s))) = true ->
  odata P (sd_data (sd_clean s)) = odata P (sd_data s).
Proof.
  intros Ho Hw. unfold sd_clean. pose proof (clean_tree_ldrop P (S (depth (Dict (sd_data s)))) (qkey P) (sd_data s) s Ho Hw) as H.
  destruct (clean_tree (S (depth (Dict (sd_data s)))) (sd_data s) s) as [d s']. exact H.
Qed.

Lemma sd_merge_cgood P a o : cgood P a -> cgood P o ->
  cgood P (sd_merge a (sd_data o) (Some o)) /\
  odata P (sd_data (sd_merge a (sd_data o) (Some o))) = merge_spec (odata P (sd_data a)) (odata P (sd_data o)).
Proof.
  intros (Oa & Wa & Ea) (Oo & Wo & Eo). unfold sd_merge. rewrite merge_kvs_S.
  set (m := sd_data o) in *. set (f := depth (Dict m)).
  assert (Hd : Forall (fun kv => (depth (snd kv) <= f)%nat) m).
  { apply Forall_forall. intros kv Hin. pose proof (SDictProofs.depth_child _ _ Hin) as H. unfold f. cbn [depth]. lia. }
  pose proof (merge_fold_drop P (qkey P) f (sd_expr a) m (sd_data a) Oa Oo Hd) as M1.
  set (d := fold_left (mk_step f (Some (sd_expr a))) m (sd_data a)) in *.
  set (s1 := mkSD d (tmerge (sd_lc a) (sd_lc o)) (tmerge (sd_bc a) (sd_bc o)) (tmerge (sd_inc a) (sd_inc o)) (tmerge (sd_expr a) (sd_expr o))).
  assert (E1 : odata P (sd_data s1) = merge_spec (odata P (sd_data a)) (odata P m)).
  { cbn [s1 sd_data]. unfold odata. rewrite M1, SDictProofs.merge_spec_fold. reflexivity. }
  assert (O1 : ordinary (Dict (odata P (sd_data s1))) = true) by (rewrite E1; apply SDictProofs.merge_spec_ordinary; assumption).
  assert (W1 : wf (Dict (odata P (sd_data s1))) = true) by (rewrite E1; apply SDictProofs.merge_spec_wf; assumption).
  pose proof (sd_clean_odata P s1 O1 W1) as C1. split.
  - split; [rewrite C1; exact O1|]. split; [rewrite C1; exact W1|]. rewrite CounterRead.sd_clean_expr. cbn [s1 sd_expr]. rewrite Ea, Eo. reflexivity.
  - rewrite C1. exact E1.
Qed.

(* ================================================================================================ *)
(* 5. units                                                                                         *)
(* ================================================================================================ *)
Lemma pdrop_ordinary P : (forall k, P k = true -> is_ckey k = true) -> forall t, ordinary t = true -> pdrop P t = t.
Proof.
  intros HP. induction t as [v|kvs IH|ts _] using tree_ind'; intros Ho; [reflexivity| |reflexivity].
  rewrite pdrop_dict. f_equal. apply SDictProofs.ordinary_Dict_iff in Ho.
  induction IH as [|[k c] l Hc _ IHl]; [reflexivity|]. inversion Ho as [|? ? [Hk Hoc] Ho']; subst. cbn [fst snd] in Hk, Hoc, Hc.
  rewrite ldrop_cons. destruct (P k) eqn:Ek; [rewrite (ckey_not_ordinary k (HP k Ek)) in Hk; discriminate Hk|].
  rewrite (Hc Hoc), (IHl Ho'). reflexivity.
Qed.

Lemma odata_ordinary P : (forall k, P k = true -> is_ckey k = true) -> forall kvs, ordinary (Dict kvs) = true -> odata P kvs = kvs.
Proof.
  intros HP kvs Ho. apply SDictProofs.ordinary_Dict_iff in Ho. unfold odata.
  induction kvs as [|[k c] l IHl]; [reflexivity|]. inversion Ho as [|? ? [Hk Hoc] Ho']; subst. cbn [fst snd] in Hk, Hoc.
  rewrite ldrop_cons. unfold qkey at 1. rewrite (ordinary_not_inc k Hk).
  destruct (P k) eqn:Ek; [rewrite (ckey_not_ordinary k (HP k Ek)) in Hk; discriminate Hk|]. cbn [orb].
  rewrite (pdrop_ordinary P HP c Hoc), (IHl Ho'). reflexivity.
Qed.

Lemma odata_phs P iks : small iks -> odata P (inc_phs iks) = [].
Proof.
  intros Hs. unfold odata. induction iks as [|i iks IH]; [reflexivity|]. inversion Hs as [|? ? Hi Hs']; subst.
  cbn [inc_phs map]. rewrite ldrop_cons. unfold qkey at 1. rewrite (PHI_is_inc i Hi), orb_true_r. apply IH. exact Hs'.
Qed.

(* what a front end delivers for the document (ins, kvs) read from folder dir: the dropped data are the ordinary data
   of the document, the include table lists its files, no expressions *)
Definition cpres (P : key -> bool) (dir : str) (ins : list (str * str)) (kvs : list (key * tree)) (pr : parsed) : Prop :=
  odata P (sd_data (pr_sd pr)) = kvs /\ map ipath (sd_inc (pr_sd pr)) = map (path_join dir) (inames ins) /\
  sd_expr (pr_sd pr) = [] /\ (-1 <= pr_count pr)%Z.

(* a native text that denotes the document (ins, kvs): from any folder and with any counter value its parse succeeds and
   delivers the document, up to entries with a key of class P at any dict level and include placeholders at top level *)
Definition native_equiv (P : key -> bool) (com : bool) (t : str) (ins : list (str * str)) (kvs : list (key * tree)) : Prop :=
  forall dir c, (-1 <= c)%Z -> exists pr, parse_string com dir c t = Ok pr /\ cpres P dir ins kvs pr.

Definition udenotes (P : key -> bool) (com : bool) (ins : list (str * str)) (kvs : list (key * tree)) (u : funit) : Prop :=
  match u with
  | FJson t => t = json_inc_kvs ins ++ kvs
  | FNative t => native_equiv P com t ins kvs
  end.

Lemma presult_cpres P : (forall k, P k = true -> is_ckey k = true) -> forall dir ins kvs pr,
  udoc_okb ins kvs = true -> presult dir ins kvs pr -> cpres P dir ins kvs pr.
Proof.
  intros HP dir ins kvs pr Hu (iks & Hnd & Hsm & Hl & Ed & _ & Hp & _ & _ & Ee & Hc).
  destruct (udoc_inv ins kvs Hu) as (_ & _ & _ & _ & _ & H6 & _).
  split; [|split; [exact Hp|split; [exact Ee|exact Hc]]].
  rewrite Ed. unfold odata. rewrite ldrop_app. fold (odata P (inc_phs iks)). fold (odata P kvs).
  rewrite (odata_phs P iks Hsm), (odata_ordinary P HP kvs H6). reflexivity.
Qed.

(* the canonical native rendering denotes its document, with comments on or off *)
Lemma native_equiv_canonical P : (forall k, P k = true -> is_ckey k = true) -> forall com ins kvs, udoc_okb ins kvs = true ->
  native_equiv P com (inc_text (inames ins) ++ to_string_plain kvs) ins kvs.
Proof.
  intros HP com ins kvs Hu dir c Hc.
  destruct (udoc_inv ins kvs Hu) as (H1 & H2 & H3 & H4 & H5 & H6 & H7 & H8 & H9 & H10).
  assert (Hnn : forallb native_name_ok (inames ins) = true).
  { unfold inames. clear -H2. induction ins as [|kn ins IH]; [reflexivity|]. cbn [forallb map] in *.
    apply andb_true_iff in H2. destruct H2 as [Ha Hb]. unfold inc_ok in Ha. apply andb_true_iff in Ha. destruct Ha as [_ Ha].
    rewrite Ha, (IH Hb). reflexivity. }
  destruct (wf_app_inv _ _ H1) as (_ & _ & Hw).
  pose proof (native_parse_includes com dir c (inames ins) kvs Hw H4 Hnn (strs_nodup_NoDup _ H3) Hc
                ltac:(rewrite inames_length; exact H8) H9 H10) as En. rewrite inames_length in En.
  eexists. split; [exact En|]. apply (presult_cpres P HP dir ins kvs _ Hu).
  set (n := length ins) in *. exists (ids c n). cbn [pr_sd pr_count sd_data sd_inc sd_lc sd_bc sd_expr].
  assert (L : length (ids c n) = length (map (nat_entry dir) (inames ins))) by (rewrite map_length, inames_length; apply ids_length).
  rewrite (stable_map (Dict kvs) H5). cbn [kvs_of].
  refine (conj (ids_nodup c n Hc H8) (conj (ids_small c n) (conj (ids_length c n) (conj eq_refl (conj _ (conj _ (conj eq_refl (conj eq_refl (conj eq_refl _))))))))).
  - apply combine_fst. exact L.
  - rewrite (ipath_combine _ _ L), map_map. reflexivity.
  - apply cafter_ge. apply cafter_ge. exact Hc.
Qed.

Lemma parse_udenotes P : (forall k, P k = true -> is_ckey k = true) -> forall com path c ins kvs u,
  udoc_okb ins kvs = true -> udenotes P com ins kvs u -> (-1 <= c)%Z ->
  exists pr, parse_unit com path c u = Ok pr /\ cpres P (dir_of path) ins kvs pr.
Proof.
  intros HP com path c ins kvs [t|t] Hu Hd Hc; cbn [udenotes] in Hd.
  - exact (Hd (dir_of path) c Hc).
  - subst t. destruct (parse_renders path c ins kvs (render_json ins kvs) Hu (or_introl eq_refl) Hc) as (pr & Ep & Hp).
    exists pr. split; [exact Ep|]. exact (presult_cpres P HP _ ins kvs pr Hu Hp).
Qed.

Lemma cpres_cgood P dir ins kvs pr : udoc_okb ins kvs = true -> cpres P dir ins kvs pr -> cgood P (pr_sd pr).
Proof.
  intros Hu (Ed & _ & Ee & _). destruct (udoc_inv ins kvs Hu) as (H1 & _ & _ & _ & _ & H6 & _).
  destruct (wf_app_inv _ _ H1) as (_ & _ & Hw). split; [rewrite Ed; exact H6|]. split; [rewrite Ed; exact Hw|exact Ee].
Qed.

(* ================================================================================================ *)
(* 6. two file systems whose files denote the same documents                                        *)
(* ================================================================================================ *)
Definition unit_rel (P : key -> bool) (com1 com2 : bool) (u1 u2 : funit) : Prop :=
  exists ins kvs, udoc_okb ins kvs = true /\ udenotes P com1 ins kvs u1 /\ udenotes P com2 ins kvs u2.
Definition fs_rel_c (P : key -> bool) (com1 com2 : bool) (fs1 fs2 : fsys) : Prop :=
  Forall2 (fun a b => fst a = fst b /\ unit_rel P com1 com2 (snd a) (snd b)) fs1 fs2.

Section Rec.
  Variable P : key -> bool.
  Hypothesis HP : forall k, P k = true -> is_ckey k = true.
  Variables com1 com2 : bool.

  Lemma fs_lookup_rel_c fs1 fs2 p : fs_rel_c P com1 com2 fs1 fs2 ->
    match fs_lookup p fs1, fs_lookup p fs2 with
    | None, None => True
    | Some u1, Some u2 => unit_rel P com1 com2 u1 u2
    | _, _ => False
    end.
  Proof.
    induction 1 as [|[q1 u1] [q2 u2] fs1 fs2 [Hq Hu] _ IH]; [exact I|]. cbn [fst snd] in Hq, Hu. subst q2.
    cbn [fs_lookup]. destruct (str_eqb p q1); [exact Hu|exact IH].
  Qed.

  Lemma fs_rel_c_length fs1 fs2 : fs_rel_c P com1 com2 fs1 fs2 -> length fs1 = length fs2.
  Proof. induction 1 as [|a b l1 l2 _ _ IH]; [reflexivity|]. cbn [length]. rewrite IH. reflexivity. Qed.

  Definition prel_c (p1 p2 : sdict) : Prop :=
    cgood P p1 /\ cgood P p2 /\ odata P (sd_data p1) = odata P (sd_data p2) /\ map ipath (sd_inc p1) = map ipath (sd_inc p2).
  Definition rres_c (r1 r2 : res (sdict * Z)) : Prop :=
    match r1, r2 with
    | Ok (s1, k1), Ok (s2, k2) =>
        cgood P s1 /\ cgood P s2 /\ odata P (sd_data s1) = odata P (sd_data s2) /\ (-1 <= k1)%Z /\ (-1 <= k2)%Z
    | Raise e1, Raise e2 => e1 = e2
    | _, _ => False
    end.
  Definition rec_rel_c (rec1 rec2 : list str -> sdict -> Z -> res (sdict * Z)) : Prop :=
    forall chain p1 p2 c1 c2, prel_c p1 p2 -> (-1 <= c1)%Z -> (-1 <= c2)%Z -> rres_c (rec1 chain p1 c1) (rec2 chain p2 c2).

  Lemma merge_rel_c t1 t2 i1 i2 : cgood P t1 -> cgood P t2 -> odata P (sd_data t1) = odata P (sd_data t2) ->
    cgood P i1 -> cgood P i2 -> odata P (sd_data i1) = odata P (sd_data i2) ->
    cgood P (sd_merge t1 (sd_data i1) (Some i1)) /\ cgood P (sd_merge t2 (sd_data i2) (Some i2)) /\
    odata P (sd_data (sd_merge t1 (sd_data i1) (Some i1))) = odata P (sd_data (sd_merge t2 (sd_data i2) (Some i2))).
  Proof.
    intros G1 G2 E H1 H2 E'. destruct (sd_merge_cgood P t1 i1 G1 H1) as [A1 B1]. destruct (sd_merge_cgood P t2 i2 G2 H2) as [A2 B2].
    split; [exact A1|]. split; [exact A2|]. rewrite B1, B2, E, E'. reflexivity.
  Qed.

  Lemma map_nil_iff {A B} (f : A -> B) (g : A -> B) (l1 l2 : list A) : map f l1 = map g l2 -> (l1 = [] <-> l2 = []).
  Proof. intros H. split; intros ->; [destruct l2|destruct l1]; try reflexivity; discriminate H. Qed.

  Lemma step_rel_c rec1 rec2 fs1 fs2 chain : rec_rel_c rec1 rec2 -> fs_rel_c P com1 com2 fs1 fs2 ->
    forall acc1 acc2 e1 e2, ipath e1 = ipath e2 -> rres_c acc1 acc2 ->
    rres_c (inc_step rec1 fs1 com1 chain acc1 e1) (inc_step rec2 fs2 com2 chain acc2 e2).
  Proof.
    intros Hrec Hfs acc1 acc2 [i1 [[d1 n1] path]] [i2 [[d2 n2] path2]] Hp Hacc. unfold ipath in Hp. cbn [snd] in Hp. subst path2.
    destruct acc1 as [[t1 k1]|x1], acc2 as [[t2 k2]|x2]; cbn [rres_c] in Hacc; try contradiction; [|exact Hacc].
    destruct Hacc as (G1 & G2 & Eo & K1 & K2).
    destruct (in_chain (norm_path path) chain) eqn:Hc.
    { match goal with |- rres_c ?a ?b =>
        rewrite (inc_step_skip rec1 fs1 com1 chain t1 k1 i1 d1 n1 path (or_introl Hc) : a = _);
        rewrite (inc_step_skip rec2 fs2 com2 chain t2 k2 i2 d2 n2 path (or_introl Hc) : b = _) end.
      exact (conj G1 (conj G2 (conj Eo (conj K1 K2)))). }
    pose proof (fs_lookup_rel_c fs1 fs2 (norm_path path) Hfs) as Hl.
    destruct (fs_lookup (norm_path path) fs1) as [u1|] eqn:L1, (fs_lookup (norm_path path) fs2) as [u2|] eqn:L2; try contradiction.
    2:{ match goal with |- rres_c ?a ?b =>
          rewrite (inc_step_skip rec1 fs1 com1 chain t1 k1 i1 d1 n1 path (or_intror L1) : a = _);
          rewrite (inc_step_skip rec2 fs2 com2 chain t2 k2 i2 d2 n2 path (or_intror L2) : b = _) end.
        exact (conj G1 (conj G2 (conj Eo (conj K1 K2)))). }
    destruct Hl as (ins & kvs & Hu & R1 & R2).
    match goal with |- rres_c ?a ?b =>
      rewrite (inc_step_valid rec1 fs1 com1 chain t1 k1 i1 d1 n1 path u1 Hc L1 : a = _);
      rewrite (inc_step_valid rec2 fs2 com2 chain t2 k2 i2 d2 n2 path u2 Hc L2 : b = _) end.
    destruct (parse_udenotes P HP com1 path k1 ins kvs u1 Hu R1 K1) as (pr1 & P1 & Q1).
    destruct (parse_udenotes P HP com2 path k2 ins kvs u2 Hu R2 K2) as (pr2 & P2 & Q2).
    rewrite P1, P2. cbn [bind].
    pose proof (cpres_cgood P _ ins kvs pr1 Hu Q1) as Gp1. pose proof (cpres_cgood P _ ins kvs pr2 Hu Q2) as Gp2.
    destruct Q1 as (Op1 & Hq1 & _ & Kp1). destruct Q2 as (Op2 & Hq2 & _ & Kp2).
    assert (Hpaths : map ipath (sd_inc (pr_sd pr1)) = map ipath (sd_inc (pr_sd pr2))) by (rewrite Hq1, Hq2; reflexivity).
    assert (Hod : odata P (sd_data (pr_sd pr1)) = odata P (sd_data (pr_sd pr2))) by (rewrite Op1, Op2; reflexivity).
    pose proof (map_nil_iff ipath ipath _ _ Hpaths) as Hnil.
    unfold sub_result. destruct (sd_inc (pr_sd pr1)) as [|x1 l1] eqn:E1.
    - rewrite (proj1 Hnil eq_refl). cbn [bind fst snd].
      destruct (merge_rel_c t1 t2 (pr_sd pr1) (pr_sd pr2) G1 G2 Eo Gp1 Gp2 Hod) as (A & B & C).
      exact (conj A (conj B (conj C (conj Kp1 Kp2)))).
    - destruct (sd_inc (pr_sd pr2)) as [|x2 l2] eqn:E2; [discriminate (proj2 Hnil eq_refl)|].
      assert (Hprel : prel_c (pr_sd pr1) (pr_sd pr2)).
      { split; [exact Gp1|]. split; [exact Gp2|]. split; [exact Hod|]. rewrite E1, E2. exact Hpaths. }
      pose proof (Hrec (chain ++ [norm_path path]) (pr_sd pr1) (pr_sd pr2) (pr_count pr1) (pr_count pr2) Hprel Kp1 Kp2) as Hr.
      destruct (rec1 (chain ++ [norm_path path]) (pr_sd pr1) (pr_count pr1)) as [[j1 m1]|y1],
               (rec2 (chain ++ [norm_path path]) (pr_sd pr2) (pr_count pr2)) as [[j2 m2]|y2]; cbn [rres_c] in Hr; try contradiction; [|exact Hr].
      destruct Hr as (J1 & J2 & Ej & M1 & M2). cbn [bind fst snd].
      destruct (merge_rel_c t1 t2 j1 j2 G1 G2 Eo J1 J2 Ej) as (A & B & C).
      destruct (merge_rel_c _ _ j1 j2 A B C J1 J2 Ej) as (A' & B' & C').
      exact (conj A' (conj B' (conj C' (conj M1 M2)))).
  Qed.

  Lemma fold_rel_c rec1 rec2 fs1 fs2 chain : rec_rel_c rec1 rec2 -> fs_rel_c P com1 com2 fs1 fs2 ->
    forall l1 l2 acc1 acc2, map ipath l1 = map ipath l2 -> rres_c acc1 acc2 ->
    rres_c (fold_left (inc_step rec1 fs1 com1 chain) l1 acc1) (fold_left (inc_step rec2 fs2 com2 chain) l2 acc2).
  Proof.
    intros Hrec Hfs. induction l1 as [|e1 l1 IH]; intros [|e2 l2] acc1 acc2 Hm Hacc; try discriminate Hm; [exact Hacc|].
    cbn [map] in Hm. inversion Hm as [[H1 H2]]. cbn [fold_left]. apply IH; [exact H2|]. apply step_rel_c; assumption.
  Qed.

  Lemma rec_rel_c_fuel fs1 fs2 : fs_rel_c P com1 com2 fs1 fs2 ->
    forall f, rec_rel_c (merge_includes_rec f fs1 com1) (merge_includes_rec f fs2 com2).
  Proof.
    intros Hfs. induction f as [|f IH]; intros chain p1 p2 c1 c2 (G1 & G2 & Eo & Ep) K1 K2; [reflexivity|].
    rewrite !merge_includes_rec_S.
    pose proof (fold_rel_c _ _ fs1 fs2 chain IH Hfs (sd_inc p1) (sd_inc p2) (Ok (sd_empty, c1)) (Ok (sd_empty, c2)) Ep) as Hr.
    specialize (Hr (conj (cgood_empty P) (conj (cgood_empty P) (conj eq_refl (conj K1 K2))))).
    destruct (fold_left (inc_step (merge_includes_rec f fs1 com1) fs1 com1 chain) (sd_inc p1) (Ok (sd_empty, c1))) as [[t1 k1]|x1],
             (fold_left (inc_step (merge_includes_rec f fs2 com2) fs2 com2 chain) (sd_inc p2) (Ok (sd_empty, c2))) as [[t2 k2]|x2];
      cbn [rres_c] in Hr; try contradiction; [|exact Hr].
    destruct Hr as (T1 & T2 & Et & M1 & M2). cbn [bind].
    destruct (merge_rel_c p1 p2 t1 t2 G1 G2 Eo T1 T2 Et) as (A & B & C). exact (conj A (conj B (conj C (conj M1 M2)))).
  Qed.

  Theorem merge_includes_mixed_c fs1 fs2 p1 p2 c1 c2 : fs_rel_c P com1 com2 fs1 fs2 -> prel_c p1 p2 -> (-1 <= c1)%Z -> (-1 <= c2)%Z ->
    rres_c (merge_includes fs1 com1 p1 c1) (merge_includes fs2 com2 p2 c2).
  Proof.
    intros Hfs Hp K1 K2. unfold merge_includes. rewrite <- (fs_rel_c_length fs1 fs2 Hfs).
    pose proof (rec_rel_c_fuel fs1 fs2 Hfs (S (length fs1)) [] p1 p2 c1 c2 Hp K1 K2) as Hr.
    destruct (merge_includes_rec (S (length fs1)) fs1 com1 [] p1 c1) as [[t1 k1]|x1],
             (merge_includes_rec (S (length fs1)) fs2 com2 [] p2 c2) as [[t2 k2]|x2]; cbn [rres_c] in Hr; try contradiction; [|exact Hr].
    destruct Hr as (T1 & T2 & Et & M1 & M2). cbn [bind].
    destruct (merge_rel_c t1 t2 t1 t2 T1 T2 Et T1 T2 Et) as (A & B & C). exact (conj A (conj B (conj C (conj M1 M2)))).
  Qed.

  (* the result of a read: the dropped data of the two reads are the same (or both reads fail alike) *)
  Definition same_read_c (r1 r2 : res (sdict * Z)) : Prop :=
    match r1, r2 with
    | Ok (s1, _), Ok (s2, _) => odata P (sd_data s1) = odata P (sd_data s2)
    | Raise e1, Raise e2 => e1 = e2
    | _, _ => False
    end.

  Theorem read_mixed_formats_c : forall fs1 fs2 root c1 c2, fs_rel_c P com1 com2 fs1 fs2 -> (-1 <= c1)%Z -> (-1 <= c2)%Z ->
    same_read_c (read_plain fs1 root true com1 c1) (read_plain fs2 root true com2 c2).
  Proof.
    intros fs1 fs2 root c1 c2 Hfs K1 K2. unfold read_plain.
    pose proof (fs_lookup_rel_c fs1 fs2 (norm_path root) Hfs) as Hl.
    destruct (fs_lookup (norm_path root) fs1) as [u1|], (fs_lookup (norm_path root) fs2) as [u2|]; try contradiction; [|reflexivity].
    destruct Hl as (ins & kvs & Hu & R1 & R2).
    destruct (parse_udenotes P HP com1 root c1 ins kvs u1 Hu R1 K1) as (pr1 & P1 & Q1).
    destruct (parse_udenotes P HP com2 root c2 ins kvs u2 Hu R2 K2) as (pr2 & P2 & Q2).
    rewrite P1, P2. cbn [bind].
    pose proof (cpres_cgood P _ ins kvs pr1 Hu Q1) as Gp1. pose proof (cpres_cgood P _ ins kvs pr2 Hu Q2) as Gp2.
    destruct Q1 as (Op1 & Hq1 & _ & Kp1). destruct Q2 as (Op2 & Hq2 & _ & Kp2).
    assert (Hprel : prel_c (pr_sd pr1) (pr_sd pr2)).
    { split; [exact Gp1|]. split; [exact Gp2|]. split; [rewrite Op1, Op2; reflexivity|]. rewrite Hq1, Hq2. reflexivity. }
    pose proof (merge_includes_mixed_c fs1 fs2 _ _ _ _ Hfs Hprel Kp1 Kp2) as Hr.
    destruct (merge_includes fs1 com1 (pr_sd pr1) (pr_count pr1)) as [[s1 k1]|x1],
             (merge_includes fs2 com2 (pr_sd pr2) (pr_count pr2)) as [[s2 k2]|x2]; cbn [rres_c] in Hr; try contradiction; [|exact Hr].
    destruct Hr as (_ & _ & E & _). cbn [bind same_read_c sd_data]. exact E.
  Qed.
End Rec.
Print Assumptions read_mixed_formats_c.

(* ================================================================================================ *)
(* 7. the two instances: comment placeholder keys dropped / nothing dropped                         *)
(* ================================================================================================ *)
(* the ordinary data up to comments: include placeholder entries dropped at top level, entries with a comment placeholder
   key dropped at every dict level *)
Definition opart_c (d : list (key * tree)) : list (key * tree) := odata is_ckey d.

Lemma odata_opart P d : odata P d = ldrop P P (opart d).
Proof.
  unfold odata, opart. induction d as [|[k c] d IH]; [reflexivity|]. rewrite ldrop_cons. cbn [filter fst]. unfold qkey at 1.
  destruct (is_include_key k); cbn [negb]; [rewrite orb_true_r; exact IH|]. rewrite orb_false_r, ldrop_cons, IH. reflexivity.
Qed.

(* opart_c d is opart d with the comment entries dropped at every level *)
Lemma opart_c_spec d : opart_c d = kvs_of (pdrop is_ckey (Dict (opart d))).
Proof. unfold opart_c. rewrite odata_opart, pdrop_dict. reflexivity. Qed.

Definition no_key (k : key) : bool := false.

Lemma pdrop_none : forall t, pdrop no_key t = t.
Proof.
  induction t as [v|kvs IH|ts _] using tree_ind'; [reflexivity| |reflexivity]. rewrite pdrop_dict. f_equal.
  induction IH as [|[k c] l Hc _ IHl]; [reflexivity|]. rewrite ldrop_cons. cbn [no_key snd] in *. rewrite Hc, IHl. reflexivity.
Qed.

Lemma odata_none d : odata no_key d = opart d.
Proof.
  rewrite odata_opart. generalize (opart d). intros l. induction l as [|[k c] l IH]; [reflexivity|]. rewrite ldrop_cons. cbn [no_key].
  rewrite pdrop_none, IH. reflexivity.
Qed.

Definition same_content_c (u1 u2 : funit) : Prop := unit_rel is_ckey true true u1 u2.
Definition fs_rel_commented (fs1 fs2 : fsys) : Prop := fs_rel_c is_ckey true true fs1 fs2.
Definition same_read_commented (r1 r2 : res (sdict * Z)) : Prop :=
  match r1, r2 with
  | Ok (s1, _), Ok (s2, _) => opart_c (sd_data s1) = opart_c (sd_data s2)
  | Raise e1, Raise e2 => e1 = e2
  | _, _ => False
  end.

Theorem read_mixed_formats_commented : forall fs1 fs2 root c1 c2, fs_rel_commented fs1 fs2 -> (-1 <= c1)%Z -> (-1 <= c2)%Z ->
  same_read_commented (read_plain fs1 root true true c1) (read_plain fs2 root true true c2).
Proof. intros fs1 fs2 root c1 c2 H K1 K2. exact (read_mixed_formats_c is_ckey (fun k H => H) true true fs1 fs2 root c1 c2 H K1 K2). Qed.

(* the canonical files of JsonNativeRead are files in the new sense, for any class P *)
Lemma renders_udenotes P : (forall k, P k = true -> is_ckey k = true) -> forall ins kvs u, udoc_okb ins kvs = true ->
  renders ins kvs u -> udenotes P true ins kvs u.
Proof.
  intros HP ins kvs u Hu [-> | ->]; [reflexivity|]. cbn [render_native udenotes]. exact (native_equiv_canonical P HP true ins kvs Hu).
Qed.

Lemma fs_rel_fs_rel_c P : (forall k, P k = true -> is_ckey k = true) -> forall fs1 fs2, fs_rel fs1 fs2 -> fs_rel_c P true true fs1 fs2.
Proof.
  intros HP fs1 fs2 H. induction H as [|a b l1 l2 [Hq (ins & kvs & Hu & R1 & R2)] _ IH]; constructor; [|exact IH].
  split; [exact Hq|]. exists ins, kvs. split; [exact Hu|]. split; apply (renders_udenotes P HP); assumption.
Qed.

(* JsonNativeRead.read_mixed_formats again, from the generic theorem with nothing dropped *)
Theorem read_mixed_formats_from_commented : forall fs1 fs2 root c1 c2, fs_rel fs1 fs2 -> (-1 <= c1)%Z -> (-1 <= c2)%Z ->
  same_read (read_plain fs1 root true true c1) (read_plain fs2 root true true c2).
Proof.
  intros fs1 fs2 root c1 c2 H K1 K2.
  pose proof (read_mixed_formats_c no_key (fun k (H : no_key k = true) => False_ind _ (diff_false_true H)) true true fs1 fs2 root c1 c2
                (fs_rel_fs_rel_c no_key (fun k (H : no_key k = true) => False_ind _ (diff_false_true H)) fs1 fs2 H) K1 K2) as Hr.
  destruct (read_plain fs1 root true true c1) as [[s1 k1]|e1], (read_plain fs2 root true true c2) as [[s2 k2]|e2];
    cbn [same_read_c same_read] in *; try exact Hr. rewrite !odata_none in Hr. exact Hr.
Qed.

(* and the theorem for commented files also covers them *)
Lemma fs_rel_commented_of_fs_rel fs1 fs2 : fs_rel fs1 fs2 -> fs_rel_commented fs1 fs2.
Proof. exact (fs_rel_fs_rel_c is_ckey (fun k H => H) fs1 fs2). Qed.
Print Assumptions read_mixed_formats_commented.
Print Assumptions read_mixed_formats_from_commented.

(* ================================================================================================ *)
(* 8. files as the writer writes them: header block comment, comments at any dict level, includes   *)
(* ================================================================================================ *)
(* on a document in which every comment entry (RereadTree.cm_entry: string entry whose key contains COMMENT) has a comment
   placeholder key and whose other entries are ordinary, dropping the comment placeholder keys is RereadTree.cstrip *)
Lemma pdrop_cstrip : forall t lvl, RereadTree.cshape t = true ->
  (forall c, In c (RereadTree.cms_of (RereadTree.events lvl t)) -> is_ckey (KS (RereadTree.cm_name c)) = true) ->
  ordinary (RereadTree.cstrip t) = true -> pdrop is_ckey t = RereadTree.cstrip t.
Proof.
  induction t as [v|kvs IH|ts _] using tree_ind'; intros lvl Hs Hc Ho; [reflexivity| |reflexivity].
  rewrite pdrop_dict, RereadTree.cstrip_dict. f_equal. rewrite RereadTree.cstrip_dict in Ho. apply SDictProofs.ordinary_Dict_iff in Ho.
  induction IH as [|[k c] l Hkc _ IHl]; [reflexivity|].
  rewrite RereadTree.cshape_cons in Hs. apply andb_true_iff in Hs. destruct Hs as [Hs1 Hs2].
  rewrite RereadTree.events_cons, RereadTree.cms_of_app in Hc. cbn [flat_map] in Ho |- *. apply Forall_app in Ho. destruct Ho as [Ho1 Ho2].
  rewrite ldrop_cons.
  assert (Hc2 : forall c0, In c0 (RereadTree.cms_of (RereadTree.events lvl (Dict l))) -> is_ckey (KS (RereadTree.cm_name c0)) = true)
    by (intros c0 H0; apply Hc; apply in_or_app; right; exact H0).
  specialize (IHl Hs2 Hc2 Ho2). rewrite IHl. unfold RereadTree.cstrip_entry, RereadTree.cshape_entry, RereadTree.entry_events in *.
  destruct (RereadTree.cm_entry (k, c)) as [[n x]|] eqn:E.
  - destruct (RereadTree.cm_entry_inv _ _ _ E) as [E1 _]. inversion E1; subst k c.
    assert (Hn : is_ckey (KS n) = true) by (apply (Hc (lvl, n, x)); apply in_or_app; left; left; reflexivity).
    rewrite Hn. reflexivity.
  - cbn [fst snd] in *. inversion Ho1 as [|? ? [Hk Hov] _]; subst. cbn [fst snd] in Hk, Hov.
    destruct (is_ckey k) eqn:Ek; [rewrite (ckey_not_ordinary k Ek) in Hk; discriminate Hk|]. cbn [app]. f_equal. f_equal.
    destruct c as [v|d|ts]; [reflexivity| |reflexivity]. cbn [snd] in Hkc.
    apply andb_true_iff in Hs1. destruct Hs1 as [_ Hs1]. apply (Hkc (S lvl) Hs1); [|exact Hov].
    intros c0 H0. apply Hc. apply in_or_app. left. cbn [RereadTree.cms_of RereadTree.ev_cm]. rewrite RereadTree.cms_of_app. apply in_or_app. left. exact H0.
Qed.

Lemma ph_entry_ckey lc bc c : RereadTree.ph_entry_ok lc bc c = true -> is_ckey (KS (RereadTree.cm_name c)) = true.
Proof.
  destruct c as [[l n] x]. unfold RereadTree.ph_entry_ok, RereadTree.cm_name. cbn [fst snd]. intros H.
  apply andb_true_iff in H. destruct H as [_ H]. apply orb_true_iff in H. unfold is_ckey. destruct H as [H|H]; apply andb_true_iff in H; destruct H as [H _].
  - destruct (RereadWrite.is_ph_inv _ _ H) as [E Hi]. rewrite E. change (placeholder w_LINECOMMENT ?i) with (RereadTree.lph i).
    rewrite (RereadNum.lph_kind _ Hi). reflexivity.
  - destruct (RereadWrite.is_ph_inv _ _ H) as [E Hi]. rewrite E. change (placeholder w_BLOCKCOMMENT ?i) with (RereadTree.bph i).
    rewrite (RereadNum.bph_kind _ Hi). reflexivity.
Qed.

(* the file NativeFormatter.to_string writes for an SDict s of the class RereadIncWrite.rereadable_inc (comments at any dict
   level, the default header in front unless s begins with a marked header of its own, include entries at top level)
   denotes the document (ins, kvs) when the data of s without comment and include entries are kvs and the names of its
   include entries are those of ins *)
Theorem native_equiv_written : forall s ins kvs, RereadIncWrite.rereadable_inc s = true ->
  (Z.of_nat (length (sd_lc s)) < 1000000)%Z ->
  (Z.of_nat (length (RereadProofs.lc_list (RereadIncProofs.written_doc_inc s))) < 1000000)%Z ->
  (Z.of_nat (length (RereadProofs.bc_list (RereadIncProofs.written_doc_inc s))) <= 1000000)%Z ->
  (Z.of_nat (length (RereadProofs.lit_list (RereadIncProofs.written_doc_inc s))) <= 1000000)%Z ->
  udoc_okb ins kvs = true ->
  RereadTree.cstrip (Dict (sd_data (RereadIncWrite.strip_inc s))) = Dict kvs -> RereadIncWrite.inc_names s = inames ins ->
  native_equiv is_ckey true (to_string_sd s) ins kvs.
Proof.
  intros s ins kvs Hr Hl H1 H2 H3 Hu Hk Hn dir c Hc.
  destruct (udoc_inv ins kvs Hu) as (_ & _ & _ & _ & U5 & U6 & _ & U8 & _).
  assert (H4 : (Z.of_nat (length (RereadIncWrite.inc_names s)) <= 1000000)%Z) by (rewrite Hn, inames_length; exact U8).
  destruct (RereadIncProofs.includes_survive s dir c Hr Hl Hc ltac:(lia) H2 H3 H4) as (s' & c' & Hp & _ & _ & Hcs & _ & _ & Hinc & _ & _ & _ & Hex).
  destruct (RereadIncFix.reread_inc_fixed_point s dir c dir c Hr Hl Hc Hc H1 H2 H3 H4) as (Hp1 & Hr1 & _). cbv zeta in Hp1, Hr1.
  rewrite Hp in Hp1. injection Hp1 as Es Ec. rewrite <- Es in Hr1.
  exists (mkParsed s' c'). split; [exact Hp|]. cbn [cpres pr_sd pr_count]. unfold cpres. cbn [pr_sd pr_count].
  rewrite Hk, (stable_map (Dict kvs) U5) in Hcs.
  pose proof (RereadIncWrite.rereadable_inc_facts s' Hr1) as F. pose proof (RereadWrite.rereadable_facts _ (RereadIncWrite.if_strip s' F)) as G.
  split; [|split; [|split; [exact Hex|]]].
  - change (odata is_ckey (sd_data s')) with (opart_c (sd_data s')). rewrite opart_c_spec.
    change (opart (sd_data s')) with (sd_data (RereadIncWrite.strip_inc s')).
    rewrite (pdrop_cstrip _ 0%nat (RereadWrite.wf_shape _ G)), Hcs; [reflexivity| |rewrite Hcs; exact U6].
    intros c0 H0. exact (ph_entry_ckey _ _ c0 (RereadWrite.wf_entries _ G c0 H0)).
  - rewrite Hinc, Hn. rewrite ipath_combine by (rewrite map_length; apply ids_length). rewrite map_map. reflexivity.
  - rewrite Ec. unfold RereadIncRead.count_after_inc. apply cafter_ge. apply cafter_ge. apply cafter_ge. exact Hc.
Qed.
Print Assumptions native_equiv_written.

(* ================================================================================================ *)
(* 9. comments switched off on one side                                                             *)
(* ================================================================================================ *)
(* a written file without include entries (class RereadTree.rereadable: header, comments at any dict level), read with
   comments off, denotes its data without the comment entries -- for any class P *)
Theorem native_equiv_written_off P : (forall k, P k = true -> is_ckey k = true) -> forall s kvs, RereadTree.rereadable s = true ->
  (Z.of_nat (length (RereadProofs.lc_list (RereadProofs.written_doc s))) <= 1000000)%Z ->
  (Z.of_nat (length (RereadProofs.bc_list (RereadProofs.written_doc s))) <= 1000000)%Z ->
  (Z.of_nat (length (RereadProofs.lit_list (RereadProofs.written_doc s))) <= 1000000)%Z ->
  udoc_okb [] kvs = true -> RereadTree.cstrip (Dict (sd_data s)) = Dict kvs ->
  native_equiv P false (to_string_sd s) [] kvs.
Proof.
  intros HP s kvs Hr H1 H2 H3 Hu Hk dir c Hc.
  destruct (udoc_inv [] kvs Hu) as (_ & _ & _ & _ & U5 & U6 & _).
  destruct (RereadOff.comments_off_doc s dir c Hr Hc H1 H2 H3) as (_ & Hoff & _ & _ & Hd & _). cbv zeta in Hoff, Hd.
  eexists. split; [exact Hoff|]. unfold cpres. cbn [pr_sd pr_count].
  rewrite Hk, (stable_map (Dict kvs) U5) in Hd. apply (f_equal kvs_of) in Hd. cbn [kvs_of] in Hd. rewrite Hd.
  split; [exact (odata_ordinary P HP kvs U6)|]. split; [reflexivity|]. split; [reflexivity|].
  unfold RereadProofs.count_after. apply cafter_ge. apply cafter_ge. exact Hc.
Qed.
Print Assumptions native_equiv_written_off.

(* side 1 read with comments on, side 2 with comments off *)
Definition fs_rel_on_off (fs1 fs2 : fsys) : Prop := fs_rel_c is_ckey true false fs1 fs2.

Theorem read_mixed_formats_comments_off : forall fs1 fs2 root c1 c2, fs_rel_on_off fs1 fs2 -> (-1 <= c1)%Z -> (-1 <= c2)%Z ->
  same_read_commented (read_plain fs1 root true true c1) (read_plain fs2 root true false c2).
Proof. intros fs1 fs2 root c1 c2 H K1 K2. exact (read_mixed_formats_c is_ckey (fun k H => H) true false fs1 fs2 root c1 c2 H K1 K2). Qed.
Print Assumptions read_mixed_formats_comments_off.

(* ================================================================================================ *)
(* 10. native_equiv relative to the canonical rendering                                             *)
(* ================================================================================================ *)
(* for a document in the domain udoc_okb: t denotes (ins, kvs) iff, from every folder and with every counter value, t and
   the canonical rendering both parse, with the same dropped data and the same include paths, and t registers no
   expression *)
Theorem native_equiv_iff_canonical P : (forall k, P k = true -> is_ckey k = true) -> forall com t ins kvs, udoc_okb ins kvs = true ->
  (native_equiv P com t ins kvs <->
   forall dir c, (-1 <= c)%Z -> exists p p0,
     parse_string com dir c t = Ok p /\ parse_string com dir c (inc_text (inames ins) ++ to_string_plain kvs) = Ok p0 /\
     odata P (sd_data (pr_sd p)) = odata P (sd_data (pr_sd p0)) /\ map ipath (sd_inc (pr_sd p)) = map ipath (sd_inc (pr_sd p0)) /\
     sd_expr (pr_sd p) = [] /\ (-1 <= pr_count p)%Z).
Proof.
  intros HP com t ins kvs Hu. split.
  - intros H dir c Hc. destruct (H dir c Hc) as (p & Ep & A1 & A2 & A3 & A4).
    destruct (native_equiv_canonical P HP com ins kvs Hu dir c Hc) as (p0 & Ep0 & B1 & B2 & _).
    exists p, p0. rewrite A1, A2, B1, B2. repeat split; assumption.
  - intros H dir c Hc. destruct (H dir c Hc) as (p & p0 & Ep & Ep0 & A1 & A2 & A3 & A4).
    destruct (native_equiv_canonical P HP com ins kvs Hu dir c Hc) as (p0' & Ep0' & B1 & B2 & _).
    rewrite Ep0 in Ep0'. injection Ep0' as <-. exists p. split; [exact Ep|]. unfold cpres. rewrite <- B1, <- B2. repeat split; assumption.
Qed.
Print Assumptions native_equiv_iff_canonical.
