(* C10, the SDict route of the Foam writer: FoamFormatter.to_string on an SDict = default block comment (the OpenFOAM
   banner, the FoamFile dict, a rule line) in front of the body of FoamProofs.

   1. the pieces of the default header (banner / FoamFile block / rule) and their character facts
   2. the writer: the header survives the later passes (block comments, includes, line comments, trailing spaces);
      foam_to_string_sd begins with the banner and the FoamFile block (sd_banner_default, sd_banner_own_first)
   3. the lexer on  header ++ text  for a text free of comments and includes: the banner is lifted out as block
      comment 0, the rule as a line comment with a fresh id, the rest of the pipeline sees
      BLOCKCOMMENT000000 FoamFile { .. } LINECOMMENTnnnnnn text
   4. no single-quoted literal on the SDict route
   5. the round trip (through RereadProofs.reader_canon on the canonical document  banner, FoamFile, rule, data) *)
From Coq Require Import String.
From Coq Require Import NArith ZArith List Bool Lia ZifyBool ZifyN ZifyNat.
From DictIO Require Import Chars Str Value Scalar KeyPath SDict Layout Lexer TokParser Reader TreeSpec NativeSpec LayoutSpec E2ESpec.
From DictIO Require ScalarProofs SDictProofs TokProofs LayoutProofs SemProofs QuoteProofs KeyPathProofs.
From DictIO Require Import E2EProofs E2EHoles E2EInsert E2EKeyTok E2EFullProofs RereadStr RereadTree RereadLex RereadNum RereadProofs FoamProofs.
Import ListNotations.
Import LayoutProofs.
Open Scope N_scope.

(* ================================================================================================ *)
(* 1. the default header in pieces                                                                  *)
(* ================================================================================================ *)

(* the OpenFOAM banner: one block comment, seven lines, no final line feed *)
Definition foam_banner : str := of_string
"/*--------------------------------*- C++ -*----------------------------------*\
| =========                 |                                                 |
| \\      /  F ield         | OpenFOAM: The Open Source CFD Toolbox           |
|  \\    /   O peration     | Version:  dev                                   |
|   \\  /    A nd           | Web:      www.OpenFOAM.com                      |
|    \\/     M anipulation  |                                                 |
\*---------------------------------------------------------------------------*/".
(* the FoamFile dict as the header spells it *)
Definition foam_file_block : str := of_string
"FoamFile
{
    version                   2.0;
    format                    ascii;
    class                     dictionary;
    object                    foamDict;
}
".
(* the rule under it: a line comment *)
Definition foam_rule : str := of_string "// * * * * * * * * * * * * * * * * * * * * * * * * * * * * * * * * * * * * * //".

Lemma foam_header_split : foam_header = foam_banner ++ [c_lf] ++ foam_file_block ++ foam_rule ++ [c_lf].
Proof. vm_compute. reflexivity. Qed.

(* the FoamFile entry as data *)
Definition k_FoamFile : key := KS (of_string "FoamFile").
Definition foam_file_dict : tree :=
  Dict [(KS (of_string "version"), Leaf (SFloat (of_string "2.0"))); (KS (of_string "format"), Leaf (SStr (of_string "ascii")));
        (KS (of_string "class"), Leaf (SStr (of_string "dictionary"))); (KS (of_string "object"), Leaf (SStr (of_string "foamDict")))].

(* no upper-case B, I, L (the first letters of the placeholder words), no quote character of either flavour, no
   trailing blank on any line *)
Lemma foam_header_chars :
  has_char 66 foam_header = false /\ has_char 73 foam_header = false /\ has_char 76 foam_header = false /\
  has_char c_sq foam_header = false /\ has_char c_dq foam_header = false /\ has_char c_cr foam_header = false /\
  remove_trailing_spaces foam_header = foam_header.
Proof. vm_compute. repeat split; reflexivity. Qed.

Lemma foam_header_ends_lf : ends_lf foam_header.
Proof. right. exists (removelast foam_header). vm_compute. reflexivity. Qed.

(* ================================================================================================ *)
(* 2. the writer keeps the header in front                                                          *)
(* ================================================================================================ *)

Lemma ns_nochar c (p X : list N) : has_char c X = false -> forall Z, ns (c :: p) X Z.
Proof.
  induction X as [|x X IH]; intros H Z i Hi; [cbn [length] in Hi; lia|].
  rewrite has_char_cons in H. apply orb_false_iff in H. destruct H as [Hx HX].
  destruct i as [|i].
  - cbn [drop_n app starts_with]. rewrite Hx. reflexivity.
  - cbn [drop_n app]. apply (IH HX Z i). cbn [length] in Hi. lia.
Qed.

Lemma bph_head i : exists r, placeholder w_BLOCKCOMMENT i = 66 :: r.
Proof. eexists. reflexivity. Qed.
Lemma iph_head i : exists r, placeholder w_INCLUDE i = 73 :: r.
Proof. eexists. reflexivity. Qed.
Lemma lph_head i : exists r, placeholder w_LINECOMMENT i = 76 :: r.
Proof. eexists. reflexivity. Qed.

(* a text that none of the placeholder words can begin in *)
Definition phless (X : list N) : Prop := has_char 66 X = false /\ has_char 73 X = false /\ has_char 76 X = false.

Lemma foam_header_phless : phless foam_header.
Proof. destruct foam_header_chars as (A & B & C & _). repeat split; assumption. Qed.

Lemma subst_pre_b (X : list N) i repl Z : phless X ->
  subst (placeholder w_BLOCKCOMMENT i) repl (X ++ Z) =
  (X ++ fst (subst (placeholder w_BLOCKCOMMENT i) repl Z), snd (subst (placeholder w_BLOCKCOMMENT i) repl Z)).
Proof. intros (H & _). destruct (bph_head i) as [r ->]. apply subst_skip. apply ns_nochar. exact H. Qed.
Lemma subst1_pre_b (X : list N) i repl Z : phless X ->
  subst1 (placeholder w_BLOCKCOMMENT i) repl (X ++ Z) =
  (X ++ fst (subst1 (placeholder w_BLOCKCOMMENT i) repl Z), snd (subst1 (placeholder w_BLOCKCOMMENT i) repl Z)).
Proof. intros (H & _). destruct (bph_head i) as [r ->]. apply subst1_skip. apply ns_nochar. exact H. Qed.
Lemma subst_pre_i (X : list N) i repl Z : phless X ->
  subst (placeholder w_INCLUDE i) repl (X ++ Z) =
  (X ++ fst (subst (placeholder w_INCLUDE i) repl Z), snd (subst (placeholder w_INCLUDE i) repl Z)).
Proof. intros (_ & H & _). destruct (iph_head i) as [r ->]. apply subst_skip. apply ns_nochar. exact H. Qed.
Lemma subst_pre_l (X : list N) i repl Z : phless X ->
  subst (placeholder w_LINECOMMENT i) repl (X ++ Z) =
  (X ++ fst (subst (placeholder w_LINECOMMENT i) repl Z), snd (subst (placeholder w_LINECOMMENT i) repl Z)).
Proof. intros (_ & _ & H). destruct (lph_head i) as [r ->]. apply subst_skip. apply ns_nochar. exact H. Qed.

Lemma insert_includes_pre fmt_name (X : list N) : phless X -> forall incs Z,
  insert_includes fmt_name incs (X ++ Z) = X ++ insert_includes fmt_name incs Z.
Proof.
  intros HX. unfold insert_includes. induction incs as [|[i [[d name] p]] incs IH]; intros Z; [reflexivity|].
  cbn [fold_left]. fold (subst (placeholder w_INCLUDE i) (of_string "#include " ++ fmt_name name) (X ++ Z)).
  rewrite (subst_pre_i X i _ Z HX). cbn [fst]. rewrite IH. reflexivity.
Qed.

Lemma insert_line_comments_pre (X : list N) : phless X -> forall lcs Z,
  insert_line_comments lcs (X ++ Z) = X ++ insert_line_comments lcs Z.
Proof.
  intros HX. unfold insert_line_comments. induction lcs as [|[i x] lcs IH]; intros Z; [reflexivity|].
  cbn [fold_left fst snd]. fold (subst (placeholder w_LINECOMMENT i) x (X ++ Z)).
  rewrite (subst_pre_l X i _ Z HX). cbn [fst]. rewrite IH. reflexivity.
Qed.

(* whatever the block comment pass does to a text with such a prefix, the prefix stays *)
Lemma insert_blocks_pre mk hk (X : list N) : phless X -> forall bcs inserted Z,
  exists Z', insert_blocks mk hk bcs inserted (X ++ Z) = X ++ Z'.
Proof.
  intros HX. induction bcs as [|[i bc] bcs IH]; intros inserted Z; [exists Z; reflexivity|].
  cbn [insert_blocks]. cbv zeta.
  set (ish := match hk with Some h => h =? i | None => false end).
  set (bc1 := if ish then mk bc else bc). set (bc2 := if contains bc1 inserted then [] else bc1).
  destruct ish.
  - fold (subst1 (placeholder w_BLOCKCOMMENT i) bc2 (X ++ Z)). rewrite (subst1_pre_b X i bc2 Z HX).
    destruct (snd (subst1 (placeholder w_BLOCKCOMMENT i) bc2 Z)); [|apply IH].
    fold (subst (placeholder w_BLOCKCOMMENT i) bc (X ++ fst (subst1 (placeholder w_BLOCKCOMMENT i) bc2 Z))).
    rewrite (subst_pre_b X i bc _ HX). apply IH.
  - fold (subst (placeholder w_BLOCKCOMMENT i) bc2 (X ++ Z)). rewrite (subst_pre_b X i bc2 Z HX).
    destruct (snd (subst (placeholder w_BLOCKCOMMENT i) bc2 Z)); apply IH.
Qed.

(* the later passes on a text that begins with the default header *)
Lemma foam_passes_keep_header s (Z : list N) :
  remove_trailing_spaces (insert_line_comments (sd_lc s) (insert_includes foam_format_string (sd_inc s) (foam_header ++ Z))) =
  foam_header ++ remove_trailing_spaces (insert_line_comments (sd_lc s) (insert_includes foam_format_string (sd_inc s) Z)).
Proof.
  rewrite (insert_includes_pre _ _ foam_header_phless), (insert_line_comments_pre _ foam_header_phless).
  rewrite (rts_app _ _ foam_header_ends_lf). destruct foam_header_chars as (_ & _ & _ & _ & _ & _ & ->). reflexivity.
Qed.

Lemma foam_default_empty : foam_make_default_block_comment [] = foam_header.
Proof. vm_compute. reflexivity. Qed.

(* the body FoamFormatter lays out for s (underscore keys removed, placeholders still in) *)
Definition sd_foam_body (s : sdict) : str := foam_body (stripped (sd_data s)).

Lemma foam_to_string_sd_eq s :
  foam_to_string_sd s =
  remove_trailing_spaces (insert_line_comments (sd_lc s) (insert_includes foam_format_string (sd_inc s)
    (insert_block_comments foam_make_default_block_comment (sd_bc s) (sd_foam_body s)))).
Proof. reflexivity. Qed.

(* (a) the formatted body does not begin with a block comment placeholder that is in the table (in particular: no block
   comments at all): the default header is put in front and nothing after it touches it.  Any data, any tables. *)
Theorem sd_banner_default s : header_key (sd_bc s) (sd_foam_body s) = None ->
  foam_to_string_sd s =
  foam_header ++
  remove_trailing_spaces (insert_line_comments (sd_lc s) (insert_includes foam_format_string (sd_inc s)
    (insert_blocks foam_make_default_block_comment None (sd_bc s) [] (sd_foam_body s)))).
Proof.
  intros Hk. rewrite foam_to_string_sd_eq. unfold insert_block_comments. rewrite Hk, foam_default_empty.
  apply foam_passes_keep_header.
Qed.

Lemma header_key_nil body : header_key [] body = None.
Proof.
  unfold header_key. destruct (starts_with w_BLOCKCOMMENT body && all_digits_n 6 (drop_n (length w_BLOCKCOMMENT) body)); [|reflexivity].
  destruct (match_ph_pair _ body); reflexivity.
Qed.

Lemma header_key_some_none bcs : header_key bcs [] = None.
Proof. reflexivity. Qed.

(* no comments, no includes: header, then the plain Foam text *)
Theorem sd_text_plain s : sd_lc s = [] -> sd_bc s = [] -> sd_inc s = [] ->
  foam_to_string_sd s = foam_header ++ foam_to_string_plain (sd_data s).
Proof.
  intros Hl Hb Hi. rewrite (sd_banner_default s) by (rewrite Hb; apply header_key_nil).
  rewrite Hl, Hb, Hi. reflexivity.
Qed.

(* (b) the formatted body begins with the placeholder of the FIRST block comment of the table (what the reader
   returns for a file that begins with a block comment), and that comment is not itself an OpenFOAM header (C++ mark
   and the word OpenFOAM): the default header is put in front of it (or replaces it, when it carries the C++ mark
   but not the word OpenFOAM). *)
Definition own_foam_header (bc : str) : bool := has_cpp_mark bc && contains (of_string "OpenFOAM") bc.

Lemma foam_header_has_word : contains (of_string "OpenFOAM") foam_header = true.
Proof. vm_compute. reflexivity. Qed.

Lemma foam_default_not_own bc : own_foam_header bc = false ->
  exists r, foam_make_default_block_comment bc = foam_header ++ r.
Proof.
  unfold own_foam_header, foam_make_default_block_comment. intros H. destruct (has_cpp_mark bc).
  - cbn [andb] in H. rewrite H. exists []. rewrite app_nil_r. reflexivity.
  - rewrite (contains_app_l _ _ bc foam_header_has_word). exists bc. reflexivity.
Qed.

Lemma header_key_some bcs body i : header_key bcs body = Some i ->
  exists rest, match_ph_pair (placeholder w_BLOCKCOMMENT i) body = Some rest.
Proof.
  unfold header_key. destruct (starts_with w_BLOCKCOMMENT body && all_digits_n 6 (drop_n (length w_BLOCKCOMMENT) body)); [|discriminate].
  set (j := dec_to_N (take_n 6 (drop_n (length w_BLOCKCOMMENT) body))).
  destruct (match_ph_pair (placeholder w_BLOCKCOMMENT j) body) as [rest|] eqn:E; [|discriminate].
  destruct (tlookup j bcs); [|discriminate]. intros H. injection H as <-. exists rest. exact E.
Qed.

Theorem sd_banner_own_first s i bc bcs : sd_bc s = (i, bc) :: bcs ->
  header_key (sd_bc s) (sd_foam_body s) = Some i -> own_foam_header bc = false ->
  exists rest, foam_to_string_sd s = foam_header ++ rest.
Proof.
  intros Eb Hk Hown. destruct (header_key_some _ _ _ Hk) as [rest Hm]. destruct (foam_default_not_own bc Hown) as [r Er].
  rewrite foam_to_string_sd_eq. unfold insert_block_comments. rewrite Hk, Eb. cbn [insert_blocks]. cbv zeta.
  rewrite N.eqb_refl.
  assert (Hc : contains (foam_make_default_block_comment bc) [] = false).
  { apply contains_nil_r. rewrite Er. intros E. apply (f_equal (@length N)) in E. rewrite app_length in E.
    assert (0 < length foam_header)%nat by (vm_compute; lia). cbn [length] in E. lia. }
  rewrite Hc. fold (subst1 (placeholder w_BLOCKCOMMENT i) (foam_make_default_block_comment bc) (sd_foam_body s)).
  rewrite (subst1_hit _ _ _ _ Hm). rewrite Er, <- app_assoc.
  fold (subst (placeholder w_BLOCKCOMMENT i) bc (foam_header ++ r ++ rest)).
  rewrite (subst_pre_b foam_header i bc _ foam_header_phless).
  destruct (insert_blocks_pre foam_make_default_block_comment (Some i) foam_header foam_header_phless bcs
              ([] ++ (foam_header ++ r) ++ bc) (fst (subst (placeholder w_BLOCKCOMMENT i) bc (r ++ rest)))) as [Z' ->].
  rewrite foam_passes_keep_header. eexists. reflexivity.
Qed.

(* ================================================================================================ *)
(* 3. the lexer on  header ++ text                                                                  *)
(* ================================================================================================ *)

(* Lexer.lex in two halves: the comment / include passes (front), and the rest *)
Definition lex_front (comments : bool) (dir : str) (count : Z) (text : str)
  : str * Z * list (N * str) * list (N * str) * list (N * include_entry) :=
  let lines := splitlines text in
  let '(l1, c1, lc) := extract_line_comments comments count lines in
  let '(l2, c2, inc) := extract_includes dir c1 l1 in
  let (b1, bc) := extract_block_comments comments (concat l2) in
  (remove_line_endings b1, c2, lc, bc, inc).
Definition lex_tail (c2 : Z) (b2 : str) (lc bc : list (N * str)) (inc : list (N * include_entry)) : lexed :=
  let '(b3, c3, lit) := extract_string_literals c2 b2 in
  let '(b4, c4, ex) := extract_expressions c3 b3 in
  let b5 := separate_delimiters b4 in
  mkLexed (tokenize b5) c4 lc bc inc ex lit.
(* what the literal scanner is run on, and with which counter *)
Definition scan_input (comments : bool) (dir : str) (count : Z) (text : str) : str :=
  let '(b2, _, _, _, _) := lex_front comments dir count text in b2.
Definition scan_count (comments : bool) (dir : str) (count : Z) (text : str) : Z :=
  let '(_, c2, _, _, _) := lex_front comments dir count text in c2.

Lemma lex_halves comments dir count text :
  lex comments dir count text =
  let '(b2, c2, lc, bc, inc) := lex_front comments dir count text in lex_tail c2 b2 lc bc inc.
Proof.
  unfold lex, lex_front, lex_tail. cbv zeta.
  destruct (extract_line_comments comments count (splitlines text)) as [[l1 c1] lc].
  destruct (extract_includes dir c1 l1) as [[l2 c2] inc].
  destruct (extract_block_comments comments (concat l2)) as [b1 bc]. reflexivity.
Qed.

(* the literal table of the lexer is the one the scan of scan_input builds: every text *)
Lemma lex_lit_scan comments dir count text :
  lxd_lit (lex comments dir count text) =
  snd (scan_literals (S (length (scan_input comments dir count text))) false (scan_count comments dir count text) [] []
         (scan_input comments dir count text)).
Proof.
  rewrite lex_halves. unfold scan_input, scan_count.
  destruct (lex_front comments dir count text) as [[[[b2 c2] lc] bc] inc].
  unfold lex_tail, extract_string_literals.
  destruct (scan_literals (S (length b2)) false c2 [] [] b2) as [[b3 c3] lit].
  destruct (extract_expressions c3 b3) as [[b4 c4] ex]. reflexivity.
Qed.

(* what is left of the header once the banner and the rule are lifted out *)
Definition hdr_mid (n : N) : str := bph 0 ++ [c_lf] ++ foam_file_block ++ lph n ++ [c_lf].

Lemma hdr_mid_tchars n : forallb tchar (hdr_mid n) = true.
Proof.
  unfold hdr_mid. apply tc_app; [apply cph_tchars; right; reflexivity|]. apply tc_app; [reflexivity|].
  apply tc_app; [vm_compute; reflexivity|]. apply tc_app; [apply cph_tchars; left; reflexivity|reflexivity].
Qed.

(* the lines of the header *)
Definition hdr_lines14 : list str := removelast (splitlines foam_header).
Lemma hdr_lines : splitlines foam_header = hdr_lines14 ++ [foam_rule ++ [c_lf]].
Proof. vm_compute. reflexivity. Qed.
Lemma hdr_lines14_concat : concat hdr_lines14 = foam_banner ++ [c_lf] ++ foam_file_block.
Proof. vm_compute. reflexivity. Qed.
Lemma forallb_Forall {A} (p : A -> bool) (l : list A) : forallb p l = true -> Forall (fun x => p x = true) l.
Proof. intros H. apply Forall_forall. intros x Hx. exact (proj1 (forallb_forall p l) H x Hx). Qed.
Lemma hdr_lines14_nocomment : Forall (fun l => nopair c_slash c_slash l = true) hdr_lines14.
Proof. apply forallb_Forall. vm_compute. reflexivity. Qed.
Lemma hdr_lines14_noinclude : Forall (fun l => include_line_rest l = None) hdr_lines14.
Proof.
  assert (H : forallb not_include hdr_lines14 = true) by (vm_compute; reflexivity).
  apply forallb_Forall in H. revert H. apply Forall_impl. intros l Hl. unfold not_include in Hl.
  destruct (include_line_rest l); [discriminate Hl|reflexivity].
Qed.

Lemma replace_all_no_opener r new : forall R : list N, nopair c_slash c_star R = true ->
  replace_all (c_slash :: c_star :: r) new R = R.
Proof.
  induction R as [|x R IH]; intros H; [apply replace_all_nil|].
  change (x :: R) with ([x] ++ R). rewrite replace_all_skip; [|discriminate|].
  - rewrite (IH (nopair_tail _ _ _ _ H)). reflexivity.
  - intros i Hi. cbn [length] in Hi. assert (i = 0%nat) by lia. subst i. cbn [drop_n app].
    destruct R as [|y R]; cbn [starts_with]; [destruct (c_slash =? x); reflexivity|].
    cbn [nopair] in H. apply andb_true_iff in H. destruct H as [H _]. apply negb_true_iff in H.
    rewrite (N.eqb_sym c_slash x), (N.eqb_sym c_star y).
    destruct (x =? c_slash); [|reflexivity]. cbn [andb] in H |- *. rewrite H. reflexivity.
Qed.

Lemma rule_line_comment c :
  extract_line_comment true c (foam_rule ++ [c_lf]) =
  (lph (Z.to_N (counter_next c)) ++ [c_lf], counter_next c, Some (Z.to_N (counter_next c), foam_rule)).
Proof.
  unfold extract_line_comment.
  replace (chomp_lf (foam_rule ++ [c_lf])) with (foam_rule, [c_lf]) by (vm_compute; reflexivity).
  replace (find_comment false [] foam_rule) with (Some (@nil N, foam_rule)) by (vm_compute; reflexivity).
  cbv iota beta zeta. fold (lph (Z.to_N (counter_next c))). reflexivity.
Qed.

Lemma lph_line_noinclude n : include_line_rest (lph n ++ [c_lf]) = None.
Proof. reflexivity. Qed.

Lemma bcgood_banner : bcgood foam_banner = true /\ bc_scan foam_banner = true.
Proof. vm_compute. split; reflexivity. Qed.

(* a text without comments, includes and carriage returns *)
Definition inert_text (T : str) : Prop :=
  has_char c_cr T = false /\
  Forall (fun l => nopair c_slash c_slash l = true) (splitlines T) /\
  Forall (fun l => include_line_rest l = None) (splitlines T) /\
  nopair c_slash c_star T = true.

Theorem lex_front_header dir count T : inert_text T ->
  lex_front true dir count (foam_header ++ T) =
  (remove_line_endings (hdr_mid (Z.to_N (counter_next count)) ++ T), counter_next count,
   [(Z.to_N (counter_next count), foam_rule)], [(0, foam_banner)], []).
Proof.
  intros (Hcr & Hl1 & Hl2 & Hb). set (k := counter_next count). set (n := Z.to_N k).
  destruct foam_header_chars as (_ & _ & _ & _ & _ & Hhcr & _).
  unfold lex_front. cbv zeta.
  rewrite (splitlines_app foam_header T foam_header_ends_lf Hhcr), hdr_lines, <- app_assoc.
  (* line comments *)
  rewrite elc_elcL, elcL_app, (elcL_inert true hdr_lines14 hdr_lines14_nocomment count).
  change ([foam_rule ++ [c_lf]] ++ splitlines T) with ((foam_rule ++ [c_lf]) :: splitlines T).
  cbn [elcL]. rewrite rule_line_comment. fold k n. rewrite (elcL_inert true (splitlines T) Hl1 k).
  cbn [app ins tupdate fold_left tset fst snd].
  (* includes *)
  rewrite (extract_includes_none' dir (hdr_lines14 ++ (lph n ++ [c_lf]) :: splitlines T)).
  2:{ apply Forall_app. split; [exact hdr_lines14_noinclude|]. constructor; [apply lph_line_noinclude|exact Hl2]. }
  (* the text again *)
  rewrite concat_app, hdr_lines14_concat. cbn [concat].
  assert (HT : concat (splitlines T) = T) by (exact (concat_splitlines T Hcr [])). rewrite HT.
  set (X := [c_lf] ++ foam_file_block ++ lph n ++ [c_lf]).
  assert (Eb : (foam_banner ++ [c_lf] ++ foam_file_block) ++ (lph n ++ [c_lf]) ++ T = foam_banner ++ X ++ T).
  { unfold X. rewrite <- !app_assoc. reflexivity. }
  rewrite Eb.
  assert (HXt : forallb tchar X = true).
  { unfold X. apply tc_app; [reflexivity|]. apply tc_app; [vm_compute; reflexivity|].
    apply tc_app; [apply cph_tchars; left; reflexivity|reflexivity]. }
  assert (HXs : has_char c_slash X = false) by (apply (tchars_no _ _ HXt); reflexivity).
  assert (HXT : nopair c_slash c_star (X ++ T) = true).
  { apply nopair_app_l; [apply nopair_nochar; exact HXs|exact Hb|].
    intros r Hr. rewrite Hr, has_char_app' in HXs. cbn in HXs. rewrite orb_true_r in HXs. discriminate HXs. }
  (* block comments *)
  destruct bcgood_banner as [Hg Hs].
  unfold extract_block_comments. fold (fbc (foam_banner ++ X ++ T)).
  rewrite (fbc_hit foam_banner (X ++ T) Hs). unfold fbc. rewrite (find_block_nopair _ (X ++ T) HXT).
  cbn [number_from fold_left fst snd].
  rewrite replace_all_hit by (vm_compute; discriminate).
  destruct (bcgood_inv foam_banner Hg) as (r & Er & _).
  pose proof (replace_all_no_opener r (placeholder w_BLOCKCOMMENT 0) (X ++ T) HXT) as Hr. rewrite <- Er in Hr. rewrite Hr.
  unfold hdr_mid, X. fold (bph 0). rewrite <- !app_assoc. reflexivity.
Qed.

(* the rest of the pipeline on a text filled with literals: the same for the two ways of writing a literal *)
Lemma lex_tail_filled_dq c (A : list N) ls lc bc inc :
  forallb achar A = true -> Forall flit ls -> nh A = length ls ->
  lex_tail c (remove_line_endings (expandL (map dq ls) A)) lc bc inc =
  mkLexed (tokenize (separate_delimiters (expandL (map PH (ids c (length ls))) (remove_line_endings A))))
          (cafter c (length ls)) lc bc inc [] (tupdate [] (combine (ids c (length ls)) ls)).
Proof.
  intros HA Hls Hn.
  assert (Hsol : Forall solid (map dq ls)).
  { apply Forall_map_iff. revert Hls. apply Forall_impl. intros s Hs. exact (litform_solid _ (flit_litform s Hs)). }
  pose proof (achar_rle A HA) as HA2.
  assert (Hn2 : nh (remove_line_endings A) = length ls) by (rewrite nh_rle; exact Hn).
  assert (Hw : Forall dlit ls) by (revert Hls; apply Forall_impl; exact flit_dlit).
  assert (Ht4 : forallb tchar (expandL (map PH (ids c (length ls))) (remove_line_endings A)) = true).
  { apply expandL_tchars; [exact HA2| |rewrite map_length, ids_length, Hn2; lia].
    apply Forall_map_iff. apply Forall_forall. intros k _. apply PH_tchars. }
  unfold lex_tail. rewrite (rle_expand A _ Hsol). unfold extract_string_literals.
  rewrite (scan_expand_dq (remove_line_endings A) ls _ c [] [] Hw HA2 Hn2 (Nat.le_succ_diag_r _)).
  cbn [rev app].
  rewrite (extract_expressions_none _ _ (tchars_no c_dq _ Ht4 eq_refl) (tchars_no c_dollar _ Ht4 eq_refl)).
  reflexivity.
Qed.

Lemma lex_tail_filled c (A : list N) ls lc bc inc :
  forallb achar A = true -> Forall qlit ls -> nh A = length ls ->
  lex_tail c (remove_line_endings (expandL (map format_string ls) A)) lc bc inc =
  mkLexed (tokenize (separate_delimiters (expandL (map PH (ids c (length ls))) (remove_line_endings A))))
          (cafter c (length ls)) lc bc inc [] (tupdate [] (combine (ids c (length ls)) ls)).
Proof.
  intros HA Hls Hn.
  assert (Hsol : Forall solid (map format_string ls)) by exact (qlits_solid _ Hls).
  pose proof (achar_rle A HA) as HA2.
  assert (Hn2 : nh (remove_line_endings A) = length ls) by (rewrite nh_rle; exact Hn).
  assert (Hw : Forall wlit ls) by (revert Hls; apply Forall_impl; exact qlit_wlit).
  assert (Ht4 : forallb tchar (expandL (map PH (ids c (length ls))) (remove_line_endings A)) = true).
  { apply expandL_tchars; [exact HA2| |rewrite map_length, ids_length, Hn2; lia].
    apply Forall_map_iff. apply Forall_forall. intros k _. apply PH_tchars. }
  unfold lex_tail. rewrite (rle_expand A _ Hsol). unfold extract_string_literals.
  rewrite (scan_expand (remove_line_endings A) ls _ c [] [] Hw HA2 Hn2 (Nat.le_succ_diag_r _)).
  cbn [rev app].
  rewrite (extract_expressions_none _ _ (tchars_no c_dq _ Ht4 eq_refl) (tchars_no c_dollar _ Ht4 eq_refl)).
  reflexivity.
Qed.

(* a filled text is inert *)
Lemma filled_inert (A : list N) fs : forallb achar A = true -> Forall litform fs -> inert_text (expandL fs A).
Proof.
  intros HA Hlf. set (W := expandL fs A).
  assert (Hcr : has_char c_cr W = false).
  { apply forallb_nochar. unfold W. apply expandL_forallb.
    - apply achar_ne; [reflexivity|exact HA].
    - revert Hlf. apply Forall_impl. intros f Hf. apply (litform_chars _ f Hf).
      + intros q Hq. destruct (quote_facts q Hq) as (_ & _ & _ & _ & _ & _ & B). rewrite B. reflexivity.
      + intros c Hc. destruct (lit_char_facts c Hc) as (_ & _ & B & _). rewrite B. reflexivity. }
  assert (Hcat : concat (splitlines W) = W) by (exact (concat_splitlines W Hcr [])).
  split; [exact Hcr|]. split; [|split].
  - apply nopair_lines. rewrite Hcat. unfold W. apply nopair_expand; [left; reflexivity|exact HA|exact Hlf].
  - unfold splitlines, W. apply includes_expand; [exact HA|exact Hlf|left; constructor].
  - unfold W. apply nopair_expand; [right; reflexivity|exact HA|exact Hlf].
Qed.

(* the lexer on header ++ filled text, for either way of writing the literals *)
Definition sd_lexed (count : Z) (A : list N) (ls : list str) : lexed :=
  let k := counter_next count in
  mkLexed (tokenize (separate_delimiters (expandL (map PH (ids k (length ls))) (remove_line_endings (hdr_mid (Z.to_N k) ++ A)))))
          (cafter k (length ls)) [(Z.to_N k, foam_rule)] [(0, foam_banner)] [] [] (tupdate [] (combine (ids k (length ls)) ls)).

Theorem lex_header_filled_dq dir count (A : list N) ls :
  forallb achar A = true -> Forall flit ls -> nh A = length ls ->
  lex true dir count (foam_header ++ expandL (map dq ls) A) = sd_lexed count A ls.
Proof.
  intros HA Hls Hn.
  assert (Hlf : Forall litform (map dq ls)) by (apply Forall_map_iff; revert Hls; apply Forall_impl; exact flit_litform).
  rewrite lex_halves, (lex_front_header dir count _ (filled_inert A _ HA Hlf)).
  set (k := counter_next count). pose proof (hdr_mid_tchars (Z.to_N k)) as Hm.
  rewrite <- (exp_plain (map dq ls) (hdr_mid (Z.to_N k)) A Hm).
  apply lex_tail_filled_dq; [|exact Hls|].
  - rewrite forallb_app, HA, andb_true_r. apply forallb_forall. intros c Hc. unfold achar. rewrite (forallb_In _ _ _ Hm Hc). reflexivity.
  - destruct (aok_plain_app (length ls) (hdr_mid (Z.to_N k)) A Hm (conj HA Hn)) as [_ H]. exact H.
Qed.

Theorem lex_header_filled dir count (A : list N) ls :
  forallb achar A = true -> Forall qlit ls -> nh A = length ls ->
  lex true dir count (foam_header ++ expandL (map format_string ls) A) = sd_lexed count A ls.
Proof.
  intros HA Hls Hn.
  assert (Hlf : Forall litform (map format_string ls)).
  { apply Forall_map_iff. revert Hls. apply Forall_impl. exact qlit_litform. }
  rewrite lex_halves, (lex_front_header dir count _ (filled_inert A _ HA Hlf)).
  set (k := counter_next count). pose proof (hdr_mid_tchars (Z.to_N k)) as Hm.
  rewrite <- (exp_plain (map format_string ls) (hdr_mid (Z.to_N k)) A Hm).
  apply lex_tail_filled; [|exact Hls|].
  - rewrite forallb_app, HA, andb_true_r. apply forallb_forall. intros c Hc. unfold achar. rewrite (forallb_In _ _ _ Hm Hc). reflexivity.
  - destruct (aok_plain_app (length ls) (hdr_mid (Z.to_N k)) A Hm (conj HA Hn)) as [_ H]. exact H.
Qed.

(* ================================================================================================ *)
(* 4. the written text of an SDict without comments and includes; its literals                      *)
(* ================================================================================================ *)

(* header, then the abstract body of the stripped tree with every hole filled by a double-quoted literal *)
Lemma sd_text_filled s : sd_lc s = [] -> sd_bc s = [] -> sd_inc s = [] -> foam_writable_tree (Dict (sd_data s)) = true ->
  let kvs' := stripped (sd_data s) in let A := remove_trailing_spaces (abody kvs') in
  foam_to_string_sd s = foam_header ++ expandL (map dq (qstrs (Dict kvs'))) A /\
  forallb achar A = true /\ nh A = length (qstrs (Dict kvs')) /\ Forall flit (qstrs (Dict kvs')) /\
  ktree foam_leaf (Dict kvs') = true.
Proof.
  intros Hl Hb Hi Hf kvs' A.
  pose proof (foam_strip_ktree (Dict (sd_data s)) Hf) as Hs. rewrite strip_dict in Hs. fold kvs' in Hs.
  pose proof (foam_leaf_ktree_writable _ Hs) as Hw.
  destruct (Qa_all (Dict kvs') Hw 0%nat false) as [Ha Hn]. rewrite gfmt_dict in Ha, Hn. fold (abody kvs') in Ha, Hn.
  split; [|split; [|split; [|split]]].
  - rewrite (sd_text_plain s Hl Hb Hi), foam_text_stripped. fold kvs'. rewrite (foam_written_filled kvs' Hs). reflexivity.
  - apply forallb_rts. exact Ha.
  - unfold A. rewrite nh_rts. exact Hn.
  - apply qstrs_flit. exact Hs.
  - exact Hs.
Qed.

Theorem sd_literals_double_quoted : forall s dirc count,
  sd_lc s = [] -> sd_bc s = [] -> sd_inc s = [] -> foam_writable_tree (Dict (sd_data s)) = true ->
  let text := foam_to_string_sd s in
  let scanned := scan_input true dirc count text in
  let run := scan_trace (S (length scanned)) false (scan_count true dirc count text) [] [] scanned in
  scanned = remove_line_endings (hdr_mid (Z.to_N (counter_next count)) ++ foam_to_string_plain (sd_data s)) /\
  scan_count true dirc count text = counter_next count /\
  lxd_lit (lex true dirc count text) = snd (fst run) /\
  snd run = map (fun x => (c_dq, dq x)) (qstrs (strip_us (Dict (sd_data s)))) /\
  Forall (fun e => fst e = c_dq) (snd run).
Proof.
  intros s dirc count Hl Hb Hi Hf. cbv zeta.
  destruct (sd_text_filled s Hl Hb Hi Hf) as (Et & HA & Hn & Hfl & Hs). cbv zeta in Et, HA, Hn, Hfl, Hs.
  rewrite strip_dict. set (kvs' := stripped (sd_data s)) in *. set (A := remove_trailing_spaces (abody kvs')) in *.
  set (ls := qstrs (Dict kvs')) in *. set (k := counter_next count).
  assert (Hlf : Forall litform (map dq ls)) by (apply Forall_map_iff; revert Hfl; apply Forall_impl; exact flit_litform).
  assert (Hsol : Forall solid (map dq ls)) by (revert Hlf; apply Forall_impl; exact litform_solid).
  pose proof (lex_front_header dirc count _ (filled_inert A _ HA Hlf)) as Efr. fold k in Efr.
  assert (Esc : scan_input true dirc count (foam_to_string_sd s) = remove_line_endings (hdr_mid (Z.to_N k) ++ expandL (map dq ls) A)).
  { unfold scan_input. rewrite Et, Efr. reflexivity. }
  assert (Ecn : scan_count true dirc count (foam_to_string_sd s) = k).
  { unfold scan_count. rewrite Et, Efr. reflexivity. }
  assert (Epl : foam_to_string_plain (sd_data s) = expandL (map dq ls) A).
  { rewrite foam_text_stripped. fold kvs'. exact (foam_written_filled kvs' Hs). }
  split; [rewrite Esc, Epl; reflexivity|]. split; [exact Ecn|].
  split; [rewrite lex_lit_scan, <- scan_trace_fst; reflexivity|].
  rewrite Esc, Ecn. pose proof (hdr_mid_tchars (Z.to_N k)) as Hm.
  rewrite <- (exp_plain (map dq ls) (hdr_mid (Z.to_N k)) A Hm), (rle_expand _ _ Hsol).
  assert (HA' : forallb achar (hdr_mid (Z.to_N k) ++ A) = true).
  { rewrite forallb_app, HA, andb_true_r. apply forallb_forall. intros c Hc. unfold achar. rewrite (forallb_In _ _ _ Hm Hc). reflexivity. }
  assert (Hn' : nh (hdr_mid (Z.to_N k) ++ A) = length ls).
  { destruct (aok_plain_app (length ls) (hdr_mid (Z.to_N k)) A Hm (conj HA Hn)) as [_ H]. exact H. }
  rewrite (trace_expand (remove_line_endings (hdr_mid (Z.to_N k) ++ A)) ls _ k [] []).
  - cbn [snd]. split; [reflexivity|]. apply Forall_forall. intros e He. apply in_map_iff in He. destruct He as (x & <- & _). reflexivity.
  - revert Hfl. apply Forall_impl. exact flit_dlit.
  - apply achar_rle. exact HA'.
  - rewrite nh_rle. exact Hn'.
  - apply Nat.le_succ_diag_r.
Qed.

(* the text itself: the header has no quote character; what follows is the plain Foam text of C10_text_shape *)
Theorem sd_text_shape : forall s, sd_lc s = [] -> sd_bc s = [] -> sd_inc s = [] -> foam_writable_tree (Dict (sd_data s)) = true ->
  exists A, foam_to_string_sd s = foam_header ++ expandL (map dq (qstrs (strip_us (Dict (sd_data s))))) A /\
            forallb (fun c => negb (is_quote c)) (foam_header ++ A) = true /\
            nh A = length (qstrs (strip_us (Dict (sd_data s)))) /\
            Forall (fun x => no_dq x = true) (qstrs (strip_us (Dict (sd_data s)))).
Proof.
  intros s Hl Hb Hi Hf. destruct (foam_text_shape (sd_data s) Hf) as (A & E & HA & Hn & Hd). exists A.
  split; [rewrite (sd_text_plain s Hl Hb Hi), E; reflexivity|]. split; [|split; assumption].
  rewrite forallb_app. apply andb_true_iff. split; [vm_compute; reflexivity|exact HA].
Qed.

(* ================================================================================================ *)
(* 5. the round trip                                                                                *)
(* ================================================================================================ *)

(* ---- a document of the writer domain has no comment entries -------------------------------------- *)
Definition plain_facts (t : tree) : Prop :=
  cstrip t = t /\ (forall g f, cmapg g f t = map_leaves f t) /\
  (forall lvl, cms_of (events lvl t) = [] /\ lits (events lvl t) = match t with Dict _ => qstrs t | _ => [] end) /\
  match t with Dict _ => cshape t = true | _ => True end.

Lemma plain_doc : forall t, ktree writable_leaf t = true -> plain_facts t.
Proof.
  induction t as [v|kvs IH|ts IH] using tree_ind'; intros H.
  - repeat split; reflexivity.
  - induction IH as [|[k c] kvs Hc _ IHk].
    + repeat split; reflexivity.
    + rewrite ktree_dict_cons in H. apply andb_true_iff in H. destruct H as [H H3].
      apply andb_true_iff in H. destruct H as [Hk H2]. cbn [snd] in Hc.
      destruct (IHk H3) as (T1 & T2 & T3 & T4). specialize (Hc H2). destruct Hc as (C1 & C2 & C3 & C4).
      pose proof (cm_entry_simple k c Hk) as Ecm.
      split; [|split; [|split]].
      * rewrite cstrip_dict in *. cbn [flat_map]. injection T1 as T1. rewrite T1. unfold cstrip_entry. rewrite Ecm. cbn [fst snd app].
        destruct c as [v|d|l]; [reflexivity| |reflexivity]. rewrite C1. reflexivity.
      * intros g f. specialize (T2 g f). rewrite cmapg_dict, TokProofs.map_leaves_dict in *. cbn [map]. injection T2 as T2. rewrite T2.
        unfold cmap_entry, TokProofs.mkv at 1. rewrite Ecm. cbn [fst snd]. destruct c as [v|d|l]; [reflexivity| |reflexivity].
        rewrite (C2 g f). reflexivity.
      * intros lvl. destruct (T3 lvl) as [T3a T3b]. rewrite events_cons, cms_of_app, lits_app, T3a, T3b, qstrs_dict_cons.
        unfold entry_events. rewrite Ecm. cbn [fst snd]. destruct c as [v|d|l].
        -- split; [reflexivity|]. cbn [lits flat_map ev_lits qstrs]. rewrite app_nil_r. reflexivity.
        -- destruct (C3 (S lvl)) as [C3a C3b]. split.
           ++ cbn [cms_of ev_cm]. rewrite cms_of_app, C3a. reflexivity.
           ++ change (EOpen lvl k :: events (S lvl) (Dict d) ++ [EClose lvl]) with ([EOpen lvl k] ++ events (S lvl) (Dict d) ++ [EClose lvl]).
              rewrite !lits_app, C3b. cbn [lits flat_map ev_lits app]. rewrite app_nil_r. reflexivity.
        -- split; [reflexivity|]. cbn [lits flat_map ev_lits app]. rewrite app_nil_r. reflexivity.
      * rewrite cshape_cons, T4, andb_true_r. unfold cshape_entry. rewrite Ecm. cbn [fst snd]. rewrite Hk. cbn [andb].
        destruct c as [v|d|l]; [exact H2|exact C4|exact H2].
  - repeat split; reflexivity.
Qed.

(* the comment-line text of a plain document is the formatted body *)
Lemma cat_plain cm1 cm2 : forall es, cms_of es = [] -> cat cm1 es = cat cm2 es.
Proof.
  induction es as [|e es IH]; intros H; [reflexivity|]. rewrite !cat_cons.
  destruct e as [lvl k v|lvl k l|lvl k|lvl|lvl n x]; cbn [cms_of ev_cm] in H; try (rewrite (IH H); reflexivity). discriminate H.
Qed.

Lemma plain_text kvs : ktree writable_leaf (Dict kvs) = true ->
  remove_trailing_spaces (cat cm_line (events 0 (Dict kvs))) = to_string_plain kvs.
Proof.
  intros H. destruct (plain_doc (Dict kvs) H) as (_ & _ & E & _). destruct (E 0%nat) as [E1 _].
  unfold to_string_plain, native_body. rewrite (sort_top_keys kvs (ktree_dict_keys _ kvs H)), fmt_events_dict.
  rewrite (cat_plain cm_line cm_pair _ E1). reflexivity.
Qed.

(* ---- the canonical document of the written text ---------------------------------------------------- *)
Definition hdr_doc : list (key * tree) :=
  [(k_bc, Leaf (SStr foam_banner)); (k_FoamFile, foam_file_dict); (k_lc, Leaf (SStr foam_rule))].
Definition sd_doc (kvs : list (key * tree)) : list (key * tree) := hdr_doc ++ kvs.

Lemma hdr_doc_facts :
  cshape (Dict hdr_doc) = true /\ flat_map cstrip_entry hdr_doc = [(k_FoamFile, foam_file_dict)] /\
  cms_of (events 0 (Dict hdr_doc)) = [(0%nat, w_BLOCKCOMMENT, foam_banner); (0%nat, w_LINECOMMENT, foam_rule)] /\
  lits (events 0 (Dict hdr_doc)) = [] /\
  remove_trailing_spaces (cat cm_line (events 0 (Dict hdr_doc))) = foam_header /\
  cm_ok (0%nat, w_BLOCKCOMMENT, foam_banner) = true /\ cm_ok (0%nat, w_LINECOMMENT, foam_rule) = true /\
  ktree writable_leaf foam_file_dict = true /\ map_leaves written_value foam_file_dict = foam_file_dict /\
  wf foam_file_dict = true /\ lw (fun v => negb (simple_leaf v)) 10 foam_file_dict = true.
Proof. vm_compute. repeat split; reflexivity. Qed.

Lemma hdr_doc_text_ends_lf : ends_lf (cat cm_line (events 0 (Dict hdr_doc))).
Proof. right. exists (removelast (cat cm_line (events 0 (Dict hdr_doc)))). vm_compute. reflexivity. Qed.

Definition no_FoamFile_key (kvs : list (key * tree)) : bool := negb (existsb (key_eqb k_FoamFile) (map fst kvs)).

Lemma sd_doc_cms kvs : ktree writable_leaf (Dict kvs) = true ->
  cms (Dict (sd_doc kvs)) = [(0%nat, w_BLOCKCOMMENT, foam_banner); (0%nat, w_LINECOMMENT, foam_rule)].
Proof.
  intros H. destruct (plain_doc (Dict kvs) H) as (_ & _ & E & _). destruct (E 0%nat) as [E1 _].
  destruct hdr_doc_facts as (_ & _ & F & _).
  unfold cms, sd_doc. rewrite events_app, cms_of_app, E1, F. reflexivity.
Qed.

Lemma sd_doc_lits kvs : ktree writable_leaf (Dict kvs) = true -> lit_list (sd_doc kvs) = qstrs (Dict kvs).
Proof.
  intros H. destruct (plain_doc (Dict kvs) H) as (_ & _ & E & _). destruct (E 0%nat) as [_ E2].
  destruct hdr_doc_facts as (_ & _ & _ & F & _).
  unfold lit_list, sd_doc. rewrite events_app, lits_app, E2, F. reflexivity.
Qed.

Lemma sd_doc_lc kvs : ktree writable_leaf (Dict kvs) = true -> lc_list (sd_doc kvs) = [foam_rule].
Proof. intros H. unfold lc_list. rewrite lcx_texts. fold (cms (Dict (sd_doc kvs))). rewrite (sd_doc_cms kvs H). reflexivity. Qed.
Lemma sd_doc_bc kvs : ktree writable_leaf (Dict kvs) = true -> bc_list (sd_doc kvs) = [foam_banner].
Proof. intros H. unfold bc_list. rewrite bcx_texts. fold (cms (Dict (sd_doc kvs))). rewrite (sd_doc_cms kvs H). reflexivity. Qed.

Lemma sd_doc_cstrip kvs : ktree writable_leaf (Dict kvs) = true ->
  cstrip (Dict (sd_doc kvs)) = Dict ((k_FoamFile, foam_file_dict) :: kvs).
Proof.
  intros H. destruct (plain_doc (Dict kvs) H) as (E & _). rewrite cstrip_dict in E. injection E as E.
  destruct hdr_doc_facts as (_ & F & _).
  unfold sd_doc. rewrite cstrip_dict, flat_map_app, E, F. reflexivity.
Qed.

Lemma sd_doc_ok kvs : ktree writable_leaf (Dict kvs) = true -> wf (Dict kvs) = true ->
  quoted_within 11 (Dict kvs) = true -> no_FoamFile_key kvs = true -> cdoc_ok (sd_doc kvs) = true.
Proof.
  intros H Hw Hq Hn. destruct (plain_doc (Dict kvs) H) as (_ & _ & _ & Hs).
  destruct hdr_doc_facts as (F1 & _ & _ & _ & _ & F6 & F7 & _ & _ & F10 & F11).
  unfold cdoc_ok. rewrite (sd_doc_cstrip kvs H).
  assert (A1 : cshape (Dict (sd_doc kvs)) = true).
  { unfold sd_doc, hdr_doc in *. cbn [app]. rewrite !cshape_cons in *. rewrite Hs.
    apply andb_true_iff in F1. destruct F1 as [G1 F1]. apply andb_true_iff in F1. destruct F1 as [G2 F1].
    apply andb_true_iff in F1. destruct F1 as [G3 _]. rewrite G1, G2, G3. reflexivity. }
  assert (A2 : wf (Dict ((k_FoamFile, foam_file_dict) :: kvs)) = true).
  { rewrite KeyPathProofs.wf_dict in *. cbn [map fst keys_nodup forallb snd]. unfold no_FoamFile_key in Hn. rewrite Hn, F10. exact Hw. }
  assert (A3 : quoted_within 11 (Dict ((k_FoamFile, foam_file_dict) :: kvs)) = true).
  { unfold quoted_within in *. rewrite lw_dict in *. cbn [forallb snd Nat.pred]. rewrite F11. exact Hq. }
  assert (A4 : forallb cm_ok (cms (Dict (sd_doc kvs))) = true).
  { rewrite (sd_doc_cms kvs H). cbn [forallb]. rewrite F6, F7. reflexivity. }
  assert (A5 : nodupb (lc_texts (Dict (sd_doc kvs))) = true) by (unfold lc_texts; rewrite (sd_doc_cms kvs H); reflexivity).
  assert (A6 : nodupb (bc_texts (Dict (sd_doc kvs))) = true) by (unfold bc_texts; rewrite (sd_doc_cms kvs H); reflexivity).
  rewrite A1, A2, A3, A4, A5, A6. reflexivity.
Qed.

(* the text of the canonical document: the header, then the NATIVE text of the data *)
Lemma sd_doc_text kvs : ktree writable_leaf (Dict kvs) = true ->
  remove_trailing_spaces (cat cm_line (events 0 (Dict (sd_doc kvs)))) = foam_header ++ to_string_plain kvs.
Proof.
  intros H. destruct hdr_doc_facts as (_ & _ & _ & _ & F & _).
  unfold sd_doc. rewrite events_app, cat_app, (rts_app _ _ hdr_doc_text_ends_lf), F, (plain_text kvs H). reflexivity.
Qed.

(* what the reader makes of it *)
Definition sd_reread_data (n : N) (kvs : list (key * tree)) : list (key * tree) :=
  [(KS (bph 0), Leaf (SStr (bph 0))); (k_FoamFile, foam_file_dict); (KS (lph n), Leaf (SStr (lph n)))] ++ kvs.

Lemma sd_doc_number kvs count : ktree writable_leaf (Dict kvs) = true ->
  number count (sd_doc kvs) =
  mkSD (sd_reread_data (Z.to_N (counter_next count)) (kvs_of (map_leaves written_value (Dict kvs))))
       [(Z.to_N (counter_next count), foam_rule)] [(0, foam_banner)] [] [].
Proof.
  intros H. set (n := Z.to_N (counter_next count)).
  assert (EL : lc_tab count (sd_doc kvs) = [(n, foam_rule)]) by (unfold lc_tab; rewrite (sd_doc_lc kvs H); reflexivity).
  assert (EB : bc_tab (sd_doc kvs) = [(0, foam_banner)]) by (unfold bc_tab; rewrite (sd_doc_bc kvs H); reflexivity).
  unfold number. rewrite EL, EB. f_equal.
  destruct (plain_doc (Dict kvs) H) as (_ & P & _).
  destruct hdr_doc_facts as (_ & _ & _ & _ & _ & _ & _ & F8 & F9 & _).
  destruct (plain_doc foam_file_dict F8) as (_ & PF & _).
  unfold numT, sd_doc. rewrite cmapg_dict, map_app. cbn [kvs_of].
  set (g := gkv (numx [(n, foam_rule)] [(0, foam_banner)]) (numx [(n, foam_rule)] [(0, foam_banner)])).
  specialize (P g written_value). rewrite cmapg_dict, TokProofs.map_leaves_dict in P. injection P as P. rewrite P.
  rewrite TokProofs.map_leaves_dict. cbn [kvs_of]. unfold sd_reread_data. f_equal.
Qed.

(* ---- the lexer cannot tell the Foam text from the native text, with the header in front ------------- *)
Theorem lex_sd_foam kvs dir count : ktree foam_leaf (Dict kvs) = true ->
  lex true dir count (foam_header ++ remove_trailing_spaces (foam_body kvs)) =
  lex true dir count (foam_header ++ to_string_plain kvs).
Proof.
  intros Hs. pose proof (foam_leaf_ktree_writable _ Hs) as Hw.
  destruct (Qa_all (Dict kvs) Hw 0%nat false) as [Ha Hn]. rewrite gfmt_dict in Ha, Hn. fold (abody kvs) in Ha, Hn.
  set (A := remove_trailing_spaces (abody kvs)).
  assert (HA : forallb achar A = true) by (apply forallb_rts; exact Ha).
  assert (HnA : nh A = length (qstrs (Dict kvs))) by (unfold A; rewrite nh_rts; exact Hn).
  rewrite (foam_written_filled kvs Hs), (written_filled kvs Hw). unfold ffill, wfill. fold A.
  rewrite (lex_header_filled_dq dir count A _ HA (qstrs_flit _ Hs) HnA).
  rewrite (lex_header_filled dir count A _ HA (qstrs_qlit _ Hw) HnA). reflexivity.
Qed.

(* ---- write (SDict route), then read ------------------------------------------------------------------ *)
Theorem roundtrip_foam_sd : forall s dirc count,
  sd_lc s = [] -> sd_bc s = [] -> sd_inc s = [] ->
  wf (Dict (sd_data s)) = true -> foam_writable_tree (Dict (sd_data s)) = true -> no_FoamFile_key (sd_data s) = true ->
  (-1 <= count)%Z -> (Z.of_nat (nq (Dict (sd_data s))) <= 1000000)%Z -> quoted_within 11 (Dict (sd_data s)) = true ->
  exists count',
  parse_string true dirc count (foam_to_string_sd s) =
    Ok (mkParsed (mkSD (sd_reread_data (Z.to_N (counter_next count))
                          (kvs_of (map_leaves foam_written_value (strip_us (Dict (sd_data s))))))
                       [(Z.to_N (counter_next count), foam_rule)] [(0, foam_banner)] [] []) count').
Proof.
  intros s dirc count Hl Hb Hi Hw Hf Hnf Hc Hn Hdeep.
  pose proof (foam_strip_ktree (Dict (sd_data s)) Hf) as Hs.
  pose proof (wf_strip_us (Dict (sd_data s)) Hw) as Hw'.
  pose proof (quoted_within_strip_us _ _ Hdeep) as Hdeep'.
  pose proof (nq_strip_us (Dict (sd_data s))) as Hnq.
  rewrite (map_leaves_ext_on foam_leaf foam_written_value written_value foam_written_eq _ Hs).
  rewrite strip_dict in *. set (kvs' := stripped (sd_data s)) in *.
  pose proof (foam_leaf_ktree_writable _ Hs) as Hwr.
  assert (Hnf' : no_FoamFile_key kvs' = true).
  { unfold no_FoamFile_key in *. apply negb_true_iff. apply negb_true_iff in Hnf.
    destruct (existsb (key_eqb k_FoamFile) (map fst kvs')) eqn:E; [|reflexivity].
    rewrite (strip_keys_sub k_FoamFile (sd_data s) E) in Hnf. discriminate Hnf. }
  rewrite (sd_text_plain s Hl Hb Hi), foam_text_stripped. fold kvs'.
  rewrite (parse_string_lex true dirc count _ _ (lex_sd_foam kvs' dirc count Hs)).
  rewrite <- (sd_doc_text kvs' Hwr).
  exists (count_after count (sd_doc kvs')).
  rewrite (reader_canon (sd_doc kvs') dirc count (sd_doc_ok kvs' Hwr Hw' Hdeep' Hnf') Hc).
  - rewrite (sd_doc_number kvs' count Hwr). reflexivity.
  - rewrite (sd_doc_lc kvs' Hwr). cbn [length]. lia.
  - rewrite (sd_doc_bc kvs' Hwr). cbn [length]. lia.
  - rewrite (sd_doc_lits kvs' Hwr). fold (nq (Dict kvs')). lia.
Qed.

(* ================================================================================================ *)
(* 6. data in the Foam writer domain: the default header whatever the tables hold                   *)
(* ================================================================================================ *)

(* the abstract body begins with the first key, followed by a blank or a line feed *)
Lemma abody_head k c kvs : simple_key k = true ->
  exists sp r, (sp = c_sp \/ sp = c_lf) /\ abody ((k, c) :: kvs) = FK k ++ sp :: r.
Proof.
  intros Hk. destruct (simple_key_inv k Hk) as (_ & Hkx & _). unfold abody. cbn [gentries]. destruct c as [v|d|ts].
  - cbn zeta. unfold line, indent_of. change (4 * 0)%nat with 0%nat. unfold spaces at 1. cbn [repeat app].
    destruct (Nat.max 8 (30 - length (FK k) - 0)) as [|m] eqn:E; [lia|].
    exists c_sp. eexists. split; [left; reflexivity|]. unfold spaces. cbn [repeat]. rewrite <- !app_assoc. cbn [app]. reflexivity.
  - rewrite Hkx. unfold line at 1, indent_of. change (4 * 0)%nat with 0%nat. unfold spaces at 1. cbn [repeat app].
    exists c_lf. eexists. split; [right; reflexivity|]. rewrite <- !app_assoc. cbn [app]. reflexivity.
  - rewrite Hkx. unfold line at 1, indent_of. change (4 * 0)%nat with 0%nat. unfold spaces at 1. cbn [repeat app].
    exists c_lf. eexists. split; [right; reflexivity|]. rewrite <- !app_assoc. cbn [app]. reflexivity.
Qed.

(* a prefix made of characters of one class cannot reach beyond a character outside the class *)
Lemma starts_with_stop (q : N -> bool) (P : list N) : forallb q P = true -> forall (F : list N) sp R, q sp = false ->
  starts_with P (F ++ sp :: R) = true -> starts_with P F = true.
Proof.
  induction P as [|p P IH]; intros HP F sp R Hsp H; [destruct F; reflexivity|].
  cbn [forallb] in HP. apply andb_true_iff in HP. destruct HP as [Hp HP].
  destruct F as [|f F].
  - cbn [app starts_with] in H. destruct (p =? sp) eqn:E; [|discriminate H]. apply N.eqb_eq in E. subst p. congruence.
  - cbn [app starts_with] in H |- *. destruct (p =? f); [|discriminate H]. exact (IH HP F sp R Hsp H).
Qed.

Lemma starts_contains (p s : list N) : starts_with p s = true -> contains p s = true.
Proof. intros H. destruct s as [|x s]; cbn [contains]; [destruct p; [reflexivity|discriminate H]|rewrite H; reflexivity]. Qed.

(* the Foam body of a tree of the writer domain does not begin with a block comment placeholder *)
Theorem foam_domain_no_header_key kvs bcs : ktree foam_leaf (Dict kvs) = true -> header_key bcs (foam_body kvs) = None.
Proof.
  intros Hs. destruct kvs as [|[k c] kvs]; [apply (header_key_some_none bcs)|].
  pose proof Hs as Hs0. rewrite ktree_dict_cons in Hs0. apply andb_true_iff in Hs0. destruct Hs0 as [Hs0 _].
  apply andb_true_iff in Hs0. destruct Hs0 as [Hk _].
  destruct (abody_head k c kvs Hk) as (sp & r & Hsp & Eb).
  destruct (simple_key_inv k Hk) as (Hkt & _). destruct (simple_tok_inv _ Hkt) as (_ & Hkc & Hres).
  rewrite (foam_body_filled _ Hs), Eb.
  rewrite (exp_plain _ (FK k) _ (RereadPlain.simple_chars_tchars _ Hkc)).
  assert (Hh : (sp =? HOLE) = false) by (destruct Hsp; subst sp; reflexivity).
  rewrite (expandL_char _ sp r Hh).
  unfold header_key.
  destruct (starts_with w_BLOCKCOMMENT (FK k ++ sp :: expandL (ffill ((k, c) :: kvs)) r)) eqn:E; [|reflexivity]. exfalso.
  assert (Hup : forallb is_upper w_BLOCKCOMMENT = true) by reflexivity.
  assert (Hsq : is_upper sp = false) by (destruct Hsp; subst sp; reflexivity).
  pose proof (starts_with_stop is_upper w_BLOCKCOMMENT Hup (FK k) sp _ Hsq E) as E2.
  apply starts_contains in E2.
  assert (E3 : contains w_COMMENT (FK k) = true).
  { apply (contains_suffix (of_string "BLOCK") w_COMMENT); [discriminate|exact E2]. }
  unfold no_reserved_word in Hres. apply andb_true_iff in Hres. destruct Hres as [Hres _].
  apply andb_true_iff in Hres. destruct Hres as [Hres _]. apply andb_true_iff in Hres. destruct Hres as [Hres _].
  apply negb_true_iff in Hres. congruence.
Qed.

(* (c) data in the Foam writer domain, ANY tables: the default header is written *)
Theorem sd_banner_domain s : foam_writable_tree (Dict (sd_data s)) = true ->
  foam_to_string_sd s =
  foam_header ++
  remove_trailing_spaces (insert_line_comments (sd_lc s) (insert_includes foam_format_string (sd_inc s)
    (insert_blocks foam_make_default_block_comment None (sd_bc s) [] (sd_foam_body s)))).
Proof.
  intros Hf. apply sd_banner_default. unfold sd_foam_body. apply foam_domain_no_header_key.
  rewrite <- strip_dict. apply foam_strip_ktree. exact Hf.
Qed.

Print Assumptions sd_banner_default.
Print Assumptions sd_banner_domain.
Print Assumptions sd_banner_own_first.
Print Assumptions sd_literals_double_quoted.
Print Assumptions sd_text_shape.
Print Assumptions roundtrip_foam_sd.
