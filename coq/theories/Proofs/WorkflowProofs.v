(* Theorems about the workflow model Model/Parse.v: read_opts (DictReader.read with its options), write_sd
   (DictWriter.write) and parse_model (DictParser.parse, the function behind the dictParser command).
   C17: scope spellings select the same sub-dict; C13: the one file a parse creates; C14: scope as a read option. *)
From Coq Require Export String.  (* the Properties files write constants with of_string "..." *)
From DictIO Require Import Chars Str Value Scalar KeyPath SDict Layout Lexer TokParser Reader Expr Eval Cli Parse
  TreeSpec MiscSpec.
From DictIO Require Import ScalarProofs OrderProofs KeyPathProofs SDictProofs CliProofs.
From Coq Require Import NArith ZArith List Bool Lia.   (* after CliProofs (which exports String): the list names win *)
Import ListNotations.
Open Scope N_scope.

(* ================================================================================================ *)
(* C17: the scope argument of the command line, spelled as a word / a list / a quoted list           *)
(* ================================================================================================ *)

(* what the command does with --scope TEXT: _validate_scope, then the API call with the validated list; a
   misspelled list ends the command (the exception of parse_values) *)
Definition with_scope_arg {A} (arg : str) (f : list scalar -> option (res A)) : option (res A) :=
  match validate_scope arg with
  | Ok sc => f sc
  | Raise e => Some (Raise e)
  end.

Lemma scope_keys_strs : forall ks, scope_keys (map SStr ks) = Some (map KS ks).
Proof. induction ks as [|k ks IH]; [reflexivity|]. cbn [map scope_keys scalar_to_key]. rewrite IH. reflexivity. Qed.

Lemma scope_spellings : forall ks, ks <> [] -> Forall scope_word ks ->
  validate_scope (bracketed ks) = Ok (map SStr ks) /\
  validate_scope (quoted_bracketed ks) = Ok (map SStr ks) /\
  (forall k, ks = [k] -> validate_scope k = Ok (map SStr ks)) /\
  scope_keys (map SStr ks) = Some (map KS ks).
Proof.
  intros ks Hne Hw. split; [|split; [|split]].
  - apply scope_list_ok; assumption.
  - apply scope_quoted_ok; assumption.
  - intros k ->. inversion Hw as [|k' l Hk _]; subst. cbn [map]. apply scope_word_ok. exact Hk.
  - apply scope_keys_strs.
Qed.

Lemma scope_spellings_same {A} : forall ks (f : list scalar -> option (res A)), ks <> [] -> Forall scope_word ks ->
  with_scope_arg (bracketed ks) f = f (map SStr ks) /\
  with_scope_arg (quoted_bracketed ks) f = f (map SStr ks) /\
  (forall k, ks = [k] -> with_scope_arg k f = f (map SStr ks)).
Proof.
  intros ks f Hne Hw. destruct (scope_spellings ks Hne Hw) as (H1 & H2 & H3 & _).
  unfold with_scope_arg. rewrite H1, H2. split; [reflexivity|split; [reflexivity|]].
  intros k E. rewrite (H3 k E). reflexivity.
Qed.

(* on DictReader.read and on DictParser.parse: the three spellings give the same outcome (dict, side tables,
   counter; target name and text), namely that of the API call with the list of keys *)
Lemma scope_spellings_same_subdict : forall ks, ks <> [] -> Forall scope_word ks ->
  (forall fs root inc order com c,
     let by_api := read_opts fs root inc order com (map SStr ks) c in
     with_scope_arg (bracketed ks) (fun sc => read_opts fs root inc order com sc c) = by_api /\
     with_scope_arg (quoted_bracketed ks) (fun sc => read_opts fs root inc order com sc c) = by_api /\
     (forall k, ks = [k] -> with_scope_arg k (fun sc => read_opts fs root inc order com sc c) = by_api)) /\
  (forall fs src inc app order com out c,
     let by_api := parse_model fs src inc app order com (map SStr ks) out c in
     with_scope_arg (bracketed ks) (fun sc => parse_model fs src inc app order com sc out c) = by_api /\
     with_scope_arg (quoted_bracketed ks) (fun sc => parse_model fs src inc app order com sc out c) = by_api /\
     (forall k, ks = [k] -> with_scope_arg k (fun sc => parse_model fs src inc app order com sc out c) = by_api)).
Proof.
  intros ks Hne Hw. split.
  - intros fs root inc order com c. cbv zeta.
    exact (scope_spellings_same ks (fun sc => read_opts fs root inc order com sc c) Hne Hw).
  - intros fs src inc app order com out c. cbv zeta.
    exact (scope_spellings_same ks (fun sc => parse_model fs src inc app order com sc out c) Hne Hw).
Qed.

(* ================================================================================================ *)
(* C13: the one file DictParser.parse creates                                                       *)
(* ================================================================================================ *)

(* the file tree after a parse: the target (normalised, as every key of the tree) holds the text *)
Fixpoint fs_write (p : str) (u : funit) (fs : fsys) : fsys :=
  match fs with
  | [] => [(p, u)]
  | (q, u0) :: fs' => if str_eqb p q then (q, u) :: fs' else (q, u0) :: fs_write p u fs'
  end.
Definition apply_parse (fs : fsys) (r : option (res (str * str * Z))) : fsys :=
  match r with
  | Some (Ok (target, txt, _)) => fs_write (norm_path target) (FNative txt) fs
  | _ => fs
  end.

Lemma fs_lookup_write_same : forall fs p u, fs_lookup p (fs_write p u fs) = Some u.
Proof.
  induction fs as [|[q u0] fs IH]; intros p u.
  - cbn [fs_write fs_lookup]. rewrite ScalarProofs.str_eqb_refl. reflexivity.
  - cbn [fs_write]. destruct (str_eqb p q) eqn:E; cbn [fs_lookup]; rewrite E; [reflexivity|apply IH].
Qed.

Lemma fs_lookup_write_other : forall fs p q u, q <> p -> fs_lookup q (fs_write p u fs) = fs_lookup q fs.
Proof.
  induction fs as [|[r u0] fs IH]; intros p q u Hne.
  - cbn [fs_write fs_lookup]. destruct (str_eqb q p) eqn:E; [|reflexivity].
    apply ScalarProofs.str_eqb_eq in E. contradiction.
  - cbn [fs_write]. destruct (str_eqb p r) eqn:E.
    + apply ScalarProofs.str_eqb_eq in E. subst r. cbn [fs_lookup].
      destruct (str_eqb q p) eqn:E2; [|reflexivity]. apply ScalarProofs.str_eqb_eq in E2. contradiction.
    + cbn [fs_lookup]. destruct (str_eqb q r); [reflexivity|]. apply IH. exact Hne.
Qed.

Lemma fs_write_keys : forall fs p u,
  map fst (fs_write p u fs) = map fst fs \/ (fs_lookup p fs = None /\ map fst (fs_write p u fs) = map fst fs ++ [p]).
Proof.
  induction fs as [|[q u0] fs IH]; intros p u.
  - right. split; reflexivity.
  - cbn [fs_write fs_lookup]. destruct (str_eqb p q) eqn:E; [left; reflexivity|].
    destruct (IH p u) as [H|[H1 H2]]; [left|right; split; [exact H1|]]; cbn [map fst app]; f_equal; assumption.
Qed.

(* the target path: directory of the source, derived name *)
Lemma parse_model_inv : forall fs src inc app order com scope output c target txt k,
  parse_model fs src inc app order com scope output c = Some (Ok (target, txt, k)) ->
  target = dir_of src ++ [c_slash] ++ target_file_name (base_name src) (Some w_parsed) scope output /\
  exists foam s c1, read_opts fs src inc order com scope c = Some (Ok (s, c1)) /\
                    write_sd fs foam target app order s c1 = Some (Ok (txt, k)).
Proof.
  intros fs src inc app order com scope output c target txt k H. unfold parse_model in H.
  destruct (output_kind output) as [foam0|]; [|discriminate H].
  destruct (read_opts fs src inc order com scope c) as [[[s c1]|e]|]; [|discriminate H|discriminate H].
  cbv zeta in H.
  change (of_string "parsed") with w_parsed in H.
  set (name := target_file_name (base_name src) (Some w_parsed) scope output) in *.
  destruct (ends_with (of_string ".json") name || ends_with (of_string ".xml") name); [discriminate H|].
  destruct (write_sd fs (foam0 || ends_with (of_string ".foam") name) (dir_of src ++ [c_slash] ++ name) app order s c1)
    as [[[t k']|e]|] eqn:W; [|discriminate H|discriminate H].
  injection H as <- <- <-. split; [reflexivity|].
  exists (foam0 || ends_with (of_string ".foam") name), s, c1. split; [reflexivity|exact W].
Qed.

Lemma parse_model_target : forall fs src inc app order com scope output c target txt k,
  parse_model fs src inc app order com scope output c = Some (Ok (target, txt, k)) ->
  target = dir_of src ++ [c_slash] ++ target_file_name (base_name src) (Some w_parsed) scope output.
Proof. intros. eapply parse_model_inv. eassumption. Qed.

(* ---- shape of the derived name ------------------------------------------------------------------------- *)
Definition scope_suffix (scope : list scalar) : str :=
  match scope with [] => [] | _ => [c_us] ++ join [c_us] (map scalar_text scope) end.
(* the extension: chosen by the output format; without one, the suffix of the source (unless the source is a
   parsed.* file whose suffix has become part of the name) *)
Definition out_ext (output : option str) (ending : str) : str :=
  match output with
  | Some o =>
      if nonempty o then
        let o' := if str_eqb o (of_string "cpp") || str_eqb o (of_string "foam") || str_eqb o (of_string "json")
                     || str_eqb o (of_string "xml") then o else of_string "cpp" in
        if str_eqb o' (of_string "cpp") then [] else c_dot :: o'
      else ending
  | None => ending
  end.

Lemma starts_with_app_sep : forall (p a : list N) x r, ~ In x p -> starts_with p (a ++ x :: r) = true ->
  starts_with p a = true.
Proof.
  induction p as [|y p IH]; intros a x r Hx H; [reflexivity|].
  destruct a as [|z a].
  - cbn [app starts_with] in H. apply andb_true_iff in H. destruct H as [E _]. apply N.eqb_eq in E.
    exfalso. apply Hx. left. exact E.
  - cbn [app starts_with] in *. apply andb_true_iff in H. destruct H as [E H]. rewrite E. cbn [andb].
    apply (IH a x r); [|exact H]. intro Hin. apply Hx. right. exact Hin.
Qed.

Lemma starts_with_app_l : forall (p a r : list N), starts_with p a = true -> starts_with p (a ++ r) = true.
Proof.
  intros p a r H. apply starts_with_split in H. destruct H as [q ->]. rewrite <- app_assoc. apply starts_with_app.
Qed.

Definition strip_parsed (x : str) : str := if starts_with w_parsed_dot x then drop_n (length w_parsed_dot) x else x.

Lemma strip_parsed_scope : forall fname scope,
  strip_parsed (fname ++ scope_suffix scope) = strip_parsed fname ++ scope_suffix scope.
Proof.
  intros fname scope. destruct scope as [|v scope]; [cbn [scope_suffix]; rewrite !app_nil_r; reflexivity|].
  unfold scope_suffix. set (r := join [c_us] (map scalar_text (v :: scope))). clearbody r.
  change ([c_us] ++ r) with (c_us :: r). unfold strip_parsed.
  destruct (starts_with w_parsed_dot (fname ++ c_us :: r)) eqn:E.
  - assert (E' : starts_with w_parsed_dot fname = true).
    { apply (starts_with_app_sep _ fname c_us r); [|exact E]. vm_compute. intuition discriminate. }
    rewrite E'. apply starts_with_split in E'. destruct E' as [q ->].
    rewrite <- app_assoc. rewrite !drop_n_app_length'. reflexivity.
  - destruct (starts_with w_parsed_dot fname) eqn:E'; [|reflexivity].
    rewrite (starts_with_app_l _ _ (c_us :: r) E') in E. discriminate E.
Qed.

Lemma last_dot_split_app : forall s acc st sf, last_dot_split s acc = Some (st, sf) ->
  st ++ sf = rev s ++ acc /\ exists r, sf = c_dot :: r.
Proof.
  induction s as [|c s IH]; intros acc st sf H; [discriminate H|]. cbn [last_dot_split] in H.
  destruct (c =? c_dot) eqn:E.
  - apply N.eqb_eq in E. subst c. injection H as <- <-. cbn [rev]. rewrite <- app_assoc. split; [reflexivity|eauto].
  - destruct (IH _ _ _ H) as [H1 H2]. split; [|exact H2]. rewrite H1. cbn [rev]. rewrite <- app_assoc. reflexivity.
Qed.

Lemma stem_suffix_spec : forall name st sf, stem_suffix name = (st, sf) ->
  st ++ sf = name /\ (sf = [] \/ exists r, sf = c_dot :: r).
Proof.
  intros name st sf H. unfold stem_suffix in H.
  destruct (last_dot_split (rev name) []) as [[st0 sf0]|] eqn:El.
  - destruct (last_dot_split_app _ _ _ _ El) as [H1 H2]. rewrite rev_involutive, app_nil_r in H1.
    destruct (nonempty st0 && Nat.ltb 1 (length sf0)); injection H as <- <-.
    + split; [exact H1|right; exact H2].
    + split; [apply app_nil_r|left; reflexivity].
  - injection H as <- <-. split; [apply app_nil_r|left; reflexivity].
Qed.

Lemma starts_with_app_inv : forall (p a r : list N), starts_with p (a ++ r) = true ->
  starts_with p a = true \/ exists q, p = a ++ q /\ starts_with q r = true.
Proof.
  induction p as [|y p IH]; intros a r H; [left; reflexivity|].
  destruct a as [|z a].
  - right. exists (y :: p). split; [reflexivity|exact H].
  - cbn [app starts_with] in *. apply andb_true_iff in H. destruct H as [E H]. rewrite E. cbn [andb].
    apply N.eqb_eq in E. subst z.
    destruct (IH a r H) as [H1|(q & -> & Hq)]; [left; exact H1|right]. exists q. split; [reflexivity|exact Hq].
Qed.

(* a stem other than "parsed" followed by a suffix (which begins with a dot) begins with "parsed." only if the
   stem does *)
Lemma parsed_dot_stem : forall stem0 r, str_eqb stem0 w_parsed = false ->
  starts_with w_parsed_dot (stem0 ++ c_dot :: r) = true -> starts_with w_parsed_dot stem0 = true.
Proof.
  intros stem0 r Hne H. destruct (starts_with_app_inv _ _ _ H) as [H1|(q & Hp & Hq)]; [exact H1|].
  destruct q as [|x q].
  - rewrite app_nil_r in Hp. subst stem0. reflexivity.
  - exfalso. cbn [starts_with] in Hq. apply andb_true_iff in Hq. destruct Hq as [Ex _]. apply N.eqb_eq in Ex. subst x.
    unfold w_parsed_dot in Hp.
    destruct stem0 as [|a1 [|a2 [|a3 [|a4 [|a5 [|a6 [|a7 a]]]]]]]; try (vm_compute in Hp; discriminate Hp).
    + vm_compute in Hp. injection Hp as <- <- <- <- <- <- _. vm_compute in Hne. discriminate Hne.
    + vm_compute in Hp. injection Hp as _ _ _ _ _ _ _ Hp. destruct a; discriminate Hp.
Qed.

Lemma target_file_name_eq : forall name scope output,
  target_file_name name (Some w_parsed) scope output =
  let (stem0, suf0) := stem_suffix name in
  let '(fname, ending) := if str_eqb stem0 w_parsed then (stem0 ++ suf0, []) else (stem0, suf0) in
  w_parsed_dot ++ strip_parsed (fname ++ scope_suffix scope) ++ out_ext output ending.
Proof.
  intros name scope output. unfold target_file_name.
  destruct (stem_suffix name) as [stem0 suf0].
  change (of_string "parsed") with w_parsed. rewrite orb_diag.
  destruct (str_eqb stem0 w_parsed); cbv iota beta.
  all: change (nonempty w_parsed) with true; cbv iota.
  all: change ((match rev w_parsed with
           | [] => w_parsed
           | c :: r => if c =? c_dot then rev r else w_parsed
           end) ++ [c_dot]) with w_parsed_dot.
  all: rewrite <- app_assoc; f_equal.
  all: destruct scope as [|v scope]; [cbn [scope_suffix]; rewrite app_nil_r|]; reflexivity.
Qed.

(* the derived name = "parsed." ++ stem ++ "_" ++ scope keys joined by "_" ++ extension *)
Lemma target_shape : forall name scope output,
  exists stem ending,
    target_file_name name (Some w_parsed) scope output =
      w_parsed ++ [c_dot] ++ stem ++ scope_suffix scope ++ out_ext output ending /\
    (* stem and source suffix depend on the source name only *)
    stem ++ ending = strip_parsed name.
Proof.
  intros name scope output. rewrite target_file_name_eq.
  destruct (stem_suffix name) as [stem0 suf0] eqn:Ess.
  destruct (stem_suffix_spec _ _ _ Ess) as [Hname Hsuf].
  destruct (str_eqb stem0 w_parsed) eqn:Eb.
  - exists (strip_parsed (stem0 ++ suf0)), []. split; [|rewrite app_nil_r, Hname; reflexivity].
    rewrite strip_parsed_scope. unfold w_parsed_dot. rewrite <- !app_assoc. reflexivity.
  - (* the stem is not "parsed"; a stem that begins with "parsed." loses that prefix *)
    exists (strip_parsed stem0), suf0. split.
    + rewrite strip_parsed_scope. unfold w_parsed_dot. rewrite <- !app_assoc. reflexivity.
    + rewrite <- Hname. unfold strip_parsed.
      destruct (starts_with w_parsed_dot stem0) eqn:E.
      * rewrite (starts_with_app_l _ _ suf0 E). apply starts_with_split in E. destruct E as [q ->].
        rewrite <- app_assoc. rewrite !drop_n_app_length'. reflexivity.
      * (* stem0 ++ suf0 does not begin with "parsed." either: suf0 starts with the last dot of the name *)
        destruct (starts_with w_parsed_dot (stem0 ++ suf0)) eqn:E2; [|reflexivity].
        destruct Hsuf as [->|[r ->]]; [rewrite app_nil_r in E2; congruence|].
        rewrite (parsed_dot_stem stem0 r Eb E2) in E. discriminate E.
Qed.

Lemma strip_parsed_prefixed : forall y, strip_parsed (w_parsed_dot ++ y) = y.
Proof. intros y. unfold strip_parsed. rewrite starts_with_app. apply drop_n_app_length'. Qed.

(* without scope and output format: "parsed." ++ the name with one leading "parsed." removed -- for EVERY name *)
Lemma target_plain : forall name,
  target_file_name name (Some w_parsed) [] None = w_parsed_dot ++ strip_parsed name.
Proof.
  intros name. destruct (target_shape name [] None) as (stem & ending & H & E). rewrite H.
  cbn [scope_suffix out_ext]. rewrite <- E. unfold w_parsed_dot. rewrite <- !app_assoc. reflexivity.
Qed.

(* the prefix is applied once: a derived name derives itself; a name that does not begin with "parsed." gets the
   prefix, a name that does is kept *)
Lemma target_prefix_once_all : forall name,
  let t := target_file_name name (Some w_parsed) [] None in
  target_file_name t (Some w_parsed) [] None = t /\
  (starts_with w_parsed_dot name = false -> t = w_parsed_dot ++ name) /\
  (starts_with w_parsed_dot name = true -> t = name).
Proof.
  intros name. cbv zeta. rewrite !target_plain. rewrite strip_parsed_prefixed. split; [reflexivity|].
  unfold strip_parsed. split; intros E; rewrite E; [reflexivity|].
  apply starts_with_split in E. destruct E as [r ->]. rewrite drop_n_app_length'. reflexivity.
Qed.

Lemma out_ext_values : forall ending,
  out_ext None ending = ending /\
  out_ext (Some (of_string "cpp")) ending = [] /\
  out_ext (Some (of_string "foam")) ending = of_string ".foam" /\
  out_ext (Some (of_string "json")) ending = of_string ".json" /\
  out_ext (Some (of_string "xml")) ending = of_string ".xml".
Proof. intros. repeat split; reflexivity. Qed.

(* the target of a successful parse, spelled out *)
Lemma parse_model_target_shape : forall fs src inc app order com scope output c target txt k,
  parse_model fs src inc app order com scope output c = Some (Ok (target, txt, k)) ->
  exists stem ending,
    target = dir_of src ++ [c_slash] ++ w_parsed ++ [c_dot] ++ stem ++ scope_suffix scope ++ out_ext output ending /\
    stem ++ ending = strip_parsed (base_name src).
Proof.
  intros fs src inc app order com scope output c target txt k H.
  rewrite (parse_model_target _ _ _ _ _ _ _ _ _ _ _ _ H).
  destruct (target_shape (base_name src) scope output) as (stem & ending & E1 & E2).
  exists stem, ending. rewrite E1. split; [reflexivity|exact E2].
Qed.

(* no scope, no output format: "parsed." ++ source name, once *)
Lemma parse_model_target_plain : forall fs src inc app order com c target txt k,
  parse_model fs src inc app order com [] None c = Some (Ok (target, txt, k)) ->
  target = dir_of src ++ [c_slash] ++ w_parsed_dot ++ strip_parsed (base_name src).
Proof.
  intros fs src inc app order com c target txt k H.
  rewrite (parse_model_target _ _ _ _ _ _ _ _ _ _ _ _ H). rewrite target_plain. reflexivity.
Qed.

(* a source and its own parsed.* file (same directory) have the same target *)
Lemma parse_model_target_of_parsed : forall fs src src' inc app order com c target txt k target' txt' k',
  dir_of src' = dir_of src -> base_name src' = w_parsed_dot ++ base_name src ->
  starts_with w_parsed_dot (base_name src) = false ->
  parse_model fs src inc app order com [] None c = Some (Ok (target, txt, k)) ->
  parse_model fs src' inc app order com [] None c = Some (Ok (target', txt', k')) ->
  target' = target /\ target = dir_of src ++ [c_slash] ++ w_parsed_dot ++ base_name src.
Proof.
  intros fs src src' inc app order com c target txt k target' txt' k' Hd Hb Hn H H'.
  rewrite (parse_model_target_plain _ _ _ _ _ _ _ _ _ _ H), (parse_model_target_plain _ _ _ _ _ _ _ _ _ _ H').
  rewrite Hd, Hb, strip_parsed_prefixed. unfold strip_parsed. rewrite Hn. split; reflexivity.
Qed.

(* the extension follows the output format *)
Lemma parse_model_target_ext : forall fs src inc app order com scope c target txt k,
  (parse_model fs src inc app order com scope (Some (of_string "foam")) c = Some (Ok (target, txt, k)) ->
   exists base, target = base ++ of_string ".foam") /\
  (parse_model fs src inc app order com scope (Some (of_string "cpp")) c = Some (Ok (target, txt, k)) ->
   exists stem, target = dir_of src ++ [c_slash] ++ w_parsed ++ [c_dot] ++ stem ++ scope_suffix scope).
Proof.
  intros fs src inc app order com scope c target txt k. split; intros H.
  - destruct (parse_model_target_shape _ _ _ _ _ _ _ _ _ _ _ _ H) as (stem & ending & E & _).
    exists (dir_of src ++ [c_slash] ++ w_parsed ++ [c_dot] ++ stem ++ scope_suffix scope).
    rewrite E. rewrite (proj1 (proj2 (proj2 (out_ext_values ending)))). rewrite <- !app_assoc. reflexivity.
  - destruct (parse_model_target_shape _ _ _ _ _ _ _ _ _ _ _ _ H) as (stem & ending & E & _).
    exists stem. rewrite E. rewrite (proj1 (proj2 (out_ext_values ending))). rewrite !app_nil_r. reflexivity.
Qed.

(* json / xml are outside the model: parse_model has no outcome, whatever the other arguments *)
Lemma parse_model_json_xml : forall fs src inc app order com scope c o,
  In o [of_string "json"; of_string "xml"] -> parse_model fs src inc app order com scope (Some o) c = None.
Proof.
  intros fs src inc app order com scope c o Hin. unfold parse_model. cbn [In] in Hin.
  destruct Hin as [<-|[<-|[]]]; reflexivity.
Qed.

(* ---- frame ----------------------------------------------------------------------------------------------- *)
(* parse_model is a function of (file tree, arguments, counter) into one (target, text) pair: the file tree after the
   call differs from the one before at most at the target *)
Lemma parse_model_frame : forall fs src inc app order com scope output c,
  let r := parse_model fs src inc app order com scope output c in
  (* a raising / unmodelled call writes nothing: no clobber *)
  ((forall e, r = Some (Raise e) -> apply_parse fs r = fs) /\ (r = None -> apply_parse fs r = fs)) /\
  (* a successful call sets the target to the returned text and leaves every other path alone *)
  (forall target txt k, r = Some (Ok (target, txt, k)) ->
     fs_lookup (norm_path target) (apply_parse fs r) = Some (FNative txt) /\
     (forall p, p <> norm_path target -> fs_lookup p (apply_parse fs r) = fs_lookup p fs) /\
     (map fst (apply_parse fs r) = map fst fs \/
      (fs_lookup (norm_path target) fs = None /\ map fst (apply_parse fs r) = map fst fs ++ [norm_path target]))).
Proof.
  intros fs src inc app order com scope output c r. split; [split|].
  - intros e ->. reflexivity.
  - intros ->. reflexivity.
  - intros target txt k ->. cbn [apply_parse]. split; [apply fs_lookup_write_same|split].
    + intros p Hp. apply fs_lookup_write_other. exact Hp.
    + apply fs_write_keys.
Qed.

(* ================================================================================================ *)
(* append = overwrite when the target does not exist                                                *)
(* ================================================================================================ *)
Lemma write_sd_append_fresh : forall fs foam target order s c,
  fs_lookup (norm_path target) fs = None ->
  write_sd fs foam target true order s c = write_sd fs foam target false order s c.
Proof. intros fs foam target order s c H. unfold write_sd. rewrite H. reflexivity. Qed.

Lemma parse_model_append_fresh : forall fs src inc order com scope output c,
  fs_lookup (norm_path (dir_of src ++ [c_slash] ++ target_file_name (base_name src) (Some w_parsed) scope output)) fs = None ->
  parse_model fs src inc true order com scope output c = parse_model fs src inc false order com scope output c.
Proof.
  intros fs src inc order com scope output c H. unfold parse_model.
  destruct (output_kind output) as [foam0|]; [|reflexivity].
  destruct (read_opts fs src inc order com scope c) as [[[s c1]|e]|]; [|reflexivity|reflexivity].
  cbv zeta. change (of_string "parsed") with w_parsed.
  rewrite (write_sd_append_fresh fs _ _ order s c1 H). reflexivity.
Qed.

(* ================================================================================================ *)
(* C14: the scope as a read option                                                                  *)
(* ================================================================================================ *)
From Coq Require Import Permutation.

(* the stages of DictReader.read *)
Definition read_core (fs : fsys) (root : str) (includes comments : bool) (count : Z) : option (res (sdict * Z)) :=
  match fs_lookup (norm_path root) fs with
  | None => Some (Raise E_Key)
  | Some u =>
      match parse_unit comments root count u with
      | Raise e => Some (Raise e)
      | Ok pr =>
          match (if includes then merge_includes fs comments (pr_sd pr) (pr_count pr) else Ok (pr_sd pr, pr_count pr)) with
          | Raise e => Some (Raise e)
          | Ok (s, c) =>
              match eval_expressions s with
              | None => None
              | Some (Raise e) => Some (Raise e)
              | Some (Ok s1) => Some (Ok (s1, c))
              end
          end
      end
  end.
(* parsed_dict.reduce_scope(scope): data replaced by the sub-dict (clear + update), side tables kept *)
Definition scope_sd (s : sdict) (sk : list key) : sdict :=
  sd_update (mkSD [] (sd_lc s) (sd_bc s) (sd_inc s) (sd_expr s)) (reduce_scope (sd_data s) sk) None.
Definition scope_stage (sk : list key) (s : sdict) : res sdict :=
  match sk with
  | [] => Ok s
  | _ => if key_exists (Dict (sd_data s)) sk then Ok (scope_sd s sk) else Raise E_Exit
  end.
Definition finish (includes order : bool) (s2 : sdict) : sdict :=
  let s3 := if order then sd_order s2 else s2 in
  if includes then s3 else mkSD (remove_include_keys (sd_data s3)) (sd_lc s3) (sd_bc s3) (sd_inc s3) (sd_expr s3).

Lemma read_opts_stages : forall fs root inc order com scope c,
  read_opts fs root inc order com scope c =
  match scope_keys scope with
  | None => None
  | Some sk =>
      match read_core fs root inc com c with
      | None => None
      | Some (Raise e) => Some (Raise e)
      | Some (Ok (s1, k)) =>
          match scope_stage sk s1 with
          | Raise e => Some (Raise e)
          | Ok s2 => Some (Ok (finish inc order s2, k))
          end
      end
  end.
Proof.
  intros fs root inc order com scope c. unfold read_opts, read_core.
  destruct (scope_keys scope) as [sk|]; [|reflexivity].
  destruct (fs_lookup (norm_path root) fs) as [u|]; [|reflexivity].
  destruct (parse_unit com root c u) as [pr|e]; [|reflexivity].
  destruct (if inc then merge_includes fs com (pr_sd pr) (pr_count pr) else Ok (pr_sd pr, pr_count pr)) as [[s k]|e];
    [|reflexivity].
  destruct (eval_expressions s) as [[s1|e]|]; [|reflexivity|reflexivity].
  destruct sk as [|k0 sk]; [reflexivity|].
  unfold scope_stage, scope_sd. destruct (key_exists (Dict (sd_data s1)) (k0 :: sk)); reflexivity.
Qed.

(* the scoped read and the unscoped read go through the same stages: same intermediate dict, same counter *)
Lemma read_opts_scope_stages : forall fs root inc order com scope sk c s k,
  scope_keys scope = Some sk -> read_opts fs root inc order com [] c = Some (Ok (s, k)) ->
  exists s1, read_core fs root inc com c = Some (Ok (s1, k)) /\ s = finish inc order s1 /\
    read_opts fs root inc order com scope c =
      match scope_stage sk s1 with Raise e => Some (Raise e) | Ok s2 => Some (Ok (finish inc order s2, k)) end.
Proof.
  intros fs root inc order com scope sk c s k Hsk H. rewrite read_opts_stages in H. cbn [scope_keys] in H.
  rewrite read_opts_stages, Hsk.
  destruct (read_core fs root inc com c) as [[[s1 k1]|e]|]; [|discriminate H|discriminate H].
  cbn [scope_stage] in H. injection H as <- <-. exists s1. repeat split; reflexivity.
Qed.

(* ---- exact form for includes on, order off: the unscoped result IS the intermediate dict ------------------- *)
Lemma finish_id : forall s, finish true false s = s.
Proof. reflexivity. Qed.

Lemma scope_read_option_exact : forall fs root com scope sk c s k,
  read_opts fs root true false com [] c = Some (Ok (s, k)) -> scope_keys scope = Some sk -> sk <> [] ->
  read_opts fs root true false com scope c =
    if key_exists (Dict (sd_data s)) sk then Some (Ok (scope_sd s sk, k)) else Some (Raise E_Exit).
Proof.
  intros fs root com scope sk c s k H Hsk Hne.
  destruct (read_opts_scope_stages _ _ _ _ _ _ _ _ _ _ Hsk H) as (s1 & _ & Es & ->).
  rewrite finish_id in Es. subst s1. destruct sk as [|k0 sk]; [congruence|]. unfold scope_stage.
  destruct (key_exists (Dict (sd_data s)) (k0 :: sk)); reflexivity.
Qed.

(* ---- plain sub-dicts: no comment / include placeholder key at any level reachable through dicts -------------- *)
Definition nokind (k : key) : bool := match ph_kind_of k with None => true | Some _ => false end.
Fixpoint plain_keys (t : tree) : bool :=
  match t with
  | Dict kvs => (fix go (l : list (key * tree)) : bool :=
                   match l with [] => true | (k, c) :: l' => nokind k && plain_keys c && go l' end) kvs
  | _ => true
  end.
Definition plainkv (kv : key * tree) : Prop := nokind (fst kv) = true /\ plain_keys (snd kv) = true.

Lemma plain_Dict_iff : forall l, plain_keys (Dict l) = true <-> Forall plainkv l.
Proof.
  induction l as [|[k c] l IH].
  - split; [constructor|reflexivity].
  - change (plain_keys (Dict ((k, c) :: l))) with (nokind k && plain_keys c && plain_keys (Dict l)).
    rewrite !andb_true_iff, IH. split.
    + intros [[H1 H2] H3]. constructor; [split; assumption|assumption].
    + intros H. inversion H as [|x y [H1 H2] H3]; subst. auto.
Qed.

Lemma filter_nothing {A} (f : A -> bool) l : (forall x, In x l -> f x = false) -> filter f l = [].
Proof.
  induction l as [|x l IH]; intros H; [reflexivity|]. cbn [filter]. rewrite (H x (or_introl eq_refl)).
  apply IH. intros y Hy. apply H. right. exact Hy.
Qed.

Lemma keys_of_kind_plain : forall kd data, Forall plainkv data -> keys_of_kind kd data = [].
Proof.
  intros kd data H. unfold keys_of_kind. apply filter_nothing. intros k Hin.
  apply in_map_iff in Hin. destruct Hin as (kc & <- & Hin). rewrite Forall_forall in H.
  destruct (H kc Hin) as [Hk _]. unfold nokind in Hk. destruct (ph_kind_of (fst kc)); [discriminate Hk|reflexivity].
Qed.

Lemma clean_level_plain : forall data s, Forall plainkv data -> clean_level data s = (data, s).
Proof.
  intros data s H. unfold clean_level. rewrite !(keys_of_kind_plain _ data H). cbn [clean_kind].
  destruct s as [d lc bc inc ex]. reflexivity.
Qed.

Lemma clean_tree_plain : forall fuel data s, plain_keys (Dict data) = true -> wf (Dict data) = true ->
  clean_tree fuel data s = (data, s).
Proof.
  induction fuel as [|f IH]; intros data s Hp Hw; [reflexivity|].
  rewrite clean_tree_S. apply plain_Dict_iff in Hp. apply wf_Dict_iff in Hw. destruct Hw as [Hnd Hw].
  rewrite (clean_level_plain data s Hp). cbn [fst].
  assert (Hgen : forall l, (forall kv, In kv l -> In kv data) -> fold_left (cstep f) l (data, s) = (data, s)).
  { induction l as [|[k v] l IHl]; intros Hsub; [reflexivity|]. cbn [fold_left].
    assert (Hin : In (k, v) data) by (apply Hsub; left; reflexivity).
    assert (Hc : cstep f (data, s) (k, v) = (data, s)).
    { unfold cstep. cbn [fst snd]. destruct v as [x|sub|ts]; try reflexivity.
      rewrite Forall_forall in Hw, Hp. pose proof (Hw _ Hin) as Hws. unfold wfkv in Hws. cbn [snd] in Hws.
      destruct (Hp _ Hin) as [_ Hps]. cbn [snd] in Hps.
      rewrite (IH sub s Hps Hws). rewrite aset_same; [reflexivity|]. apply alookup_In_nodup; assumption. }
    rewrite Hc. apply IHl. intros kv H'. apply Hsub. right. exact H'. }
  apply Hgen. auto.
Qed.

Lemma sd_clean_plain : forall d lc bc inc ex, plain_keys (Dict d) = true -> wf (Dict d) = true ->
  sd_clean (mkSD d lc bc inc ex) = mkSD d lc bc inc ex.
Proof.
  intros d lc bc inc ex Hp Hw. unfold sd_clean. cbn [sd_data]. rewrite (clean_tree_plain _ d _ Hp Hw). reflexivity.
Qed.

(* ordering: wf and plain_keys of the ordered tree give those of the tree *)
Lemma wf_order_inv : forall t, wf (order_tree t) = true -> wf t = true.
Proof.
  induction t as [v|kvs IH|ts IH] using tree_ind'; intros H; try exact H.
  rewrite order_tree_dict in H. apply wf_Dict_iff in H. destruct H as [Hnd Hw]. apply wf_Dict_iff.
  pose proof (sort_kvs_perm (map_snd order_tree kvs)) as Hperm. split.
  - rewrite <- (map_snd_fst order_tree kvs). eapply Permutation_NoDup; [|exact Hnd].
    apply Permutation_map. exact Hperm.
  - pose proof (Permutation_Forall Hperm Hw) as Hw'. clear - IH Hw'.
    induction kvs as [|[k c] kvs IHk]; [constructor|].
    inversion IH as [|x y Hc IHr]; subst. cbn [map_snd map] in Hw'. inversion Hw' as [|x y Hwc Hwr]; subst.
    constructor; [|apply IHk; assumption]. unfold wfkv in *. cbn [fst snd] in *. apply Hc. exact Hwc.
Qed.

Lemma plain_order_inv : forall t, plain_keys (order_tree t) = true -> plain_keys t = true.
Proof.
  induction t as [v|kvs IH|ts IH] using tree_ind'; intros H; try exact H.
  rewrite order_tree_dict in H. apply plain_Dict_iff in H. apply plain_Dict_iff.
  pose proof (Permutation_Forall (sort_kvs_perm (map_snd order_tree kvs)) H) as H'. clear - IH H'.
  induction kvs as [|[k c] kvs IHk]; [constructor|].
  inversion IH as [|x y Hc IHr]; subst. cbn [map_snd map] in H'. inversion H' as [|x y Hpc Hpr]; subst.
  constructor; [|apply IHk; assumption]. unfold plainkv in *. cbn [fst snd] in *. destruct Hpc as [H1 H2].
  split; [exact H1|apply Hc; exact H2].
Qed.

(* _remove_include_keys looks at the top level only *)
Definition key_unmarked (k : key) : bool := match k with KS s => negb (has_include_mark s) | KI _ => true end.
Lemma remove_include_keys_filter : forall d, remove_include_keys d = filter (fun kv => key_unmarked (fst kv)) d.
Proof. reflexivity. Qed.

Lemma alookup_remove_include_keys : forall k d, key_unmarked k = true ->
  alookup k (remove_include_keys d) = alookup k d.
Proof.
  intros k d Hk. rewrite remove_include_keys_filter. induction d as [|[k0 v0] d IH]; [reflexivity|].
  cbn [filter fst]. destruct (key_unmarked k0) eqn:E0.
  - cbn [alookup]. destruct (key_eqb k k0); [reflexivity|exact IH].
  - cbn [alookup]. destruct (key_eqb k k0) eqn:E; [|exact IH].
    apply OrderProofs.key_eqb_eq in E. subst k0. congruence.
Qed.

(* the path of the unscoped result = the (ordered) sub-tree of the intermediate dict *)
Definition ord (order : bool) (t : tree) : tree := if order then order_tree t else t.

Lemma sd_order_data : forall s, Dict (sd_data (sd_order s)) = order_tree (Dict (sd_data s)).
Proof. intros s. unfold sd_order. rewrite order_tree_dict. reflexivity. Qed.

Lemma finish_dpath : forall inc order s1 k0 p,
  (inc = false -> key_unmarked k0 = true) ->
  get_dpath (Dict (sd_data (finish inc order s1))) (k0 :: p) = option_map (ord order) (get_dpath (Dict (sd_data s1)) (k0 :: p)).
Proof.
  intros inc order s1 k0 p Hk.
  assert (H3 : get_dpath (Dict (sd_data (if order then sd_order s1 else s1))) (k0 :: p)
               = option_map (ord order) (get_dpath (Dict (sd_data s1)) (k0 :: p))).
  { destruct order; cbn [ord].
    - rewrite sd_order_data, order_assoc_deep.
      destruct (get_dpath (Dict (sd_data s1)) (k0 :: p)) as [t|]; [|reflexivity]. cbn [option_map].
      rewrite order_child_eq. reflexivity.
    - destruct (get_dpath (Dict (sd_data s1)) (k0 :: p)); reflexivity. }
  unfold finish. destruct inc; [exact H3|]. cbn [sd_data]. rewrite <- H3.
  cbn [get_dpath]. rewrite alookup_remove_include_keys by (apply Hk; reflexivity). reflexivity.
Qed.

Lemma ord_dict_inv : forall order t sub, ord order t = Dict sub -> exists sub1, t = Dict sub1.
Proof.
  intros order t sub H. destruct order; cbn [ord] in H.
  - destruct t as [v|kvs|ts]; [discriminate H|eexists; reflexivity|discriminate H].
  - eexists. exact H.
Qed.

(* the scope reduction of an intermediate dict whose sub-dict is plain and well formed *)
Lemma scope_sd_plain : forall s1 sk sub1, sk <> [] -> get_dpath (Dict (sd_data s1)) sk = Some (Dict sub1) ->
  wf (Dict sub1) = true -> plain_keys (Dict sub1) = true ->
  scope_sd s1 sk = mkSD sub1 (sd_lc s1) (sd_bc s1) (sd_inc s1) (sd_expr s1).
Proof.
  intros s1 sk sub1 Hne Hp Hw Hpl. unfold scope_sd, sd_update. cbn [post_update sd_data sd_lc sd_bc sd_inc sd_expr].
  assert (Hr : reduce_scope (sd_data s1) sk = sub1).
  { unfold reduce_scope. destruct sk as [|k0 sk]; [congruence|]. rewrite dict_at_dpath, Hp.
    apply (aupdate_app sub1 []). cbn [app]. apply wf_dict_nodup. exact Hw. }
  rewrite Hr. rewrite (aupdate_app sub1 []) by (cbn [app]; apply wf_dict_nodup; exact Hw). cbn [app].
  apply sd_clean_plain; assumption.
Qed.

Lemma finish_tables : forall inc order d lc bc i ex s1,
  sd_lc s1 = lc -> sd_bc s1 = bc -> sd_inc s1 = i -> sd_expr s1 = ex ->
  let f := finish inc order (mkSD d lc bc i ex) in let g := finish inc order s1 in
  sd_lc f = sd_lc g /\ sd_bc f = sd_bc g /\ sd_inc f = sd_inc g /\ sd_expr f = sd_expr g.
Proof.
  intros inc order d lc bc i ex s1 <- <- <- <-. cbv zeta. unfold finish, sd_order.
  rewrite !order_tree_dict. destruct inc, order; cbn [sd_lc sd_bc sd_inc sd_expr]; repeat split; reflexivity.
Qed.

Lemma finish_data : forall inc order d lc bc i ex,
  sd_data (finish inc order (mkSD d lc bc i ex)) =
  let d' := kvs_of_tree (ord order (Dict d)) in if inc then d' else remove_include_keys d'.
Proof.
  intros inc order d lc bc i ex. unfold finish, sd_order. cbn [sd_data]. rewrite order_tree_dict.
  destruct inc, order; cbn [ord sd_data kvs_of_tree]; try rewrite order_tree_dict; reflexivity.
Qed.

Lemma sdict_eta : forall s, s = mkSD (sd_data s) (sd_lc s) (sd_bc s) (sd_inc s) (sd_expr s).
Proof. intros [d lc bc i ex]. reflexivity. Qed.

(* the scope as a read option, any flags: relative to the unscoped read with the same flags *)
Lemma scope_read_option : forall fs root inc order com scope k0 sk c s k,
  read_opts fs root inc order com [] c = Some (Ok (s, k)) -> scope_keys scope = Some (k0 :: sk) ->
  (inc = false -> key_unmarked k0 = true) ->
  match get_dpath (Dict (sd_data s)) (k0 :: sk) with
  | Some (Dict sub) =>
      wf (Dict sub) = true -> plain_keys (Dict sub) = true ->
      read_opts fs root inc order com scope c =
        Some (Ok (mkSD (if inc then sub else remove_include_keys sub) (sd_lc s) (sd_bc s) (sd_inc s) (sd_expr s), k))
  | _ => read_opts fs root inc order com scope c = Some (Raise E_Exit)
  end.
Proof.
  intros fs root inc order com scope k0 sk c s k H Hsk Hk.
  destruct (read_opts_scope_stages _ _ _ _ _ _ _ _ _ _ Hsk H) as (s1 & _ & Es & ->).
  subst s. rewrite (finish_dpath inc order s1 k0 sk Hk).
  destruct (get_dpath (Dict (sd_data s1)) (k0 :: sk)) as [t|] eqn:Ep; cbn [option_map].
  - destruct (ord order t) as [v|sub|ts] eqn:Eo.
    + (* a leaf: the path does not lead to a dict *)
      assert (Hx : key_exists (Dict (sd_data s1)) (k0 :: sk) = false).
      { destruct (key_exists (Dict (sd_data s1)) (k0 :: sk)) eqn:E; [|reflexivity].
        apply key_exists_iff in E. destruct E as [x E]. rewrite Ep in E. injection E as ->.
        destruct order; cbn [ord] in Eo; [rewrite order_tree_dict in Eo|]; discriminate Eo. }
      unfold scope_stage. rewrite Hx. reflexivity.
    + intros Hw Hpl. destruct (ord_dict_inv _ _ _ Eo) as [sub1 ->].
      assert (Hw1 : wf (Dict sub1) = true).
      { destruct order; cbn [ord] in Eo; [apply wf_order_inv; rewrite Eo; exact Hw|injection Eo as ->; exact Hw]. }
      assert (Hp1 : plain_keys (Dict sub1) = true).
      { destruct order; cbn [ord] in Eo; [apply plain_order_inv; rewrite Eo; exact Hpl|injection Eo as ->; exact Hpl]. }
      assert (Hx : key_exists (Dict (sd_data s1)) (k0 :: sk) = true) by (apply key_exists_iff; eauto).
      unfold scope_stage. rewrite Hx.
      rewrite (scope_sd_plain s1 (k0 :: sk) sub1 ltac:(discriminate) Ep Hw1 Hp1).
      f_equal. f_equal. f_equal.
      destruct (finish_tables inc order sub1 _ _ _ _ s1 eq_refl eq_refl eq_refl eq_refl) as (T1 & T2 & T3 & T4).
      cbv zeta in T1, T2, T3, T4.
      rewrite (sdict_eta (finish inc order (mkSD sub1 (sd_lc s1) (sd_bc s1) (sd_inc s1) (sd_expr s1)))).
      rewrite T1, T2, T3, T4, finish_data. cbv zeta. rewrite Eo. reflexivity.
    + assert (Hx : key_exists (Dict (sd_data s1)) (k0 :: sk) = false).
      { destruct (key_exists (Dict (sd_data s1)) (k0 :: sk)) eqn:E; [|reflexivity].
        apply key_exists_iff in E. destruct E as [x E]. rewrite Ep in E. injection E as ->.
        destruct order; cbn [ord] in Eo; [rewrite order_tree_dict in Eo|]; discriminate Eo. }
      unfold scope_stage. rewrite Hx. reflexivity.
  - assert (Hx : key_exists (Dict (sd_data s1)) (k0 :: sk) = false).
    { destruct (key_exists (Dict (sd_data s1)) (k0 :: sk)) eqn:E; [|reflexivity].
      apply key_exists_iff in E. destruct E as [x E]. rewrite Ep in E. discriminate E. }
    unfold scope_stage. rewrite Hx. reflexivity.
Qed.

(* ================================================================================================ *)
(* C13: the target lies in the directory of the source, whatever the scope keys                     *)
(* ================================================================================================ *)
From DictIO Require Import SemProofs.

Lemma Forall_removelast {A} (P : A -> Prop) : forall l, Forall P l -> Forall P (removelast l).
Proof.
  induction l as [|x l IH]; intros H; [constructor|]. inversion H as [|? ? Hx Hl]; subst.
  cbn [removelast]. destruct l; [constructor|]. constructor; [exact Hx|apply IH; exact Hl].
Qed.

Lemma Forall_filter {A} (P : A -> Prop) (f : A -> bool) : forall l, Forall P l -> Forall P (filter f l).
Proof.
  induction l as [|x l IH]; intros H; [constructor|]. inversion H as [|? ? Hx Hl]; subst.
  cbn [filter]. destruct (f x); [constructor; [exact Hx|]|]; apply IH; exact Hl.
Qed.

Lemma filter_all {A} (f : A -> bool) : forall l, Forall (fun x => f x = true) l -> filter f l = l.
Proof.
  induction l as [|x l IH]; intros H; [reflexivity|]. inversion H as [|? ? Hx Hl]; subst.
  cbn [filter]. rewrite Hx, (IH Hl). reflexivity.
Qed.

Lemma Forall_filter_true {A} (f : A -> bool) : forall l, Forall (fun x => f x = true) (filter f l).
Proof.
  induction l as [|x l IH]; [constructor|]. cbn [filter]. destruct (f x) eqn:E; [constructor; assumption|exact IH].
Qed.

(* Path.parent and Path.name of  <parent of src> / name  for a slash-free, non-empty name *)
Lemma dir_base_of_target : forall src name, name <> [] -> nosep c_slash name ->
  dir_of (dir_of src ++ [c_slash] ++ name) = dir_of src /\ base_name (dir_of src ++ [c_slash] ++ name) = name.
Proof.
  intros src name Hne Hns.
  set (comps := removelast (filter nonempty (split_on c_slash [] src))).
  assert (Hc1 : Forall (nosep c_slash) comps).
  { apply Forall_removelast, Forall_filter, split_on_nosep. constructor. }
  assert (Hc2 : Forall (fun c : str => nonempty c = true) comps) by apply Forall_removelast, Forall_filter_true.
  assert (E : dir_of src ++ [c_slash] ++ name = flat_map (fun c => c_slash :: c) (comps ++ [name])).
  { rewrite flat_map_app. cbn [flat_map]. rewrite app_nil_r. reflexivity. }
  rewrite E.
  assert (S : split_on c_slash [] (flat_map (fun c => c_slash :: c) (comps ++ [name])) = [] :: comps ++ [name]).
  { apply (split_on_join c_slash (comps ++ [name]) []). apply Forall_app. split; [exact Hc1|constructor; [exact Hns|constructor]]. }
  split.
  - unfold dir_of at 1. rewrite S. cbn [filter nonempty].
    rewrite filter_all.
    + rewrite removelast_last. reflexivity.
    + apply Forall_app. split; [exact Hc2|]. constructor; [|constructor]. destruct name; [congruence|reflexivity].
  - unfold base_name. rewrite S. change ([] :: comps ++ [name]) with (([] :: comps) ++ [name]). apply last_last.
Qed.

Lemma nosep_app : forall sep a b, nosep sep (a ++ b) <-> nosep sep a /\ nosep sep b.
Proof. intros. unfold nosep. apply Forall_app. Qed.

Lemma nosep_drop_n : forall sep n s, nosep sep s -> nosep sep (drop_n n s).
Proof.
  intros sep. induction n as [|n IH]; intros s H; [destruct s; exact H|]. destruct s as [|x s]; [exact H|].
  cbn [drop_n]. apply IH. inversion H; assumption.
Qed.

Lemma nosep_join : forall sep0 sep l, nosep sep0 sep -> Forall (nosep sep0) l -> nosep sep0 (join sep l).
Proof.
  intros sep0 sep l Hs. induction l as [|x l IH]; intros H; [constructor|].
  inversion H as [|? ? Hx Hl]; subst. destruct l as [|y l]; [exact Hx|].
  change (join sep (x :: y :: l)) with (x ++ sep ++ join sep (y :: l)).
  apply nosep_app. split; [exact Hx|]. apply nosep_app. split; [exact Hs|apply IH; exact Hl].
Qed.

Lemma nosep_has_char : forall sep s, has_char sep s = false -> nosep sep s.
Proof.
  intros sep s. unfold has_char, nosep. induction s as [|x s IH]; intros H; [constructor|].
  cbn [existsb] in H. apply orb_false_iff in H. destruct H as [H1 H2]. constructor; [|apply IH; exact H2].
  rewrite N.eqb_sym. exact H1.
Qed.

(* the key texts of the derived name are free of path separators (repo fix 7af8903: slash and backslash are spelled
   as underscores), whatever the keys are *)
Lemma nosep_scalar_text : forall v, nosep c_slash (scalar_text v).
Proof.
  intros v. unfold scalar_text, nosep. apply Forall_forall. intros x Hx. apply in_map_iff in Hx.
  destruct Hx as (c & <- & _). destruct (c =? c_slash) eqn:E1; [reflexivity|].
  destruct (c =? c_bsl); [reflexivity|exact E1].
Qed.

Lemma nosep_scope_suffix : forall scope, nosep c_slash (scope_suffix scope).
Proof.
  intros scope. destruct scope as [|v scope]; [constructor|]. unfold scope_suffix.
  apply nosep_app. split; [constructor; [reflexivity|constructor]|].
  apply nosep_join; [constructor; [reflexivity|constructor]|].
  apply Forall_forall. intros x Hx. apply in_map_iff in Hx. destruct Hx as (w & <- & _). apply nosep_scalar_text.
Qed.

Lemma nosep_out_ext : forall output ending, nosep c_slash ending -> nosep c_slash (out_ext output ending).
Proof.
  intros output ending He. unfold out_ext. destruct output as [o|]; [|exact He].
  destruct (nonempty o); [|exact He].
  destruct (str_eqb o (of_string "cpp")) eqn:E1; [apply ScalarProofs.str_eqb_eq in E1; subst o; constructor|].
  destruct (str_eqb o (of_string "foam")) eqn:E2;
    [apply ScalarProofs.str_eqb_eq in E2; subst o; vm_compute; repeat constructor|].
  destruct (str_eqb o (of_string "json")) eqn:E3;
    [apply ScalarProofs.str_eqb_eq in E3; subst o; vm_compute; repeat constructor|].
  destruct (str_eqb o (of_string "xml")) eqn:E4;
    [apply ScalarProofs.str_eqb_eq in E4; subst o; vm_compute; repeat constructor|].
  cbn [orb]. constructor.
Qed.

Lemma nosep_base_name : forall p, nosep c_slash (base_name p).
Proof.
  intros p. unfold base_name.
  assert (H : Forall (nosep c_slash) (split_on c_slash [] p)) by (apply split_on_nosep; constructor).
  induction (split_on c_slash [] p) as [|x l IH]; [constructor|].
  inversion H as [|? ? Hx Hl]; subst. cbn [last]. destruct l; [exact Hx|apply IH; exact Hl].
Qed.

Lemma target_name_slash_free : forall src scope output,
  let name := target_file_name (base_name src) (Some w_parsed) scope output in
  name <> [] /\ nosep c_slash name.
Proof.
  intros src scope output. cbv zeta.
  destruct (target_shape (base_name src) scope output) as (stem & ending & -> & E). split; [discriminate|].
  assert (Hse : nosep c_slash (stem ++ ending)).
  { rewrite E. unfold strip_parsed. destruct (starts_with w_parsed_dot (base_name src));
      [apply nosep_drop_n|]; apply nosep_base_name. }
  apply nosep_app in Hse. destruct Hse as [H1 H2].
  apply nosep_app. split; [vm_compute; repeat constructor|].
  apply nosep_app. split; [constructor; [reflexivity|constructor]|].
  apply nosep_app. split; [exact H1|]. apply nosep_app. split; [apply nosep_scope_suffix|].
  apply nosep_out_ext. exact H2.
Qed.

(* same directory, and the file name is the derived name *)
Lemma parse_model_same_dir : forall fs src inc app order com scope output c target txt k,
  parse_model fs src inc app order com scope output c = Some (Ok (target, txt, k)) ->
  dir_of target = dir_of src /\
  base_name target = target_file_name (base_name src) (Some w_parsed) scope output /\
  starts_with w_parsed_dot (base_name target) = true.
Proof.
  intros fs src inc app order com scope output c target txt k H.
  rewrite (parse_model_target _ _ _ _ _ _ _ _ _ _ _ _ H).
  destruct (target_name_slash_free src scope output) as [Hne Hns]. cbv zeta in Hne, Hns.
  destruct (dir_base_of_target src _ Hne Hns) as [D B]. rewrite D, B. split; [reflexivity|split; [reflexivity|]].
  destruct (target_shape (base_name src) scope output) as (stem & ending & -> & _).
  replace (w_parsed ++ [c_dot] ++ stem ++ scope_suffix scope ++ out_ext output ending)
    with (w_parsed_dot ++ stem ++ scope_suffix scope ++ out_ext output ending)
    by (unfold w_parsed_dot; rewrite <- !app_assoc; reflexivity).
  apply starts_with_app.
Qed.

(* ---- the source is not the target unless it is a parsed.* file itself -------------------------------------- *)
Lemma nc_fold_filter_nonempty : forall L acc,
  fold_left nc_step (filter nonempty L) acc = fold_left nc_step L acc.
Proof.
  induction L as [|c L IH]; intros acc; [reflexivity|]. cbn [filter].
  destruct c as [|x c]; cbn [nonempty fold_left]; [|apply IH].
  rewrite IH. reflexivity.
Qed.

Lemma split_on_snoc : forall sep s cur, exists L, split_on sep cur s = L ++ [last (split_on sep cur s) []].
Proof.
  intros sep s cur. assert (H : split_on sep cur s <> []) by (revert cur; induction s as [|c s IH]; intros cur; cbn [split_on]; [discriminate|destruct (c =? sep); [discriminate|apply IH]]).
  destruct (exists_last H) as (L & b & E). exists L. rewrite E, last_last. reflexivity.
Qed.

Lemma nc_step_good : forall acc c, good_comp c -> nc_step acc c = c :: acc.
Proof. intros acc c (E1 & E2 & E3 & _). unfold nc_step. rewrite E1, E2, E3. reflexivity. Qed.

(* normalised source and target paths: a common directory part, then the two names *)
Lemma norm_src_target : forall src name, good_comp (base_name src) -> good_comp name ->
  exists X, norm_path src = flat_map (fun c => c_slash :: c) (X ++ [base_name src]) /\
            norm_path (dir_of src ++ [c_slash] ++ name) = flat_map (fun c => c_slash :: c) (X ++ [name]).
Proof.
  intros src name Hb Hn. unfold base_name in *.
  destruct (split_on_snoc c_slash src []) as [L EL].
  set (b := last (split_on c_slash [] src) []) in *.
  assert (Hbne : nonempty b = true) by (destruct Hb as (E1 & _); destruct b; [discriminate E1|reflexivity]).
  exists (rev (fold_left nc_step L [])). split.
  - unfold norm_path. rewrite norm_components_fold, EL, fold_left_app. cbn [fold_left].
    rewrite (nc_step_good _ b Hb). reflexivity.
  - assert (Ed : dir_of src = flat_map (fun c => c_slash :: c) (filter nonempty L)).
    { unfold dir_of. rewrite EL, filter_app. cbn [filter]. rewrite Hbne. rewrite removelast_last. reflexivity. }
    assert (E : dir_of src ++ [c_slash] ++ name = flat_map (fun c => c_slash :: c) (filter nonempty L ++ [name])).
    { rewrite Ed, flat_map_app. cbn [flat_map]. rewrite app_nil_r. reflexivity. }
    unfold norm_path. rewrite E.
    rewrite (split_on_join c_slash (filter nonempty L ++ [name]) []).
    + rewrite norm_components_fold. cbn [rev fold_left]. unfold nc_step at 2. cbn [str_eqb orb].
      rewrite fold_left_app. cbn [fold_left]. rewrite (nc_step_good _ name Hn).
      rewrite nc_fold_filter_nonempty. reflexivity.
    + apply Forall_app. split.
      * apply Forall_filter.
        assert (HL : Forall (nosep c_slash) (L ++ [b])) by (rewrite <- EL; apply split_on_nosep; constructor).
        apply Forall_app in HL. apply HL.
      * constructor; [apply Hn|constructor].
Qed.

Lemma starts_parsed_good : forall name, nosep c_slash name -> starts_with w_parsed_dot name = true -> good_comp name.
Proof.
  intros name Hs H. apply starts_with_split in H. destruct H as [r ->]. repeat split; try reflexivity. exact Hs.
Qed.

Lemma parse_model_target_not_source : forall fs src inc app order com scope output c target txt k,
  parse_model fs src inc app order com scope output c = Some (Ok (target, txt, k)) ->
  good_comp (base_name src) -> starts_with w_parsed_dot (base_name src) = false ->
  norm_path target <> norm_path src.
Proof.
  intros fs src inc app order com scope output c target txt k H Hb Hn.
  destruct (parse_model_same_dir _ _ _ _ _ _ _ _ _ _ _ _ H) as (_ & B & S).
  rewrite (parse_model_target _ _ _ _ _ _ _ _ _ _ _ _ H) in *.
  destruct (target_name_slash_free src scope output) as [_ Hns]. cbv zeta in Hns.
  set (name := target_file_name (base_name src) (Some w_parsed) scope output) in *.
  rewrite B in S.
  destruct (norm_src_target src name Hb (starts_parsed_good name Hns S)) as (X & E1 & E2).
  rewrite E1, E2, !flat_map_app. cbn [flat_map]. rewrite !app_nil_r. intros E.
  apply app_inv_head in E. injection E as E. rewrite E in S. congruence.
Qed.

(* a successful parse leaves its source file as it was *)
Lemma parse_model_source_kept : forall fs src inc app order com scope output c target txt k,
  let r := parse_model fs src inc app order com scope output c in
  r = Some (Ok (target, txt, k)) ->
  good_comp (base_name src) -> starts_with w_parsed_dot (base_name src) = false ->
  fs_lookup (norm_path src) (apply_parse fs r) = fs_lookup (norm_path src) fs.
Proof.
  intros fs src inc app order com scope output c target txt k r H Hb Hn. unfold r in *. rewrite H. cbn [apply_parse].
  apply fs_lookup_write_other. intro E. symmetry in E. revert E.
  eapply parse_model_target_not_source; eassumption.
Qed.

(* the source names a file: its last component is not empty (trailing slash), "." or ".." *)
Definition file_name_ok (b : str) : bool :=
  negb (str_eqb b []) && negb (str_eqb b [c_dot]) && negb (str_eqb b [c_dot; c_dot]).

Lemma file_name_ok_good : forall src, file_name_ok (base_name src) = true -> good_comp (base_name src).
Proof.
  intros src H. unfold file_name_ok in H. apply andb_true_iff in H. destruct H as [H H3].
  apply andb_true_iff in H. destruct H as [H1 H2]. apply negb_true_iff in H1, H2, H3.
  repeat split; try assumption. apply nosep_base_name.
Qed.

Lemma parse_model_same_dir_source_kept : forall fs src inc app order com scope output c target txt k,
  let r := parse_model fs src inc app order com scope output c in
  r = Some (Ok (target, txt, k)) ->
  (dir_of target = dir_of src /\
   base_name target = target_file_name (base_name src) (Some w_parsed) scope output /\
   starts_with w_parsed_dot (base_name target) = true) /\
  (file_name_ok (base_name src) = true -> starts_with w_parsed_dot (base_name src) = false ->
   norm_path target <> norm_path src /\
   fs_lookup (norm_path src) (apply_parse fs r) = fs_lookup (norm_path src) fs).
Proof.
  intros fs src inc app order com scope output c target txt k r H. split.
  - eapply parse_model_same_dir; eassumption.
  - intros Hf Hn. pose proof (file_name_ok_good src Hf) as Hg. split.
    + eapply parse_model_target_not_source; eassumption.
    + eapply parse_model_source_kept; eassumption.
Qed.

(* ================================================================================================ *)
(* C14: order off -- sub-dicts with comment / include placeholders                                  *)
(* ================================================================================================ *)
(* the condition: SDict.update of the emptied dict with [sub] (and the clean-up it ends with) yields [sub] and
   leaves the side tables as they are -- closed terms decide it by computation *)
Definition update_stable (sub : list (key * tree)) (s : sdict) : Prop :=
  sd_update (mkSD [] (sd_lc s) (sd_bc s) (sd_inc s) (sd_expr s)) sub None = mkSD sub (sd_lc s) (sd_bc s) (sd_inc s) (sd_expr s).

Lemma aupdate_nil_idem : forall (m : list (key * tree)), aupdate [] (aupdate [] m) = aupdate [] m.
Proof.
  intros m. apply (aupdate_app (aupdate [] m) []). cbn [app]. apply aupdate_nodup. constructor.
Qed.

Lemma scope_read_option_unordered : forall fs root inc com scope k0 sk c s k,
  read_opts fs root inc false com [] c = Some (Ok (s, k)) -> scope_keys scope = Some (k0 :: sk) ->
  (inc = false -> key_unmarked k0 = true) ->
  match get_dpath (Dict (sd_data s)) (k0 :: sk) with
  | Some (Dict sub) =>
      update_stable sub s ->
      read_opts fs root inc false com scope c =
        Some (Ok (mkSD (if inc then sub else remove_include_keys sub) (sd_lc s) (sd_bc s) (sd_inc s) (sd_expr s), k))
  | _ => read_opts fs root inc false com scope c = Some (Raise E_Exit)
  end.
Proof.
  intros fs root inc com scope k0 sk c s k H Hsk Hk.
  pose proof (scope_read_option fs root inc false com scope k0 sk c s k H Hsk Hk) as G.
  destruct (get_dpath (Dict (sd_data s)) (k0 :: sk)) as [[v|sub|ts]|] eqn:Ep; try exact G. clear G.
  intros Hst.
  destruct (read_opts_scope_stages _ _ _ _ _ _ _ _ _ _ Hsk H) as (s1 & _ & Es & ->).
  assert (Ep1 : get_dpath (Dict (sd_data s1)) (k0 :: sk) = Some (Dict sub)).
  { rewrite Es, (finish_dpath inc false s1 k0 sk Hk) in Ep. cbn [ord] in Ep.
    destruct (get_dpath (Dict (sd_data s1)) (k0 :: sk)); [exact Ep|discriminate Ep]. }
  assert (Hx : key_exists (Dict (sd_data s1)) (k0 :: sk) = true) by (apply key_exists_iff; eauto).
  assert (T : sd_lc s = sd_lc s1 /\ sd_bc s = sd_bc s1 /\ sd_inc s = sd_inc s1 /\ sd_expr s = sd_expr s1).
  { rewrite Es. unfold finish. destruct inc; repeat split; reflexivity. }
  destruct T as (T1 & T2 & T3 & T4).
  unfold scope_stage. rewrite Hx.
  assert (Hsd : scope_sd s1 (k0 :: sk) = mkSD sub (sd_lc s) (sd_bc s) (sd_inc s) (sd_expr s)).
  { unfold scope_sd, reduce_scope. rewrite dict_at_dpath, Ep1.
    unfold update_stable in Hst. rewrite T1, T2, T3, T4 in *.
    unfold sd_update in *. cbn [post_update sd_data sd_lc sd_bc sd_inc sd_expr] in *.
    rewrite aupdate_nil_idem. exact Hst. }
  rewrite Hsd. unfold finish. destruct inc; reflexivity.
Qed.

Lemma parse_model_target_full : forall fs src inc app order com scope output c target txt k,
  parse_model fs src inc app order com scope output c = Some (Ok (target, txt, k)) ->
  target = dir_of src ++ [c_slash] ++ target_file_name (base_name src) (Some w_parsed) scope output /\
  exists stem ending,
    target = dir_of src ++ [c_slash] ++ w_parsed ++ [c_dot] ++ stem ++ scope_suffix scope ++ out_ext output ending /\
    stem ++ ending = strip_parsed (base_name src).
Proof.
  intros. split; [eapply parse_model_target; eassumption | eapply parse_model_target_shape; eassumption].
Qed.

Lemma parse_model_prefix_once :
  (forall name, let t := target_file_name name (Some w_parsed) [] None in
     target_file_name t (Some w_parsed) [] None = t /\
     (starts_with w_parsed_dot name = false -> t = w_parsed_dot ++ name) /\
     (starts_with w_parsed_dot name = true -> t = name)) /\
  (forall fs src inc app order com c target txt k,
     parse_model fs src inc app order com [] None c = Some (Ok (target, txt, k)) ->
     target = dir_of src ++ [c_slash] ++ w_parsed_dot ++ strip_parsed (base_name src)) /\
  (forall fs src src' inc app order com c target txt k target' txt' k',
     dir_of src' = dir_of src -> base_name src' = w_parsed_dot ++ base_name src ->
     starts_with w_parsed_dot (base_name src) = false ->
     parse_model fs src inc app order com [] None c = Some (Ok (target, txt, k)) ->
     parse_model fs src' inc app order com [] None c = Some (Ok (target', txt', k')) ->
     target' = target /\ target = dir_of src ++ [c_slash] ++ w_parsed_dot ++ base_name src).
Proof.
  split; [exact target_prefix_once_all|split; [exact parse_model_target_plain|exact parse_model_target_of_parsed]].
Qed.
